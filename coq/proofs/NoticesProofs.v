(* C08 — proofs about models/Notices.v *)
From Coq Require Import List NArith ZArith Bool Lia Sorting.Sorted Sorting.Permutation.
Import ListNotations.
Require Import V.lib.Bytes V.models.Notices.
Open Scope Z_scope.

(* ------------------------------------------------------------------------------------------ equality helpers *)

Lemma beq_eq : forall a b, beq a b = true <-> a = b.
Proof.
  induction a as [|x a IH]; destruct b as [|y b]; cbn; split; intro H; try reflexivity; try discriminate.
  - apply andb_true_iff in H. destruct H as [H1 H2]. apply N.eqb_eq in H1. apply IH in H2. subst. reflexivity.
  - inversion H; subst. apply andb_true_iff. split; [apply N.eqb_refl | apply IH; reflexivity].
Qed.

Lemma opt_n_eqb_eq : forall a b, opt_n_eqb a b = true <-> a = b.
Proof.
  destruct a as [x|], b as [y|]; cbn; split; intro H; try reflexivity; try discriminate.
  - apply N.eqb_eq in H. subst. reflexivity.
  - inversion H. apply N.eqb_refl.
Qed.

Lemma same_key_iff : forall u t k n, same_key u t k n = true <-> key_of n = (u, t, k).
Proof.
  intros u t k n. unfold same_key, key_of. rewrite !andb_true_iff, opt_n_eqb_eq, !beq_eq.
  split.
  - intros [[H1 H2] H3]. subst. reflexivity.
  - intro H. inversion H. auto.
Qed.

Lemma same_key_false : forall u t k n, same_key u t k n = false <-> key_of n <> (u, t, k).
Proof.
  intros. split.
  - intros H E. apply same_key_iff in E. congruence.
  - intro H. destruct (same_key u t k n) eqn:E; [|reflexivity]. apply same_key_iff in E. contradiction.
Qed.

Lemma static_match_key : forall f n, static_match f n = key_static_match f (key_of n).
Proof. reflexivity. Qed.

Lemma static_match_with_after : forall f c n, static_match (with_after f c) n = static_match f n.
Proof. reflexivity. Qed.

(* ------------------------------------------------------------------------------------------ the bump *)

Lemma bump_gt : forall c l, l < bump c (Some l).
Proof. intros c l. unfold bump. destruct (c >? l) eqn:E; lia. Qed.

(* ------------------------------------------------------------------------------------------ lists of notices *)

Lemma find_some_key : forall u t k l n,
  find (same_key u t k) l = Some n -> In n l /\ key_of n = (u, t, k).
Proof. intros u t k l n H. apply find_some in H. destruct H as [H1 H2]. apply same_key_iff in H2. auto. Qed.

Lemma find_none_key : forall u t k l,
  find (same_key u t k) l = None -> forall m, In m l -> key_of m <> (u, t, k).
Proof. intros u t k l H m Hm. apply same_key_false. eapply find_none; eauto. Qed.

Lemma replace_key_keys : forall u t k n' l,
  key_of n' = (u, t, k) -> map key_of (replace_key u t k n' l) = map key_of l.
Proof.
  intros u t k n' l Hk. induction l as [|m l IH]; cbn; [reflexivity|].
  destruct (same_key u t k m) eqn:E; cbn.
  - apply same_key_iff in E. rewrite Hk, E. reflexivity.
  - rewrite IH. reflexivity.
Qed.

Lemma replace_key_in : forall u t k n' l m,
  NoDup (map key_of l) -> In m (replace_key u t k n' l) ->
  m = n' \/ (In m l /\ key_of m <> (u, t, k)).
Proof.
  intros u t k n' l m. induction l as [|x l IH]; cbn; intros ND H; [contradiction|].
  inversion ND as [|? ? Hx ND']; subst.
  destruct (same_key u t k x) eqn:E.
  - destruct H as [H|H]; [left; auto|]. right. split; [right; exact H|].
    apply same_key_iff in E. intro Hm. apply Hx. rewrite E, <- Hm. apply in_map. exact H.
  - destruct H as [H|H].
    + subst. right. split; [left; reflexivity | apply same_key_false; exact E].
    + destruct (IH ND' H) as [H'|[H1 H2]]; [left; exact H' | right; split; [right; exact H1 | exact H2]].
Qed.

Lemma replace_key_keep : forall u t k n' l m,
  In m l -> key_of m <> (u, t, k) -> In m (replace_key u t k n' l).
Proof.
  intros u t k n' l m. induction l as [|x l IH]; cbn; intros H Hk; [contradiction|].
  destruct (same_key u t k x) eqn:E.
  - destruct H as [H|H]; [subst; apply same_key_iff in E; contradiction | right; exact H].
  - destruct H as [H|H]; [left; exact H | right; apply IH; assumption].
Qed.

Lemma replace_key_has : forall u t k n' l n,
  find (same_key u t k) l = Some n -> In n' (replace_key u t k n' l).
Proof.
  intros u t k n' l n. induction l as [|x l IH]; cbn; intro H; [discriminate|].
  destruct (same_key u t k x) eqn:E; [left; reflexivity | right; apply IH; exact H].
Qed.

Lemma find_replace_key : forall u t k n' l n,
  find (same_key u t k) l = Some n -> key_of n' = (u, t, k) ->
  find (same_key u t k) (replace_key u t k n' l) = Some n'.
Proof.
  intros u t k n' l n. induction l as [|x l IH]; cbn; intros H Hk; [discriminate|].
  destruct (same_key u t k x) eqn:E; cbn.
  - apply same_key_iff in Hk. rewrite Hk. reflexivity.
  - rewrite E. apply IH; assumption.
Qed.

Lemma NoDup_app_one : forall {A} (l : list A) x, NoDup l -> ~ In x l -> NoDup (l ++ [x]).
Proof.
  intros A l x ND Hx. induction l as [|y l IH]; cbn.
  - constructor; [intros [] | constructor].
  - inversion ND; subst. constructor.
    + intro H. apply in_app_iff in H. destruct H as [H|[H|[]]]; [contradiction|]. subst. apply Hx. left. reflexivity.
    + apply IH; [assumption|]. intro H. apply Hx. right. exact H.
Qed.

Lemma find_app_new : forall u t k l n',
  find (same_key u t k) l = None -> key_of n' = (u, t, k) ->
  find (same_key u t k) (l ++ [n']) = Some n'.
Proof.
  intros u t k l n'. induction l as [|x l IH]; cbn; intros H Hk.
  - apply same_key_iff in Hk. rewrite Hk. reflexivity.
  - destruct (same_key u t k x) eqn:E; [discriminate | apply IH; assumption].
Qed.

(* ------------------------------------------------------------------------------------------ AddNotice, server clock *)

Definition keys_unique (st : state) : Prop := NoDup (map key_of (s_notices st)).

(* every last-repeated time is at most lastNoticeTimestamp *)
Definition bounded (st : state) : Prop :=
  forall n, In n (s_notices st) -> exists L, s_last_ts st = Some L /\ n_lr n <= L.

Definition good (st : state) : Prop := keys_unique st /\ bounded st.

Lemma good_empty : good empty_state.
Proof. split; [constructor | intros n H; inversion H]. Qed.

(* a restart gives back the same notice state, provided every notice field is both written and restored *)
Lemma restart_id : persist_ok = true -> forall st, restart st = st.
Proof.
  intros H st. unfold persist_ok in H. rewrite !andb_true_iff in H. destruct H as [[[[[H1 H2] H3] H4] H5] H6].
  unfold restart, reload, persist. rewrite H1, H2, H3, H4, H5, H6. destruct st; reflexivity.
Qed.

(* what one server-clock AddNotice does, membership-wise *)
Lemma add_server_spec : forall st a st' flag id,
  good st -> a_time a = None -> add_notice st a = Some (st', flag, id) ->
  let T := bump (a_clock a) (s_last_ts st) in
  s_last_ts st' = Some T /\
  (forall L, s_last_ts st = Some L -> L < T) /\
  good st' /\
  (* the notice of this key after the call *)
  (exists n', find (same_key (a_user a) (a_type a) (a_key a)) (s_notices st') = Some n' /\
              In n' (s_notices st') /\ key_of n' = akey a /\
              (flag = true -> n_lr n' = T) /\
              (flag = false -> exists n0, In n0 (s_notices st) /\ key_of n0 = akey a /\ n_lr n' = n_lr n0)) /\
  (* every other notice is untouched *)
  (forall m, In m (s_notices st') -> key_of m <> akey a -> In m (s_notices st)) /\
  (forall m, In m (s_notices st) -> key_of m <> akey a -> In m (s_notices st')) /\
  (forall m, In m (s_notices st') -> key_of m = akey a ->
             exists n', find (same_key (a_user a) (a_type a) (a_key a)) (s_notices st') = Some n' /\ m = n').
Proof.
  intros st a st' flag id [KU BD] Ht H T.
  unfold add_notice in H. rewrite Ht in H.
  destruct (negb (validate a)); [discriminate|].
  fold T in H.
  assert (HT : forall L, s_last_ts st = Some L -> L < T).
  { intros L HL. unfold T. rewrite HL. apply bump_gt. }
  destruct (find (same_key (a_user a) (a_type a) (a_key a)) (s_notices st)) as [n|] eqn:F.
  - (* existing notice *)
    inversion H; subst st' flag id; clear H. cbn [s_last_ts s_notices].
    set (rep := (a_ra a =? 0) || (T >? n_lr n + a_ra a)).
    set (n' := mkN (n_id n) (n_user n) (n_type n) (n_key n) (n_first n) T (if rep then T else n_lr n)
                   (n_occ n + 1)%N (a_ra a)).
    destruct (find_some_key _ _ _ _ _ F) as [Hin Hkey].
    assert (Hk' : key_of n' = akey a) by (unfold akey; rewrite <- Hkey; reflexivity).
    assert (Hlr : n_lr n' <= T).
    { cbn. destruct rep; [lia|]. destruct (BD n Hin) as [L [HL Hle]]. specialize (HT L HL). lia. }
    split; [reflexivity|]. split; [exact HT|].
    split.
    { split.
      - unfold keys_unique. cbn [s_notices]. rewrite replace_key_keys by exact Hk'. exact KU.
      - intros m Hm. cbn [s_notices s_last_ts] in *. exists T. split; [reflexivity|].
        destruct (replace_key_in _ _ _ _ _ _ KU Hm) as [->|[Hm1 _]]; [exact Hlr|].
        destruct (BD m Hm1) as [L [HL Hle]]. specialize (HT L HL). lia. }
    split.
    { exists n'. split; [apply find_replace_key with (n := n); assumption|].
      split; [eapply replace_key_has; exact F|]. split; [exact Hk'|].
      split.
      - intro Hr. cbn. fold rep. rewrite Hr. reflexivity.
      - intro Hr. exists n. split; [exact Hin|]. split; [exact Hkey|]. cbn. fold rep. rewrite Hr. reflexivity. }
    split.
    { intros m Hm Hk. destruct (replace_key_in _ _ _ _ _ _ KU Hm) as [->|[Hm1 _]]; [contradiction | exact Hm1]. }
    split.
    { intros m Hm Hk. apply replace_key_keep; assumption. }
    { intros m Hm Hk. exists n'. split; [apply find_replace_key with (n := n); assumption|].
      destruct (replace_key_in _ _ _ _ _ _ KU Hm) as [->|[_ Hne]]; [reflexivity | contradiction]. }
  - (* first occurrence *)
    inversion H; subst st' flag id; clear H. cbn [s_last_ts s_notices].
    set (n' := mkN (s_last_id st + 1)%N (a_user a) (a_type a) (a_key a) T T T 1%N (a_ra a)).
    assert (Hk' : key_of n' = akey a) by reflexivity.
    pose proof (find_none_key _ _ _ _ F) as Hnone.
    split; [reflexivity|]. split; [exact HT|].
    split.
    { split.
      - unfold keys_unique. cbn [s_notices]. rewrite map_app. cbn.
        apply NoDup_app_one; [exact KU|]. intro Hin. apply in_map_iff in Hin. destruct Hin as [m [Hm1 Hm2]].
        apply (Hnone m Hm2). exact Hm1.
      - intros m Hm. cbn [s_notices s_last_ts] in *. exists T. split; [reflexivity|].
        apply in_app_iff in Hm. destruct Hm as [Hm|[<-|[]]]; [|cbn; lia].
        destruct (BD m Hm) as [L [HL Hle]]. specialize (HT L HL). lia. }
    split.
    { exists n'. split; [apply find_app_new; assumption|]. split; [apply in_app_iff; right; left; reflexivity|].
      split; [exact Hk'|]. split; [reflexivity | discriminate]. }
    split.
    { intros m Hm Hk. apply in_app_iff in Hm. destruct Hm as [Hm|[<-|[]]]; [exact Hm | contradiction]. }
    split.
    { intros m Hm Hk. apply in_app_iff. left. exact Hm. }
    { intros m Hm Hk. exists n'. split; [apply find_app_new; assumption|].
      apply in_app_iff in Hm. destruct Hm as [Hm|[<-|[]]]; [|reflexivity].
      exfalso. apply (Hnone m Hm). exact Hk. }
Qed.

(* ------------------------------------------------------------------------------------------ sorting *)

Lemma ins_perm : forall n l, Permutation (ins n l) (n :: l).
Proof.
  intros n l. induction l as [|m l IH]; cbn; [apply Permutation_refl|].
  destruct (n_lr n <? n_lr m); [apply Permutation_refl|].
  eapply Permutation_trans; [apply perm_skip; exact IH | apply perm_swap].
Qed.

Lemma sort_lr_perm : forall l, Permutation (sort_lr l) l.
Proof.
  induction l as [|n l IH]; cbn; [constructor|].
  eapply Permutation_trans; [apply ins_perm | apply perm_skip; exact IH].
Qed.

Lemma sort_lr_in : forall l n, In n (sort_lr l) <-> In n l.
Proof.
  intros l n. split; intro H.
  - eapply Permutation_in; [apply sort_lr_perm | exact H].
  - eapply Permutation_in; [apply Permutation_sym; apply sort_lr_perm | exact H].
Qed.

Definition le_lr (a b : notice) : Prop := n_lr a <= n_lr b.
Definition lt_lr (a b : notice) : Prop := n_lr a < n_lr b.

Lemma ins_sorted : forall n l, StronglySorted le_lr l -> StronglySorted le_lr (ins n l).
Proof.
  intros n l. induction l as [|m l IH]; cbn; intro S.
  - constructor; constructor.
  - inversion S as [|? ? S' F]; subst.
    destruct (n_lr n <? n_lr m) eqn:E.
    + constructor; [exact S|]. apply Z.ltb_lt in E. constructor; [unfold le_lr; lia|].
      eapply Forall_impl; [|exact F]. intros x Hx. unfold le_lr in *. lia.
    + apply Z.ltb_ge in E. constructor; [apply IH; exact S'|].
      rewrite Forall_forall. intros x Hx.
      eapply Permutation_in in Hx; [|apply ins_perm]. destruct Hx as [<-|Hx]; [exact E|].
      rewrite Forall_forall in F. apply F. exact Hx.
Qed.

Lemma sort_lr_sorted : forall l, StronglySorted le_lr (sort_lr l).
Proof. induction l as [|n l IH]; cbn; [constructor | apply ins_sorted; exact IH]. Qed.

Lemma sorted_strict : forall l, StronglySorted le_lr l -> NoDup (map n_lr l) -> StronglySorted lt_lr l.
Proof.
  induction l as [|n l IH]; intros S ND; [constructor|].
  inversion S as [|? ? S' F]; subst. cbn in ND. inversion ND as [|? ? Hn ND']; subst.
  constructor; [apply IH; assumption|].
  rewrite Forall_forall in *. intros x Hx. specialize (F x Hx). unfold le_lr, lt_lr in *.
  assert (n_lr n <> n_lr x) by (intro E; apply Hn; rewrite E; apply in_map; exact Hx). lia.
Qed.

Lemma NoDup_map_filter : forall {A B} (g : A -> B) p (l : list A), NoDup (map g l) -> NoDup (map g (List.filter p l)).
Proof.
  intros A B g p l. induction l as [|x l IH]; cbn; intro ND; [constructor|].
  inversion ND as [|? ? Hx ND']; subst.
  destruct (p x); cbn; [constructor|]; auto.
  intro H. apply Hx. apply in_map_iff in H. destruct H as [y [Hy1 Hy2]]. apply filter_In in Hy2.
  rewrite <- Hy1. apply in_map. tauto.
Qed.

(* ------------------------------------------------------------------------------------------ the cursor *)

Lemma max_lr_spec : forall r c,
  match max_lr c r with
  | None => c = None /\ r = []
  | Some m => (forall n, In n r -> n_lr n <= m) /\ (forall cv, c = Some cv -> cv <= m) /\
              (c = Some m \/ exists n, In n r /\ n_lr n = m)
  end.
Proof.
  unfold max_lr. induction r as [|x r IH]; intro c; cbn.
  - destruct c as [cv|]; [|split; reflexivity].
    split; [intros n []|]. split; [intros ? E; inversion E; lia | left; reflexivity].
  - specialize (IH (match c with None => Some (n_lr x) | Some a => Some (Z.max a (n_lr x)) end)).
    destruct (fold_left _ r _) as [m|].
    + destruct IH as [I1 [I2 I3]]. split; [|split].
      * intros n [<-|Hn]; [|apply I1; exact Hn].
        destruct c as [cv|]; [specialize (I2 _ eq_refl) | specialize (I2 _ eq_refl)]; lia.
      * intros cv ->. specialize (I2 _ eq_refl). lia.
      * destruct I3 as [I3|[n [Hn1 Hn2]]]; [|right; exists n; split; [right; exact Hn1 | exact Hn2]].
        destruct c as [cv|]; inversion I3 as [E].
        -- destruct (Z.max_spec cv (n_lr x)) as [[_ ->]|[_ ->]]; [right; exists x; split; [left|]; reflexivity | left; reflexivity].
        -- right. exists x. split; [left|]; reflexivity.
    + destruct IH as [I1 _]. destruct c; discriminate.
Qed.

(* ------------------------------------------------------------------------------------------ the invariant of one polling client *)

Definition inv (f : nfilter) (st : state) (c : option Z) (pend : list nkey) : Prop :=
  good st /\
  (forall cv, c = Some cv -> exists L, s_last_ts st = Some L /\ cv <= L) /\
  (forall n, In n (s_notices st) -> static_match f n = true -> (after_ok c n = true <-> In (key_of n) pend)) /\
  (forall k, In k pend -> exists n, In n (s_notices st) /\ key_of n = k).

Lemma inv_init : forall f, inv f empty_state None [].
Proof.
  intro f. split; [apply good_empty|]. split; [intros cv E; discriminate|].
  split; [intros n []|intros k []].
Qed.

Lemma inv_add : forall f st c pend a st' flag id,
  inv f st c pend -> a_time a = None -> add_notice st a = Some (st', flag, id) ->
  inv f st' c (if flag then akey a :: pend else pend).
Proof.
  intros f st c pend a st' flag id [G [IC [ID IE]]] Ht H.
  destruct (add_server_spec _ _ _ _ _ G Ht H) as [HL [HT [G' [[n' [_ [Hn'in [Hn'k [Hft Hff]]]]] [Hother [Hkeep Hsame]]]]]].
  split; [exact G'|]. split; [|split].
  - intros cv E. destruct (IC cv E) as [L [HL0 Hle]]. eexists. split; [exact HL|]. specialize (HT L HL0). lia.
  - intros m Hm Hs.
    assert (Dec : key_of m = akey a \/ key_of m <> akey a).
    { destruct (same_key (a_user a) (a_type a) (a_key a) m) eqn:E;
        [left; apply same_key_iff; exact E | right; apply same_key_false; exact E]. }
    destruct Dec as [Hk|Hk].
    + destruct (Hsame m Hm Hk) as [n'' [_ ->]]. clear Hsame.
      destruct flag.
      * (* new or repeated: stamped after everything, hence after the cursor; and now pending *)
        split; [intros _; left; symmetry; exact Hk|]. intros _.
        destruct c as [cv|]; [|reflexivity]. cbn.
        destruct (IC cv eq_refl) as [L [HL0 Hle]]. specialize (HT L HL0).
        (* n'' is the notice of this key: its last-repeated is T *)
        destruct (add_server_spec _ _ _ _ _ G Ht H) as [_ [_ [_ [[n1 [Hf1 [_ [_ [Hlr1 _]]]]] [_ [_ Hsame1]]]]]].
        destruct (Hsame1 n'' Hm Hk) as [n2 [Hf2 ->]]. rewrite Hf1 in Hf2. inversion Hf2; subst n2.
        rewrite (Hlr1 eq_refl). apply Z.gtb_lt. lia.
      * (* suppressed repeat: last-repeated unchanged, pending unchanged *)
        destruct (add_server_spec _ _ _ _ _ G Ht H) as [_ [_ [_ [[n1 [Hf1 [_ [_ [_ Hlr1]]]]] [_ [_ Hsame1]]]]]].
        destruct (Hsame1 n'' Hm Hk) as [n2 [Hf2 ->]]. rewrite Hf1 in Hf2. inversion Hf2; subst n2.
        destruct (Hlr1 eq_refl) as [n0 [Hn0 [Hk0 Hlr0]]].
        assert (Hs0 : static_match f n0 = true) by (rewrite static_match_key, Hk0, <- Hk, <- static_match_key; exact Hs).
        specialize (ID n0 Hn0 Hs0). rewrite Hk0 in ID. rewrite Hk.
        assert (Ha : after_ok c n1 = after_ok c n0) by (unfold after_ok; rewrite Hlr0; reflexivity).
        rewrite Ha. exact ID.
    + specialize (ID m (Hother m Hm Hk) Hs).
      destruct flag; [|exact ID].
      rewrite ID. split; [intro Hp; right; exact Hp|]. intros [Hp|Hp]; [symmetry in Hp; contradiction | exact Hp].
  - intros k Hk.
    assert (Hk' : k = akey a \/ In k pend) by (destruct flag; [destruct Hk; auto | auto]).
    destruct Hk' as [->|Hp]; [exists n'; split; assumption|].
    destruct (IE k Hp) as [n [Hn1 Hn2]].
    assert (Dec : key_of n = akey a \/ key_of n <> akey a).
    { destruct (same_key (a_user a) (a_type a) (a_key a) n) eqn:E;
        [left; apply same_key_iff; exact E | right; apply same_key_false; exact E]. }
    destruct Dec as [Hka|Hka].
    + exists n'. split; [exact Hn'in | rewrite Hn'k, <- Hka; exact Hn2].
    + exists n. split; [apply Hkeep; assumption | exact Hn2].
Qed.

(* last-repeated times are pairwise distinct in a good state reached by server-clock additions *)
Definition lr_distinct (st : state) : Prop := NoDup (map n_lr (s_notices st)).

Lemma poll_members : forall st f c n,
  In n (fst (poll st f c)) <-> In n (s_notices st) /\ static_match f n = true /\ after_ok c n = true.
Proof.
  intros st f c n. unfold poll, notices. cbn [fst]. rewrite sort_lr_in, filter_In.
  unfold matches. rewrite static_match_with_after. cbn [f_after with_after]. rewrite andb_true_iff. tauto.
Qed.

Lemma inv_poll : forall f st c pend out c',
  inv f st c pend -> poll st f c = (out, c') ->
  (forall n, In n out -> In n (s_notices st) /\ static_match f n = true /\ In (key_of n) pend) /\
  (forall k, In k pend -> key_static_match f k = true -> exists n, In n out /\ key_of n = k) /\
  NoDup (map key_of out) /\
  StronglySorted le_lr out /\
  inv f st c' [].
Proof.
  intros f st c pend out c' [G [IC [ID IE]]] HP.
  assert (Hout : out = fst (poll st f c)) by (rewrite HP; reflexivity).
  assert (Hc' : c' = max_lr c out) by (unfold poll in HP; inversion HP; reflexivity).
  assert (Hmem : forall n, In n out <-> In n (s_notices st) /\ static_match f n = true /\ after_ok c n = true)
    by (intro n; rewrite Hout; apply poll_members).
  split; [|split; [|split; [|split]]].
  - intros n Hn. apply Hmem in Hn. destruct Hn as [H1 [H2 H3]]. split; [exact H1|]. split; [exact H2|].
    apply (ID n H1 H2). exact H3.
  - intros k Hk Hs. destruct (IE k Hk) as [n [Hn1 Hn2]]. exists n. split; [|exact Hn2].
    apply Hmem. assert (Hs' : static_match f n = true) by (rewrite static_match_key, Hn2; exact Hs).
    split; [exact Hn1|]. split; [exact Hs'|]. apply (ID n Hn1 Hs'). rewrite Hn2. exact Hk.
  - rewrite Hout. unfold poll, notices. cbn [fst].
    eapply Permutation_NoDup; [apply Permutation_map; apply Permutation_sym; apply sort_lr_perm|].
    apply NoDup_map_filter. apply G.
  - rewrite Hout. unfold poll, notices. cbn [fst]. apply sort_lr_sorted.
  - pose proof (max_lr_spec out c) as MS. rewrite <- Hc' in MS.
    split; [exact G|]. split; [|split; [|intros k []]].
    + intros cv E. subst c'. rewrite E in MS. destruct MS as [_ [_ [M3|[n [Hn1 Hn2]]]]].
      * apply IC. exact M3.
      * apply Hmem in Hn1. destruct Hn1 as [Hn1 _]. destruct G as [_ BD]. destruct (BD n Hn1) as [L [HL Hle]].
        exists L. split; [exact HL | lia].
    + intros n Hn Hs. split; [|intros []]. intro Ha. exfalso.
      destruct c' as [m|].
      * destruct MS as [M1 [M2 _]]. cbn in Ha. apply Z.gtb_lt in Ha.
        destruct (after_ok c n) eqn:Hac.
        -- assert (In n out) by (apply Hmem; auto). specialize (M1 n H). lia.
        -- destruct c as [cv|]; [|discriminate]. cbn in Hac. specialize (M2 cv eq_refl).
           rewrite Z.gtb_ltb in Hac. apply Z.ltb_ge in Hac. lia.
      * destruct MS as [-> ->]. assert (In n []) by (apply Hmem; auto). contradiction.
Qed.

(* ------------------------------------------------------------------------------------------ C08_exactly_once *)

Definition poll_ok (f : nfilter) (out : list notice) (pend : list nkey) : Prop :=
  (forall n, In n out -> static_match f n = true /\ In (key_of n) pend) /\
  (forall k, In k pend -> key_static_match f k = true -> exists n, In n out /\ key_of n = k) /\
  NoDup (map key_of out) /\
  StronglySorted le_lr out.

Lemma hrun_ok : persist_ok = true -> forall f evs st c pend,
  inv f st c pend -> forallb ev_server_clock evs = true ->
  Forall (fun r => poll_ok f (fst r) (snd r)) (hrun f st c pend evs).
Proof.
  intros POK f. induction evs as [|e evs IH]; intros st c pend I SC; cbn [hrun]; [constructor|].
  cbn in SC. apply andb_true_iff in SC. destruct SC as [SC1 SC2].
  destruct e as [a| |].
  - cbn in SC1. destruct (a_time a) eqn:Ht; [discriminate|].
    destruct (add_notice st a) as [[[st' flag] id]|] eqn:HA.
    + apply IH; [|exact SC2]. eapply inv_add; eassumption.
    + apply IH; assumption.
  - destruct (poll st f c) as [out c'] eqn:HP.
    destruct (inv_poll _ _ _ _ _ _ I HP) as [P1 [P2 [P3 [P4 I']]]].
    constructor; [|apply IH; assumption].
    cbn. split; [|split; [exact P2 | split; [exact P3 | exact P4]]].
    intros n Hn. destruct (P1 n Hn) as [_ [Hs Hp]]. split; assumption.
  - rewrite (restart_id POK). apply IH; assumption.
Qed.

Theorem exactly_once : persist_ok = true -> forall f evs out pend,
  forallb ev_server_clock evs = true ->
  In (out, pend) (hrun f empty_state None [] evs) ->
  poll_ok f out pend.
Proof.
  intros POK f evs out pend SC H.
  pose proof (hrun_ok POK f evs empty_state None [] (inv_init f) SC) as F.
  rewrite Forall_forall in F. apply (F _ H).
Qed.

(* strict order inside one answer: last-repeated times are pairwise distinct along server-clock histories *)
Lemma add_lr_distinct : forall st a st' flag id,
  good st -> lr_distinct st -> a_time a = None -> add_notice st a = Some (st', flag, id) -> lr_distinct st'.
Proof.
  intros st a st' flag id G LD Ht H.
  pose proof G as [KU BD].
  unfold add_notice in H. rewrite Ht in H. destruct (negb (validate a)); [discriminate|].
  set (T := bump (a_clock a) (s_last_ts st)) in *.
  assert (HT : forall L, s_last_ts st = Some L -> L < T) by (intros L HL; unfold T; rewrite HL; apply bump_gt).
  assert (Hfresh : ~ In T (map n_lr (s_notices st))).
  { intro Hin. apply in_map_iff in Hin. destruct Hin as [m [Hm1 Hm2]]. destruct (BD m Hm2) as [L [HL Hle]].
    specialize (HT L HL). lia. }
  destruct (find (same_key (a_user a) (a_type a) (a_key a)) (s_notices st)) as [n|] eqn:F.
  - inversion H; subst st' flag id; clear H. unfold lr_distinct in *. cbn [s_notices].
    set (rep := (a_ra a =? 0) || (T >? n_lr n + a_ra a)).
    set (n' := mkN _ _ _ _ _ _ _ _ _).
    clear KU BD G. revert LD Hfresh F. generalize (s_notices st) as l.
    induction l as [|x l IH]; cbn; intros LD Hfresh F; [constructor|].
    inversion LD as [|? ? Hx LD']; subst.
    destruct (same_key (a_user a) (a_type a) (a_key a) x) eqn:E.
    + inversion F; subst x. cbn. constructor; [|exact LD'].
      unfold n'. cbn. destruct rep; [intro Hin; apply Hfresh; right; exact Hin | exact Hx].
    + cbn. constructor.
      * intro Hin. apply in_map_iff in Hin. destruct Hin as [m [Hm1 Hm2]].
        assert (Hcase : m = n' \/ In m l).
        { clear - Hm2. induction l as [|y l IHl]; cbn in Hm2; [contradiction|].
          destruct (same_key (a_user a) (a_type a) (a_key a) y); destruct Hm2 as [Hm2|Hm2]; auto.
          - right; right; exact Hm2.
          - right; left; exact Hm2.
          - destruct (IHl Hm2); auto. right; right; assumption. }
        destruct Hcase as [->|Hml].
        -- unfold n' in Hm1. cbn in Hm1. destruct rep.
           ++ apply Hfresh. left. symmetry. exact Hm1.
           ++ apply Hx. rewrite <- Hm1. apply find_some in F. apply in_map. tauto.
        -- apply Hx. rewrite <- Hm1. apply in_map. exact Hml.
      * apply IH; [exact LD' | intro Hin; apply Hfresh; right; exact Hin | exact F].
  - inversion H; subst st' flag id; clear H. unfold lr_distinct in *. cbn [s_notices].
    rewrite map_app. cbn. apply NoDup_app_one; assumption.
Qed.

Definition inv2 (f : nfilter) (st : state) (c : option Z) (pend : list nkey) : Prop :=
  inv f st c pend /\ lr_distinct st.

Lemma hrun_strict : persist_ok = true -> forall f evs st c pend,
  inv2 f st c pend -> forallb ev_server_clock evs = true ->
  Forall (fun r => StronglySorted lt_lr (fst r)) (hrun f st c pend evs).
Proof.
  intros POK f. induction evs as [|e evs IH]; intros st c pend [I LD] SC; cbn [hrun]; [constructor|].
  cbn in SC. apply andb_true_iff in SC. destruct SC as [SC1 SC2].
  destruct e as [a| |].
  - cbn in SC1. destruct (a_time a) eqn:Ht; [discriminate|].
    destruct (add_notice st a) as [[[st' flag] id]|] eqn:HA.
    + apply IH; [|exact SC2]. split; [eapply inv_add; eassumption|].
      eapply add_lr_distinct; try eassumption. apply I.
    + apply IH; [split|]; assumption.
  - destruct (poll st f c) as [out c'] eqn:HP.
    destruct (inv_poll _ _ _ _ _ _ I HP) as [_ [_ [_ [P4 I']]]].
    constructor; [|apply IH; [split|]; assumption].
    cbn. apply sorted_strict; [exact P4|].
    assert (Hout : out = fst (poll st f c)) by (rewrite HP; reflexivity).
    rewrite Hout. unfold poll, notices. cbn [fst].
    eapply Permutation_NoDup; [apply Permutation_map; apply Permutation_sym; apply sort_lr_perm|].
    apply NoDup_map_filter. exact LD.
  - rewrite (restart_id POK). apply IH; [split|]; assumption.
Qed.

Theorem answers_strictly_ordered : persist_ok = true -> forall f evs out pend,
  forallb ev_server_clock evs = true ->
  In (out, pend) (hrun f empty_state None [] evs) ->
  StronglySorted lt_lr out.
Proof.
  intros POK f evs out pend SC H.
  assert (I : inv2 f empty_state None []) by (split; [apply inv_init | constructor]).
  pose proof (hrun_strict POK f evs _ _ _ I SC) as F. rewrite Forall_forall in F. apply (F _ H).
Qed.

(* ------------------------------------------------------------------------------------------ C08_timestamps_strict *)

Definition add_server_clock (a : addargs) : bool := match a_time a with None => true | Some _ => false end.

Lemma flag_stamps_strict : persist_ok = true -> forall l st,
  good st -> forallb ev_server_clock l = true ->
  (forall L z, s_last_ts st = Some L -> In z (flag_stamps st l) -> L < z) /\
  StronglySorted Z.lt (flag_stamps st l).
Proof.
  intros POK. induction l as [|e l IH]; intros st G SC; cbn [flag_stamps]; [split; [intros ? ? ? []|constructor]|].
  cbn in SC. apply andb_true_iff in SC. destruct SC as [SC1 SC2].
  destruct e as [a| |]; [|apply IH; assumption|rewrite (restart_id POK); apply IH; assumption].
  cbn in SC1. destruct (a_time a) eqn:Ht; [discriminate|].
  destruct (add_notice st a) as [[[st' flag] id]|] eqn:HA; [|apply IH; assumption].
  destruct (add_server_spec _ _ _ _ _ G Ht HA) as [HL [HT [G' [[n' [Hf [_ [_ [Hft _]]]]] _]]]].
  rewrite Hf. destruct (IH st' G' SC2) as [I1 I2].
  destruct flag.
  - rewrite (Hft eq_refl). split.
    + intros L z HL0 [<-|Hz]; [apply HT; exact HL0|]. specialize (HT L HL0). specialize (I1 _ z HL Hz). lia.
    + constructor; [exact I2|]. rewrite Forall_forall. intros z Hz. apply (I1 _ z HL Hz).
  - split; [|exact I2]. intros L z HL0 Hz. specialize (HT L HL0). specialize (I1 _ z HL Hz). lia.
Qed.

Theorem timestamps_strict : persist_ok = true -> forall l,
  forallb ev_server_clock l = true -> StronglySorted Z.lt (flag_stamps empty_state l).
Proof. intros POK l SC. apply (flag_stamps_strict POK); [apply good_empty | exact SC]. Qed.

(* the state reached by server-clock additions is good: keys unique, every last-repeated <= lastNoticeTimestamp *)
Lemma reach_good : forall l st, good st -> forallb add_server_clock l = true -> good (add_all st l).
Proof.
  induction l as [|a l IH]; intros st G SC; cbn; [exact G|].
  cbn in SC. apply andb_true_iff in SC. destruct SC as [SC1 SC2].
  unfold add_server_clock in SC1. destruct (a_time a) eqn:Ht; [discriminate|].
  destruct (add_notice st a) as [[[st' flag] id]|] eqn:HA; [|apply IH; assumption].
  apply IH; [|exact SC2]. apply (add_server_spec _ _ _ _ _ G Ht HA).
Qed.

Lemma state_after_good : persist_ok = true -> forall l st,
  good st -> forallb ev_server_clock l = true -> good (state_after st l).
Proof.
  intros POK. induction l as [|e l IH]; intros st G SC; cbn [state_after]; [exact G|].
  cbn in SC. apply andb_true_iff in SC. destruct SC as [SC1 SC2].
  destruct e as [a| |]; [|apply IH; assumption|rewrite (restart_id POK); apply IH; assumption].
  cbn in SC1. destruct (a_time a) eqn:Ht; [discriminate|].
  destruct (add_notice st a) as [[[st' flag] id]|] eqn:HA; [|apply IH; assumption].
  apply IH; [|exact SC2]. apply (add_server_spec _ _ _ _ _ G Ht HA).
Qed.

(* a new-or-repeated addition is stamped strictly after every notice already in the state, restarts included *)
Theorem new_stamp_after_all : persist_ok = true -> forall l a st' id,
  forallb ev_server_clock l = true -> a_time a = None ->
  add_notice (state_after empty_state l) a = Some (st', true, id) ->
  exists n', find (same_key (a_user a) (a_type a) (a_key a)) (s_notices st') = Some n' /\
             forall m, In m (s_notices (state_after empty_state l)) -> n_lr m < n_lr n'.
Proof.
  intros POK l a st' id SC Ht HA.
  assert (G : good (state_after empty_state l)) by (apply (state_after_good POK); [apply good_empty | exact SC]).
  destruct (add_server_spec _ _ _ _ _ G Ht HA) as [_ [HT [_ [[n' [Hf [_ [_ [Hft _]]]]] _]]]].
  exists n'. split; [exact Hf|]. intros m Hm. rewrite (Hft eq_refl).
  destruct G as [_ BD]. destruct (BD m Hm) as [L [HL Hle]]. specialize (HT L HL). lia.
Qed.

(* why the floor has to be restored: if lastNoticeTimestamp came back as zero after a restart, the first addition at a
   clock reading that is not later than the client's cursor would never be delivered *)
Definition lost_after_restart_evs : list event :=
  [EAdd (mkA 100 None (ty 1) (ky 0) 0 None); EAdd (mkA 100 None (ty 1) (ky 0) 0 None); EPoll; ERestart;
   EAdd (mkA 100 None (ty 1) (ky 1) 0 None); EPoll].

Fixpoint hrun_forgetful (f : nfilter) (st : state) (c : option Z) (pend : list nkey) (evs : list event)
  : list (list notice * list nkey) :=
  match evs with
  | [] => []
  | EAdd a :: r =>
      match add_notice st a with
      | None => hrun_forgetful f st c pend r
      | Some (st', flag, _) => hrun_forgetful f st' c (if flag then akey a :: pend else pend) r
      end
  | EPoll :: r => let '(out, c') := poll st f c in (out, pend) :: hrun_forgetful f st c' [] r
  | ERestart :: r => hrun_forgetful f (mkS (s_notices st) None (s_last_id st)) c pend r
  end.

Theorem forgetful_restart_loses_notice :
  map (fun r => (map n_id (fst r), List.length (snd r))) (hrun_forgetful no_filter empty_state None [] lost_after_restart_evs)
    = [([1%N], 2%nat); ([], 1%nat)] /\
  map (fun r => (map n_id (fst r), List.length (snd r))) (hrun no_filter empty_state None [] lost_after_restart_evs)
    = [([1%N], 2%nat); ([2%N], 1%nat)].
Proof. split; vm_compute; reflexivity. Qed.

(* ------------------------------------------------------------------------------------------ C08_repeat_after *)

Theorem repeat_after_rule : forall st a n st' flag id,
  a_time a = None -> add_notice st a = Some (st', flag, id) ->
  find (same_key (a_user a) (a_type a) (a_key a)) (s_notices st) = Some n ->
  let T := bump (a_clock a) (s_last_ts st) in
  flag = ((a_ra a =? 0) || (T >? n_lr n + a_ra a)) /\
  exists n', find (same_key (a_user a) (a_type a) (a_key a)) (s_notices st') = Some n' /\
             n_lr n' = (if flag then T else n_lr n) /\ n_occ n' = (n_occ n + 1)%N /\ n_id n' = n_id n /\ id = n_id n.
Proof.
  intros st a n st' flag id Ht H F T.
  unfold add_notice in H. rewrite Ht, F in H. destruct (negb (validate a)); [discriminate|].
  fold T in H. inversion H; subst st' flag id; clear H. split; [reflexivity|].
  eexists. split; [cbn [s_notices]; eapply find_replace_key; [exact F|]|].
  - destruct (find_some_key _ _ _ _ _ F) as [_ Hk]. unfold key_of in *. cbn. exact Hk.
  - cbn. auto.
Qed.

Theorem repeat_after_suppressed : forall st a n st' flag id,
  a_time a = None -> add_notice st a = Some (st', flag, id) ->
  find (same_key (a_user a) (a_type a) (a_key a)) (s_notices st) = Some n ->
  a_ra a <> 0 -> bump (a_clock a) (s_last_ts st) <= n_lr n + a_ra a ->
  flag = false /\
  exists n', find (same_key (a_user a) (a_type a) (a_key a)) (s_notices st') = Some n' /\
             n_lr n' = n_lr n /\ n_occ n' = (n_occ n + 1)%N.
Proof.
  intros st a n st' flag id Ht H F Hra Hle.
  destruct (repeat_after_rule _ _ _ _ _ _ Ht H F) as [Hf [n' [Hf' [Hlr [Hocc _]]]]].
  assert (Hff : flag = false).
  { rewrite Hf. apply orb_false_iff. split; [apply Z.eqb_neq; exact Hra|].
    rewrite Z.gtb_ltb. apply Z.ltb_ge. exact Hle. }
  clear Hf. rewrite Hff in Hlr. split; [exact Hff|]. exists n'. auto.
Qed.

(* ------------------------------------------------------------------------------------------ C08_owner_only *)

Theorem notices_owner_only : forall st f u n,
  f_user f = Some u -> In n (notices st f) -> n_user n = None \/ n_user n = Some u.
Proof.
  intros st f u n Hu Hn. unfold notices in Hn. apply (proj1 (sort_lr_in _ _)) in Hn. apply filter_In in Hn.
  destruct Hn as [_ Hm]. unfold matches, static_match in Hm. rewrite Hu in Hm.
  destruct (n_user n) as [v|]; [|left; reflexivity].
  right. rewrite !andb_true_iff in Hm. destruct Hm as [[[Hm _] _] _]. apply N.eqb_eq in Hm. subst. reflexivity.
Qed.

Theorem api_filter_nonroot : forall q uid f,
  q_uid q = Some uid -> uid <> 0%N -> api_filter q = ApiFilter f ->
  f_user f = Some uid /\ q_user_id q = [] /\ q_users q = [].
Proof.
  intros q uid f Hq Hnz H. unfold api_filter in H. rewrite Hq in H.
  assert (E : (uid =? 0)%N = false) by (apply N.eqb_neq; exact Hnz). rewrite E in H. cbn [negb] in H.
  rewrite !andb_true_r in H.
  destruct (q_user_id q) as [|x xs]; [|cbn in H; discriminate]. cbn [is_nil_b negb] in H.
  destruct (q_users q) as [|y ys]; [|cbn in H; discriminate]. cbn in H.
  destruct (is_nil_b (dedup_valid [] (multi_comma_list (q_types q))) && negb (is_nil_b (multi_comma_list (q_types q))));
    [discriminate|].
  destruct (q_after q) as [[t|]|]; inversion H; subst; cbn; auto.
Qed.

Theorem api_no_uid_forbidden : forall q, q_uid q = None -> api_filter q = ApiForbidden.
Proof. intros q H. unfold api_filter. rewrite H. reflexivity. Qed.

Theorem api_owner_only : forall st q uid n,
  q_uid q = Some uid -> uid <> 0%N -> In n (snd (api_get st q)) -> n_user n = None \/ n_user n = Some uid.
Proof.
  intros st q uid n Hq Hnz Hn. unfold api_get in Hn.
  destruct (api_filter q) as [| | |f] eqn:E; cbn in Hn; try contradiction.
  destruct (api_filter_nonroot _ _ _ Hq Hnz E) as [Hu _]. eapply notices_owner_only; eassumption.
Qed.

(* ------------------------------------------------------------------------------------------ C08_waiter_enabled *)

Lemma wait_enabled_iff : forall st f, wait_enabled st f = true <-> exists n, In n (s_notices st) /\ matches f n = true.
Proof.
  intros st f. unfold wait_enabled, notices. split.
  - intro H. destruct (sort_lr (List.filter (matches f) (s_notices st))) as [|n r] eqn:E; [discriminate|].
    assert (In n (sort_lr (List.filter (matches f) (s_notices st)))) by (rewrite E; left; reflexivity).
    apply (proj1 (sort_lr_in _ _)) in H0. apply filter_In in H0. exists n. exact H0.
  - intros [n [H1 H2]].
    assert (In n (sort_lr (List.filter (matches f) (s_notices st)))) by (apply (proj2 (sort_lr_in _ _)); apply filter_In; auto).
    destruct (sort_lr _); [contradiction | reflexivity].
Qed.

(* a new-or-repeated addition whose notice matches the waiter's filter makes WaitNotices' return condition true *)
Theorem waiter_enabled : forall st a st' id f n',
  good st -> a_time a = None -> add_notice st a = Some (st', true, id) ->
  find (same_key (a_user a) (a_type a) (a_key a)) (s_notices st') = Some n' -> matches f n' = true ->
  wait_enabled st' f = true.
Proof.
  intros st a st' id f n' G Ht HA Hf Hm. apply wait_enabled_iff. exists n'. split; [|exact Hm].
  apply find_some in Hf. tauto.
Qed.

(* and an addition that is not new-or-repeated (no Broadcast) never turns a blocked waiter's condition true *)
Theorem no_missed_wakeup : forall st a st' id f,
  good st -> a_time a = None -> add_notice st a = Some (st', false, id) ->
  wait_enabled st f = false -> wait_enabled st' f = false.
Proof.
  intros st a st' id f G Ht HA Hw.
  destruct (wait_enabled st' f) eqn:E; [|reflexivity]. exfalso.
  apply wait_enabled_iff in E. destruct E as [m [Hm1 Hm2]].
  assert (Hex : exists m0, In m0 (s_notices st) /\ key_of m0 = key_of m /\ n_lr m0 = n_lr m).
  { destruct (add_server_spec _ _ _ _ _ G Ht HA) as [_ [_ [_ [[n1 [Hf1 [_ [_ [_ Hlr1]]]]] [Hother [_ Hsame]]]]]].
    destruct (same_key (a_user a) (a_type a) (a_key a) m) eqn:K.
    - apply same_key_iff in K. destruct (Hsame m Hm1 K) as [n2 [Hf2 ->]]. rewrite Hf1 in Hf2. inversion Hf2; subst n2.
      destruct (Hlr1 eq_refl) as [n0 [H1 [H2 H3]]]. exists n0. split; [exact H1|]. split; [rewrite H2; symmetry; exact K | symmetry; exact H3].
    - apply same_key_false in K. exists m. split; [apply Hother; assumption | split; reflexivity]. }
  destruct Hex as [m0 [H1 [H2 H3]]].
  assert (matches f m0 = true).
  { unfold matches in *. rewrite static_match_key, H2, <- static_match_key. unfold after_ok in *. rewrite H3. exact Hm2. }
  assert (wait_enabled st f = true) by (apply wait_enabled_iff; exists m0; auto). congruence.
Qed.

(* ------------------------------------------------------------------------------------------ explicit Time *)

(* with an explicit AddNoticeOptions.Time (no production call site sets it) the property is false: the notice b below is
   stamped before the client's cursor and is never delivered *)
Definition refute_evs : list event :=
  [EAdd (mkA 10 None (ty 1) (ky 0) 0 None); EPoll; EAdd (mkA 20 None (ty 1) (ky 1) 0 (Some 5)); EPoll].

Theorem explicit_time_refuted :
  exists f evs out pend k,
    In (out, pend) (hrun f empty_state None [] evs) /\ In k pend /\ key_static_match f k = true /\
    ~ exists n, In n out /\ key_of n = k.
Proof.
  exists no_filter, refute_evs, [], [(None, ty 1, ky 1)], (None, ty 1, ky 1).
  split; [vm_compute; right; left; reflexivity|]. split; [left; reflexivity|]. split; [reflexivity|].
  intros [n [[] _]].
Qed.

(* ------------------------------------------------------------------------------------------ waiting clients, all histories *)

Definition none_enabled (st : state) (bl : list (N * nfilter)) : Prop :=
  Forall (fun w => wait_enabled st (snd w) = false) bl.

Definition winv (s : wsys) : Prop := good (w_state s) /\ none_enabled (w_state s) (w_blocked s).

Lemma recheck_spec : forall st bl o b,
  recheck st bl = (o, b) ->
  none_enabled st b /\
  (forall w, In w b -> In w bl) /\
  (forall id f, In (id, f) bl -> wait_enabled st f = true -> In (WReturned id f (notices st f)) o) /\
  (forall x, In x o -> exists id f, x = WReturned id f (notices st f) /\ In (id, f) bl /\ wait_enabled st f = true).
Proof.
  intros st. induction bl as [|[id f] bl IH]; intros o b H; cbn in H.
  - inversion H; subst. split; [constructor|]. split; [intros ? []|]. split; [intros ? ? []|intros ? []].
  - destruct (recheck st bl) as [o' b'] eqn:R. destruct (IH o' b' eq_refl) as [I1 [I2 [I3 I4]]].
    destruct (wait_enabled st f) eqn:E; inversion H; subst; clear H.
    + split; [exact I1|]. split; [intros w Hw; right; apply I2; exact Hw|]. split.
      * intros id' f' [Heq|Hin] He; [inversion Heq; subst; left; reflexivity | right; apply I3; assumption].
      * intros x [<-|Hx]; [exists id, f; split; [reflexivity|]; split; [left; reflexivity | exact E]|].
        destruct (I4 x Hx) as [id' [f' [H1 [H2 H3]]]]. exists id', f'. split; [exact H1|]. split; [right; exact H2 | exact H3].
    + split; [constructor; [exact E | exact I1]|]. split; [intros w [<-|Hw]; [left; reflexivity | right; apply I2; exact Hw]|]. split.
      * intros id' f' [Heq|Hin] He; [inversion Heq; subst; congruence | apply I3; assumption].
      * intros x Hx. destruct (I4 x Hx) as [id' [f' [H1 [H2 H3]]]]. exists id', f'. split; [exact H1|]. split; [right; exact H2 | exact H3].
Qed.

Lemma none_enabled_filter : forall st bl p, none_enabled st bl -> none_enabled st (List.filter p bl).
Proof.
  intros st bl p H. unfold none_enabled in *. rewrite Forall_forall in *. intros w Hw. apply filter_In in Hw. apply H. tauto.
Qed.

Lemma wstep_inv : persist_ok = true -> forall s e o s',
  winv s -> wev_server_clock e = true -> wstep s e = (o, s') -> winv s'.
Proof.
  intros POK s e o s' [G NE] SC H. destruct e as [a|id f|id|]; cbn [wstep] in H.
  - cbn in SC. destruct (a_time a) eqn:Ht; [discriminate|].
    destruct (add_notice (w_state s) a) as [[[st' flag] nid]|] eqn:HA; [|inversion H; subst; split; assumption].
    assert (G' : good st') by (apply (add_server_spec _ _ _ _ _ G Ht HA)).
    destruct flag.
    + destruct (recheck st' (w_blocked s)) as [o' b'] eqn:R. inversion H; subst; clear H.
      split; [exact G' | apply (recheck_spec _ _ _ _ R)].
    + inversion H; subst; clear H. split; [exact G'|]. cbn.
      unfold none_enabled in *. rewrite Forall_forall in *. intros w Hw.
      apply (no_missed_wakeup (w_state s) a st' nid (snd w) G Ht HA). apply NE. exact Hw.
  - destruct (wait_enabled (w_state s) f) eqn:E; inversion H; subst; clear H; [split; assumption|].
    split; [exact G|]. cbn. unfold none_enabled in *. apply Forall_app. split; [exact NE | constructor; [exact E | constructor]].
  - destruct (is_blocked id (w_blocked s)); [|inversion H; subst; split; assumption].
    destruct (recheck (w_state s) _) as [o' b'] eqn:R. inversion H; subst; clear H.
    split; [exact G | apply (recheck_spec _ _ _ _ R)].
  - inversion H; subst; clear H. split; [cbn; rewrite (restart_id POK); exact G | constructor].
Qed.

Lemma wrun_inv : persist_ok = true -> forall evs s o s',
  winv s -> forallb wev_server_clock evs = true -> wrun s evs = (o, s') -> winv s'.
Proof.
  intros POK. induction evs as [|e evs IH]; intros s o s' I SC H; cbn in H; [inversion H; subst; exact I|].
  cbn in SC. apply andb_true_iff in SC. destruct SC as [SC1 SC2].
  destruct (wstep s e) as [o1 s1] eqn:W. destruct (wrun s1 evs) as [o2 s2] eqn:R. inversion H; subst; clear H.
  eapply IH; [eapply (wstep_inv POK); eassumption | exact SC2 | exact R].
Qed.

Lemma winv_empty : winv empty_wsys.
Proof. split; [apply good_empty | constructor]. Qed.

(* in every reachable state no call stays blocked while a notice matching its filter exists *)
Theorem waiters_never_miss : persist_ok = true -> forall evs o s,
  forallb wev_server_clock evs = true -> wrun empty_wsys evs = (o, s) ->
  forall id f, In (id, f) (w_blocked s) -> wait_enabled (w_state s) f = false.
Proof.
  intros POK evs o s SC H id f Hin.
  destruct (wrun_inv POK evs _ _ _ winv_empty SC H) as [_ NE].
  unfold none_enabled in NE. rewrite Forall_forall in NE. apply (NE (id, f) Hin).
Qed.

(* ... and whenever an addition makes a notice match the filter of a blocked call (recorded after its After time, right
   user, type and key), that call returns during that very addition with the list Notices(filter) gives then *)
Theorem waiter_returns_on_match : persist_ok = true -> forall evs o s a o1 s1 id f,
  forallb wev_server_clock evs = true -> wrun empty_wsys evs = (o, s) -> a_time a = None ->
  wstep s (WAdd a) = (o1, s1) -> In (id, f) (w_blocked s) -> wait_enabled (w_state s1) f = true ->
  In (WReturned id f (notices (w_state s1) f)) o1 /\ ~ In (id, f) (w_blocked s1).
Proof.
  intros POK evs o s a o1 s1 id f SC H Ht W Hin He.
  destruct (wrun_inv POK evs _ _ _ winv_empty SC H) as [G NE].
  assert (Hd : wait_enabled (w_state s) f = false).
  { unfold none_enabled in NE. rewrite Forall_forall in NE. apply (NE (id, f) Hin). }
  cbn [wstep] in W.
  destruct (add_notice (w_state s) a) as [[[st' flag] nid]|] eqn:HA; [|inversion W; subst; congruence].
  destruct flag.
  - destruct (recheck st' (w_blocked s)) as [o' b'] eqn:R. inversion W; subst; clear W. cbn in He |- *.
    destruct (recheck_spec _ _ _ _ R) as [I1 [_ [I3 _]]]. split; [apply I3; assumption|].
    intro Hb. unfold none_enabled in I1. rewrite Forall_forall in I1. specialize (I1 (id, f) Hb). cbn in I1. congruence.
  - inversion W; subst; clear W. cbn in He.
    rewrite (no_missed_wakeup _ _ _ _ f G Ht HA Hd) in He. discriminate.
Qed.

(* whatever a WaitNotices call returns is non-empty and consists of notices matching its filter *)
Lemma wstep_sound : forall s e o s' id f l,
  wstep s e = (o, s') -> In (WReturned id f l) o -> l <> [] /\ forall n, In n l -> matches f n = true.
Proof.
  assert (P : forall st f, wait_enabled st f = true -> notices st f <> [] /\ forall n, In n (notices st f) -> matches f n = true).
  { intros st f E. split.
    - unfold wait_enabled in E. destruct (notices st f); [discriminate | discriminate].
    - intros n Hn. unfold notices in Hn. apply (proj1 (sort_lr_in _ _)) in Hn. apply filter_In in Hn. tauto. }
  assert (Q : forall st bl o b x id f l, recheck st bl = (o, b) -> In x o -> x = WReturned id f l ->
              l <> [] /\ forall n, In n l -> matches f n = true).
  { intros st bl o b x id f l R Hx ->. destruct (recheck_spec _ _ _ _ R) as [_ [_ [_ I4]]].
    destruct (I4 _ Hx) as [id' [f' [E [_ He]]]]. inversion E; subst. apply P. exact He. }
  intros s e o s' id f l H Hin. destruct e as [a|wid wf|wid|]; cbn [wstep] in H.
  - destruct (add_notice (w_state s) a) as [[[st' flag] nid]|]; [|inversion H; subst; contradiction].
    destruct flag; [|inversion H; subst; contradiction].
    destruct (recheck st' (w_blocked s)) as [o' b'] eqn:R. inversion H; subst. eapply Q; [exact R | exact Hin | reflexivity].
  - destruct (wait_enabled (w_state s) wf) eqn:E; inversion H; subst; [|contradiction].
    destruct Hin as [Heq|[]]. inversion Heq; subst. apply P. exact E.
  - destruct (is_blocked wid (w_blocked s)); [|inversion H; subst; contradiction].
    destruct (recheck (w_state s) _) as [o' b'] eqn:R. inversion H; subst.
    destruct Hin as [Heq|Hin]; [discriminate|]. eapply Q; [exact R | exact Hin | reflexivity].
  - inversion H; subst. contradiction.
Qed.

Theorem wait_returns_sound : forall evs s o s' id f l,
  wrun s evs = (o, s') -> In (WReturned id f l) o -> l <> [] /\ forall n, In n l -> matches f n = true.
Proof.
  induction evs as [|e evs IH]; intros s o s' id f l H Hin; cbn in H; [inversion H; subst; contradiction|].
  destruct (wstep s e) as [o1 s1] eqn:W. destruct (wrun s1 evs) as [o2 s2] eqn:R. inversion H; subst; clear H.
  apply in_app_iff in Hin. destruct Hin as [Hin|Hin]; [eapply wstep_sound; eassumption | eapply IH; eassumption].
Qed.

(* a call with an already matching notice never blocks *)
Theorem wait_returns_at_once : forall s id f,
  wait_enabled (w_state s) f = true -> wstep s (WWait id f) = ([WReturned id f (notices (w_state s) f)], s).
Proof. intros s id f E. cbn. rewrite E. reflexivity. Qed.
