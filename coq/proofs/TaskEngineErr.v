(* Proofs about models/TaskEngine.v, part 8 (C03): Error is final, so a task whose handler failed stays in Error and is
   named by Change.Err whenever the change reports Error. Stdlib only. *)
From Coq Require Import List NArith ZArith Bool Arith Lia.
Import ListNotations.
Require Import V.models.TaskEngine V.proofs.TaskEngineProofs V.proofs.TaskEngineStatus V.proofs.TaskEngineReady
               V.proofs.TaskEngineDoing V.proofs.TaskEngineFuel V.proofs.TaskEngineLive.

Lemma st_run_other : forall s t u, u <> t -> st (run s t) u = st s u.
Proof.
  intros s t u N. unfold run.
  set (s1 := match t_st (get s t) with Do => set_status s t Doing | Undo => set_status s t Undoing | _ => s end).
  assert (E1 : st s1 u = st s u).
  { unfold s1. destruct (t_st (get s t)); try reflexivity.
    - destruct (st_set_status s t Doing u) as [A|[A _]]; [exact A | contradiction].
    - destruct (st_set_status s t Undoing u) as [A|[A _]]; [exact A | contradiction]. }
  rewrite <- E1.
  change (st (with_tasks s1 (upd (tasks s1) t (fun tk => set_at tk 0))) u = st s1 u). apply st_irrel. reflexivity.
Qed.

Lemma st_ensure_rest_other : forall s t u, u <> t -> st (ensure_rest s t) u = st s u.
Proof.
  intros s t u N. unfold ensure_rest. repeat des_if; auto using st_run_other.
  destruct (st_set_status s t Done u) as [A|[A _]]; [exact A | contradiction].
Qed.

Lemma st_try_undo_other : forall s t u, u <> t -> st (try_undo s t) u = st s u.
Proof.
  intros s t u N. unfold try_undo. des_if;
    match goal with |- context [set_status s t ?nw] => destruct (st_set_status s t nw u) as [A|[A _]]; [exact A | contradiction] end.
Qed.

Lemma error_final_ensure_one : forall s t u, st s u = Error -> st (ensure_one s t) u = Error.
Proof.
  intros s t u H. unfold ensure_one. destruct (panicked s); [assumption|]. destruct (memn t (running s)); [assumption|].
  destruct (Nat.eq_dec u t) as [->|N].
  - rewrite H. simpl seqb. cbv iota. unfold ensure_rest. rewrite H. simpl ready. cbv iota. exact H.
  - destruct (seqb (st s t) Abort).
    + rewrite st_ensure_rest_other, st_try_undo_other by assumption. assumption.
    + rewrite st_ensure_rest_other by assumption. assumption.
Qed.

Lemma error_final_ensure_pass : forall order s u, st s u = Error -> st (ensure_pass s order) u = Error.
Proof. unfold ensure_pass. induction order; simpl; intros; auto using error_final_ensure_one. Qed.

Lemma amap_error : forall x, abort_map_ok Error x = true -> x = Error.
Proof. destruct x; simpl; intros H; try discriminate; reflexivity. Qed.

Lemma error_final_finish : forall s t o u, inv s -> st s u = Error -> st (finish s t o) u = Error.
Proof.
  intros s t o u I H. unfold finish. destruct (panicked s) eqn:Ep; [assumption|].
  destruct (memn t (running s)) eqn:Em; simpl negb; cbv iota; [|assumption].
  apply memn_In in Em. pose proof (i_run s I t Em) as Ut.
  assert (N : u <> t) by (intros ->; rewrite H in Ut; discriminate).
  set (s0 := remove_running s t). assert (H0 : st s0 u = Error) by exact H.
  assert (SS : forall x nw, st x u = Error -> st (set_status x t nw) u = Error).
  { intros x nw Hx. destruct (st_set_status x t nw u) as [A|[A _]]; [rewrite A; assumption | contradiction]. }
  destruct o.
  - destruct (st s0 t); auto.
  - apply SS. unfold abort_lanes_top. rewrite st_ready_detect.
    apply amap_error. rewrite <- H0. apply abort_lanes_mapping.
  - repeat des_if; auto; try (rewrite st_try_undo_other; assumption).
    rewrite st_irrel by reflexivity. assumption.
  - destruct (seqb (st s0 t) Abort); [rewrite st_try_undo_other; assumption|].
    unfold set_to_wait. destruct (panicked s0); [assumption|]. destruct (seqb (st s0 t) Abort); [assumption|].
    set (ws := if undone then Undone else Done).
    destruct (st_change_st (with_tasks s0 (upd (tasks s0) t (fun tk => set_waited tk ws))) t Wait u) as [A|[A _]];
      [rewrite A, st_irrel by reflexivity; assumption | contradiction].
Qed.

Lemma error_final_step : forall s e u, inv s -> st s u = Error -> st (step s e) u = Error.
Proof.
  intros s e u I H. destruct e; simpl.
  - apply error_final_ensure_pass; assumption.
  - apply error_final_finish; assumption.
  - des_if; [assumption|]. apply amap_error. rewrite <- H. apply abort_change_mapping.
  - assumption.
  - des_if; [assumption|]. unfold resolve_wait. des_if; [|assumption].
    destruct (st_set_status s t (t_waited (get s t)) u) as [A|[A B]]; [rewrite A; assumption|].
    subst u. apply seqb_eq in Heqb0. congruence.
Qed.

Lemma error_final_run_events : forall es s u, guarded s es -> inv s -> st s u = Error -> st (run_events s es) u = Error.
Proof.
  unfold run_events. induction es; simpl; intros s u Hg I H; [assumption|].
  destruct Hg as [G1 G2]. apply IHes; [assumption | apply inv_step; assumption | apply error_final_step; assumption].
Qed.

Lemma guarded_split : forall es1 es2 s, guarded s (es1 ++ es2) -> guarded s es1 /\ guarded (run_events s es1) es2.
Proof.
  unfold run_events. induction es1; simpl; intros es2 s H; [split; [exact I | assumption]|].
  destruct H as [H1 H2]. destruct (IHes1 es2 (step s a) H2) as [A B]. repeat split; assumption.
Qed.

(* C03, Err clause (names): in every history with user aborts on unready changes only, a task whose handler returned
   an error is in Error at every later point, and whenever the change then reports Error, Change.Err names it *)
Theorem failed_task_stays_named : forall (g : list tdesc) (es1 es2 : list event) (t : nat),
  g <> [] -> guarded (init_state g) (es1 ++ Finish t OErr :: es2) ->
  In t (running (run_events (init_state g) es1)) ->
  let s := run_events (init_state g) (es1 ++ Finish t OErr :: es2) in
  st s t = Error /\ (change_status (tasks s) = Error -> In t (err_tasks (tasks s))).
Proof.
  intros g es1 es2 t Hg Hgd Hin s.
  destruct (guarded_split es1 (Finish t OErr :: es2) (init_state g) Hgd) as [G1 G2].
  set (s1 := run_events (init_state g) es1) in *.
  assert (I1 : inv s1) by (apply inv_run_events; [assumption | apply inv_init; assumption]).
  destruct G2 as [G2a G2b]. simpl step in G2b.
  destruct (finish_err_sets_error s1 t I1 Hin) as [E _].
  assert (I2 : inv (finish s1 t OErr)) by (apply inv_finish; assumption).
  assert (Es : s = run_events (finish s1 t OErr) es2).
  { unfold s, s1, run_events. rewrite fold_left_app. reflexivity. }
  assert (St : st s t = Error) by (rewrite Es; apply error_final_run_events; assumption).
  split; [assumption|]. intros Hc. unfold err_tasks. rewrite Hc. simpl seqb. cbv iota.
  apply filter_In. split.
  - apply in_seq. assert (t < length (tasks s)) by (apply in_range_st; rewrite St; discriminate). lia.
  - change (t_st (nth t (tasks s) dummy)) with (st s t). rewrite St. reflexivity.
Qed.
