(* Proofs about models/TaskEngine.v, part 10 (C03 / C01): which tasks are in Error, what Change.Err names, and the
   status of a settled change. A task is in Error exactly when its handler returned an error; Change.Err names exactly
   those tasks whenever the change reports Error; a settled change has no tomb and reports Error iff some handler
   failed (otherwise Undone / Done / Hold by the priority list). Stdlib only. *)
From Coq Require Import List NArith ZArith Bool Arith Lia.
Import ListNotations.
Require Import V.models.TaskEngine V.proofs.TaskEngineProofs V.proofs.TaskEngineStatus V.proofs.TaskEngineReady
               V.proofs.TaskEngineDoing V.proofs.TaskEngineFuel V.proofs.TaskEngineLive V.proofs.TaskEngineErr.

(* the tasks whose handler returned an error during the history (the completion events that were enabled) *)
Fixpoint failed_of (s : state) (es : list event) : list nat :=
  match es with
  | [] => []
  | e :: r =>
    match e with
    | Finish t OErr => if memn t (running s) then [t] else []
    | _ => []
    end ++ failed_of (step s e) r
  end.

Lemma amap_to_error : forall a, abort_map_ok a Error = true -> a = Error.
Proof. destruct a; simpl; intros H; try discriminate; reflexivity. Qed.

(* ------------------------------------------------------------------ Error is only written by the error path *)
Lemma error_origin_ensure_one : forall s t u, inv s -> st (ensure_one s t) u = Error -> st s u = Error.
Proof.
  intros s t u I H. unfold ensure_one in H.
  destruct (panicked s) eqn:Ep; [assumption|]. destruct (memn t (running s)) eqn:Em; [assumption|].
  assert (Hn : ~ In t (running s)) by (intros F; apply memn_In in F; congruence).
  destruct (Nat.eq_dec u t) as [->|N].
  - destruct (seqb (st s t) Abort) eqn:Ea.
    + apply seqb_eq in Ea. destruct (try_undo_result s t I Ea) as [R _].
      destruct (st_ensure_rest (try_undo s t) t) as [A|[A|[A|A]]]; rewrite A in H; try discriminate H.
      destruct R as [R|R]; rewrite R in H; discriminate H.
    + destruct (st_ensure_rest s t) as [A|[A|[A|A]]]; rewrite A in H; try discriminate H. assumption.
  - destruct (seqb (st s t) Abort).
    + rewrite st_ensure_rest_other, st_try_undo_other in H by assumption. assumption.
    + rewrite st_ensure_rest_other in H by assumption. assumption.
Qed.

Lemma inv_ensure_prefix : forall order s, inv s -> inv (fold_left ensure_one order s).
Proof. induction order; simpl; intros; auto using inv_ensure_one. Qed.

Lemma error_origin_ensure_pass : forall order s u, inv s -> st (ensure_pass s order) u = Error -> st s u = Error.
Proof.
  unfold ensure_pass. induction order; simpl; intros s u I H; [assumption|].
  apply (error_origin_ensure_one s a u I). apply IHorder; [apply inv_ensure_one; assumption | assumption].
Qed.

Lemma error_origin_finish : forall s t o u,
  inv s -> kgood s -> st (finish s t o) u = Error -> st s u = Error \/ (o = OErr /\ u = t /\ In t (running s)).
Proof.
  intros s t o u I K H. unfold finish in H. pose proof I as [Hp Hc Hr]. rewrite Hp in H.
  destruct (memn t (running s)) eqn:Em; simpl negb in H; cbv iota in H; [|left; assumption].
  apply memn_In in Em. pose proof (Hr t Em) as Ut.
  set (s0 := remove_running s t) in *.
  assert (S0 : forall x, st s0 x = st s x) by reflexivity.
  assert (SS : forall x nw, x <> Error -> nw <> Error ->
               forall y, st y t = x -> st (set_status y t nw) t <> Error).
  { intros x nw Hx Hnw y Hy F. destruct (st_set_status y t nw t) as [A|[_ A]]; rewrite A in F; congruence. }
  destruct (Nat.eq_dec u t) as [->|N].
  - (* the task itself: only the error outcome gives Error *)
    destruct o.
    + exfalso. rewrite S0 in H. destruct (st s t) eqn:Es; try discriminate Ut.
      * destruct (st_set_status s0 t Done t) as [A|[_ A]]; rewrite A in H; [rewrite S0, Es in H|]; discriminate H.
      * destruct (st_set_status s0 t Undo t) as [A|[_ A]]; rewrite A in H; [rewrite S0, Es in H|]; discriminate H.
      * destruct (st_set_status s0 t Undone t) as [A|[_ A]]; rewrite A in H; [rewrite S0, Es in H|]; discriminate H.
    + right. auto.
    + exfalso. destruct (seqb (st s0 t) Abort) eqn:Ea.
      * apply seqb_eq in Ea. rewrite S0 in Ea.
        assert (I0 : inv s0).
        { constructor; auto. intros x Hx. unfold s0, remove_running, with_running in Hx; cbn [running] in Hx.
          apply filter_In in Hx. apply Hr. tauto. }
        destruct (try_undo_result s0 t I0 Ea) as [[R|R] _]; rewrite R in H; discriminate H.
      * destruct (after =? 0)%Z.
        -- rewrite S0 in H. rewrite H in Ut. discriminate.
        -- rewrite st_irrel in H by reflexivity. rewrite S0 in H. rewrite H in Ut. discriminate.
    + exfalso. destruct (seqb (st s0 t) Abort) eqn:Ea.
      * apply seqb_eq in Ea. rewrite S0 in Ea.
        assert (I0 : inv s0).
        { constructor; auto. intros x Hx. unfold s0, remove_running, with_running in Hx; cbn [running] in Hx.
          apply filter_In in Hx. apply Hr. tauto. }
        destruct (try_undo_result s0 t I0 Ea) as [[R|R] _]; rewrite R in H; discriminate H.
      * unfold set_to_wait in H. change (panicked s0) with (panicked s) in H. rewrite Hp, Ea in H.
        set (ws := if undone then Undone else Done) in *.
        destruct (st_change_st (with_tasks s0 (upd (tasks s0) t (fun tk => set_waited tk ws))) t Wait t) as [A|[_ A]];
          rewrite A in H; [|discriminate H].
        rewrite st_irrel in H by reflexivity. rewrite S0 in H. rewrite H in Ut. discriminate.
  - (* another task *)
    left. destruct o.
    + rewrite <- (S0 u). destruct (st s0 t); try assumption;
        match type of H with st (set_status ?y t ?nw) u = Error =>
          destruct (st_set_status y t nw u) as [A|[A _]]; [rewrite A in H; assumption | contradiction] end.
    + match type of H with st (set_status ?y t ?nw) u = Error =>
        destruct (st_set_status y t nw u) as [A|[A _]]; [rewrite A in H | contradiction] end.
      unfold abort_lanes_top in H. rewrite st_ready_detect in H.
      pose proof (abort_lanes_mapping (depth_fuel s0) (lanes_of (get s0 t)) [] [] s0 u) as M. rewrite H in M.
      apply amap_to_error in M. rewrite <- (S0 u). exact M.
    + rewrite <- (S0 u). destruct (seqb (st s0 t) Abort).
      * rewrite st_try_undo_other in H by assumption. assumption.
      * destruct (after =? 0)%Z; [assumption|]. rewrite st_irrel in H by reflexivity. assumption.
    + rewrite <- (S0 u). destruct (seqb (st s0 t) Abort).
      * rewrite st_try_undo_other in H by assumption. assumption.
      * unfold set_to_wait in H. destruct (panicked s0); [assumption|]. destruct (seqb (st s0 t) Abort); [assumption|].
        set (ws := if undone then Undone else Done) in *.
        destruct (st_change_st (with_tasks s0 (upd (tasks s0) t (fun tk => set_waited tk ws))) t Wait u) as [A|[A _]];
          [rewrite A, st_irrel in H by reflexivity; assumption | contradiction].
Qed.

Lemma error_origin_step : forall s e u,
  inv s -> kgood s -> st (step s e) u = Error ->
  st s u = Error \/ (e = Finish u OErr /\ In u (running s)).
Proof.
  intros s e u I K H. destruct e; simpl in H.
  - left. eapply error_origin_ensure_pass; eauto.
  - destruct (error_origin_finish s t o u I K H) as [A|(A & B & C)]; [left; assumption | right; subst; auto].
  - left. destruct (panicked s); [assumption|].
    pose proof (abort_change_mapping s u) as M. rewrite H in M. apply amap_to_error. exact M.
  - left. assumption.
  - left. destruct (panicked s); [assumption|]. unfold resolve_wait in H.
    destruct (seqb (st s t) Wait) eqn:E; [|assumption].
    destruct (st_set_status s t (t_waited (get s t)) u) as [A|[A B]]; [rewrite A in H; assumption|].
    exfalso. rewrite B in H. pose proof (proj2 K t) as Wd. rewrite H in Wd. discriminate.
Qed.

(* ------------------------------------------------------------------ the tasks in Error are exactly the failed ones *)
Lemma error_iff_failed_from : forall es s,
  tame s es -> inv s -> sym s -> kgood s -> oof s = false ->
  forall u, st (run_events s es) u = Error <-> (st s u = Error \/ In u (failed_of s es)).
Proof.
  unfold run_events. induction es as [|e r IH]; intros s Ht I Hsym K Ho u; simpl.
  - tauto.
  - destruct Ht as (T1 & T2 & T3).
    assert (I' : inv (step s e)) by (apply inv_step; assumption).
    assert (S' : sym (step s e)) by (eapply sym_shapes; [apply frame_step | assumption]).
    assert (O' : oof (step s e) = false) by (rewrite oof_step; assumption).
    assert (K' : kgood (step s e)).
    { destruct (kfull_step s e I Hsym T2 (or_intror K)) as [O|G]; [congruence | assumption]. }
    rewrite (IH (step s e) T3 I' S' K' O' u). rewrite in_app_iff.
    split.
    + intros [H|H]; [|tauto].
      destruct (error_origin_step s e u I K H) as [A|[-> B]]; [tauto|].
      right. left. apply memn_In in B. rewrite B. left; reflexivity.
    + intros [H|[H|H]]; [left; apply error_final_step; assumption | | tauto].
      left. destruct e; try destruct H. destruct o; try destruct H.
      destruct (memn t (running s)) eqn:Em; [|destruct H]. destruct H as [<-|[]].
      apply memn_In in Em. simpl. apply (finish_err_sets_error s t I Em).
Qed.

Lemma init_no_error : forall g u, st (init_state g) u <> Error.
Proof.
  intros g u. unfold st, get. cbn [tasks init_state].
  destruct (Nat.lt_ge_cases u (length g)) as [L|L].
  - rewrite init_nth by assumption. destruct (nth u g ([], [], false)) as [[a b] c]. discriminate.
  - rewrite nth_overflow by (unfold init_tasks; rewrite map_length, seq_length; assumption). discriminate.
Qed.

(* every tame history on a closed graph: a task is in Error iff its handler returned an error *)
Theorem error_iff_failed : forall (g : list tdesc) (es : list event) (u : nat),
  g <> [] -> closed g -> tame (init_state g) es ->
  (st (run_events (init_state g) es) u = Error <-> In u (failed_of (init_state g) es)).
Proof.
  intros g es u Hg Hc Ht.
  rewrite (error_iff_failed_from es (init_state g) Ht (inv_init g Hg) (sym_init g) (kgood_init g Hc) eq_refl u).
  split; [intros [H|H]; [exfalso; eapply init_no_error; eauto | assumption] | tauto].
Qed.

(* Change.Err names exactly the tasks whose handler returned an error, whenever the change reports Error *)
Theorem err_names_exactly_failed : forall (g : list tdesc) (es : list event) (u : nat),
  g <> [] -> closed g -> tame (init_state g) es ->
  let s := run_events (init_state g) es in
  (In u (err_tasks (tasks s)) <-> change_status (tasks s) = Error /\ In u (failed_of (init_state g) es)).
Proof.
  intros g es u Hg Hc Ht s. pose proof (error_iff_failed g es u Hg Hc Ht) as E. fold s in E.
  unfold err_tasks. destruct (seqb (change_status (tasks s)) Error) eqn:Ec.
  - apply seqb_eq in Ec. rewrite filter_In, in_seq. change (t_st (nth u (tasks s) dummy)) with (st s u).
    split.
    + intros [_ Hs]. apply seqb_eq in Hs. split; [assumption | apply E; assumption].
    + intros [_ Hf]. apply E in Hf. split; [|rewrite Hf; reflexivity].
      assert (u < length (tasks s)) by (apply in_range_st; rewrite Hf; discriminate). lia.
  - apply seqb_neq in Ec. split; [intros [] | intros [F _]; contradiction].
Qed.

(* ------------------------------------------------------------------ settled changes *)
Lemma all_ready_st : forall s u, all_ready (tasks s) = true -> ready (st s u) = true.
Proof.
  intros s u A. unfold all_ready in A. rewrite forallb_forall in A.
  destruct (Nat.lt_ge_cases u (length (tasks s))) as [L|L].
  - apply (A (nth u (tasks s) dummy)). apply nth_In. assumption.
  - rewrite st_out by assumption. reflexivity.
Qed.

(* a settled state has no task in Do / Doing / Abort / Undo / Undoing / Wait and no tomb *)
Theorem settled_nothing_pending : forall s,
  inv s -> all_ready (tasks s) = true ->
  running s = [] /\ forall u, st s u = Done \/ st s u = Undone \/ st s u = Hold \/ st s u = Error.
Proof.
  intros s I A. split.
  - destruct (running s) as [|t r] eqn:Er; [reflexivity|]. exfalso.
    assert (In t (running s)) by (rewrite Er; left; reflexivity).
    pose proof (i_run s I t H) as U. apply unr_unready in U. rewrite (all_ready_st s t A) in U. discriminate.
  - intros u. pose proof (all_ready_st s u A) as R. destruct (st s u); simpl in R; try discriminate R; auto.
Qed.

Lemma has_status_ex : forall l x, has_status l x = true <-> exists u, u < length l /\ stl l u = x.
Proof.
  intros l x. unfold has_status. rewrite existsb_exists. split.
  - intros (tk & Hin & Hs). apply seqb_eq in Hs. destruct (In_nth l tk dummy Hin) as (u & L & E).
    exists u. split; [assumption|]. unfold stl. rewrite E. assumption.
  - intros (u & L & E). exists (nth u l dummy). split; [apply nth_In; assumption|]. unfold stl in E. rewrite E. apply seqb_refl.
Qed.

(* the status of a settled change, completely: Error if some task is in Error, else Undone, else Done, else Hold *)
Theorem settled_status_table : forall l : list task,
  all_ready l = true ->
  change_status l =
  if has_status l Error then Error else if has_status l Undone then Undone else if has_status l Done then Done else Hold.
Proof.
  intros l A. unfold change_status. destruct l as [|a l']; [reflexivity|]. set (L := a :: l') in *.
  assert (N : forall x, ready x = false -> has_status L x = false).
  { intros x Hx. destruct (has_status L x) eqn:Hh; [|reflexivity].
    rewrite (has_unready_not_all_ready L x Hh Hx) in A; discriminate. }
  rewrite (N Wait) by reflexivity. simpl andb. cbv iota. unfold status_order. cbn [find].
  rewrite (N Abort), (N Undoing), (N Undo), (N Doing), (N Do), (N Wait) by reflexivity.
  destruct (has_status L Error); [reflexivity|]. destruct (has_status L Undone); [reflexivity|].
  destruct (has_status L Done); [reflexivity|]. destruct (has_status L Hold); reflexivity.
Qed.

Theorem settled_error_iff : forall l : list task,
  all_ready l = true -> (change_status l = Error <-> has_status l Error = true).
Proof.
  intros l A. rewrite (settled_status_table l A).
  destruct (has_status l Error); [tauto|].
  split; [|discriminate]. destruct (has_status l Undone); [discriminate|]. destruct (has_status l Done); discriminate.
Qed.

(* C01_settles_error, safety half in full: in a settled state of a tame history the change reports Error iff some
   handler returned an error; then it is flagged ready, nothing is pending, and Err names exactly the failed tasks *)
Theorem settled_error_iff_failed : forall (g : list tdesc) (es : list event),
  g <> [] -> closed g -> tame (init_state g) es ->
  let s := run_events (init_state g) es in
  all_ready (tasks s) = true ->
  running s = [] /\ cready s = true /\
  (change_status (tasks s) = Error <-> failed_of (init_state g) es <> []) /\
  (forall u, In u (err_tasks (tasks s)) <-> In u (failed_of (init_state g) es)).
Proof.
  intros g es Hg Hc Ht s A.
  assert (I : inv s) by (apply inv_run_events; [apply tame_guarded; assumption | apply inv_init; assumption]).
  destruct (settled_nothing_pending s I A) as [R _].
  assert (Iff : change_status (tasks s) = Error <-> failed_of (init_state g) es <> []).
  { rewrite (settled_error_iff (tasks s) A), has_status_ex. split.
    - intros (u & L & E). change (stl (tasks s) u) with (st s u) in E.
      apply (error_iff_failed g es u Hg Hc Ht) in E. intros F. rewrite F in E. destruct E.
    - intros Hne. destruct (failed_of (init_state g) es) as [|u r] eqn:Ef; [congruence|].
      assert (E : st s u = Error) by (apply (error_iff_failed g es u Hg Hc Ht); rewrite Ef; left; reflexivity).
      exists u. split; [apply in_range_st; rewrite E; discriminate | exact E]. }
  split; [assumption|]. split; [rewrite (i_rd s I); assumption|]. split; [assumption|].
  intros u. pose proof (err_names_exactly_failed g es u Hg Hc Ht) as N. cbv zeta in N. fold s in N. rewrite N.
  split; [tauto|].
  intros Hf. split; [|assumption]. apply Iff. intros F. rewrite F in Hf. destruct Hf.
Qed.

(* non-vacuity: chain 0 <- 1, task 1 fails, task 0 is undone: a tame history on a closed graph that settles *)
Lemma settled_example :
  let g := [([], [], true); ([], [0], true)] in
  let es := [Ensure [0;1]; Finish 0 OOk; Ensure [0;1]; Finish 1 OErr; Ensure [0;1]; Finish 0 OOk; Ensure [0;1]] in
  let s := run_events (init_state g) es in
  closed g /\ tame (init_state g) es /\ all_ready (tasks s) = true /\
  failed_of (init_state g) es = [1] /\ err_tasks (tasks s) = [1] /\
  map t_st (tasks s) = [Undone; Error] /\ change_status (tasks s) = Error.
Proof.
  cbv zeta. split; [|split].
  - intros t w H. unfold waits_g in H. destruct t as [|[|t]]; simpl in H.
    + destruct H.
    + destruct H as [<-|[]]. simpl. lia.
    + destruct t; simpl in H; destruct H.
  - vm_compute. repeat split; intros; discriminate.
  - vm_compute. repeat split; reflexivity.
Qed.
