(* C04 — proofs about models/Restart.v: over every event list (Ensure passes, handler completions, restarts anywhere) the
   status of a task only moves forward, nothing is lost or duplicated, and a handler phase recorded as finished is never
   started again. *)
From Coq Require Import List NArith Bool Lia ZifyBool ZifyN.
Import ListNotations.
Require Import V.models.Restart.
Open Scope N_scope.

(* how far a task has got: Do 0, Doing 1, Done/Abort/Undo 2, Undoing 4, Undone/Hold/Error 5 *)
Definition rk (s : N) : N :=
  let n := norm s in
  if n =? 2 then 0 else if n =? 3 then 1 else if (n =? 4) || (n =? 5) || (n =? 6) then 2 else if n =? 7 then 4 else 5.

Definition fnd (ts : list task) (id : N) := find (fun t => t_id t =? id) ts.

Lemma norm_norm : forall s, norm (norm s) = norm s.
Proof. intros s. unfold norm. destruct (s =? 0) eqn:E; [reflexivity | rewrite E; reflexivity]. Qed.
Lemma rk_norm : forall s, rk (norm s) = rk s.
Proof. intros s. unfold rk. rewrite norm_norm. reflexivity. Qed.

Lemma find_map_id : forall (f : task -> task) ts i, (forall t, t_id (f t) = t_id t) ->
  fnd (map f ts) i = option_map f (fnd ts i).
Proof.
  intros f ts i Hf. unfold fnd. induction ts as [|a ts IH]; simpl; [reflexivity|].
  rewrite Hf. destruct (t_id a =? i); [reflexivity | assumption].
Qed.

Definition mono (ts ts' : list task) : Prop :=
  (forall i, rk (status_of ts i) <= rk (status_of ts' i)) /\ map t_id ts' = map t_id ts /\ map t_waits ts' = map t_waits ts.

Lemma mono_refl : forall ts, mono ts ts.
Proof. intros ts. repeat split; intros; lia. Qed.
Lemma mono_trans : forall a b c, mono a b -> mono b c -> mono a c.
Proof.
  intros a b c (A1 & A2 & A3) (B1 & B2 & B3). repeat split; try congruence.
  intros i. specialize (A1 i). specialize (B1 i). lia.
Qed.

Lemma set_status_shape : forall id v ts, map t_id (set_status id v ts) = map t_id ts /\ map t_waits (set_status id v ts) = map t_waits ts.
Proof.
  intros id v ts. unfold set_status. rewrite !map_map. split; apply map_ext; intros t; destruct (t_id t =? id); reflexivity.
Qed.

Lemma status_of_set : forall id v ts i,
  status_of (set_status id v ts) i =
  if i =? id then match fnd ts i with Some _ => norm v | None => 0 end else status_of ts i.
Proof.
  intros id v ts i. unfold status_of. fold (fnd (set_status id v ts) i). fold (fnd ts i). unfold set_status.
  rewrite find_map_id by (intros t; destruct (t_id t =? id); reflexivity).
  destruct (fnd ts i) as [t|] eqn:F; simpl.
  - unfold fnd in F. apply find_some in F. destruct F as [_ F]. apply N.eqb_eq in F. rewrite F.
    destruct (i =? id); reflexivity.
  - destruct (i =? id); reflexivity.
Qed.

Lemma mono_set : forall id v ts, rk (status_of ts id) <= rk v -> mono ts (set_status id v ts).
Proof.
  intros id v ts H. split; [|apply set_status_shape]. intros i. rewrite status_of_set.
  destruct (i =? id) eqn:E; [|lia]. apply N.eqb_eq in E. subst i.
  unfold status_of in *. fold (fnd ts id) in *. destruct (fnd ts id); [rewrite (rk_norm v); assumption | lia].
Qed.

Lemma rk_abort1 : forall s, rk s <= rk (abort1 s).
Proof.
  intros s. unfold abort1. destruct (norm s =? 2) eqn:E2; [unfold rk at 1; rewrite E2; vm_compute; discriminate|].
  destruct (norm s =? 3) eqn:E3; [unfold rk at 1; rewrite E2, E3; vm_compute; discriminate|].
  destruct (norm s =? 4) eqn:E4; [unfold rk at 1; rewrite E2, E3, E4; vm_compute; discriminate | lia].
Qed.

Lemma mono_abort : forall ts, mono ts (abort_all ts).
Proof.
  intros ts. unfold abort_all. repeat split.
  - intros i. unfold status_of. fold (fnd ts i). fold (fnd (map (fun t => mkT (t_id t) (abort1 (t_status t)) (t_waits t)) ts) i).
    rewrite find_map_id by reflexivity. destruct (fnd ts i); simpl; [rewrite !rk_norm; apply rk_abort1 | lia].
  - rewrite map_map. reflexivity.
  - rewrite map_map. reflexivity.
Qed.

(* ------------------------------------------------------------------ one Ensure consideration *)
(* what [consider] does, abstractly: tasks move forward; the log grows by at most one start, a do start only from
   Do/Doing and an undo start only from Undo/Undoing *)
Lemma consider_spec : forall c id s,
  mono (tasks s) (tasks (consider c id s)) /\
  (log (consider c id s) = log s \/
   (log (consider c id s) = log s ++ [(id, false)] /\ rk (status_of (tasks s) id) <= 1) \/
   (log (consider c id s) = log s ++ [(id, true)] /\ rk (status_of (tasks s) id) <= 4)).
Proof.
  intros c id s. unfold consider. destruct (find (fun t => t_id t =? id) (tasks s)) as [t0|] eqn:F0.
  2:{ split; [apply mono_refl | left; reflexivity]. }
  assert (S0 : status_of (tasks s) id = norm (t_status t0)) by (unfold status_of; rewrite F0; reflexivity).
  destruct ((norm (t_status t0) =? 5) && mem id (running s)) eqn:EA. { split; [apply mono_refl | left; reflexivity]. }
  set (ts1 := if norm (t_status t0) =? 5 then set_status id (if mem id (no_undo c) then 1 else 6) (tasks s) else tasks s).
  assert (M1 : mono (tasks s) ts1).
  { subst ts1. destruct (norm (t_status t0) =? 5) eqn:E5; [|apply mono_refl]. apply mono_set. rewrite S0.
    apply N.eqb_eq in E5. rewrite <- rk_norm, E5. destruct (mem id (no_undo c)); vm_compute; discriminate. }
  assert (S1 : status_of ts1 id = if norm (t_status t0) =? 5 then (if mem id (no_undo c) then 1 else 6) else norm (t_status t0)).
  { subst ts1. destruct (norm (t_status t0) =? 5) eqn:E5; [|assumption]. rewrite status_of_set, N.eqb_refl.
    unfold fnd. rewrite F0. destruct (mem id (no_undo c)); reflexivity. }
  destruct (mem id (running s)). { split; [assumption | left; reflexivity]. }
  destruct (ready (status_of ts1 id)) eqn:ER. { split; [assumption | left; reflexivity]. }
  destruct (find (fun t => t_id t =? id) ts1) as [t1|] eqn:F1. 2:{ split; [apply mono_refl | left; reflexivity]. }
  destruct (must_wait ts1 t1). { split; [assumption | left; reflexivity]. }
  destruct ((status_of ts1 id =? 6) && mem id (no_undo c)) eqn:E6.
  { split; [|left; reflexivity]. simpl. eapply mono_trans; [exact M1|]. apply mono_set.
    apply andb_true_iff in E6. destruct E6 as [E6 _]. apply N.eqb_eq in E6. rewrite E6. vm_compute. discriminate. }
  destruct ((status_of ts1 id =? 2) || (status_of ts1 id =? 3)) eqn:E23.
  { simpl. assert (R : rk (status_of ts1 id) <= 1).
    { apply orb_true_iff in E23. destruct E23 as [E|E]; apply N.eqb_eq in E; rewrite E; vm_compute; discriminate. }
    split; [eapply mono_trans; [exact M1|]; apply mono_set; vm_compute in R |- *; lia|].
    right. left. split; [reflexivity|]. rewrite S0. rewrite S1 in E23, R.
    destruct (norm (t_status t0) =? 5); [destruct (mem id (no_undo c)); discriminate | assumption]. }
  destruct ((status_of ts1 id =? 6) || (status_of ts1 id =? 7)) eqn:E67.
  { simpl. assert (R : rk (status_of ts1 id) <= 4).
    { apply orb_true_iff in E67. destruct E67 as [E|E]; apply N.eqb_eq in E; rewrite E; vm_compute; discriminate. }
    split; [eapply mono_trans; [exact M1|]; apply mono_set; assumption|].
    right. right. split; [reflexivity|]. destruct M1 as [M1 _]. specialize (M1 id). lia. }
  split; [assumption | left; reflexivity].
Qed.

Lemma count_app : forall id u a b, count id u (a ++ b) = count id u a + count id u b.
Proof. intros. unfold count. rewrite filter_app, app_length. lia. Qed.

(* the invariants carried through every step: for a task whose do phase is over (rank >= 2) the number of do starts
   stays; for a task whose undo phase is over or can no longer happen (rank 5) the number of undo starts stays *)
Definition frozen (id : N) (s s' : st) : Prop :=
  mono (tasks s) (tasks s') /\
  (2 <= rk (status_of (tasks s) id) -> count id false (log s') = count id false (log s)) /\
  (5 <= rk (status_of (tasks s) id) -> count id true (log s') = count id true (log s)).

Lemma frozen_refl : forall id s, frozen id s s.
Proof. intros. repeat split; intros; try lia; reflexivity. Qed.

Lemma frozen_trans : forall id a b c, frozen id a b -> frozen id b c -> frozen id a c.
Proof.
  intros id a b c (A1 & A2 & A3) (B1 & B2 & B3). split; [eapply mono_trans; eassumption|].
  destruct A1 as [A1 _]. specialize (A1 id). split; intros H; [rewrite B2, A2 | rewrite B3, A3]; lia.
Qed.

Lemma count_one : forall id u id' u', count id u [(id', u')] = if (id' =? id) && Bool.eqb u' u then 1 else 0.
Proof. intros. unfold count. simpl. destruct ((id' =? id) && Bool.eqb u' u); reflexivity. Qed.

Lemma consider_frozen : forall c id' id s, frozen id s (consider c id' s).
Proof.
  intros c id' id s. destruct (consider_spec c id' s) as [M L]. split; [assumption|].
  destruct L as [L|[[L R]|[L R]]]; rewrite L; split; intros H; try reflexivity; rewrite count_app, count_one;
    destruct (id' =? id) eqn:E; simpl; try lia; apply N.eqb_eq in E; subst id'; lia.
Qed.

Lemma ensure_frozen : forall c id s, frozen id s (ensure c s).
Proof.
  intros c id s. unfold ensure. generalize (tasks s) at 1. intros l. revert s.
  induction l as [|t l IH]; intros s; simpl; [apply frozen_refl|].
  eapply frozen_trans; [apply consider_frozen | apply IH].
Qed.

Lemma rk_le5 : forall x, rk x <= 5.
Proof.
  intros x. unfold rk. destruct (norm x =? 2); [lia|]. destruct (norm x =? 3); [lia|].
  destruct ((norm x =? 4) || (norm x =? 5) || (norm x =? 6)); [lia|]. destruct (norm x =? 7); lia.
Qed.

Lemma finish_frozen : forall c id' id s, frozen id s (finish c id' s).
Proof.
  intros c id' id s. unfold finish. destruct (negb (mem id' (running s))); [apply frozen_refl|].
  assert (G : forall ts', mono (tasks s) ts' -> forall r, frozen id s (mkSt ts' r (log s))).
  { intros ts' M r. repeat split; try apply M; intros; reflexivity. }
  destruct ((status_of (tasks s) id' =? 3) || (status_of (tasks s) id' =? 5)) eqn:E35.
  - destruct (mem id' (fail_do c)).
    + apply G. eapply mono_trans; [apply mono_abort|]. apply mono_set.
      change (rk 9) with 5. apply rk_le5.
    + apply G. apply mono_set. apply orb_true_iff in E35. destruct E35 as [E|E]; apply N.eqb_eq in E; rewrite E.
      * rewrite N.eqb_refl. vm_compute. discriminate.
      * simpl. vm_compute. discriminate.
  - destruct (status_of (tasks s) id' =? 7) eqn:E7.
    + apply G. apply mono_set. apply N.eqb_eq in E7. rewrite E7. vm_compute. discriminate.
    + apply G. apply mono_refl.
Qed.

Lemma restart_frozen : forall id s, frozen id s (restart s).
Proof. intros. unfold restart, reload, persist. repeat split; intros; try lia; reflexivity. Qed.

Lemma step_frozen : forall c id s e, frozen id s (step c s e).
Proof. intros c id s []; simpl; [apply ensure_frozen | apply finish_frozen | apply restart_frozen]. Qed.

Lemma run_frozen : forall c id evs s, frozen id s (run_events c s evs).
Proof.
  intros c id evs. induction evs as [|e evs IH]; intros s; simpl; [apply frozen_refl|].
  eapply frozen_trans; [apply step_frozen | apply IH].
Qed.

(* ------------------------------------------------------------------ the property theorems *)
(* C04_never_after_done *)
Theorem never_after_done : forall c evs s id,
  (2 <= rk (status_of (tasks s) id) -> count id false (log (run_events c s evs)) = count id false (log s)) /\
  (5 <= rk (status_of (tasks s) id) -> count id true (log (run_events c s evs)) = count id true (log s)).
Proof. intros c evs s id. destruct (run_frozen c id evs s) as (_ & A & B). split; assumption. Qed.

(* statuses only move forward; no task is lost, duplicated or rewired — by any event list, restarts included *)
Theorem forward_no_loss_no_dup : forall c evs s,
  (forall id, rk (status_of (tasks s) id) <= rk (status_of (tasks (run_events c s evs)) id)) /\
  map t_id (tasks (run_events c s evs)) = map t_id (tasks s) /\
  map t_waits (tasks (run_events c s evs)) = map t_waits (tasks s).
Proof. intros c evs s. destruct (run_frozen c 0 evs s) as (M & _). exact M. Qed.

(* reload after persist is the identity on what is persisted *)
Theorem reload_persist_id : forall s, tasks (restart s) = tasks s /\ running (restart s) = [] /\ log (restart s) = log s.
Proof. intros s. repeat split. Qed.

(* ------------------------------------------------------------------ same outcome: complete finite domain *)
(* the deterministic schedule in single steps: an Ensure pass when nothing runs, otherwise the first running handler returns *)
Definition micro (c : cfg) (s : st) : st :=
  match running s with [] => ensure c s | id :: _ => finish c id s end.
Fixpoint iter (k : nat) (c : cfg) (s : st) : st := match k with O => s | S k' => iter k' c (micro c s) end.

Fixpoint sublists (l : list N) : list (list N) :=
  match l with [] => [[]] | x :: r => let s := sublists r in s ++ map (cons x) s end.
(* all chains on tasks 1..3 (task j waits for task j-1) with any extra edges to earlier tasks: the graphs on which the
   runner's schedule does not depend on the order in which Ensure visits the tasks *)
Definition all_graphs : list (list (N * list N)) :=
  [[(1, [])]; [(1, []); (2, [1])]] ++ map (fun w3 => [(1, []); (2, [1]); (3, 2 :: w3)]) (sublists [1]).
Definition all_cfgs : list cfg :=
  flat_map (fun f => map (fun u => mkCfg f u) (sublists [1; 2; 3])) (sublists [1; 2; 3]).
Definition init (g : list (N * list N)) : st := mkSt (init_tasks g []) [] [].
Definition crash_points : list nat := seq 0 40.

Definition same_outcome_at (g : list (N * list N)) (c : cfg) (k : nat) : bool :=
  plist_eqb (statuses (settle 16 c (restart (iter k c (init g))))) (statuses (settle 16 c (init g))).

(* no task is caught in Abort (aborted while its handler was running) by the restart: such a task is NOT run again after
   the restart but undone directly (tryUndo), or put on Hold when it has no undo handler, whereas without the restart its
   handler would have returned (and possibly failed): there the outcomes legitimately differ *)
Definition no_abort (s : st) : bool := forallb (fun t => negb (norm (t_status t) =? 5)) (tasks s).

Definition same_outcome_domain : list (list (N * list N) * cfg * nat) :=
  flat_map (fun g => flat_map (fun c => map (fun k => (g, c, k)) crash_points) all_cfgs) all_graphs.
Definition same_outcome_ok (x : list (N * list N) * cfg * nat) : bool :=
  let '(g, c, k) := x in same_outcome_at g c k.

Lemma same_outcome_all : forallb same_outcome_ok same_outcome_domain = true.
Proof. vm_compute. reflexivity. Qed.

Theorem same_outcome_bounded : forall x, In x same_outcome_domain -> same_outcome_ok x = true.
Proof. apply forallb_forall. exact same_outcome_all. Qed.

(* outside chains the statement is false of the model (and of the runner): two parallel failing tasks, restart while the
   second is in Abort: it is then undone instead of run again, so its own failure is never seen *)
Lemma same_outcome_abort_refuted :
  let g := [(1, []); (2, [])] in let c := mkCfg [1; 2] [] in
  statuses (settle 16 c (restart (iter 2 c (init g)))) <> statuses (settle 16 c (init g)).
Proof. vm_compute. discriminate. Qed.
