(* C04 — proofs about models/Restart.v: over every event list (Ensure passes, handler completions, restarts anywhere) the
   status of a task only moves forward, nothing is lost or duplicated, and a handler phase recorded as finished is never
   started again. *)
From Coq Require Import List NArith Bool Lia ZifyBool ZifyN.
Import ListNotations.
Require Import V.models.Restart.
Open Scope N_scope.

(* how far a task has got: Do 0, Doing 1, Done/Abort/Undo 2, Undoing 4, Undone/Hold/Error 5 *)
Definition rk (s : N) : N :=
  let n := norm s in
  if n =? 2 then 0 else if n =? 3 then 1 else if (n =? 4) || (n =? 5) || (n =? 6) then 2 else if n =? 7 then 4 else 5.

Definition fnd (ts : list task) (id : N) := find (fun t => t_id t =? id) ts.

Lemma norm_norm : forall s, norm (norm s) = norm s.
Proof. intros s. unfold norm. destruct (s =? 0) eqn:E; [reflexivity | rewrite E; reflexivity]. Qed.
Lemma rk_norm : forall s, rk (norm s) = rk s.
Proof. intros s. unfold rk. rewrite norm_norm. reflexivity. Qed.

Lemma find_map_id : forall (f : task -> task) ts i, (forall t, t_id (f t) = t_id t) ->
  fnd (map f ts) i = option_map f (fnd ts i).
Proof.
  intros f ts i Hf. unfold fnd. induction ts as [|a ts IH]; simpl; [reflexivity|].
  rewrite Hf. destruct (t_id a =? i); [reflexivity | assumption].
Qed.

Definition mono (ts ts' : list task) : Prop :=
  (forall i, rk (status_of ts i) <= rk (status_of ts' i)) /\ map t_id ts' = map t_id ts /\ map t_waits ts' = map t_waits ts.

Lemma mono_refl : forall ts, mono ts ts.
Proof. intros ts. repeat split; intros; lia. Qed.
Lemma mono_trans : forall a b c, mono a b -> mono b c -> mono a c.
Proof.
  intros a b c (A1 & A2 & A3) (B1 & B2 & B3). repeat split; try congruence.
  intros i. specialize (A1 i). specialize (B1 i). lia.
Qed.

Lemma set_status_shape : forall id v ts, map t_id (set_status id v ts) = map t_id ts /\ map t_waits (set_status id v ts) = map t_waits ts.
Proof.
  intros id v ts. unfold set_status. rewrite !map_map. split; apply map_ext; intros t; destruct (t_id t =? id); reflexivity.
Qed.

Lemma status_of_set : forall id v ts i,
  status_of (set_status id v ts) i =
  if i =? id then match fnd ts i with Some _ => norm v | None => 0 end else status_of ts i.
Proof.
  intros id v ts i. unfold status_of. fold (fnd (set_status id v ts) i). fold (fnd ts i). unfold set_status.
  rewrite find_map_id by (intros t; destruct (t_id t =? id); reflexivity).
  destruct (fnd ts i) as [t|] eqn:F; simpl.
  - unfold fnd in F. apply find_some in F. destruct F as [_ F]. apply N.eqb_eq in F. rewrite F.
    destruct (i =? id); reflexivity.
  - destruct (i =? id); reflexivity.
Qed.

Lemma mono_set : forall id v ts, rk (status_of ts id) <= rk v -> mono ts (set_status id v ts).
Proof.
  intros id v ts H. split; [|apply set_status_shape]. intros i. rewrite status_of_set.
  destruct (i =? id) eqn:E; [|lia]. apply N.eqb_eq in E. subst i.
  unfold status_of in *. fold (fnd ts id) in *. destruct (fnd ts id); [rewrite (rk_norm v); assumption | lia].
Qed.

Lemma rk_abort1 : forall s, rk s <= rk (abort1 s).
Proof.
  intros s. unfold abort1. destruct (norm s =? 2) eqn:E2; [unfold rk at 1; rewrite E2; vm_compute; discriminate|].
  destruct (norm s =? 3) eqn:E3; [unfold rk at 1; rewrite E2, E3; vm_compute; discriminate|].
  destruct (norm s =? 4) eqn:E4; [unfold rk at 1; rewrite E2, E3, E4; vm_compute; discriminate | lia].
Qed.

Lemma mono_abort : forall ts, mono ts (abort_all ts).
Proof.
  intros ts. unfold abort_all. repeat split.
  - intros i. unfold status_of. fold (fnd ts i). fold (fnd (map (fun t => mkT (t_id t) (abort1 (t_status t)) (t_waits t)) ts) i).
    rewrite find_map_id by reflexivity. destruct (fnd ts i); simpl; [rewrite !rk_norm; apply rk_abort1 | lia].
  - rewrite map_map. reflexivity.
  - rewrite map_map. reflexivity.
Qed.

(* ------------------------------------------------------------------ one Ensure consideration *)
(* what [consider] does, abstractly: tasks move forward; the log grows by at most one start, a do start only from
   Do/Doing and an undo start only from Undo/Undoing *)
Lemma consider_spec : forall c id s,
  mono (tasks s) (tasks (consider c id s)) /\
  (log (consider c id s) = log s \/
   (log (consider c id s) = log s ++ [(id, false)] /\ rk (status_of (tasks s) id) <= 1) \/
   (log (consider c id s) = log s ++ [(id, true)] /\ rk (status_of (tasks s) id) <= 4)).
Proof.
  intros c id s. unfold consider. destruct (find (fun t => t_id t =? id) (tasks s)) as [t0|] eqn:F0.
  2:{ split; [apply mono_refl | left; reflexivity]. }
  assert (S0 : status_of (tasks s) id = norm (t_status t0)) by (unfold status_of; rewrite F0; reflexivity).
  destruct ((norm (t_status t0) =? 5) && mem id (running s)) eqn:EA. { split; [apply mono_refl | left; reflexivity]. }
  set (ts1 := if norm (t_status t0) =? 5 then set_status id (if mem id (no_undo c) then 1 else 6) (tasks s) else tasks s).
  assert (M1 : mono (tasks s) ts1).
  { subst ts1. destruct (norm (t_status t0) =? 5) eqn:E5; [|apply mono_refl]. apply mono_set. rewrite S0.
    apply N.eqb_eq in E5. rewrite <- rk_norm, E5. destruct (mem id (no_undo c)); vm_compute; discriminate. }
  assert (S1 : status_of ts1 id = if norm (t_status t0) =? 5 then (if mem id (no_undo c) then 1 else 6) else norm (t_status t0)).
  { subst ts1. destruct (norm (t_status t0) =? 5) eqn:E5; [|assumption]. rewrite status_of_set, N.eqb_refl.
    unfold fnd. rewrite F0. destruct (mem id (no_undo c)); reflexivity. }
  destruct (mem id (running s)). { split; [assumption | left; reflexivity]. }
  destruct (ready (status_of ts1 id)) eqn:ER. { split; [assumption | left; reflexivity]. }
  destruct (find (fun t => t_id t =? id) ts1) as [t1|] eqn:F1. 2:{ split; [apply mono_refl | left; reflexivity]. }
  destruct (must_wait ts1 t1). { split; [assumption | left; reflexivity]. }
  destruct ((status_of ts1 id =? 6) && mem id (no_undo c)) eqn:E6.
  { split; [|left; reflexivity]. simpl. eapply mono_trans; [exact M1|]. apply mono_set.
    apply andb_true_iff in E6. destruct E6 as [E6 _]. apply N.eqb_eq in E6. rewrite E6. vm_compute. discriminate. }
  destruct ((status_of ts1 id =? 2) || (status_of ts1 id =? 3)) eqn:E23.
  { simpl. assert (R : rk (status_of ts1 id) <= 1).
    { apply orb_true_iff in E23. destruct E23 as [E|E]; apply N.eqb_eq in E; rewrite E; vm_compute; discriminate. }
    split; [eapply mono_trans; [exact M1|]; apply mono_set; vm_compute in R |- *; lia|].
    right. left. split; [reflexivity|]. rewrite S0. rewrite S1 in E23, R.
    destruct (norm (t_status t0) =? 5); [destruct (mem id (no_undo c)); discriminate | assumption]. }
  destruct ((status_of ts1 id =? 6) || (status_of ts1 id =? 7)) eqn:E67.
  { simpl. assert (R : rk (status_of ts1 id) <= 4).
    { apply orb_true_iff in E67. destruct E67 as [E|E]; apply N.eqb_eq in E; rewrite E; vm_compute; discriminate. }
    split; [eapply mono_trans; [exact M1|]; apply mono_set; assumption|].
    right. right. split; [reflexivity|]. destruct M1 as [M1 _]. specialize (M1 id). lia. }
  split; [assumption | left; reflexivity].
Qed.

Lemma count_app : forall id u a b, count id u (a ++ b) = count id u a + count id u b.
Proof. intros. unfold count. rewrite filter_app, app_length. lia. Qed.

(* the invariants carried through every step: for a task whose do phase is over (rank >= 2) the number of do starts
   stays; for a task whose undo phase is over or can no longer happen (rank 5) the number of undo starts stays *)
Definition frozen (id : N) (s s' : st) : Prop :=
  mono (tasks s) (tasks s') /\
  (2 <= rk (status_of (tasks s) id) -> count id false (log s') = count id false (log s)) /\
  (5 <= rk (status_of (tasks s) id) -> count id true (log s') = count id true (log s)).

Lemma frozen_refl : forall id s, frozen id s s.
Proof. intros. repeat split; intros; try lia; reflexivity. Qed.

Lemma frozen_trans : forall id a b c, frozen id a b -> frozen id b c -> frozen id a c.
Proof.
  intros id a b c (A1 & A2 & A3) (B1 & B2 & B3). split; [eapply mono_trans; eassumption|].
  destruct A1 as [A1 _]. specialize (A1 id). split; intros H; [rewrite B2, A2 | rewrite B3, A3]; lia.
Qed.

Lemma count_one : forall id u id' u', count id u [(id', u')] = if (id' =? id) && Bool.eqb u' u then 1 else 0.
Proof. intros. unfold count. simpl. destruct ((id' =? id) && Bool.eqb u' u); reflexivity. Qed.

Lemma consider_frozen : forall c id' id s, frozen id s (consider c id' s).
Proof.
  intros c id' id s. destruct (consider_spec c id' s) as [M L]. split; [assumption|].
  destruct L as [L|[[L R]|[L R]]]; rewrite L; split; intros H; try reflexivity; rewrite count_app, count_one;
    destruct (id' =? id) eqn:E; simpl; try lia; apply N.eqb_eq in E; subst id'; lia.
Qed.

Lemma ensure_frozen : forall c id s, frozen id s (ensure c s).
Proof.
  intros c id s. unfold ensure. generalize (tasks s) at 1. intros l. revert s.
  induction l as [|t l IH]; intros s; simpl; [apply frozen_refl|].
  eapply frozen_trans; [apply consider_frozen | apply IH].
Qed.

Lemma rk_le5 : forall x, rk x <= 5.
Proof.
  intros x. unfold rk. destruct (norm x =? 2); [lia|]. destruct (norm x =? 3); [lia|].
  destruct ((norm x =? 4) || (norm x =? 5) || (norm x =? 6)); [lia|]. destruct (norm x =? 7); lia.
Qed.

Lemma finish_frozen : forall c id' id s, frozen id s (finish c id' s).
Proof.
  intros c id' id s. unfold finish. destruct (negb (mem id' (running s))); [apply frozen_refl|].
  assert (G : forall ts', mono (tasks s) ts' -> forall r, frozen id s (mkSt ts' r (log s))).
  { intros ts' M r. repeat split; try apply M; intros; reflexivity. }
  destruct ((status_of (tasks s) id' =? 3) || (status_of (tasks s) id' =? 5)) eqn:E35.
  - destruct (mem id' (fail_do c)).
    + apply G. eapply mono_trans; [apply mono_abort|]. apply mono_set.
      change (rk 9) with 5. apply rk_le5.
    + apply G. apply mono_set. apply orb_true_iff in E35. destruct E35 as [E|E]; apply N.eqb_eq in E; rewrite E.
      * rewrite N.eqb_refl. vm_compute. discriminate.
      * simpl. vm_compute. discriminate.
  - destruct (status_of (tasks s) id' =? 7) eqn:E7.
    + apply G. apply mono_set. apply N.eqb_eq in E7. rewrite E7. vm_compute. discriminate.
    + apply G. apply mono_refl.
Qed.

Lemma restart_frozen : forall id s, frozen id s (restart s).
Proof. intros. unfold restart, reload, persist. repeat split; intros; try lia; reflexivity. Qed.

Lemma mono_map : forall (f : task -> task) ts,
  (forall t, t_id (f t) = t_id t /\ t_waits (f t) = t_waits t /\ rk (t_status t) <= rk (t_status (f t))) -> mono ts (map f ts).
Proof.
  intros f ts H. repeat split.
  - intros i. unfold status_of. fold (fnd ts i). fold (fnd (map f ts) i).
    rewrite find_map_id by (intros t; apply H). destruct (fnd ts i) as [t|]; simpl; [rewrite !rk_norm; apply H | lia].
  - rewrite map_map. apply map_ext. intros t. apply H.
  - rewrite map_map. apply map_ext. intros t. apply H.
Qed.

Lemma stop_frozen : forall c id s, frozen id s (stop c s).
Proof.
  intros c id s. unfold stop. repeat split; simpl; try reflexivity; try apply (mono_map (stop_task c (running s))).
  all: intros t; unfold stop_task; destruct (mem (t_id t) (running s) && (norm (t_status t) =? 5)) eqn:E; simpl;
    repeat split; try lia.
  all: apply andb_true_iff in E; destruct E as [_ E]; apply N.eqb_eq in E; rewrite <- (rk_norm (t_status t)), E;
    destruct (mem (t_id t) (no_undo c)); vm_compute; discriminate.
Qed.

Lemma step_frozen : forall c id s e, frozen id s (step c s e).
Proof. intros c id s []; simpl; [apply ensure_frozen | apply finish_frozen | apply restart_frozen | apply stop_frozen]. Qed.

Lemma run_frozen : forall c id evs s, frozen id s (run_events c s evs).
Proof.
  intros c id evs. induction evs as [|e evs IH]; intros s; simpl; [apply frozen_refl|].
  eapply frozen_trans; [apply step_frozen | apply IH].
Qed.

(* ------------------------------------------------------------------ the property theorems *)
(* C04_never_after_done *)
Theorem never_after_done : forall c evs s id,
  (2 <= rk (status_of (tasks s) id) -> count id false (log (run_events c s evs)) = count id false (log s)) /\
  (5 <= rk (status_of (tasks s) id) -> count id true (log (run_events c s evs)) = count id true (log s)).
Proof. intros c evs s id. destruct (run_frozen c id evs s) as (_ & A & B). split; assumption. Qed.

(* statuses only move forward; no task is lost, duplicated or rewired — by any event list, restarts included *)
Theorem forward_no_loss_no_dup : forall c evs s,
  (forall id, rk (status_of (tasks s) id) <= rk (status_of (tasks (run_events c s evs)) id)) /\
  map t_id (tasks (run_events c s evs)) = map t_id (tasks s) /\
  map t_waits (tasks (run_events c s evs)) = map t_waits (tasks s).
Proof. intros c evs s. destruct (run_frozen c 0 evs s) as (M & _). exact M. Qed.

(* reload after persist is the identity on what is persisted *)
Theorem reload_persist_id : forall s, tasks (restart s) = tasks s /\ running (restart s) = [] /\ log (restart s) = log s.
Proof. intros s. repeat split. Qed.

(* ------------------------------------------------------------------ same outcome, every graph *)
(* two runner states are equivalent when they have the same tasks and the same SET of running handlers; the log (the
   observer's record of starts) is deliberately not compared: after a restart handlers are started again *)
Definition eqv (s s' : st) : Prop := tasks s = tasks s' /\ forall id, mem id (running s) = mem id (running s').

(* [consider] as a function of the task list and of whether the task is running *)
Definition ts1_of (c : cfg) (id : N) (ts : list task) (t0 : task) : list task :=
  if norm (t_status t0) =? 5 then set_status id (if mem id (no_undo c) then 1 else 6) ts else ts.
Definition ctasks (c : cfg) (id : N) (ts : list task) (isr : bool) : list task :=
  match fnd ts id with
  | None => ts
  | Some t0 =>
      if (norm (t_status t0) =? 5) && isr then ts else
      let ts1 := ts1_of c id ts t0 in
      if isr then ts1 else
      let st1 := status_of ts1 id in
      if ready st1 then ts1 else
      match fnd ts1 id with
      | None => ts
      | Some t1 =>
          if must_wait ts1 t1 then ts1
          else if (st1 =? 6) && mem id (no_undo c) then set_status id 4 ts1
          else if (st1 =? 2) || (st1 =? 3) then set_status id 3 ts1
          else if (st1 =? 6) || (st1 =? 7) then set_status id 7 ts1
          else ts1
      end
  end.
Definition cstart (c : cfg) (id : N) (ts : list task) (isr : bool) : bool :=
  match fnd ts id with
  | None => false
  | Some t0 =>
      if (norm (t_status t0) =? 5) && isr then false else
      let ts1 := ts1_of c id ts t0 in
      if isr then false else
      let st1 := status_of ts1 id in
      if ready st1 then false else
      match fnd ts1 id with
      | None => false
      | Some t1 =>
          if must_wait ts1 t1 then false
          else if (st1 =? 6) && mem id (no_undo c) then false
          else if (st1 =? 2) || (st1 =? 3) then true
          else if (st1 =? 6) || (st1 =? 7) then true
          else false
      end
  end.

Lemma consider_decomp : forall c id s,
  tasks (consider c id s) = ctasks c id (tasks s) (mem id (running s)) /\
  running (consider c id s) = if cstart c id (tasks s) (mem id (running s)) then running s ++ [id] else running s.
Proof.
  intros c id s. unfold consider, ctasks, cstart, ts1_of, fnd.
  destruct (find (fun t => t_id t =? id) (tasks s)) as [t0|]; [|split; reflexivity].
  destruct ((norm (t_status t0) =? 5) && mem id (running s)); [split; reflexivity|].
  destruct (mem id (running s)); [split; reflexivity|].
  match goal with |- context [ready ?x] => destruct (ready x) end; [split; reflexivity|].
  match goal with |- context [find ?f ?l] => destruct (find f l) as [t1|] end; [|split; reflexivity].
  match goal with |- context [must_wait ?a ?b] => destruct (must_wait a b) end; [split; reflexivity|].
  match goal with |- context [(?x =? 6) && ?y] => destruct ((x =? 6) && y) end; [split; reflexivity|].
  match goal with |- context [(?x =? 2) || (?x =? 3)] => destruct ((x =? 2) || (x =? 3)) end; [split; reflexivity|].
  match goal with |- context [(?x =? 6) || (?x =? 7)] => destruct ((x =? 6) || (x =? 7)) end; split; reflexivity.
Qed.

Lemma mem_app1 : forall x l y, mem x (l ++ [y]) = mem x l || (x =? y).
Proof. intros. unfold mem. rewrite existsb_app. simpl. rewrite orb_false_r. reflexivity. Qed.

Lemma consider_eqv : forall c id s s', eqv s s' -> eqv (consider c id s) (consider c id s').
Proof.
  intros c id s s' [E1 E2]. destruct (consider_decomp c id s) as [A1 A2]. destruct (consider_decomp c id s') as [B1 B2].
  split.
  - rewrite A1, B1, E1, E2. reflexivity.
  - intros x. rewrite A2, B2, E1, E2. destruct (cstart c id (tasks s') (mem id (running s'))); [rewrite !mem_app1, E2; reflexivity | apply E2].
Qed.

Lemma fold_consider_eqv : forall c (l : list task) s s', eqv s s' ->
  eqv (fold_left (fun acc t => consider c (t_id t) acc) l s) (fold_left (fun acc t => consider c (t_id t) acc) l s').
Proof. intros c l. induction l as [|t l IH]; intros s s' E; simpl; [assumption | apply IH, consider_eqv, E]. Qed.

Lemma ensure_eqv : forall c s s', eqv s s' -> eqv (ensure c s) (ensure c s').
Proof. intros c s s' E. unfold ensure. destruct E as [E1 E2]. rewrite E1. apply fold_consider_eqv. split; assumption. Qed.

Lemma mem_filter_ne : forall x id l, mem x (filter (fun y => negb (y =? id)) l) = mem x l && negb (x =? id).
Proof.
  intros x id l. unfold mem. induction l as [|y l IH]; simpl; [reflexivity|].
  destruct (y =? id) eqn:E; simpl.
  - rewrite IH. apply N.eqb_eq in E. subst y. destruct (x =? id) eqn:E2; simpl; [rewrite andb_false_r; reflexivity | reflexivity].
  - rewrite IH. destruct (x =? y) eqn:E2; simpl; [|reflexivity]. apply N.eqb_eq in E2. subst y. rewrite E. reflexivity.
Qed.

Lemma finish_eqv : forall c id s s', eqv s s' -> eqv (finish c id s) (finish c id s').
Proof.
  intros c id s s' [E1 E2]. unfold finish. rewrite E2, E1. destruct (negb (mem id (running s'))); [split; assumption|].
  assert (F : forall x, mem x (filter (fun y => negb (y =? id)) (running s)) = mem x (filter (fun y => negb (y =? id)) (running s')))
    by (intros x; rewrite !mem_filter_ne, E2; reflexivity).
  destruct ((status_of (tasks s') id =? 3) || (status_of (tasks s') id =? 5)).
  - destruct (mem id (fail_do c)); split; simpl; try reflexivity; assumption.
  - destruct (status_of (tasks s') id =? 7); split; simpl; try reflexivity; assumption.
Qed.

Lemma stop_eqv : forall c s s', eqv s s' -> eqv (stop c s) (stop c s').
Proof.
  intros c s s' [E1 E2]. unfold stop. split; simpl; [|reflexivity]. rewrite E1. apply map_ext. intros t.
  unfold stop_task. rewrite E2. reflexivity.
Qed.

Lemma step_eqv : forall c e s s', eqv s s' -> eqv (step c s e) (step c s' e).
Proof.
  intros c [|id| |] s s' E; simpl; [apply ensure_eqv | apply finish_eqv | | apply stop_eqv]; try assumption.
  destruct E as [E1 E2]. unfold restart, reload, persist. split; simpl; [assumption | reflexivity].
Qed.

Lemma run_eqv : forall c evs s s', eqv s s' -> eqv (run_events c s evs) (run_events c s' evs).
Proof. intros c evs. induction evs as [|e evs IH]; intros s s' E; simpl; [assumption | apply IH, step_eqv, E]. Qed.

(* ---- the first Ensure pass after a restart reaches the state the same pass reaches without the restart *)
Lemma set_status_absent : forall id v ts, ~ In id (map t_id ts) -> set_status id v ts = ts.
Proof.
  intros id v ts. induction ts as [|b ts IH]; intros H; simpl; [reflexivity|].
  destruct (t_id b =? id) eqn:E.
  - exfalso. apply H. apply N.eqb_eq in E. simpl. left. assumption.
  - f_equal. apply IH. intro X. apply H. simpl. right. assumption.
Qed.

Lemma set_status_same : forall id v ts, NoDup (map t_id ts) -> (forall t, fnd ts id = Some t -> t_status t = v) -> set_status id v ts = ts.
Proof.
  intros id v ts. induction ts as [|a ts IH]; intros Hn H; simpl; [reflexivity|].
  inversion Hn as [|? ? Ha Hn']; subst. unfold fnd in *. simpl in H. destruct (t_id a =? id) eqn:E.
  - specialize (H a eq_refl). f_equal.
    + destruct a; simpl in *; subst; reflexivity.
    + apply N.eqb_eq in E. subst id. apply set_status_absent. assumption.
  - f_equal. apply IH; assumption.
Qed.

Lemma norm_eq_37 : forall x, norm x = 3 \/ norm x = 7 -> norm x = x.
Proof. intros x H. unfold norm in *. destruct (x =? 0); [destruct H; discriminate | reflexivity]. Qed.

(* a task in Doing / Undoing: left alone when its handler runs, started again (same status) when it does not *)
Lemma ctasks_running_37 : forall c id ts, (status_of ts id = 3 \/ status_of ts id = 7) ->
  ctasks c id ts true = ts /\ cstart c id ts true = false.
Proof.
  intros c id ts H. unfold ctasks, cstart, ts1_of. unfold status_of in H. fold (fnd ts id) in H.
  destruct (fnd ts id) as [t0|]; [|split; reflexivity].
  assert (N5 : (norm (t_status t0) =? 5) = false) by (destruct H as [H|H]; rewrite H; reflexivity).
  rewrite N5. simpl. split; reflexivity.
Qed.

Lemma ctasks_idle_37 : forall c id ts, NoDup (map t_id ts) -> (status_of ts id = 3 \/ status_of ts id = 7) ->
  ctasks c id ts false = ts /\ cstart c id ts false = true.
Proof.
  intros c id ts Hn H. unfold ctasks, cstart, ts1_of. pose proof H as H'. unfold status_of in H'. fold (fnd ts id) in H'.
  destruct (fnd ts id) as [t0|] eqn:F; [|destruct H'; discriminate].
  assert (N5 : (norm (t_status t0) =? 5) = false) by (destruct H' as [X|X]; rewrite X; reflexivity).
  rewrite N5. simpl. rewrite F.
  assert (MW : must_wait ts t0 = false) by (unfold must_wait; destruct H' as [X|X]; rewrite X; reflexivity).
  assert (S : status_of ts id = norm (t_status t0)) by (unfold status_of; fold (fnd ts id); rewrite F; reflexivity).
  rewrite MW. destruct H as [H|H]; rewrite H; simpl.
  - split; [|reflexivity]. apply set_status_same; [assumption|]. intros t Ft. rewrite F in Ft. inversion Ft; subst.
    rewrite <- (norm_eq_37 (t_status t)); [rewrite <- S; assumption | assumption].
  - split; [|reflexivity]. apply set_status_same; [assumption|]. intros t Ft. rewrite F in Ft. inversion Ft; subst.
    rewrite <- (norm_eq_37 (t_status t)); [rewrite <- S; assumption | assumption].
Qed.

Lemma ctasks_ids : forall c id ts isr, map t_id (ctasks c id ts isr) = map t_id ts.
Proof.
  intros c id ts isr. unfold ctasks, ts1_of. destruct (fnd ts id) as [t0|]; [|reflexivity].
  destruct ((norm (t_status t0) =? 5) && isr); [reflexivity|].
  set (ts1 := if norm (t_status t0) =? 5 then set_status id (if mem id (no_undo c) then 1 else 6) ts else ts).
  assert (S1 : map t_id ts1 = map t_id ts) by (subst ts1; destruct (norm (t_status t0) =? 5); [apply set_status_shape | reflexivity]).
  destruct isr; [assumption|]. destruct (ready (status_of ts1 id)); [assumption|].
  destruct (fnd ts1 id); [|reflexivity]. destruct (must_wait ts1 t); [assumption|].
  destruct (_ && _); [rewrite (proj1 (set_status_shape _ _ _)); assumption|].
  destruct (_ || _); [rewrite (proj1 (set_status_shape _ _ _)); assumption|].
  destruct (_ || _); [rewrite (proj1 (set_status_shape _ _ _)); assumption | assumption].
Qed.

Lemma ctasks_other : forall c id ts isr x, x <> id -> status_of (ctasks c id ts isr) x = status_of ts x.
Proof.
  intros c id ts isr x Hx. assert (Hb : (x =? id) = false) by (apply N.eqb_neq; assumption).
  assert (S : forall v l, status_of (set_status id v l) x = status_of l x) by (intros; rewrite status_of_set, Hb; reflexivity).
  unfold ctasks, ts1_of. destruct (fnd ts id) as [t0|]; [|reflexivity].
  destruct ((norm (t_status t0) =? 5) && isr); [reflexivity|].
  set (ts1 := if norm (t_status t0) =? 5 then set_status id (if mem id (no_undo c) then 1 else 6) ts else ts).
  assert (S1 : status_of ts1 x = status_of ts x) by (subst ts1; destruct (norm (t_status t0) =? 5); [apply S | reflexivity]).
  destruct isr; [assumption|]. destruct (ready (status_of ts1 id)); [assumption|].
  destruct (fnd ts1 id); [|reflexivity]. destruct (must_wait ts1 t); [assumption|].
  destruct (_ && _); [rewrite S; assumption|]. destruct (_ || _); [rewrite S; assumption|]. destruct (_ || _); [rewrite S; assumption | assumption].
Qed.

Lemma mem_in : forall x l, mem x l = true <-> In x l.
Proof.
  intros x l. unfold mem. rewrite existsb_exists. split.
  - intros [y [Hy E]]. apply N.eqb_eq in E. subst; assumption.
  - intros H. exists x. split; [assumption | apply N.eqb_refl].
Qed.

(* the invariant of the two Ensure passes run side by side: [a] continues the state with its running handlers R0, [a']
   the restarted one; [pre] are the ids already considered *)
Lemma ensure_after_restart : forall c R0 (l : list task) pre a a',
  NoDup (pre ++ map t_id l) ->
  tasks a = tasks a' -> map t_id (tasks a) = pre ++ map t_id l ->
  (forall x, mem x (running a) = mem x (running a') || (mem x R0 && negb (mem x pre))) ->
  (forall x, mem x (running a') = true -> mem x pre = true) ->
  (forall x, mem x R0 = true -> mem x pre = false -> status_of (tasks a) x = 3 \/ status_of (tasks a) x = 7) ->
  eqv (fold_left (fun acc t => consider c (t_id t) acc) l a) (fold_left (fun acc t => consider c (t_id t) acc) l a').
Proof.
  intros c R0 l. induction l as [|t l IH]; intros pre a a' Hn E1 Hids I2 I3 I5; simpl.
  - split; [assumption|]. intros x. rewrite I2. simpl in Hn. rewrite app_nil_r in Hn.
    destruct (mem x R0 && negb (mem x pre)) eqn:Z; [|rewrite orb_false_r; reflexivity].
    (* an id of R0 that was never considered: not a task of the state at all; cannot happen once ids cover R0 *)
    rewrite orb_true_r. apply andb_true_iff in Z. destruct Z as [Z1 Z2].
    destruct (I5 x Z1) as [H|H]; [destruct (mem x pre); [discriminate | reflexivity]| |];
      (unfold status_of in H; destruct (find (fun t0 => t_id t0 =? x) (tasks a)) as [t0|] eqn:F; [|discriminate];
       apply find_some in F; destruct F as [Fin Fe]; apply N.eqb_eq in Fe;
       assert (In x (map t_id (tasks a))) by (rewrite <- Fe; apply in_map; assumption);
       rewrite Hids, app_nil_r in H0; apply mem_in in H0; rewrite H0 in Z2; discriminate).
  - set (id := t_id t).
    assert (Hnot : mem id pre = false).
    { destruct (mem id pre) eqn:M; [|reflexivity]. exfalso. apply mem_in in M. simpl in Hn.
      apply NoDup_remove_2 in Hn. apply Hn. apply in_or_app. left. assumption. }
    destruct (consider_decomp c id a) as [A1 A2]. destruct (consider_decomp c id a') as [B1 B2].
    assert (Hn' : NoDup (map t_id (tasks a))) by (rewrite Hids; assumption).
    apply (IH (pre ++ [id])).
    + rewrite <- app_assoc. simpl. assumption.
    + (* tasks *)
      rewrite A1, B1, <- E1. destruct (mem id R0) eqn:MR.
      * assert (Ra : mem id (running a) = true) by (rewrite I2, MR, Hnot; simpl; apply orb_true_r).
        assert (Ra' : mem id (running a') = false) by (destruct (mem id (running a')) eqn:M; [apply I3 in M; congruence | reflexivity]).
        rewrite Ra, Ra'. destruct (ctasks_running_37 c id (tasks a) (I5 id MR Hnot)) as [X _].
        destruct (ctasks_idle_37 c id (tasks a) Hn' (I5 id MR Hnot)) as [Y _]. congruence.
      * assert (Eq : mem id (running a) = mem id (running a')) by (rewrite I2, MR; simpl; apply orb_false_r).
        rewrite Eq. reflexivity.
    + rewrite A1, ctasks_ids, Hids, <- app_assoc. reflexivity.
    + (* running sets *)
      intros x. rewrite A2, B2, <- E1, (mem_app1 x pre id). destruct (mem id R0) eqn:MR.
      * assert (Ra : mem id (running a) = true) by (rewrite I2, MR, Hnot; simpl; apply orb_true_r).
        assert (Ra' : mem id (running a') = false) by (destruct (mem id (running a')) eqn:M; [apply I3 in M; congruence | reflexivity]).
        rewrite Ra, Ra'. destruct (ctasks_running_37 c id (tasks a) (I5 id MR Hnot)) as [_ X].
        destruct (ctasks_idle_37 c id (tasks a) Hn' (I5 id MR Hnot)) as [_ Y]. rewrite X, Y, mem_app1, I2.
        destruct (x =? id) eqn:Ex.
        -- apply N.eqb_eq in Ex. subst x. rewrite Ra', MR, Hnot. reflexivity.
        -- rewrite !orb_false_r. reflexivity.
      * assert (Eq : mem id (running a) = mem id (running a')) by (rewrite I2, MR; simpl; apply orb_false_r).
        rewrite Eq. destruct (cstart c id (tasks a) (mem id (running a'))).
        -- rewrite !mem_app1, I2. destruct (x =? id) eqn:Ex; [|rewrite !orb_false_r; reflexivity].
           apply N.eqb_eq in Ex. subst x. rewrite MR. simpl. rewrite !orb_true_r. reflexivity.
        -- rewrite I2. destruct (x =? id) eqn:Ex; [|rewrite orb_false_r; reflexivity].
           apply N.eqb_eq in Ex. subst x. rewrite MR. simpl. reflexivity.
    + (* only considered ids are running in the restarted state *)
      intros x. rewrite B2, (mem_app1 x pre id).
      destruct (cstart c id (tasks a') (mem id (running a'))).
      * rewrite mem_app1. intros H. apply orb_true_iff in H. destruct H as [H|H]; [rewrite (I3 x H); reflexivity | rewrite H; apply orb_true_r].
      * intros H. rewrite (I3 x H). reflexivity.
    + (* the tasks of R0 still to be considered keep their status *)
      intros x Hx Hp. rewrite mem_app1 in Hp.
      apply orb_false_iff in Hp. destruct Hp as [Hp1 Hp2]. rewrite A1, ctasks_other by (apply N.eqb_neq; assumption).
      apply I5; assumption.
Qed.

(* C04_same_outcome: in a state whose running handlers all belong to tasks in Doing or Undoing (no running task is in Abort),
   a restart followed by an Ensure pass and ANY continuation gives the same tasks, statuses and running handlers as the same
   Ensure pass and continuation without the restart *)
Theorem same_outcome : forall c s evs, NoDup (map t_id (tasks s)) ->
  (forall id, mem id (running s) = true -> status_of (tasks s) id = 3 \/ status_of (tasks s) id = 7) ->
  eqv (run_events c s (ERestart :: EEnsure :: evs)) (run_events c s (EEnsure :: evs)).
Proof.
  intros c s evs Hn Hr. simpl. apply run_eqv. unfold ensure. simpl.
  assert (Q : eqv (fold_left (fun acc t => consider c (t_id t) acc) (tasks s) s)
                  (fold_left (fun acc t => consider c (t_id t) acc) (tasks s) (restart s))).
  { apply (ensure_after_restart c (running s) (tasks s) [] s (restart s)); simpl; try reflexivity; try assumption.
    - intros x. rewrite andb_true_r. reflexivity.
    - intros x H. discriminate.
    - intros x Hx _. apply Hr. assumption. }
  destruct Q as [Q1 Q2]. split; [symmetry; assumption | intros x; symmetry; apply Q2].
Qed.

(* a graceful stop instead of (before) the crash makes no difference: with no running task in Abort the stop changes no
   status, it only empties the running set - which is what the crash does *)
Lemma stop_is_restart : forall c s,
  (forall id, mem id (running s) = true -> status_of (tasks s) id = 3 \/ status_of (tasks s) id = 7) ->
  NoDup (map t_id (tasks s)) -> eqv (stop c s) (restart s).
Proof.
  intros c s Hr Hn. unfold stop, restart, reload, persist. split; simpl; [|reflexivity].
  rewrite <- (map_id (tasks s)) at 2. apply map_ext_in. intros t Ht. unfold stop_task.
  destruct (mem (t_id t) (running s)) eqn:M; [|reflexivity]. simpl.
  assert (S : status_of (tasks s) (t_id t) = norm (t_status t)).
  { unfold status_of. destruct (find (fun x => t_id x =? t_id t) (tasks s)) as [x|] eqn:F.
    - pose proof (find_some _ _ F) as [Hx Ex]. apply N.eqb_eq in Ex.
      clear F Hr M. induction (tasks s) as [|a l IH]; [contradiction|]. simpl in Hn. inversion Hn as [|? ? Ha Hn']; subst.
      destruct Hx as [Hx|Hx]; destruct Ht as [Ht|Ht]; subst; try reflexivity.
      + exfalso. apply Ha. rewrite Ex. apply in_map. assumption.
      + exfalso. apply Ha. rewrite <- Ex. apply in_map. assumption.
      + apply IH; assumption.
    - exfalso. eapply find_none in F; [|exact Ht]. rewrite N.eqb_refl in F. discriminate. }
  destruct (Hr _ M) as [H|H]; rewrite S in H; rewrite H; reflexivity.
Qed.

Theorem same_outcome_stop : forall c s evs, NoDup (map t_id (tasks s)) ->
  (forall id, mem id (running s) = true -> status_of (tasks s) id = 3 \/ status_of (tasks s) id = 7) ->
  eqv (run_events c s (EStop :: ERestart :: EEnsure :: evs)) (run_events c s (EEnsure :: evs)).
Proof.
  intros c s evs Hn Hr.
  assert (A : eqv (run_events c s (EStop :: ERestart :: EEnsure :: evs)) (run_events c s (ERestart :: EEnsure :: evs))).
  { simpl. apply run_eqv. apply ensure_eqv.
    destruct (stop_is_restart c s Hr Hn) as [E1 E2]. unfold restart, reload, persist in *. simpl in *. split; simpl; [assumption | reflexivity]. }
  destruct A as [A1 A2]. destruct (same_outcome c s evs Hn Hr) as [B1 B2]. split; [congruence | intros x; rewrite A2; apply B2].
Qed.

(* ------------------------------------------------------------------ same outcome: complete finite domain *)
(* the deterministic schedule in single steps: an Ensure pass when nothing runs, otherwise the first running handler returns *)
Definition micro (c : cfg) (s : st) : st :=
  match running s with [] => ensure c s | id :: _ => finish c id s end.
Fixpoint iter (k : nat) (c : cfg) (s : st) : st := match k with O => s | S k' => iter k' c (micro c s) end.

Fixpoint sublists (l : list N) : list (list N) :=
  match l with [] => [[]] | x :: r => let s := sublists r in s ++ map (cons x) s end.
(* all chains on tasks 1..3 (task j waits for task j-1) with any extra edges to earlier tasks: the graphs on which the
   runner's schedule does not depend on the order in which Ensure visits the tasks *)
Definition all_graphs : list (list (N * list N)) :=
  [[(1, [])]; [(1, []); (2, [1])]] ++ map (fun w3 => [(1, []); (2, [1]); (3, 2 :: w3)]) (sublists [1]).
Definition all_cfgs : list cfg :=
  flat_map (fun f => map (fun u => mkCfg f u) (sublists [1; 2; 3])) (sublists [1; 2; 3]).
Definition init (g : list (N * list N)) : st := mkSt (init_tasks g []) [] [].
Definition crash_points : list nat := seq 0 40.

Definition same_outcome_at (g : list (N * list N)) (c : cfg) (k : nat) : bool :=
  plist_eqb (statuses (settle 16 c (restart (iter k c (init g))))) (statuses (settle 16 c (init g))).

(* no task is caught in Abort (aborted while its handler was running) by the restart: such a task is NOT run again after
   the restart but undone directly (tryUndo), or put on Hold when it has no undo handler, whereas without the restart its
   handler would have returned (and possibly failed): there the outcomes legitimately differ *)
Definition no_abort (s : st) : bool := forallb (fun t => negb (norm (t_status t) =? 5)) (tasks s).

Definition same_outcome_domain : list (list (N * list N) * cfg * nat) :=
  flat_map (fun g => flat_map (fun c => map (fun k => (g, c, k)) crash_points) all_cfgs) all_graphs.
Definition same_outcome_ok (x : list (N * list N) * cfg * nat) : bool :=
  let '(g, c, k) := x in same_outcome_at g c k.

Lemma same_outcome_all : forallb same_outcome_ok same_outcome_domain = true.
Proof. vm_compute. reflexivity. Qed.

Theorem same_outcome_bounded : forall x, In x same_outcome_domain -> same_outcome_ok x = true.
Proof. apply forallb_forall. exact same_outcome_all. Qed.

(* outside chains the statement is false of the model (and of the runner): two parallel failing tasks, restart while the
   second is in Abort: it is then undone instead of run again, so its own failure is never seen *)
Lemma same_outcome_abort_refuted :
  let g := [(1, []); (2, [])] in let c := mkCfg [1; 2] [] in
  statuses (settle 16 c (restart (iter 2 c (init g)))) <> statuses (settle 16 c (init g)).
Proof. vm_compute. discriminate. Qed.

(* ------------------------------------------------------------------ the store: what the persistence assumption buys *)
Lemma run_events_app : forall c a b s, run_events c s (a ++ b) = run_events c (run_events c s a) b.
Proof. intros. unfold run_events. apply fold_left_app. Qed.

(* with checkpoints atomic and in order (no stale write) the store always holds the in-memory task list, and a run with
   crashes is exactly the run of the runner model with restarts: [restart] may be used for a crash *)
Lemma wrun_cons : forall c w e evs, wrun c w (e :: evs) = wrun c (wstep c w e) evs.
Proof. reflexivity. Qed.

Theorem store_is_memory : forall c evs w, no_stale evs = true -> w_disk w = tasks (w_mem w) ->
  w_disk (wrun c w evs) = tasks (w_mem (wrun c w evs)) /\
  w_mem (wrun c w evs) = run_events c (w_mem w) (flat_map erase evs).
Proof.
  intros c evs. induction evs as [|e evs IH]; intros w Hs Hd; [split; [assumption | reflexivity]|].
  rewrite wrun_cons. simpl in Hs. destruct e as [ev|old|]; try discriminate.
  - destruct ev.
    + destruct (IH (wstep c w (WStep EEnsure)) Hs eq_refl) as [A B]. split; [exact A | exact B].
    + destruct (IH (wstep c w (WStep (EFinish id))) Hs eq_refl) as [A B]. split; [exact A | exact B].
    + apply (IH w Hs Hd).
    + destruct (IH (wstep c w (WStep EStop)) Hs eq_refl) as [A B]. split; [exact A | exact B].
  - destruct (IH (wstep c w WCrash) Hs) as [A B]; [reflexivity|]. split; [exact A|].
    rewrite B. simpl. unfold restart, persist. rewrite Hd. reflexivity.
Qed.

(* without it the property fails: the write of the older payload (task 1 Doing) completes after the newer one (Done); after
   the crash the finished task is run again *)
Lemma stale_checkpoint_redoes_work :
  let c := mkCfg [] [] in let w0 := mkW (init [(1, [])]) (tasks (init [(1, [])])) in
  let w2 := wrun c w0 [WStep EEnsure; WStep (EFinish 1)] in
  let wf := wrun c w2 [WStale (tasks (w_mem (wrun c w0 [WStep EEnsure]))); WCrash; WStep EEnsure] in
  status_of (tasks (w_mem w2)) 1 = 4 /\ count 1 false (log (w_mem w2)) = 1 /\ count 1 false (log (w_mem wf)) = 2.
Proof. vm_compute. repeat split; reflexivity. Qed.

(* ------------------------------------------------------------------ checkpoint failure and retry *)
(* what the store holds is always the image of a state whose unlock completed: the current one, or - while an unlock is still
   retrying its checkpoint - the one before the step in progress; never anything older, never a mixture *)
Definition store_inv (c : cfg) (w : cworld) : Prop :=
  (c_dirty w = false /\ c_disk w = tasks (c_mem w)) \/
  (c_dirty w = true /\ exists m0 e, c_mem w = step c m0 e /\ c_disk w = tasks m0).

Lemma cstep_inv : forall c w ce, store_inv c w -> store_inv c (cstep c w ce).
Proof.
  intros c w ce H. destruct ce as [e written| |]; simpl.
  - destruct e; try exact H; destruct H as [[Hd Hk]|[Hd Hk]]; rewrite Hd; try (right; split; assumption);
      destruct written; [left; split; reflexivity | right; split; [reflexivity|]; eexists; eexists; split; [reflexivity | exact Hk]
                        |left; split; reflexivity | right; split; [reflexivity|]; eexists; eexists; split; [reflexivity | exact Hk]
                        |left; split; reflexivity | right; split; [reflexivity|]; eexists; eexists; split; [reflexivity | exact Hk]].
  - destruct H as [[Hd Hk]|[Hd Hk]]; rewrite Hd; [left; split; assumption | left; split; reflexivity].
  - left. split; reflexivity.
Qed.

Theorem store_always_an_unlocked_state : forall c evs w, store_inv c w -> store_inv c (crun c w evs).
Proof.
  intros c evs. induction evs as [|e evs IH]; intros w H; simpl; [exact H | apply IH, cstep_inv, H].
Qed.

(* a crash while an unlock is retrying loses exactly the step in progress (which was never acknowledged): the reloaded tasks
   are those of the state before it *)
Theorem crash_during_retry : forall c w, store_inv c w -> c_dirty w = true ->
  exists m0 e, c_mem w = step c m0 e /\ tasks (c_mem (cstep c w CCrash)) = tasks m0.
Proof.
  intros c w [[Hd _]|[_ [m0 [e [Hm Hk]]]]] Hdirty; [congruence|]. exists m0, e. split; [exact Hm | simpl; exact Hk].
Qed.

(* ---- the store model with failing writes and the runner model [run_events] *)
Definition cerase (ce : cevent) : list event :=
  match ce with CStep ERestart _ => [] | CStep e _ => [e] | CRetry => [] | CCrash => [ERestart] end.
Definition all_written (evs : list cevent) : bool :=
  forallb (fun ce => match ce with CStep _ false => false | _ => true end) evs.

(* when no write fails, a history with crashes is exactly the runner model's history with ERestart for each crash *)
Theorem crun_is_run_events : forall c evs w, all_written evs = true -> c_dirty w = false -> c_disk w = tasks (c_mem w) ->
  c_dirty (crun c w evs) = false /\ c_disk (crun c w evs) = tasks (c_mem (crun c w evs)) /\
  c_mem (crun c w evs) = run_events c (c_mem w) (flat_map cerase evs).
Proof.
  intros c evs. induction evs as [|ce evs IH]; intros w Ha Hd Hk; [repeat split; assumption|].
  simpl in Ha. apply andb_true_iff in Ha. destruct Ha as [Ha1 Ha2]. unfold crun in *. simpl fold_left.
  destruct ce as [e written| |].
  - destruct written; [|destruct e; discriminate].
    destruct e; simpl; rewrite ?Hd.
    + destruct (IH (mkC (ensure c (c_mem w)) (tasks (ensure c (c_mem w))) false) Ha2 eq_refl eq_refl) as (A & B & C).
      repeat split; try assumption.
    + destruct (IH (mkC (finish c id (c_mem w)) (tasks (finish c id (c_mem w))) false) Ha2 eq_refl eq_refl) as (A & B & C).
      repeat split; try assumption.
    + apply (IH w Ha2 Hd Hk).
    + destruct (IH (mkC (stop c (c_mem w)) (tasks (stop c (c_mem w))) false) Ha2 eq_refl eq_refl) as (A & B & C).
      repeat split; try assumption.
  - simpl. rewrite Hd. apply (IH w Ha2 Hd Hk).
  - simpl. destruct (IH (mkC (reload (c_disk w) (log (c_mem w))) (c_disk w) false) Ha2 eq_refl eq_refl) as (A & B & C).
    repeat split; try assumption. rewrite C. simpl. unfold restart, persist. rewrite Hk. reflexivity.
Qed.

(* a step whose write fails, then the successful retry, is the step with an immediate write *)
Lemma failed_then_retry : forall c w e, c_dirty w = false -> e <> ERestart ->
  cstep c (cstep c w (CStep e false)) CRetry = cstep c w (CStep e true).
Proof. intros c w e Hd He. destruct e; try congruence; simpl; rewrite Hd; reflexivity. Qed.

(* a step whose write fails, then a crash, is the crash alone: the unacknowledged step is lost, nothing else *)
Lemma failed_then_crash : forall c w e, c_dirty w = false -> e <> ERestart ->
  tasks (c_mem (cstep c (cstep c w (CStep e false)) CCrash)) = tasks (c_mem (cstep c w CCrash)) /\
  running (c_mem (cstep c (cstep c w (CStep e false)) CCrash)) = [] /\
  c_disk (cstep c (cstep c w (CStep e false)) CCrash) = c_disk w.
Proof. intros c w e Hd He. destruct e; try congruence; simpl; rewrite Hd; repeat split; reflexivity. Qed.

(* ---- the normal form of a store history *)
Definition crel (c : cfg) (w : cworld) (m : st) (pending : option event) : Prop :=
  match pending with
  | None => c_dirty w = false /\ c_disk w = tasks (c_mem w) /\ eqv (c_mem w) m
  | Some e => c_dirty w = true /\ e <> ERestart /\ c_disk w = tasks m /\ eqv (c_mem w) (step c m e)
  end.

Lemma eqv_restart : forall a b lg lg', tasks a = tasks b -> eqv (reload (tasks a) lg) (reload (tasks b) lg').
Proof. intros a b lg lg' H. unfold reload. split; simpl; [assumption | reflexivity]. Qed.

Lemma cnormal_gen : forall c evs w m pending, crel c w m pending ->
  eqv (c_mem (crun c w evs)) (run_events c m (cflat pending evs)).
Proof.
  intros c evs. induction evs as [|ce evs IH]; intros w m pending R.
  - destruct pending as [e|]; simpl in *; [destruct R as (_ & _ & _ & E); exact E | destruct R as (_ & _ & E); exact E].
  - unfold crun. simpl fold_left. fold (crun c (cstep c w ce) evs). destruct ce as [e written| |].
    + destruct pending as [pe|].
      * (* the lock is held: nothing happens *)
        destruct R as (Hd & Hne & Hk & E).
        assert (W : cstep c w (CStep e written) = w) by (destruct e; simpl; rewrite ?Hd; reflexivity). rewrite W.
        assert (F : cflat (Some pe) (CStep e written :: evs) = cflat (Some pe) evs) by (destruct e; reflexivity). rewrite F.
        apply IH. exact (conj Hd (conj Hne (conj Hk E))).
      * destruct R as (Hd & Hk & E). pose proof E as [E1 _].
        assert (NR : forall e', e' <> ERestart ->
                  eqv (c_mem (crun c (cstep c w (CStep e' written)) evs))
                      (run_events c m (cflat None (CStep e' written :: evs)))).
        { intros e' Hne.
          assert (S1 : cstep c w (CStep e' true) = mkC (step c (c_mem w) e') (tasks (step c (c_mem w) e')) false)
            by (destruct e'; try congruence; simpl; rewrite Hd; reflexivity).
          assert (S2 : cstep c w (CStep e' false) = mkC (step c (c_mem w) e') (c_disk w) true)
            by (destruct e'; try congruence; simpl; rewrite Hd; reflexivity).
          assert (F1 : cflat None (CStep e' true :: evs) = e' :: cflat None evs) by (destruct e'; try congruence; reflexivity).
          assert (F2 : cflat None (CStep e' false :: evs) = cflat (Some e') evs) by (destruct e'; try congruence; reflexivity).
          destruct written.
          - rewrite S1, F1. simpl run_events. apply IH. simpl. split; [reflexivity|]. split; [reflexivity|]. apply step_eqv. exact E.
          - rewrite S2, F2. apply IH. simpl. split; [reflexivity|]. split; [exact Hne|]. split; [congruence|]. apply step_eqv. exact E. }
        destruct e; try (apply NR; discriminate).
        simpl. apply IH. exact (conj Hd (conj Hk E)).
    + destruct pending as [pe|].
      * destruct R as (Hd & Hne & Hk & E). simpl cstep. rewrite Hd. simpl cflat. simpl run_events.
        apply IH. simpl. split; [reflexivity|]. split; [reflexivity|]. exact E.
      * destruct R as (Hd & Hk & E). simpl cstep. rewrite Hd. simpl cflat. apply IH. exact (conj Hd (conj Hk E)).
    + (* crash *)
      simpl cstep. assert (F : cflat pending (CCrash :: evs) = ERestart :: cflat None evs) by reflexivity. rewrite F.
      simpl run_events. apply IH. destruct pending as [pe|].
      * destruct R as (Hd & Hne & Hk & E). simpl. split; [reflexivity|]. split; [reflexivity|].
        unfold restart, persist, reload. rewrite Hk. split; simpl; reflexivity.
      * destruct R as (Hd & Hk & E). destruct E as [E1 E2]. simpl. split; [reflexivity|]. split; [reflexivity|].
        unfold restart, persist, reload. rewrite Hk. split; simpl; [exact E1 | reflexivity].
Qed.

(* C04_store_normal_form: ANY history of steps whose write succeeds at once or is still failing, attempts made while the lock is
   held, successful retries and crashes, from a state whose store is up to date, leaves the runner in a state equivalent (same
   tasks with statuses and edges, same set of running handlers) to [run_events] of the history with the unacknowledged steps
   dropped and an ERestart for every crash *)
Theorem store_normal_form : forall c evs w, c_dirty w = false -> c_disk w = tasks (c_mem w) ->
  eqv (c_mem (crun c w evs)) (run_events c (c_mem w) (cflat None evs)).
Proof.
  intros c evs w Hd Hk. apply cnormal_gen. simpl. split; [exact Hd|]. split; [exact Hk|]. split; [reflexivity | intros; reflexivity].
Qed.
