(* Proofs about models/TaskEngine.v, part 13 (C01): the lower half of the closure sandwich. Every task all of whose
   lanes are aborted, and everything that transitively waits on such a task, is no longer live (Do / Doing / Done, or
   Wait to become Done) after Change.AbortLanes: what had completed goes to Undo, what was running to Abort, what had not
   started to Hold. Stdlib only. *)
From Coq Require Import List NArith ZArith Bool Arith Lia.
Import ListNotations.
Require Import V.models.TaskEngine V.proofs.TaskEngineProofs V.proofs.TaskEngineStatus V.proofs.TaskEngineReady
               V.proofs.TaskEngineDoing V.proofs.TaskEngineFuel V.proofs.TaskEngineLive V.proofs.TaskEngineClosure.

Inductive lowR (s : state) (L0 : list nat) : nat -> Prop :=
| LR_all : forall t, t < length (tasks s) -> (forall x, In x (lanes_of (get s t)) -> In x L0) -> lowR s L0 t
| LR_halt : forall t h, lowR s L0 t -> In h (t_halts (get s t)) -> lowR s L0 h.

(* a task all of whose lanes are in the kill list is selected by abortLanes (it is a lane task and cannot be spared) *)
Lemma all_lanes_selected : forall l kill t,
  t < length l -> (forall x, In x (lanes_of (nth t l dummy)) -> In x kill) -> In t (select_abort l kill).
Proof.
  intros l kill t Ht Hall. unfold select_abort.
  destruct (scan_tasks_spec kill l 0 [] [] []) as (S1 & _ & S3).
  destruct (scan_tasks kill l 0 [] [] []) as [[LT HL] HD]; cbn [fst snd] in *.
  apply filter_In. split.
  - apply (S3 t Ht).
    assert (Ne : exists x r, lanes_of (nth t l dummy) = x :: r).
    { unfold lanes_of. destruct (t_lanes (nth t l dummy)) as [|a r]; [exists 0, [] | exists a, r]; reflexivity. }
    destruct Ne as (x & r & E). rewrite E. simpl.
    assert (Hx : memn x kill = true) by (apply memn_In, Hall; rewrite E; left; reflexivity). rewrite Hx. reflexivity.
  - apply negb_true_iff. destruct (existsb _ (lanes_of (nth t l dummy))) eqn:Ee; [|reflexivity].
    apply existsb_exists in Ee. destruct Ee as (x & Hx & Hb). apply andb_true_iff in Hb. destruct Hb as [Hb _].
    apply memn_In in Hb. destruct (S1 x Hb) as [[]|F].
    assert (memn x kill = true) by (apply memn_In, Hall; assumption). congruence.
Qed.

Section Lower.
  Variable s : state.

  (* loop invariant: seen tasks are dead; the halt tasks of seen tasks are seen or on the worklist; a base set is
     contained in seen + worklist *)
  Definition cinv (s0 : state) (seen wl base : list nat) : Prop :=
    same_graph s s0 /\
    (forall u, In u seen -> lv s0 u = false) /\
    (forall u h, In u seen -> In h (t_halts (get s u)) -> In h seen \/ In h wl) /\
    (forall x, In x base -> In x seen \/ In x wl).

  Lemma abort_loop_cinv : forall f wl al seen s0 lanes base,
    cinv s0 seen wl base ->
    oof (fst (fst (abort_loop f wl al seen s0 lanes))) = true \/
    cinv (fst (fst (abort_loop f wl al seen s0 lanes))) (snd (fst (abort_loop f wl al seen s0 lanes))) [] base.
  Proof.
    induction f; intros wl al seen s0 lanes base H.
    - simpl. destruct wl; [right; exact H | left; reflexivity].
    - destruct wl as [|t rest]; [right; exact H|].
      rewrite abort_loop_S. destruct H as (G & D & C & B).
      destruct (memn t seen) eqn:Em.
      + apply IHf. apply memn_In in Em. split; [assumption|]. split; [assumption|]. split.
        * intros u h Hu Hh. destruct (C u h Hu Hh) as [A|[<-|A]]; auto.
        * intros x Hx. destruct (B x Hx) as [A|[<-|A]]; auto.
      + apply IHf. destruct (abort_write_lv s0 t) as (A1 & A2 & _).
        split; [apply sg_abort_write; assumption|]. split; [|split].
        * intros u [<-|Hu]; [assumption|].
          assert (u <> t) by (intros ->; apply memn_In in Hu; congruence).
          destruct (A2 u H) as [_ E]. rewrite E. apply D. assumption.
        * intros u h [<-|Hu] Hh.
          -- destruct (memn h (t :: seen)) eqn:Eh; [left; apply memn_In; assumption|].
             right. apply in_or_app. right. apply filter_In. split; [rewrite (sg_halts s s0 t G); assumption | rewrite Eh; reflexivity].
          -- destruct (C u h Hu Hh) as [A|[<-|A]]; [left; right; assumption | left; left; reflexivity | right; apply in_or_app; left; assumption].
        * intros x Hx. destruct (B x Hx) as [A|[<-|A]]; [left; right; assumption | left; left; reflexivity | right; apply in_or_app; left; assumption].
  Qed.

  (* the recursion: afterwards some halt-closed set of dead tasks contains the selected and the previously seen tasks *)
  Lemma abort_lanes_cinv : forall d kill al seen s0,
    cinv s0 seen [] seen ->
    oof (abort_lanes d kill al seen s0) = true \/
    exists seenF, cinv (abort_lanes d kill al seen s0) seenF [] (select_abort (tasks s0) kill ++ seen).
  Proof.
    induction d; intros kill al seen s0 H; [left; reflexivity|].
    rewrite abort_lanes_S. destruct (select_abort (tasks s0) kill) eqn:Es.
    { right. exists seen. simpl. exact H. }
    rewrite <- Es. destruct H as (G & D & C & B).
    assert (H0 : cinv s0 seen (select_abort (tasks s0) kill) (select_abort (tasks s0) kill ++ seen)).
    { split; [assumption|]. split; [assumption|]. split.
      - intros u h Hu Hh. destruct (C u h Hu Hh) as [A|[]]; auto.
      - intros x Hx. apply in_app_or in Hx. tauto. }
    pose proof (abort_loop_cinv (loop_fuel s0 (select_abort (tasks s0) kill)) (select_abort (tasks s0) kill)
                                (kill ++ al) seen s0 [] _ H0) as L.
    pose proof (abort_loop_P (frame s0) (fun x t H => frame_trans _ _ _ H (frame_abort_write x t))
                             (fun x H => frame_trans _ _ _ H (frame_oof x))
                             (loop_fuel s0 (select_abort (tasks s0) kill)) (select_abort (tasks s0) kill) (kill ++ al) seen s0 []
                             (frame_refl s0)) as F.
    destruct (abort_loop _ _ _ _ _ _) as [[s1 seen1] lanes]; cbn [fst snd abort_cont] in *.
    destruct L as [O|(G1 & D1 & C1 & B1)].
    - left. destruct lanes; [assumption|]. apply (frame_abort_lanes d (n0 :: lanes) (kill ++ al) seen1 s1). assumption.
    - destruct lanes as [|l0 lanes].
      + right. exists seen1. split; [assumption|]. split; [assumption|]. split; assumption.
      + assert (H1 : cinv s1 seen1 [] seen1).
        { split; [assumption|]. split; [assumption|]. split; [assumption | auto]. }
        destruct (IHd (l0 :: lanes) (kill ++ al) seen1 s1 H1) as [O|(sF & G2 & D2 & C2 & B2)]; [left; assumption|].
        right. exists sF. split; [assumption|]. split; [assumption|]. split; [assumption|].
        intros x Hx. apply B2. apply in_or_app. right. destruct (B1 x Hx) as [A|[]]. assumption.
  Qed.

  (* Change.AbortLanes: every task of the lower closure is dead afterwards *)
  Theorem abort_lanes_top_lower : forall L0 u,
    oof s = false -> lowR s L0 u -> lv (abort_lanes_top s L0) u = false.
  Proof.
    intros L0 u Ho Hu. unfold abort_lanes_top.
    rewrite (lv_eq_tasks _ (ready_detect (abort_lanes (depth_fuel s) L0 [] [] s)) u (tasks_ready_detect _)).
    assert (H0 : cinv s [] [] []).
    { split; [apply sg_refl|]. split; [intros x []|]. split; [intros x h []| intros x []]. }
    destruct (abort_lanes_cinv (depth_fuel s) L0 [] [] s H0) as [O|(sF & G & D & C & B)].
    { pose proof (abort_lanes_fuel_ok (depth_fuel s) L0 [] [] s) as E.
      rewrite E in O; [congruence|]. pose proof (nu_mono s [] L0). pose proof (nu_nil s). lia. }
    apply D. induction Hu as [t Ht Hall | t h _ IH Hh].
    - destruct (B t) as [A|[]]; [|assumption]. apply in_or_app. left. apply all_lanes_selected; assumption.
    - destruct (C t h IH Hh) as [A|[]]. assumption.
  Qed.
End Lower.

Lemma lv_set_status_other : forall s t nw u, u <> t -> lv (set_status s t nw) u = lv s u.
Proof.
  intros s t nw u N. destruct (tasks_set_status s t nw) as [E|W]; [apply lv_eq_tasks; assumption|].
  apply lv_ext; [apply (wrote_st_other s _ t nw u W N)|].
  destruct (wrote_get s _ t nw u W) as (_ & E & _). exact E.
Qed.

(* the error path of the task runner: every task of the lower closure of the failed task's lanes, other than the
   failed task itself (which goes to Error), is dead afterwards *)
Theorem finish_err_lower : forall s t u,
  panicked s = false -> oof s = false -> memn t (running s) = true -> u <> t ->
  lowR (remove_running s t) (lanes_of (get s t)) u -> lv (finish s t OErr) u = false.
Proof.
  intros s t u Hp Ho Hr Hn Hu. unfold finish. rewrite Hp, Hr. simpl negb. cbv iota.
  rewrite lv_set_status_other by assumption.
  change (get (remove_running s t) t) with (get s t).
  apply abort_lanes_top_lower; assumption.
Qed.

(* non-vacuity: chain 0 <- 1 in the default lane; aborting lane 0: both tasks are in the lower closure *)
Lemma lower_example :
  let s := init_state [([], [], true); ([], [0], true)] in lowR s [0] 0 /\ lowR s [0] 1.
Proof.
  cbv zeta. set (s := init_state [([], [], true); ([], [0], true)]).
  assert (H0 : lowR s [0] 0).
  { apply LR_all; [simpl; lia|]. intros x Hx. simpl in Hx. destruct Hx as [<-|[]]. left; reflexivity. }
  split; [assumption|]. apply (LR_halt s [0] 0 1 H0). simpl. left; reflexivity.
Qed.
