(* C35 — the structured (JSON object) form of an epoch reads back: for every valid epoch with uint32 entries the bytes
   MarshalJSON prints, and the structured form String prints, are read back by the model of UnmarshalJSON
   (models/RevEpoch.v: parse_struct + from_structured) as an Equal epoch. *)
From Coq Require Import List NArith ZArith Bool Lia ZifyBool ZifyNat ZifyN.
Import ListNotations.
Require Import V.lib.Bytes V.lib.Dec V.models.RevEpoch V.proofs.DecProofs V.proofs.RevEpochProofs.
Open Scope N_scope.

Lemma strip_prefix_app : forall p s, strip_prefix p (p ++ s) = Some s.
Proof. induction p as [|x p IH]; intros s; cbn; [reflexivity|]. rewrite N.eqb_refl. apply IH. Qed.

Lemma span_app_stop : forall (p : N -> bool) a c r, forallb p a = true -> p c = false ->
  span p (a ++ c :: r) = (a, c :: r).
Proof.
  induction a as [|x a IH]; intros c r Ha Hc; cbn.
  - rewrite Hc. reflexivity.
  - cbn in Ha. apply andb_prop in Ha. destruct Ha as [Hx Ha]. rewrite Hx. rewrite (IH c r Ha Hc). reflexivity.
Qed.

(* splitting at a byte that does not occur in the pieces *)
Lemma split_on_none : forall c a, forallb (fun x => negb (x =? c)) a = true -> split_on c a = [a].
Proof.
  induction a as [|x a IH]; intros H; cbn; [reflexivity|].
  cbn in H. apply andb_prop in H. destruct H as [Hx Ha].
  destruct (x =? c); [discriminate|]. rewrite (IH Ha). reflexivity.
Qed.

Lemma split_on_app : forall c a s, forallb (fun x => negb (x =? c)) a = true ->
  split_on c (a ++ c :: s) = a :: split_on c s.
Proof.
  induction a as [|x a IH]; intros s H; cbn.
  - rewrite N.eqb_refl. reflexivity.
  - cbn in H. apply andb_prop in H. destruct H as [Hx Ha].
    destruct (x =? c); [discriminate|]. rewrite (IH s Ha). reflexivity.
Qed.

Lemma dec_no_byte : forall n k, (k < 48 \/ 57 < k) -> forallb (fun x => negb (x =? k)) (dec n) = true.
Proof.
  intros n k Hk. pose proof (dec_digits n) as H. rewrite forallb_forall in *. intros x Hx.
  specialize (H x Hx). rewrite (neqb_of_digit _ _ H Hk). reflexivity.
Qed.

Lemma join_dec_cons : forall x y l, join_dec (x :: y :: l) = dec x ++ 44 :: join_dec (y :: l).
Proof. reflexivity. Qed.

Lemma split_join_dec : forall l, l <> [] -> split_on 44 (join_dec l) = map dec l.
Proof.
  induction l as [|x l IH]; intros H; [congruence|].
  destruct l as [|y l].
  - cbn [join_dec map]. apply split_on_none. apply dec_no_byte. lia.
  - rewrite join_dec_cons. rewrite split_on_app by (apply dec_no_byte; lia).
    rewrite IH by discriminate. reflexivity.
Qed.

Lemma join_dec_no_byte : forall l k, (k < 44 \/ (44 < k /\ k < 48) \/ 57 < k) ->
  forallb (fun x => negb (x =? k)) (join_dec l) = true.
Proof.
  induction l as [|x l IH]; intros k Hk; [reflexivity|].
  destruct l as [|y l].
  - cbn [join_dec]. apply dec_no_byte. lia.
  - rewrite join_dec_cons. rewrite forallb_app. rewrite dec_no_byte by lia. cbn [forallb andb].
    destruct (N.eqb_spec 44 k); [lia|]. cbn [negb andb]. apply IH. exact Hk.
Qed.

Lemma join_dec_nonempty : forall l, l <> [] -> is_nil_b (join_dec l) = false.
Proof.
  intros [|x [|y l]] H; [congruence| |].
  - cbn [join_dec]. apply is_nil_b_dec.
  - rewrite join_dec_cons. destruct (dec x) eqn:E; [exfalso; eapply dec_nonempty; eauto|reflexivity].
Qed.

Lemma map_opt_parse_dec : forall l, Forall (fun n => n < two32) l -> map_opt parse_u32 (map dec l) = Some l.
Proof.
  induction l as [|x l IH]; intros H; [reflexivity|].
  inversion H as [|? ? Hx Hl]; subst. cbn [map map_opt]. rewrite (parse_u32_dec _ Hx). rewrite (IH Hl). reflexivity.
Qed.

(* one list token *)
Lemma parse_json_list_some : forall l rest, l <> [] -> Forall (fun n => n < two32) l ->
  parse_json_list (json_list (Some l) ++ rest) = Some (Some l, rest).
Proof.
  intros l rest Hne Hl. unfold json_list, parse_json_list.
  cbn [app]. change (strip_prefix null_b (91 :: (join_dec l ++ [93]) ++ rest)) with (@None bytes).
  replace ((join_dec l ++ [93]) ++ rest) with (join_dec l ++ 93 :: rest) by (rewrite <- app_assoc; reflexivity).
  cbv iota.
  rewrite (span_app_stop (fun c => negb (c =? 93)) (join_dec l) 93 rest).
  - rewrite (join_dec_nonempty _ Hne). rewrite (split_join_dec _ Hne). rewrite (map_opt_parse_dec _ Hl). reflexivity.
  - apply join_dec_no_byte. lia.
  - reflexivity.
Qed.

Lemma parse_struct_some : forall r w, r <> [] -> w <> [] ->
  Forall (fun n => n < two32) r -> Forall (fun n => n < two32) w ->
  parse_struct (json_struct (Some r) (Some w)) = Some (Some r, Some w).
Proof.
  intros r w Hr Hw Fr Fw. unfold parse_struct, json_struct.
  change [123; 34; 114; 101; 97; 100; 34; 58] with read_key.
  change [44; 34; 119; 114; 105; 116; 101; 34; 58] with write_key.
  rewrite strip_prefix_app.
  rewrite (parse_json_list_some r _ Hr Fr).
  rewrite strip_prefix_app.
  rewrite (parse_json_list_some w [125] Hw Fw).
  reflexivity.
Qed.

Definition all32 (l : list N) : Prop := Forall (fun n => n < two32) l.

Lemma from_structured_valid : forall r w, r <> [] -> w <> [] ->
  validate (mkEpoch (Some r) (Some w)) = 0 ->
  from_structured (Some r) (Some w) = Some (mkEpoch (Some r) (Some w)).
Proof.
  intros r w Hr Hw Hv. unfold from_structured.
  destruct r as [|r0 r']; [congruence|]. destruct w as [|w0 w']; [congruence|].
  cbn [lst]. rewrite Hv. reflexivity.
Qed.

(* a valid epoch that is not the zero epoch has two non-empty lists *)
Lemma valid_nonzero_lists : forall e, validate e = 0 -> is_zero e = false ->
  exists r w, e = mkEpoch (Some r) (Some w) /\ r <> [] /\ w <> [].
Proof.
  intros [er ew] Hv Hz. unfold validate in Hv. cbn [e_read e_write] in *.
  destruct (explicit_empty er || explicit_empty ew) eqn:Ee; [discriminate|].
  rewrite Hz in Hv.
  destruct ((10 <? length (lst er))%nat || (10 <? length (lst ew))%nat); [discriminate|].
  destruct (negb (is_increasing (lst er)) || negb (is_increasing (lst ew))); [discriminate|].
  destruct (intersect (lst er) (lst ew)) eqn:Ei; [|discriminate].
  destruct (intersect_nonempty_l _ _ Ei) as [Nr Nw].
  destruct er as [r|], ew as [w|]; cbn [lst] in *; try (cbn in Nr; discriminate); try (cbn in Nw; discriminate).
  exists r, w. split; [reflexivity|]. split; intros ->; [cbn in Nr|cbn in Nw]; discriminate.
Qed.

Definition wf32s (e : epoch) : Prop := all32 (lst (e_read e)) /\ all32 (lst (e_write e)).

Lemma norm0_id : forall l, l <> [] -> norm0 l = l.
Proof. intros [|x l] H; [congruence|reflexivity]. Qed.

Theorem epoch_marshal_roundtrip : forall e, validate e = 0 -> wf32s e ->
  exists e', epoch_unmarshal_json (epoch_marshal_json e) = Some e' /\ epoch_equal e e' = true.
Proof.
  intros e Hv [Wr Ww]. destruct (is_zero e) eqn:Hz.
  - (* prints {"read":[0],"write":[0]} *)
    exists (mkEpoch (Some [0]) (Some [0])).
    assert (Hr : norm0 (lst (e_read e)) = [0]).
    { apply is_zero_list_norm. unfold is_zero in Hz. apply andb_prop in Hz. apply Hz. }
    assert (Hw : norm0 (lst (e_write e)) = [0]).
    { apply is_zero_list_norm. unfold is_zero in Hz. apply andb_prop in Hz. apply Hz. }
    unfold epoch_marshal_json. rewrite Hr, Hw. split; [reflexivity|].
    unfold epoch_equal. rewrite Hz. reflexivity.
  - destruct (valid_nonzero_lists e Hv Hz) as (r & w & -> & Hr & Hw).
    exists (mkEpoch (Some r) (Some w)). cbn [e_read e_write lst] in *.
    unfold epoch_marshal_json. cbn [e_read e_write lst]. rewrite (norm0_id _ Hr), (norm0_id _ Hw).
    split.
    + unfold epoch_unmarshal_json.
      change (json_struct (Some r) (Some w)) with
        (123 :: ([34; 114; 101; 97; 100; 34; 58] ++ json_list (Some r) ++ [44; 34; 119; 114; 105; 116; 101; 34; 58] ++ json_list (Some w) ++ [125])).
      change (123 :: ([34; 114; 101; 97; 100; 34; 58] ++ json_list (Some r) ++ [44; 34; 119; 114; 105; 116; 101; 34; 58] ++ json_list (Some w) ++ [125]))
        with (json_struct (Some r) (Some w)).
      assert (E : exists t, json_struct (Some r) (Some w) = 123 :: t) by (eexists; reflexivity).
      destruct E as [t E]. rewrite E. rewrite <- E.
      rewrite (parse_struct_some r w Hr Hw Wr Ww). apply from_structured_valid; assumption.
    + unfold epoch_equal. cbn [e_read e_write lst]. rewrite Hz. rewrite !list_eqb_refl. reflexivity.
Qed.

Lemma is_short_neq : forall c t, c <> 123 -> is_short (c :: t) = true.
Proof.
  intros c t H. unfold is_short. destruct c as [|p]; [reflexivity|].
  do 7 (destruct p as [p|p|]; try reflexivity). exfalso; apply H; reflexivity.
Qed.

Lemma is_short_dec : forall n t, is_short (dec n ++ t) = true.
Proof.
  intros n t. pose proof (dec_hd_digit n) as (c & r & E & D). rewrite E. cbn [app].
  apply is_short_neq. intros ->. cbn in D. discriminate.
Qed.

(* the structured form printed by String (only valid non-zero epochs reach it) reads back as the same epoch *)
Theorem epoch_string_structured_roundtrip : forall e, validate e = 0 -> wf32s e ->
  is_short (epoch_string e) = false ->
  exists e', epoch_unmarshal_json (epoch_string e) = Some e' /\ epoch_equal e e' = true.
Proof.
  intros e Hv [Wr Ww] Hs. destruct (is_zero e) eqn:Hz.
  - unfold epoch_string in Hs. rewrite Hz in Hs. discriminate.
  - destruct (valid_nonzero_lists e Hv Hz) as (r & w & -> & Hr & Hw).
    cbn [e_read e_write lst] in *.
    assert (Es : epoch_string (mkEpoch (Some r) (Some w)) = json_struct (Some r) (Some w)).
    { unfold epoch_string in *. rewrite Hz in *. cbn [e_read e_write lst] in *.
      destruct r as [|r0 [|r1 [|r2 r']]]; try reflexivity; destruct w as [|w0 [|w1 w']]; try reflexivity.
      - destruct (r0 =? w0); [|reflexivity]. exfalso.
        rewrite <- (app_nil_r (dec r0)) in Hs. rewrite is_short_dec in Hs. discriminate.
      - destruct (((r0 + 1) mod two32 =? r1) && (r1 =? w0)); [|reflexivity]. exfalso.
        rewrite is_short_dec in Hs. discriminate. }
    rewrite Es. exists (mkEpoch (Some r) (Some w)). split.
    + unfold epoch_unmarshal_json.
      assert (E : exists t, json_struct (Some r) (Some w) = 123 :: t) by (eexists; reflexivity).
      destruct E as [t E]. rewrite E. rewrite <- E.
      rewrite (parse_struct_some r w Hr Hw Wr Ww). apply from_structured_valid; assumption.
    + unfold epoch_equal. cbn [e_read e_write lst]. rewrite Hz. rewrite !list_eqb_refl. reflexivity.
Qed.

(* the monitor's independent statement of validity agrees with the model of Validate *)
Lemma filter_mem_intersect : forall rs ws,
  negb (is_nil_b (filter (fun x => mem x ws) rs)) = intersect rs ws.
Proof.
  induction rs as [|r rs IH]; intros ws; [reflexivity|].
  cbn [filter intersect existsb]. unfold mem at 1.
  assert (E : existsb (N.eqb r) ws = existsb (fun w => r =? w) ws) by reflexivity.
  rewrite E. destruct (existsb (fun w => r =? w) ws); [reflexivity|]. cbn [orb]. apply IH.
Qed.

Lemma valid_spec_is_validate : forall e, valid_spec e = (validate e =? 0).
Proof.
  intros [er ew]. unfold valid_spec, validate. cbn [e_read e_write].
  destruct (explicit_empty er) eqn:E1; [reflexivity|]. destruct (explicit_empty ew) eqn:E2; [reflexivity|].
  cbn [negb andb orb].
  destruct (is_zero {| e_read := er; e_write := ew |}) eqn:Z; [reflexivity|]. cbn [orb].
  rewrite filter_mem_intersect.
  destruct (Nat.leb_spec (length (lst er)) 10), (Nat.ltb_spec 10 (length (lst er))); try lia;
  destruct (Nat.leb_spec (length (lst ew)) 10), (Nat.ltb_spec 10 (length (lst ew))); try lia; cbn [andb orb]; try reflexivity.
  destruct (is_increasing (lst er)); cbn [andb negb orb]; [|reflexivity].
  destruct (is_increasing (lst ew)); cbn [andb negb orb]; [|reflexivity].
  destruct (intersect (lst er) (lst ew)); reflexivity.
Qed.
