(* C34 - proofs about models/Channel.v *)
From Coq Require Import List NArith Bool Lia.
Import ListNotations.
Require Import V.lib.Bytes V.gen.ChannelRisks V.models.Channel.
Open Scope N_scope.

Lemma beq_refl : forall a, beq a a = true.
Proof. induction a; simpl; auto. rewrite N.eqb_refl. auto. Qed.

Lemma beq_eq : forall a b, beq a b = true <-> a = b.
Proof.
  induction a; destruct b; simpl; split; intro H; try discriminate; auto.
  - apply andb_true_iff in H. destruct H as [H1 H2]. apply N.eqb_eq in H1. apply IHa in H2. subst; auto.
  - inversion H; subst. rewrite N.eqb_refl. simpl. apply beq_refl.
Qed.

Lemma beq_neq : forall a b, beq a b = false <-> a <> b.
Proof.
  intros. split; intro H.
  - intro E. apply beq_eq in E. congruence.
  - destruct (beq a b) eqn:E; auto. apply beq_eq in E. contradiction.
Qed.

Lemma is_nil_b_true : forall (l : bytes), is_nil_b l = true <-> l = [].
Proof. destruct l; simpl; split; intros; auto; discriminate. Qed.

Lemma default_risk_not_nil : is_nil_b default_risk = false. Proof. reflexivity. Qed.

Lemma clean_idempotent : forall c, clean (clean c) = clean c.
Proof.
  intros [a n t r b]. unfold clean. cbn [c_arch c_name c_track c_risk c_branch].
  destruct (beq t default_track) eqn:Et.
  - change (beq [] default_track) with false. cbn iota.
    destruct (is_nil_b r) eqn:Er.
    + rewrite default_risk_not_nil. reflexivity.
    + rewrite Er. reflexivity.
  - rewrite Et.
    destruct (is_nil_b r) eqn:Er.
    + rewrite default_risk_not_nil. reflexivity.
    + rewrite Er. reflexivity.
Qed.
