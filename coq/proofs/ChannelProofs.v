(* C34 - proofs about models/Channel.v *)
From Coq Require Import List NArith Bool Lia String.
Import ListNotations.
Require Import V.lib.Bytes V.gen.ChannelRisks V.models.Channel.
Open Scope N_scope.

Lemma beq_refl : forall a, beq a a = true.
Proof. induction a; simpl; auto. rewrite N.eqb_refl. auto. Qed.

Lemma beq_eq : forall a b, beq a b = true <-> a = b.
Proof.
  induction a; destruct b; simpl; split; intro H; try discriminate; auto.
  - apply andb_true_iff in H. destruct H as [H1 H2]. apply N.eqb_eq in H1. apply IHa in H2. subst; auto.
  - inversion H; subst. rewrite N.eqb_refl. simpl. apply beq_refl.
Qed.

Lemma beq_neq : forall a b, beq a b = false <-> a <> b.
Proof.
  intros. split; intro H.
  - intro E. apply beq_eq in E. congruence.
  - destruct (beq a b) eqn:E; auto. apply beq_eq in E. contradiction.
Qed.

Lemma is_nil_b_true : forall (l : bytes), is_nil_b l = true <-> l = [].
Proof. destruct l; simpl; split; intros; auto; discriminate. Qed.

Lemma default_risk_not_nil : is_nil_b default_risk = false. Proof. reflexivity. Qed.

Lemma clean_idempotent : forall c, clean (clean c) = clean c.
Proof.
  intros [a n t r b]. unfold clean. cbn [c_arch c_name c_track c_risk c_branch].
  destruct (beq t default_track) eqn:Et.
  - change (beq [] default_track) with false. cbn iota.
    destruct (is_nil_b r) eqn:Er.
    + rewrite default_risk_not_nil. reflexivity.
    + rewrite Er. reflexivity.
  - rewrite Et.
    destruct (is_nil_b r) eqn:Er.
    + rewrite default_risk_not_nil. reflexivity.
    + rewrite Er. reflexivity.
Qed.

(* ---------------------------------------------------------------- splitting and joining *)

Definition noslash (x : bytes) : Prop := forallb (fun c => negb (is_slash c)) x = true.

Lemma split_not_nil : forall s, split_slash s <> [].
Proof.
  induction s as [|c r IH]; simpl; [discriminate|].
  destruct (is_slash c); [discriminate|]. destruct (split_slash r); discriminate.
Qed.

Lemma split_noslash : forall s, Forall noslash (split_slash s).
Proof.
  induction s as [|c r IH]; simpl.
  - constructor; [reflexivity|constructor].
  - destruct (is_slash c) eqn:E.
    + constructor; [reflexivity|exact IH].
    + destruct (split_slash r) as [|h t]; [constructor; [|constructor]|].
      * unfold noslash. simpl. rewrite E. reflexivity.
      * inversion IH; subst. constructor; [|assumption].
        unfold noslash in *. simpl. rewrite E. simpl. assumption.
Qed.

Lemma split_app : forall x r, noslash x -> split_slash (x ++ slash :: r) = x :: split_slash r.
Proof.
  induction x as [|c x IH]; intros r H.
  - reflexivity.
  - unfold noslash in H. simpl in H. apply andb_true_iff in H. destruct H as [Hc Hx].
    apply negb_true_iff in Hc. simpl. rewrite Hc. rewrite (IH r Hx). reflexivity.
Qed.

Lemma split_single : forall x, noslash x -> split_slash x = [x].
Proof.
  induction x as [|c x IH]; intros H.
  - reflexivity.
  - unfold noslash in H. simpl in H. apply andb_true_iff in H. destruct H as [Hc Hx].
    apply negb_true_iff in Hc. simpl. rewrite Hc. rewrite (IH Hx). reflexivity.
Qed.

Lemma join_split : forall s, join_slash (split_slash s) = s.
Proof.
  induction s as [|c r IH]; [reflexivity|].
  simpl. destruct (is_slash c) eqn:E.
  - apply N.eqb_eq in E. subst c.
    destruct (split_slash r) as [|h t] eqn:Er; [exfalso; exact (split_not_nil r Er)|].
    change (join_slash ([] :: h :: t)) with ([] ++ slash :: join_slash (h :: t)). rewrite IH. reflexivity.
  - destruct (split_slash r) as [|h t] eqn:Er; [exfalso; exact (split_not_nil r Er)|].
    destruct t as [|h2 t].
    + simpl in *. rewrite IH. reflexivity.
    + change (join_slash ((c :: h) :: h2 :: t)) with ((c :: h) ++ slash :: join_slash (h2 :: t)).
      change (join_slash (h :: h2 :: t)) with (h ++ slash :: join_slash (h2 :: t)) in IH.
      rewrite <- app_comm_cons. rewrite IH. reflexivity.
Qed.

Lemma has_prefix_app : forall p l, has_prefix p l = true -> exists r, l = p ++ r.
Proof.
  induction p as [|x p IH]; intros l H.
  - exists l. reflexivity.
  - destruct l as [|y l]; [discriminate|]. simpl in H. apply andb_true_iff in H. destruct H as [H1 H2].
    apply N.eqb_eq in H1. subst y. destruct (IH l H2) as [r Hr]. exists r. simpl. rewrite Hr. reflexivity.
Qed.

Lemma has_prefix_self_app : forall p r, has_prefix p (p ++ r) = true.
Proof. induction p as [|x p IH]; intros r; [reflexivity|]. simpl. rewrite N.eqb_refl. simpl. apply IH. Qed.

Lemma nil_app_false : forall (x y : bytes), is_nil_b y = false -> is_nil_b (x ++ y) = false.
Proof. intros [|c x] y H; [exact H|reflexivity]. Qed.

Lemma nil_app_false_l : forall (x y : bytes), is_nil_b x = false -> is_nil_b (x ++ y) = false.
Proof. intros [|c x] y H; [discriminate|reflexivity]. Qed.

Lemma is_nil_b_false : forall (l : bytes), is_nil_b l = false <-> l <> [].
Proof. destruct l; simpl; split; intros; auto; try discriminate. congruence. Qed.

(* ---------------------------------------------------------------- facts read off the generated table *)

Lemma risk_nil : is_risk [] = false. Proof. reflexivity. Qed.
Lemma risk_default : is_risk default_risk = true. Proof. reflexivity. Qed.
Lemma noslash_default_risk : noslash default_risk. Proof. reflexivity. Qed.
Lemma noslash_default_track : noslash default_track. Proof. reflexivity. Qed.
Lemma default_track_not_nil : is_nil_b default_track = false. Proof. reflexivity. Qed.
Lemma nil_not_default_track : beq [] default_track = false. Proof. reflexivity. Qed.

Lemma risk_not_nil : forall r, is_risk r = true -> is_nil_b r = false.
Proof. intros [|c r] H; [rewrite risk_nil in H; discriminate|reflexivity]. Qed.

Global Opaque is_risk default_risk default_track.

(* ---------------------------------------------------------------- what ParseVerbatim accepts *)

(* the five shapes of an accepted channel string, with the component list it was split into *)
Inductive vshape (a : bytes) : list bytes -> chan -> Prop :=
  | ShA t r b : is_nil_b t = false -> is_risk r = true -> is_nil_b b = false ->
      vshape a [t; r; b] (mkChan a [] t r b)
  | ShB r b : is_risk r = true -> is_nil_b b = false -> vshape a [r; b] (mkChan a [] [] r b)
  | ShC t r : is_nil_b t = false -> is_risk t = false -> is_risk r = true -> vshape a [t; r] (mkChan a [] t r [])
  | ShD r : is_risk r = true -> vshape a [r] (mkChan a [] [] r [])
  | ShE t : is_nil_b t = false -> is_risk t = false -> vshape a [t] (mkChan a [] t [] []).

Definition eff_arch (sys a : bytes) : bytes := if is_nil_b a then sys else a.

Lemma parse_verbatim_shape : forall sys s a ch,
  parse_verbatim sys s a = Some ch -> vshape (eff_arch sys a) (split_slash s) ch.
Proof.
  intros sys s a ch H. unfold parse_verbatim in H. fold (eff_arch sys a) in H.
  destruct (is_nil_b s); [discriminate|].
  destruct (split_slash s) as [|x [|y [|z [|w l]]]]; try discriminate.
  - destruct (is_risk x) eqn:Ex; unfold build in H; cbn in H.
    + rewrite Ex in H. cbn in H. inversion H; subst. apply ShD; assumption.
    + destruct (is_nil_b x) eqn:Nx; cbn in H; [discriminate|]. inversion H; subst. apply ShE; assumption.
  - destruct (is_risk x) eqn:Ex; unfold build in H; cbn in H.
    + rewrite Ex in H. cbn in H. destruct (is_nil_b y) eqn:Ny; cbn in H; [discriminate|].
      inversion H; subst. apply ShB; assumption.
    + destruct (is_risk y) eqn:Ey; cbn in H; [|discriminate].
      destruct (is_nil_b x) eqn:Nx; cbn in H; [discriminate|]. inversion H; subst. apply ShC; assumption.
  - unfold build in H; cbn in H.
    destruct (is_risk y) eqn:Ey; cbn in H; [|discriminate].
    destruct (is_nil_b x) eqn:Nx; cbn in H; [discriminate|].
    destruct (is_nil_b z) eqn:Nz; cbn in H; [discriminate|].
    inversion H; subst. apply ShA; assumption.
Qed.

(* and conversely: a string that splits into one of the shapes is accepted *)
Lemma parse_verbatim_of_shape : forall sys s a ch,
  vshape (eff_arch sys a) (split_slash s) ch -> parse_verbatim sys s a = Some ch.
Proof.
  intros sys s a ch H. unfold parse_verbatim. fold (eff_arch sys a).
  assert (Hs : is_nil_b s = false).
  { destruct s; [|reflexivity]. simpl in H. inversion H; subst; try discriminate;
      match goal with X : is_risk [] = true |- _ => rewrite risk_nil in X; discriminate end. }
  rewrite Hs. inversion H; subst; unfold build; cbn;
    repeat (match goal with
            | X : is_risk _ = _ |- _ => rewrite X
            | X : is_nil_b _ = _ |- _ => rewrite X
            end; cbn); reflexivity.
Qed.

Lemma shape_comps_noslash : forall s, Forall noslash (split_slash s). Proof. exact split_noslash. Qed.

Ltac inv_forall :=
  repeat match goal with
         | H : Forall _ (_ :: _) |- _ => inversion H; clear H; subst
         | H : Forall _ [] |- _ => clear H
         end.

(* ---------------------------------------------------------------- parse / print stability *)

Lemma reassoc3 : forall t r b : bytes, (t ++ slash :: r) ++ slash :: b = t ++ slash :: (r ++ slash :: b).
Proof. intros. rewrite <- app_assoc. reflexivity. Qed.

Lemma split3 : forall t r b, noslash t -> noslash r -> noslash b ->
  split_slash (t ++ slash :: (r ++ slash :: b)) = [t; r; b].
Proof. intros. rewrite split_app by assumption. rewrite split_app by assumption. rewrite split_single by assumption. reflexivity. Qed.

Lemma split2 : forall t r, noslash t -> noslash r -> split_slash (t ++ slash :: r) = [t; r].
Proof. intros. rewrite split_app by assumption. rewrite split_single by assumption. reflexivity. Qed.

Lemma beq_default_track_nil : forall t, beq t default_track = true -> is_nil_b t = false.
Proof. intros t H. apply beq_eq in H. subst. apply default_track_not_nil. Qed.

(* the heart of stability: the normalised name of an accepted channel is accepted again and normalises to the
   same channel *)
Lemma reparse_shape : forall a l ch, vshape a l ch -> Forall noslash l ->
  exists ch', vshape a (split_slash (c_name (clean ch))) ch' /\ clean ch' = clean ch.
Proof.
  intros a l ch H F. inversion H; subst; inv_forall; unfold clean; cbn [c_arch c_name c_track c_risk c_branch].
  - (* track/risk/branch *)
    rewrite (risk_not_nil _ H1), H2.
    destruct (beq t default_track) eqn:Et; cbn [is_nil_b].
    + rewrite split2 by assumption. eexists; split; [apply ShB; assumption|].
      unfold clean; cbn [c_arch c_name c_track c_risk c_branch].
      rewrite nil_not_default_track, (risk_not_nil _ H1), H2. reflexivity.
    + rewrite H0. rewrite reassoc3. rewrite split3 by assumption.
      eexists; split; [apply ShA; assumption|].
      unfold clean; cbn [c_arch c_name c_track c_risk c_branch].
      rewrite Et, (risk_not_nil _ H1), H2, H0. rewrite ?reassoc3. reflexivity.
  - (* risk/branch *)
    rewrite nil_not_default_track, (risk_not_nil _ H0), H1. cbn [is_nil_b].
    rewrite split2 by assumption. eexists; split; [apply ShB; assumption|].
    unfold clean; cbn [c_arch c_name c_track c_risk c_branch].
    rewrite nil_not_default_track, (risk_not_nil _ H0), H1. reflexivity.
  - (* track/risk *)
    rewrite (risk_not_nil _ H2). cbn [is_nil_b].
    destruct (beq t default_track) eqn:Et; cbn [is_nil_b].
    + rewrite split_single by assumption. eexists; split; [apply ShD; assumption|].
      unfold clean; cbn [c_arch c_name c_track c_risk c_branch].
      rewrite nil_not_default_track, (risk_not_nil _ H2). reflexivity.
    + rewrite H0. rewrite split2 by assumption. eexists; split; [apply ShC; assumption|].
      unfold clean; cbn [c_arch c_name c_track c_risk c_branch].
      rewrite Et, (risk_not_nil _ H2), H0. reflexivity.
  - (* risk *)
    rewrite nil_not_default_track, (risk_not_nil _ H0). cbn [is_nil_b].
    rewrite split_single by assumption. eexists; split; [apply ShD; assumption|].
    unfold clean; cbn [c_arch c_name c_track c_risk c_branch].
    rewrite nil_not_default_track, (risk_not_nil _ H0). reflexivity.
  - (* track *)
    cbn [is_nil_b].
    destruct (beq t default_track) eqn:Et; cbn [is_nil_b].
    + rewrite split_single by exact noslash_default_risk.
      eexists; split; [apply ShD; exact risk_default|].
      unfold clean; cbn [c_arch c_name c_track c_risk c_branch].
      rewrite nil_not_default_track, (risk_not_nil _ risk_default). reflexivity.
    + rewrite H0. rewrite split2 by (assumption || exact noslash_default_risk).
      eexists; split; [apply ShC; (assumption || exact risk_default)|].
      unfold clean; cbn [c_arch c_name c_track c_risk c_branch].
      rewrite Et, (risk_not_nil _ risk_default), H0. reflexivity.
Qed.

Theorem parse_print_stable : forall sys s a c,
  parse sys s a = Some c -> parse sys (chan_string c) a = Some c.
Proof.
  intros sys s a c H. unfold parse in *.
  destruct (parse_verbatim sys s a) as [ch|] eqn:E; [|discriminate]. inversion H; subst c; clear H.
  apply parse_verbatim_shape in E.
  destruct (reparse_shape _ _ _ E (split_noslash s)) as [ch' [Hs Hc]].
  unfold chan_string. rewrite (parse_verbatim_of_shape _ _ _ _ Hs). rewrite Hc. reflexivity.
Qed.

(* ---------------------------------------------------------------- the full form *)

Definition shown_track (c : chan) : bytes := if is_nil_b (c_track c) then default_track else c_track c.
Definition full_form (c : chan) : bytes :=
  shown_track c ++ slash :: c_risk c ++ (if is_nil_b (c_branch c) then [] else slash :: c_branch c).

Lemma fields_of_split : forall s l, split_slash s = l -> Forall (fun x => is_nil_b x = false) l -> fields_slash s = l.
Proof.
  intros s l E F. unfold fields_slash. rewrite E. clear E. induction F; [reflexivity|].
  simpl. rewrite H. simpl. rewrite IHF. reflexivity.
Qed.

Lemma full_shape : forall a l ch, vshape a l ch -> Forall noslash l ->
  is_risk (c_risk (clean ch)) = true /\
  beq (c_track (clean ch)) default_track = false /\
  chan_full (clean ch) = Some (full_form (clean ch)).
Proof.
  intros a l ch H F.
  inversion H; subst; inv_forall; unfold chan_full, full_form, shown_track, full_of_string, clean;
    cbn [c_arch c_name c_track c_risk c_branch].
  - rewrite (risk_not_nil _ H1), H2.
    destruct (beq t default_track) eqn:Et; cbn [is_nil_b].
    + split; [assumption|]. split; [exact nil_not_default_track|].
      rewrite (nil_app_false_l _ _ (risk_not_nil _ H1)).
      rewrite (fields_of_split _ [r; b]); [|apply split2; assumption|repeat constructor; auto using risk_not_nil].
      rewrite H1. reflexivity.
    + rewrite H0. split; [assumption|]. split; [first [reflexivity|assumption]|].
      rewrite reassoc3. rewrite (nil_app_false_l _ _ H0).
      rewrite (fields_of_split _ [t; r; b]); [|apply split3; assumption|repeat constructor; auto using risk_not_nil].
      reflexivity.
  - rewrite nil_not_default_track, (risk_not_nil _ H0), H1. cbn [is_nil_b].
    split; [assumption|]. split; [first [reflexivity|assumption]|].
    rewrite (nil_app_false_l _ _ (risk_not_nil _ H0)).
    rewrite (fields_of_split _ [r; b]); [|apply split2; assumption|repeat constructor; auto using risk_not_nil].
    rewrite H0. reflexivity.
  - rewrite (risk_not_nil _ H2). cbn [is_nil_b].
    destruct (beq t default_track) eqn:Et; cbn [is_nil_b].
    + split; [assumption|]. split; [exact nil_not_default_track|].
      rewrite (risk_not_nil _ H2).
      rewrite (fields_of_split _ [r]); [|apply split_single; assumption|repeat constructor; auto using risk_not_nil].
      rewrite H2. rewrite app_nil_r. reflexivity.
    + rewrite H0. split; [assumption|]. split; [first [reflexivity|assumption]|].
      rewrite (nil_app_false_l _ _ H0).
      rewrite (fields_of_split _ [t; r]); [|apply split2; assumption|repeat constructor; auto using risk_not_nil].
      rewrite H1. rewrite app_nil_r. reflexivity.
  - rewrite nil_not_default_track, (risk_not_nil _ H0). cbn [is_nil_b].
    split; [assumption|]. split; [first [reflexivity|assumption]|].
    rewrite (risk_not_nil _ H0).
    rewrite (fields_of_split _ [r]); [|apply split_single; assumption|repeat constructor; auto using risk_not_nil].
    rewrite H0. rewrite app_nil_r. reflexivity.
  - cbn [is_nil_b].
    destruct (beq t default_track) eqn:Et; cbn [is_nil_b].
    + split; [exact risk_default|]. split; [exact nil_not_default_track|].
      rewrite (risk_not_nil _ risk_default).
      rewrite (fields_of_split _ [default_risk]);
        [|apply split_single; exact noslash_default_risk|repeat constructor; exact (risk_not_nil _ risk_default)].
      rewrite risk_default. rewrite app_nil_r. reflexivity.
    + rewrite H0. split; [exact risk_default|]. split; [first [reflexivity|assumption]|].
      rewrite (nil_app_false_l _ _ H0).
      rewrite (fields_of_split _ [t; default_risk]);
        [|apply split2; (assumption || exact noslash_default_risk)
         |repeat constructor; auto using (risk_not_nil _ risk_default)].
      rewrite H1. rewrite app_nil_r. reflexivity.
Qed.

Theorem full_names_track_and_risk : forall sys s a c, parse sys s a = Some c ->
  In (c_risk c) risks /\
  shown_track c <> [] /\
  (shown_track c = default_track <-> c_track c = []) /\
  chan_full c = Some (full_form c).
Proof.
  intros sys s a c H. unfold parse in H.
  destruct (parse_verbatim sys s a) as [ch|] eqn:E; [|discriminate]. inversion H; subst c; clear H.
  apply parse_verbatim_shape in E.
  destruct (full_shape _ _ _ E (split_noslash s)) as [Hr [Ht Hf]].
  split; [|split; [|split]].
  - Transparent is_risk. unfold is_risk in Hr. Opaque is_risk.
    apply existsb_exists in Hr. destruct Hr as [x [Hx Hb]]. apply beq_eq in Hb. subst x. exact Hx.
  - unfold shown_track. destruct (is_nil_b (c_track (clean ch))) eqn:N.
    + apply is_nil_b_false. exact default_track_not_nil.
    + apply is_nil_b_false. exact N.
  - unfold shown_track. destruct (is_nil_b (c_track (clean ch))) eqn:N.
    + apply is_nil_b_true in N. tauto.
    + apply beq_neq in Ht. apply is_nil_b_false in N. tauto.
  - exact Hf.
Qed.

(* ---------------------------------------------------------------- Resolve *)

Lemma hd_comp_split : forall s h l, split_slash s = h :: l -> hd_comp s = h.
Proof. intros s h l E. unfold hd_comp. rewrite E. reflexivity. Qed.

(* what Resolve returns when the request starts with a risk name *)
Theorem resolve_risk_first : forall cur new ch,
  parse_verbatim [] cur dash = Some ch -> is_nil_b new = false -> is_risk (hd_comp new) = true ->
  resolve cur new = Some (if is_nil_b (c_track ch) then new else c_track ch ++ slash :: new).
Proof.
  intros cur new ch Hc Hn Hr. unfold resolve. rewrite Hn.
  assert (Hcur : is_nil_b cur = false).
  { unfold parse_verbatim in Hc. destruct (is_nil_b cur); [discriminate|reflexivity]. }
  rewrite Hcur, Hc, Hr. destruct (is_nil_b (c_track ch)); reflexivity.
Qed.

(* a request without a track (risk or risk/branch) resolved against a parseable current channel parses to the
   current track with the requested risk and branch - provided the current track is not spelled like a risk *)
Theorem risk_only_keeps_track : forall cur new ch nc,
  parse_verbatim [] cur dash = Some ch ->
  parse_verbatim [] new dash = Some nc ->
  c_track nc = [] ->
  is_risk (c_track ch) = false ->
  exists r rc,
    resolve cur new = Some r /\
    r = (if is_nil_b (c_track ch) then new else c_track ch ++ slash :: new) /\
    parse_verbatim [] r dash = Some rc /\
    c_track rc = c_track ch /\ c_risk rc = c_risk nc /\ c_branch rc = c_branch nc.
Proof.
  intros cur new ch nc Hc Hn Ht Hg.
  assert (Hnew : is_nil_b new = false).
  { unfold parse_verbatim in Hn. destruct (is_nil_b new); [discriminate|reflexivity]. }
  pose proof (parse_verbatim_shape _ _ _ _ Hn) as Sn.
  pose proof (parse_verbatim_shape _ _ _ _ Hc) as Sc.
  pose proof (split_noslash new) as Fn. pose proof (split_noslash cur) as Fc.
  assert (Hhd : is_risk (hd_comp new) = true).
  { inversion Sn; subst; simpl in Ht; subst;
      try (match goal with X : is_nil_b [] = false |- _ => discriminate X end);
      match goal with X : _ = split_slash new |- _ => symmetry in X; rewrite (hd_comp_split _ _ _ X) end; assumption. }
  rewrite (resolve_risk_first _ _ _ Hc Hnew Hhd).
  destruct (is_nil_b (c_track ch)) eqn:Nt.
  - exists new, nc. apply is_nil_b_true in Nt. rewrite Nt, Ht. repeat split; auto.
  - assert (Tn : noslash (c_track ch)).
    { inversion Sc; subst; cbn [c_track] in *; try discriminate;
        match goal with X : _ = split_slash cur |- _ => rewrite <- X in Fc end; inv_forall; assumption. }
    set (t := c_track ch) in *.
    inversion Sn; subst; simpl in Ht; subst;
      try (match goal with X : is_nil_b [] = false |- _ => discriminate X end).
    + (* new = risk/branch *)
      match goal with X : _ = split_slash new |- _ => symmetry in X; rename X into En end.
      exists (t ++ slash :: new), (mkChan (eff_arch [] dash) [] t r b). repeat split; auto.
      apply parse_verbatim_of_shape. rewrite split_app by assumption. rewrite En.
      apply ShA; assumption.
    + (* new = risk *)
      match goal with X : _ = split_slash new |- _ => symmetry in X; rename X into En end.
      exists (t ++ slash :: new), (mkChan (eff_arch [] dash) [] t r []). repeat split; auto.
      apply parse_verbatim_of_shape. rewrite split_app by assumption. rewrite En.
      apply ShC; assumption.
Qed.

(* ---------------------------------------------------------------- ResolvePinned *)

(* anything that starts with track/ and is accepted by the parser has that track *)
Lemma prefixed_track : forall t x rc, noslash t -> is_risk t = false ->
  parse_verbatim [] (t ++ slash :: x) dash = Some rc -> c_track rc = t.
Proof.
  intros t x rc Nt Rt H. apply parse_verbatim_shape in H. rewrite split_app in H by assumption.
  inversion H; subst; try reflexivity;
    try (match goal with X : is_risk ?r = true, Y : is_risk ?r = false |- _ => rewrite X in Y; discriminate end);
    exfalso; eapply split_not_nil; eauto.
Qed.

Theorem pinned_cannot_switch : forall track new, track <> [] ->
  match resolve_pinned track new with
  | POk r => (r = track \/ has_prefix (track ++ [slash]) r = true) /\
             (forall rc, parse_verbatim [] r dash = Some rc -> c_track rc = track)
  | PInvalid | PSwitch => True
  end.
Proof.
  intros track new Ht. unfold resolve_pinned.
  apply is_nil_b_false in Ht. rewrite Ht.
  destruct (parse_verbatim [] track dash) as [ch|] eqn:E; [|exact I].
  destruct (verbatim_track_only ch) eqn:Vo; cbn [negb]; [|exact I].
  pose proof (parse_verbatim_shape _ _ _ _ E) as S. pose proof (split_noslash track) as F.
  pose proof (join_split track) as J.
  unfold verbatim_track_only in Vo. apply andb_true_iff in Vo. destruct Vo as [Vo Vb].
  apply andb_true_iff in Vo. destruct Vo as [Vt Vr]. apply negb_true_iff in Vt.
  assert (Hshape : c_track ch = track /\ noslash track /\ is_risk track = false).
  { inversion S; subst; cbn [c_track c_risk c_branch] in *; try congruence;
      try (match goal with X : is_risk ?r = true, Y : is_nil_b ?r = true |- _ =>
             rewrite (risk_not_nil _ X) in Y; discriminate end).
    match goal with X : _ = split_slash track |- _ => rewrite <- X in J, F end.
    simpl in J. subst t. inv_forall. auto. }
  destruct Hshape as [Ect [Nt Rt]]. rewrite Ect.
  assert (Pre : forall x, track ++ [slash] ++ x = track ++ slash :: x) by reflexivity.
  destruct (is_nil_b new) eqn:Nn.
  - split; [left; reflexivity|]. intros rc Hrc. rewrite E in Hrc. injection Hrc as <-. exact Ect.
  - destruct (is_risk (hd_comp new) && negb (is_nil_b track)) eqn:Hr.
    + split; [right; apply has_prefix_self_app|].
      intros rc Hrc. rewrite <- app_assoc in Hrc. rewrite Pre in Hrc.
      exact (prefixed_track _ _ _ Nt Rt Hrc).
    + destruct (negb (beq new track) && negb (has_prefix (track ++ [slash]) new)) eqn:Hs; [exact I|].
      apply andb_false_iff in Hs. destruct Hs as [Hs|Hs]; apply negb_false_iff in Hs.
      * apply beq_eq in Hs. subst new. split; [left; reflexivity|].
        intros rc Hrc. rewrite E in Hrc. injection Hrc as <-. exact Ect.
      * split; [right; exact Hs|]. intros rc Hrc.
        destruct (has_prefix_app _ _ Hs) as [x Hx]. subst new.
        rewrite <- app_assoc in Hrc. rewrite Pre in Hrc.
        exact (prefixed_track _ _ _ Nt Rt Hrc).
Qed.

(* the counterexample that makes the guard of risk_only_keeps_track necessary *)
Definition bad_cur : bytes := bs "edge/stable/hotfix"%string.
Definition bad_new : bytes := bs "beta"%string.

Lemma risk_only_refuted :
  exists cur new ch nc r rc,
    parse_verbatim [] cur dash = Some ch /\ parse_verbatim [] new dash = Some nc /\ c_track nc = [] /\
    resolve cur new = Some r /\ parse_verbatim [] r dash = Some rc /\ c_track rc <> c_track ch.
Proof.
  exists bad_cur, bad_new.
  Transparent is_risk default_risk default_track.
  eexists. eexists. eexists. eexists.
  split; [vm_compute; reflexivity|]. split; [vm_compute; reflexivity|]. split; [reflexivity|].
  split; [vm_compute; reflexivity|]. split; [vm_compute; reflexivity|]. vm_compute. discriminate.
Qed.

(* ---------------------------------------------------------------- the string-level Full *)

Lemma risk_default_track : is_risk default_track = false. Proof. vm_compute. reflexivity. Qed.

Definition good_comp (x : bytes) : Prop := noslash x /\ is_nil_b x = false.

Lemma fields_good : forall s, Forall good_comp (fields_slash s).
Proof.
  intros s. unfold fields_slash. pose proof (split_noslash s) as F. induction F as [|x l Hx Hl IH]; [constructor|].
  simpl. destruct (is_nil_b x) eqn:N; simpl; [exact IH|]. constructor; [split; assumption|exact IH].
Qed.

(* the shapes a successful, non-empty result of Full can have, with its component list *)
Inductive full_result (s : bytes) : bytes -> list bytes -> Prop :=
  | FR1r a : fields_slash s = [a] -> is_risk a = true -> full_result s (default_track ++ slash :: a) [default_track; a]
  | FR1t a : fields_slash s = [a] -> is_risk a = false -> full_result s (a ++ slash :: default_risk) [a; default_risk]
  | FR2r a b : fields_slash s = [a; b] -> is_risk a = true ->
      full_result s (default_track ++ slash :: (a ++ slash :: b)) [default_track; a; b]
  | FR2t a b : fields_slash s = [a; b] -> is_risk a = false -> full_result s (a ++ slash :: b) [a; b]
  | FR3 a b c : fields_slash s = [a; b; c] -> full_result s (a ++ slash :: (b ++ slash :: c)) [a; b; c].

Lemma full_cases : forall s r, full_of_string s = Some r -> r = [] \/ exists cs, full_result s r cs.
Proof.
  intros s r H. unfold full_of_string in H. destruct (is_nil_b s); [inversion H; auto|].
  destruct (fields_slash s) as [|a [|b [|c [|d l]]]] eqn:E; try discriminate.
  - inversion H; auto.
  - destruct (is_risk a) eqn:R; inversion H; subst; right; eexists; [apply FR1r|apply FR1t]; auto.
  - destruct (is_risk a) eqn:R; inversion H; subst; right; eexists; [apply FR2r|apply FR2t]; auto.
  - inversion H; subst. right. eexists. apply FR3. exact E.
Qed.

Lemma full_result_split : forall s r cs, full_result s r cs ->
  split_slash r = cs /\ Forall good_comp cs /\ is_nil_b r = false.
Proof.
  intros s r cs H. pose proof (fields_good s) as F.
  assert (Gt : good_comp default_track) by (split; [exact noslash_default_track|exact default_track_not_nil]).
  assert (Gr : good_comp default_risk) by (split; [exact noslash_default_risk|exact (risk_not_nil _ risk_default)]).
  inversion H; subst; match goal with X : fields_slash s = _ |- _ => rewrite X in F end; inv_forall;
    repeat match goal with X : good_comp _ |- _ => destruct X end.
  - split; [apply split2; assumption|]. split; [repeat constructor; assumption|]. apply nil_app_false_l; assumption.
  - split; [apply split2; assumption|]. split; [repeat constructor; assumption|]. apply nil_app_false_l; assumption.
  - split; [apply split3; assumption|]. split; [repeat constructor; assumption|]. apply nil_app_false_l; assumption.
  - split; [apply split2; assumption|]. split; [repeat constructor; assumption|]. apply nil_app_false_l; assumption.
  - split; [apply split3; assumption|]. split; [repeat constructor; assumption|]. apply nil_app_false_l; assumption.
Qed.

(* normalising twice equals normalising once *)
Theorem full_string_idempotent : forall s r, full_of_string s = Some r -> full_of_string r = Some r.
Proof.
  intros s r H. destruct (full_cases s r H) as [E|[cs HR]]; [subst; reflexivity|].
  destruct (full_result_split s r cs HR) as [Hs [Hg Hn]].
  assert (Hf : fields_slash r = cs).
  { apply fields_of_split; [exact Hs|]. clear - Hg. induction Hg as [|x l [_ Hx] _ IH]; constructor; assumption. }
  unfold full_of_string. rewrite Hn, Hf.
  inversion HR; subst; cbn [join_slash]; rewrite ?risk_default_track;
    repeat match goal with X : is_risk ?a = false |- context [is_risk ?a] => rewrite X end; reflexivity.
Qed.

(* a non-empty result is track/risk or track/risk/branch with no empty component, and where Full fills in or places
   the risk itself (a single component, or two components starting with a risk name) the risk position holds a table
   entry. With three components, or two starting with a track, the input's own second component is passed through. *)
Theorem full_string_shape : forall s r, full_of_string s = Some r ->
  r = [] \/
  exists cs, split_slash r = cs /\ (List.length cs = 2%nat \/ List.length cs = 3%nat) /\
             Forall (fun c => c <> []) cs /\
             ((List.length (fields_slash s) = 1%nat \/
               (List.length (fields_slash s) = 2%nat /\ is_risk (hd [] (fields_slash s)) = true)) ->
              In (nth 1 cs []) risks).
Proof.
  intros s r H. destruct (full_cases s r H) as [E|[cs HR]]; [left; exact E|]. right. exists cs.
  destruct (full_result_split s r cs HR) as [Hs [Hg _]].
  split; [exact Hs|]. split; [inversion HR; subst; auto|].
  split; [clear - Hg; induction Hg as [|x l [_ Hx] _ IH]; constructor; [apply is_nil_b_false; exact Hx|exact IH]|].
  assert (risk_in : forall x, is_risk x = true -> In x risks).
  { intros x Hx. Transparent is_risk. unfold is_risk in Hx. Opaque is_risk.
    apply existsb_exists in Hx. destruct Hx as [y [Hy Hb]]. apply beq_eq in Hb. subst y. exact Hy. }
  intros Hin. inversion HR; subst; cbn [nth];
    match goal with X : fields_slash s = _ |- _ => rewrite X in Hin; cbn [List.length hd] in Hin end.
  - apply risk_in; assumption.
  - apply risk_in. exact risk_default.
  - apply risk_in; assumption.
  - destruct Hin as [Hin|[_ Hin]]; [discriminate|]. match goal with X : is_risk a = false |- _ => rewrite X in Hin end. discriminate.
  - destruct Hin as [Hin|[Hin _]]; discriminate.
Qed.

(* ---------------------------------------------------------------- snapstate.resolveChannel *)

Theorem snapstate_pinned : forall ik ig kt gt old new,
  pinned_for ik ig kt gt <> [] -> new <> [] ->
  match resolve_channel ik ig kt gt old new with
  | Some r => (r = pinned_for ik ig kt gt \/ has_prefix (pinned_for ik ig kt gt ++ [slash]) r = true) /\
              (forall rc, parse_verbatim [] r dash = Some rc -> c_track rc = pinned_for ik ig kt gt)
  | None => True
  end.
Proof.
  intros ik ig kt gt old new Hp Hn. unfold resolve_channel.
  apply is_nil_b_false in Hn. rewrite Hn. pose proof Hp as Hp'. apply is_nil_b_false in Hp'. rewrite Hp'.
  pose proof (pinned_cannot_switch (pinned_for ik ig kt gt) new Hp) as H.
  destruct (resolve_pinned (pinned_for ik ig kt gt) new); [exact H|exact I|exact I].
Qed.

Theorem snapstate_no_request : forall ik ig kt gt old, resolve_channel ik ig kt gt old [] = Some old.
Proof. reflexivity. Qed.

Theorem snapstate_unpinned : forall ik ig kt gt old new, pinned_for ik ig kt gt = [] -> new <> [] ->
  resolve_channel ik ig kt gt old new = resolve old new.
Proof.
  intros ik ig kt gt old new Hp Hn. unfold resolve_channel. apply is_nil_b_false in Hn. rewrite Hn, Hp. reflexivity.
Qed.

(* ---------------------------------------------------------------- resolving twice equals resolving once *)

Lemma track_is_head : forall cur ch, parse_verbatim [] cur dash = Some ch ->
  is_nil_b (c_track ch) = true \/ (hd_comp cur = c_track ch /\ noslash (c_track ch)).
Proof.
  intros cur ch H. pose proof (parse_verbatim_shape _ _ _ _ H) as S. pose proof (split_noslash cur) as F.
  inversion S; subst; cbn [c_track]; try (left; reflexivity); right;
    match goal with X : _ = split_slash cur |- _ => symmetry in X; rewrite X in F; rewrite (hd_comp_split _ _ _ X) end;
    inv_forall; (split; [reflexivity|assumption]).
Qed.

Lemma hd_comp_app : forall t x, noslash t -> hd_comp (t ++ slash :: x) = t.
Proof. intros t x H. unfold hd_comp. rewrite split_app by assumption. reflexivity. Qed.

Lemma hd_comp_single : forall t, noslash t -> hd_comp t = t.
Proof. intros t H. unfold hd_comp. rewrite split_single by assumption. reflexivity. Qed.

Theorem resolve_idempotent : forall cur new r ch,
  parse_verbatim [] cur dash = Some ch -> is_risk (c_track ch) = false ->
  resolve cur new = Some r -> resolve cur r = Some r.
Proof.
  intros cur new r ch Hp Hg H.
  assert (Hcur : is_nil_b cur = false).
  { unfold parse_verbatim in Hp. destruct (is_nil_b cur); [discriminate|reflexivity]. }
  unfold resolve in H. rewrite Hcur, Hp in H.
  destruct (is_nil_b new) eqn:Nn.
  - inversion H; subst r. unfold resolve. rewrite Hcur, Hp.
    destruct (track_is_head _ _ Hp) as [Nt|[Hh _]].
    + rewrite Nt. cbn [negb]. rewrite andb_false_r. reflexivity.
    + rewrite Hh, Hg. reflexivity.
  - destruct (is_risk (hd_comp new) && negb (is_nil_b (c_track ch))) eqn:C.
    + inversion H; subst r. apply andb_true_iff in C. destruct C as [_ Ct]. apply negb_true_iff in Ct.
      destruct (track_is_head _ _ Hp) as [Nt|[_ Hn]]; [rewrite Nt in Ct; discriminate|].
      unfold resolve. rewrite Hcur, Hp.
      assert (Nr : is_nil_b (c_track ch ++ slash :: new) = false) by (apply nil_app_false; reflexivity).
      rewrite Nr, (hd_comp_app _ _ Hn), Hg. reflexivity.
    + inversion H; subst r. unfold resolve. rewrite Nn, Hcur, Hp, C. reflexivity.
Qed.

Theorem resolve_units : forall s, resolve s [] = Some s /\ resolve [] s = Some s.
Proof. intros s. split; [reflexivity|]. unfold resolve. destruct (is_nil_b s) eqn:N; [apply is_nil_b_true in N; subst; reflexivity|reflexivity]. Qed.

(* without the guard resolving twice differs from resolving once (same class as the recorded finding) *)
Lemma resolve_idempotent_refuted : exists cur new r ch,
  parse_verbatim [] cur dash = Some ch /\ resolve cur new = Some r /\ resolve cur r <> Some r.
Proof.
  exists bad_cur, bad_new. eexists. eexists.
  split; [vm_compute; reflexivity|]. split; [vm_compute; reflexivity|]. vm_compute. discriminate.
Qed.

Lemma pinned_track_shape : forall track ch, parse_verbatim [] track dash = Some ch -> verbatim_track_only ch = true ->
  c_track ch = track /\ noslash track /\ is_risk track = false.
Proof.
  intros track ch E Vo.
  pose proof (parse_verbatim_shape _ _ _ _ E) as S. pose proof (split_noslash track) as F.
  pose proof (join_split track) as J.
  unfold verbatim_track_only in Vo. apply andb_true_iff in Vo. destruct Vo as [Vo Vb].
  apply andb_true_iff in Vo. destruct Vo as [Vt Vr]. apply negb_true_iff in Vt.
  inversion S; subst; cbn [c_track c_risk c_branch] in *; try congruence;
    try (match goal with X : is_risk ?r = true, Y : is_nil_b ?r = true |- _ =>
           rewrite (risk_not_nil _ X) in Y; discriminate end).
  match goal with X : _ = split_slash track |- _ => rewrite <- X in J, F end.
  simpl in J. subst t. inv_forall. auto.
Qed.

Theorem pinned_idempotent : forall track new r, resolve_pinned track new = POk r -> resolve_pinned track r = POk r.
Proof.
  intros track new r H. pose proof H as H0. unfold resolve_pinned in H.
  destruct (is_nil_b track) eqn:Nt.
  - unfold resolve_pinned. rewrite Nt. reflexivity.
  - destruct (parse_verbatim [] track dash) as [ch|] eqn:E; [|discriminate].
    destruct (verbatim_track_only ch) eqn:Vo; cbn [negb] in H; [|discriminate].
    destruct (pinned_track_shape _ _ E Vo) as [Ect [Ns Rt]]. rewrite Ect in H.
    assert (Self : resolve_pinned track track = POk track).
    { unfold resolve_pinned. rewrite Nt, E, Vo. cbn [negb]. rewrite Ect, (hd_comp_single _ Ns), Rt.
      cbn [andb]. rewrite beq_refl. reflexivity. }
    destruct (is_nil_b new) eqn:Nn.
    + inversion H; subst r. exact Self.
    + destruct (is_risk (hd_comp new) && negb (is_nil_b track)) eqn:C.
      * inversion H; subst r. clear H H0.
        set (r := (track ++ [slash]) ++ new).
        assert (Hr : r = track ++ slash :: new) by (unfold r; rewrite <- app_assoc; reflexivity).
        assert (Hh : hd_comp r = track) by (rewrite Hr; apply hd_comp_app; exact Ns).
        assert (Hp : has_prefix (track ++ [slash]) r = true) by (unfold r; apply has_prefix_self_app).
        assert (Nr : is_nil_b r = false) by (rewrite Hr; apply nil_app_false; reflexivity).
        unfold resolve_pinned. rewrite Nt, E, Vo. cbn [negb]. rewrite Ect, Nr, Hh, Rt, Hp. cbn [andb negb].
        rewrite andb_false_r. reflexivity.
      * destruct (negb (beq new track) && negb (has_prefix (track ++ [slash]) new)); [discriminate|].
        inversion H; subst r. exact H0.
Qed.
