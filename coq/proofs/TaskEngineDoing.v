(* Proofs about models/TaskEngine.v, part 4 (C02): a task in Doing has all its wait tasks Done - in every state
   reachable by a history whose user aborts hit unready changes only and in which no fuel bound of the model was hit.
   Hence every start of a do handler, fresh or re-run, saw all wait tasks Done. Stdlib only. *)
From Coq Require Import List NArith ZArith Bool Arith Lia.
Import ListNotations.
Require Import V.models.TaskEngine V.proofs.TaskEngineProofs V.proofs.TaskEngineStatus V.proofs.TaskEngineReady.

(* ------------------------------------------------------------------ what never changes: the graph; oof is sticky *)
Definition shape (tk : task) : list nat * list nat := (t_waits tk, t_halts tk).
Definition shapes (s : state) : list (list nat * list nat) := map shape (tasks s).
Definition frame (s s' : state) : Prop := shapes s' = shapes s /\ (oof s = true -> oof s' = true).

Lemma frame_refl : forall s, frame s s.
Proof. split; auto. Qed.
Lemma frame_trans : forall a b c, frame a b -> frame b c -> frame a c.
Proof. intros a b c [A1 A2] [B1 B2]; split; [congruence | auto]. Qed.

Lemma shapes_upd : forall l t f, (forall tk, shape (f tk) = shape tk) -> map shape (upd l t f) = map shape l.
Proof. induction l as [|a l IH]; intros [|t] f H; simpl; auto; rewrite ?H, ?IH; auto. Qed.

Lemma frame_upd : forall s t f, (forall tk, shape (f tk) = shape tk) -> frame s (with_tasks s (upd (tasks s) t f)).
Proof. intros; split; [unfold shapes; cbn [tasks with_tasks]; apply shapes_upd; assumption | auto]. Qed.

Lemma frame_change_st : forall s t nw, frame s (change_st s t nw).
Proof.
  intros; unfold frame, shapes, change_st, with_panicked, with_cready, with_tasks; repeat des_if; cbn [tasks oof];
    split; auto; apply shapes_upd; reflexivity.
Qed.
Lemma frame_set_status : forall s t nw, frame s (set_status s t nw).
Proof. intros; unfold set_status; repeat des_if; auto using frame_refl, frame_change_st. Qed.
Lemma frame_set_status_quiet : forall s t nw, frame s (set_status_quiet s t nw).
Proof. intros; unfold set_status_quiet; des_if; [apply frame_refl | apply frame_upd; reflexivity]. Qed.
Lemma frame_set_to_wait : forall s t ws, frame s (set_to_wait s t ws).
Proof.
  intros; unfold set_to_wait; repeat des_if; try apply frame_refl.
  eapply frame_trans; [apply (frame_upd s t (fun tk => set_waited tk ws)); reflexivity | apply frame_change_st].
Qed.
Lemma frame_try_undo : forall s t, frame s (try_undo s t).
Proof. intros; unfold try_undo; des_if; apply frame_set_status. Qed.
Lemma frame_abort_write : forall s t, frame s (abort_write s t).
Proof. intros; unfold abort_write; destruct (eff_status (get s t)); auto using frame_refl, frame_set_status_quiet. Qed.
Lemma frame_oof : forall s, frame s (with_oof s true).
Proof. intros; split; auto. Qed.
Lemma frame_abort_lanes : forall d kill al seen s, frame s (abort_lanes d kill al seen s).
Proof.
  intros; apply (abort_lanes_P (frame s)); auto using frame_refl.
  - intros s0 t H; eapply frame_trans; [exact H | apply frame_abort_write].
  - intros s0 H; eapply frame_trans; [exact H | apply frame_oof].
Qed.
Lemma frame_abort_tasks : forall d wl al seen s, frame s (abort_tasks d wl al seen s).
Proof.
  intros; apply (abort_tasks_P (frame s)); auto using frame_refl.
  - intros s0 t H; eapply frame_trans; [exact H | apply frame_abort_write].
  - intros s0 H; eapply frame_trans; [exact H | apply frame_oof].
Qed.
Lemma frame_ready_detect : forall s, frame s (ready_detect s).
Proof. intros; unfold ready_detect, with_cready, with_panicked; repeat des_if; split; auto. Qed.

Lemma frame_run : forall s t, frame s (run s t).
Proof.
  intros; unfold run.
  set (s1 := match t_st (get s t) with Do => set_status s t Doing | Undo => set_status s t Undoing | _ => s end).
  assert (F1 : frame s s1) by (unfold s1; destruct (t_st (get s t)); auto using frame_refl, frame_set_status).
  eapply frame_trans; [exact F1|].
  pose proof (frame_upd s1 t (fun tk => set_at tk 0) (fun _ => eq_refl)) as [A B]. split; [exact A | exact B].
Qed.
Lemma frame_ensure_rest : forall s t, frame s (ensure_rest s t).
Proof. intros; unfold ensure_rest; repeat des_if; auto using frame_refl, frame_set_status, frame_run. Qed.
Lemma frame_ensure_one : forall s t, frame s (ensure_one s t).
Proof.
  intros; unfold ensure_one; repeat des_if; auto using frame_refl, frame_ensure_rest.
  eapply frame_trans; [apply frame_try_undo | apply frame_ensure_rest].
Qed.
Lemma frame_ensure_pass : forall order s, frame s (ensure_pass s order).
Proof.
  unfold ensure_pass; induction order; simpl; intros; [apply frame_refl|].
  eapply frame_trans; [apply frame_ensure_one | apply IHorder].
Qed.
Lemma frame_remove_running : forall s t, frame s (remove_running s t).
Proof. intros; split; auto. Qed.
Lemma frame_finish : forall s t o, frame s (finish s t o).
Proof.
  intros; unfold finish. destruct (panicked s); [apply frame_refl|].
  destruct (negb (memn t (running s))); [apply frame_refl|].
  eapply frame_trans; [apply (frame_remove_running s t)|].
  destruct o.
  - destruct (st (remove_running s t) t); auto using frame_refl, frame_set_status.
  - eapply frame_trans; [|apply frame_set_status]. unfold abort_lanes_top.
    eapply frame_trans; [apply frame_abort_lanes | apply frame_ready_detect].
  - repeat des_if; auto using frame_refl, frame_try_undo. apply frame_upd; reflexivity.
  - repeat des_if; auto using frame_try_undo, frame_set_to_wait.
Qed.
Lemma frame_step : forall s e, frame s (step s e).
Proof.
  intros s e; destruct e; simpl.
  - apply frame_ensure_pass.
  - apply frame_finish.
  - des_if; [apply frame_refl|]. unfold abort_change.
    eapply frame_trans; [apply frame_abort_tasks | apply frame_ready_detect].
  - split; auto.
  - des_if; [apply frame_refl|]. unfold resolve_wait; des_if; auto using frame_refl, frame_set_status.
Qed.

(* ------------------------------------------------------------------ accessors *)
Definition wts (s : state) (t : nat) : list nat := t_waits (get s t).
Definition hts (s : state) (t : nat) : list nat := t_halts (get s t).

Lemma wts_shapes : forall s t, wts s t = fst (nth t (shapes s) ([], [])).
Proof. intros; unfold wts, get, shapes. change ([], []) with (shape dummy). rewrite map_nth. reflexivity. Qed.
Lemma hts_shapes : forall s t, hts s t = snd (nth t (shapes s) ([], [])).
Proof. intros; unfold hts, get, shapes. change ([], []) with (shape dummy). rewrite map_nth. reflexivity. Qed.
Lemma len_shapes : forall s, length (tasks s) = length (shapes s).
Proof. intros; unfold shapes; rewrite map_length; reflexivity. Qed.

(* halt lists are the inverse of wait lists *)
Definition sym (s : state) : Prop :=
  forall u w, u < length (tasks s) -> In w (wts s u) -> w < length (tasks s) -> In u (hts s w).

Lemma sym_shapes : forall s s', shapes s' = shapes s -> sym s -> sym s'.
Proof.
  intros s s' E H u w. rewrite !len_shapes, wts_shapes, hts_shapes, E, <- wts_shapes, <- hts_shapes, <- len_shapes.
  apply H.
Qed.

Lemma nth_map_seq : forall (A : Type) (f : nat -> A) n i d, i < n -> nth i (map f (seq 0 n)) d = f i.
Proof.
  intros A f n i d H. rewrite nth_indep with (d' := f 0) by (rewrite map_length, seq_length; assumption).
  rewrite (map_nth f (seq 0 n) 0 i). rewrite seq_nth by assumption. reflexivity.
Qed.

Lemma init_nth : forall g i, i < length g ->
  nth i (init_tasks g) dummy =
  (let '(ln, ws, u) := nth i g ([], [], false) in mkTask Do Hold ln ws (halts_of g i) u 0).
Proof. intros g i H. unfold init_tasks. rewrite nth_map_seq by assumption. reflexivity. Qed.

Lemma sym_init : forall g, sym (init_state g).
Proof.
  intros g u w Hu Hw Hlt. unfold wts, hts, get in *. cbn [tasks init_state] in *.
  assert (L : length (init_tasks g) = length g) by (unfold init_tasks; rewrite map_length, seq_length; reflexivity).
  rewrite L in *. rewrite init_nth in * by assumption.
  destruct (nth u g ([], [], false)) as [[lnu wsu] uu] eqn:Eu.
  destruct (nth w g ([], [], false)) as [[lnw wsw] uw] eqn:Ew.
  cbn [t_waits t_halts] in *. unfold halts_of. apply filter_In. split.
  - apply in_seq. lia.
  - rewrite Eu. cbn [fst snd]. apply memn_In. exact Hw.
Qed.

(* ------------------------------------------------------------------ the invariant on the task list *)
Definition good (s : state) : Prop :=
  (forall t w, st s t = Doing -> In w (wts s t) -> st s w = Done) /\
  (forall t, t_waited (get s t) <> Doing).

Lemma good_tasks_eq : forall s s', tasks s' = tasks s -> good s -> good s'.
Proof. intros s s' E [A B]. unfold good, st, wts, get in *. rewrite E. split; assumption. Qed.

(* s' is s with the status of t overwritten *)
Definition wrote (s s' : state) (t : nat) (nw : status) : Prop :=
  tasks s' = upd (tasks s) t (fun tk => set_st tk nw).

Lemma wrote_st_same : forall s s' t nw, wrote s s' t nw -> t < length (tasks s) -> st s' t = nw.
Proof. intros s s' t nw H L. unfold st, get. rewrite H. rewrite nth_upd_same by assumption. reflexivity. Qed.
Lemma wrote_st_other : forall s s' t nw u, wrote s s' t nw -> u <> t -> st s' u = st s u.
Proof. intros s s' t nw u H N. unfold st, get. rewrite H. rewrite nth_upd_other by congruence. reflexivity. Qed.
Lemma wrote_out : forall s s' t nw, wrote s s' t nw -> length (tasks s) <= t -> tasks s' = tasks s.
Proof. intros s s' t nw H L. rewrite H. apply upd_out; assumption. Qed.
Lemma wrote_get : forall s s' t nw u, wrote s s' t nw ->
  t_waits (get s' u) = t_waits (get s u) /\ t_waited (get s' u) = t_waited (get s u) /\ t_halts (get s' u) = t_halts (get s u).
Proof.
  intros s s' t nw u H. unfold get. rewrite H.
  destruct (Nat.eq_dec t u) as [->|N].
  - destruct (Nat.lt_ge_cases u (length (tasks s))).
    + rewrite nth_upd_same by assumption. auto.
    + rewrite upd_out by assumption. auto.
  - rewrite nth_upd_other by assumption. auto.
Qed.

Lemma st_out : forall s t, length (tasks s) <= t -> st s t = Hold.
Proof. intros; unfold st, get; rewrite nth_overflow by assumption; reflexivity. Qed.

(* a write from a source that is not Done; a write to Doing needs all wait tasks Done *)
Lemma good_wrote : forall s s' t nw,
  good s -> wrote s s' t nw -> st s t <> Done ->
  (nw = Doing -> forall w, In w (wts s t) -> st s w = Done) -> good s'.
Proof.
  intros s s' t nw [A B] H Hsrc Hd.
  destruct (Nat.lt_ge_cases t (length (tasks s))) as [L|L];
    [|apply (good_tasks_eq s); [eapply wrote_out; eauto | split; assumption]].
  split.
  - intros u w Hu Hw. unfold wts in Hw. destruct (wrote_get s s' t nw u H) as (E1 & _ & _). rewrite E1 in Hw.
    destruct (Nat.eq_dec u t) as [->|N].
    + rewrite (wrote_st_same s s' t nw H L) in Hu. specialize (Hd Hu w Hw).
      assert (w <> t) by (intros ->; congruence).
      rewrite (wrote_st_other s s' t nw w H); assumption.
    + rewrite (wrote_st_other s s' t nw u H N) in Hu. specialize (A u w Hu Hw).
      assert (w <> t) by (intros ->; congruence).
      rewrite (wrote_st_other s s' t nw w H); assumption.
  - intros u. destruct (wrote_get s s' t nw u H) as (_ & E2 & _). rewrite E2. apply B.
Qed.

Lemma tasks_change_st : forall s t nw, tasks (change_st s t nw) = tasks s \/ wrote s (change_st s t nw) t nw.
Proof. intros; unfold change_st, wrote, with_panicked, with_cready, with_tasks; repeat des_if; cbn [tasks]; auto. Qed.
Lemma tasks_set_status : forall s t nw, tasks (set_status s t nw) = tasks s \/ wrote s (set_status s t nw) t nw.
Proof. intros; unfold set_status; repeat des_if; auto using tasks_change_st. Qed.
Lemma tasks_set_status_quiet : forall s t nw,
  tasks (set_status_quiet s t nw) = tasks s \/ wrote s (set_status_quiet s t nw) t nw.
Proof. intros; unfold set_status_quiet, wrote, with_tasks; des_if; cbn [tasks]; auto. Qed.

Lemma good_set_status : forall s t nw,
  good s -> st s t <> Done -> (nw = Doing -> forall w, In w (wts s t) -> st s w = Done) -> good (set_status s t nw).
Proof.
  intros s t nw G Hs Hd. destruct (tasks_set_status s t nw) as [E|W];
    [apply (good_tasks_eq s); assumption | eapply good_wrote; eauto].
Qed.

(* status-irrelevant updates *)
Lemma good_irrel : forall s t f,
  (forall tk, t_st (f tk) = t_st tk /\ t_waits (f tk) = t_waits tk) -> (forall tk, t_waited tk <> Doing -> t_waited (f tk) <> Doing) ->
  good s -> good (with_tasks s (upd (tasks s) t f)).
Proof.
  intros s t f Hf Hw [A B].
  assert (X : forall u, t_st (get (with_tasks s (upd (tasks s) t f)) u) = t_st (get s u) /\
                        t_waits (get (with_tasks s (upd (tasks s) t f)) u) = t_waits (get s u) /\
                        t_waited (get (with_tasks s (upd (tasks s) t f)) u) <> Doing).
  { intros u. unfold get; cbn [tasks with_tasks].
    destruct (Nat.eq_dec t u) as [->|N].
    - destruct (Nat.lt_ge_cases u (length (tasks s))).
      + rewrite nth_upd_same by assumption. destruct (Hf (nth u (tasks s) dummy)). repeat split; auto. apply Hw, B.
      + rewrite upd_out by assumption. repeat split; auto. apply B.
    - rewrite nth_upd_other by assumption. repeat split; auto. apply B. }
  split.
  - intros u w Hu Hin. unfold st, wts in *. destruct (X u) as (E1 & E2 & _). destruct (X w) as (E3 & _ & _).
    rewrite E1 in Hu. rewrite E2 in Hin. rewrite E3. eapply A; eauto.
  - intros u. apply X.
Qed.

(* ------------------------------------------------------------------ the worklist loop of abortTasks *)
Definition linv (s : state) (seen wl : list nat) : Prop :=
  (forall u w, st s u = Doing -> In w (wts s u) -> st s w = Done \/ (In w seen /\ In u wl)) /\
  (forall u, In u seen -> st s u <> Doing) /\
  (forall t, t_waited (get s t) <> Doing).

Lemma in_range_st : forall s t, st s t <> Hold -> t < length (tasks s).
Proof. intros s t H. destruct (Nat.lt_ge_cases t (length (tasks s))); [assumption|]. rewrite st_out in H by assumption. congruence. Qed.

Lemma linv_step : forall s seen t rest,
  sym s -> linv s seen (t :: rest) -> memn t seen = false ->
  linv (abort_write s t) (t :: seen) (rest ++ filter (fun h => negb (memn h (t :: seen))) (t_halts (get s t))).
Proof.
  intros s seen t rest Hsym (L1 & L2 & L3) Hns.
  assert (Hnin : ~ In t seen) by (intros F; apply memn_In in F; congruence).
  (* what abort_write does *)
  assert (W : (tasks (abort_write s t) = tasks s /\ st s t <> Doing /\ st s t <> Done) \/
              (exists nw, wrote s (abort_write s t) t nw /\ nw <> Doing /\ nw <> Done /\
                          (st s t = Done -> nw = Undo))).
  { assert (WQ : forall nw, nw <> Done -> wrote s (set_status_quiet s t nw) t nw).
    { intros nw Hn. unfold wrote, set_status_quiet. apply seqb_neq in Hn. rewrite Hn. reflexivity. }
    unfold abort_write, eff_status. fold (st s t). pose proof (L3 t) as Hwd.
    destruct (st s t) eqn:Es; simpl seqb; cbv iota;
      try (left; split; [reflexivity | split; discriminate]).
    - right; exists Hold; split; [apply WQ; discriminate | repeat split; try discriminate; try (intros F; discriminate F)].
    - right; exists Abort; split; [apply WQ; discriminate | repeat split; try discriminate; try (intros F; discriminate F)].
    - right; exists Undo; split; [apply WQ; discriminate | repeat split; try discriminate; reflexivity].
    - destruct (t_waited (get s t)) eqn:Ewd; try (left; split; [reflexivity | split; discriminate]).
      + right; exists Hold; split; [apply WQ; discriminate | repeat split; try discriminate; try (intros F; discriminate F)].
      + congruence.
      + right; exists Undo; split; [apply WQ; discriminate | repeat split; try discriminate; try (intros F; discriminate F)]. }
  destruct W as [(E & Hnd & Hndone) | (nw & Hw & Hn1 & Hn2 & Hundo)].
  - (* no write *)
    assert (Eq : forall u, st (abort_write s t) u = st s u /\ wts (abort_write s t) u = wts s u /\
                           t_waited (get (abort_write s t) u) = t_waited (get s u))
      by (intros u; unfold st, wts, get; rewrite E; auto).
    repeat split.
    + intros u w Hu Hin. destruct (Eq u) as (E1 & E2 & _). destruct (Eq w) as (E3 & _ & _).
      rewrite E1 in Hu. rewrite E2 in Hin. rewrite E3.
      destruct (L1 u w Hu Hin) as [D|[Hs Hwl]]; [left; assumption|].
      right. split; [right; assumption|]. destruct Hwl as [<-|Hr]; [congruence | apply in_or_app; left; assumption].
    + intros u [Hu|Hu]; destruct (Eq u) as (E1 & _); rewrite E1; [subst u; assumption | apply L2; assumption].
    + intros u. destruct (Eq u) as (_ & _ & E3). rewrite E3. apply L3.
  - (* a write t := nw, nw not Doing, not Done *)
    set (s' := abort_write s t) in *.
    assert (St' : st s' t <> Doing).
    { destruct (Nat.lt_ge_cases t (length (tasks s))) as [L|L].
      - rewrite (wrote_st_same s s' t nw Hw L). assumption.
      - unfold st, get. rewrite (wrote_out s s' t nw Hw L). fold (get s t). fold (st s t). rewrite st_out by assumption. discriminate. }
    repeat split.
    + intros u w Hu Hin.
      assert (Nu : u <> t) by (intros ->; contradiction).
      rewrite (wrote_st_other s s' t nw u Hw Nu) in Hu.
      unfold wts in Hin. destruct (wrote_get s s' t nw u Hw) as (E1 & _ & _). rewrite E1 in Hin.
      destruct (L1 u w Hu Hin) as [D|[Hs Hwl]].
      * destruct (Nat.eq_dec w t) as [->|Nw].
        -- (* the wait task t was Done and is now in Undo: u is a halt task of t, not seen, so it joins the worklist *)
           right. split; [left; reflexivity|].
           apply in_or_app; right. apply filter_In. split.
           ++ apply Hsym; [apply in_range_st; rewrite Hu; discriminate | exact Hin | apply in_range_st; rewrite D; discriminate].
           ++ apply negb_true_iff. destruct (memn u (t :: seen)) eqn:Em; [|reflexivity].
              apply memn_In in Em. destruct Em as [<-|Em]; [congruence|]. exfalso. apply (L2 u Em Hu).
        -- left. rewrite (wrote_st_other s s' t nw w Hw Nw). assumption.
      * right. split; [right; assumption|]. destruct Hwl as [<-|Hr]; [congruence | apply in_or_app; left; assumption].
    + intros u [<-|Hu]; [assumption|].
      assert (u <> t) by (intros ->; contradiction).
      rewrite (wrote_st_other s s' t nw u Hw); [apply L2; assumption | assumption].
    + intros u. destruct (wrote_get s s' t nw u Hw) as (_ & E2 & _). rewrite E2. apply L3.
Qed.

Lemma linv_skip : forall s seen t rest, linv s seen (t :: rest) -> memn t seen = true -> linv s seen rest.
Proof.
  intros s seen t rest (L1 & L2 & L3) Hs. apply memn_In in Hs. repeat split; auto.
  intros u w Hu Hin. destruct (L1 u w Hu Hin) as [D|[Hse [Ht|Hr]]]; auto.
  exfalso. subst u. apply (L2 t Hs Hu).
Qed.

Lemma abort_loop_linv : forall f wl al seen s lanes,
  sym s -> linv s seen wl ->
  let r := abort_loop f wl al seen s lanes in
  oof (fst (fst r)) = true \/ linv (fst (fst r)) (snd (fst r)) [].
Proof.
  induction f; intros wl al seen s lanes Hsym H.
  - simpl. destruct wl; [right; exact H | left; reflexivity].
  - destruct wl as [|t rest]; [right; exact H|].
    rewrite abort_loop_S. destruct (memn t seen) eqn:Em.
    + apply IHf; [assumption | eapply linv_skip; eauto].
    + apply IHf.
      * eapply sym_shapes; [|exact Hsym]. apply frame_abort_write.
      * apply linv_step; assumption.
Qed.

Definition seen_ok (s : state) (seen : list nat) : Prop := forall u, In u seen -> st s u <> Doing.

Lemma good_linv : forall s seen wl, good s -> seen_ok s seen -> linv s seen wl.
Proof. intros s seen wl [A B] C. split; [intros u w Hu Hw; left; eapply A; eauto | split; assumption]. Qed.
Lemma linv_good : forall s seen, linv s seen [] -> good s /\ seen_ok s seen.
Proof.
  intros s seen (L1 & L2 & L3). repeat split; auto.
  intros t w Ht Hw. destruct (L1 t w Ht Hw) as [D|[_ []]]; assumption.
Qed.

Lemma abort_lanes_good : forall d kill al seen s,
  sym s -> good s -> seen_ok s seen ->
  oof (abort_lanes d kill al seen s) = true \/ good (abort_lanes d kill al seen s).
Proof.
  induction d; intros kill al seen s Hsym G S; [left; reflexivity|].
  rewrite abort_lanes_S. destruct (select_abort (tasks s) kill) eqn:Es; [right; assumption|]. rewrite <- Es.
  pose proof (abort_loop_linv (loop_fuel s (select_abort (tasks s) kill)) (select_abort (tasks s) kill) (kill ++ al) seen s []
                              Hsym (good_linv s seen _ G S)) as H.
  pose proof (abort_loop_P (frame s) (fun s0 t H => frame_trans _ _ _ H (frame_abort_write s0 t))
                           (fun s0 H => frame_trans _ _ _ H (frame_oof s0))
                           (loop_fuel s (select_abort (tasks s) kill)) (select_abort (tasks s) kill) (kill ++ al) seen s []
                           (frame_refl s)) as F.
  destruct (abort_loop _ _ _ _ _ _) as [[s' seen'] lanes]; cbn [fst snd abort_cont] in *.
  destruct H as [O|L].
  - left. destruct lanes; [assumption|]. apply (frame_abort_lanes d (n0 :: lanes) (kill ++ al) seen' s'). assumption.
  - apply linv_good in L. destruct L as [G' S']. destruct lanes; [right; assumption|].
    apply IHd; auto. eapply sym_shapes; [apply F | assumption].
Qed.

Lemma abort_tasks_good : forall d wl al seen s,
  sym s -> good s -> seen_ok s seen ->
  oof (abort_tasks d wl al seen s) = true \/ good (abort_tasks d wl al seen s).
Proof.
  intros d wl al seen s Hsym G S. rewrite abort_tasks_eq.
  pose proof (abort_loop_linv (loop_fuel s wl) wl al seen s [] Hsym (good_linv s seen _ G S)) as H.
  pose proof (abort_loop_P (frame s) (fun s0 t H => frame_trans _ _ _ H (frame_abort_write s0 t))
                           (fun s0 H => frame_trans _ _ _ H (frame_oof s0))
                           (loop_fuel s wl) wl al seen s [] (frame_refl s)) as F.
  destruct (abort_loop _ _ _ _ _ _) as [[s' seen'] lanes]; cbn [fst snd abort_cont] in *.
  destruct H as [O|L].
  - left. destruct lanes; [assumption|]. apply (frame_abort_lanes d (n :: lanes) al seen' s'). assumption.
  - apply linv_good in L. destruct L as [G' S']. destruct lanes; [right; assumption|].
    apply abort_lanes_good; auto. eapply sym_shapes; [apply F | assumption].
Qed.

Lemma good_ready_detect : forall s, good s -> good (ready_detect s).
Proof. intros s G. apply (good_tasks_eq s); [|assumption]. unfold ready_detect, with_cready, with_panicked; repeat des_if; reflexivity. Qed.
Lemma oof_ready_detect : forall s, oof (ready_detect s) = oof s.
Proof. intros; unfold ready_detect, with_cready, with_panicked; repeat des_if; reflexivity. Qed.

(* ------------------------------------------------------------------ the log of do-handler starts *)
Definition do_entry_ok (r : start_rec) : Prop :=
  sr_undo r = false -> forallb (fun x => seqb x Done) (sr_pre r) = true.

Definition dinv (s : state) : Prop := good s /\ Forall do_entry_ok (slog s).

Lemma forallb_map_done : forall s l, (forall w, In w l -> st s w = Done) -> forallb (fun x => seqb x Done) (map (st s) l) = true.
Proof. induction l; simpl; intros H; [reflexivity|]. rewrite H by (left; reflexivity). simpl. apply IHl. intros; apply H; right; assumption. Qed.

Lemma dinv_set_status : forall s t nw,
  dinv s -> st s t <> Done -> (nw = Doing -> forall w, In w (wts s t) -> st s w = Done) -> dinv (set_status s t nw).
Proof. intros s t nw [G L] A B. split; [apply good_set_status; assumption | rewrite slog_set_status; assumption]. Qed.

Lemma dinv_ensure_rest : forall s t, dinv s -> st s t <> Abort -> dinv (ensure_rest s t).
Proof.
  intros s t [G L] Hna. unfold ensure_rest.
  destruct (ready (st s t)) eqn:Er; [split; assumption|].
  destruct (seqb (st s t) Wait) eqn:Ew; [split; assumption|].
  destruct (must_wait s t) eqn:Em; [split; assumption|].
  des_if.
  { apply dinv_set_status; [split; assumption | intros F; rewrite F in Er; discriminate | discriminate]. }
  des_if; [split; assumption|].
  (* run *)
  apply seqb_neq in Ew.
  assert (Hpre : st s t = Do \/ st s t = Doing -> forall w, In w (wts s t) -> st s w = Done).
  { intros [Hs|Hs] w Hw.
    - unfold must_wait in Em. rewrite Hs in Em.
      destruct (st s w) eqn:Esw; try reflexivity;
        (assert (X : existsb (fun w0 => negb (seqb (st s w0) Done)) (t_waits (get s t)) = true)
           by (apply existsb_exists; exists w; split; [exact Hw | rewrite Esw; reflexivity]); congruence).
    - destruct G as [A _]. eapply A; eauto. }
  unfold run.
  set (s1 := match t_st (get s t) with Do => set_status s t Doing | Undo => set_status s t Undoing | _ => s end).
  assert (D1 : dinv s1).
  { unfold s1. change (t_st (get s t)) with (st s t).
    destruct (st s t) eqn:Es; try (split; assumption).
    - apply dinv_set_status; [split; assumption | rewrite Es; discriminate | intros _; apply Hpre; left; reflexivity].
    - apply dinv_set_status; [split; assumption | rewrite Es; discriminate | discriminate]. }
  destruct D1 as [G1 L1].
  split.
  - apply (good_tasks_eq (with_tasks s1 (upd (tasks s1) t (fun tk => set_at tk 0)))); [reflexivity|].
    apply good_irrel; auto.
  - cbn [slog with_slog with_running with_tasks]. constructor; [|assumption].
    unfold do_entry_ok; cbn [sr_undo sr_pre]. change (t_st (get s t)) with (st s t).
    destruct (st s t) eqn:Es; intros F; try discriminate F; try (simpl in Er; discriminate Er); try congruence.
    + apply forallb_map_done. apply Hpre. left; reflexivity.
    + apply forallb_map_done. apply Hpre. right; reflexivity.
Qed.

Lemma st_set_status_eff : forall s t nw,
  panicked s = false -> t < length (tasks s) -> nw <> Done -> st (set_status s t nw) t = nw.
Proof.
  intros s t nw Hp L Hn. unfold set_status. rewrite Hp.
  apply seqb_neq in Hn. rewrite Hn. simpl andb. cbv iota.
  destruct (tasks_change_st s t nw) as [E|W].
  - unfold change_st in *. destruct (seqb (st s t) nw) eqn:Eq; [apply seqb_eq in Eq; assumption|].
    (* all remaining branches rewrite the task list *)
    exfalso. revert E. unfold with_panicked, with_cready, with_tasks. repeat des_if; cbn [tasks]; intros E;
      (assert (X : st s t = nw);
       [ unfold st, get; rewrite <- E; rewrite nth_upd_same by assumption; reflexivity
       | rewrite X, seqb_refl in Eq; discriminate ]).
  - eapply wrote_st_same; eauto.
Qed.

Lemma dinv_ensure_one : forall s t, dinv s -> dinv (ensure_one s t).
Proof.
  intros s t D. unfold ensure_one.
  destruct (panicked s) eqn:Ep; [assumption|].
  destruct (memn t (running s)); [assumption|].
  destruct (seqb (st s t) Abort) eqn:Ea.
  - apply seqb_eq in Ea.
    assert (L : t < length (tasks s)) by (apply in_range_st; rewrite Ea; discriminate).
    apply dinv_ensure_rest.
    + unfold try_undo. des_if; apply dinv_set_status; auto; try (rewrite Ea; discriminate); discriminate.
    + unfold try_undo. des_if; rewrite st_set_status_eff; auto; discriminate.
  - apply seqb_neq in Ea. apply dinv_ensure_rest; assumption.
Qed.

Lemma dinv_ensure_pass : forall order s, dinv s -> dinv (ensure_pass s order).
Proof. unfold ensure_pass; induction order; simpl; intros; auto using dinv_ensure_one. Qed.

(* ------------------------------------------------------------------ events *)
Definition full (s : state) : Prop := oof s = true \/ dinv s.

Lemma dinv_finish : forall s t o, inv s -> sym s -> dinv s -> oof (finish s t o) = true \/ dinv (finish s t o).
Proof.
  intros s t o I Hsym D. unfold finish.
  destruct (panicked s) eqn:Ep; [right; assumption|].
  destruct (memn t (running s)) eqn:Em; simpl negb; cbv iota; [|right; assumption].
  apply memn_In in Em. destruct I as [_ _ Hr]. pose proof (Hr t Em) as Ut.
  set (s0 := remove_running s t).
  assert (D0 : dinv s0) by exact D.
  assert (U0 : unr (st s0 t) = true) by exact Ut.
  assert (Src : st s0 t <> Done) by (intros F; rewrite F in U0; discriminate).
  destruct o.
  - right. destruct (st s0 t) eqn:Es; try assumption; apply dinv_set_status; auto; try (rewrite Es; discriminate); discriminate.
  - (* error path *)
    unfold abort_lanes_top.
    set (s1 := abort_lanes (depth_fuel s0) (lanes_of (get s0 t)) [] [] s0).
    destruct D0 as [G0 L0].
    destruct (abort_lanes_good (depth_fuel s0) (lanes_of (get s0 t)) [] [] s0 Hsym G0 (fun u F => match F with end)) as [O|G1];
      fold s1 in O || fold s1 in G1.
    + left. apply (frame_set_status (ready_detect s1) t Error). rewrite oof_ready_detect. exact O.
    + right. apply dinv_set_status.
      * split; [apply good_ready_detect; exact G1|].
        rewrite slog_ready_detect. unfold s1. rewrite slog_abort_lanes. exact L0.
      * rewrite st_ready_detect.
        destruct (qrel_abort_lanes (depth_fuel s0) (lanes_of (get s0 t)) [] [] s0) as (_ & _ & _ & _ & E).
        fold s1 in E. specialize (E t U0). intros F. rewrite F in E. discriminate.
      * discriminate.
  - right. destruct (seqb (st s0 t) Abort) eqn:Ea.
    + apply seqb_eq in Ea. unfold try_undo. des_if; apply dinv_set_status; auto; discriminate.
    + des_if; [assumption|]. destruct D0 as [G0 L0]. split; [apply good_irrel; auto | exact L0].
  - right. destruct (seqb (st s0 t) Abort) eqn:Ea.
    + apply seqb_eq in Ea. unfold try_undo. des_if; apply dinv_set_status; auto; discriminate.
    + unfold set_to_wait. change (panicked s0) with (panicked s). rewrite Ep, Ea.
      destruct D0 as [G0 L0].
      set (s2 := with_tasks s0 (upd (tasks s0) t (fun tk => set_waited tk (if undone then Undone else Done)))).
      assert (G2 : good s2).
      { apply good_irrel; auto. intros tk _. destruct undone; discriminate. }
      assert (E2 : st s2 t = st s0 t) by (unfold s2; apply st_irrel; reflexivity).
      split.
      * destruct (tasks_change_st s2 t Wait) as [E|W]; [apply (good_tasks_eq s2); assumption|].
        eapply good_wrote; eauto; [rewrite E2; assumption | discriminate].
      * rewrite slog_change_st. exact L0.
Qed.

Lemma dinv_resolve : forall s t, dinv s -> dinv (resolve_wait s t).
Proof.
  intros s t D. unfold resolve_wait. destruct (seqb (st s t) Wait) eqn:E; [|assumption].
  apply seqb_eq in E. apply dinv_set_status; auto.
  - rewrite E; discriminate.
  - intros F. destruct D as [[_ B] _]. exfalso. apply (B t). exact F.
Qed.

Lemma full_step : forall s e, inv s -> sym s -> full s -> full (step s e).
Proof.
  intros s e I Hsym [O|D].
  { left. apply (frame_step s e). exact O. }
  destruct e; simpl.
  - right. apply dinv_ensure_pass; assumption.
  - apply dinv_finish; assumption.
  - destruct (panicked s); [right; assumption|]. unfold abort_change.
    destruct D as [G L].
    destruct (abort_tasks_good (depth_fuel s) (seq 0 (length (tasks s))) [] [] s Hsym G (fun u F => match F with end)) as [O|G1].
    + left. rewrite oof_ready_detect. exact O.
    + right. split; [apply good_ready_detect; exact G1|].
      rewrite slog_ready_detect, slog_abort_tasks. exact L.
  - right. exact D.
  - right. destruct (panicked s); [assumption|]. apply dinv_resolve; assumption.
Qed.

Lemma full_run_events : forall es s, guarded s es -> inv s -> sym s -> full s -> full (run_events s es).
Proof.
  unfold run_events. induction es; simpl; intros s Hg I Hsym F; [assumption|].
  destruct Hg as [Hg1 Hg2]. apply IHes; auto.
  - apply inv_step; assumption.
  - eapply sym_shapes; [apply frame_step | assumption].
  - apply full_step; assumption.
Qed.

Lemma good_init : forall g, good (init_state g).
Proof.
  intros g. split.
  - intros t w Ht. exfalso. unfold st, get in Ht. cbn [tasks init_state] in Ht.
    destruct (Nat.lt_ge_cases t (length g)) as [L|L].
    + rewrite init_nth in Ht by assumption. destruct (nth t g ([], [], false)) as [[a b] c]. discriminate.
    + rewrite nth_overflow in Ht; [discriminate|]. unfold init_tasks. rewrite map_length, seq_length. assumption.
  - intros t. unfold get. cbn [tasks init_state].
    destruct (Nat.lt_ge_cases t (length g)) as [L|L].
    + rewrite init_nth by assumption. destruct (nth t g ([], [], false)) as [[a b] c]. discriminate.
    + rewrite nth_overflow; [discriminate|]. unfold init_tasks. rewrite map_length, seq_length. assumption.
Qed.

(* C02, do side, every start: in every history (user aborts on unready changes only) in which no fuel bound of the
   model was hit, every task in Doing has all its wait tasks Done, and every start of a do handler - fresh or re-run
   after Retry - saw all wait tasks Done *)
Theorem doing_prereqs_done : forall (g : list tdesc) (es : list event),
  g <> [] -> guarded (init_state g) es ->
  let s := run_events (init_state g) es in
  oof s = false ->
  (forall t w, st s t = Doing -> In w (t_waits (get s t)) -> st s w = Done) /\
  Forall (fun r : start_rec => sr_undo r = false -> forallb (fun x => seqb x Done) (sr_pre r) = true) (slog s).
Proof.
  intros g es Hg Hgd s Ho.
  destruct (full_run_events es (init_state g) Hgd (inv_init g Hg) (sym_init g)
                            (or_intror (conj (good_init g) (Forall_nil _)))) as [O|[[A _] L]].
  - fold s in O. congruence.
  - split; [exact A | exact L].
Qed.
