(* C35 — proofs about models/RevEpoch.v *)
From Coq Require Import List NArith ZArith Bool Lia.
Import ListNotations.
Require Import V.lib.Bytes V.lib.Dec V.proofs.DecProofs V.models.RevEpoch.
Open Scope N_scope.

Lemma is_digit_range : forall c, is_digit c = true -> 48 <= c <= 57.
Proof. intros c H. unfold is_digit in H. apply andb_prop in H. destruct H as [A B]. apply N.leb_le in A, B. lia. Qed.

Lemma neqb_of_digit : forall c k, is_digit c = true -> (k < 48 \/ 57 < k) -> (c =? k) = false.
Proof. intros c k H K. apply is_digit_range in H. apply N.eqb_neq. lia. Qed.

(* ------------------------------------------------------------ revisions *)
Lemma atoi_dec : forall v, (Z.of_N v <= max64)%Z -> atoi (dec v) = Some (Z.of_N v).
Proof.
  intros v Hv. destruct (dec_hd_digit v) as (c & r & E & D). unfold atoi. rewrite E.
  rewrite (neqb_of_digit c 43 D), (neqb_of_digit c 45 D) by lia.
  rewrite <- E, undec_dec.
  destruct (Z.leb_spec min64 (Z.of_N v)); [|unfold min64 in *; lia].
  destruct (Z.leb_spec (Z.of_N v) max64); [reflexivity|lia].
Qed.

Lemma parse_revision_store : forall n, (0 < n <= max64)%Z -> parse_revision (dec (Z.to_N n)) = Some n.
Proof.
  intros n Hn. unfold parse_revision.
  assert (A : atoi (dec (Z.to_N n)) = Some n) by (rewrite atoi_dec; rewrite Z2N.id; try lia; reflexivity).
  destruct (dec_hd_digit (Z.to_N n)) as (c & r & E & D). rewrite E in *.
  unfold unset_b. cbn [beq]. rewrite (neqb_of_digit c 117 D), (neqb_of_digit c 120 D) by lia. cbn [andb].
  rewrite A. unfold positive_only. destruct (Z.ltb_spec 0 n); [reflexivity|lia].
Qed.

Lemma parse_revision_local : forall m, (0 < m <= max64)%Z -> parse_revision (120 :: dec (Z.to_N m)) = Some (- m)%Z.
Proof.
  intros m Hm. unfold parse_revision, unset_b. cbn [beq]. change (120 =? 117) with false. cbn [andb].
  change (120 =? 120) with true. cbv iota.
  rewrite atoi_dec; rewrite Z2N.id; try lia.
  unfold positive_only. destruct (Z.ltb_spec 0 m); [reflexivity|lia].
Qed.

Lemma wrap64_id : forall z, (min64 <= z <= max64)%Z -> wrap64 z = z.
Proof. intros z H. unfold wrap64, min64, max64 in *. rewrite Z.mod_small; lia. Qed.

Lemma parse_rev_string : forall n, (min64 < n <= max64)%Z -> parse_revision (rev_string n) = Some n.
Proof.
  intros n Hn. unfold rev_string.
  destruct (Z.eqb_spec n 0) as [->|N0]; [reflexivity|].
  destruct (Z.ltb_spec n 0) as [Neg|Pos].
  - rewrite wrap64_id by (unfold min64, max64 in *; lia). unfold fmt_int.
    destruct (Z.ltb_spec (- n) 0); [lia|].
    rewrite parse_revision_local by (unfold min64, max64 in *; lia). f_equal. lia.
  - unfold fmt_int. destruct (Z.ltb_spec n 0); [lia|]. apply parse_revision_store. lia.
Qed.

Lemma unquote_quoted : forall s, unquote (34 :: s ++ [34]) = Some s.
Proof. intros s. unfold unquote. change (34 =? 34) with true. cbv iota. rewrite rev_app_distr. cbn [rev app]. change (34 =? 34) with true. cbv iota. rewrite rev_involutive. reflexivity. Qed.

Lemma yaml_is_parse : forall s, rev_unmarshal_yaml s = parse_revision s.
Proof. intros s. unfold rev_unmarshal_yaml, rev_unmarshal_json. rewrite unquote_quoted. reflexivity. Qed.

Lemma revision_roundtrip : forall n, (min64 < n <= max64)%Z ->
  parse_revision (rev_string n) = Some n /\
  rev_unmarshal_json (rev_marshal_json n) = Some n /\
  rev_unmarshal_yaml (rev_string n) = Some n.
Proof.
  intros n Hn. split; [apply parse_rev_string; exact Hn|]. split.
  - unfold rev_marshal_json, rev_unmarshal_json. rewrite unquote_quoted. apply parse_rev_string; exact Hn.
  - rewrite yaml_is_parse. apply parse_rev_string; exact Hn.
Qed.

Lemma minint_not_roundtrip : parse_revision (rev_string min64) = None.
Proof. vm_compute. reflexivity. Qed.

(* rejection: what ParseRevision accepts *)
Lemma bytes_uint_digits : forall b u, bytes_uint b = Some u -> forallb is_digit b = true.
Proof.
  induction b as [|c r IH]; intros u H; [reflexivity|]. cbn [bytes_uint] in H.
  destruct (bytes_uint r) as [u'|]; [|discriminate]. cbn [forallb]. rewrite (IH _ eq_refl), andb_true_r.
  unfold is_digit.
  repeat match type of H with (if ?c =? ?k then _ else _) = _ =>
    destruct (N.eqb_spec c k); [subst; reflexivity|] end.
  discriminate.
Qed.

Lemma undec_all_digits : forall b v, undec b = Some v -> all_digits b = true.
Proof.
  intros b v H. unfold undec in H. destruct b as [|c r]; [discriminate|].
  destruct (bytes_uint (c :: r)) eqn:E; [|discriminate]. unfold all_digits. cbn [is_nil_b negb andb].
  eapply bytes_uint_digits; eauto.
Qed.

Lemma atoi_shape : forall s z, atoi s = Some z -> signed_digits s = true /\ (min64 <= z <= max64)%Z.
Proof.
  intros s z H. unfold atoi in H. unfold signed_digits. destruct s as [|c r].
  - cbn in H. discriminate.
  - destruct (c =? 43) eqn:P; [|destruct (c =? 45) eqn:M]; cbn [orb];
    match type of H with match undec ?d with _ => _ end = _ => destruct (undec d) as [v|] eqn:U; [|discriminate] end;
    apply undec_all_digits in U; (split; [exact U|]);
    match type of H with (if ?a && ?b then _ else _) = _ => destruct a eqn:A; destruct b eqn:B; try discriminate end;
    inversion H; subst; apply Z.leb_le in A, B; lia.
Qed.

Lemma positive_only_some : forall o i, positive_only o = Some i -> o = Some i /\ (0 < i)%Z.
Proof. intros [x|] i H; cbn in H; [|discriminate]. destruct (Z.ltb_spec 0 x); inversion H; subst; auto. Qed.

Lemma beq_true : forall a b, beq a b = true -> a = b.
Proof.
  induction a as [|x a IH]; intros [|y b] H; cbn in H; try discriminate; [reflexivity|].
  apply andb_prop in H. destruct H as [E H]. apply N.eqb_eq in E. subst. f_equal. apply IH, H.
Qed.

Lemma beq_refl : forall a, beq a a = true.
Proof. induction a as [|x a IH]; cbn; [reflexivity|]. rewrite N.eqb_refl, IH. reflexivity. Qed.

Ltac fin := split; [reflexivity|]; split; [split; intros; [lia|congruence]|unfold min64, max64 in *; lia].

Lemma parse_revision_accepts : forall s n, parse_revision s = Some n ->
  rev_shape s = true /\ (n = 0%Z <-> s = unset_b) /\ (min64 < n <= max64)%Z.
Proof.
  intros s n H. unfold parse_revision in H. unfold rev_shape.
  destruct (beq s unset_b) eqn:U.
  - inversion H; subst. apply beq_true in U. cbn [orb]. repeat split; auto; unfold min64, max64; lia.
  - assert (NU : s <> unset_b) by (intros ->; rewrite beq_refl in U; discriminate).
    cbn [orb].
    destruct s as [|c t]; [cbn in H; discriminate|].
    destruct (c =? 120) eqn:X.
    + destruct (positive_only (atoi t)) as [i|] eqn:P; cbn [option_map] in H.
      * inversion H; subst. apply positive_only_some in P. destruct P as [P Hi].
        apply atoi_shape in P. destruct P as [S R]. rewrite S. cbn [andb]. rewrite orb_true_r.
        fin.
      * apply positive_only_some in H. destruct H as [Q Hi]. rename Q into P'. clear P. rename P' into P. apply atoi_shape in P. destruct P as [S R]. rewrite S. cbn [orb].
        fin.
    + cbn [andb]. apply positive_only_some in H. destruct H as [P Hi]. apply atoi_shape in P. destruct P as [S R]. rewrite S. cbn [orb].
      fin.
Qed.

(* ------------------------------------------------------------ epochs *)
Lemma intersect_iff : forall rs ws, intersect rs ws = true <-> exists x, In x rs /\ In x ws.
Proof.
  intros rs ws. unfold intersect. rewrite existsb_exists. split.
  - intros (r & Hr & H). rewrite existsb_exists in H. destruct H as (w & Hw & E). apply N.eqb_eq in E. subst. eauto.
  - intros (x & Hr & Hw). exists x. split; [exact Hr|]. rewrite existsb_exists. exists x. split; [exact Hw|apply N.eqb_refl].
Qed.

Definition read_set (e : epoch) : list N := norm0 (lst (e_read e)).
Definition write_set (e : epoch) : list N := norm0 (lst (e_write e)).

Lemma can_read_iff : forall e o, can_read e o = true <-> exists x, In x (read_set e) /\ In x (write_set o).
Proof. intros. unfold can_read. apply intersect_iff. Qed.

Lemma reads_spec_is_can_read : forall e o, reads_spec e o = can_read e o.
Proof.
  intros e o. unfold reads_spec. fold (read_set e) (write_set o).
  destruct (can_read e o) eqn:C.
  - apply can_read_iff in C. destruct C as (x & Hr & Hw).
    assert (I : In x (filter (fun x => mem x (write_set o)) (read_set e))).
    { apply filter_In. split; [exact Hr|]. unfold mem. rewrite existsb_exists. exists x. split; [exact Hw|apply N.eqb_refl]. }
    destruct (filter _ _); [destruct I|reflexivity].
  - destruct (filter (fun x => mem x (write_set o)) (read_set e)) as [|x l] eqn:F; [reflexivity|].
    exfalso. assert (I : In x (x :: l)) by (left; reflexivity). rewrite <- F in I. apply filter_In in I.
    destruct I as [Hr Hm]. unfold mem in Hm. rewrite existsb_exists in Hm. destruct Hm as (w & Hw & E).
    apply N.eqb_eq in E. subst w.
    assert (can_read e o = true) by (apply can_read_iff; eauto). congruence.
Qed.

Lemma is_zero_list_norm : forall l, is_zero_list l = true -> norm0 l = [0].
Proof.
  intros [|x [|y l]] H; cbn in *; try reflexivity; try discriminate. apply N.eqb_eq in H. subst. reflexivity.
Qed.

Lemma intersect_nonempty_l : forall rs ws, intersect rs ws = true -> norm0 rs = rs /\ norm0 ws = ws.
Proof.
  intros rs ws H. apply intersect_iff in H. destruct H as (x & Hr & Hw).
  destruct rs; [destruct Hr|]. destruct ws; [destruct Hw|]. split; reflexivity.
Qed.

Lemma valid_reads_self : forall e, validate e = 0 -> can_read e e = true.
Proof.
  intros e H. unfold validate in H. unfold can_read.
  destruct (explicit_empty (e_read e) || explicit_empty (e_write e)); [discriminate|].
  destruct (is_zero e) eqn:Z.
  - unfold is_zero in Z. apply andb_prop in Z. destruct Z as [Zr Zw].
    rewrite (is_zero_list_norm _ Zr), (is_zero_list_norm _ Zw). reflexivity.
  - destruct (_ || _); [discriminate|]. destruct (_ || _); [discriminate|].
    destruct (intersect (lst (e_read e)) (lst (e_write e))) eqn:I; [|discriminate].
    destruct (intersect_nonempty_l _ _ I) as [A B]. rewrite A, B. exact I.
Qed.

(* a valid epoch: what Validate accepts, spelled out *)
Lemma validate_ok_spec : forall e, validate e = 0 ->
  is_zero e = true \/
  ((length (lst (e_read e)) <= 10)%nat /\ (length (lst (e_write e)) <= 10)%nat /\
   is_increasing (lst (e_read e)) = true /\ is_increasing (lst (e_write e)) = true /\
   exists x, In x (lst (e_read e)) /\ In x (lst (e_write e))).
Proof.
  intros e H. unfold validate in H.
  destruct (explicit_empty (e_read e) || explicit_empty (e_write e)); [discriminate|].
  destruct (is_zero e); [left; reflexivity|right].
  destruct (Nat.ltb_spec 10 (length (lst (e_read e)))); [discriminate|].
  destruct (Nat.ltb_spec 10 (length (lst (e_write e)))); [discriminate|]. cbn [orb] in H.
  destruct (is_increasing (lst (e_read e))); [|discriminate].
  destruct (is_increasing (lst (e_write e))); [|discriminate]. cbn [negb orb] in H.
  destruct (intersect _ _) eqn:I; [|discriminate]. apply intersect_iff in I. repeat split; auto.
Qed.

(* ------------------------------------------------------------ epoch short forms *)
Lemma dec_inj : forall a b, dec a = dec b -> a = b.
Proof. intros a b H. pose proof (undec_dec a) as A. rewrite H, undec_dec in A. congruence. Qed.

Lemma forallb_rev : forall (p : N -> bool) l, forallb p l = true -> forallb p (rev l) = true.
Proof.
  intros p l H. rewrite forallb_forall in *. intros x Hx. apply H. apply in_rev. exact Hx.
Qed.

Lemma strip_star_dec : forall n, strip_star (dec n) = (false, dec n).
Proof.
  intros n. unfold strip_star. pose proof (forallb_rev _ _ (dec_digits n)) as D.
  destruct (rev (dec n)) as [|c m]; [reflexivity|]. cbn [forallb] in D. apply andb_prop in D. destruct D as [D _].
  rewrite (neqb_of_digit c 42 D) by lia. reflexivity.
Qed.

Lemma strip_star_dec_star : forall n, strip_star (dec n ++ [42]) = (true, dec n).
Proof.
  intros n. unfold strip_star. rewrite rev_app_distr. cbn [rev app]. change (42 =? 42) with true. cbv iota.
  rewrite rev_involutive. reflexivity.
Qed.

Lemma parse_u32_dec : forall n, n < two32 -> parse_u32 (dec n) = Some n.
Proof.
  intros n Hn. unfold parse_u32.
  assert (U : match undec (dec n) with Some v => if v <? two32 then Some v else None | None => None end = Some n).
  { rewrite undec_dec. destruct (N.ltb_spec n two32); [reflexivity|lia]. }
  destruct (dec n) as [|c [|d r]] eqn:E; try exact U.
  destruct (N.eqb_spec c 48) as [->|Hc]; [|exact U].
  exfalso. eapply dec_leading_zero; eauto.
Qed.

Lemma beq_dec_star_zero : forall n, beq (dec n ++ [42]) [48] = false.
Proof.
  intros n. destruct (dec_hd_digit n) as (c & r & E & _). rewrite E. cbn [app beq].
  destruct r; cbn [app beq]; rewrite andb_false_r; reflexivity.
Qed.

Lemma is_nil_b_dec : forall n, is_nil_b (dec n) = false.
Proof. intros n. pose proof (dec_nonempty n). destruct (dec n); [congruence|reflexivity]. Qed.

Lemma list_eqb_refl : forall l, list_eqb l l = true.
Proof. induction l as [|x l IH]; cbn; [reflexivity|]. rewrite N.eqb_refl, IH. reflexivity. Qed.

Definition wf32 (e : epoch) : Prop := Forall (fun x => x < two32) (lst (e_read e)) /\ Forall (fun x => x < two32) (lst (e_write e)).

Lemma from_string_dec : forall n, n < two32 -> n <> 0 -> from_string (dec n) = Some (mkEpoch (Some [n]) (Some [n])).
Proof.
  intros n Hn N0. unfold from_string. rewrite is_nil_b_dec. cbn [orb].
  destruct (beq (dec n) [48]) eqn:B.
  - exfalso. apply beq_true in B. change [48] with (dec 0) in B. apply dec_inj in B. congruence.
  - rewrite strip_star_dec, parse_u32_dec by exact Hn. reflexivity.
Qed.

Lemma from_string_dec_star : forall n, n < two32 -> n <> 0 ->
  from_string (dec n ++ [42]) = Some (mkEpoch (Some [n - 1; n]) (Some [n])).
Proof.
  intros n Hn N0. unfold from_string.
  assert (Nn : is_nil_b (dec n ++ [42]) = false) by (destruct (dec n); reflexivity).
  rewrite Nn, beq_dec_star_zero. cbn [orb]. rewrite strip_star_dec_star, parse_u32_dec by exact Hn.
  destruct (N.eqb_spec n 0); [congruence|reflexivity].
Qed.

Lemma is_short_struct : forall r w, is_short (json_struct r w) = false.
Proof. reflexivity. Qed.

(* every valid epoch whose printed form is a short form (N or N* or 0) reads back Equal from it *)
Lemma epoch_short_roundtrip : forall e, validate e = 0 -> wf32 e -> is_short (epoch_string e) = true ->
  exists e', from_string (epoch_string e) = Some e' /\ epoch_equal e e' = true.
Proof.
  intros e V [Wr Ww] S. unfold epoch_string in *. unfold epoch_equal.
  destruct (is_zero e) eqn:Z.
  - exists (mkEpoch (Some [0]) (Some [0])). split; reflexivity.
  - destruct (validate_ok_spec e V) as [Z1|(_ & _ & Ir & _ & _)]; [congruence|].
    destruct (lst (e_read e)) as [|r0 [|r1 [|r2 rr]]] eqn:R;
    destruct (lst (e_write e)) as [|w0 [|w1 ww]] eqn:W; try (cbv iota beta in S; rewrite is_short_struct in S; discriminate); cbv iota beta in S |- *.
    + (* [r0], [w0] *)
      destruct (N.eqb_spec r0 w0) as [<-|Ne]; [|rewrite is_short_struct in S; discriminate].
      assert (N0 : r0 <> 0).
      { intros ->. unfold is_zero in Z. rewrite R, W in Z. cbn in Z. discriminate. }
      pose proof (Forall_inv Wr) as H0. cbn beta in H0. eexists. split; [apply from_string_dec; assumption|].
      cbn [lst e_read e_write]. rewrite !list_eqb_refl. reflexivity.
    + (* [r0; r1], [w0] *)
      destruct ((((r0 + 1) mod two32) =? r1) && (r1 =? w0)) eqn:C; [|rewrite is_short_struct in S; discriminate].
      apply andb_prop in C. destruct C as [C1 C2]. apply N.eqb_eq in C1, C2.
      cbn [is_increasing] in Ir. rewrite andb_true_r in Ir. apply N.ltb_lt in Ir.
      pose proof (Forall_inv Wr) as H0. pose proof (Forall_inv (Forall_inv_tail Wr)) as H1. cbn beta in H0, H1.
      assert (Hr1 : r1 = r0 + 1).
      { unfold two32 in *. destruct (N.eq_dec (r0 + 1) 4294967296) as [E|E].
        - rewrite E, N.mod_same in C1 by lia. lia.
        - rewrite N.mod_small in C1 by lia. lia. }
      clear C1. subst w0. subst r1.
      eexists. split; [apply from_string_dec_star; [assumption|lia]|].
      cbn [lst e_read e_write]. replace (r0 + 1 - 1) with r0 by lia. rewrite !list_eqb_refl. reflexivity.
Qed.

Example epoch_short_roundtrip_nonvacuous :
  let e := mkEpoch (Some [4; 5]) (Some [5]) in
  validate e = 0 /\ is_short (epoch_string e) = true /\ epoch_string e = [53; 42].
Proof. vm_compute. repeat split; reflexivity. Qed.
