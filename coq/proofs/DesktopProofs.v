(* C27 — proofs about the sanitizer model (models/Desktop.v), for every input file (induction on the line list) *)
From Coq Require Import List NArith Bool Arith Lia String.
Import ListNotations.
Require Import V.lib.Bytes V.lib.Regex V.gen.DesktopRegexes V.models.Desktop.
Require V.proofs.RegexProofs.
Open Scope string_scope. Open Scope list_scope. Open Scope N_scope.

(* ------------------------------------------------------------------------------------------ byte-string lemmas *)
Lemma beq_refl a : beq a a = true.
Proof. induction a as [|x a IH]; cbn; [reflexivity | rewrite N.eqb_refl, IH; reflexivity]. Qed.

Lemma beq_eq a : forall b, beq a b = true -> a = b.
Proof.
  induction a as [|x a IH]; intros [|y b]; cbn; try discriminate; [reflexivity |].
  intros H. apply andb_true_iff in H as [H1 H2]. apply N.eqb_eq in H1. subst. f_equal. auto.
Qed.

Lemma has_prefix_spec p : forall s, has_prefix p s = true -> s = p ++ skipn (List.length p) s.
Proof.
  induction p as [|x p IH]; intros s H; [reflexivity |].
  destruct s as [|y s]; [discriminate |]. cbn in H. apply andb_true_iff in H as [H1 H2].
  apply N.eqb_eq in H1. subst. cbn. f_equal. auto.
Qed.

Lemma has_prefix_app p s : has_prefix p (p ++ s) = true.
Proof. induction p as [|x p IH]; cbn; [reflexivity | rewrite N.eqb_refl, IH; reflexivity]. Qed.

Lemma skipn_app_exact {A} (a b : list A) : skipn (List.length a) (a ++ b) = b.
Proof. induction a; cbn; auto. Qed.

Lemma after_eq_exec x : after_eq (lit_exec ++ x) = x.
Proof. reflexivity. Qed.

(* ------------------------------------------------------------------------------------------ rewriteExecLine *)
Definition exec_form (i : dinfo) (df b : bytes) : Prop :=
  exists app rest, In app (d_apps i) /\ b = lit_exec ++ exec_env df ++ wrapper i app ++ rest /\
                   (rest = [] \/ exists r', rest = 32 :: r').

Lemma exec_loop_form i df cmd : forall apps b,
  exec_loop i df (lit_exec ++ cmd) cmd apps = Some b ->
  exists app rest, In app apps /\ b = lit_exec ++ exec_env df ++ wrapper i app ++ rest /\
                   (rest = [] \/ exists r', rest = 32 :: r').
Proof.
  induction apps as [|ap apps IH]; intros b H; [discriminate |].
  cbn [exec_loop] in H.
  destruct (beq cmd (valid_cmd i ap)) eqn:E1.
  - injection H as <-. exists ap, []. rewrite app_nil_r. split; [left; reflexivity | split; [reflexivity | left; reflexivity]].
  - destruct (has_prefix (valid_cmd i ap ++ [32]) cmd) eqn:E2.
    + injection H as <-. exists ap. eexists. split; [left; reflexivity |]. split; [reflexivity |].
      right. apply has_prefix_spec in E2. rewrite app_length in E2. cbn [List.length] in E2.
      change (List.length lit_exec + List.length (valid_cmd i ap))%nat with (5 + List.length (valid_cmd i ap))%nat.
      cbn [lit_exec app Nat.add skipn].
      remember (skipn (List.length (valid_cmd i ap) + 1) cmd) as tl eqn:Etl. clear Etl.
      rewrite E2. rewrite <- app_assoc. rewrite skipn_app_exact. cbn [app]. eexists. reflexivity.
    + destruct (IH b H) as (a & rest & Hin & Hb & Hr). exists a, rest. split; [right; assumption | auto].
Qed.

Lemma rewrite_exec_form i df line b :
  has_prefix lit_exec line = true -> rewrite_exec i df line = Some b -> exec_form i df b.
Proof.
  intros Hp H. apply has_prefix_spec in Hp. set (cmd := skipn (List.length lit_exec) line) in *.
  unfold rewrite_exec in H. rewrite Hp in H. rewrite after_eq_exec in H.
  destruct (exec_loop i df (lit_exec ++ cmd) cmd (d_apps i)) as [l |] eqn:E.
  - injection H as <-. apply exec_loop_form in E. exact E.
  - destruct (existsb (beq (trim_ext (base df))) (d_apps i)) eqn:Ex; [| discriminate].
    injection H as <-. apply existsb_exists in Ex as (a & Hin & Ha). apply beq_eq in Ha. rewrite Ha.
    exists a, []. rewrite app_nil_r. split; [assumption | split; [reflexivity | left; reflexivity]].
Qed.

(* ------------------------------------------------------------------------------------------ rewriteIconLine *)
Lemma rewrite_icon_class i line b :
  rewrite_icon i line = Some b ->
  (b = line /\ (existsb (N.eqb 47) (after_eq line) = true ->
                has_prefix lit_snapdir (after_eq line) = true /\ clean_same (after_eq line) = true)) \/
  (existsb (N.eqb 47) (after_eq line) = false /\ has_prefix lit_icon b = true).
Proof.
  unfold rewrite_icon. destruct (existsb (N.eqb 47) (after_eq line)) eqn:Es.
  - destruct (has_prefix lit_snapdir (after_eq line)); cbn [negb]; [| discriminate].
    destruct (clean_same (after_eq line)); cbn [negb]; [| discriminate].
    intros H. injection H as <-. left. auto.
  - destruct (has_prefix (lit_snapdot ++ d_snap i ++ [46]) (after_eq line)).
    + intros H. injection H as <-. right. split; [reflexivity | first [reflexivity | apply has_prefix_app]].
    + destruct (has_prefix lit_snapdot (after_eq line)); [discriminate |].
      intros H. injection H as <-. left. split; [reflexivity | discriminate].
Qed.

(* ------------------------------------------------------------------------------------------ one line *)
Lemma exec_not_icon x : has_prefix lit_icon (lit_exec ++ x) = false.
Proof. reflexivity. Qed.
Lemma icon_not_exec x : has_prefix lit_exec (lit_icon ++ x) = false.
Proof. reflexivity. Qed.

(* what survives the loop body (before the ${SNAP} substitution): an allowlisted input line kept as it is, or a
   rewritten Exec= line of the fixed form, or a rewritten Icon= line *)
Lemma process_line_class i df line b :
  process_line i df line = Some b ->
  valid_line line = true /\
  ((b = line /\ has_prefix lit_exec line = false) \/
   (has_prefix lit_exec line = true /\ exec_form i df b) \/
   (has_prefix lit_exec line = false /\ has_prefix lit_icon line = true /\ has_prefix lit_icon b = true)).
Proof.
  unfold process_line. destruct (valid_line line); cbn [negb]; [| discriminate].
  intros H. split; [reflexivity |].
  destruct (has_prefix lit_exec line) eqn:Ee.
  - destruct (rewrite_exec i df line) as [l1 |] eqn:Er; [| discriminate].
    pose proof (rewrite_exec_form i df line l1 Ee Er) as F.
    destruct F as (app & rest & Hin & Hl & Hr). subst l1. rewrite exec_not_icon in H. injection H as <-.
    right. left. split; [reflexivity |]. exists app, rest. auto.
  - destruct (has_prefix lit_icon line) eqn:Ei.
    + apply rewrite_icon_class in H as [[-> _] | [_ H]].
      * right. right. auto.
      * right. right. auto.
    + injection H as <-. left. auto.
Qed.

(* an Exec= line in the output of the loop body always has the fixed form *)
Lemma process_line_exec i df line b :
  process_line i df line = Some b -> has_prefix lit_exec b = true -> exec_form i df b.
Proof.
  intros H Hb. apply process_line_class in H as [_ [[-> He] | [[_ F] | (_ & _ & Hi)]]].
  - congruence.
  - exact F.
  - apply has_prefix_spec in Hi. rewrite Hi in Hb. rewrite icon_not_exec in Hb. discriminate.
Qed.

(* an Icon= line with a path survives only when the path is ${SNAP}/... without empty, . or .. segments *)
Lemma process_line_icon i df line b :
  process_line i df line = Some b -> has_prefix lit_icon line = true ->
  existsb (N.eqb 47) (after_eq line) = true ->
  b = line /\ has_prefix lit_snapdir (after_eq line) = true /\ clean_same (after_eq line) = true.
Proof.
  unfold process_line. destruct (valid_line line); cbn [negb]; [| discriminate].
  intros H Hi Hs.
  assert (He : has_prefix lit_exec line = false).
  { apply has_prefix_spec in Hi. rewrite Hi. apply icon_not_exec. }
  rewrite He, Hi in H. apply rewrite_icon_class in H as [[-> Hc] | [Hn _]]; [| congruence].
  split; [reflexivity | auto].
Qed.

(* ------------------------------------------------------------------------------------------ the whole file *)
Theorem output_lines i df lines l :
  In l (sanitize_lines i df lines) ->
  l = xsnap_line i \/
  exists line b, In line lines /\ process_line i df line = Some b /\ l = subst_snap (d_mount i) b /\
    valid_line line = true /\
    ((b = line /\ has_prefix lit_exec line = false) \/
     (has_prefix lit_exec line = true /\ exec_form i df b) \/
     (has_prefix lit_exec line = false /\ has_prefix lit_icon line = true /\ has_prefix lit_icon b = true)).
Proof.
  unfold sanitize_lines. intros H. apply in_flat_map in H as (line & Hin & Hl).
  unfold emit in Hl. destruct (process_line i df line) as [b |] eqn:Ep; [| contradiction].
  pose proof (process_line_class i df line b Ep) as [Hv Hc].
  assert (G : l = subst_snap (d_mount i) b \/ l = xsnap_line i).
  { destruct (beq (subst_snap (d_mount i) b) lit_desktop_entry); cbn in Hl; intuition auto. }
  destruct G as [-> | ->]; [right | left; reflexivity].
  exists line, b. auto.
Qed.

Lemma xsnap_not_entry i : beq (xsnap_line i) lit_desktop_entry = false.
Proof. reflexivity. Qed.

Theorem tagged i df lines : tagged_ok i (sanitize_lines i df lines) = true.
Proof.
  unfold sanitize_lines. induction lines as [|line lines IH]; [reflexivity |].
  cbn [flat_map]. unfold emit at 1. destruct (process_line i df line) as [b |]; [| exact IH].
  destruct (beq (subst_snap (d_mount i) b) lit_desktop_entry) eqn:E.
  - cbn [app tagged_ok]. rewrite E, beq_refl, xsnap_not_entry. cbn [andb]. exact IH.
  - cbn [app tagged_ok]. rewrite E. cbn [andb]. exact IH.
Qed.

(* ------------------------------------------------------------------------------------------ launching *)
Definition no_space (c : N) : bool := negb (c =? 32).
Definition no_dollar (c : N) : bool := negb (c =? 36).
(* wrapper paths: no space, =, $, double quote, % (they are built from validated snap and app names) *)
Definition plain (c : N) : bool :=
  negb (c =? 32) && negb (c =? 61) && negb (c =? 36) && negb (c =? 34) && negb (c =? 37).
(* bytes that mean nothing inside a double-quoted argument *)
Definition neutral (c : N) : bool := negb (c =? 34) && negb (c =? 92) && negb (c =? 36).
(* the mount directory (built from the validated instance name and the revision) *)
Definition mount_ok (m : bytes) : bool := negb (is_nil_b m) && forallb neutral m.

Lemma forallb_impl' (f g : N -> bool) l : (forall x, f x = true -> g x = true) -> forallb f l = true -> forallb g l = true.
Proof.
  intros H. induction l; cbn; [reflexivity |]. intros H1. apply andb_true_iff in H1 as [Ha Hl].
  rewrite (H _ Ha), (IHl Hl). reflexivity.
Qed.

Lemma existsb_false_of_forallb (p q : N -> bool) l :
  (forall c, q c = true -> p c = false) -> forallb q l = true -> existsb p l = false.
Proof.
  intros Hpq. induction l as [|c l IH]; cbn; [reflexivity |]. intros H. apply andb_true_iff in H as [Hc Hl].
  rewrite (Hpq c Hc), (IH Hl). reflexivity.
Qed.

Ltac split_andb H :=
  repeat match type of H with (_ && _ = true) => let H2 := fresh H in apply andb_true_iff in H as [H H2] end.

Lemma plain_no_space c : plain c = true -> no_space c = true.
Proof. unfold plain, no_space. intros H. split_andb H. exact H. Qed.
Lemma plain_no_dollar c : plain c = true -> no_dollar c = true.
Proof. unfold plain, no_dollar. intros H. split_andb H. assumption. Qed.
Lemma plain_not_eq c : plain c = true -> (61 =? c) = false.
Proof. unfold plain. intros H. split_andb H. rewrite N.eqb_sym. apply negb_true_iff. assumption. Qed.
Lemma plain_not_pct c : plain c = true -> (c =? 37) = false.
Proof. unfold plain. intros H. split_andb H. apply negb_true_iff. assumption. Qed.

(* --- the ${SNAP} substitution *)
Lemma subst_prefix m a : forall s, forallb no_dollar a = true -> subst_snap m (a ++ s) = a ++ subst_snap m s.
Proof.
  unfold subst_snap. induction a as [|x a IH]; intros s H; [reflexivity |].
  cbn in H. apply andb_true_iff in H as [Hx Ha]. unfold no_dollar in Hx. apply negb_true_iff in Hx.
  cbn [app replace_all]. cbn [lit_snapvar has_prefix]. rewrite N.eqb_sym, Hx. cbn [andb]. rewrite (IH s Ha). reflexivity.
Qed.

Lemma subst_space m r : subst_snap m (32 :: r) = 32 :: subst_snap m r.
Proof. reflexivity. Qed.

Lemma replace_skip old new : forall k s, replace_all old new k s = replace_all old new 0 (skipn k s).
Proof.
  induction k as [|k IH]; intros s; [reflexivity |].
  destruct s as [|c r]; [reflexivity |]. cbn [replace_all skipn]. apply IH.
Qed.

Lemma has_prefix_app_stop x t : forall p a,
  forallb (fun c => negb (c =? x)) p = true -> has_prefix p (a ++ x :: t) = has_prefix p a.
Proof.
  induction p as [|y p IH]; intros a H; [reflexivity |].
  cbn in H. apply andb_true_iff in H as [Hy Hp]. apply negb_true_iff in Hy.
  destruct a as [|z a]; cbn [app has_prefix].
  - rewrite Hy. reflexivity.
  - rewrite (IH a Hp). reflexivity.
Qed.

(* scanning the inside of a double-quoted argument: QN normal, QE after a backslash. `good st s`: from state st the
   scan of s meets no closing quote and no unescaped $, and ends in the normal state *)
Inductive qst := QN | QE.

Fixpoint good (st : qst) (s : bytes) : bool :=
  match s with
  | [] => match st with QN => true | QE => false end
  | c :: r => match st with
              | QE => good QN r
              | QN => if c =? 34 then false else if c =? 92 then good QE r else if c =? 36 then false else good QN r
              end
  end.

Lemma good_esc_all a : good QN (esc_all a) = true.
Proof.
  induction a as [|c a IH]; [reflexivity |].
  unfold esc_all in *. cbn [flat_map]. unfold esc at 1.
  destruct ((c =? 34) || (c =? 96) || (c =? 36) || (c =? 92)) eqn:E.
  - cbn [app good]. change (92 =? 34) with false. change (92 =? 92) with true. cbv iota. exact IH.
  - apply orb_false_iff in E as [E E4]. apply orb_false_iff in E as [E E3]. apply orb_false_iff in E as [E1 E2].
    cbn [app good]. rewrite E1, E4, E3. exact IH.
Qed.

Lemma good_neutral_app x s : forallb neutral x = true -> good QN (x ++ s) = good QN s.
Proof.
  induction x as [|c x IH]; intros H; [reflexivity |].
  cbn in H. apply andb_true_iff in H as [Hc Hx]. unfold neutral in Hc. split_andb Hc.
  apply negb_true_iff in Hc, Hc0, Hc1. cbn [app good]. rewrite Hc, Hc0, Hc1. auto.
Qed.

Lemma good_mount_escaped m s : mount_ok m = true -> good QE (m ++ s) = good QN s.
Proof.
  unfold mount_ok. destruct m as [|c m']; [discriminate |]. cbn [is_nil_b negb andb forallb].
  intros H. apply andb_true_iff in H as [_ H]. cbn [app good]. apply good_neutral_app. exact H.
Qed.

(* substituting inside a quoted argument keeps it a well-formed quoted argument *)
Lemma subst_quoted m t : mount_ok m = true ->
  forall n E, (List.length E <= n)%nat -> forall st, good st E = true ->
  exists E', subst_snap m (E ++ 34 :: t) = E' ++ 34 :: subst_snap m t /\ good st E' = true.
Proof.
  intros Hm. unfold subst_snap.
  assert (Base : forall st, good st [] = true ->
            exists E', replace_all lit_snapvar m 0 ([] ++ 34 :: t) = E' ++ 34 :: replace_all lit_snapvar m 0 t /\ good st E' = true).
  { intros st H. exists []. split; [reflexivity | exact H]. }
  induction n as [|n IH]; intros E Hl st Hg.
  - destruct E; [apply Base; exact Hg | cbn in Hl; lia].
  - destruct E as [|c r]; [apply Base; exact Hg |].
    cbn [List.length] in Hl.
    assert (Step : replace_all lit_snapvar m 0 ((c :: r) ++ 34 :: t) =
                   if has_prefix lit_snapvar (c :: r)
                   then m ++ replace_all lit_snapvar m 0 (skipn 6 (r ++ 34 :: t))
                   else c :: replace_all lit_snapvar m 0 (r ++ 34 :: t)).
    { cbn [app replace_all]. change (List.length lit_snapvar - 1)%nat with 6%nat. rewrite (replace_skip lit_snapvar m 6).
      change (c :: r ++ 34 :: t) with ((c :: r) ++ 34 :: t).
      rewrite (has_prefix_app_stop 34 t lit_snapvar (c :: r) eq_refl). reflexivity. }
    rewrite Step. clear Step.
    destruct (has_prefix lit_snapvar (c :: r)) eqn:Hp.
    + apply has_prefix_spec in Hp. cbn [lit_snapvar List.length app] in Hp.
      change (skipn 7 (c :: r)) with (skipn 6 r) in Hp.
      remember (skipn 6 r) as r' eqn:Er'. injection Hp as Hc Hr. clear Er'. subst c r.
      destruct st; [cbn in Hg; discriminate |].
      cbn [good] in Hg. cbn [good N.eqb Pos.eqb] in Hg.
      cbn [app skipn].
      assert (Hl' : (List.length r' <= n)%nat) by (cbn [List.length] in Hl; lia).
      destruct (IH r' Hl' QN Hg) as (E'' & HE & HgE).
      exists (m ++ E''). split.
      * rewrite HE. rewrite <- app_assoc. reflexivity.
      * rewrite good_mount_escaped by exact Hm. exact HgE.
    + destruct st.
      * cbn [good] in Hg. destruct (c =? 34) eqn:E1; [discriminate |].
        destruct (c =? 92) eqn:E2.
        -- assert (Hl' : (List.length r <= n)%nat) by lia.
           destruct (IH r Hl' QE Hg) as (E'' & HE & HgE).
           exists (c :: E''). split; [cbn [app]; rewrite HE; reflexivity |]. cbn [good]. rewrite E1, E2. exact HgE.
        -- destruct (c =? 36) eqn:E3; [discriminate |].
           assert (Hl' : (List.length r <= n)%nat) by lia.
           destruct (IH r Hl' QN Hg) as (E'' & HE & HgE).
           exists (c :: E''). split; [cbn [app]; rewrite HE; reflexivity |]. cbn [good]. rewrite E1, E2, E3. exact HgE.
      * cbn [good] in Hg.
        assert (Hl' : (List.length r <= n)%nat) by lia.
        destruct (IH r Hl' QN Hg) as (E'' & HE & HgE).
        exists (c :: E''). split; [cbn [app]; rewrite HE; reflexivity |]. cbn [good]. exact HgE.
Qed.

(* --- the tokenizer *)
Lemma tw_word : forall P acc Y, forallb no_space P = true ->
  twords TWord acc (P ++ 32 :: Y) = (rev acc ++ P) :: twords TSpace [] Y.
Proof.
  induction P as [|c P IH]; intros acc Y H.
  - cbn. rewrite app_nil_r. reflexivity.
  - cbn in H. apply andb_true_iff in H as [Hc HP]. unfold no_space in Hc. apply negb_true_iff in Hc.
    cbn [app twords]. rewrite Hc. rewrite (IH _ _ HP). cbn [rev]. rewrite <- app_assoc. reflexivity.
Qed.

Lemma tw_word_end : forall P acc, forallb no_space P = true -> twords TWord acc P = [rev acc ++ P].
Proof.
  induction P as [|c P IH]; intros acc H.
  - cbn. rewrite app_nil_r. reflexivity.
  - cbn in H. apply andb_true_iff in H as [Hc HP]. unfold no_space in Hc. apply negb_true_iff in Hc.
    cbn [twords]. rewrite Hc. rewrite (IH _ HP). cbn [rev]. rewrite <- app_assoc. reflexivity.
Qed.

Definition tq (st : qst) : tst := match st with QN => TQuote | QE => TQuoteEsc end.

Lemma tw_quote : forall E st acc Y, good st E = true ->
  exists w, twords (tq st) acc (E ++ 34 :: Y) = (rev acc ++ w) :: twords TSpace [] Y.
Proof.
  induction E as [|c r IH]; intros st acc Y H.
  - destruct st; [| discriminate]. exists []. cbn. rewrite app_nil_r. reflexivity.
  - destruct st.
    + cbn [good] in H. destruct (c =? 34) eqn:E1; [discriminate |].
      destruct (c =? 92) eqn:E2.
      * destruct (IH QE acc Y H) as (w & Hw). exists w. cbn [app tq twords]. rewrite E1, E2. exact Hw.
      * destruct (c =? 36); [discriminate |].
        destruct (IH QN (c :: acc) Y H) as (w & Hw). exists (c :: w). cbn [app tq twords]. rewrite E1, E2.
        cbn [tq] in Hw. rewrite Hw. cbn [rev]. rewrite <- app_assoc. reflexivity.
    + cbn [good] in H. destruct (IH QN (c :: acc) Y H) as (w & Hw). exists (c :: w). cbn [app tq twords].
      cbn [tq] in Hw. rewrite Hw. cbn [rev]. rewrite <- app_assoc. reflexivity.
Qed.

Lemma tw_third w rest :
  forallb plain w = true -> w <> [] -> (rest = [] \/ exists r', rest = 32 :: r') ->
  exists tl, twords TSpace [] (w ++ rest) = w :: tl.
Proof.
  intros Hw Hne Hr. destruct w as [|c w']; [congruence |].
  cbn in Hw. apply andb_true_iff in Hw as [Hc Hw'].
  assert (Hs : forallb no_space w' = true) by (eapply forallb_impl'; [apply plain_no_space | exact Hw']).
  unfold plain in Hc. apply andb_true_iff in Hc as [Hc _]. apply andb_true_iff in Hc as [Hc H34].
  apply andb_true_iff in Hc as [Hc _]. apply andb_true_iff in Hc as [H32 _].
  apply negb_true_iff in H32, H34.
  cbn [app twords]. rewrite H32, H34.
  destruct Hr as [-> | (r' & ->)].
  - rewrite app_nil_r, (tw_word_end w' [c] Hs). eexists. reflexivity.
  - rewrite (tw_word w' [c] r' Hs). eexists. reflexivity.
Qed.

Lemma unpercent_id : forall w, forallb plain w = true -> unpercent w = w.
Proof.
  induction w as [|c r IH]; intros H; [reflexivity |].
  cbn in H. apply andb_true_iff in H as [Hc Hr]. destruct r as [|d r']; [reflexivity |].
  change (unpercent (c :: d :: r')) with (if (c =? 37) && (d =? 37) then 37 :: unpercent r' else c :: unpercent (d :: r')).
  rewrite (plain_not_pct _ Hc). cbn [andb]. rewrite (IH Hr). reflexivity.
Qed.

Lemma hint_assignment x : is_assignment (lit_hint ++ x) = true.
Proof. unfold is_assignment. rewrite existsb_app. reflexivity. Qed.

Lemma tw_hint_word a Y : forallb no_space a = true ->
  twords TSpace [] (lit_env ++ lit_hint ++ a ++ 32 :: Y) = [101;110;118] :: (lit_hint ++ a) :: twords TSpace [] Y.
Proof.
  intros H.
  change (twords TSpace [] (lit_env ++ lit_hint ++ a ++ 32 :: Y))
    with ([101;110;118] :: twords TWord (rev lit_hint) (a ++ 32 :: Y)).
  rewrite (tw_word a (rev lit_hint) Y H), rev_involutive. reflexivity.
Qed.

(* the common end of both cases: env, one assignment word, the wrapper *)
Lemma launched_words w2 w tl :
  is_assignment w2 = true -> forallb plain w = true ->
  option_map unpercent (if beq [101;110;118] [101;110;118] then env_program (w2 :: w :: tl) else Some [101;110;118]) = Some w.
Proof.
  intros H2 Hw. rewrite beq_refl. cbn [env_program]. rewrite H2.
  assert (Hna : is_assignment w = false).
  { apply (existsb_false_of_forallb (N.eqb 61) plain); [apply plain_not_eq | exact Hw]. }
  rewrite Hna. cbn [option_map]. rewrite (unpercent_id w Hw). reflexivity.
Qed.

Lemma not_reserved_props c : is_reserved c = false -> no_space c = true /\ no_dollar c = true /\ negb (c =? 34) = true.
Proof.
  unfold is_reserved, no_space, no_dollar. intros H.
  destruct (N.eqb_spec c 32) as [-> |]; [discriminate |].
  destruct (N.eqb_spec c 36) as [-> |]; [discriminate |].
  destruct (N.eqb_spec c 34) as [-> |]; [discriminate |]. auto.
Qed.

Lemma forallb_of_existsb_false (p : N -> bool) l : existsb p l = false -> forallb (fun c => negb (p c)) l = true.
Proof.
  induction l as [|c l IH]; cbn; [reflexivity |]. intros H. apply orb_false_iff in H as [Hc Hl].
  rewrite Hc, (IH Hl). reflexivity.
Qed.

(* as written to the installed file and as launched: whatever the desktop file is called, the program that runs is the
   wrapper of one of the snap's apps *)
Theorem exec_output_launches i df b :
  exec_form i df b ->
  mount_ok (d_mount i) = true ->
  (forall app, In app (d_apps i) -> forallb plain (wrapper i app) = true) ->
  exists app, In app (d_apps i) /\
    has_prefix (lit_exec ++ lit_env) (subst_snap (d_mount i) b) = true /\
    launched (subst_snap (d_mount i) b) = Some (wrapper i app).
Proof.
  intros (ap0 & rest & Hin & -> & Hr) Hm Hw. specialize (Hw ap0 Hin). exists ap0. split; [exact Hin |].
  set (m := d_mount i). set (w := wrapper i ap0) in *.
  assert (Hwd : forallb no_dollar w = true) by (eapply forallb_impl'; [apply plain_no_dollar | exact Hw]).
  assert (Hne : w <> []) by (unfold w, wrapper; destruct (d_bindir i); discriminate).
  assert (Hr' : subst_snap m rest = [] \/ exists r', subst_snap m rest = 32 :: r').
  { destruct Hr as [-> | (r' & ->)]; [left; reflexivity | right; rewrite subst_space; eexists; reflexivity]. }
  destruct (tw_third w (subst_snap m rest) Hw Hne Hr') as (tl & Htl).
  unfold exec_env, quote_exec_arg.
  change (pdouble (lit_hint ++ df)) with (lit_hint ++ pdouble df).
  set (a := pdouble df).
  destruct (existsb is_reserved (lit_hint ++ a)) eqn:Eres; cbn [negb].
  - (* quoted *)
    change (esc_all (lit_hint ++ a)) with (lit_hint ++ esc_all a).
    set (E := esc_all a). assert (HgE : good QN E = true) by apply good_esc_all.
    assert (Eq : lit_exec ++ (lit_env ++ ([34] ++ (lit_hint ++ E) ++ [34]) ++ [32]) ++ w ++ rest =
                 (lit_exec ++ lit_env ++ 34 :: lit_hint) ++ E ++ 34 :: (32 :: w) ++ rest).
    { repeat rewrite <- app_assoc. reflexivity. }
    rewrite Eq. rewrite (subst_prefix m _ _ (eq_refl : forallb no_dollar (lit_exec ++ lit_env ++ 34 :: lit_hint) = true)).
    destruct (subst_quoted m ((32 :: w) ++ rest) Hm (List.length E) E (le_n _) QN HgE) as (E' & HE & HgE').
    rewrite HE.
    rewrite (subst_prefix m (32 :: w) rest) by (cbn [forallb]; rewrite Hwd; reflexivity).
    split; [reflexivity |].
    unfold launched.
    change (after_eq ((lit_exec ++ lit_env ++ 34 :: lit_hint) ++ E' ++ 34 :: (32 :: w) ++ subst_snap m rest))
      with (lit_env ++ 34 :: lit_hint ++ E' ++ 34 :: 32 :: w ++ subst_snap m rest).
    change (twords TSpace [] (lit_env ++ 34 :: lit_hint ++ E' ++ 34 :: 32 :: w ++ subst_snap m rest))
      with ([101;110;118] :: twords TQuote (rev lit_hint) (E' ++ 34 :: 32 :: w ++ subst_snap m rest)).
    destruct (tw_quote E' QN (rev lit_hint) (32 :: w ++ subst_snap m rest) HgE') as (w0 & Hw0).
    cbn [tq] in Hw0. rewrite Hw0. rewrite rev_involutive.
    change (twords TSpace [] (32 :: w ++ subst_snap m rest)) with (twords TSpace [] (w ++ subst_snap m rest)).
    rewrite Htl. apply launched_words; [apply hint_assignment | exact Hw].
  - (* no reserved byte: the argument is written as it is *)
    pose proof (forallb_of_existsb_false _ _ Eres) as Hnr.
    assert (Hp : forall c, negb (is_reserved c) = true -> no_space c = true /\ no_dollar c = true /\ negb (c =? 34) = true)
      by (intros c Hc; apply not_reserved_props; apply negb_true_iff; exact Hc).
    assert (Hs : forallb no_space (lit_hint ++ a) = true) by (eapply forallb_impl'; [| exact Hnr]; intros c Hc; apply (Hp c Hc)).
    assert (Hd : forallb no_dollar (lit_hint ++ a) = true) by (eapply forallb_impl'; [| exact Hnr]; intros c Hc; apply (Hp c Hc)).
    assert (Eq : lit_exec ++ (lit_env ++ (lit_hint ++ a) ++ [32]) ++ w ++ rest =
                 (lit_exec ++ lit_env ++ (lit_hint ++ a) ++ 32 :: w) ++ rest).
    { repeat rewrite <- app_assoc. reflexivity. }
    rewrite Eq.
    assert (Hpre : forallb no_dollar (lit_exec ++ lit_env ++ (lit_hint ++ a) ++ 32 :: w) = true).
    { pose proof Hd as Hd'. rewrite forallb_app in Hd'. apply andb_true_iff in Hd' as [_ Hd2].
      rewrite !forallb_app. cbn [forallb]. rewrite Hd2, Hwd. reflexivity. }
    rewrite (subst_prefix m _ rest Hpre).
    split; [reflexivity |].
    unfold launched. rewrite <- !app_assoc. rewrite after_eq_exec. cbn [app].
    assert (Hsa : forallb no_space a = true) by (rewrite forallb_app in Hs; apply andb_true_iff in Hs as [_ Hs]; exact Hs).
    rewrite (tw_hint_word a (w ++ subst_snap m rest) Hsa). rewrite Htl.
    apply launched_words; [apply hint_assignment | exact Hw].
Qed.

(* the repaired finding (0f3f7c0): a desktop file named `a sh -c id x.desktop` is now ONE quoted word after env *)
Definition bad_info : dinfo := mkInfo (bs "foo") [] [bs "app"] (bs "/snap/bin") (bs "/snap/foo/7").
Definition bad_df : bytes := bs "/var/lib/snapd/desktop/applications/foo_a sh -c id x.desktop".
Definition bad_content : bytes := bs "Exec=foo.app %U".

Lemma exec_filename_quoted_example :
  sanitize_lines bad_info bad_df [bad_content] =
    [bs "Exec=env " ++ [34] ++ bs "BAMF_DESKTOP_FILE_HINT=/var/lib/snapd/desktop/applications/foo_a sh -c id x.desktop" ++ [34] ++
     bs " /snap/bin/foo.app %U"] /\
  twords TSpace [] (after_eq (hd [] (sanitize_lines bad_info bad_df [bad_content]))) =
    [bs "env"; bs "BAMF_DESKTOP_FILE_HINT=/var/lib/snapd/desktop/applications/foo_a sh -c id x.desktop"; bs "/snap/bin/foo.app"; bs "%U"] /\
  launched (hd [] (sanitize_lines bad_info bad_df [bad_content])) = Some (bs "/snap/bin/foo.app").
Proof. vm_compute. repeat split; reflexivity. Qed.

(* a name with quotes, backslash, dollar, percent and ${SNAP}: still the wrapper *)
Lemma exec_filename_nasty_example :
  mount_ok (d_mount bad_info) = true /\
  launched (hd [] (sanitize_lines bad_info (bs "/d/foo_a" ++ [34; 32; 92; 34] ++ bs " sh ${SNAP} 100%U `id`.desktop") [bad_content]))
    = Some (bs "/snap/bin/foo.app").
Proof. vm_compute. split; reflexivity. Qed.

Lemma exec_ok_example :
  sanitize bad_info (bs "/var/lib/snapd/desktop/applications/foo_app.desktop")
           (bs "[Desktop Entry]" ++ [10] ++ bs "TryExec=/bin/sh" ++ [10] ++ bs "Exec=foo.app %U" ++ [10] ++ bs "Icon=${SNAP}/meta/gui/icon.png" ++ [10]) =
  bs "[Desktop Entry]" ++ [10] ++ bs "X-SnapInstanceName=foo" ++ [10] ++
  bs "Exec=env BAMF_DESKTOP_FILE_HINT=/var/lib/snapd/desktop/applications/foo_app.desktop /snap/bin/foo.app %U" ++ [10] ++
  bs "Icon=/snap/foo/7/meta/gui/icon.png" ++ [10].
Proof. vm_compute. reflexivity. Qed.

(* files whose name has a control character never reach the sanitizer *)
Lemma control_names_skipped i dir file content : has_control file = true -> derive_one i dir file content = None.
Proof. unfold derive_one. intros ->. destruct (has_suffix lit_dot_desktop file); reflexivity. Qed.

(* ------------------------------------------------------------------------------------------ every output line is allowlisted *)
Definition byte_ok (c : N) : bool := c <=? 255.
Definition bytes_ok (s : bytes) : bool := forallb byte_ok s.
Definition info_ok (i : dinfo) : bool :=
  bytes_ok (d_mount i) && bytes_ok (d_bindir i) && bytes_ok (d_snap i) && bytes_ok (d_key i) && forallb bytes_ok (d_apps i).

(* no byte class of the expression contains $ *)
Fixpoint nd_re (r : regex) : bool :=
  match r with
  | Empty | Eps => true
  | Cls rs => negb (in_ranges 36 rs)
  | Cat a b | Alt a b => nd_re a && nd_re b
  | Star a => nd_re a
  end.

Lemma nd_lang r s : RegexProofs.lang r s -> nd_re r = true -> forallb no_dollar s = true.
Proof.
  induction 1; cbn [nd_re]; intros Hn; try reflexivity.
  - cbn. rewrite andb_true_r. unfold no_dollar. apply negb_true_iff in Hn.
    destruct (N.eqb_spec c 36) as [-> |]; [congruence | reflexivity].
  - apply andb_true_iff in Hn as [H1 H2]. rewrite forallb_app, IHlang1, IHlang2; auto.
  - apply andb_true_iff in Hn as [H1 _]. auto.
  - apply andb_true_iff in Hn as [_ H2]. auto.
  - rewrite forallb_app, IHlang1, IHlang2; auto.
Qed.

(* an allowlist alternative is either $-free as a whole, or a $-free expression followed by "anything" *)
Definition alt_ok (a : regex) : bool :=
  nd_re a || match a with Cat r t => nd_re r && req t (Star AnyByte) | _ => false end.

Lemma alts_ok : forallb alt_ok valid_line_alts = true.
Proof. vm_compute. reflexivity. Qed.

Lemma subst_no_dollar m s : forallb no_dollar s = true -> subst_snap m s = s.
Proof. intros H. rewrite <- (app_nil_r s) at 1. rewrite (subst_prefix m s [] H). apply app_nil_r. Qed.

Lemma in_any c : in_ranges c [(0, 255)] = byte_ok c.
Proof. unfold byte_ok. destruct c; cbn [in_ranges]; rewrite orb_false_r; reflexivity. Qed.

Lemma lang_any s : bytes_ok s = true -> RegexProofs.lang (Star AnyByte) s.
Proof.
  intros H. apply RegexProofs.lang_star_cls. unfold bytes_ok in H. rewrite <- H. clear H.
  induction s as [|c r IH]; [reflexivity |]. cbn [forallb]. rewrite in_any, IH. reflexivity.
Qed.

Lemma alt_subst m a line :
  alt_ok a = true -> RegexProofs.lang a line -> bytes_ok (subst_snap m line) = true ->
  RegexProofs.lang a (subst_snap m line).
Proof.
  unfold alt_ok. intros Ha Hl Hb. apply orb_true_iff in Ha as [Ha | Ha].
  - rewrite (subst_no_dollar m line (nd_lang a line Hl Ha)). exact Hl.
  - destruct a; try discriminate. apply andb_true_iff in Ha as [Hn Hq]. apply RegexProofs.req_eq in Hq. subst a2.
    apply RegexProofs.lang_cat_inv in Hl as (p & rest & -> & Hp & _).
    pose proof (nd_lang a1 p Hp Hn) as Hd. rewrite (subst_prefix m p rest Hd) in *.
    constructor; [exact Hp |]. apply lang_any. unfold bytes_ok in *. rewrite forallb_app in Hb.
    apply andb_true_iff in Hb as [_ Hb]. exact Hb.
Qed.

Lemma replace_all_bytes_ok old m : bytes_ok m = true -> forall s k, bytes_ok s = true -> bytes_ok (replace_all old m k s) = true.
Proof.
  intros Hm. unfold bytes_ok in *. induction s as [|c r IH]; intros k Hs; [reflexivity |].
  cbn in Hs. apply andb_true_iff in Hs as [Hc Hr]. cbn [replace_all]. destruct k.
  - destruct (has_prefix old (c :: r)).
    + rewrite forallb_app, Hm. apply IH. exact Hr.
    + cbn. rewrite Hc. apply IH. exact Hr.
  - apply IH. exact Hr.
Qed.

Lemma valid_line_subst m line :
  valid_line line = true -> bytes_ok m = true -> bytes_ok line = true -> valid_line (subst_snap m line) = true.
Proof.
  unfold valid_line. intros Hv Hm Hl. apply existsb_exists in Hv as (a & Hin & Ha).
  apply existsb_exists. exists a. split; [exact Hin |].
  apply RegexProofs.rmatch_lang. apply RegexProofs.rmatch_lang in Ha.
  apply alt_subst; [| exact Ha | apply replace_all_bytes_ok; assumption].
  pose proof alts_ok as H. rewrite forallb_forall in H. apply H. exact Hin.
Qed.

(* a line that starts with an allowlisted key is allowlisted *)
Lemma key_prefix_valid key y :
  existsb (req (search_r (Lit key))) valid_line_alts = true -> bytes_ok y = true -> valid_line (key ++ y) = true.
Proof.
  intros He Hy. apply existsb_exists in He as (a & Hin & Ha). apply RegexProofs.req_eq in Ha. subst a.
  unfold valid_line. apply existsb_exists. exists (search_r (Lit key)). split; [exact Hin |].
  apply RegexProofs.rmatch_lang. unfold search_r. constructor; [apply RegexProofs.lang_lit; reflexivity | apply lang_any; exact Hy].
Qed.

(* --- the bytes of everything the loop body writes are bytes *)
Lemma ok_app a b : bytes_ok (a ++ b) = bytes_ok a && bytes_ok b.
Proof. apply forallb_app. Qed.
Lemma ok_skipn k : forall s, bytes_ok s = true -> bytes_ok (skipn k s) = true.
Proof. unfold bytes_ok. induction k; intros [|c r] H; cbn; auto. cbn in H. apply andb_true_iff in H as [_ H]. auto. Qed.
Lemma ok_flat_map (f : N -> bytes) s : (forall c, byte_ok c = true -> bytes_ok (f c) = true) -> bytes_ok s = true -> bytes_ok (flat_map f s) = true.
Proof.
  intros Hf. unfold bytes_ok in *. induction s as [|c r IH]; intros H; [reflexivity |].
  cbn in H. apply andb_true_iff in H as [Hc Hr]. cbn [flat_map]. rewrite forallb_app, (Hf c Hc), (IH Hr). reflexivity.
Qed.
Lemma ok_split_first c : forall s a b, split_first c s = Some (a, b) -> bytes_ok s = true -> bytes_ok b = true.
Proof.
  unfold bytes_ok. induction s as [|x r IH]; intros a b; cbn; [discriminate |].
  intros H Hs. apply andb_true_iff in Hs as [_ Hr]. destruct (x =? c).
  - injection H as _ <-. exact Hr.
  - destruct (split_first c r) as [[a' b'] |]; [| discriminate]. injection H as _ <-. eapply IH; [reflexivity | exact Hr].
Qed.
Lemma ok_after_eq line : bytes_ok line = true -> bytes_ok (after_eq line) = true.
Proof. unfold after_eq. intros H. destruct (split_first 61 line) as [[a b] |] eqn:E; [eapply ok_split_first; eassumption | reflexivity]. Qed.

Lemma ok_quote arg : bytes_ok arg = true -> bytes_ok (quote_exec_arg arg) = true.
Proof.
  intros H. unfold quote_exec_arg.
  assert (Hp : bytes_ok (pdouble arg) = true).
  { apply ok_flat_map; [| exact H]. intros c Hc. destruct (c =? 37); cbn; rewrite ?Hc; reflexivity. }
  destruct (existsb is_reserved (pdouble arg)); cbn [negb]; [| exact Hp].
  rewrite !ok_app. cbn [bytes_ok forallb]. change (byte_ok 34) with true. cbn [andb]. rewrite andb_true_r.
  apply ok_flat_map; [| exact Hp]. intros c Hc. unfold esc.
  destruct ((c =? 34) || (c =? 96) || (c =? 36) || (c =? 92)); cbn; rewrite Hc; reflexivity.
Qed.

Lemma ok_instance snap key : bytes_ok snap = true -> bytes_ok key = true -> bytes_ok (instance_name snap key) = true.
Proof. intros Hs Hk. unfold instance_name. destruct (is_nil_b key); [exact Hs |]. rewrite !ok_app, Hs, Hk. reflexivity. Qed.

Lemma info_ok_parts i : info_ok i = true ->
  bytes_ok (d_mount i) = true /\ bytes_ok (d_bindir i) = true /\ bytes_ok (d_snap i) = true /\ bytes_ok (d_key i) = true /\
  forall a, In a (d_apps i) -> bytes_ok a = true.
Proof.
  unfold info_ok. intros H. apply andb_true_iff in H as [H H5]. apply andb_true_iff in H as [H H4].
  apply andb_true_iff in H as [H H3]. apply andb_true_iff in H as [H1 H2].
  repeat split; auto. intros a Ha. rewrite forallb_forall in H5. auto.
Qed.

Lemma ok_wrapper i a : info_ok i = true -> bytes_ok a = true -> bytes_ok (wrapper i a) = true.
Proof.
  intros Hi Ha. destruct (info_ok_parts i Hi) as (_ & Hb & Hs & Hk & _).
  unfold wrapper, join_snap_app. rewrite !ok_app, Hb. cbn [bytes_ok forallb]. change (byte_ok 47) with true. cbn [andb].
  destruct (beq (d_snap i) a); [apply ok_instance; assumption |].
  rewrite !ok_app, (ok_instance _ _ Hs Hk), Ha. reflexivity.
Qed.

Lemma ok_exec_env df : bytes_ok df = true -> bytes_ok (exec_env df) = true.
Proof.
  intros H. unfold exec_env. rewrite !ok_app. rewrite ok_quote by (rewrite ok_app, H; reflexivity). reflexivity.
Qed.

Lemma ok_exec_loop i df line cmd : info_ok i = true -> bytes_ok df = true -> bytes_ok line = true ->
  forall apps b, (forall a, In a apps -> bytes_ok a = true) -> exec_loop i df line cmd apps = Some b -> bytes_ok b = true.
Proof.
  intros Hi Hd Hl. induction apps as [|a apps IH]; intros b Ha H; [discriminate |].
  cbn [exec_loop] in H. assert (Hw : bytes_ok (wrapper i a) = true) by (apply ok_wrapper; [exact Hi | apply Ha; left; reflexivity]).
  destruct (beq cmd (valid_cmd i a)).
  - replace b with (lit_exec ++ exec_env df ++ wrapper i a) by congruence.
    rewrite !ok_app, (ok_exec_env df Hd), Hw. reflexivity.
  - destruct (has_prefix (valid_cmd i a ++ [32]) cmd).
    + replace b with (lit_exec ++ exec_env df ++ wrapper i a ++ skipn (List.length lit_exec + List.length (valid_cmd i a)) line) by congruence.
      rewrite !ok_app, (ok_exec_env df Hd), Hw, (ok_skipn _ line Hl). reflexivity.
    + apply (IH b); [intros x Hx; apply Ha; right; exact Hx | exact H].
Qed.

Lemma ok_process_line i df line b :
  info_ok i = true -> bytes_ok df = true -> bytes_ok line = true -> process_line i df line = Some b -> bytes_ok b = true.
Proof.
  intros Hi Hd Hl. destruct (info_ok_parts i Hi) as (_ & _ & Hs & Hk & Happs).
  assert (Icon : forall l1 b1, bytes_ok l1 = true -> rewrite_icon i l1 = Some b1 -> bytes_ok b1 = true).
  { intros l1 b1 H1. unfold rewrite_icon.
    destruct (existsb (N.eqb 47) (after_eq l1)).
    - destruct (negb (has_prefix lit_snapdir (after_eq l1))); [discriminate |].
      destruct (negb (clean_same (after_eq l1))); [discriminate |]. intros H. injection H as <-. exact H1.
    - destruct (has_prefix (lit_snapdot ++ d_snap i ++ [46]) (after_eq l1)).
      + intros H.
        replace b1 with (lit_icon ++ lit_snapdot ++ instance_name (d_snap i) (d_key i) ++ [46] ++
                         skipn (List.length (lit_snapdot ++ d_snap i ++ [46])) (after_eq l1)) by congruence.
        rewrite !ok_app, (ok_instance _ _ Hs Hk), (ok_skipn _ _ (ok_after_eq l1 H1)). reflexivity.
      + destruct (has_prefix lit_snapdot (after_eq l1)); [discriminate |]. intros H. injection H as <-. exact H1. }
  unfold process_line. destruct (negb (valid_line line)); [discriminate |].
  destruct (has_prefix lit_exec line).
  - unfold rewrite_exec.
    destruct (exec_loop i df line (after_eq line) (d_apps i)) as [l1 |] eqn:E.
    + pose proof (ok_exec_loop i df line _ Hi Hd Hl _ _ Happs E) as H1.
      destruct (has_prefix lit_icon l1); [apply Icon; exact H1 | intros H; injection H as <-; exact H1].
    + destruct (existsb (beq (trim_ext (base df))) (d_apps i)) eqn:Ex; [| discriminate].
      apply existsb_exists in Ex as (a & Hin & Hbeq). apply beq_eq in Hbeq. rewrite Hbeq.
      assert (H1 : bytes_ok (lit_exec ++ exec_env df ++ wrapper i a) = true).
      { rewrite !ok_app, (ok_exec_env df Hd), (ok_wrapper i a Hi (Happs a Hin)). reflexivity. }
      destruct (has_prefix lit_icon (lit_exec ++ exec_env df ++ wrapper i a)); [apply Icon; exact H1 | intros H; injection H as <-; exact H1].
  - destruct (has_prefix lit_icon line); [apply Icon; exact Hl | intros H; injection H as <-; exact Hl].
Qed.

(* every line of the sanitized file is accepted by the allowlist expression, or is the inserted instance line *)
Theorem output_lines_allowlisted i df lines l :
  info_ok i = true -> bytes_ok df = true -> Forall (fun x => bytes_ok x = true) lines ->
  In l (sanitize_lines i df lines) -> valid_line l = true \/ l = xsnap_line i.
Proof.
  intros Hi Hd Hls Hin. destruct (info_ok_parts i Hi) as (Hm & _).
  apply output_lines in Hin as [-> | (line & b & Hline & Hp & -> & Hv & Hc)]; [right; reflexivity | left].
  rewrite Forall_forall in Hls. pose proof (Hls line Hline) as Hl.
  pose proof (ok_process_line i df line b Hi Hd Hl Hp) as Hb.
  assert (Hsb : bytes_ok (subst_snap (d_mount i) b) = true) by (apply replace_all_bytes_ok; assumption).
  destruct Hc as [[-> _] | [[_ (ap0 & rest & _ & -> & _)] | (_ & _ & Hic)]].
  - apply valid_line_subst; assumption.
  - rewrite (subst_prefix (d_mount i) lit_exec _ eq_refl) in *. apply key_prefix_valid; [vm_compute; reflexivity |].
    rewrite ok_app in Hsb. apply andb_true_iff in Hsb as [_ Hsb]. exact Hsb.
  - apply has_prefix_spec in Hic. rewrite Hic in *.
    rewrite (subst_prefix (d_mount i) lit_icon _ eq_refl) in *. apply key_prefix_valid; [vm_compute; reflexivity |].
    rewrite ok_app in Hsb. apply andb_true_iff in Hsb as [_ Hsb]. exact Hsb.
Qed.

(* the allowlist in the source is the pinned specification list (re-checked against the regenerated list on every run) *)
Lemma allowlist_pinned : valid_line_alts = spec_line_alts.
Proof. reflexivity. Qed.
