(* C27 — proofs about the sanitizer model (models/Desktop.v), for every input file (induction on the line list) *)
From Coq Require Import List NArith Bool Arith Lia String.
Import ListNotations.
Require Import V.lib.Bytes V.lib.Regex V.gen.DesktopRegexes V.models.Desktop.
Open Scope string_scope. Open Scope list_scope. Open Scope N_scope.

(* ------------------------------------------------------------------------------------------ byte-string lemmas *)
Lemma beq_refl a : beq a a = true.
Proof. induction a as [|x a IH]; cbn; [reflexivity | rewrite N.eqb_refl, IH; reflexivity]. Qed.

Lemma beq_eq a : forall b, beq a b = true -> a = b.
Proof.
  induction a as [|x a IH]; intros [|y b]; cbn; try discriminate; [reflexivity |].
  intros H. apply andb_true_iff in H as [H1 H2]. apply N.eqb_eq in H1. subst. f_equal. auto.
Qed.

Lemma has_prefix_spec p : forall s, has_prefix p s = true -> s = p ++ skipn (List.length p) s.
Proof.
  induction p as [|x p IH]; intros s H; [reflexivity |].
  destruct s as [|y s]; [discriminate |]. cbn in H. apply andb_true_iff in H as [H1 H2].
  apply N.eqb_eq in H1. subst. cbn. f_equal. auto.
Qed.

Lemma has_prefix_app p s : has_prefix p (p ++ s) = true.
Proof. induction p as [|x p IH]; cbn; [reflexivity | rewrite N.eqb_refl, IH; reflexivity]. Qed.

Lemma skipn_app_exact {A} (a b : list A) : skipn (List.length a) (a ++ b) = b.
Proof. induction a; cbn; auto. Qed.

Lemma after_eq_exec x : after_eq (lit_exec ++ x) = x.
Proof. reflexivity. Qed.

(* ------------------------------------------------------------------------------------------ rewriteExecLine *)
Definition exec_form (i : dinfo) (df b : bytes) : Prop :=
  exists app rest, In app (d_apps i) /\ b = lit_exec ++ exec_env df ++ wrapper i app ++ rest /\
                   (rest = [] \/ exists r', rest = 32 :: r').

Lemma exec_loop_form i df cmd : forall apps b,
  exec_loop i df (lit_exec ++ cmd) cmd apps = Some b ->
  exists app rest, In app apps /\ b = lit_exec ++ exec_env df ++ wrapper i app ++ rest /\
                   (rest = [] \/ exists r', rest = 32 :: r').
Proof.
  induction apps as [|ap apps IH]; intros b H; [discriminate |].
  cbn [exec_loop] in H.
  destruct (beq cmd (valid_cmd i ap)) eqn:E1.
  - injection H as <-. exists ap, []. rewrite app_nil_r. split; [left; reflexivity | split; [reflexivity | left; reflexivity]].
  - destruct (has_prefix (valid_cmd i ap ++ [32]) cmd) eqn:E2.
    + injection H as <-. exists ap. eexists. split; [left; reflexivity |]. split; [reflexivity |].
      right. apply has_prefix_spec in E2. rewrite app_length in E2. cbn [List.length] in E2.
      change (List.length lit_exec + List.length (valid_cmd i ap))%nat with (5 + List.length (valid_cmd i ap))%nat.
      cbn [lit_exec app Nat.add skipn].
      remember (skipn (List.length (valid_cmd i ap) + 1) cmd) as tl eqn:Etl. clear Etl.
      rewrite E2. rewrite <- app_assoc. rewrite skipn_app_exact. cbn [app]. eexists. reflexivity.
    + destruct (IH b H) as (a & rest & Hin & Hb & Hr). exists a, rest. split; [right; assumption | auto].
Qed.

Lemma rewrite_exec_form i df line b :
  has_prefix lit_exec line = true -> rewrite_exec i df line = Some b -> exec_form i df b.
Proof.
  intros Hp H. apply has_prefix_spec in Hp. set (cmd := skipn (List.length lit_exec) line) in *.
  unfold rewrite_exec in H. rewrite Hp in H. rewrite after_eq_exec in H.
  destruct (exec_loop i df (lit_exec ++ cmd) cmd (d_apps i)) as [l |] eqn:E.
  - injection H as <-. apply exec_loop_form in E. exact E.
  - destruct (existsb (beq (trim_ext (base df))) (d_apps i)) eqn:Ex; [| discriminate].
    injection H as <-. apply existsb_exists in Ex as (a & Hin & Ha). apply beq_eq in Ha. rewrite Ha.
    exists a, []. rewrite app_nil_r. split; [assumption | split; [reflexivity | left; reflexivity]].
Qed.

(* ------------------------------------------------------------------------------------------ rewriteIconLine *)
Lemma rewrite_icon_class i line b :
  rewrite_icon i line = Some b ->
  (b = line /\ (existsb (N.eqb 47) (after_eq line) = true ->
                has_prefix lit_snapdir (after_eq line) = true /\ clean_same (after_eq line) = true)) \/
  (existsb (N.eqb 47) (after_eq line) = false /\ has_prefix lit_icon b = true).
Proof.
  unfold rewrite_icon. destruct (existsb (N.eqb 47) (after_eq line)) eqn:Es.
  - destruct (has_prefix lit_snapdir (after_eq line)); cbn [negb]; [| discriminate].
    destruct (clean_same (after_eq line)); cbn [negb]; [| discriminate].
    intros H. injection H as <-. left. auto.
  - destruct (has_prefix (lit_snapdot ++ d_snap i ++ [46]) (after_eq line)).
    + intros H. injection H as <-. right. split; [reflexivity | first [reflexivity | apply has_prefix_app]].
    + destruct (has_prefix lit_snapdot (after_eq line)); [discriminate |].
      intros H. injection H as <-. left. split; [reflexivity | discriminate].
Qed.

(* ------------------------------------------------------------------------------------------ one line *)
Lemma exec_not_icon x : has_prefix lit_icon (lit_exec ++ x) = false.
Proof. reflexivity. Qed.
Lemma icon_not_exec x : has_prefix lit_exec (lit_icon ++ x) = false.
Proof. reflexivity. Qed.

(* what survives the loop body (before the ${SNAP} substitution): an allowlisted input line kept as it is, or a
   rewritten Exec= line of the fixed form, or a rewritten Icon= line *)
Lemma process_line_class i df line b :
  process_line i df line = Some b ->
  valid_line line = true /\
  ((b = line /\ has_prefix lit_exec line = false) \/
   (has_prefix lit_exec line = true /\ exec_form i df b) \/
   (has_prefix lit_exec line = false /\ has_prefix lit_icon line = true /\ has_prefix lit_icon b = true)).
Proof.
  unfold process_line. destruct (valid_line line); cbn [negb]; [| discriminate].
  intros H. split; [reflexivity |].
  destruct (has_prefix lit_exec line) eqn:Ee.
  - destruct (rewrite_exec i df line) as [l1 |] eqn:Er; [| discriminate].
    pose proof (rewrite_exec_form i df line l1 Ee Er) as F.
    destruct F as (app & rest & Hin & Hl & Hr). subst l1. rewrite exec_not_icon in H. injection H as <-.
    right. left. split; [reflexivity |]. exists app, rest. auto.
  - destruct (has_prefix lit_icon line) eqn:Ei.
    + apply rewrite_icon_class in H as [[-> _] | [_ H]].
      * right. right. auto.
      * right. right. auto.
    + injection H as <-. left. auto.
Qed.

(* an Exec= line in the output of the loop body always has the fixed form *)
Lemma process_line_exec i df line b :
  process_line i df line = Some b -> has_prefix lit_exec b = true -> exec_form i df b.
Proof.
  intros H Hb. apply process_line_class in H as [_ [[-> He] | [[_ F] | (_ & _ & Hi)]]].
  - congruence.
  - exact F.
  - apply has_prefix_spec in Hi. rewrite Hi in Hb. rewrite icon_not_exec in Hb. discriminate.
Qed.

(* an Icon= line with a path survives only when the path is ${SNAP}/... without empty, . or .. segments *)
Lemma process_line_icon i df line b :
  process_line i df line = Some b -> has_prefix lit_icon line = true ->
  existsb (N.eqb 47) (after_eq line) = true ->
  b = line /\ has_prefix lit_snapdir (after_eq line) = true /\ clean_same (after_eq line) = true.
Proof.
  unfold process_line. destruct (valid_line line); cbn [negb]; [| discriminate].
  intros H Hi Hs.
  assert (He : has_prefix lit_exec line = false).
  { apply has_prefix_spec in Hi. rewrite Hi. apply icon_not_exec. }
  rewrite He, Hi in H. apply rewrite_icon_class in H as [[-> Hc] | [Hn _]]; [| congruence].
  split; [reflexivity | auto].
Qed.

(* ------------------------------------------------------------------------------------------ the whole file *)
Theorem output_lines i df lines l :
  In l (sanitize_lines i df lines) ->
  l = xsnap_line i \/
  exists line b, In line lines /\ process_line i df line = Some b /\ l = subst_snap (d_mount i) b /\
    valid_line line = true /\
    ((b = line /\ has_prefix lit_exec line = false) \/
     (has_prefix lit_exec line = true /\ exec_form i df b) \/
     (has_prefix lit_exec line = false /\ has_prefix lit_icon line = true /\ has_prefix lit_icon b = true)).
Proof.
  unfold sanitize_lines. intros H. apply in_flat_map in H as (line & Hin & Hl).
  unfold emit in Hl. destruct (process_line i df line) as [b |] eqn:Ep; [| contradiction].
  pose proof (process_line_class i df line b Ep) as [Hv Hc].
  assert (G : l = subst_snap (d_mount i) b \/ l = xsnap_line i).
  { destruct (beq (subst_snap (d_mount i) b) lit_desktop_entry); cbn in Hl; intuition auto. }
  destruct G as [-> | ->]; [right | left; reflexivity].
  exists line, b. auto.
Qed.

Lemma xsnap_not_entry i : beq (xsnap_line i) lit_desktop_entry = false.
Proof. reflexivity. Qed.

Theorem tagged i df lines : tagged_ok i (sanitize_lines i df lines) = true.
Proof.
  unfold sanitize_lines. induction lines as [|line lines IH]; [reflexivity |].
  cbn [flat_map]. unfold emit at 1. destruct (process_line i df line) as [b |]; [| exact IH].
  destruct (beq (subst_snap (d_mount i) b) lit_desktop_entry) eqn:E.
  - cbn [app tagged_ok]. rewrite E, beq_refl, xsnap_not_entry. cbn [andb]. exact IH.
  - cbn [app tagged_ok]. rewrite E. cbn [andb]. exact IH.
Qed.

(* ------------------------------------------------------------------------------------------ launching *)
Definition no_space (c : N) : bool := negb (c =? 32).
Definition plain (c : N) : bool := negb (c =? 32) && negb (c =? 61) && negb (c =? 36).   (* no space, =, $ *)

Lemma split_all_sep a : forall b, forallb no_space a = true -> split_all 32 (a ++ 32 :: b) = a :: split_all 32 b.
Proof.
  induction a as [|x a IH]; intros b H; [reflexivity |].
  cbn in H. apply andb_true_iff in H as [Hx Ha]. unfold no_space in Hx. apply negb_true_iff in Hx.
  cbn [app split_all]. rewrite Hx, (IH b Ha). reflexivity.
Qed.

Lemma split_all_nosep a : forallb no_space a = true -> split_all 32 a = [a].
Proof.
  induction a as [|x a IH]; intros H; [reflexivity |].
  cbn in H. apply andb_true_iff in H as [Hx Ha]. unfold no_space in Hx. apply negb_true_iff in Hx.
  cbn [split_all]. rewrite Hx, (IH Ha). reflexivity.
Qed.

Definition lit_hint : bytes := [66;65;77;70;95;68;69;83;75;84;79;80;95;70;73;76;69;95;72;73;78;84;61].  (* BAMF_DESKTOP_FILE_HINT= *)
Lemma lit_env_split : lit_env = [101;110;118] ++ 32 :: lit_hint.
Proof. reflexivity. Qed.

Lemma existsb_false_of_forallb (p q : N -> bool) l :
  (forall c, q c = true -> p c = false) -> forallb q l = true -> existsb p l = false.
Proof.
  intros Hpq. induction l as [|c l IH]; cbn; [reflexivity |]. intros H. apply andb_true_iff in H as [Hc Hl].
  rewrite (Hpq c Hc), (IH Hl). reflexivity.
Qed.

Lemma forallb_impl' (f g : N -> bool) l : (forall x, f x = true -> g x = true) -> forallb f l = true -> forallb g l = true.
Proof.
  intros H. induction l; cbn; [reflexivity |]. intros H1. apply andb_true_iff in H1 as [Ha Hl].
  rewrite (H _ Ha), (IHl Hl). reflexivity.
Qed.

Lemma plain_no_space c : plain c = true -> no_space c = true.
Proof. unfold plain, no_space. intros H. apply andb_true_iff in H as [H _]. apply andb_true_iff in H as [H _]. exact H. Qed.
Lemma plain_not_eq c : plain c = true -> (61 =? c) = false.
Proof.
  unfold plain. intros H. apply andb_true_iff in H as [H _]. apply andb_true_iff in H as [_ H].
  apply negb_true_iff in H. rewrite N.eqb_sym. exact H.
Qed.

(* as launched: with no space in the installed file name, the word after env's assignment is the wrapper *)
Lemma words_exec df w rest :
  forallb no_space df = true -> forallb no_space w = true ->
  (rest = [] \/ exists r', rest = 32 :: r') ->
  exists tl, split_all 32 (exec_env df ++ w ++ rest) = [101;110;118] :: (lit_hint ++ df) :: w :: tl.
Proof.
  intros Hdf Hw' Hrest. unfold exec_env. rewrite lit_env_split.
  assert (E : (([101;110;118] ++ 32 :: lit_hint) ++ df ++ [32]) ++ w ++ rest =
              [101;110;118] ++ 32 :: ((lit_hint ++ df) ++ 32 :: (w ++ rest))).
  { repeat rewrite <- app_assoc. reflexivity. }
  rewrite E.
  assert (Hhd : forallb no_space (lit_hint ++ df) = true) by (rewrite forallb_app, Hdf; reflexivity).
  rewrite (split_all_sep [101;110;118] _ eq_refl). rewrite (split_all_sep (lit_hint ++ df) _ Hhd).
  destruct Hrest as [-> | (r' & ->)].
  - rewrite app_nil_r, (split_all_nosep w Hw'). eexists; reflexivity.
  - rewrite (split_all_sep w r' Hw'). eexists; reflexivity.
Qed.

Lemma hint_is_assignment df : is_assignment (lit_hint ++ df) = true.
Proof. unfold is_assignment. rewrite existsb_app. reflexivity. Qed.

Lemma launched_wrapper df w rest :
  forallb no_space df = true -> forallb plain w = true -> w <> [] ->
  (rest = [] \/ exists r', rest = 32 :: r') ->
  launched (lit_exec ++ exec_env df ++ w ++ rest) = Some w.
Proof.
  intros Hdf Hw Hne Hrest. unfold launched. rewrite after_eq_exec. unfold words.
  assert (Hw' : forallb no_space w = true) by (eapply forallb_impl'; [apply plain_no_space | exact Hw]).
  destruct (words_exec df w rest Hdf Hw' Hrest) as (tl & ->).
  destruct w as [|c w']; [congruence |].
  assert (Hna : is_assignment (c :: w') = false).
  { apply (existsb_false_of_forallb (N.eqb 61) plain); [apply plain_not_eq | exact Hw]. }
  cbn [filter]. change (negb (is_nil_b [101;110;118])) with true. cbv iota.
  change (negb (is_nil_b (lit_hint ++ df))) with true. cbv iota.
  change (negb (is_nil_b (c :: w'))) with true. cbv iota.
  rewrite beq_refl. cbn [env_program]. rewrite hint_is_assignment, Hna. reflexivity.
Qed.

(* the ${SNAP} substitution leaves a prefix without $ alone *)
Definition no_dollar (c : N) : bool := negb (c =? 36).

Lemma subst_prefix m a : forall s, forallb no_dollar a = true -> subst_snap m (a ++ s) = a ++ subst_snap m s.
Proof.
  unfold subst_snap. induction a as [|x a IH]; intros s H; [reflexivity |].
  cbn in H. apply andb_true_iff in H as [Hx Ha]. unfold no_dollar in Hx. apply negb_true_iff in Hx.
  cbn [app replace_all]. cbn [lit_snapvar has_prefix]. rewrite N.eqb_sym, Hx. cbn [andb]. rewrite (IH s Ha). reflexivity.
Qed.

Lemma subst_nil m : subst_snap m [] = [].
Proof. reflexivity. Qed.

Lemma subst_space m r : subst_snap m (32 :: r) = 32 :: subst_snap m r.
Proof. reflexivity. Qed.

Lemma plain_no_dollar c : plain c = true -> no_dollar c = true.
Proof. unfold plain, no_dollar. intros H. apply andb_true_iff in H as [_ H]. exact H. Qed.

(* the Exec= line as written to the installed file, and what it launches *)
Theorem exec_output_launches i df b :
  exec_form i df b ->
  forallb (fun c => no_space c && no_dollar c) df = true ->
  (forall app, In app (d_apps i) -> forallb plain (wrapper i app) = true) ->
  exists app rest', In app (d_apps i) /\
    subst_snap (d_mount i) b = lit_exec ++ exec_env df ++ wrapper i app ++ rest' /\
    (rest' = [] \/ exists r', rest' = 32 :: r') /\
    launched (subst_snap (d_mount i) b) = Some (wrapper i app).
Proof.
  intros (app & rest & Hin & -> & Hr) Hdf Hw. specialize (Hw app Hin).
  assert (Hdf1 : forallb no_space df = true) by (eapply forallb_impl'; [| exact Hdf]; intros x Hx; apply andb_true_iff in Hx as [Hx _]; exact Hx).
  assert (Hdf2 : forallb no_dollar df = true) by (eapply forallb_impl'; [| exact Hdf]; intros x Hx; apply andb_true_iff in Hx as [_ Hx]; exact Hx).
  assert (Hw2 : forallb no_dollar (wrapper i app) = true) by (eapply forallb_impl'; [apply plain_no_dollar | exact Hw]).
  assert (Hpre : forallb no_dollar (lit_exec ++ exec_env df ++ wrapper i app) = true).
  { unfold exec_env. rewrite !forallb_app, Hdf2, Hw2. reflexivity. }
  assert (Es : subst_snap (d_mount i) (lit_exec ++ exec_env df ++ wrapper i app ++ rest) =
               lit_exec ++ exec_env df ++ wrapper i app ++ subst_snap (d_mount i) rest).
  { replace (lit_exec ++ exec_env df ++ wrapper i app ++ rest) with ((lit_exec ++ exec_env df ++ wrapper i app) ++ rest)
      by (rewrite <- !app_assoc; reflexivity).
    rewrite (subst_prefix _ _ _ Hpre). rewrite <- !app_assoc. reflexivity. }
  assert (Hr' : subst_snap (d_mount i) rest = [] \/ exists r', subst_snap (d_mount i) rest = 32 :: r').
  { destruct Hr as [-> | (r' & ->)]; [left; reflexivity | right; rewrite subst_space; eexists; reflexivity]. }
  exists app, (subst_snap (d_mount i) rest). split; [assumption |]. split; [exact Es |]. split; [exact Hr' |].
  rewrite Es. apply launched_wrapper; try assumption.
  unfold wrapper. destruct (d_bindir i); discriminate.
Qed.

(* finding: a desktop file whose NAME contains spaces makes env run something else *)
Definition bad_info : dinfo := mkInfo (bs "foo") [] [bs "app"] (bs "/snap/bin") (bs "/snap/foo/7").
Definition bad_df : bytes := bs "/var/lib/snapd/desktop/applications/foo_a sh -c id x.desktop".
Definition bad_content : bytes := bs "Exec=foo.app %U".

Lemma exec_filename_refuted_witness :
  sanitize_lines bad_info bad_df [bad_content] =
    [bs "Exec=env BAMF_DESKTOP_FILE_HINT=/var/lib/snapd/desktop/applications/foo_a sh -c id x.desktop /snap/bin/foo.app %U"] /\
  launched (bs "Exec=env BAMF_DESKTOP_FILE_HINT=/var/lib/snapd/desktop/applications/foo_a sh -c id x.desktop /snap/bin/foo.app %U")
    = Some (bs "sh").
Proof. vm_compute. split; reflexivity. Qed.

Theorem exec_filename_refuted :
  exists i df line l, In l (sanitize_lines i df [line]) /\ has_prefix lit_exec l = true /\
    (forall app, In app (d_apps i) -> forallb plain (wrapper i app) = true) /\
    forall app, In app (d_apps i) -> launched l <> Some (wrapper i app).
Proof.
  exists bad_info, bad_df, bad_content. eexists. destruct exec_filename_refuted_witness as [E L].
  rewrite E. split; [left; reflexivity |]. split; [reflexivity |]. split.
  - intros app [<- | []]. reflexivity.
  - intros app [<- | []]. rewrite L. vm_compute. discriminate.
Qed.

(* non-vacuity of the guarded statement *)
Lemma exec_ok_example :
  sanitize bad_info (bs "/var/lib/snapd/desktop/applications/foo_app.desktop")
           (bs "[Desktop Entry]" ++ [10] ++ bs "TryExec=/bin/sh" ++ [10] ++ bs "Exec=foo.app %U" ++ [10] ++ bs "Icon=${SNAP}/meta/gui/icon.png" ++ [10]) =
  bs "[Desktop Entry]" ++ [10] ++ bs "X-SnapInstanceName=foo" ++ [10] ++
  bs "Exec=env BAMF_DESKTOP_FILE_HINT=/var/lib/snapd/desktop/applications/foo_app.desktop /snap/bin/foo.app %U" ++ [10] ++
  bs "Icon=/snap/foo/7/meta/gui/icon.png" ++ [10].
Proof. vm_compute. reflexivity. Qed.

(* the allowlist in the source is the pinned specification list (re-checked against the regenerated list on every run) *)
Lemma allowlist_pinned : valid_line_alts = spec_line_alts.
Proof. reflexivity. Qed.
