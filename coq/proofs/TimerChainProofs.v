(* C16 — the chain from the user's timer string to the window guarantee, and the known findings at string level *)
From Coq Require Import List NArith ZArith Bool String.
Import ListNotations.
Require Import V.lib.Bytes V.lib.Civil V.models.Timer V.models.TimerText.
Require Import V.proofs.TimerProofs V.proofs.TimerTextProofs V.proofs.TimerFuelProofs.
Open Scope Z_scope.

(* what is guaranteed for one schedule at one (last, now) *)
Definition window_guarantee (s : schedule) (last now : Z) : Prop :=
  exists w k cs, sched_next (next_fuel last now) s last now = Some w /\
    0 <= k < Z.of_nat (next_fuel last now) /\ In cs (flattened s) /\
    let D := last / 86400 + k in
    w = window_of cs D /\ week_ok s D = true /\ now <= w_end w /\ (last < w_start w \/ w_end w < last) /\
    (forall cs', In cs' (flattened s) -> now <= w_end (window_of cs' D) ->
                 (last < w_start (window_of cs' D) \/ w_end (window_of cs' D) < last) ->
                 w_start w <= w_start (window_of cs' D)) /\
    (* and Includes accepts the window on its own day, unless the span starts at 24:00 *)
    (clock_in_day (cs_start cs) ->
     forall t, w_start w <= t -> (t < w_end w \/ (w_end w = w_start w /\ t < w_start w + 60)) -> t / 86400 = D ->
               sched_includes s t = true).

Lemma wf_window_guarantee : forall s last now, sched_wf s = true -> window_guarantee s last now.
Proof.
  intros s last now W. destruct (next_in_window_total s last now W) as (w & k & cs & Hw & Hk & Hin & H).
  cbv zeta in H. destruct H as (E & WK & N & L & M).
  exists w, k, cs. split; [exact Hw|]. split; [exact Hk|]. split; [exact Hin|]. cbv zeta.
  split; [exact E|]. split; [exact WK|]. split; [exact N|]. split; [exact L|]. split; [exact M|].
  intros C t H1 H2 H3. subst w. apply (window_included s cs _ t Hin WK C H1 H2 H3).
Qed.

(* (ii) from the string: every timer text the parser accepts yields schedules that are well formed, for which the day
   search terminates and the returned window is a window of the schedule, for every last and now *)
Theorem string_to_window : forall (text : bytes) (l : list schedule),
  parse_schedule text = Some l ->
  l <> [] /\ Forall (fun s => sched_wf s = true /\ forall last now, window_guarantee s last now) l.
Proof.
  intros text l H. destruct (parse_accepts_only_wf text l H) as [N F]. split; [exact N|].
  eapply Forall_impl; [|exact F]. intros s Hs. pose proof (sched_ok_wf s Hs) as W.
  split; [exact W|]. intros last now. apply wf_window_guarantee; exact W.
Qed.

(* (iii) the recorded findings, from the string *)
Lemma string_start_2400 :
  parse_schedule (bs "mon,24:00") = Some [ex_mon_2400] /\
  exists w, sched_next (next_fuel ex_last (ex_last + 60)) ex_mon_2400 ex_last (ex_last + 60) = Some w /\
            sched_includes ex_mon_2400 (w_start w) = false.
Proof. split; [vm_compute; reflexivity|]. exists (mkWin 1722902400 1722902400 false). split; vm_compute; reflexivity. Qed.

Lemma string_start_2400_tail :
  parse_schedule (bs "0:00,24:00-7:30") = Some [ex_2400_tail] /\
  exists w, sched_next (next_fuel ex_last (ex_last + 60)) ex_2400_tail ex_last (ex_last + 60) = Some w /\
            sched_includes ex_2400_tail (w_start w) = true /\ sched_includes ex_2400_tail (w_end w - 60) = false.
Proof. split; [vm_compute; reflexivity|]. exists (mkWin 1722902400 1722929400 false). split; [|split]; vm_compute; reflexivity. Qed.

Lemma string_midnight_tail :
  parse_schedule (bs "23:00-01:00") = Some [ex_night] /\
  exists w t, sched_next (next_fuel ex_last (ex_last + 60)) ex_night ex_last (ex_last + 60) = Some w /\
              w_start w <= t < w_end w /\ sched_includes ex_night t = false.
Proof.
  split; [vm_compute; reflexivity|]. exists (mkWin 1722898800 1722906000 false), 1722905940.
  split; [vm_compute; reflexivity|]. split; [cbn [w_start w_end]; split; [discriminate | reflexivity] | vm_compute; reflexivity].
Qed.

(* observations about what the parser accepts / rejects (each also sent to the real parser by the text driver) *)
Lemma parser_observations :
  (* the whole-day tokens `-` and `~` that parseClockSpan documents can never be reached: a fragment without `:` is
     taken for a week span *)
  parse_schedule (bs "-") = None /\ parse_schedule (bs "~") = None /\ parse_schedule (bs "mon,-") = None /\
  parse_schedule (bs "~/2") = None /\
  (* numbered both ends: accepted, silently degraded to the start anchor *)
  option_map (map fmt_sched) (parse_schedule (bs "mon1-tue2")) = Some [bs "mon1-tue"] /\
  (* spread / split of a zero-length span are accepted and dropped by String *)
  option_map (map fmt_sched) (parse_schedule (bs "9:00~9:00/3")) = Some [bs "09:00"] /\
  (* any count below 2^32 is accepted, also one that makes sub-minute (here 20 ns) sub-spans *)
  (exists l, parse_schedule (bs "0:00-24:00/4294967295") = Some l) /\ parse_schedule (bs "0:00-24:00/4294967296") = None /\
  (* leading zeros of the count are accepted and not printed back *)
  option_map (map fmt_sched) (parse_schedule (bs "9:00-10:00/007")) = Some [bs "09:00-10:00/7"].
Proof. repeat split; try (vm_compute; reflexivity). eexists. vm_compute. reflexivity. Qed.
