(* C18 — proofs about the assertion check model (models/AssertCheck.v). *)
From Coq Require Import List NArith ZArith Bool Lia String.
Import ListNotations.
Require Import V.lib.Bytes V.models.AssertCheck.
Open Scope Z_scope.

Lemma beq_eq : forall a b : bytes, beq a b = true -> a = b.
Proof.
  induction a as [|x a IH]; intros [|y b] H; cbn in H; try discriminate; [reflexivity|].
  apply andb_prop in H as [H1 H2]. apply N.eqb_eq in H1. subst y. f_equal. apply IH, H2.
Qed.

Lemma beq_refl : forall a : bytes, beq a a = true.
Proof. induction a as [|x a IH]; cbn; [reflexivity|]. rewrite N.eqb_refl. exact IH. Qed.

Lemma beq_neq : forall a b : bytes, a <> b -> beq a b = false.
Proof. intros a b H. destruct (beq a b) eqn:E; [apply beq_eq in E; contradiction | reflexivity]. Qed.

(* ------------------------------------------------------------------ key lookup *)
(* the key found has the id asked for and sits in a layer before which no layer holds that id *)
Lemma find_key_spec : forall layers kid k, find_key layers kid = Some k ->
  k_id k = kid /\ exists before l after, layers = before ++ l :: after /\ In k l /\
    forall l', In l' before -> find (has_id kid) l' = None.
Proof.
  induction layers as [|l rest IH]; intros kid k H; cbn in H; [discriminate|].
  destruct (find (has_id kid) l) as [k'|] eqn:E.
  - injection H as <-. apply find_some in E as [Hin Hid]. split; [apply beq_eq, Hid|].
    exists [], l, rest. repeat split; [exact Hin | intros l' []].
  - destruct (IH _ _ H) as (Hid & before & l0 & after & -> & Hin & Hnone). split; [exact Hid|].
    exists (l :: before), l0, after. repeat split; [exact Hin|].
    intros l' [<-|Hl']; [exact E | apply Hnone, Hl'].
Qed.

(* the FIRST layer that holds the key id decides: whatever the later layers contain (an older or newer revision of the
   same account-key, a key of another account with the same id, nothing) the same key is used *)
Lemma first_layer_decides : forall before l after after' kid k,
  (forall l', In l' before -> find (has_id kid) l' = None) -> find (has_id kid) l = Some k ->
  find_key (before ++ l :: after) kid = Some k /\ find_key (before ++ l :: after') kid = Some k.
Proof.
  induction before as [|b before IH]; intros l after after' kid k Hnone Hl; cbn.
  - rewrite Hl. split; reflexivity.
  - rewrite (Hnone b (or_introl eq_refl)). apply IH; [|exact Hl]. intros l' Hl'. apply Hnone. right. exact Hl'.
Qed.

(* a trusted key with the id shadows every other layer *)
Lemma trusted_first : forall tr rest rest' kid k, find (has_id kid) tr = Some k ->
  find_key (tr :: rest) kid = Some k /\ find_key (tr :: rest') kid = Some k.
Proof. intros tr rest rest' kid k H. apply (first_layer_decides [] tr rest rest' kid k); [intros l' [] | exact H]. Qed.

(* ------------------------------------------------------------------ validity window *)
Lemma valid_at_iff : forall k t, valid_at k t = true <-> k_since k <= t /\ match k_until k with Some u => t < u | None => True end.
Proof.
  intros k t. unfold valid_at. rewrite andb_true_iff, Z.leb_le.
  destruct (k_until k); [rewrite Z.ltb_lt|]; intuition.
Qed.

(* with the real clock (earliest = latest = now) the expiry check is exactly validity at now *)
Lemma valid_assuming_now : forall k now, valid_assuming k now (Some now) = valid_at k now.
Proof.
  intros k now. unfold valid_assuming, valid_at. rewrite Z.ltb_irrefl. cbn [negb andb].
  destruct (k_until k) as [u|].
  - destruct (now <? k_since k) eqn:E1, (k_since k <=? now) eqn:E2, (u <=? now) eqn:E3, (now <? u) eqn:E4; cbn; try reflexivity; lia.
  - destruct (now <? k_since k) eqn:E1, (k_since k <=? now) eqn:E2; cbn; try reflexivity; lia.
Qed.

(* with only a lower bound on the clock, exactly the keys whose until is not after it are refused *)
Lemma valid_assuming_earliest : forall k e, valid_assuming k e None = true <-> match k_until k with Some u => e < u | None => True end.
Proof.
  intros k e. unfold valid_assuming. cbn [andb]. destruct (k_until k) as [u|]; [|tauto].
  rewrite negb_true_iff, Z.leb_gt. tauto.
Qed.

Lemma window_boundaries : forall k u, k_until k = Some u -> k_since k < u ->
  valid_at k (k_since k) = true /\ valid_at k (k_since k - 1) = false /\
  valid_at k (u - 1) = true /\ valid_at k u = false.
Proof.
  intros k u Hu Hlt. unfold valid_at. rewrite Hu.
  repeat split.
  - apply andb_true_intro; split; [apply Z.leb_le; lia | apply Z.ltb_lt; lia].
  - apply andb_false_intro1. apply Z.leb_gt. lia.
  - apply andb_true_intro; split; [apply Z.leb_le; lia | apply Z.ltb_lt; lia].
  - apply andb_false_intro2. apply Z.ltb_ge. lia.
Qed.

Lemma no_until_never_expires : forall k t, k_until k = None -> k_since k <= t -> valid_at k t = true.
Proof. intros k t Hu H. unfold valid_at. rewrite Hu. rewrite andb_true_r. apply Z.leb_le, H. Qed.

(* ------------------------------------------------------------------ constraints *)
Lemma assoc_in : forall k m v, assoc k m = Some v -> exists k', k' = k /\ In (k', v) m.
Proof.
  intros k m v. induction m as [|[k' v'] m IH]; cbn; [discriminate|].
  destruct (beq k k') eqn:E.
  - intros [= ->]. apply beq_eq in E. subst k'. exists k. split; [reflexivity | left; reflexivity].
  - intro H. destruct (IH H) as (k'' & He & Hin). exists k''. split; [exact He | right; exact Hin].
Qed.

Lemma can_sign_spec : forall k a, can_sign k a = true ->
  k_constraints k = None \/
  exists cs c, k_constraints k = Some cs /\ In c cs /\ forall h v, In (h, v) c -> assoc h (a_headers a) = Some v.
Proof.
  intros k a H. unfold can_sign, compile_constraints in H. destruct (k_constraints k) as [cs|] eqn:E; [|left; reflexivity].
  right. apply existsb_exists in H as (c & Hin & Hc). exists cs, c. split; [reflexivity|]. split; [exact Hin|].
  intros h v Hhv. unfold constraint_ok in Hc. rewrite forallb_forall in Hc. specialize (Hc _ Hhv). cbn in Hc.
  destruct (assoc h (a_headers a)) as [x|]; [|discriminate]. apply beq_eq in Hc. subst x. reflexivity.
Qed.

(* a key WITH a constraints header signs only what one of the LISTED constraints matches: that constraint's type is the
   assertion's own type and all its header pairs hold - for every constraints list, whatever types it names (an entry
   for a type this snapd does not know matches no assertion it can hold, and is never dropped) *)
Lemma constrained_key_needs_listed_type : forall k a cs, k_constraints k = Some cs -> can_sign k a = true ->
  exists c, In c cs /\ (forall h v, In (h, v) c -> assoc h (a_headers a) = Some v) /\
            (forall t, assoc (bs "type"%string) c = Some t -> assoc (bs "type"%string) (a_headers a) = Some t).
Proof.
  intros k a cs Hk H. destruct (can_sign_spec k a H) as [E|(cs' & c & E & Hin & Hall)]; [congruence|].
  rewrite Hk in E. injection E as <-. exists c. split; [exact Hin|]. split; [exact Hall|].
  intros t Ht. apply assoc_in in Ht as (k' & -> & Hin'). apply Hall, Hin'.
Qed.

(* a constraints header with no usable entry lets the key sign nothing (it is NOT the unconstrained case) *)
Lemma empty_constraints_sign_nothing : forall k a, k_constraints k = Some [] -> can_sign k a = false.
Proof. intros k a H. unfold can_sign, compile_constraints. rewrite H. reflexivity. Qed.

(* entries whose type differs from the assertion's type contribute nothing *)
Lemma foreign_type_constraints_sign_nothing : forall k a cs t,
  k_constraints k = Some cs -> assoc (bs "type"%string) (a_headers a) = Some t ->
  (forall c, In c cs -> exists t', assoc (bs "type"%string) c = Some t' /\ t' <> t) -> can_sign k a = false.
Proof.
  intros k a cs t Hk Ht Hall. destruct (can_sign k a) eqn:E; [|reflexivity].
  destruct (constrained_key_needs_listed_type k a cs Hk E) as (c & Hin & _ & Hty).
  destruct (Hall c Hin) as (t' & Hc & Hne). specialize (Hty t' Hc). congruence.
Qed.

(* ------------------------------------------------------------------ acceptance *)
Section WithVerify.
  Variable verify : bytes -> bytes -> bytes -> bool.

  (* C18 main: whatever Check accepts is signed, as far as `verify` can tell, by a key found under the assertion's
     sign-key id (trusted first, then stored) that belongs to the declared authority, passes the expiry check for the
     clock bounds, is valid at the assertion's timestamp, and whose constraints admit the assertion; verify holds on
     exactly the assertion's content and signature *)
  Lemma accept_implies : forall layers e l a, check verify layers e l a = true ->
    a_supported a = true /\
    exists k, find_key layers (a_sign_key a) = Some k /\
      (exists before ly after, layers = before ++ ly :: after /\ In k ly /\
         forall l', In l' before -> find (has_id (a_sign_key a)) l' = None) /\
      k_id k = a_sign_key a /\ k_account k = a_authority a /\
      valid_assuming k e l = true /\
      (forall t, a_timestamp a = Some t -> valid_at k t = true) /\
      can_sign k a = true /\
      verify (k_id k) (a_content a) (a_sig_core a) = true.
  Proof.
    intros layers e l a H. unfold check in H. apply andb_prop in H as [Hs H]. split; [exact Hs|].
    destruct (find_key layers (a_sign_key a)) as [k|] eqn:Ek; [|discriminate].
    repeat (apply andb_prop in H as [H ?]).
    destruct (find_key_spec _ _ _ Ek) as [Hid Hin].
    exists k. repeat split; try assumption.
    - apply beq_eq, H.
    - intros t Ht. rewrite Ht in *. assumption.
  Qed.

  (* the same with the real clock: the key is valid NOW (since <= now < until) *)
  Lemma accept_now_implies : forall layers now a, check_now verify layers now a = true ->
    exists k, find_key layers (a_sign_key a) = Some k /\ k_account k = a_authority a /\
      k_since k <= now /\ (forall u, k_until k = Some u -> now < u) /\
      (forall t, a_timestamp a = Some t -> k_since k <= t /\ forall u, k_until k = Some u -> t < u) /\
      can_sign k a = true /\ verify (a_sign_key a) (a_content a) (a_sig_core a) = true.
  Proof.
    intros layers now a H. unfold check_now in H.
    destruct (accept_implies _ _ _ _ H) as (_ & k & Ek & _ & Hid & Hacc & Hv & Hts & Hcs & Hver).
    rewrite valid_assuming_now in Hv. apply valid_at_iff in Hv as [Hv1 Hv2].
    exists k. repeat split; try assumption.
    - intros u Hu. rewrite Hu in Hv2. exact Hv2.
    - apply Hts in H0. apply valid_at_iff in H0. tauto.
    - intros u Hu. apply Hts in H0. apply valid_at_iff in H0 as [_ H0]. rewrite Hu in H0. exact H0.
    - rewrite <- Hid. exact Hver.
  Qed.

  (* refusals, one per cause *)
  Lemma unknown_key_rejected : forall layers e l a, find_key layers (a_sign_key a) = None -> check verify layers e l a = false.
  Proof. intros. unfold check. rewrite H. apply andb_false_r. Qed.

  Lemma other_authority_rejected : forall layers e l a k, find_key layers (a_sign_key a) = Some k ->
    k_account k <> a_authority a -> check verify layers e l a = false.
  Proof. intros layers e l a k Hk Hne. unfold check. rewrite Hk, (beq_neq _ _ Hne). cbn. apply andb_false_r. Qed.

  Lemma expired_rejected : forall layers now a k u, find_key layers (a_sign_key a) = Some k ->
    k_until k = Some u -> u <= now -> check_now verify layers now a = false.
  Proof.
    intros layers now a k u Hk Hu Hle. unfold check_now, check. rewrite Hk, valid_assuming_now.
    assert (valid_at k now = false) as ->.
    { unfold valid_at. rewrite Hu. apply andb_false_intro2. apply Z.ltb_ge. lia. }
    rewrite andb_false_r. cbn. apply andb_false_r.
  Qed.

  Lemma not_yet_valid_rejected : forall layers now a k, find_key layers (a_sign_key a) = Some k ->
    now < k_since k -> check_now verify layers now a = false.
  Proof.
    intros layers now a k Hk Hlt. unfold check_now, check. rewrite Hk, valid_assuming_now.
    assert (valid_at k now = false) as ->.
    { unfold valid_at. apply andb_false_intro1. apply Z.leb_gt. lia. }
    rewrite andb_false_r. cbn. apply andb_false_r.
  Qed.

  (* Idealised signatures: only what a signer really produced verifies. G lists every (key id, content, signature)
     ever produced with the private keys. Then anything else is rejected: in particular any assertion obtained from a
     genuine one by changing its content or its decoded signature, unless the result is itself genuine. *)
  Lemma mutation_rejected_gen : forall (G : list (bytes * bytes * bytes)),
    (forall kid c s, verify kid c s = true -> In (kid, c, s) G) ->
    forall layers e l a, ~ In (a_sign_key a, a_content a, a_sig_core a) G -> check verify layers e l a = false.
  Proof.
    intros G HG layers e l a Hnot. destruct (check verify layers e l a) eqn:E; [|reflexivity].
    destruct (accept_implies _ _ _ _ E) as (_ & k & _ & _ & Hid & _ & _ & _ & _ & Hver).
    rewrite Hid in Hver. apply HG in Hver. contradiction.
  Qed.

  (* ... but the decoded signature itself is NOT pinned down: verification reads only the signature core, so two
     assertions that differ only in the unhashed subpacket area of the signature get the same verdict *)
  Lemma sig_outside_core_ignored : forall layers e l a s',
    check verify layers e l (mkA (a_supported a) (a_authority a) (a_sign_key a) (a_timestamp a) (a_headers a) (a_content a) s' (a_sig_core a))
    = check verify layers e l a.
  Proof. intros. reflexivity. Qed.

  (* a constrained / expired newer revision in an earlier layer cannot be bypassed through an older revision in a later
     layer: the verdict does not depend on anything after the first layer holding the key id *)
  Lemma later_layers_ignored : forall before ly after after' e l a k,
    (forall l', In l' before -> find (has_id (a_sign_key a)) l' = None) -> find (has_id (a_sign_key a)) ly = Some k ->
    check verify (before ++ ly :: after) e l a = check verify (before ++ ly :: after') e l a.
  Proof.
    intros before ly after after' e l a k Hnone Hl. unfold check.
    destruct (first_layer_decides before ly after after' _ k Hnone Hl) as [-> ->]. reflexivity.
  Qed.
End WithVerify.

(* the instance the correspondence uses satisfies the idealisation for the single genuine signature *)
Lemma ideal_verify_ideal : forall signed kid c s, ideal_verify signed kid c s = true -> In (kid, c, s) [signed].
Proof.
  intros [[k0 c0] s0] kid c s H. unfold ideal_verify in H. apply andb_prop in H as [H H3]. apply andb_prop in H as [H1 H2].
  apply beq_eq in H1, H2, H3. subst. left. reflexivity.
Qed.

Lemma ideal_verify_accepts_genuine : forall k c s, ideal_verify (k, c, s) k c s = true.
Proof. intros. unfold ideal_verify. rewrite !beq_refl. reflexivity. Qed.

(* ================================================================== full characterisations (any verify) *)
Section Characterisation.
  Variable verify : bytes -> bytes -> bytes -> bool.

  (* Database.Check accepts EXACTLY when: the format is supported; the first layer holding the sign-key id yields a key;
     that key's account is the assertion's authority; the key passes the expiry check for the clock bounds; its constraints
     allow the assertion; verify holds for that key on exactly the assertion's content and signature core; and the key is
     valid at the assertion's timestamp when it has one *)
  Lemma check_iff : forall layers e l a, check verify layers e l a = true <->
    a_supported a = true /\
    exists k, find_key layers (a_sign_key a) = Some k /\
      k_account k = a_authority a /\
      valid_assuming k e l = true /\
      can_sign k a = true /\
      verify (k_id k) (a_content a) (a_sig_core a) = true /\
      (forall t, a_timestamp a = Some t -> valid_at k t = true).
  Proof.
    intros layers e l a. split.
    - intro H. destruct (accept_implies verify _ _ _ _ H) as (Hs & k & Ek & _ & _ & Hacc & Hv & Hts & Hcs & Hver).
      split; [exact Hs|]. exists k. repeat split; assumption.
    - intros (Hs & k & Ek & Hacc & Hv & Hcs & Hver & Hts). unfold check. rewrite Hs, Ek, Hacc, beq_refl, Hv, Hcs, Hver.
      cbn [andb]. destruct (a_timestamp a) as [t|]; [apply Hts; reflexivity | reflexivity].
  Qed.

  (* the same with the system clock, the validity window spelled out: since <= now < until, since <= timestamp < until *)
  Lemma check_now_iff : forall layers now a, check_now verify layers now a = true <->
    a_supported a = true /\
    exists k, find_key layers (a_sign_key a) = Some k /\
      k_account k = a_authority a /\
      k_since k <= now /\ (forall u, k_until k = Some u -> now < u) /\
      can_sign k a = true /\
      verify (k_id k) (a_content a) (a_sig_core a) = true /\
      (forall t, a_timestamp a = Some t -> k_since k <= t /\ forall u, k_until k = Some u -> t < u).
  Proof.
    intros layers now a. unfold check_now. rewrite check_iff. split.
    - intros (Hs & k & Ek & Hacc & Hv & Hcs & Hver & Hts). split; [exact Hs|]. exists k.
      rewrite valid_assuming_now in Hv. apply valid_at_iff in Hv as [Hv1 Hv2].
      repeat split; try assumption.
      + intros u Hu. rewrite Hu in Hv2. exact Hv2.
      + apply Hts in H. apply valid_at_iff in H. tauto.
      + intros u Hu. apply Hts in H. apply valid_at_iff in H as [_ H]. rewrite Hu in H. exact H.
    - intros (Hs & k & Ek & Hacc & Hsince & Huntil & Hcs & Hver & Hts). split; [exact Hs|]. exists k.
      repeat split; try assumption.
      + rewrite valid_assuming_now. apply valid_at_iff. split; [exact Hsince|].
        destruct (k_until k) as [u|]; [apply Huntil; reflexivity | exact I].
      + intros t Ht. apply valid_at_iff. destruct (Hts t Ht) as [H1 H2]. split; [exact H1|].
        destruct (k_until k) as [u|]; [apply H2; reflexivity | exact I].
  Qed.
End Characterisation.

(* ================================================================== the decoded signature: what is pinned down *)
(* The decoded signature as an OpenPGP v4 signature packet: sp_header = packet tag and length octets (form and declared
   length); sp_hashed = version, type, algorithms, hashed-subpacket length and area; sp_unhashed = the unhashed subpacket
   area; sp_hashtag = the two hash tag octets; sp_mpi_bits = the MPI bit-length field; sp_mpi = the MPI bytes. *)
Record sigpkt := mkSig { sp_header : bytes; sp_hashed : bytes; sp_unhashed : bytes; sp_hashtag : bytes;
                         sp_mpi_bits : bytes; sp_mpi : bytes }.

Definition len2 (b : bytes) : bytes := [N.of_nat (List.length b) / 256; N.of_nat (List.length b) mod 256]%N.
(* the decoded bytes, in packet order (format octet 1 first) *)
Definition sig_bytes (p : sigpkt) : bytes :=
  (1%N :: sp_header p) ++ sp_hashed p ++ len2 (sp_unhashed p) ++ sp_unhashed p ++ sp_hashtag p ++ sp_mpi_bits p ++ sp_mpi p.
(* the signature value: what verification reads *)
Definition sig_value (p : sigpkt) : bytes * bytes * bytes := (sp_hashed p, sp_hashtag p, sp_mpi p).
(* the four framing fields: packet header form (sig-packet-header-form) and declared length (sig-packet-length) are both in
   sp_header; the unhashed area (sig-unhashed-subpacket); the MPI bit length (sig-mpi-bitlength) *)
Definition same_value (p p0 : sigpkt) : Prop :=
  sp_hashed p = sp_hashed p0 /\ sp_hashtag p = sp_hashtag p0 /\ sp_mpi p = sp_mpi p0.

Section Framing.
  Variable verify : bytes -> bytes -> bytes -> bool.
  (* the core the driver computes is an injective encoding of the signature value *)
  Variable enc : bytes * bytes * bytes -> bytes.
  Hypothesis enc_inj : forall x y, enc x = enc y -> x = y.
  (* everything ever genuinely signed: key id, content, signature packet *)
  Variable G : list (bytes * bytes * sigpkt).
  (* verify is a function of (key, content, signature value) and only genuine triples verify *)
  Hypothesis ideal : forall kid c s, verify kid c s = true -> exists p0, In (kid, c, p0) G /\ s = enc (sig_value p0).

  (* whatever is accepted carries the content and the signature VALUE of something genuinely signed with the named key:
     compared with that genuine signature, only the four framing fields of the decoded signature can differ *)
  Lemma accepted_only_framing_differs : forall layers e l a p,
    a_sig a = sig_bytes p -> a_sig_core a = enc (sig_value p) ->
    check verify layers e l a = true ->
    exists p0, In (a_sign_key a, a_content a, p0) G /\ same_value p p0.
  Proof.
    intros layers e l a p Hsig Hcore H. apply check_iff in H as (_ & k & Ek & _ & _ & _ & Hver & _).
    destruct (find_key_spec _ _ _ Ek) as [Hid _]. rewrite Hid in Hver.
    apply ideal in Hver as (p0 & Hin & Hs). exists p0. split; [exact Hin|].
    rewrite Hcore in Hs. apply enc_inj in Hs. unfold sig_value in Hs. injection Hs as H1 H2 H3.
    unfold same_value. tauto.
  Qed.

  (* contrapositive, as a rejection statement: a change of any byte of the content, or of any byte of the decoded
     signature outside the framing fields (i.e. in the hashed part, the hash tag or the MPI bytes), is rejected unless the
     result is, in content and signature value, something else genuinely signed with that key *)
  Lemma mutation_outside_framing_rejected : forall layers e l a p,
    a_sig a = sig_bytes p -> a_sig_core a = enc (sig_value p) ->
    (forall p0, In (a_sign_key a, a_content a, p0) G -> ~ same_value p p0) ->
    check verify layers e l a = false.
  Proof.
    intros layers e l a p Hsig Hcore Hno. destruct (check verify layers e l a) eqn:E; [|reflexivity].
    destruct (accepted_only_framing_differs _ _ _ _ _ Hsig Hcore E) as (p0 & Hin & Hsame). elim (Hno p0 Hin Hsame).
  Qed.
End Framing.

(* ... and the framing fields ARE free: two assertions that differ only in the packet header, the unhashed area and the
   MPI bit-length field of the decoded signature (same value, hence same core) get the same verdict, for any verify *)
Lemma framing_is_free : forall verify (enc : bytes * bytes * bytes -> bytes) layers e l a a' p p',
  a_sig_core a = enc (sig_value p) -> a_sig_core a' = enc (sig_value p') -> same_value p p' ->
  a_supported a' = a_supported a -> a_authority a' = a_authority a -> a_sign_key a' = a_sign_key a ->
  a_timestamp a' = a_timestamp a -> a_headers a' = a_headers a -> a_content a' = a_content a ->
  check verify layers e l a' = check verify layers e l a.
Proof.
  intros verify enc layers e l a a' p p' Hc Hc' (H1 & H2 & H3) Hs Hau Hk Hts Hh Hco.
  assert (Hcore : a_sig_core a' = a_sig_core a).
  { rewrite Hc, Hc'. unfold sig_value. rewrite H1, H2, H3. reflexivity. }
  unfold check, can_sign. rewrite Hs, Hau, Hk, Hts, Hh, Hco, Hcore. reflexivity.
Qed.
