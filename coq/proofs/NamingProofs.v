(* C24 — proofs: each validator model equals one reference recogniser, for ALL byte strings. *)
From Coq Require Import List NArith Bool Arith Lia.
Import ListNotations.
Require Import V.lib.Bytes V.lib.Regex V.proofs.RegexProofs V.gen.NamingRegexes V.models.Naming.
Open Scope N_scope.

(* ------------------------------------------------------------------------------------------ byte classes *)
Ltac bool_lia :=
  apply eq_true_iff_eq;
  rewrite ?orb_true_iff, ?andb_true_iff, ?orb_true_iff, ?andb_true_iff, ?N.leb_le, ?N.eqb_eq, ?orb_false_r;
  repeat rewrite ?orb_true_iff, ?andb_true_iff, ?N.leb_le, ?N.eqb_eq; try lia.

Definition dn_char (c : N) : bool := name_char c || (c =? 45).

Lemma cls_dn c : in_ranges c [(45,45);(48,57);(97,122)] = dn_char c.
Proof. unfold dn_char, name_char, c_lower, c_digit. cbn [in_ranges]. bool_lia. Qed.
Lemma cls_lower c : in_ranges c [(97,122)] = c_lower c.
Proof. unfold c_lower. cbn [in_ranges]. bool_lia. Qed.
Lemma cls_name c : in_ranges c [(48,57);(97,122)] = name_char c.
Proof. unfold name_char, c_lower, c_digit. cbn [in_ranges]. bool_lia. Qed.
Lemma cls_app c : in_ranges c [(48,57);(65,90);(97,122)] = app_char c.
Proof. unfold app_char, c_lower, c_digit. cbn [in_ranges]. bool_lia. Qed.

Lemma name_char_not_dash c : name_char c = true -> (c =? 45) = false.
Proof. unfold name_char, c_lower, c_digit. intros H. apply N.eqb_neq. intros ->. discriminate. Qed.
Lemma app_char_not_dash c : app_char c = true -> (c =? 45) = false.
Proof. unfold app_char, c_lower, c_digit. intros H. apply N.eqb_neq. intros ->. discriminate. Qed.
Lemma lower_name c : c_lower c = true -> name_char c = true.
Proof. unfold name_char. intros ->. reflexivity. Qed.
Lemma digit_not_lower c : c_digit c = true -> c_lower c = false.
Proof.
  unfold c_digit, c_lower. intros H. apply andb_true_iff in H as [H1 H2]. apply N.leb_le in H2.
  apply andb_false_iff. left. apply N.leb_gt. lia.
Qed.
Lemma digit_name c : c_digit c = true -> name_char c = true.
Proof. unfold name_char. intros ->. apply orb_true_r. Qed.

Lemma forallb_ext_in {A} (f g : A -> bool) l : (forall x, f x = g x) -> forallb f l = forallb g l.
Proof. intros H. induction l; cbn; [reflexivity | rewrite H, IHl; reflexivity]. Qed.
Lemma existsb_ext {A} (f g : A -> bool) l : (forall x, f x = g x) -> existsb f l = existsb g l.
Proof. intros H. induction l; cbn; [reflexivity | rewrite H, IHl; reflexivity]. Qed.

(* ------------------------------------------------------------------------------------------ dshape *)
Lemma dshape_chars al pd s : dshape al pd s = true -> forallb (fun c => al c || (c =? 45)) s = true.
Proof.
  revert pd. induction s as [|c r IH]; intros pd; cbn; [reflexivity |].
  destruct (al c) eqn:Ea; cbn.
  - apply IH.
  - destruct (c =? 45) eqn:Ec; [| discriminate]. cbn. intros H. apply andb_true_iff in H as [_ H]. eapply IH; eassumption.
Qed.

(* a run of alphabet bytes in front does not matter (beyond clearing the pending dash) *)
Lemma dshape_skip al pd run rest :
  forallb al run = true ->
  dshape al pd (run ++ rest) = match run with [] => dshape al pd rest | _ => dshape al false rest end.
Proof.
  revert pd. induction run as [|c run IH]; intros pd H; [reflexivity |].
  cbn in H. apply andb_true_iff in H as [Hc Hr]. cbn [app dshape]. rewrite Hc, (IH false Hr).
  destruct run; reflexivity.
Qed.

Lemma dshape_cons al pd c r :
  dshape al pd (c :: r) = if al c then dshape al false r else if c =? 45 then negb pd && dshape al true r else false.
Proof. reflexivity. Qed.

(* Go's three dash tests, given the character test of the regex *)
Lemma dshape_go_dashes s : forall pd,
  forallb dn_char s = true -> s <> [] ->
  dshape name_char pd s = negb ((pd && hd_is 45 s) || last_is 45 s || contains2 45 45 s).
Proof.
  induction s as [|c r IH]; intros pd Hf Hn; [congruence |].
  cbn in Hf. apply andb_true_iff in Hf as [Hc Hr]. unfold dn_char in Hc.
  destruct r as [|d r'].
  - cbn. destruct (name_char c) eqn:En.
    + rewrite (name_char_not_dash _ En). rewrite andb_false_r. reflexivity.
    + cbn in Hc. rewrite Hc. cbn. rewrite andb_false_r, andb_true_r.
      destruct pd; reflexivity.
  - specialize (IH).
    assert (Hn' : d :: r' <> []) by discriminate.
    rewrite dshape_cons.
    change (last_is 45 (c :: d :: r')) with (last_is 45 (d :: r')).
    change (contains2 45 45 (c :: d :: r')) with (((c =? 45) && (d =? 45)) || contains2 45 45 (d :: r')).
    change (hd_is 45 (c :: d :: r')) with (c =? 45).
    destruct (name_char c) eqn:En.
    + rewrite (IH false Hr Hn'). rewrite (name_char_not_dash _ En).
      cbn [andb orb]. rewrite andb_false_r. reflexivity.
    + cbn in Hc. rewrite Hc. rewrite (IH true Hr Hn').
      change (hd_is 45 (d :: r')) with (d =? 45).
      destruct pd, (d =? 45), (last_is 45 (d :: r')), (contains2 45 45 (d :: r')); reflexivity.
Qed.

(* ------------------------------------------------------------------------------------------ Go: ValidateSnap *)
Lemma almost_valid_name_char s :
  rmatch almost_valid_name s = forallb dn_char s && existsb c_lower s.
Proof.
  apply rmatch_char with (f := fun s => forallb dn_char s && existsb c_lower s). clear s. intros s.
  unfold almost_valid_name. rewrite lang_cat_inv. split.
  - intros (s1 & s2 & -> & H1 & H2). apply lang_cat_inv in H2 as (s3 & s4 & -> & H3 & H4).
    apply lang_star_cls in H1. apply lang_star_cls in H4. apply lang_cls_inv in H3 as (c & -> & Hc).
    rewrite cls_lower in Hc.
    rewrite (forallb_ext_in _ dn_char _ cls_dn) in H1. rewrite (forallb_ext_in _ dn_char _ cls_dn) in H4.
    rewrite !forallb_app, !existsb_app, H1, H4. cbn. rewrite Hc. unfold dn_char. rewrite (lower_name _ Hc).
    cbn. rewrite orb_true_r. reflexivity.
  - intros H. apply andb_true_iff in H as [Hf He]. apply existsb_exists in He as (c & Hin & Hc).
    apply in_split in Hin as (l1 & l2 & ->). rewrite forallb_app in Hf. apply andb_true_iff in Hf as [Hf1 Hf2].
    cbn in Hf2. apply andb_true_iff in Hf2 as [_ Hf2].
    exists l1, (c :: l2). split; [reflexivity |]. split.
    + apply lang_star_cls. rewrite (forallb_ext_in _ dn_char _ cls_dn). assumption.
    + change (c :: l2) with ([c] ++ l2). constructor.
      * constructor. rewrite cls_lower. assumption.
      * apply lang_star_cls. rewrite (forallb_ext_in _ dn_char _ cls_dn). assumption.
Qed.

Lemma go_is_valid_name_ref s : go_is_valid_name s = dshape name_char true s && existsb c_lower s.
Proof.
  unfold go_is_valid_name. rewrite almost_valid_name_char.
  destruct (forallb dn_char s) eqn:Ef.
  - destruct (existsb c_lower s) eqn:Ee; cbn [andb negb].
    + assert (Hn : s <> []) by (intros ->; discriminate).
      rewrite (dshape_go_dashes s true Ef Hn). cbn [andb].
      destruct (hd_is 45 s || last_is 45 s || contains2 45 45 s); reflexivity.
    + rewrite andb_false_r. reflexivity.
  - cbn [andb negb]. destruct (dshape name_char true s) eqn:Ed; [| reflexivity].
    apply dshape_chars in Ed. unfold dn_char in Ef. congruence.
Qed.

Theorem go_validate_snap_ref s : go_validate_snap s = valid_snap_name s.
Proof.
  unfold go_validate_snap, valid_snap_name, go_snap_min_len, go_snap_max_len. rewrite go_is_valid_name_ref.
  destruct (dshape name_char true s && existsb c_lower s); cbn [negb andb orb];
    destruct (Nat.ltb_spec (length s) 2), (Nat.ltb_spec 40 (length s)),
             (Nat.leb_spec 2 (length s)), (Nat.leb_spec (length s) 40); cbn; try reflexivity; lia.
Qed.

(* ------------------------------------------------------------------------------------------ C: the name scanner *)
Lemma span_spec (p : N -> bool) l :
  l = fst (span p l) ++ snd (span p l) /\ forallb p (fst (span p l)) = true.
Proof.
  induction l as [|x r IH]; cbn; [auto |].
  destruct (p x) eqn:E; cbn; [| auto].
  destruct (span p r) as [a b]; cbn in *. destruct IH as [IH1 IH2]. rewrite E, IH2. split; [f_equal; assumption | reflexivity].
Qed.

Lemma span_head_false (p : N -> bool) x r : p x = false -> span p (x :: r) = ([], x :: r).
Proof. intros H. cbn. rewrite H. reflexivity. Qed.

Lemma span_head_true (p : N -> bool) x r : p x = true -> span p (x :: r) = (x :: fst (span p r), snd (span p r)).
Proof. intros H. cbn. rewrite H. destruct (span p r); reflexivity. Qed.

Lemma existsb_lower_of_digits ds : forallb c_digit ds = true -> existsb c_lower ds = false.
Proof.
  induction ds as [|c r IH]; cbn; [reflexivity |]. intros H. apply andb_true_iff in H as [Hc Hr].
  rewrite (digit_not_lower _ Hc), (IH Hr). reflexivity.
Qed.

Lemma forallb_impl {A} (f g : A -> bool) l : (forall x, f x = true -> g x = true) -> forallb f l = true -> forallb g l = true.
Proof.
  intros H. induction l; cbn; [reflexivity |]. intros H1. apply andb_true_iff in H1 as [Ha Hl].
  rewrite (H _ Ha), (IHl Hl). reflexivity.
Qed.

Lemma sc_name_loop_spec : forall fuel p n got,
  (length p < fuel)%nat ->
  sc_name_loop fuel p n got =
  if dshape name_char false p then LoopEnd (n + length p) (got || existsb c_lower p) else LoopErr.
Proof.
  induction fuel as [|f IH]; intros p n got Hl; [lia |].
  destruct p as [|c p'].
  - cbn. rewrite Nat.add_0_r, orb_false_r. reflexivity.
  - cbn [sc_name_loop]. cbn [length] in Hl.
    destruct (c_lower c) eqn:El.
    + (* a run of letters *)
      rewrite (span_head_true c_lower c p' El).
      destruct (span_spec c_lower p') as [Hs Hf].
      set (ls := fst (span c_lower p')) in *. set (p1 := snd (span c_lower p')) in *.
      cbn [is_nil_b negb].
      assert (Hlen : length p' = (length ls + length p1)%nat) by (rewrite Hs at 1; apply app_length).
      rewrite IH by lia.
      assert (Hrun : forallb name_char (c :: ls) = true).
      { cbn. rewrite (lower_name _ El). cbn. eapply forallb_impl; [apply lower_name | exact Hf]. }
      replace (c :: p') with ((c :: ls) ++ p1) by (cbn; rewrite <- Hs; reflexivity).
      rewrite (dshape_skip name_char false (c :: ls) p1 Hrun).
      destruct (dshape name_char false p1); [| reflexivity].
      rewrite existsb_app. cbn [existsb]. rewrite El. cbn [orb]. rewrite orb_true_r.
      f_equal. rewrite app_length. cbn [length]. lia.
    + rewrite (span_head_false c_lower c p' El). cbn [is_nil_b negb].
      destruct (c_digit c) eqn:Ed.
      * (* a run of digits *)
        rewrite (span_head_true c_digit c p' Ed).
        destruct (span_spec c_digit p') as [Hs Hf].
        set (ds := fst (span c_digit p')) in *. set (p2 := snd (span c_digit p')) in *.
        cbn [is_nil_b negb].
        assert (Hlen : length p' = (length ds + length p2)%nat) by (rewrite Hs at 1; apply app_length).
        rewrite IH by lia.
        assert (Hrun : forallb name_char (c :: ds) = true).
        { cbn. rewrite (digit_name _ Ed). cbn. eapply forallb_impl; [apply digit_name | exact Hf]. }
        replace (c :: p') with ((c :: ds) ++ p2) by (cbn; rewrite <- Hs; reflexivity).
        rewrite (dshape_skip name_char false (c :: ds) p2 Hrun).
        destruct (dshape name_char false p2); [| reflexivity].
        rewrite existsb_app. cbn [existsb]. rewrite El, (existsb_lower_of_digits ds Hf). cbn [orb].
        f_equal. rewrite app_length. cbn [length]. lia.
      * rewrite (span_head_false c_digit c p' Ed). cbn [is_nil_b negb].
        assert (En : name_char c = false) by (unfold name_char; rewrite El, Ed; reflexivity).
        cbn [dshape]. rewrite En.
        destruct (c =? 45) eqn:Ec; [| reflexivity].
        cbn [negb andb].
        destruct p' as [|d r]; [reflexivity |].
        destruct (d =? 45) eqn:Edd.
        -- cbn [dshape]. apply N.eqb_eq in Edd. subst d. cbn. reflexivity.
        -- rewrite IH by (cbn [length] in *; lia).
           cbn [dshape]. rewrite Edd. cbn [negb andb].
           assert (Hsame : (if name_char d then dshape name_char false r else false) =
                           (if name_char d then dshape name_char false r else if false then negb false && dshape name_char true r else false))
             by (destruct (name_char d); reflexivity).
           destruct (name_char d) eqn:End.
           ++ destruct (dshape name_char false r); [| reflexivity].
              cbn [existsb]. rewrite El. cbn [orb]. f_equal. cbn [length]. lia.
           ++ reflexivity.
Qed.

Lemma dshape_true_false al s : hd_is 45 s = false -> s <> [] -> dshape al true s = dshape al false s.
Proof.
  destruct s as [|c r]; [congruence |]. cbn. intros H _. rewrite H. destruct (al c); reflexivity.
Qed.

Lemma dshape_true_hd al s : hd_is 45 s = true -> al 45 = false -> dshape al true s = false.
Proof.
  destruct s as [|c r]; [discriminate |]. cbn. intros H Ha. apply N.eqb_eq in H. subst c. rewrite Ha. reflexivity.
Qed.

Lemma name_bounds_bool (g : bool) (n : nat) :
  (if negb g then false else if (n <? 2)%nat then false else if (40 <? n)%nat then false else true) =
  (g && (2 <=? n)%nat && (n <=? 40)%nat).
Proof.
  destruct g; cbn [negb andb]; [| reflexivity].
  destruct (Nat.ltb_spec n 2), (Nat.ltb_spec 40 n), (Nat.leb_spec 2 n), (Nat.leb_spec n 40); cbn [andb]; try reflexivity; lia.
Qed.

Theorem sc_snap_name_validate_ref s : sc_snap_name_validate s = valid_snap_name s.
Proof.
  unfold sc_snap_name_validate, valid_snap_name, sc_name_min, sc_snap_name_len.
  destruct (hd_is 45 s) eqn:Eh.
  - rewrite (dshape_true_hd name_char s Eh eq_refl). reflexivity.
  - rewrite sc_name_loop_spec by lia.
    destruct s as [|c r]; [reflexivity |].
    rewrite (dshape_true_false name_char (c :: r) Eh) by discriminate.
    destruct (dshape name_char false (c :: r)); [| reflexivity].
    cbn [orb Nat.add]. rewrite name_bounds_bool. rewrite <- !andb_assoc. reflexivity.
Qed.

Lemma sun_name_loop_same : forall fuel p n got, sun_name_loop fuel p n got = sc_name_loop fuel p n got.
Proof.
  induction fuel as [|f IH]; intros p n got; [reflexivity |].
  cbn [sun_name_loop sc_name_loop]. destruct p as [|c p']; [reflexivity |].
  destruct (span c_lower (c :: p')) as [ls p1]. destruct (span c_digit (c :: p')) as [ds p2].
  rewrite !IH. destruct p'; reflexivity.
Qed.

Theorem sun_validate_snap_name_ref s : sun_validate_snap_name s = valid_snap_name s.
Proof.
  rewrite <- sc_snap_name_validate_ref.
  unfold sun_validate_snap_name, sc_snap_name_validate, sun_name_min, sun_name_max, sc_name_min, sc_snap_name_len.
  rewrite sun_name_loop_same. reflexivity.
Qed.

(* ------------------------------------------------------------------------------------------ instance keys *)
Lemma go_instance_key_ref k : rmatch NamingRegexes.valid_instance_key k = valid_key k.
Proof.
  apply rmatch_char with (f := valid_key). clear k. intros k.
  unfold NamingRegexes.valid_instance_key, valid_key. rewrite lang_rep_cls.
  rewrite (forallb_ext_in _ name_char _ cls_name).
  rewrite !andb_true_iff, !Nat.leb_le. intuition lia.
Qed.

Lemma sc_key_loop_spec : forall k i,
  sc_key_loop k i = if forallb name_char k then Some (i + length k)%nat else None.
Proof.
  induction k as [|c r IH]; intros i; cbn.
  - rewrite Nat.add_0_r. reflexivity.
  - fold (name_char c). destruct (name_char c); cbn; [| reflexivity].
    rewrite IH. destruct (forallb name_char r); [f_equal; lia | reflexivity].
Qed.

Lemma key_bounds_bool (n : nat) :
  (if (n =? 0)%nat then false else if (10 <? n)%nat then false else true) = ((1 <=? n)%nat && (n <=? 10)%nat).
Proof.
  destruct (Nat.eqb_spec n 0), (Nat.ltb_spec 10 n), (Nat.leb_spec 1 n), (Nat.leb_spec n 10); cbn; try reflexivity; lia.
Qed.

Theorem sc_instance_key_validate_ref k : sc_instance_key_validate k = valid_key k.
Proof.
  unfold sc_instance_key_validate, valid_key, sc_instance_key_len. rewrite sc_key_loop_spec.
  destruct (forallb name_char k); cbn [Nat.add]; [| rewrite andb_false_r; reflexivity].
  rewrite key_bounds_bool, andb_true_r. reflexivity.
Qed.

Lemma sun_key_loop_same : forall k i, sun_key_loop k i = sc_key_loop k i.
Proof. induction k as [|c r IH]; intros i; cbn; [reflexivity | rewrite IH; reflexivity]. Qed.

Theorem sun_instance_key_validate_ref k : sun_instance_key_validate k = valid_key k.
Proof.
  rewrite <- sc_instance_key_validate_ref.
  unfold sun_instance_key_validate, sc_instance_key_validate, sun_key_max, sc_instance_key_len.
  rewrite sun_key_loop_same. reflexivity.
Qed.

(* ------------------------------------------------------------------------------------------ instance names *)
Theorem go_validate_instance_ref s : go_validate_instance s = valid_instance_name s.
Proof.
  unfold go_validate_instance, valid_instance_name.
  destruct (split_first 95 s) as [[a b] |].
  - rewrite go_validate_snap_ref, go_instance_key_ref. destruct (valid_snap_name a); reflexivity.
  - apply go_validate_snap_ref.
Qed.

Lemma split_first_spec c s a b : split_first c s = Some (a, b) -> s = a ++ c :: b.
Proof.
  revert a b. induction s as [|x r IH]; intros a b; cbn; [discriminate |].
  destruct (x =? c) eqn:E.
  - intros H. injection H as <- <-. apply N.eqb_eq in E. subst. reflexivity.
  - destruct (split_first c r) as [[a' b'] |]; [| discriminate].
    intros H. injection H as <- <-. cbn. f_equal. apply IH. reflexivity.
Qed.

Lemma split_first_none_forall c s (p : N -> bool) :
  p c = false -> forallb p s = true -> split_first c s = None.
Proof.
  intros Hp. induction s as [|x r IH]; cbn; [reflexivity |]. intros H. apply andb_true_iff in H as [Hx Hr].
  destruct (x =? c) eqn:E.
  - apply N.eqb_eq in E. subst. congruence.
  - rewrite (IH Hr). reflexivity.
Qed.

Lemma valid_key_no_us k : valid_key k = true -> split_first 95 k = None.
Proof.
  unfold valid_key. intros H. apply andb_true_iff in H as [_ H].
  apply (split_first_none_forall 95 k name_char); [reflexivity | assumption].
Qed.

Lemma valid_snap_name_len s : valid_snap_name s = true -> (2 <= length s <= 40)%nat.
Proof.
  unfold valid_snap_name. intros H. apply andb_true_iff in H as [H H2]. apply andb_true_iff in H as [_ H1].
  apply Nat.leb_le in H1, H2. lia.
Qed.

Lemma valid_snap_name_chars s : valid_snap_name s = true -> forallb dn_char s = true.
Proof.
  unfold valid_snap_name. intros H. apply andb_true_iff in H as [H _]. apply andb_true_iff in H as [H _].
  apply andb_true_iff in H as [H _]. apply dshape_chars in H. exact H.
Qed.

Lemma valid_key_len k : valid_key k = true -> (1 <= length k <= 10)%nat.
Proof.
  unfold valid_key. intros H. apply andb_true_iff in H as [H _]. apply andb_true_iff in H as [H1 H2].
  apply Nat.leb_le in H1, H2. lia.
Qed.

Lemma valid_instance_name_len s : valid_instance_name s = true -> (length s <= 51)%nat.
Proof.
  unfold valid_instance_name. destruct (split_first 95 s) as [[a b] |] eqn:E.
  - intros H. apply andb_true_iff in H as [Ha Hb]. apply split_first_spec in E. subst.
    apply valid_snap_name_len in Ha. apply valid_key_len in Hb. rewrite app_length. cbn [length]. lia.
  - intros H. apply valid_snap_name_len in H. lia.
Qed.

(* the strsep part shared by both C implementations, for any name and key validators vs, vk *)
Definition c_instance_core (vs vk : bytes -> bool) (s : bytes) : bool :=
  let (snap_name, t1) := strsep 95 (Some s) in
  let (key, t2) := strsep 95 t1 in
  let (third, _) := strsep 95 t2 in
  match third with
  | Some _ => false
  | None =>
      match snap_name with
      | None => false
      | Some nm => if negb (vs nm) then false else match key with Some k => vk k | None => true end
      end
  end.

Lemma c_instance_core_ref vs vk s :
  (forall x, vs x = valid_snap_name x) -> (forall x, vk x = valid_key x) ->
  c_instance_core vs vk s = valid_instance_name s.
Proof.
  intros Hs Hk. unfold c_instance_core, valid_instance_name, strsep.
  destruct (split_first 95 s) as [[a b] |].
  - destruct (split_first 95 b) as [[b1 b2] |] eqn:Eb.
    + destruct (split_first 95 b2) as [[? ?] |]; (destruct (valid_key b) eqn:Ek;
        [apply valid_key_no_us in Ek; congruence | rewrite andb_false_r; reflexivity]).
    + rewrite Hs, Hk. destruct (valid_snap_name a); reflexivity.
  - rewrite Hs. destruct (valid_snap_name s); reflexivity.
Qed.

Theorem sc_instance_name_validate_ref s : sc_instance_name_validate s = valid_instance_name s.
Proof.
  unfold sc_instance_name_validate, sc_instance_len.
  destruct (Nat.ltb_spec 51 (length s)) as [Hl | Hl].
  - destruct (valid_instance_name s) eqn:E; [| reflexivity]. apply valid_instance_name_len in E. lia.
  - rewrite firstn_all2 by lia.
    apply (c_instance_core_ref sc_snap_name_validate sc_instance_key_validate s
             sc_snap_name_validate_ref sc_instance_key_validate_ref).
Qed.

Theorem sun_validate_instance_name_ref s : sun_validate_instance_name s = valid_instance_name s.
Proof.
  unfold sun_validate_instance_name, sun_instance_buf.
  assert (H : forall x, c_instance_core sun_validate_snap_name sun_instance_key_validate x = valid_instance_name x)
    by (intros x; apply c_instance_core_ref; [apply sun_validate_snap_name_ref | apply sun_instance_key_validate_ref]).
  unfold c_instance_core in H.
  destruct (Nat.le_gt_cases (length s) 52) as [Hl | Hl].
  - rewrite firstn_all2 by (cbn; lia). apply H.
  - rewrite H.
    destruct (valid_instance_name s) eqn:E1; [apply valid_instance_name_len in E1; lia |].
    destruct (valid_instance_name (firstn (53 - 1) s)) eqn:E2; [| reflexivity].
    apply valid_instance_name_len in E2. rewrite firstn_length in E2. lia.
Qed.

(* ------------------------------------------------------------------------------------------ components *)
Lemma split_all_unfold c s :
  split_all c s = match split_first c s with None => [s] | Some (a, b) => a :: split_all c b end.
Proof.
  induction s as [|x r IH]; cbn; [reflexivity |].
  destruct (x =? c); [reflexivity |].
  rewrite IH. destruct (split_first c r) as [[a b] |]; reflexivity.
Qed.

Lemma split_all_nonempty c s : split_all c s <> [].
Proof. rewrite split_all_unfold. destruct (split_first c s) as [[? ?] |]; discriminate. Qed.

Lemma valid_snap_name_no_plus s : valid_snap_name s = true -> split_first 43 s = None.
Proof.
  intros H. apply valid_snap_name_chars in H.
  apply (split_first_none_forall 43 s dn_char); [reflexivity | assumption].
Qed.

Theorem go_validate_component_ref s : go_validate_component s = valid_component s.
Proof.
  unfold go_validate_component, valid_component. rewrite split_all_unfold.
  destruct (split_first 43 s) as [[a b] |]; [| reflexivity].
  rewrite split_all_unfold. destruct (split_first 43 b) as [[b1 b2] |] eqn:Eb.
  - destruct (split_all 43 b2) eqn:E2; [exfalso; eapply split_all_nonempty; eassumption |].
    destruct (valid_snap_name b) eqn:Ev; [apply valid_snap_name_no_plus in Ev; congruence |].
    rewrite andb_false_r. reflexivity.
  - rewrite !go_validate_snap_ref. destruct (valid_snap_name a); reflexivity.
Qed.

Theorem sc_snap_component_validate_ref s : sc_snap_component_validate s = valid_component s.
Proof.
  unfold sc_snap_component_validate, valid_component, sc_snap_name_len.
  destruct (split_first 43 s) as [[a b] |]; [| reflexivity].
  rewrite !sc_snap_name_validate_ref.
  destruct (valid_snap_name a) eqn:Ea, (valid_snap_name b) eqn:Eb; cbn [negb andb];
    try (apply valid_snap_name_len in Ea); try (apply valid_snap_name_len in Eb);
    destruct (Nat.ltb_spec 40 (length a)), (Nat.ltb_spec 40 (length b)); try reflexivity; lia.
Qed.

(* ------------------------------------------------------------------------------------------ security tags *)
Lemma beq_refl a : beq a a = true.
Proof. induction a as [|x a IH]; cbn; [reflexivity | rewrite N.eqb_refl, IH; reflexivity]. Qed.

Lemma beq_eq a : forall b, beq a b = true -> a = b.
Proof.
  induction a as [|x a IH]; intros [|y b]; cbn; try discriminate; [reflexivity |].
  intros H. apply andb_true_iff in H as [H1 H2]. apply N.eqb_eq in H1. subst. f_equal. auto.
Qed.

(* the repeated part (-?[A])* of every dashed-name expression *)
Definition dash_star (A : ranges) : regex := Star (Cat (Opt (Lit [45])) (Cls A)).

Lemma lang_dash_star_of_dshape A (al : N -> bool) :
  (forall c, in_ranges c A = al c) ->
  forall s pd, dshape al pd s = true ->
    (pd = false -> lang (dash_star A) s) /\
    (pd = true -> exists d r, s = d :: r /\ al d = true /\ lang (dash_star A) r).
Proof.
  intros HA. induction s as [|c r IH]; intros pd H.
  - cbn in H. destruct pd; [discriminate |]. split; [intros _; constructor | discriminate].
  - rewrite dshape_cons in H. destruct (al c) eqn:Ec.
    + destruct (IH false H) as [IH1 _]. specialize (IH1 eq_refl).
      assert (Hc : lang (Cat (Opt (Lit [45])) (Cls A)) [c]).
      { change [c] with ([] ++ [c]). constructor; [apply lang_opt_inv; left; reflexivity |].
        constructor. rewrite HA. assumption. }
      split.
      * intros _. change (c :: r) with ([c] ++ r). constructor; assumption.
      * intros _. exists c, r. auto.
    + destruct (c =? 45) eqn:E45; [| discriminate]. apply N.eqb_eq in E45. subst c.
      apply andb_true_iff in H as [Hpd H]. destruct pd; [discriminate |].
      destruct (IH true H) as [_ IH2]. destruct (IH2 eq_refl) as (d & r' & -> & Hd & Hr).
      split; [| discriminate]. intros _.
      change (45 :: d :: r') with ([45; d] ++ r'). constructor; [| assumption].
      change [45; d] with ([45] ++ [d]). constructor.
      * apply lang_opt_inv. right. apply lang_lit. reflexivity.
      * constructor. rewrite HA. assumption.
Qed.

Lemma valid_snap_name_lang s :
  valid_snap_name s = true -> lang (Cat (Cls [(48,57);(97,122)]) (dash_star [(48,57);(97,122)])) s.
Proof.
  unfold valid_snap_name. intros H. apply andb_true_iff in H as [H _]. apply andb_true_iff in H as [H _].
  apply andb_true_iff in H as [H _].
  destruct (lang_dash_star_of_dshape [(48,57);(97,122)] name_char cls_name s true H) as [_ H2].
  destruct (H2 eq_refl) as (d & r & -> & Hd & Hr).
  change (d :: r) with ([d] ++ r). constructor; [| assumption]. constructor. rewrite cls_name. assumption.
Qed.

(* group 1 of the snap-confine expression *)
Definition re_g1 : regex :=
  Cat (Cls [(48,57);(97,122)])
      (Cat (dash_star [(48,57);(97,122)]) (Opt (Cat (Lit [95]) (rep 1 9 (Cls [(48,57);(97,122)]))))).
Definition re_name : regex := Cat (Cls [(48,57);(97,122)]) (dash_star [(48,57);(97,122)]).
Definition re_app_alt : regex := Cat (Lit [46]) valid_app.
Definition re_hook_alt : regex :=
  Cat (Opt (Cat (Lit [43]) re_name)) (Cat (Lit [46;104;111;111;107;46]) valid_hook).

(* the expression extracted from snap.c has exactly this structure; the app and hook parts are, term for term, the
   daemon's own ValidApp and validHook expressions *)
Lemma sc_tag_re_shape : sc_tag_re = Cat (Lit [115;110;97;112;46]) (Cat re_g1 (Alt re_app_alt re_hook_alt)).
Proof. reflexivity. Qed.

Lemma lang_name_g1 nm k :
  lang re_name nm -> lang (Opt (Cat (Lit [95]) (rep 1 9 (Cls [(48,57);(97,122)])))) k -> lang re_g1 (nm ++ k).
Proof.
  unfold re_name, re_g1. intros H Hk. apply lang_cat_inv in H as (s1 & s2 & -> & H1 & H2).
  rewrite <- app_assoc. constructor; [assumption |]. constructor; assumption.
Qed.

Lemma valid_instance_name_lang inst : valid_instance_name inst = true -> lang re_g1 inst.
Proof.
  unfold valid_instance_name. destruct (split_first 95 inst) as [[a b] |] eqn:E.
  - intros H. apply andb_true_iff in H as [Ha Hb]. apply split_first_spec in E. subst inst.
    apply lang_name_g1; [apply valid_snap_name_lang; assumption |].
    apply lang_opt_inv. right. change (95 :: b) with ([95] ++ b). constructor; [apply lang_lit; reflexivity |].
    apply lang_rep_cls. rewrite (forallb_ext_in _ name_char _ cls_name).
    unfold valid_key in Hb. apply andb_true_iff in Hb as [Hb Hf]. apply andb_true_iff in Hb as [H1 H2].
    apply Nat.leb_le in H1, H2. split; [lia | assumption].
  - intros H. rewrite <- (app_nil_r inst). apply lang_name_g1; [apply valid_snap_name_lang; assumption |].
    apply lang_opt_inv. left. reflexivity.
Qed.

(* bytes of valid names are neither . nor + *)
Definition inst_char (c : N) : bool := dn_char c || (c =? 95).

Lemma valid_instance_name_chars inst : valid_instance_name inst = true -> forallb inst_char inst = true.
Proof.
  unfold valid_instance_name. destruct (split_first 95 inst) as [[a b] |] eqn:E.
  - intros H. apply andb_true_iff in H as [Ha Hb]. apply split_first_spec in E. subst inst.
    rewrite forallb_app. cbn [forallb]. apply valid_snap_name_chars in Ha.
    unfold valid_key in Hb. apply andb_true_iff in Hb as [_ Hb].
    rewrite (forallb_impl dn_char inst_char a) by (try assumption; unfold inst_char; intros x ->; reflexivity).
    rewrite (forallb_impl name_char inst_char b) by (try assumption; unfold inst_char, dn_char; intros x ->; reflexivity).
    reflexivity.
  - intros H. apply valid_snap_name_chars in H.
    apply (forallb_impl dn_char inst_char); [unfold inst_char; intros x ->; reflexivity | assumption].
Qed.

Lemma inst_char_not_dot_plus c : inst_char c = true -> not_dot_plus c = true.
Proof.
  unfold not_dot_plus. intros H.
  destruct (N.eqb_spec c 46) as [-> |]; [discriminate |].
  destruct (N.eqb_spec c 43) as [-> |]; [discriminate | reflexivity].
Qed.

Lemma dn_char_not_dot c : dn_char c = true -> not_dot c = true.
Proof. unfold not_dot. intros H. destruct (N.eqb_spec c 46) as [-> |]; [discriminate | reflexivity]. Qed.

Lemma span_app_stop (p : N -> bool) a x b :
  forallb p a = true -> p x = false -> span p (a ++ x :: b) = (a, x :: b).
Proof.
  intros Ha Hx. induction a as [|y a IH]; cbn.
  - rewrite Hx. reflexivity.
  - cbn in Ha. apply andb_true_iff in Ha as [Hy Ha]. rewrite Hy, (IH Ha). reflexivity.
Qed.

Lemma tag_rmatch inst tail :
  lang re_g1 inst -> lang (Alt re_app_alt re_hook_alt) tail ->
  rmatch sc_tag_re (lit_snap ++ [46] ++ inst ++ tail) = true.
Proof.
  intros H1 H2. apply rmatch_lang. rewrite sc_tag_re_shape.
  change (lit_snap ++ [46] ++ inst ++ tail) with ([115;110;97;112;46] ++ (inst ++ tail)).
  constructor; [apply lang_lit; reflexivity |]. constructor; assumption.
Qed.

(* every app tag and every (component) hook tag the daemon generates from names it accepts is accepted by
   snap-confine, when it fits the 256 byte limit *)
Theorem generated_tags_accepted (inst : bytes) (comp : option bytes) (is_hook : bool) (name : bytes) :
  go_validate_instance inst = true ->
  comp_ok go_validate_snap comp = true ->
  (if is_hook then go_validate_hook name else go_validate_app name) = true ->
  (is_hook = false -> comp = None) ->
  (length (model_tag inst comp is_hook name) <= 256)%nat ->
  sc_security_tag_validate (model_tag inst comp is_hook name) inst comp = true.
Proof.
  intros Hi Hc Hn Happ Hlen. rewrite go_validate_instance_ref in Hi.
  pose proof (valid_instance_name_lang inst Hi) as Lg1.
  pose proof (valid_instance_name_chars inst Hi) as Ci.
  pose proof (forallb_impl inst_char not_dot_plus inst inst_char_not_dot_plus Ci) as Ci'.
  unfold sc_security_tag_validate, sc_security_tag_max_len.
  destruct (Nat.ltb_spec 256 (length (model_tag inst comp is_hook name))) as [Hl | _]; [lia |].
  destruct is_hook.
  - (* hooks, with or without a component *)
    unfold go_validate_hook in Hn. apply rmatch_lang in Hn.
    unfold model_tag, go_hook_tag.
    destruct comp as [cn |].
    + cbn [comp_ok] in Hc. rewrite go_validate_snap_ref in Hc.
      pose proof (valid_snap_name_lang cn Hc) as Lcn.
      pose proof (valid_snap_name_chars cn Hc) as Ccn.
      pose proof (forallb_impl dn_char not_dot cn dn_char_not_dot Ccn) as Ccn'.
      replace (lit_snap ++ [46] ++ (inst ++ [43] ++ cn) ++ [46] ++ lit_hook ++ [46] ++ name)
        with (lit_snap ++ [46] ++ inst ++ ((43 :: cn) ++ [46;104;111;111;107;46] ++ name))
        by (cbn; rewrite <- !app_assoc; reflexivity).
      rewrite tag_rmatch; [| assumption |].
      2:{ apply L_altr. unfold re_hook_alt. constructor.
          - apply lang_opt_inv. right. change (43 :: cn) with ([43] ++ cn). constructor; [apply lang_lit; reflexivity | exact Lcn].
          - constructor; [apply lang_lit; reflexivity | assumption]. }
      cbn [negb].
      unfold tag_group7, tag_group1. cbn [lit_snap app skipn].
      rewrite (span_app_stop not_dot_plus inst 43 _ Ci' eq_refl). cbn [fst snd].
      change (43 =? 43) with true. cbv iota.
      rewrite (span_app_stop not_dot cn 46 _ Ccn' eq_refl). cbn [fst].
      rewrite !beq_refl. cbn [negb orb].
      destruct cn; [cbn in Hc; discriminate | reflexivity].
    + replace (lit_snap ++ [46] ++ inst ++ [46] ++ lit_hook ++ [46] ++ name)
        with (lit_snap ++ [46] ++ inst ++ ([] ++ [46;104;111;111;107;46] ++ name)) by reflexivity.
      rewrite tag_rmatch; [| assumption |].
      2:{ apply L_altr. unfold re_hook_alt. constructor.
          - apply lang_opt_inv. left. reflexivity.
          - constructor; [apply lang_lit; reflexivity | assumption]. }
      cbn [negb].
      unfold tag_group7, tag_group1. cbn [lit_snap app skipn].
      rewrite (span_app_stop not_dot_plus inst 46 _ Ci' eq_refl). cbn [fst snd].
      change (46 =? 43) with false. cbv iota. apply beq_refl.
  - (* apps *)
    rewrite (Happ eq_refl). unfold go_validate_app in Hn. apply rmatch_lang in Hn.
    unfold model_tag, go_app_tag.
    rewrite tag_rmatch; [| assumption |].
    2:{ apply L_altl. unfold re_app_alt. change ([46] ++ name) with ([46] ++ name).
        constructor; [apply lang_lit; reflexivity | assumption]. }
    cbn [negb].
    unfold tag_group7, tag_group1. cbn [lit_snap app skipn].
    rewrite (span_app_stop not_dot_plus inst 46 _ Ci' eq_refl). cbn [fst snd].
    change (46 =? 43) with false. cbv iota. apply beq_refl.
Qed.

(* the guard is needed: the daemon puts no bound on app (or hook) names, snap-confine refuses tags above 256 bytes *)
Definition long_app : bytes := repeat 97 250.

Lemma overlong_generated_tag_rejected :
  go_validate_instance [97;98] = true /\ go_validate_app long_app = true /\
  sc_security_tag_validate (model_tag [97;98] None false long_app) [97;98] None = false.
Proof. vm_compute. auto. Qed.

(* ------------------------------------------------------------------------------------------ ParseSecurityTag *)
Lemma splitn_SS n c s :
  splitn (S (S n)) c s = match split_first c s with None => [s] | Some (a, b) => a :: splitn (S n) c b end.
Proof. reflexivity. Qed.

(* what a successful ParseSecurityTag says about the tag: it is, byte for byte, the tag the daemon's generator builds
   from the returned parts, and the parts are valid *)
Lemma parse_security_tag_inv tag inst comp (h : bool) name :
  go_parse_security_tag tag = Some (inst, comp, h, name) ->
  tag = model_tag inst comp h name /\
  go_validate_instance inst = true /\ comp_ok go_validate_snap comp = true /\
  (if h then go_validate_hook name else go_validate_app name) = true /\ (h = false -> comp = None).
Proof.
  unfold go_parse_security_tag. change 5%nat with (S (S 3)). rewrite splitn_SS.
  destruct (split_first 46 tag) as [[p0 t1] |] eqn:E0; [| discriminate].
  change 4%nat with (S (S 2)). rewrite splitn_SS.
  destruct (split_first 46 t1) as [[p1 t2] |] eqn:E1; [| cbn; discriminate].
  change 3%nat with (S (S 1)). rewrite splitn_SS.
  apply split_first_spec in E0. apply split_first_spec in E1. subst tag t1.
  assert (Core : forall rest,
    (rest = [name] /\ h = false \/ rest = [lit_hook; name] /\ h = true) ->
    beq p0 lit_snap = true ->
    (let '(snap_name, comp0) := match split_first 43 p1 with Some (a, b) => (a, Some b) | None => (p1, None) end in
     snap_name = inst /\ comp0 = comp /\ go_validate_instance inst = true /\ comp_ok go_validate_snap comp = true) ->
    (if h then go_validate_hook name else go_validate_app name) = true -> (h = false -> comp = None) ->
    forall t2', (t2' = match rest with [a] => a | [a; b] => a ++ 46 :: b | _ => [] end) ->
    p0 ++ 46 :: p1 ++ 46 :: t2' = model_tag inst comp h name).
  { intros rest Hrest Hb Hsplit Hn Hcomp t2' ->. apply beq_eq in Hb. subst p0.
    destruct (split_first 43 p1) as [[a b] |] eqn:E43.
    - destruct Hsplit as (-> & <- & _). apply split_first_spec in E43. subst p1.
      destruct Hrest as [[-> ->] | [-> ->]].
      + specialize (Hcomp eq_refl). discriminate.
      + unfold model_tag, go_hook_tag. cbn. rewrite <- !app_assoc. reflexivity.
    - destruct Hsplit as (-> & <- & _).
      destruct Hrest as [[-> ->] | [-> ->]]; unfold model_tag, go_hook_tag, go_app_tag; cbn; reflexivity. }
  destruct (split_first 46 t2) as [[p2 t3] |] eqn:E2.
  - (* at least three dots *)
    change 2%nat with (S (S 0)). rewrite splitn_SS.
    destruct (split_first 46 t3) as [[p3 t4] |] eqn:E3; [cbn; discriminate |].
    apply split_first_spec in E2. subst t2.
    cbn [length Nat.eqb orb negb].
    destruct (beq p0 lit_snap) eqn:Eb; cbn [negb]; [| discriminate].
    destruct (split_first 43 p1) as [[a b] |] eqn:E43.
    + destruct (go_validate_instance a) eqn:Ea; cbn [negb]; [| discriminate].
      destruct (go_validate_snap b) eqn:Ebv; cbn [negb]; [| discriminate].
      destruct (beq p2 lit_hook) eqn:Eh; cbn [negb]; [| discriminate].
      destruct (go_validate_hook t3) eqn:Ehk; cbn [negb]; [| discriminate].
      intros H. injection H as <- <- <- <-. apply beq_eq in Eh. subst p2.
      split; [| repeat split; try assumption; discriminate].
      apply (Core [lit_hook; t3]); auto; discriminate.
    + destruct (go_validate_instance p1) eqn:Ea; cbn [negb]; [| discriminate].
      destruct (beq p2 lit_hook) eqn:Eh; cbn [negb]; [| discriminate].
      destruct (go_validate_hook t3) eqn:Ehk; cbn [negb]; [| discriminate].
      intros H. injection H as <- <- <- <-. apply beq_eq in Eh. subst p2.
      split; [| repeat split; try assumption; discriminate].
      apply (Core [lit_hook; t3]); auto; discriminate.
  - (* exactly two dots: an app tag *)
    cbn [length Nat.eqb orb negb].
    destruct (beq p0 lit_snap) eqn:Eb; cbn [negb]; [| discriminate].
    destruct (split_first 43 p1) as [[a b] |] eqn:E43.
    + destruct (go_validate_instance a); cbn [negb]; [| discriminate].
      destruct (go_validate_snap b); cbn [negb]; discriminate.
    + destruct (go_validate_instance p1) eqn:Ea; cbn [negb]; [| discriminate].
      destruct (go_validate_app t2) eqn:Eapp; cbn [negb]; [| discriminate].
      intros H. injection H as <- <- <- <-.
      split; [| repeat split; auto].
      apply (Core [t2]); auto; discriminate.
Qed.

(* a tag the daemon parses as belonging to (instance, component) is accepted by snap-confine for exactly that pair *)
Theorem parsed_tags_accepted tag inst comp (h : bool) name :
  go_parse_security_tag tag = Some (inst, comp, h, name) -> (length tag <= 256)%nat ->
  sc_security_tag_validate tag inst comp = true.
Proof.
  intros H Hl. apply parse_security_tag_inv in H as (-> & Hi & Hc & Hn & Ha).
  apply generated_tags_accepted; assumption.
Qed.

(* snap-confine accepts a tag only for the instance (and component) written in it *)
Lemma sc_tag_instance_is_group1 tag inst comp :
  sc_security_tag_validate tag inst comp = true -> tag_group1 tag = inst /\
  match comp with Some cn => tag_group7 tag = Some cn | None => tag_group7 tag = None end.
Proof.
  unfold sc_security_tag_validate.
  destruct (sc_security_tag_max_len <? length tag)%nat; [discriminate |].
  destruct (rmatch sc_tag_re tag); cbn [negb]; [| discriminate].
  destruct comp as [cn |].
  - destruct (tag_group7 tag) as [g |]; [| discriminate].
    destruct (is_nil_b cn || negb (beq g cn)) eqn:E; [discriminate |].
    apply orb_false_iff in E as [_ E]. apply negb_false_iff in E. apply beq_eq in E. subst g.
    intros H. apply beq_eq in H. auto.
  - destruct (tag_group7 tag); [discriminate |]. intros H. apply beq_eq in H. auto.
Qed.

(* ------------------------------------------------------------------------------------------ snap-confine accepts => ParseSecurityTag parses *)
Lemma lang_dash_star_chars A s :
  lang (dash_star A) s -> forallb (fun c => in_ranges c A || (c =? 45)) s = true.
Proof.
  unfold dash_star. revert s. apply star_ind'; [reflexivity |].
  intros s1 s2 H1 _ IH. apply lang_cat_inv in H1 as (o & x & -> & Ho & Hx).
  apply lang_cls_inv in Hx as (c & -> & Hc). apply lang_opt_inv in Ho as [-> | Ho].
  - cbn. rewrite Hc. exact IH.
  - apply lang_lit in Ho. subst o. cbn. rewrite Hc, orb_true_r. exact IH.
Qed.

Lemma lang_dashed_chars F A s :
  lang (Cat (Cls F) (dash_star A)) s ->
  forallb (fun c => in_ranges c F || in_ranges c A || (c =? 45)) s = true.
Proof.
  intros H. apply lang_cat_inv in H as (s1 & s2 & -> & H1 & H2).
  apply lang_cls_inv in H1 as (c & -> & Hc). apply lang_dash_star_chars in H2.
  cbn. rewrite Hc. cbn. eapply forallb_impl; [| exact H2]. intros x Hx. cbn in Hx.
  apply orb_true_iff in Hx as [Hx | Hx]; rewrite Hx; rewrite ?orb_true_r; reflexivity.
Qed.

Ltac not_sep H :=
  unfold not_dot_plus, not_dot;
  match goal with |- context [?c =? 46] =>
    destruct (N.eqb_spec c 46) as [-> |]; [vm_compute in H; discriminate |];
    try (destruct (N.eqb_spec c 43) as [-> |]; [vm_compute in H; discriminate |]); reflexivity
  end.

Lemma valid_app_chars s : lang valid_app s -> forallb not_dot s = true.
Proof.
  intros H. apply (lang_dashed_chars _ _ s) in H. eapply forallb_impl; [| exact H].
  intros c Hc. cbv beta in Hc. not_sep Hc.
Qed.

Lemma valid_hook_chars s : lang valid_hook s -> forallb not_dot s = true.
Proof.
  intros H. apply (lang_dashed_chars _ _ s) in H. eapply forallb_impl; [| exact H].
  intros c Hc. cbv beta in Hc. not_sep Hc.
Qed.

Lemma re_name_chars s : lang re_name s -> forallb not_dot_plus s = true.
Proof.
  intros H. apply (lang_dashed_chars _ _ s) in H. eapply forallb_impl; [| exact H].
  intros c Hc. cbv beta in Hc. not_sep Hc.
Qed.

Lemma re_g1_chars s : lang re_g1 s -> forallb not_dot_plus s = true.
Proof.
  unfold re_g1. intros H. apply lang_cat_inv in H as (s1 & s23 & -> & H1 & H23).
  apply lang_cat_inv in H23 as (s2 & s3 & -> & H2 & H3).
  apply lang_cls_inv in H1 as (c & -> & Hc). apply lang_dash_star_chars in H2.
  rewrite !forallb_app. cbn [forallb].
  assert (G1 : not_dot_plus c = true) by not_sep Hc.
  assert (G2 : forallb not_dot_plus s2 = true).
  { eapply forallb_impl; [| exact H2]. intros x Hx. cbv beta in Hx. not_sep Hx. }
  assert (G3 : forallb not_dot_plus s3 = true).
  { apply lang_opt_inv in H3 as [-> | H3]; [reflexivity |].
    apply lang_cat_inv in H3 as (u & k & -> & Hu & Hk). apply lang_lit in Hu. subst u.
    apply lang_rep_cls in Hk as [_ Hk]. cbn [app forallb]. change (not_dot_plus 95) with true. cbn [andb].
    eapply forallb_impl; [| exact Hk]. intros x Hx. cbv beta in Hx. not_sep Hx. }
  rewrite G1, G2, G3. reflexivity.
Qed.

Lemma not_dot_plus_dot s : forallb not_dot_plus s = true -> forallb not_dot s = true.
Proof. apply forallb_impl. intros x H. unfold not_dot_plus in H. apply andb_true_iff in H as [H _]. exact H. Qed.

Lemma split_first_app_stop c a b :
  forallb (fun x => negb (x =? c)) a = true -> split_first c (a ++ c :: b) = Some (a, b).
Proof.
  induction a as [|x a IH]; intros H; cbn [app split_first].
  - rewrite N.eqb_refl. reflexivity.
  - cbn in H. apply andb_true_iff in H as [Hx Ha]. apply negb_true_iff in Hx. rewrite Hx, (IH Ha). reflexivity.
Qed.

Lemma split_first_none c a : forallb (fun x => negb (x =? c)) a = true -> split_first c a = None.
Proof.
  intros H. apply (split_first_none_forall c a (fun x => negb (x =? c))); [| exact H].
  rewrite N.eqb_refl. reflexivity.
Qed.

Lemma no_plus_of s : forallb not_dot_plus s = true -> forallb (fun x => negb (x =? 43)) s = true.
Proof. apply forallb_impl. intros x H. unfold not_dot_plus in H. apply andb_true_iff in H as [_ H]. exact H. Qed.

(* ParseSecurityTag on a string of the app form / the hook form *)
Lemma go_parse_app_form inst app :
  forallb not_dot_plus inst = true -> forallb not_dot app = true ->
  go_validate_instance inst = true -> go_validate_app app = true ->
  go_parse_security_tag (lit_snap ++ [46] ++ inst ++ 46 :: app) = Some (inst, None, false, app).
Proof.
  intros Ci Ca Hi Ha. unfold go_parse_security_tag.
  change 5%nat with (S (S 3)). rewrite splitn_SS.
  change (split_first 46 (lit_snap ++ [46] ++ inst ++ 46 :: app)) with (Some (lit_snap, inst ++ 46 :: app)). cbv beta iota.
  change 4%nat with (S (S 2)). rewrite splitn_SS.
  rewrite (split_first_app_stop 46 inst app (not_dot_plus_dot _ Ci)). cbv beta iota.
  change 3%nat with (S (S 1)). rewrite splitn_SS.
  rewrite (split_first_none 46 app Ca). cbv beta iota.
  cbn [List.length Nat.eqb orb negb]. rewrite beq_refl. cbn [negb].
  rewrite (split_first_none 43 inst (no_plus_of _ Ci)). rewrite Hi. cbn [negb]. rewrite Ha. reflexivity.
Qed.

Lemma go_parse_hook_form inst comp hook :
  forallb not_dot_plus inst = true ->
  match comp with Some cn => forallb not_dot_plus cn = true /\ go_validate_snap cn = true | None => True end ->
  forallb not_dot hook = true ->
  go_validate_instance inst = true -> go_validate_hook hook = true ->
  go_parse_security_tag (lit_snap ++ [46] ++ inst ++ (match comp with Some cn => 43 :: cn | None => [] end) ++
                         [46;104;111;111;107;46] ++ hook) = Some (inst, comp, true, hook).
Proof.
  intros Ci Cc Ch Hi Hh. unfold go_parse_security_tag.
  change 5%nat with (S (S 3)). rewrite splitn_SS.
  set (p1 := inst ++ match comp with Some cn => 43 :: cn | None => [] end).
  assert (Cp1 : forallb not_dot p1 = true).
  { unfold p1. rewrite forallb_app, (not_dot_plus_dot _ Ci). destruct comp as [cn |]; [| reflexivity].
    destruct Cc as [Cc _]. cbn [forallb]. rewrite (not_dot_plus_dot _ Cc). reflexivity. }
  assert (E : lit_snap ++ [46] ++ inst ++ (match comp with Some cn => 43 :: cn | None => [] end) ++ [46;104;111;111;107;46] ++ hook =
              lit_snap ++ 46 :: (p1 ++ 46 :: lit_hook ++ 46 :: hook)).
  { unfold p1. rewrite <- !app_assoc. reflexivity. }
  rewrite E.
  change (split_first 46 (lit_snap ++ 46 :: p1 ++ 46 :: lit_hook ++ 46 :: hook))
    with (Some (lit_snap, p1 ++ 46 :: lit_hook ++ 46 :: hook)). cbv beta iota.
  change 4%nat with (S (S 2)). rewrite splitn_SS.
  rewrite (split_first_app_stop 46 p1 _ Cp1). cbv beta iota.
  change 3%nat with (S (S 1)). rewrite splitn_SS.
  change (split_first 46 (lit_hook ++ 46 :: hook)) with (Some (lit_hook, hook)). cbv beta iota.
  change 2%nat with (S (S 0)). rewrite splitn_SS.
  rewrite (split_first_none 46 hook Ch). cbv beta iota.
  cbn [List.length Nat.eqb orb negb]. rewrite beq_refl. cbn [negb].
  unfold p1. destruct comp as [cn |].
  - destruct Cc as [Cc Hc].
    rewrite (split_first_app_stop 43 inst cn (no_plus_of _ Ci)). rewrite Hi. cbn [negb]. rewrite Hc. cbn [negb].
    rewrite beq_refl. cbn [negb]. rewrite Hh. reflexivity.
  - rewrite app_nil_r. rewrite (split_first_none 43 inst (no_plus_of _ Ci)). rewrite Hi. cbn [negb].
    rewrite beq_refl. cbn [negb]. rewrite Hh. reflexivity.
Qed.

(* the missing direction: what snap-confine accepts for a valid instance (and a valid or absent component) is parsed by
   the daemon as a tag of exactly that instance and component *)
Theorem accepted_tags_parsed tag inst comp :
  go_validate_instance inst = true -> comp_ok go_validate_snap comp = true ->
  sc_security_tag_validate tag inst comp = true ->
  exists h name, go_parse_security_tag tag = Some (inst, comp, h, name).
Proof.
  intros Hi Hc Hsc.
  pose proof (sc_tag_instance_is_group1 tag inst comp Hsc) as [Hg1 Hg7].
  unfold sc_security_tag_validate in Hsc.
  destruct (sc_security_tag_max_len <? List.length tag)%nat; [discriminate |].
  destruct (rmatch sc_tag_re tag) eqn:Erm; [| discriminate]. clear Hsc.
  apply rmatch_lang in Erm. rewrite sc_tag_re_shape in Erm.
  apply lang_cat_inv in Erm as (pre & body & -> & Hpre & Hbody). apply lang_lit in Hpre. subst pre.
  apply lang_cat_inv in Hbody as (g1 & tail & -> & Lg1 & Ltail).
  pose proof (re_g1_chars g1 Lg1) as Cg1.
  apply lang_alt_inv in Ltail as [Lapp | Lhook].
  - (* snap.<g1>.<app> *)
    unfold re_app_alt in Lapp. apply lang_cat_inv in Lapp as (d & ap & -> & Hd & Lapp). apply lang_lit in Hd. subst d.
    unfold tag_group1, tag_group7 in *. cbn [app skipn] in Hg1, Hg7.
    rewrite (span_app_stop not_dot_plus g1 46 ap Cg1 eq_refl) in Hg1, Hg7. cbn [fst snd] in Hg1, Hg7. subst g1.
    change (46 =? 43) with false in Hg7. cbv iota in Hg7.
    destruct comp as [cn |]; [discriminate |].
    exists false, ap. change ([115; 110; 97; 112; 46] ++ inst ++ [46] ++ ap) with (lit_snap ++ [46] ++ inst ++ 46 :: ap).
    apply go_parse_app_form; try assumption.
    + apply valid_app_chars. exact Lapp.
    + unfold go_validate_app. apply rmatch_lang. exact Lapp.
  - (* snap.<g1>[+<comp>].hook.<hook> *)
    unfold re_hook_alt in Lhook. apply lang_cat_inv in Lhook as (oc & rest & -> & Hoc & Hrest).
    apply lang_cat_inv in Hrest as (hl & hook & -> & Hhl & Lh). apply lang_lit in Hhl. subst hl.
    assert (Ch : forallb not_dot hook = true) by (apply valid_hook_chars; exact Lh).
    assert (Hh : go_validate_hook hook = true) by (unfold go_validate_hook; apply rmatch_lang; exact Lh).
    unfold tag_group1, tag_group7 in *. cbn [app skipn] in Hg1, Hg7.
    apply lang_opt_inv in Hoc as [-> | Hoc].
    + cbn [app] in Hg1, Hg7.
      rewrite (span_app_stop not_dot_plus g1 46 _ Cg1 eq_refl) in Hg1, Hg7. cbn [fst snd] in Hg1, Hg7. subst g1.
      change (46 =? 43) with false in Hg7. cbv iota in Hg7.
      destruct comp as [cn |]; [discriminate |].
      exists true, hook.
      apply (go_parse_hook_form inst None hook); auto.
    + apply lang_cat_inv in Hoc as (pl & cn & -> & Hpl & Lcn). apply lang_lit in Hpl. subst pl.
      pose proof (re_name_chars cn Lcn) as Ccn.
      cbn [app] in Hg1, Hg7.
      rewrite (span_app_stop not_dot_plus g1 43 _ Cg1 eq_refl) in Hg1, Hg7. cbn [fst snd] in Hg1, Hg7. subst g1.
      change (43 =? 43) with true in Hg7. cbv iota in Hg7.
      rewrite (span_app_stop not_dot cn 46 _ (not_dot_plus_dot _ Ccn) eq_refl) in Hg7. cbn [fst] in Hg7.
      destruct comp as [cn' |]; [| discriminate]. injection Hg7 as <-.
      exists true, hook.
      replace ([115; 110; 97; 112; 46] ++ inst ++ ([43] ++ cn) ++ [46; 104; 111; 111; 107; 46] ++ hook)
        with (lit_snap ++ [46] ++ inst ++ (match Some cn with Some c0 => 43 :: c0 | None => [] end) ++ [46;104;111;111;107;46] ++ hook)
        by reflexivity.
      apply (go_parse_hook_form inst (Some cn) hook); auto.
Qed.

(* ------------------------------------------------------------------------------------------ the daemon's other validators *)
Lemma lang_dash_star_dshape A (al : N -> bool) :
  (forall c, in_ranges c A = al c) -> al 45 = false ->
  forall s, lang (dash_star A) s -> dshape al false s = true.
Proof.
  intros HA H45. unfold dash_star. apply star_ind'; [reflexivity |].
  intros s1 s2 H1 _ IH. apply lang_cat_inv in H1 as (o & x & -> & Ho & Hx).
  apply lang_cls_inv in Hx as (c & -> & Hc). rewrite HA in Hc.
  apply lang_opt_inv in Ho as [-> | Ho].
  - cbn [app]. rewrite dshape_cons, Hc. exact IH.
  - apply lang_lit in Ho. subst o. cbn [app]. rewrite dshape_cons, H45. cbn [N.eqb Pos.eqb negb andb].
    rewrite dshape_cons, Hc. exact IH.
Qed.

Lemma dshape_true_cons al c r : dshape al true (c :: r) = al c && dshape al false r.
Proof. rewrite dshape_cons. destruct (al c); [reflexivity |]. destruct (c =? 45); reflexivity. Qed.

(* F(-?A)* : first byte in F, then the dashed shape over A *)
Lemma lang_dashed_iff F A (al : N -> bool) s :
  (forall c, in_ranges c A = al c) -> al 45 = false ->
  (lang (Cat (Cls F) (dash_star A)) s <->
   match s with c :: r => in_ranges c F && dshape al false r = true | [] => False end).
Proof.
  intros HA H45. rewrite lang_cat_inv. split.
  - intros (s1 & s2 & -> & H1 & H2). apply lang_cls_inv in H1 as (c & -> & Hc).
    cbn [app]. rewrite Hc. cbn [andb]. eapply lang_dash_star_dshape; eassumption.
  - destruct s as [|c r]; [tauto |]. intros H. apply andb_true_iff in H as [Hc Hr].
    exists [c], r. split; [reflexivity |]. split; [constructor; exact Hc |].
    destruct (lang_dash_star_of_dshape A al HA r false Hr) as [G _]. apply G. reflexivity.
Qed.

Theorem go_validate_app_ref s : go_validate_app s = valid_app_name s.
Proof.
  unfold go_validate_app. apply rmatch_char. clear s. intros s. unfold valid_app, valid_app_name.
  change (Star (Cat (Opt (Lit [45])) (Cls [(48, 57); (65, 90); (97, 122)]))) with (dash_star [(48, 57); (65, 90); (97, 122)]).
  rewrite (lang_dashed_iff _ _ app_char s cls_app eq_refl).
  destruct s as [|c r]; [cbn; split; [tauto | discriminate] |].
  rewrite dshape_true_cons, cls_app. reflexivity.
Qed.

Theorem go_validate_hook_ref s : go_validate_hook s = valid_hook_name s.
Proof.
  unfold go_validate_hook. apply rmatch_char. clear s. intros s. unfold valid_hook, valid_hook_name.
  change (Star (Cat (Opt (Lit [45])) (Cls [(48, 57); (97, 122)]))) with (dash_star [(48, 57); (97, 122)]).
  rewrite (lang_dashed_iff _ _ name_char s cls_name eq_refl).
  destruct s as [|c r]; [split; [tauto | discriminate] |].
  rewrite cls_lower. reflexivity.
Qed.

Theorem go_validate_plug_slot_iface_ref s :
  go_validate_plug s = valid_hook_name s /\ go_validate_slot s = valid_hook_name s /\ go_validate_interface s = valid_hook_name s.
Proof.
  unfold go_validate_plug, go_validate_slot, go_validate_interface.
  change valid_plug_slot_iface with valid_hook. fold (go_validate_hook s). rewrite go_validate_hook_ref. auto.
Qed.

Theorem go_validate_provenance_ref s : go_validate_provenance s = valid_app_name s.
Proof.
  unfold go_validate_provenance. change valid_provenance with valid_app. fold (go_validate_app s).
  rewrite go_validate_app_ref. destruct s; reflexivity.
Qed.

Lemma cls_alias c : in_ranges c [(45,46);(48,57);(65,90);(95,95);(97,122)] = alias_char c.
Proof. unfold alias_char, app_char, c_lower, c_digit. cbn [in_ranges]. bool_lia. Qed.

Theorem go_validate_alias_ref s : go_validate_alias s = valid_alias_name s.
Proof.
  unfold go_validate_alias. apply rmatch_char. clear s. intros s. unfold valid_alias, valid_alias_name.
  rewrite lang_cat_inv. split.
  - intros (s1 & s2 & -> & H1 & H2). apply lang_cls_inv in H1 as (c & -> & Hc). apply lang_star_cls in H2.
    cbn [app]. rewrite cls_app in Hc. rewrite Hc. rewrite (forallb_ext_in _ alias_char _ cls_alias) in H2. exact H2.
  - destruct s as [|c r]; [discriminate |]. intros H. apply andb_true_iff in H as [Hc Hr].
    exists [c], r. split; [reflexivity |]. split.
    + constructor. rewrite cls_app. exact Hc.
    + apply lang_star_cls. rewrite (forallb_ext_in _ alias_char _ cls_alias). exact Hr.
Qed.

Theorem go_validate_snap_id_ref s : go_validate_snap_id s = valid_snap_id_name s.
Proof.
  unfold go_validate_snap_id. apply rmatch_char. clear s. intros s. unfold valid_snap_id, valid_snap_id_name.
  rewrite lang_rep_cls. rewrite (forallb_ext_in _ app_char _ cls_app).
  rewrite andb_true_iff, Nat.eqb_eq. intuition lia.
Qed.

Theorem go_validate_socket_iface_tag_ref s :
  go_validate_socket s = valid_dashed_name s /\ go_validate_iface_tag s = valid_dashed_name s.
Proof. unfold go_validate_socket, go_validate_iface_tag, valid_dashed_name. rewrite go_is_valid_name_ref. auto. Qed.

(* a quota group name is valid exactly when it is a valid snap name *)
Theorem go_validate_quota_group_ref s : go_validate_quota_group s = valid_snap_name s.
Proof.
  rewrite <- go_validate_snap_ref.
  unfold go_validate_quota_group, go_validate_snap, go_is_valid_name, go_quota_min_len, go_quota_max_len, go_snap_min_len, go_snap_max_len.
  destruct s as [|c r]; [reflexivity |]. cbn [is_nil_b].
  destruct ((List.length (c :: r) <? 2)%nat || (40 <? List.length (c :: r))%nat); [reflexivity |]. cbn [orb].
  destruct (rmatch almost_valid_name (c :: r)); cbn [negb]; [| reflexivity].
  destruct (hd_is 45 (c :: r) || last_is 45 (c :: r) || contains2 45 45 (c :: r)); reflexivity.
Qed.

(* ------------------------------------------------------------------------------------------ Go accepts iff C accepts *)
Theorem go_iff_c_names : forall s : bytes,
  go_validate_snap s = sc_snap_name_validate s /\ go_validate_snap s = sun_validate_snap_name s /\
  go_validate_instance s = sc_instance_name_validate s /\ go_validate_instance s = sun_validate_instance_name s /\
  go_validate_component s = sc_snap_component_validate s.
Proof.
  intros s. rewrite go_validate_snap_ref, sc_snap_name_validate_ref, sun_validate_snap_name_ref, go_validate_instance_ref,
    sc_instance_name_validate_ref, sun_validate_instance_name_ref, go_validate_component_ref, sc_snap_component_validate_ref.
  auto.
Qed.

(* the recorded finding carved out exactly: a tag generated from accepted names is accepted by snap-confine if and only if
   it is at most 256 bytes long *)
Theorem generated_tags_accepted_iff (inst : bytes) (comp : option bytes) (is_hook : bool) (name : bytes) :
  go_validate_instance inst = true ->
  comp_ok go_validate_snap comp = true ->
  (if is_hook then go_validate_hook name else go_validate_app name) = true ->
  (is_hook = false -> comp = None) ->
  (sc_security_tag_validate (model_tag inst comp is_hook name) inst comp = true <->
   (List.length (model_tag inst comp is_hook name) <= 256)%nat).
Proof.
  intros Hi Hc Hn Ha. split.
  - unfold sc_security_tag_validate, sc_security_tag_max_len.
    destruct (Nat.ltb_spec 256 (List.length (model_tag inst comp is_hook name))); [discriminate | intros _; assumption].
  - intros Hl. apply generated_tags_accepted; assumption.
Qed.

(* ------------------------------------------------------------------------------------------ sc_is_hook_security_tag *)
(* a hook tag of a snap whose name starts with a letter and that is not a component hook is recognised *)
Theorem is_hook_tag_recognised inst hook :
  go_validate_instance inst = true -> go_validate_hook hook = true ->
  match inst with c :: _ => c_lower c = true | [] => False end ->
  sc_is_hook_security_tag (go_hook_tag inst None hook) = true.
Proof.
  intros Hi Hh Hc. rewrite go_validate_instance_ref in Hi. apply valid_instance_name_lang in Hi.
  unfold go_validate_hook in Hh. apply rmatch_lang in Hh.
  unfold re_g1 in Hi. apply lang_cat_inv in Hi as (s1 & s23 & -> & H1 & H23).
  apply lang_cat_inv in H23 as (s2 & s3 & -> & H2 & H3).
  apply lang_cls_inv in H1 as (c & -> & _). cbn [app] in Hc.
  unfold sc_is_hook_security_tag. apply rmatch_lang. unfold sc_hook_tag_re, go_hook_tag.
  change (lit_snap ++ [46] ++ ([c] ++ s2 ++ s3) ++ [46] ++ lit_hook ++ [46] ++ hook)
    with ([115;110;97;112;46] ++ ([c] ++ (s2 ++ s3) ++ [46] ++ [104;111;111;107;46] ++ hook)).
  constructor; [apply lang_lit; reflexivity |].
  constructor; [constructor; rewrite cls_lower; exact Hc |].
  rewrite <- app_assoc. constructor; [exact H2 |].
  constructor; [exact H3 |].
  constructor; [apply lang_lit; reflexivity |].
  constructor; [apply lang_lit; reflexivity | exact Hh].
Qed.

(* but hook tags of snaps whose name starts with a digit, and all component hook tags, are not: both are hook tags for the
   daemon and are accepted by sc_security_tag_validate *)
Theorem is_hook_tag_refuted :
  exists tag inst comp hook,
    go_parse_security_tag tag = Some (inst, comp, true, hook) /\ sc_security_tag_validate tag inst comp = true /\
    sc_is_hook_security_tag tag = false.
Proof. exists (lit_snap ++ [46; 48; 97; 100; 46] ++ lit_hook ++ [46; 120]), [48; 97; 100], None, [120]. vm_compute. auto. Qed.

Lemma is_hook_component_example :
  go_parse_security_tag (go_hook_tag [102;111;111] (Some [99;111;109;112]) [120]) = Some ([102;111;111], Some [99;111;109;112], true, [120]) /\
  sc_security_tag_validate (go_hook_tag [102;111;111] (Some [99;111;109;112]) [120]) [102;111;111] (Some [99;111;109;112]) = true /\
  sc_is_hook_security_tag (go_hook_tag [102;111;111] (Some [99;111;109;112]) [120]) = false.
Proof. vm_compute. auto. Qed.

(* ------------------------------------------------------------------------------------------ the statements of props/C24.v *)
Theorem snap_name_agree : forall s : bytes,
  go_validate_snap s = valid_snap_name s /\ sc_snap_name_validate s = valid_snap_name s /\
  sun_validate_snap_name s = valid_snap_name s.
Proof. intros s. repeat split; [apply go_validate_snap_ref | apply sc_snap_name_validate_ref | apply sun_validate_snap_name_ref]. Qed.

Theorem instance_key_agree : forall k : bytes,
  rmatch NamingRegexes.valid_instance_key k = valid_key k /\ sc_instance_key_validate k = valid_key k /\
  sun_instance_key_validate k = valid_key k.
Proof. intros k. repeat split; [apply go_instance_key_ref | apply sc_instance_key_validate_ref | apply sun_instance_key_validate_ref]. Qed.

Theorem instance_name_agree : forall s : bytes,
  go_validate_instance s = valid_instance_name s /\ sc_instance_name_validate s = valid_instance_name s /\
  sun_validate_instance_name s = valid_instance_name s.
Proof. intros s. repeat split; [apply go_validate_instance_ref | apply sc_instance_name_validate_ref | apply sun_validate_instance_name_ref]. Qed.

Theorem component_agree : forall s : bytes,
  go_validate_component s = valid_component s /\ sc_snap_component_validate s = valid_component s.
Proof. intros s. split; [apply go_validate_component_ref | apply sc_snap_component_validate_ref]. Qed.

Theorem generated_tags_overlong_refuted :
  exists inst app : bytes,
    go_validate_instance inst = true /\ go_validate_app app = true /\
    sc_security_tag_validate (model_tag inst None false app) inst None = false.
Proof. exists [97;98], long_app. exact overlong_generated_tag_rejected. Qed.

Theorem tag_iff : forall (tag inst : bytes) (comp : option bytes),
  (List.length tag <= 256)%nat ->
  go_validate_instance inst = true -> comp_ok go_validate_snap comp = true ->
  (sc_security_tag_validate tag inst comp = true <->
   exists h name, go_parse_security_tag tag = Some (inst, comp, h, name)).
Proof.
  intros tag inst comp Hl Hi Hc. split.
  - apply accepted_tags_parsed; assumption.
  - intros (h & name & H). eapply parsed_tags_accepted; eassumption.
Qed.

(* snap-confine only accepts a tag for the instance and component literally written in it (no validity hypothesis) *)
Theorem tag_names_instance : forall (tag inst : bytes) (comp : option bytes),
  sc_security_tag_validate tag inst comp = true ->
  tag_group1 tag = inst /\ match comp with Some cn => tag_group7 tag = Some cn | None => tag_group7 tag = None end.
Proof. exact sc_tag_instance_is_group1. Qed.

Theorem other_validators_ref : forall s : bytes,
  go_validate_app s = valid_app_name s /\ go_validate_provenance s = valid_app_name s /\
  go_validate_hook s = valid_hook_name s /\ go_validate_plug s = valid_hook_name s /\
  go_validate_slot s = valid_hook_name s /\ go_validate_interface s = valid_hook_name s /\
  go_validate_alias s = valid_alias_name s /\ go_validate_snap_id s = valid_snap_id_name s /\
  go_validate_socket s = valid_dashed_name s /\ go_validate_iface_tag s = valid_dashed_name s /\
  go_validate_quota_group s = valid_snap_name s.
Proof.
  intros s. destruct (go_validate_plug_slot_iface_ref s) as (P1 & P2 & P3).
  destruct (go_validate_socket_iface_tag_ref s) as (S1 & S2).
  repeat split; auto using go_validate_app_ref, go_validate_provenance_ref, go_validate_hook_ref, go_validate_alias_ref,
    go_validate_snap_id_ref, go_validate_quota_group_ref.
Qed.
