(* Proofs about models/TaskEngine.v, part 9 (C03): the Wait branch of Change.Status.
   The memoised, early-exit isTaskWaiting / isChangeWaiting equal the memo-free statement waiting_spec /
   change_waiting_spec on graphs whose wait and halt edges are acyclic, in states where a pending Do task never waits
   for an Undo task and an Undo task is never waited for by a Do task (true of every reachable state). Stdlib only. *)
From Coq Require Import List NArith ZArith Bool Arith Lia.
Import ListNotations.
Require Import V.models.TaskEngine V.proofs.TaskEngineProofs V.proofs.TaskEngineStatus V.proofs.TaskEngineReady
               V.proofs.TaskEngineDoing V.proofs.TaskEngineFuel V.proofs.TaskEngineLive.

Lemma forallb_ext_in : forall (A : Type) (f h : A -> bool) (l : list A),
  (forall x, In x l -> f x = h x) -> forallb f l = forallb h l.
Proof. induction l as [|a l IH]; simpl; intros H; [reflexivity|]. rewrite H by (left; reflexivity). rewrite IH; auto. Qed.
Lemma existsb_ext_in : forall (A : Type) (f h : A -> bool) (l : list A),
  (forall x, In x l -> f x = h x) -> existsb f l = existsb h l.
Proof. induction l as [|a l IH]; simpl; intros H; [reflexivity|]. rewrite H by (left; reflexivity). rewrite IH; auto. Qed.

Lemma change_status_wait : forall l, has_status l Wait = true ->
  change_status l = if is_change_waiting l then Wait
                    else match find (has_status l) status_order with Some x => x | None => Hold end.
Proof. intros l H. unfold change_status. destruct l; [discriminate H|]. rewrite H. reflexivity. Qed.

Lemma agg_spec_wait : forall g l, has_status l Wait = true ->
  agg_spec g (map t_st l) =
  if change_waiting_spec g (map t_st l) then Wait
  else match find (has_status l) status_order with Some x => x | None => Hold end.
Proof.
  intros g l H. unfold agg_spec. destruct l as [|a l']; [discriminate H|]. set (L := a :: l') in *.
  change (map t_st L) with (t_st a :: map t_st l'). cbv beta iota. change (t_st a :: map t_st l') with (map t_st L).
  destruct (change_waiting_spec g (map t_st L)); [reflexivity|].
  rewrite !occurs_has. unfold status_order. cbn [find].
  repeat (match goal with |- context [has_status L ?x] => destruct (has_status L x) end; try reflexivity).
Qed.

Section WaitBranch.
  Variable g : list tdesc.
  Variable l : list task.
  Variables rk rk2 : nat -> nat.
  Hypothesis HL : length l = length g.
  Hypothesis HW : forall t, t_waits (nth t l dummy) = waits_g g t.
  Hypothesis HH : forall t, t_halts (nth t l dummy) = halts_of g t.
  Hypothesis HR1 : forall t w, In w (waits_g g t) -> rk w < rk t.
  Hypothesis HR2 : forall t h, In h (halts_of g t) -> rk2 h < rk2 t.
  Hypothesis NM1 : forall t d, stl l t = Do -> In d (waits_g g t) -> stl l d <> Undo.
  Hypothesis NM2 : forall t d, stl l t = Undo -> In d (halts_of g t) -> stl l d <> Do.

  Let n := length g.
  Let sts := map t_st l.

  Lemma sts_nth : forall d, nth d sts Hold = stl l d.
  Proof. intros; unfold sts; symmetry; apply stl_map. Qed.

  Definition pend (x : status) : bool := seqb x Do || seqb x Undo.

  Definition cnt (r : nat -> nat) (t : nat) : nat := length (filter (fun x => r x <? r t) (seq 0 n)).
  Definition ms (t : nat) : nat := match stl l t with Do => cnt rk t | Undo => cnt rk2 t | _ => 0 end.

  Lemma cnt_lt : forall r d t, d < n -> r d < r t -> cnt r d < cnt r t.
  Proof.
    intros r d t Hd Hr. unfold cnt. apply filter_length_lt with d.
    - intros y Hy. apply Nat.ltb_lt in Hy. apply Nat.ltb_lt. lia.
    - apply in_seq. lia.
    - apply Nat.ltb_lt. assumption.
    - apply Nat.ltb_ge. lia.
  Qed.

  Lemma ms_le : forall t, ms t <= n.
  Proof.
    intros t. unfold ms, cnt. pose proof (filter_length_le _ (fun x => rk x <? rk t) (seq 0 n)).
    pose proof (filter_length_le _ (fun x => rk2 x <? rk2 t) (seq 0 n)). rewrite seq_length in *.
    destruct (stl l t); lia.
  Qed.

  Definition deps_of (t : nat) : list nat := if seqb (stl l t) Do then waits_g g t else halts_of g t.

  Lemma in_range_l : forall d, stl l d <> Hold -> d < n.
  Proof.
    intros d H. unfold n. rewrite <- HL. destruct (Nat.lt_ge_cases d (length l)); [assumption|].
    exfalso. apply H. apply stl_out. assumption.
  Qed.

  Lemma dep_measure : forall t d, pend (stl l t) = true -> In d (deps_of t) -> pend (stl l d) = true -> ms d < ms t.
  Proof.
    intros t d Ht Hd Hp. unfold deps_of in Hd. unfold ms.
    assert (Ld : d < n) by (apply in_range_l; intros E; rewrite E in Hp; discriminate).
    destruct (stl l t) eqn:Et; try discriminate Ht; simpl in Hd.
    - (* t in Do: d in waits, d cannot be Undo *)
      pose proof (NM1 t d Et Hd) as N. destruct (stl l d) eqn:Ed; try discriminate Hp; [|congruence].
      apply cnt_lt; auto.
    - pose proof (NM2 t d Et Hd) as N. destruct (stl l d) eqn:Ed; try discriminate Hp; [congruence|].
      apply cnt_lt; auto.
  Qed.

  (* the memo-free statement does not depend on its fuel once the fuel exceeds the measure *)
  Definition waitish_with (f : nat) (d : nat) : bool :=
    let sd := nth d sts Hold in
    if seqb sd Wait then true else if seqb sd Do || seqb sd Undo then waiting_spec f g sts d else false.

  Lemma waiting_spec_S : forall f t,
    waiting_spec (S f) g sts t =
    (if forallb (fun d => if ready (nth d sts Hold) then true else waitish_with f d) (deps_of t)
     then existsb (waitish_with f) (deps_of t) else false).
  Proof. intros. unfold deps_of. rewrite <- sts_nth. reflexivity. Qed.

  Lemma spec_indep_aux : forall k t f f', ms t < k -> pend (stl l t) = true -> ms t < f -> ms t < f' ->
    waiting_spec f g sts t = waiting_spec f' g sts t.
  Proof.
    induction k; intros t f f' Hk Hp Hf Hf'; [lia|].
    destruct f as [|f]; [lia|]. destruct f' as [|f']; [lia|].
    rewrite !waiting_spec_S.
    assert (E : forall d, In d (deps_of t) -> waitish_with f d = waitish_with f' d).
    { intros d Hd. unfold waitish_with. rewrite sts_nth.
      destruct (seqb (stl l d) Wait); [reflexivity|].
      destruct (seqb (stl l d) Do || seqb (stl l d) Undo) eqn:Ep; [|reflexivity].
      pose proof (dep_measure t d Hp Hd Ep) as M. apply IHk; auto; lia. }
    rewrite (forallb_ext_in _ _ (fun d => if ready (nth d sts Hold) then true else waitish_with f' d) (deps_of t))
      by (intros d Hd; rewrite (E d Hd); reflexivity).
    rewrite (existsb_ext_in _ (waitish_with f) (waitish_with f') (deps_of t) E). reflexivity.
  Qed.

  Definition W (t : nat) : bool := waiting_spec (S (ms t)) g sts t.

  Lemma spec_indep : forall t f, pend (stl l t) = true -> ms t < f -> waiting_spec f g sts t = W t.
  Proof. intros. unfold W. apply (spec_indep_aux (S (ms t))); auto; lia. Qed.

  Definition waitishW (d : nat) : bool :=
    seqb (stl l d) Wait || (pend (stl l d) && W d).
  Definition okW (d : nat) : bool := ready (stl l d) || waitishW d.

  Lemma W_unfold : forall t, pend (stl l t) = true ->
    W t = (if forallb okW (deps_of t) then existsb waitishW (deps_of t) else false).
  Proof.
    intros t Hp. unfold W. rewrite waiting_spec_S.
    assert (E : forall d, In d (deps_of t) -> waitish_with (ms t) d = waitishW d).
    { intros d Hd. unfold waitish_with, waitishW, pend. rewrite sts_nth.
      destruct (seqb (stl l d) Wait); [reflexivity|]. simpl.
      destruct (seqb (stl l d) Do || seqb (stl l d) Undo) eqn:Ep; [|reflexivity]. simpl.
      apply spec_indep; [exact Ep | apply dep_measure; auto]. }
    rewrite (forallb_ext_in _ _ okW (deps_of t)).
    - rewrite (existsb_ext_in _ _ waitishW (deps_of t) E). reflexivity.
    - intros d Hd. unfold okW. rewrite sts_nth, (E d Hd). destruct (ready (stl l d)); reflexivity.
  Qed.

  (* ------------------------------------------------------------------ the memo *)
  Definition msound (v : list (nat * nat)) : Prop :=
    forall x, (vget v x = 3 -> W x = true) /\ (vget v x = 2 -> W x = false).

  Lemma vget_cons : forall k c v x, vget ((k, c) :: v) x = if Nat.eqb k x then c else vget v x.
  Proof. reflexivity. Qed.

  (* statuses met by the loop *)
  Lemma okW_cases : forall d,
    (stl l d = Wait -> okW d = true /\ waitishW d = true) /\
    (ready (stl l d) = true -> okW d = true /\ waitishW d = false) /\
    (pend (stl l d) = true -> okW d = W d /\ waitishW d = W d) /\
    (stl l d = Doing \/ stl l d = Abort \/ stl l d = Undoing -> okW d = false).
  Proof.
    intros d. unfold okW, waitishW, pend. destruct (stl l d) eqn:E; simpl;
      (split; [|split; [|split]]); intro X; try discriminate X;
      try (destruct X as [X|[X|X]]; discriminate X); try (split; reflexivity); try reflexivity;
      try (destruct (W d); split; reflexivity).
  Qed.

  Definition loop_val (ds : list nat) (w0 : bool) : bool :=
    if forallb okW ds then w0 || existsb waitishW ds else false.

  (* the recursive call behaves: value W, memo stays sound, no new visible computing marks *)
  Definition rec_ok (rec : list (nat * nat) -> nat -> list nat -> bool * list (nat * nat)) (bound : nat) : Prop :=
    forall v d, pend (stl l d) = true -> ms d < bound -> msound v -> (forall x, vget v x = 1 -> ms d < ms x) ->
      fst (rec v d (deps_of d)) = W d /\ msound (snd (rec v d (deps_of d))) /\
      (forall x, vget (snd (rec v d (deps_of d))) x = 1 -> vget v x = 1).

  Lemma deps_of_do : forall d, stl l d = Do -> t_waits (nth d l dummy) = deps_of d.
  Proof. intros d H. unfold deps_of. rewrite H, HW. reflexivity. Qed.
  Lemma deps_of_undo : forall d, stl l d = Undo -> t_halts (nth d l dummy) = deps_of d.
  Proof. intros d H. unfold deps_of. rewrite H, HH. reflexivity. Qed.

  Lemma tw_loop_ok : forall rec bound t (ones : nat -> Prop),
    rec_ok rec bound -> pend (stl l t) = true -> ms t <= bound -> (forall x, ones x -> ms t <= ms x) ->
    forall ds w0 v,
      (forall d, In d ds -> In d (deps_of t)) -> msound v -> (forall x, vget v x = 1 -> ones x) ->
      fst (tw_loop rec l ds w0 v) = loop_val ds w0 /\ msound (snd (tw_loop rec l ds w0 v)) /\
      (forall x, vget (snd (tw_loop rec l ds w0 v)) x = 1 -> ones x).
  Proof.
    intros rec bound t ones Hrec Hp Hb Hones.
    induction ds as [|d r IH]; intros w0 v Hin Hs Ho.
    - simpl. unfold loop_val. simpl. rewrite orb_false_r. auto.
    - assert (Hin' : forall d0, In d0 r -> In d0 (deps_of t)) by (intros; apply Hin; right; assumption).
      destruct (okW_cases d) as (C1 & C2 & C3 & C4).
      simpl tw_loop. change (t_st (nth d l dummy)) with (stl l d).
      unfold loop_val. simpl forallb. simpl existsb.
      destruct (stl l d) eqn:Ed.
      + (* Hold *) destruct (C2 eq_refl) as [A B]. rewrite A, B. simpl. apply (IH w0 v Hin' Hs Ho).
      + (* Do *)
        destruct (C3 eq_refl) as [A B]. rewrite A, B.
        rewrite (deps_of_do d Ed).
        assert (Md : ms d < ms t) by (apply dep_measure; auto; [apply Hin; left; reflexivity | rewrite Ed; reflexivity]).
        destruct (Hrec v d) as (R1 & R2 & R3); [rewrite Ed; reflexivity | lia | assumption | |].
        { intros x Hx. specialize (Hones x (Ho x Hx)). lia. }
        destruct (rec v d (deps_of d)) as [w' v']; simpl in R1, R2, R3. subst w'.
        destruct (W d); simpl.
        * destruct (IH true v' Hin' R2 (fun x Hx => Ho x (R3 x Hx))) as (I1 & I2 & I3).
          split; [|split; assumption]. rewrite I1. unfold loop_val. destruct (forallb okW r); simpl; [|reflexivity].
          rewrite orb_true_r. reflexivity.
        * split; [reflexivity | split; [assumption | intros x Hx; apply Ho, R3, Hx]].
      + (* Doing *) rewrite (C4 (or_introl eq_refl)). simpl. auto.
      + (* Done *) destruct (C2 eq_refl) as [A B]. rewrite A, B. simpl. apply (IH w0 v Hin' Hs Ho).
      + (* Abort *) rewrite (C4 (or_intror (or_introl eq_refl))). simpl. auto.
      + (* Undo *)
        destruct (C3 eq_refl) as [A B]. rewrite A, B.
        rewrite (deps_of_undo d Ed).
        assert (Md : ms d < ms t) by (apply dep_measure; auto; [apply Hin; left; reflexivity | rewrite Ed; reflexivity]).
        destruct (Hrec v d) as (R1 & R2 & R3); [rewrite Ed; reflexivity | lia | assumption | |].
        { intros x Hx. specialize (Hones x (Ho x Hx)). lia. }
        destruct (rec v d (deps_of d)) as [w' v']; simpl in R1, R2, R3. subst w'.
        destruct (W d); simpl.
        * destruct (IH true v' Hin' R2 (fun x Hx => Ho x (R3 x Hx))) as (I1 & I2 & I3).
          split; [|split; assumption]. rewrite I1. unfold loop_val. destruct (forallb okW r); simpl; [|reflexivity].
          rewrite orb_true_r. reflexivity.
        * split; [reflexivity | split; [assumption | intros x Hx; apply Ho, R3, Hx]].
      + (* Undoing *) rewrite (C4 (or_intror (or_intror eq_refl))). simpl. auto.
      + (* Undone *) destruct (C2 eq_refl) as [A B]. rewrite A, B. simpl. apply (IH w0 v Hin' Hs Ho).
      + (* Error *) destruct (C2 eq_refl) as [A B]. rewrite A, B. simpl. apply (IH w0 v Hin' Hs Ho).
      + (* Wait *)
        destruct (C1 eq_refl) as [A B]. rewrite A, B. simpl.
        destruct (IH true v Hin' Hs Ho) as (I1 & I2 & I3). split; [|split; assumption].
        rewrite I1. unfold loop_val. destruct (forallb okW r); simpl; [|reflexivity]. rewrite orb_true_r. reflexivity.
  Qed.

  Lemma task_waiting_ok : forall f, rec_ok (task_waiting f l) f.
  Proof.
    induction f; intros v d Hp Hm Hs Hc; [lia|].
    simpl task_waiting.
    destruct (Hs d) as [S3 S2].
    destruct (vget v d) as [|[|[|[|k]]]] eqn:Ev.
    - (* not computed *)
      pose proof (tw_loop_ok (task_waiting f l) f d (fun x => x = d \/ vget v x = 1) IHf Hp) as L.
      destruct (L ltac:(lia)
                  ltac:(intros x [->|Hx]; [lia | specialize (Hc x Hx); lia])
                  (deps_of d) false ((d, 1) :: v) (fun _ H => H)) as (L1 & L2 & L3).
      + intros x. cbn [vget]. destruct (Nat.eqb d x) eqn:E; [split; intros F; discriminate F | apply Hs].
      + intros x. cbn [vget]. destruct (Nat.eqb d x) eqn:E; [apply Nat.eqb_eq in E; auto | auto].
      + destruct (tw_loop (task_waiting f l) l (deps_of d) false ((d, 1) :: v)) as [w v2]; simpl in *.
        assert (Ew : w = W d).
        { rewrite L1. unfold loop_val. rewrite (W_unfold d Hp). simpl. reflexivity. }
        split; [assumption|]. split.
        * intros x. cbn [vget]. destruct (Nat.eqb d x) eqn:E; [|apply L2].
          apply Nat.eqb_eq in E. subst x. rewrite Ew. destruct (W d); split; intros F; try discriminate F; reflexivity.
        * intros x. cbn [vget]. destruct (Nat.eqb d x) eqn:E.
          -- destruct w; intros F; discriminate F.
          -- intros Hx. destruct (L3 x Hx) as [->|H]; [rewrite Nat.eqb_refl in E; discriminate | assumption].
    - exfalso. specialize (Hc d Ev). lia.
    - simpl. rewrite (S2 eq_refl). auto.
    - simpl. rewrite (S3 eq_refl). auto.
    - (* a value that is never stored: treated as not computed *)
      pose proof (tw_loop_ok (task_waiting f l) f d (fun x => x = d \/ vget v x = 1) IHf Hp) as L.
      destruct (L ltac:(lia)
                  ltac:(intros x [->|Hx]; [lia | specialize (Hc x Hx); lia])
                  (deps_of d) false ((d, 1) :: v) (fun _ H => H)) as (L1 & L2 & L3).
      + intros x. cbn [vget]. destruct (Nat.eqb d x) eqn:E; [split; intros F; discriminate F | apply Hs].
      + intros x. cbn [vget]. destruct (Nat.eqb d x) eqn:E; [apply Nat.eqb_eq in E; auto | auto].
      + destruct (tw_loop (task_waiting f l) l (deps_of d) false ((d, 1) :: v)) as [w v2]; simpl in *.
        assert (Ew : w = W d).
        { rewrite L1. unfold loop_val. rewrite (W_unfold d Hp). simpl. reflexivity. }
        split; [assumption|]. split.
        * intros x. cbn [vget]. destruct (Nat.eqb d x) eqn:E; [|apply L2].
          apply Nat.eqb_eq in E. subst x. rewrite Ew. destruct (W d); split; intros F; try discriminate F; reflexivity.
        * intros x. cbn [vget]. destruct (Nat.eqb d x) eqn:E.
          -- destruct w; intros F; discriminate F.
          -- intros Hx. destruct (L3 x Hx) as [->|H]; [rewrite Nat.eqb_refl in E; discriminate | assumption].
  Qed.

  (* ------------------------------------------------------------------ isChangeWaiting *)
  Definition cw_fun (t : nat) : bool :=
    let x := nth t sts Hold in
    if ready x || seqb x Wait then true
    else if seqb x Do || seqb x Undo then waiting_spec (S (length g)) g sts t else false.

  Lemma cw_fun_val : forall t,
    cw_fun t = (ready (stl l t) || seqb (stl l t) Wait) || (pend (stl l t) && W t).
  Proof.
    intros t. unfold cw_fun. cbv zeta. rewrite sts_nth.
    destruct (ready (stl l t) || seqb (stl l t) Wait); [reflexivity|]. simpl orb.
    fold (pend (stl l t)). destruct (pend (stl l t)) eqn:Ep; [|reflexivity]. simpl andb.
    apply spec_indep; [assumption|]. pose proof (ms_le t). unfold n in *. lia.
  Qed.

  Lemma change_waiting_loop_ok : forall ids v,
    msound v -> (forall x, vget v x <> 1) ->
    change_waiting_loop l ids v = forallb cw_fun ids.
  Proof.
    induction ids as [|t r IH]; intros v Hs Hn; [reflexivity|].
    cbn [change_waiting_loop forallb]. cbv zeta. change (t_st (nth t l dummy)) with (stl l t).
    rewrite cw_fun_val.
    pose proof (task_waiting_ok (S (length l))) as Rk.
    assert (Fuel : forall d, ms d < S (length l)) by (intros d; pose proof (ms_le d); unfold n in *; lia).
    destruct (stl l t) eqn:Et; cbn [ready seqb pend orb andb]; try (apply IH; assumption); try reflexivity.
    - (* Do *)
      rewrite (deps_of_do t Et).
      destruct (Rk v t) as (R1 & R2 & R3); [rewrite Et; reflexivity | apply Fuel | assumption | intros x Hx; exfalso; eapply Hn; eauto|].
      destruct (task_waiting (S (length l)) l v t (deps_of t)) as [w v']; cbn [fst snd] in R1, R2, R3. subst w.
      destruct (W t); [|reflexivity]. apply IH; [assumption|]. intros x Hx. apply (Hn x). apply R3. exact Hx.
    - (* Undo *)
      rewrite (deps_of_undo t Et).
      destruct (Rk v t) as (R1 & R2 & R3); [rewrite Et; reflexivity | apply Fuel | assumption | intros x Hx; exfalso; eapply Hn; eauto|].
      destruct (task_waiting (S (length l)) l v t (deps_of t)) as [w v']; cbn [fst snd] in R1, R2, R3. subst w.
      destruct (W t); [|reflexivity]. apply IH; [assumption|]. intros x Hx. apply (Hn x). apply R3. exact Hx.
  Qed.

  Lemma is_change_waiting_spec : has_status l Wait = true -> is_change_waiting l = change_waiting_spec g sts.
  Proof.
    intros Hw. unfold is_change_waiting, change_waiting_spec.
    assert (E : existsb (fun x => seqb x Wait) sts = true).
    { change (existsb (fun x => seqb x Wait) sts) with (occurs sts Wait). unfold sts. rewrite occurs_has. exact Hw. }
    rewrite E. rewrite HL. apply change_waiting_loop_ok.
    - intros x. split; intros F; discriminate F.
    - intros x F. discriminate F.
  Qed.

  (* C03: Change.Status equals the documented aggregate, Wait branch included *)
  Theorem change_status_is_aggregate : change_status l = agg_spec g (map t_st l).
  Proof.
    destruct (has_status l Wait) eqn:Hw; [|apply change_status_is_priority_aggregate; assumption].
    rewrite (change_status_wait l Hw), (agg_spec_wait g l Hw), (is_change_waiting_spec Hw). reflexivity.
  Qed.
End WaitBranch.

(* C03: in every reachable state of a tame history on a closed acyclic graph, Change.Status equals the documented
   aggregate (Wait branch included) *)
Theorem status_is_aggregate_reachable : forall (g : list tdesc) (rk : nat -> nat) (es : list event),
  g <> [] -> closed g -> (forall t w, In w (waits_g g t) -> rk w < rk t) ->
  tame (init_state g) es ->
  let s := run_events (init_state g) es in
  change_status (tasks s) = agg_spec g (map t_st (tasks s)).
Proof.
  intros g rk es Hg Hc Hrk Ht s.
  assert (Fr : shapes s = shapes (init_state g)) by apply shapes_run_events.
  destruct (kfull_run_events es (init_state g) Ht (inv_init g Hg) (sym_init g) (or_intror (kgood_init g Hc))) as [O|[K _]].
  { pose proof (oof_never g es) as N. congruence. }
  fold s in K.
  assert (Rs : rsym s) by (eapply rsym_shapes; [exact Fr | apply rsym_init]).
  assert (Wt : forall t, t_waits (nth t (tasks s) dummy) = waits_g g t).
  { intros t. change (t_waits (nth t (tasks s) dummy)) with (wts s t). rewrite (wts_frame (init_state g) s t Fr).
    destruct (get_init g t) as (_ & _ & E & _). exact E. }
  assert (Hh : forall t, t_halts (nth t (tasks s) dummy) = halts_of g t).
  { intros t. change (t_halts (nth t (tasks s) dummy)) with (hts s t). rewrite hts_shapes, Fr, <- hts_shapes.
    unfold hts, get. cbn [tasks init_state].
    destruct (Nat.lt_ge_cases t (length g)) as [L|L].
    - rewrite init_nth by assumption. destruct (nth t g ([], [], false)) as [[a b] c]. reflexivity.
    - rewrite nth_overflow by (unfold init_tasks; rewrite map_length, seq_length; assumption).
      unfold halts_of. simpl t_halts.
      destruct (filter (fun h => memn t (snd (fst (nth h g ([], [], false))))) (seq 0 (length g))) as [|h r] eqn:Ef; [reflexivity|].
      exfalso. assert (Hin : In h (filter (fun h => memn t (snd (fst (nth h g ([], [], false))))) (seq 0 (length g))))
        by (rewrite Ef; left; reflexivity).
      apply filter_In in Hin. destruct Hin as [_ Hm]. apply memn_In in Hm. pose proof (Hc h t Hm). lia. }
  assert (Len : length (tasks s) = length g).
  { rewrite len_shapes, Fr, <- len_shapes. cbn [tasks init_state]. unfold init_tasks. rewrite map_length, seq_length. reflexivity. }
  set (B := list_max (map rk (seq 0 (length g)))).
  assert (HB : forall h, h < length g -> rk h <= B).
  { intros h Hlt. assert (F : Forall (fun k => k <= B) (map rk (seq 0 (length g)))) by (apply list_max_le; unfold B; lia).
    rewrite Forall_forall in F. apply F. apply in_map. apply in_seq. lia. }
  apply (change_status_is_aggregate g (tasks s) rk (fun x => B - rk x)); auto.
  - intros t h Hin. unfold halts_of in Hin. apply filter_In in Hin. destruct Hin as [Hs Hm].
    apply in_seq in Hs. apply memn_In in Hm. pose proof (Hrk h t Hm). pose proof (HB h ltac:(lia)). lia.
  - (* a Do task never waits for an Undo task *)
    intros t d Et Hd Ed. change (stl (tasks s) t) with (st s t) in Et. change (stl (tasks s) d) with (st s d) in Ed.
    assert (Hw : In d (wts s t)) by (unfold wts, get; rewrite Wt; exact Hd).
    pose proof (K t d Et Hw) as Lv. rewrite (lv_false_of s d Undo Ed) in Lv; [discriminate | discriminate | reflexivity].
  - (* an Undo task is never waited for by a Do task *)
    intros t d Et Hd Ed. change (stl (tasks s) t) with (st s t) in Et. change (stl (tasks s) d) with (st s d) in Ed.
    assert (Hh' : In d (hts s t)) by (unfold hts, get; rewrite Hh; exact Hd).
    pose proof (K d t Ed (Rs t d Hh')) as Lv. rewrite (lv_false_of s t Undo Et) in Lv; [discriminate | discriminate | reflexivity].
Qed.
