(* C33 — unbounded agreement of the model of strutil.VersionCompare with the model of dpkg's verrevcmp
   (models/Version.v), for all structurally valid Debian versions made of real non-NUL bytes.
   Strategy: a simulation between the fragment loop of compareSubversion and the character loop of verrevcmp.
     1. the two character orders (chOrder with padding byte 0; dpkg's order() with end-of-string) sort every pair of
        symbols the same way, except (digit, END) — checked on all 256 x 256 pairs of the regenerated table;
     2. string phase: on non-digit fragments followed by digit-or-end rests, verrevcmp's first inner loop decides like
        cmpString, or hands over exactly the rests;
     3. numeric phase: on digit fragments followed by non-digit-or-end rests, verrevcmp's zero skipping and digit loop
        decide like cmpNumeric, or hand over exactly the rests;
     4. the loops: one string step of snapd is the first phase of a verrevcmp round, one numeric step is the second. *)
From Coq Require Import List NArith ZArith Bool Lia ZifyBool ZifyNat ZifyN.
Import ListNotations.
Require Import V.lib.Bytes V.gen.ChOrder V.models.Version V.proofs.VersionProofs V.proofs.VersionOrder.
Open Scope Z_scope.

Lemma sgn_spec : forall z, (z < 0 /\ sgn z = -1) \/ (z = 0 /\ sgn z = 0) \/ (z > 0 /\ sgn z = 1).
Proof. intros z. unfold sgn. destruct (Z.ltb_spec z 0); [lia|]. destruct (Z.gtb_spec z 0); lia. Qed.

(* ------------------------------------------------------------------ 1. the two character orders agree *)
(* dpkg's order of a symbol; the symbol 0 stands for END (end of string, which dpkg orders like a digit) *)
Definition sd (c : N) : Z := dpkg_order (if (c =? 0)%N then None else Some c).

Definition pair_fact (x y : N) : bool :=
  (is_digit x && (y =? 0)%N) || ((x =? 0)%N && is_digit y) ||
  (sgn (ch_order x - ch_order y) =? sgn (sd x - sd y)).

Lemma pair_facts_all :
  forallb (fun i => forallb (fun j => pair_fact (N.of_nat i) (N.of_nat j)) (seq 0 256)) (seq 0 256) = true.
Proof. vm_compute. reflexivity. Qed.

Lemma pair_fact_ok : forall x y, (x < 256)%N -> (y < 256)%N -> pair_fact x y = true.
Proof.
  intros x y Hx Hy. pose proof pair_facts_all as H. rewrite forallb_forall in H.
  specialize (H (N.to_nat x)). rewrite N2Nat.id in H.
  assert (I : In (N.to_nat x) (seq 0 256)) by (apply in_seq; lia). specialize (H I).
  rewrite forallb_forall in H. specialize (H (N.to_nat y)). rewrite N2Nat.id in H. apply H. apply in_seq. lia.
Qed.

(* same sign on both sides, outside the pair (digit, END) *)
Lemma order_iso : forall x y, (x < 256)%N -> (y < 256)%N ->
  is_digit x && (y =? 0)%N = false -> (x =? 0)%N && is_digit y = false ->
  sgn (ch_order x - ch_order y) = sgn (sd x - sd y).
Proof.
  intros x y Hx Hy E1 E2. pose proof (pair_fact_ok x y Hx Hy) as H. unfold pair_fact in H.
  rewrite E1, E2 in H. cbn [orb] in H. apply Z.eqb_eq in H. exact H.
Qed.

Lemma cmp1_sgn : forall x y k,
  cmp1 x y k = if sgn (ch_order x - ch_order y) =? 0 then k else sgn (ch_order x - ch_order y).
Proof.
  intros x y k. unfold cmp1. pose proof (sgn_spec (ch_order x - ch_order y)) as S.
  destruct (Z.ltb_spec (ch_order x) (ch_order y)), (Z.gtb_spec (ch_order x) (ch_order y)),
           (Z.eqb_spec (sgn (ch_order x - ch_order y)) 0); lia.
Qed.

Lemma zeqb_sub : forall a b, (a =? b) = (a - b =? 0).
Proof. intros a b. destruct (Z.eqb_spec a b), (Z.eqb_spec (a - b) 0); lia. Qed.

(* one position: snapd's cmp1 against dpkg's difference d of orders, given that the signs agree *)
Lemma cmp1_dec : forall x y k d, sgn (ch_order x - ch_order y) = sgn d ->
  ((d =? 0) = true /\ ch_order x = ch_order y /\ cmp1 x y k = k) \/
  ((d =? 0) = false /\ ch_order x <> ch_order y /\ cmp1 x y k = sgn d /\ cmp1 x y k <> 0).
Proof.
  intros x y k d I. rewrite cmp1_sgn. pose proof (sgn_spec (ch_order x - ch_order y)) as S1. pose proof (sgn_spec d) as S2.
  destruct (Z.eqb_spec (sgn (ch_order x - ch_order y)) 0), (Z.eqb_spec d 0); [left|lia|lia|right]; repeat split; lia.
Qed.

(* ------------------------------------------------------------------ heads of ok strings *)
Lemma ok_cons : forall c l, ok (c :: l) = true -> okb c = true /\ ok l = true.
Proof. intros c l H. cbn in H. apply andb_prop in H. exact H. Qed.

Lemma okb_range : forall c, okb c = true -> (0 < c < 256)%N.
Proof. intros c H. unfold okb in H. lia. Qed.

Lemma hd0_lt : forall l, ok l = true -> (hd0 l < 256)%N.
Proof. intros [|c l] H; [cbn; lia|]. apply ok_cons in H. destruct H as [H _]. apply okb_range in H. cbn. lia. Qed.

Lemma hd0_nil : forall l, ok l = true -> (hd0 l =? 0)%N = is_nil l.
Proof. intros [|c l] H; [reflexivity|]. apply ok_cons in H. destruct H as [H _]. apply okb_range in H. cbn. lia. Qed.

Lemma dord_hd : forall l, ok l = true -> dpkg_order (hd_error l) = sd (hd0 l).
Proof.
  intros [|c l] H; [reflexivity|]. apply ok_cons in H. destruct H as [H _]. apply okb_range in H.
  cbn [hd_error hd0 hd]. unfold sd. destruct (N.eqb_spec c 0); [lia|reflexivity].
Qed.

Definition hd_digit (l : bytes) : bool := match l with c :: _ => is_digit c | [] => false end.

Lemma hd_digit_hd0 : forall l, hd_digit l = is_digit (hd0 l).
Proof. intros [|c l]; reflexivity. Qed.

Lemma hd0_app : forall a r, a <> [] -> hd0 (a ++ r) = hd0 a.
Proof. intros [|x a] r H; [congruence|reflexivity]. Qed.

(* the first position is outside the excepted pair: not (one side empty, the other starting with a digit) *)
Definition first_ok (va vb : bytes) : bool :=
  negb (is_nil va && hd_digit vb) && negb (is_nil vb && hd_digit va).

(* when the head orders differ (and the heads are not the excepted pair) dpkg's first loop decides at once,
   with the sign of the difference of snapd's orders *)
Lemma head_decided : forall F va vb, ok va = true -> ok vb = true ->
  hd_nondigit va || hd_nondigit vb = true -> first_ok va vb = true ->
  hord va <> hord vb ->
  let d := sd (hd0 va) - sd (hd0 vb) in
  dpkg_nondigit (S F) va vb = Some (inl d) /\ sgn d = cmp_string va vb /\ cmp_string va vb <> 0.
Proof.
  intros F va vb Ka Kb Hn Hf Hne d. cbn [dpkg_nondigit]. rewrite Hn.
  rewrite (dord_hd _ Ka), (dord_hd _ Kb).
  unfold first_ok in Hf. rewrite !hd_digit_hd0, <- (hd0_nil _ Ka), <- (hd0_nil _ Kb) in Hf.
  apply andb_prop in Hf. destruct Hf as [H1 H2]. apply negb_true_iff in H1, H2.
  assert (I : sgn (ch_order (hd0 va) - ch_order (hd0 vb)) = sgn d).
  { apply order_iso; [apply hd0_lt; exact Ka|apply hd0_lt; exact Kb| |].
    - rewrite andb_comm. exact H2.
    - exact H1. }
  rewrite zeqb_sub. rewrite (cs_unfold va vb). fold d.
  destruct (cmp1_dec _ _ (cmp_string (tl va) (tl vb)) _ I) as [(D & E & _)|(D & _ & E & N)].
  - exfalso. apply Hne. exact E.
  - rewrite D. cbn [negb]. split; [reflexivity|]. split; [symmetry; exact E|exact N].
Qed.

(* ------------------------------------------------------------------ 2. string phase *)
Definition ndb (c : N) : bool := okb c && negb (is_digit c).
Definition nd (a : bytes) : bool := forallb ndb a.

Lemma nd_ok : forall a, nd a = true -> ok a = true.
Proof.
  induction a as [|x a IH]; intros H; [reflexivity|]. cbn in H. apply andb_prop in H. destruct H as [Hx Ha].
  unfold ndb in Hx. apply andb_prop in Hx. cbn. rewrite (proj1 Hx). apply IH. exact Ha.
Qed.

Lemma nd_cons : forall x a, nd (x :: a) = true -> okb x = true /\ is_digit x = false /\ nd a = true.
Proof.
  intros x a H. cbn in H. apply andb_prop in H. destruct H as [Hx Ha]. unfold ndb in Hx. apply andb_prop in Hx.
  destruct Hx as [H1 H2]. destruct (is_digit x); [discriminate|]. auto.
Qed.

Lemma hdnd_num : forall r, ph_num r = true -> hd_nondigit r = false.
Proof. intros [|c r] H; [reflexivity|]. cbn in *. rewrite H. reflexivity. Qed.

Lemma dord_num : forall r, ph_num r = true -> dpkg_order (hd_error r) = 0.
Proof. intros [|c r] H; [reflexivity|]. cbn in *. rewrite H. reflexivity. Qed.

Lemma hord_ndb : forall x, okb x = true -> is_digit x = false ->
  ch_order x <> -5 /\ sd x = dpkg_order (Some x) /\ (x < 256)%N /\ (x =? 0)%N = false.
Proof.
  intros x Kx Dx. destruct (order_nondigit x Kx Dx) as [A B]. apply okb_range in Kx.
  assert (E : (x =? 0)%N = false) by lia.
  repeat split; try assumption; [|lia]. unfold sd. rewrite E. reflexivity.
Qed.

Lemma str_phase : forall F a b ra rb, nd a = true -> nd b = true -> ph_num ra = true -> ph_num rb = true ->
  (length a < F)%nat -> (length b < F)%nat ->
  (cmp_string a b = 0 /\ dpkg_nondigit F (a ++ ra) (b ++ rb) = Some (inr (ra, rb))) \/
  (exists d, dpkg_nondigit F (a ++ ra) (b ++ rb) = Some (inl d) /\ sgn d = cmp_string a b /\ cmp_string a b <> 0).
Proof.
  induction F as [|F IH]; intros a b ra rb Na Nb Pa Pb La Lb; [inversion La|].
  destruct a as [|x a], b as [|y b].
  - left. split; [reflexivity|]. cbn [app dpkg_nondigit]. rewrite (hdnd_num _ Pa), (hdnd_num _ Pb). reflexivity.
  - right. destruct (nd_cons _ _ Nb) as (Ky & Dy & Nb'). destruct (hord_ndb y Ky Dy) as (Y5 & Ys & Yr & Yz).
    cbn [app dpkg_nondigit]. rewrite (hdnd_num _ Pa). cbn [hd_nondigit orb]. rewrite Dy. cbn [negb hd_error].
    rewrite (dord_num _ Pa).
    assert (I : sgn (ch_order 0 - ch_order y) = sgn (sd 0 - sd y)).
    { apply order_iso; [reflexivity|exact Yr|reflexivity|rewrite Dy; reflexivity]. }
    change (sd 0) with 0 in I. rewrite Ys in I. rewrite zeqb_sub.
    change (cmp_string [] (y :: b)) with (cmp1 0 y (cmp_string [] b)).
    destruct (cmp1_dec _ _ (cmp_string [] b) _ I) as [(D & E & _)|(D & _ & E & N)].
    + exfalso. rewrite order_pad in E. apply Y5. symmetry. exact E.
    + rewrite D. cbn [negb]. eexists. split; [reflexivity|]. split; [symmetry; exact E|exact N].
  - right. destruct (nd_cons _ _ Na) as (Kx & Dx & Na'). destruct (hord_ndb x Kx Dx) as (X5 & Xs & Xr & Xz).
    cbn [app dpkg_nondigit hd_nondigit]. rewrite Dx. cbn [negb orb hd_error].
    rewrite (dord_num _ Pb).
    assert (I : sgn (ch_order x - ch_order 0) = sgn (sd x - sd 0)).
    { apply order_iso; [exact Xr|reflexivity|rewrite Dx; reflexivity|rewrite Xz; reflexivity]. }
    change (sd 0) with 0 in I. rewrite Xs in I. rewrite zeqb_sub.
    change (cmp_string (x :: a) []) with (cmp1 x 0 (cmp_string a [])).
    destruct (cmp1_dec _ _ (cmp_string a []) _ I) as [(D & E & _)|(D & _ & E & N)].
    + exfalso. rewrite order_pad in E. apply X5. exact E.
    + rewrite D. cbn [negb]. eexists. split; [reflexivity|]. split; [symmetry; exact E|exact N].
  - destruct (nd_cons _ _ Na) as (Kx & Dx & Na'). destruct (hord_ndb x Kx Dx) as (X5 & Xs & Xr & Xz).
    destruct (nd_cons _ _ Nb) as (Ky & Dy & Nb'). destruct (hord_ndb y Ky Dy) as (Y5 & Ys & Yr & Yz).
    cbn [app dpkg_nondigit hd_nondigit]. rewrite Dx. cbn [negb orb hd_error tl].
    assert (I : sgn (ch_order x - ch_order y) = sgn (sd x - sd y)).
    { apply order_iso; [exact Xr|exact Yr|rewrite Dx; reflexivity|rewrite Xz; reflexivity]. }
    rewrite Xs, Ys in I. rewrite zeqb_sub.
    change (cmp_string (x :: a) (y :: b)) with (cmp1 x y (cmp_string a b)).
    destruct (cmp1_dec _ _ (cmp_string a b) _ I) as [(D & _ & E)|(D & _ & E & N)].
    + rewrite D, E. cbn [negb]. apply IH; try assumption; apply Nat.succ_lt_mono; assumption.
    + right. rewrite D. cbn [negb]. eexists. split; [reflexivity|]. split; [symmetry; exact E|exact N].
Qed.

Lemma cs_head_eq : forall a b a' b', hord a = hord a' -> hord b = hord b' -> hord a <> hord b ->
  cmp_string a b = cmp_string a' b'.
Proof.
  intros a b a' b' Ea Eb Hne. destruct (Z.lt_trichotomy (hord a) (hord b)) as [L|[L|L]]; [|contradiction|].
  - rewrite (cs_head_lt a b L). rewrite Ea, Eb in L. rewrite (cs_head_lt a' b' L). reflexivity.
  - apply Z.lt_gt in L. rewrite (cs_head_gt a b L). rewrite Ea, Eb in L. rewrite (cs_head_gt a' b' L). reflexivity.
Qed.

(* ------------------------------------------------------------------ 3. numeric phase *)
Definition dg (a : bytes) : bool := forallb is_digit a.

Lemma trim_unfold : forall c r, trim_zeroes (c :: r) = if (c =? 48)%N then trim_zeroes r else c :: r.
Proof.
  intros c r. destruct (N.eqb_spec c 48) as [E|E]; [subst; reflexivity|].
  destruct c as [|p]; [reflexivity|].
  do 6 (destruct p as [p|p|]; try reflexivity). exfalso. apply E. reflexivity.
Qed.

Lemma trim_app : forall a r, ph_str r = true -> trim_zeroes (a ++ r) = trim_zeroes a ++ r.
Proof.
  induction a as [|x a IH]; intros r P.
  - cbn [app]. destruct r as [|c r]; [reflexivity|]. rewrite trim_unfold. cbn in P.
    destruct (N.eqb_spec c 48) as [E|E]; [subst; discriminate|reflexivity].
  - cbn [app]. rewrite !trim_unfold. destruct (x =? 48)%N; [apply IH; exact P|reflexivity].
Qed.

Lemma dg_trim : forall a, dg a = true -> dg (trim_zeroes a) = true.
Proof.
  induction a as [|x a IH]; intros H; [reflexivity|]. rewrite trim_unfold. destruct (x =? 48)%N; [|exact H].
  apply IH. cbn in H. apply andb_prop in H. apply H.
Qed.

(* the first difference remembered by dpkg's digit loop *)
Fixpoint fdiff (a b : bytes) (fd : Z) : Z :=
  match a, b with
  | x :: a', y :: b' => fdiff a' b' (if fd =? 0 then Z.of_N x - Z.of_N y else fd)
  | _, _ => fd
  end.

Lemma ph_str_digits : forall r fd, ph_str r = true ->
  forall r', ph_str r' = true ->
  dpkg_digits r r' fd = if fd =? 0 then inr (r, r') else inl fd.
Proof.
  intros r fd P r' P'. destruct r as [|x r], r' as [|y r']; cbn in P, P'; cbn [dpkg_digits].
  - destruct (fd =? 0); reflexivity.
  - destruct (is_digit y); [discriminate|]. destruct (fd =? 0); reflexivity.
  - destruct (is_digit x); [discriminate|]. destruct (fd =? 0); reflexivity.
  - destruct (is_digit x); [discriminate|]. destruct (is_digit y); [discriminate|]. cbn [andb].
    destruct (fd =? 0); reflexivity.
Qed.

Lemma digits_walk : forall a b ra rb fd, dg a = true -> dg b = true -> ph_str ra = true -> ph_str rb = true ->
  dpkg_digits (a ++ ra) (b ++ rb) fd =
    match Nat.compare (length a) (length b) with
    | Lt => inl (-1)
    | Gt => inl 1
    | Eq => if fdiff a b fd =? 0 then inr (ra, rb) else inl (fdiff a b fd)
    end.
Proof.
  induction a as [|x a IH]; intros b ra rb fd Da Db Pa Pb.
  - destruct b as [|y b].
    + cbn [app length Nat.compare fdiff]. apply ph_str_digits; assumption.
    + cbn [app length Nat.compare]. cbn in Db. apply andb_prop in Db. destruct Db as [Dy Db].
      destruct ra as [|x ra]; cbn [dpkg_digits]; [rewrite Dy; reflexivity|].
      cbn in Pa. destruct (is_digit x); [discriminate|]. rewrite Dy. reflexivity.
  - cbn in Da. apply andb_prop in Da. destruct Da as [Dx Da]. destruct b as [|y b].
    + cbn [app length Nat.compare].
      destruct rb as [|y rb]; cbn [dpkg_digits]; [rewrite Dx; reflexivity|].
      cbn in Pb. destruct (is_digit y); [discriminate|]. rewrite Dx. reflexivity.
    + cbn in Db. apply andb_prop in Db. destruct Db as [Dy Db].
      cbn [app length Nat.compare fdiff dpkg_digits]. rewrite Dx, Dy. cbn [andb].
      apply IH; assumption.
Qed.

Lemma fdiff_sgn : forall a b fd, length a = length b ->
  sgn (fdiff a b fd) = if fd =? 0 then cmp_bytes_num a b else sgn fd.
Proof.
  induction a as [|x a IH]; intros [|y b] fd L; try discriminate.
  - cbn. destruct (Z.eqb_spec fd 0); [subst; reflexivity|reflexivity].
  - cbn [fdiff cmp_bytes_num]. rewrite IH by (cbn in L; lia).
    destruct (Z.eqb_spec fd 0) as [E|E].
    + destruct (N.ltb_spec y x), (N.ltb_spec x y); try lia.
      * destruct (Z.eqb_spec (Z.of_N x - Z.of_N y) 0); [lia|]. pose proof (sgn_spec (Z.of_N x - Z.of_N y)). lia.
      * destruct (Z.eqb_spec (Z.of_N x - Z.of_N y) 0); [lia|]. pose proof (sgn_spec (Z.of_N x - Z.of_N y)). lia.
      * destruct (Z.eqb_spec (Z.of_N x - Z.of_N y) 0); [reflexivity|lia].
    + destruct (Z.eqb_spec fd 0); [lia|reflexivity].
Qed.

Lemma num_phase : forall a b ra rb, dg a = true -> dg b = true -> ph_str ra = true -> ph_str rb = true ->
  (cmp_numeric a b = 0 /\ dpkg_digits (trim_zeroes (a ++ ra)) (trim_zeroes (b ++ rb)) 0 = inr (ra, rb)) \/
  (exists d, dpkg_digits (trim_zeroes (a ++ ra)) (trim_zeroes (b ++ rb)) 0 = inl d /\
             sgn d = cmp_numeric a b /\ cmp_numeric a b <> 0).
Proof.
  intros a b ra rb Da Db Pa Pb. rewrite (trim_app _ _ Pa), (trim_app _ _ Pb).
  rewrite (digits_walk _ _ _ _ 0 (dg_trim _ Da) (dg_trim _ Db) Pa Pb). unfold cmp_numeric.
  set (ta := trim_zeroes a). set (tb := trim_zeroes b).
  destruct (Nat.compare_spec (length ta) (length tb)) as [E|L|G].
  - destruct (Z.gtb_spec (Z.of_nat (length ta)) (Z.of_nat (length tb))); [lia|].
    destruct (Z.ltb_spec (Z.of_nat (length ta)) (Z.of_nat (length tb))); [lia|].
    pose proof (fdiff_sgn ta tb 0 E) as S. cbn [Z.eqb] in S. pose proof (sgn_spec (fdiff ta tb 0)) as S2.
    destruct (Z.eqb_spec (fdiff ta tb 0) 0) as [Z|Z].
    + left. split; [lia|reflexivity].
    + right. eexists. split; [reflexivity|]. split; [exact S|lia].
  - destruct (Z.gtb_spec (Z.of_nat (length ta)) (Z.of_nat (length tb))); [lia|].
    destruct (Z.ltb_spec (Z.of_nat (length ta)) (Z.of_nat (length tb))); [|lia].
    right. exists (-1). split; [reflexivity|]. split; [reflexivity|discriminate].
  - destruct (Z.gtb_spec (Z.of_nat (length ta)) (Z.of_nat (length tb))); [|lia].
    right. exists 1. split; [reflexivity|]. split; [reflexivity|discriminate].
Qed.

(* a missing numeric fragment counts as 0 on both sides *)
Lemma cn_zf : forall a b, cmp_numeric (zf a) (zf b) = cmp_numeric a b.
Proof. intros [|x a] [|y b]; reflexivity. Qed.

(* ------------------------------------------------------------------ fragments: content and shape *)
Lemma forallb_and : forall (p q : N -> bool) l, forallb p l = true -> forallb q l = true ->
  forallb (fun c => p c && q c) l = true.
Proof.
  induction l as [|x l IH]; intros Hp Hq; [reflexivity|]. cbn in *.
  apply andb_prop in Hp. apply andb_prop in Hq. destruct Hp as [-> Hp], Hq as [-> Hq]. cbn. apply IH; assumption.
Qed.

Lemma frag_full : forall v a v' an, ok v = true -> next_frag v = (a, v', an) ->
  v = a ++ v' /\ (an = true -> dg a = true) /\ (an = false -> nd a = true).
Proof.
  intros v a v' an K F. destruct v as [|c s].
  - cbn in F. inversion F; subst. repeat split; reflexivity.
  - unfold next_frag in F. destruct (is_digit c) eqn:Ed.
    + destruct (span is_digit (c :: s)) as [f r] eqn:Es. inversion F; subst f r an.
      destruct (span_spec _ _ _ _ Es) as (E & Fa & _). split; [exact E|]. split; [intros _; exact Fa|discriminate].
    + destruct (span (fun x => negb (is_digit x)) (c :: s)) as [f r] eqn:Es. inversion F; subst f r an.
      destruct (span_spec _ _ _ _ Es) as (E & Fa & _). split; [exact E|]. split; [discriminate|]. intros _.
      rewrite E in K. destruct (ok_app _ _ K) as [Ka _]. unfold nd, ndb. apply forallb_and; assumption.
Qed.

Lemma ftyped_hd0 : forall v a v' an t, ftyped a an t -> v = a ++ v' -> (t = FE -> v = [] /\ v' = []) -> hd0 a = hd0 v.
Proof.
  intros v a v' an t T E EE. destruct t.
  - destruct T as [-> _]. destruct (EE eq_refl) as [-> _]. reflexivity.
  - destruct T as [N _]. rewrite E. symmetry. apply hd0_app. exact N.
  - destruct T as [N _]. rewrite E. symmetry. apply hd0_app. exact N.
Qed.

(* ------------------------------------------------------------------ 4. the loops *)
(* the second half of a verrevcmp round *)
Definition dpkg_mid (g : nat) (a1 b1 : bytes) : option Z :=
  match dpkg_digits (trim_zeroes a1) (trim_zeroes b1) 0 with
  | inl d => Some d
  | inr (a2, b2) => dpkg_verrevcmp g a2 b2
  end.

Lemma dpkg_step : forall g a b, dpkg_verrevcmp (S g) a b =
  if is_nil a && is_nil b then Some 0
  else match dpkg_nondigit (S (length a + length b)) a b with
       | None => None
       | Some (inl d) => Some d
       | Some (inr (a1, b1)) => dpkg_mid g a1 b1
       end.
Proof. reflexivity. Qed.

Definition sreg (first : bool) (va vb : bytes) : Prop :=
  (first = true /\ first_ok va vb = true) \/ (first = false /\ ph_str va = true /\ ph_str vb = true).

(* string regime (and the first position): snapd's loop against whole verrevcmp rounds *)
Definition P (f : nat) : Prop := forall first va vb r g, ok va = true -> ok vb = true -> sreg first va vb ->
  cmp_sub f first va vb = Some r -> (length va + length vb < g)%nat ->
  exists d, dpkg_verrevcmp g va vb = Some d /\ r = sgn d.

(* numeric regime: snapd's loop against a round entered at its second half *)
Definition Q (f : nat) : Prop := forall va vb r g, ok va = true -> ok vb = true -> ph_num va = true -> ph_num vb = true ->
  cmp_sub f false va vb = Some r -> (length va + length vb <= g)%nat -> (1 <= g)%nat ->
  exists d, dpkg_mid g va vb = Some d /\ r = sgn d.

Lemma rest_ph_str : forall t v v', t <> FS -> (t = FE -> v = [] /\ v' = []) ->
  (t = FN -> ph_str v' = true /\ ph_num v = true /\ v <> []) -> ph_str v' = true.
Proof. intros t v v' NS E N. destruct t; [destruct (E eq_refl) as [_ ->]; reflexivity|apply (N eq_refl)|congruence]. Qed.

Lemma rest_ph_num : forall t v v', t <> FN -> (t = FE -> v = [] /\ v' = []) ->
  (t = FS -> ph_num v' = true /\ ph_str v = true /\ v <> []) -> ph_num v' = true.
Proof. intros t v v' NS E N. destruct t; [destruct (E eq_refl) as [_ ->]; reflexivity|congruence|apply (N eq_refl)]. Qed.

Lemma typed_dg : forall a an t, ftyped a an t -> t <> FS -> (an = true -> dg a = true) -> dg a = true.
Proof.
  intros a an t T NS D. destruct t; [destruct T as [-> _]; reflexivity| |congruence].
  destruct T as (_ & -> & _). apply D. reflexivity.
Qed.

Lemma typed_nd : forall a an t, ftyped a an t -> t <> FN -> (an = false -> nd a = true) -> nd a = true.
Proof.
  intros a an t T NS D. destruct t; [destruct T as [-> _]; reflexivity|congruence|].
  destruct T as (_ & -> & _). apply D. reflexivity.
Qed.

Lemma typed_len : forall a an t, ftyped a an t -> t <> FE -> (1 <= length a)%nat.
Proof.
  intros a an t T NE. destruct t; [congruence| |]; destruct T as [N _]; destruct a; [congruence|cbn; lia|congruence|cbn; lia].
Qed.

Lemma hord_types_ne : forall a an ta b bn tb, ftyped a an ta -> ftyped b bn tb -> ta <> tb -> hord a <> hord b.
Proof.
  intros a an ta b bn tb Ta Tb NE. destruct ta, tb; try congruence.
  - rewrite (hord_FE _ _ Ta), (hord_FN _ _ Tb). lia.
  - rewrite (hord_FE _ _ Ta). pose proof (hord_FS _ _ Tb). lia.
  - rewrite (hord_FN _ _ Ta), (hord_FE _ _ Tb). lia.
  - rewrite (hord_FN _ _ Ta). pose proof (hord_FS _ _ Tb). lia.
  - rewrite (hord_FE _ _ Tb). pose proof (hord_FS _ _ Ta). lia.
  - rewrite (hord_FN _ _ Tb). pose proof (hord_FS _ _ Ta). lia.
Qed.

Lemma one_le : forall a an ta b bn tb, ftyped a an ta -> ftyped b bn tb -> ta <> FE \/ tb <> FE ->
  (1 <= length a + length b)%nat.
Proof.
  intros a an ta b bn tb Ta Tb [X|X]; [pose proof (typed_len _ _ _ Ta X)|pose proof (typed_len _ _ _ Tb X)]; lia.
Qed.

Lemma len_rest : forall (va vb a b va' vb' : bytes) g, va = a ++ va' -> vb = b ++ vb' -> (1 <= length a + length b)%nat ->
  (length va + length vb <= g)%nat -> (length va' + length vb' < g)%nat.
Proof. intros va vb a b va' vb' g -> -> L1 L. rewrite !app_length in L. lia. Qed.

Lemma len_rest_S : forall (va vb a b va' vb' : bytes) g, va = a ++ va' -> vb = b ++ vb' -> (1 <= length a + length b)%nat ->
  (length va + length vb < S g)%nat -> (length va' + length vb' <= g)%nat /\ (1 <= g)%nat.
Proof. intros va vb a b va' vb' g -> -> L1 L. rewrite !app_length in L. lia. Qed.

Lemma len_frag : forall (va vb a b va' vb' : bytes), va = a ++ va' -> vb = b ++ vb' ->
  (length a < S (length va + length vb))%nat /\ (length b < S (length va + length vb))%nat.
Proof. intros va vb a b va' vb' -> ->. rewrite !app_length. lia. Qed.

(* one numeric step of snapd = the second half of a round *)
Lemma Q_step : forall f, P f -> Q (S f).
Proof.
  intros f HP va vb r g Ka Kb Pa Pb H Lg G1.
  destruct (next_frag va) as [[a va'] an] eqn:Fa. destruct (next_frag vb) as [[b vb'] bn] eqn:Fb.
  destruct (step_typed _ _ _ _ Ka Fa) as (ta & Ta & Ka' & EaE & EaN & EaS).
  destruct (step_typed _ _ _ _ Kb Fb) as (tb & Tb & Kb' & EbE & EbN & EbS).
  destruct (frag_full _ _ _ _ Ka Fa) as (Ea & Da & _). destruct (frag_full _ _ _ _ Kb Fb) as (Eb & Db & _).
  assert (Sa : ta <> FS) by (intros ->; destruct (EaS eq_refl) as (_ & Q' & N); exact (ph_both _ N Pa Q')).
  assert (Sb : tb <> FS) by (intros ->; destruct (EbS eq_refl) as (_ & Q' & N); exact (ph_both _ N Pb Q')).
  rewrite cmp_sub_step, Fa, Fb in H. rewrite (ftyped_nil _ _ _ Ta), (ftyped_nil _ _ _ Tb) in H.
  assert (Two : (ta = FE /\ tb = FE) \/ ((ta = FE -> tb = FE -> False) /\ (ta <> FE \/ tb <> FE))).
  { destruct ta, tb; try (left; split; reflexivity); right; split; try (intros; discriminate);
      try (left; discriminate); right; discriminate. }
  destruct Two as [[A B]|[NE NE2]].
  - destruct (EaE A) as [-> _]. destruct (EbE B) as [-> _]. subst ta tb. cbn in H. inversion H; subst r.
    destruct g as [|g]; [inversion G1|]. exists 0. split; reflexivity.
  - assert (Nn : (match ta with FE => true | _ => false end) && (match tb with FE => true | _ => false end) = false)
      by (destruct ta, tb; try reflexivity; exfalso; apply NE; reflexivity).
    rewrite Nn in H. cbv zeta in H.
    rewrite (pos_num_eq _ _ _ _ _ _ Ta Tb Sa Sb NE), cn_zf in H.
    pose proof (typed_dg _ _ _ Ta Sa Da) as Ga. pose proof (typed_dg _ _ _ Tb Sb Db) as Gb.
    pose proof (rest_ph_str _ _ _ Sa EaE EaN) as Ra. pose proof (rest_ph_str _ _ _ Sb EbE EbN) as Rb.
    unfold dpkg_mid. rewrite Ea, Eb.
    destruct (num_phase a b va' vb' Ga Gb Ra Rb) as [[Z D]|(d & D & S1 & NZ)].
    + rewrite D. rewrite Z in H. cbn [Z.eqb] in H.
      apply (HP false va' vb' r g Ka' Kb'); [right; auto|exact H|].
      apply (len_rest va vb a b va' vb' g Ea Eb (one_le _ _ _ _ _ _ Ta Tb NE2) Lg).
    + rewrite D. destruct (Z.eqb_spec (cmp_numeric a b) 0); [contradiction|]. inversion H; subst r.
      exists d. split; [reflexivity|]. symmetry. exact S1.
Qed.

(* a string step of snapd = the first half of a round; then the numeric regime *)
Lemma str_case : forall f g va vb a b va' vb' r, Q f -> ok va' = true -> ok vb' = true ->
  va = a ++ va' -> vb = b ++ vb' -> nd a = true -> nd b = true -> ph_num va' = true -> ph_num vb' = true ->
  (1 <= length a + length b)%nat ->
  (if cmp_string a b =? 0 then cmp_sub f false va' vb' else Some (cmp_string a b)) = Some r ->
  (length va + length vb < S g)%nat ->
  exists d, match dpkg_nondigit (S (length va + length vb)) va vb with
            | None => None
            | Some (inl d) => Some d
            | Some (inr (a1, b1)) => dpkg_mid g a1 b1
            end = Some d /\ r = sgn d.
Proof.
  intros f g va vb a b va' vb' r HQ Ka' Kb' Ea Eb Na Nb Pa Pb L1 H Lg.
  destruct (len_frag va vb a b va' vb' Ea Eb) as [La Lb].
  destruct (str_phase _ a b va' vb' Na Nb Pa Pb La Lb) as [[Z D]|(d & D & S1 & NZ)].
  - rewrite <- Ea, <- Eb in D. rewrite D. rewrite Z in H. cbn [Z.eqb] in H.
    destruct (len_rest_S va vb a b va' vb' g Ea Eb L1 Lg) as [L2 L3].
    apply (HQ va' vb' r g Ka' Kb' Pa Pb H); assumption.
  - rewrite <- Ea, <- Eb in D. rewrite D. destruct (Z.eqb_spec (cmp_string a b) 0); [contradiction|].
    inversion H; subst r. exists d. split; [reflexivity|]. symmetry. exact S1.
Qed.

Lemma cmp_sub_first_num : forall f va vb a va' b vb',
  next_frag va = (a, va', true) -> next_frag vb = (b, vb', true) ->
  cmp_sub (S f) true va vb = cmp_sub (S f) false va vb.
Proof. intros f va vb a va' b vb' Fa Fb. rewrite !cmp_sub_step, Fa, Fb. reflexivity. Qed.

Lemma hdnd_typed : forall v a v' an t, ftyped a an t -> v = a ++ v' -> (t = FE -> v = [] /\ v' = []) ->
  hd_nondigit v = match t with FS => true | _ => false end.
Proof.
  intros v a v' an t T E EE. destruct t.
  - destruct (EE eq_refl) as [-> _]. reflexivity.
  - destruct T as (N & _ & D). destruct a as [|x a]; [congruence|]. rewrite E. cbn in *. rewrite D. reflexivity.
  - destruct T as (N & _ & D & _). destruct a as [|x a]; [congruence|]. rewrite E. cbn in *. rewrite D. reflexivity.
Qed.

Lemma P_step : forall f, Q f -> Q (S f) -> P (S f).
Proof.
  intros f HQ HQS first va vb r g Ka Kb Hreg H Lg.
  destruct g as [|g]; [inversion Lg|]. rewrite dpkg_step.
  destruct (next_frag va) as [[a va'] an] eqn:Fa. destruct (next_frag vb) as [[b vb'] bn] eqn:Fb.
  destruct (step_typed _ _ _ _ Ka Fa) as (ta & Ta & Ka' & EaE & EaN & EaS).
  destruct (step_typed _ _ _ _ Kb Fb) as (tb & Tb & Kb' & EbE & EbN & EbS).
  destruct (frag_full _ _ _ _ Ka Fa) as (Ea & _ & Da). destruct (frag_full _ _ _ _ Kb Fb) as (Eb & _ & Db).
  assert (Two : (ta = FE /\ tb = FE) \/ ((ta = FE -> tb = FE -> False) /\ (ta <> FE \/ tb <> FE))).
  { destruct ta, tb; try (left; split; reflexivity); right; split; try (intros; discriminate);
      try (left; discriminate); right; discriminate. }
  destruct Two as [[A B]|[NE NE2]].
  - destruct (EaE A) as [-> _]. destruct (EbE B) as [-> _]. cbn in H. inversion H; subst r.
    exists 0. split; reflexivity.
  - assert (Nv : is_nil va && is_nil vb = false).
    { destruct NE2 as [X|X].
      - assert (va <> []) by (destruct ta; [congruence|apply (EaN eq_refl)|apply (EaS eq_refl)]).
        destruct va; [congruence|reflexivity].
      - assert (vb <> []) by (destruct tb; [congruence|apply (EbN eq_refl)|apply (EbS eq_refl)]).
        destruct vb; [congruence|apply andb_false_r]. }
    rewrite Nv.
    pose proof (one_le _ _ _ _ _ _ Ta Tb NE2) as L1.
    pose proof H as H0.
    rewrite cmp_sub_step, Fa, Fb in H. rewrite (ftyped_nil _ _ _ Ta), (ftyped_nil _ _ _ Tb) in H.
    assert (Nn : (match ta with FE => true | _ => false end) && (match tb with FE => true | _ => false end) = false)
      by (destruct ta, tb; try reflexivity; exfalso; apply NE; reflexivity).
    rewrite Nn in H. cbv zeta in H.
    destruct Hreg as [[-> Fo]|(-> & Pa & Pb)].
    + (* first position *)
      rewrite (pos_first_eq _ _ _ _ _ _ Ta Tb) in H.
      destruct (is_num ta && is_num tb) eqn:NN.
      * (* two numeric fragments: the first loop of the round does nothing *)
        destruct ta, tb; try discriminate.
        assert (an = true) by apply Ta. assert (bn = true) by apply Tb. subst an bn.
        rewrite (cmp_sub_first_num _ _ _ _ _ _ _ Fa Fb) in H0.
        destruct (EaN eq_refl) as (_ & Pa & Na). destruct (EbN eq_refl) as (_ & Pb & Nb).
        assert (D : dpkg_nondigit (S (length va + length vb)) va vb = Some (inr (va, vb))).
        { cbn [dpkg_nondigit]. rewrite (hdnd_num _ Pa), (hdnd_num _ Pb). reflexivity. }
        rewrite D. apply (HQS va vb r g Ka Kb Pa Pb H0); [clear - Lg; lia|].
        destruct va; [congruence|]. cbn [length] in Lg. clear - Lg. lia.
      * destruct (Bool.bool_dec (is_num ta) (is_num tb)) as [Same|Diff].
        -- (* two string fragments (both missing is excluded) *)
           assert (Sa : ta <> FN) by (intros ->; destruct tb; cbn in *; congruence).
           assert (Sb : tb <> FN) by (intros ->; destruct ta; cbn in *; congruence).
           assert (Both : ta = FS /\ tb = FS \/ (ta = FE \/ tb = FE)) by (destruct ta, tb; try congruence; auto).
           destruct Both as [[-> ->]|OneE].
           ++ apply (str_case f g va vb a b va' vb' r HQ Ka' Kb' Ea Eb); try assumption.
              ** apply (typed_nd _ _ _ Ta Sa Da).
              ** apply (typed_nd _ _ _ Tb Sb Db).
              ** apply (EaS eq_refl).
              ** apply (EbS eq_refl).
           ++ (* one side empty, the other a string: decided by the heads *)
              assert (Hn : hd_nondigit va || hd_nondigit vb = true).
              { rewrite (hdnd_typed _ _ _ _ _ Ta Ea EaE), (hdnd_typed _ _ _ _ _ Tb Eb EbE).
                destruct ta, tb; try congruence; try reflexivity. exfalso; apply NE; reflexivity. }
              assert (Hne : hord va <> hord vb).
              { unfold hord. rewrite <- (ftyped_hd0 _ _ _ _ _ Ta Ea EaE), <- (ftyped_hd0 _ _ _ _ _ Tb Eb EbE).
                fold (hord a). fold (hord b). apply (hord_types_ne _ _ _ _ _ _ Ta Tb).
                destruct ta, tb; try congruence. all: try (destruct OneE; discriminate). }
              destruct (head_decided (length va + length vb) va vb Ka Kb Hn Fo Hne) as (D & S1 & NZ).
              set (d := sd (hd0 va) - sd (hd0 vb)) in *.
              rewrite D.
              assert (CS : cmp_string a b = cmp_string va vb).
              { apply cs_head_eq; unfold hord.
                - f_equal. apply (ftyped_hd0 _ _ _ _ _ Ta Ea EaE).
                - f_equal. apply (ftyped_hd0 _ _ _ _ _ Tb Eb EbE).
                - rewrite (ftyped_hd0 _ _ _ _ _ Ta Ea EaE), (ftyped_hd0 _ _ _ _ _ Tb Eb EbE). exact Hne. }
              rewrite CS in H. destruct (Z.eqb_spec (cmp_string va vb) 0); [contradiction|].
              inversion H; subst r. exists d. split; [reflexivity|]. symmetry. exact S1.
        -- (* one numeric fragment against a string or a missing one: decided by the heads *)
           assert (Hne : hord va <> hord vb).
           { unfold hord. rewrite <- (ftyped_hd0 _ _ _ _ _ Ta Ea EaE), <- (ftyped_hd0 _ _ _ _ _ Tb Eb EbE).
             fold (hord a). fold (hord b). apply (hord_types_ne _ _ _ _ _ _ Ta Tb).
             destruct ta, tb; cbn in Diff; congruence. }
           assert (Hn : hd_nondigit va || hd_nondigit vb = true).
           { rewrite (hdnd_typed _ _ _ _ _ Ta Ea EaE), (hdnd_typed _ _ _ _ _ Tb Eb EbE).
             destruct ta, tb; cbn in Diff; try congruence; try reflexivity; exfalso.
             - (* missing against numeric: excluded at the first position *)
               destruct (EaE eq_refl) as [-> _]. destruct (EbN eq_refl) as (_ & Pb & Nb).
               destruct vb as [|y vb]; [congruence|]. cbn in Pb. unfold first_ok in Fo. cbn in Fo. rewrite Pb in Fo. discriminate.
             - destruct (EbE eq_refl) as [-> _]. destruct (EaN eq_refl) as (_ & Pa & Na).
               destruct va as [|x va]; [congruence|]. cbn in Pa. unfold first_ok in Fo. cbn in Fo. rewrite Pa in Fo. discriminate. }
           destruct (head_decided (length va + length vb) va vb Ka Kb Hn Fo Hne) as (D & S1 & NZ).
              set (d := sd (hd0 va) - sd (hd0 vb)) in *.
           rewrite D.
           assert (CS : cmp_string a b = cmp_string va vb).
           { apply cs_head_eq; unfold hord.
             - f_equal. apply (ftyped_hd0 _ _ _ _ _ Ta Ea EaE).
             - f_equal. apply (ftyped_hd0 _ _ _ _ _ Tb Eb EbE).
             - rewrite (ftyped_hd0 _ _ _ _ _ Ta Ea EaE), (ftyped_hd0 _ _ _ _ _ Tb Eb EbE). exact Hne. }
           rewrite CS in H. destruct (Z.eqb_spec (cmp_string va vb) 0); [contradiction|].
           inversion H; subst r. exists d. split; [reflexivity|]. symmetry. exact S1.
    + (* later string position *)
      assert (Sa : ta <> FN) by (intros ->; destruct (EaN eq_refl) as (_ & Q' & N); exact (ph_both _ N Q' Pa)).
      assert (Sb : tb <> FN) by (intros ->; destruct (EbN eq_refl) as (_ & Q' & N); exact (ph_both _ N Q' Pb)).
      rewrite (pos_str_eq _ _ _ _ _ _ Ta Tb Sa Sb) in H.
      apply (str_case f g va vb a b va' vb' r HQ Ka' Kb' Ea Eb); try assumption.
      * apply (typed_nd _ _ _ Ta Sa Da).
      * apply (typed_nd _ _ _ Tb Sb Db).
      * apply (rest_ph_num _ _ _ Sa EaE EaS).
      * apply (rest_ph_num _ _ _ Sb EbE EbS).
Qed.

Lemma sim_all : forall f, P f /\ Q f.
Proof.
  induction f as [|f [HP HQ]].
  - split.
    + intros first va vb r g _ _ _ H. discriminate H.
    + intros va vb r g _ _ _ _ H. discriminate H.
  - pose proof (Q_step f HP) as HQS. split; [apply P_step; assumption|exact HQS].
Qed.

(* the subversion-level simulation: compareSubversion agrees in sign with verrevcmp (fuel = the bound used by dpkg_compare) *)
Theorem subversion_matches_dpkg : forall va vb, ok va = true -> ok vb = true -> first_ok va vb = true ->
  exists d, compare_subversion va vb = Some (sgn d) /\ dpkg_verrevcmp (sub_fuel va vb) va vb = Some d.
Proof.
  intros va vb Ka Kb Fo. destruct (compare_subversion va vb) as [r|] eqn:C; [|exfalso; eapply compare_subversion_total; eauto].
  destruct (proj1 (sim_all (sub_fuel va vb)) true va vb r (sub_fuel va vb) Ka Kb) as (d & D & E).
  - left. split; [reflexivity|exact Fo].
  - exact C.
  - unfold sub_fuel. apply Nat.lt_succ_diag_r.
  - exists d. split; [rewrite E; reflexivity|exact D].
Qed.

Lemma first_ok_ne : forall va vb, va <> [] -> vb <> [] -> first_ok va vb = true.
Proof. intros [|x va] [|y vb] A B; try congruence. reflexivity. Qed.

(* ------------------------------------------------------------------ 5. a missing revision: "0" for snapd, "" for dpkg *)
Lemma zero_first_l : forall f r, hd_digit r = true -> cmp_sub (S f) true [48%N] r = cmp_sub (S f) false [] r.
Proof.
  intros f r H. rewrite !cmp_sub_step. destruct r as [|c r]; [discriminate|]. cbn in H.
  destruct (next_frag (c :: r)) as [[b r'] bn] eqn:Fb.
  pose proof (next_frag_nonempty _ _ _ _ _ Fb) as Nb.
  assert (bn = true). { unfold next_frag in Fb. rewrite H in Fb. destruct (span is_digit (c :: r)). inversion Fb. reflexivity. }
  subst bn. destruct b as [|y b]; [congruence|]. reflexivity.
Qed.

Lemma zero_first_r : forall f r, hd_digit r = true -> cmp_sub (S f) true r [48%N] = cmp_sub (S f) false r [].
Proof.
  intros f r H. rewrite !cmp_sub_step. destruct r as [|c r]; [discriminate|]. cbn in H.
  destruct (next_frag (c :: r)) as [[b r'] bn] eqn:Fb.
  pose proof (next_frag_nonempty _ _ _ _ _ Fb) as Nb.
  assert (bn = true). { unfold next_frag in Fb. rewrite H in Fb. destruct (span is_digit (c :: r)). inversion Fb. reflexivity. }
  subst bn. destruct b as [|y b]; [congruence|]. reflexivity.
Qed.

Lemma hd_digit_ph_num : forall r, hd_digit r = true -> ph_num r = true.
Proof. intros [|c r] H; [reflexivity|exact H]. Qed.

Lemma ok48 : ok [48%N] = true.
Proof. reflexivity. Qed.

Lemma rev_missing_l : forall r, ok r = true -> r <> [] ->
  exists d, compare_subversion [48%N] r = Some (sgn d) /\ dpkg_verrevcmp (sub_fuel [] r) [] r = Some d.
Proof.
  intros r K Nr. destruct (hd_digit r) eqn:Hd.
  - (* the revision starts with a digit: snapd's "0" and dpkg's missing fragment are both the number 0 *)
    unfold compare_subversion, sub_fuel. rewrite (zero_first_l _ _ Hd).
    destruct (cmp_sub (S (length [48%N] + length r)) false [] r) as [x|] eqn:C;
      [|exfalso; revert C; apply cmp_sub_total; cbn [length]; lia].
    destruct (proj2 (sim_all _) [] r x (length r) eq_refl K eq_refl (hd_digit_ph_num _ Hd) C) as (d & D & E).
    + cbn [length]. lia.
    + destruct r; [congruence|cbn [length]; lia].
    + exists d. split; [rewrite E; reflexivity|]. cbn [length Nat.add]. rewrite dpkg_step.
      destruct r as [|c r0]; [congruence|]. cbn [is_nil andb]. cbn in Hd.
      cbn [dpkg_nondigit hd_nondigit orb]. rewrite Hd. cbn [negb]. exact D.
  - (* the revision starts with a non-digit: decided at the first character, digit 0 and END having the same dpkg order *)
    assert (Hn : hd_nondigit r = true). { destruct r as [|c r0]; [congruence|]. cbn in *. rewrite Hd. reflexivity. }
    assert (H5 : hord r <> -5 /\ hord r <> 0).
    { destruct r as [|c r0]; [congruence|]. apply ok_cons in K. destruct K as [Kc _]. cbn in Hd.
      destruct (order_nondigit c Kc Hd). unfold hord. cbn. auto. }
    destruct (subversion_matches_dpkg [48%N] r ok48 K) as (d1 & C1 & D1).
    { apply first_ok_ne; [discriminate|exact Nr]. }
    rewrite C1. unfold sub_fuel in *. cbn [length Nat.add] in *. rewrite dpkg_step in D1. rewrite dpkg_step.
    destruct r as [|c r0]; [congruence|]. cbn [is_nil andb] in *.
    destruct (head_decided (length [48%N] + length (c :: r0)) [48%N] (c :: r0) ok48 K) as (A1 & _).
    { cbn [orb hd_nondigit] in *. rewrite Hn. apply orb_true_r. }
    { reflexivity. }
    { change (hord [48%N]) with 0. intros E. apply (proj2 H5). symmetry. exact E. }
    destruct (head_decided (length (@nil N) + length (c :: r0)) [] (c :: r0) eq_refl K) as (A2 & _).
    { exact Hn. }
    { unfold first_ok. cbn. cbn in Hd. rewrite Hd. reflexivity. }
    { change (hord []) with (-5). intros E. apply (proj1 H5). symmetry. exact E. }
    cbn [length Nat.add] in *. rewrite A1 in D1. rewrite A2.
    change (sd (hd0 [48%N])) with 0 in D1. change (sd (hd0 [])) with 0.
    exists d1. split; [reflexivity|exact D1].
Qed.

Lemma rev_missing_r : forall r, ok r = true -> r <> [] ->
  exists d, compare_subversion r [48%N] = Some (sgn d) /\ dpkg_verrevcmp (sub_fuel r []) r [] = Some d.
Proof.
  intros r K Nr. destruct (hd_digit r) eqn:Hd.
  - unfold compare_subversion, sub_fuel. rewrite (zero_first_r _ _ Hd).
    destruct (cmp_sub (S (length r + length [48%N])) false r []) as [x|] eqn:C;
      [|exfalso; revert C; apply cmp_sub_total; cbn [length]; lia].
    destruct (proj2 (sim_all _) r [] x (length r) K eq_refl (hd_digit_ph_num _ Hd) eq_refl C) as (d & D & E).
    + cbn [length]. lia.
    + destruct r; [congruence|cbn [length]; lia].
    + exists d. split; [rewrite E; reflexivity|]. cbn [length]. rewrite Nat.add_0_r. rewrite dpkg_step.
      destruct r as [|c r0]; [congruence|]. cbn [is_nil andb]. cbn in Hd.
      cbn [dpkg_nondigit hd_nondigit orb]. rewrite Hd. cbn [negb]. exact D.
  - assert (Hn : hd_nondigit r = true). { destruct r as [|c r0]; [congruence|]. cbn in *. rewrite Hd. reflexivity. }
    assert (H5 : hord r <> -5 /\ hord r <> 0).
    { destruct r as [|c r0]; [congruence|]. apply ok_cons in K. destruct K as [Kc _]. cbn in Hd.
      destruct (order_nondigit c Kc Hd). unfold hord. cbn. auto. }
    destruct (subversion_matches_dpkg r [48%N] K ok48) as (d1 & C1 & D1).
    { apply first_ok_ne; [exact Nr|discriminate]. }
    rewrite C1. unfold sub_fuel in *. rewrite dpkg_step in D1. rewrite dpkg_step.
    destruct r as [|c r0]; [congruence|]. cbn [is_nil andb] in *.
    destruct (head_decided (length (c :: r0) + length [48%N]) (c :: r0) [48%N] K ok48) as (A1 & _).
    { rewrite Hn. reflexivity. }
    { reflexivity. }
    { change (hord [48%N]) with 0. apply (proj2 H5). }
    destruct (head_decided (length (c :: r0) + length (@nil BinNums.N)) (c :: r0) [] K eq_refl) as (A2 & _).
    { rewrite Hn. reflexivity. }
    { unfold first_ok. cbn. cbn in Hd. rewrite Hd. reflexivity. }
    { change (hord []) with (-5). apply (proj1 H5). }
    rewrite A1 in D1. rewrite A2.
    change (sd (hd0 [48%N])) with 0 in D1. change (sd (hd0 [])) with 0.
    exists d1. split; [reflexivity|exact D1].
Qed.

(* ------------------------------------------------------------------ the theorem *)
Lemma sgn_zero : forall d, (sgn d =? 0) = (d =? 0).
Proof. intros d. pose proof (sgn_spec d). destruct (Z.eqb_spec (sgn d) 0), (Z.eqb_spec d 0); lia. Qed.

Lemma sgn_sgn : forall d, sgn (sgn d) = sgn d.
Proof. intros d. pose proof (sgn_spec d) as [[_ ->]|[[_ ->]|[_ ->]]]; reflexivity. Qed.

Lemma debian_wf_parts : forall v, debian_wf v = true ->
  match_epoch v = false /\
  match split_last 45 v with
  | Some (m, r) => m <> [] /\ r <> []
  | None => v <> []
  end.
Proof.
  intros v H. unfold debian_wf in H. apply andb_prop in H. destruct H as [H H2]. apply andb_prop in H. destruct H as [_ H1].
  split; [destruct (match_epoch v); [discriminate|reflexivity]|].
  destruct (split_last 45 v) as [[m r]|].
  - apply andb_prop in H2. destruct H2 as [A B]. split; [destruct m|destruct r]; cbn in *; congruence.
  - destruct v; cbn in *; congruence.
Qed.

Lemma both_zero_rev : compare_subversion [48%N] [48%N] = Some (sgn 0) /\ dpkg_verrevcmp (sub_fuel [] []) [] [] = Some 0.
Proof. split; reflexivity. Qed.

Theorem version_compare_matches_dpkg : forall a b, ok a = true -> ok b = true ->
  debian_wf a = true -> debian_wf b = true ->
  exists r, version_compare a b = Res r /\ dpkg_compare a b = Some r.
Proof.
  intros a b Ka Kb Wa Wb.
  destruct (debian_wf_parts _ Wa) as [Ea Sa]. destruct (debian_wf_parts _ Wb) as [Eb Sb].
  unfold version_compare, dpkg_compare, split_rev. rewrite Ea, Eb. cbn [orb].
  assert (Fin : forall ma mb ras rbs rad rbd, ok ma = true -> ok mb = true -> ma <> [] -> mb <> [] ->
    (exists d, compare_subversion ras rbs = Some (sgn d) /\ dpkg_verrevcmp (sub_fuel rad rbd) rad rbd = Some d) ->
    exists r,
      match compare_subversion ma mb with
      | Some r0 => if negb (r0 =? 0) then Res r0
                   else match compare_subversion ras rbs with Some r1 => Res r1 | None => OutOfFuel end
      | None => OutOfFuel
      end = Res r /\
      match dpkg_verrevcmp (sub_fuel ma mb) ma mb with
      | Some r0 => if negb (r0 =? 0) then Some (sgn r0)
                   else match dpkg_verrevcmp (sub_fuel rad rbd) rad rbd with Some r1 => Some (sgn r1) | None => None end
      | None => None
      end = Some r).
  { intros ma mb ras rbs rad rbd Kma Kmb Nma Nmb (d2 & C2 & D2).
    destruct (subversion_matches_dpkg ma mb Kma Kmb (first_ok_ne _ _ Nma Nmb)) as (d1 & C1 & D1).
    rewrite C1, D1, sgn_zero. destruct (d1 =? 0); cbn [negb].
    - rewrite C2, D2. exists (sgn d2). split; reflexivity.
    - exists (sgn d1). split; reflexivity. }
  destruct (split_last 45 a) as [[ma ra]|] eqn:La; destruct (split_last 45 b) as [[mb rb]|] eqn:Lb.
  - destruct (split_last_ok _ _ _ _ Ka La) as [Kma Kra]. destruct (split_last_ok _ _ _ _ Kb Lb) as [Kmb Krb].
    destruct Sa as [Nma Nra]. destruct Sb as [Nmb Nrb].
    apply Fin; try assumption. apply subversion_matches_dpkg; try assumption. apply first_ok_ne; assumption.
  - destruct (split_last_ok _ _ _ _ Ka La) as [Kma Kra]. destruct Sa as [Nma Nra].
    apply Fin; try assumption. apply rev_missing_r; assumption.
  - destruct (split_last_ok _ _ _ _ Kb Lb) as [Kmb Krb]. destruct Sb as [Nmb Nrb].
    apply Fin; try assumption. apply rev_missing_l; assumption.
  - apply Fin; try assumption. exists 0. exact both_zero_rev.
Qed.

(* the boolean form used by the finite-domain regression check, now for all real non-NUL byte strings *)
Corollary debian_ok_all : forall a b, ok a = true -> ok b = true -> debian_ok a b = true.
Proof.
  intros a b Ka Kb. unfold debian_ok. destruct (debian_wf a) eqn:Wa; [|reflexivity]. destruct (debian_wf b) eqn:Wb; [|reflexivity].
  cbn [andb negb orb]. destruct (version_compare_matches_dpkg a b Ka Kb Wa Wb) as (r & -> & ->). apply Z.eqb_refl.
Qed.

(* debian_wf already excludes NUL; ok adds only that every element is a real byte (< 256) *)
Lemma ok_no_nul : forall v, ok v = true -> no_nul v = true.
Proof.
  induction v as [|c v IH]; intros H; [reflexivity|]. apply ok_cons in H. destruct H as [Hc Hv]. apply okb_range in Hc.
  unfold no_nul in *. cbn [forallb]. rewrite (IH Hv). destruct (N.eqb_spec c 0); [lia|reflexivity].
Qed.
