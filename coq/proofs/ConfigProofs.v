(* C29 — proofs about models/Config.v.
   Part 1: the write cache (PatchConfig / commitChange) against plain nested-map writes (tset).
   Part 2: simulation between the transaction state machine and the log-replay reference, for every history.
   Part 3: the properties themselves on the reference semantics (read-your-writes, null removal, no lost updates,
           rejection of traversal through scalars, isolation, revision snapshots). *)
From Coq Require Import List NArith ZArith Bool Lia ZifyBool ZifyN.
Import ListNotations.
Require Import V.lib.JsonTree V.proofs.JsonTreeProofs V.models.Config.
Open Scope N_scope.

(* ------------------------------------------------------------------ Part 1 *)
Lemma change_ind' : forall P : change -> Prop,
  (forall t, P (Raw t)) ->
  (forall m, Forall (fun kc => P (snd kc)) m -> P (Patch m)) ->
  forall c, P c.
Proof.
  intros P HR HP. fix IH 1. intros [t | m]; [apply HR|].
  apply HP. induction m as [|[k c] r IHm]; constructor; [apply IH|exact IHm].
Qed.

Definition wf_ochange (c : option change) : Prop := match c with Some c => wf_change c = true | None => True end.

Lemma wf_patch : forall m, wf_change (Patch m) = true <->
  sorted (map fst m) = true /\ (forall k c, lookup k m = Some c -> wf_change c = true).
Proof.
  intros m. cbn [wf_change]. rewrite andb_true_iff, forallb_forall. split; intros [S H]; split; auto.
  - intros k c Hl. apply lookup_in in Hl. exact (H _ Hl).
  - intros [k c] Hin. apply H with k. now apply in_lookup.
Qed.

Lemma wf_patch_lookup : forall m k, wf_change (Patch m) = true -> wf_ochange (lookup k m).
Proof. intros m k H. apply wf_patch in H. destruct H as [_ H]. destruct (lookup k m) eqn:E; cbn; eauto. Qed.

Lemma wf_patch_aset : forall m k c, wf_change (Patch m) = true -> wf_change c = true -> wf_change (Patch (aset k c m)) = true.
Proof.
  intros m k c Hm Hc. apply wf_patch in Hm. destruct Hm as [S H]. apply wf_patch. split; [now apply sorted_aset|].
  intros j c'. rewrite lookup_aset. destruct (j =? k); [now intros [= <-]|apply H].
Qed.

Definition eff (c : option change) (p : option tree) : option tree :=
  match c with Some c => Some (commit_change c p) | None => p end.

Definition child (p : option tree) (k : key) : option tree :=
  match p with Some (Obj l) => lookup k l | _ => None end.

Definition ocontent (p : option tree) : list (key * tree) := match p with Some (Obj l) => l | _ => [] end.

Lemma commit_patch_obj : forall m l, commit_change (Patch m) (Some (Obj l)) = Obj (apply_changes l m).
Proof. reflexivity. Qed.

Lemma commit_none : forall c, commit_change c None = tree_of_change c.
Proof. destruct c; reflexivity. Qed.

Lemma sorted_apply : forall m l, sorted (map fst l) = true -> sorted (map fst (apply_changes l m)) = true.
Proof.
  unfold apply_changes. induction m as [|[k c] r IH]; intros l S; cbn; [exact S|]. apply IH. now apply sorted_aset.
Qed.

Lemma lookup_apply : forall m l j, sorted (map fst m) = true ->
  lookup j (apply_changes l m) = match lookup j m with Some c => Some (commit_change c (lookup j l)) | None => lookup j l end.
Proof.
  unfold apply_changes. induction m as [|[k c] r IH]; intros l j S; cbn [fold_left lookup fst snd]; [reflexivity|].
  cbn [map fst] in S. apply sorted_cons in S. destruct S as [S1 S2]. rewrite IH by exact S2.
  destruct (j =? k) eqn:E.
  - assert (j = k) by lia; subst. rewrite lookup_none_notin.
    + apply lookup_aset_eq.
    + intros Hin. specialize (S1 _ Hin). lia.
  - rewrite lookup_aset_neq by lia. reflexivity.
Qed.

Lemma tx_sorted_toc : forall m, sorted (map fst (map (fun kc : key * change => (fst kc, tree_of_change (snd kc))) m)) = sorted (map fst m).
Proof. intros m. now rewrite (keys_map tree_of_change). Qed.

(* the committed form of a map entry is always an object with sorted keys *)
Lemma commit_patch_shape : forall m p, sorted (map fst m) = true -> wf_opt p ->
  exists l, commit_change (Patch m) p = Obj l /\ sorted (map fst l) = true.
Proof.
  intros m p S W. destruct p as [[| z | l]|]; cbn [commit_change tree_of_change];
    try (eexists; split; [reflexivity|now rewrite tx_sorted_toc]).
  eexists; split; [reflexivity|]. apply (sorted_apply m l). cbn in W. apply wf_obj in W. tauto.
Qed.

Lemma child_commit_patch : forall m p k, sorted (map fst m) = true ->
  child (Some (commit_change (Patch m) p)) k = eff (lookup k m) (child p k).
Proof.
  intros m p k S. destruct p as [[| z | l]|]; cbn [commit_change tree_of_change child];
    try (rewrite (lookup_map tree_of_change); destruct (lookup k m) as [c|]; cbn; [now rewrite commit_none|reflexivity]).
  fold (apply_changes l m). rewrite lookup_apply by exact S. now destruct (lookup k m).
Qed.

Lemma obj_ext : forall l1 l2, sorted (map fst l1) = true -> sorted (map fst l2) = true ->
  (forall k, child (Some (Obj l1)) k = child (Some (Obj l2)) k) -> Obj l1 = Obj l2.
Proof. intros l1 l2 S1 S2 H. f_equal. now apply assoc_ext. Qed.

Lemma tset_cons : forall k r v p, tset (k :: r) v p = Obj (aset k (tset r v (child p k)) (ocontent p)).
Proof. intros k r v p. destruct p as [[| z | l]|]; reflexivity. Qed.

Lemma dpatch_unfold : forall k k2 r2 l v, dpatch (k :: k2 :: r2) l v =
  match lookup k l with
  | None | Some Null => Some (aset k (nest (k2 :: r2) v) l)
  | Some (Obj l') => match dpatch (k2 :: r2) l' v with Some x => Some (aset k (Obj x) l) | None => None end
  | Some (Atom _) => None
  end.
Proof. reflexivity. Qed.

(* decoded-and-repacked patching is a plain write *)
Lemma dpatch_tset : forall ks l v x, dpatch ks l v = Some x -> Obj x = tset ks v (Some (Obj l)).
Proof.
  induction ks as [|k r IH]; intros l v x H; [discriminate|].
  destruct r as [|k2 r2].
  - cbn in H. injection H as <-. reflexivity.
  - rewrite dpatch_unfold in H. rewrite tset_cons. cbn [child ocontent].
    destruct (lookup k l) as [[| z | l']|] eqn:E.
    + injection H as <-. now rewrite <- tset_none_nest.
    + discriminate.
    + destruct (dpatch (k2 :: r2) l' v) as [x'|] eqn:D; [|discriminate]. injection H as <-.
      now rewrite <- (IH _ _ _ D).
    + injection H as <-. now rewrite <- tset_none_nest.
Qed.

Lemma blocked_none : forall ks, blocked ks None = false.
Proof. destruct ks; reflexivity. Qed.

Lemma dpatch_blocked : forall ks l v, ks <> [] -> (dpatch ks l v = None <-> blocked ks (Some (Obj l)) = true).
Proof.
  induction ks as [|k r IH]; intros l v NE; [congruence|].
  destruct r as [|k2 r2].
  - cbn. split; discriminate.
  - rewrite dpatch_unfold. change (blocked (k :: k2 :: r2) (Some (Obj l))) with (blocked (k2 :: r2) (lookup k l)).
    destruct (lookup k l) as [[| z | l']|] eqn:E.
    + cbn. split; discriminate.
    + cbn. split; reflexivity.
    + rewrite <- (IH l' v) by discriminate. destruct (dpatch (k2 :: r2) l' v); split; congruence.
    + cbn. split; discriminate.
Qed.

Lemma tset_patch_nil : forall k r v p, tset (k :: r) v (Some (commit_change (Patch []) p)) = tset (k :: r) v p.
Proof. intros k r v p. destruct p as [[| z | l]|]; reflexivity. Qed.

Lemma patch_none_is_nil : forall ks v, patch_config ks None v = patch_config ks (Some (Patch [])) v.
Proof. destruct ks; reflexivity. Qed.

(* K: patching the cache then committing onto ANY base = committing the old cache and then writing the path *)
Lemma patch_commit : forall ks c v c', wf_ochange c -> wf_tree v = true ->
  patch_config ks c v = Some c' ->
  wf_change c' = true /\ forall p, wf_opt p -> commit_change c' p = tset ks v (eff c p).
Proof.
  induction ks as [|k r IH]; intros c v c' Wc Wv H; [discriminate|].
  (* the map case, for every m *)
  assert (PM : forall m m', wf_change (Patch m) = true ->
            (match r with
             | [] => Some (aset k (Raw v) m)
             | _ :: _ => match patch_config r (lookup k m) v with Some c0 => Some (aset k c0 m) | None => None end
             end) = Some m' ->
            wf_change (Patch m') = true /\
            forall p, wf_opt p -> commit_change (Patch m') p = tset (k :: r) v (Some (commit_change (Patch m) p))).
  { intros m m' Wm Hm.
    assert (X : exists x, m' = aset k x m /\ wf_change x = true /\
                 forall p, wf_opt p -> commit_change x p = tset r v (eff (lookup k m) p)).
    { destruct r as [|k2 r2].
      - injection Hm as <-. exists (Raw v). repeat split; auto.
      - destruct (patch_config (k2 :: r2) (lookup k m) v) as [c0|] eqn:P; [|discriminate]. injection Hm as <-.
        exists c0. split; [reflexivity|]. apply (IH _ _ _ (wf_patch_lookup _ _ Wm) Wv P). }
    destruct X as (x & -> & Wx & Hx). split; [now apply wf_patch_aset|].
    intros p Wp. pose proof Wm as Wm'. apply wf_patch in Wm'. destruct Wm' as [Sm _].
    destruct (commit_patch_shape (aset k x m) p (sorted_aset _ _ _ Sm) Wp) as (l1 & E1 & S1).
    destruct (commit_patch_shape m p Sm Wp) as (l0 & E0 & S0).
    assert (F1 : forall j, lookup j l1 = eff (lookup j (aset k x m)) (child p j)).
    { intros j. change (lookup j l1) with (child (Some (Obj l1)) j). rewrite <- E1. apply child_commit_patch.
      now apply sorted_aset. }
    assert (F0 : forall j, lookup j l0 = eff (lookup j m) (child p j)).
    { intros j. change (lookup j l0) with (child (Some (Obj l0)) j). rewrite <- E0. now apply child_commit_patch. }
    assert (Wk : wf_opt (child p k)).
    { destruct p as [[| z | l]|]; cbn; auto. now apply wf_opt_lookup. }
    rewrite tset_cons, E1, E0. cbn [child ocontent]. f_equal. apply assoc_ext; [exact S1|now apply sorted_aset|].
    intros j. rewrite F1, !lookup_aset. destruct (j =? k) eqn:E.
    + assert (j = k) by lia; subst j. cbn [eff]. f_equal. rewrite F0. now apply Hx.
    + now rewrite F0. }
  cbn [patch_config] in H. destruct c as [[t | m]|].
  - destruct t as [| z | l].
    + (* raw null *)
      match type of H with option_map _ ?e = _ => destruct e as [m1|] eqn:Em; [|discriminate] end.
      injection H as <-. destruct (PM [] m1 eq_refl Em) as [W1 H1].
      assert (T : tree_of_change (Patch m1) = tset (k :: r) v (Some (Obj []))).
      { rewrite <- commit_none. now rewrite H1. }
      cbn [tree_of_change] in T. split.
      * cbn [wf_change]. rewrite T. apply wf_tset; cbn; auto.
      * intros p Wp. cbn [commit_change eff]. exact T.
    + discriminate.
    + destruct (dpatch (k :: r) l v) as [x|] eqn:D; [|discriminate]. injection H as <-.
      apply dpatch_tset in D. split.
      * cbn [wf_change]. rewrite D. apply wf_tset; [exact Wv|exact Wc].
      * intros p _. cbn [commit_change eff]. exact D.
  - match type of H with option_map _ ?e = _ => destruct e as [m1|] eqn:Em; [|discriminate] end.
    injection H as <-. destruct (PM m m1 Wc Em) as [W1 H1]. split; [exact W1|]. intros p Wp. now apply H1.
  - match type of H with option_map _ ?e = _ => destruct e as [m1|] eqn:Em; [|discriminate] end.
    injection H as <-. destruct (PM [] m1 eq_refl Em) as [W1 H1]. split; [exact W1|]. intros p Wp.
    rewrite H1 by exact Wp. cbn [eff]. apply tset_patch_nil.
Qed.

Lemma blocked_commit_patch : forall m p k r, sorted (map fst m) = true -> wf_opt p ->
  blocked (k :: r) (Some (commit_change (Patch m) p)) = blocked r (eff (lookup k m) (child p k)).
Proof.
  intros m p k r S W. destruct (commit_patch_shape m p S W) as (l0 & E0 & S0).
  rewrite <- child_commit_patch by exact S. rewrite E0. reflexivity.
Qed.

Lemma blocked_child : forall k r p, blocked (k :: r) p = false -> blocked r (child p k) = false.
Proof. intros k r p H. destruct p as [[| z | l]|]; cbn in *; auto using blocked_none; discriminate. Qed.

Lemma wf_opt_child : forall p k, wf_opt p -> wf_opt (child p k).
Proof. intros p k W. destruct p as [[| z | l]|]; cbn; auto. now apply wf_opt_lookup. Qed.

(* K2: PatchConfig fails exactly when the path runs through a scalar of the cache committed onto a base whose own
   path is free of scalars *)
Lemma patch_blocked : forall ks c v p, wf_ochange c -> wf_opt p -> blocked ks p = false -> ks <> [] ->
  (patch_config ks c v = None <-> blocked ks (eff c p) = true).
Proof.
  induction ks as [|k r IH]; intros c v p Wc Wp Bp NE; [congruence|].
  assert (PM : forall m p, wf_change (Patch m) = true -> wf_opt p -> blocked (k :: r) p = false ->
            ((match r with
              | [] => Some (aset k (Raw v) m)
              | _ :: _ => match patch_config r (lookup k m) v with Some c0 => Some (aset k c0 m) | None => None end
              end) = None <-> blocked (k :: r) (Some (commit_change (Patch m) p)) = true)).
  { intros m p0 Wm Wp0 Bp0. pose proof Wm as Wm'. apply wf_patch in Wm'. destruct Wm' as [Sm _].
    rewrite blocked_commit_patch by assumption.
    destruct r as [|k2 r2].
    - cbn. split; discriminate.
    - rewrite <- (IH (lookup k m) v (child p0 k)); [|now apply wf_patch_lookup|now apply wf_opt_child|now apply blocked_child|discriminate].
      destruct (patch_config (k2 :: r2) (lookup k m) v); split; congruence. }
  assert (OM : forall (A B : Type) (f : A -> B) (o : option A), option_map f o = None <-> o = None).
  { intros A B f [a|]; cbn; split; congruence. }
  cbn [patch_config]. destruct c as [[t | m]|].
  - destruct t as [| z | l].
    + rewrite OM. rewrite (PM [] None eq_refl I eq_refl). cbn. rewrite blocked_none. split; discriminate.
    + cbn. split; reflexivity.
    + rewrite OM. cbn [eff]. apply dpatch_blocked. discriminate.
  - rewrite OM. cbn [eff]. now apply PM.
  - rewrite OM. cbn [eff]. rewrite (PM [] p eq_refl Wp Bp). rewrite Bp.
    destruct p as [[| z | l]|]; cbn in *; try rewrite blocked_none; try (split; congruence).
Qed.

(* ------------------------------------------------------------------ Part 2: simulation *)
Lemma get_node_none : forall ks, get_node ks None = GNoOption.
Proof. destruct ks; reflexivity. Qed.

Lemma get_from_node : forall ks l, ks <> [] -> get_from ks l = get_node ks (Some (Obj l)).
Proof.
  induction ks as [|k r IH]; intros l NE; [congruence|].
  cbn [get_from get_node]. destruct (lookup k l) as [t|]; [|now rewrite get_node_none].
  destruct r as [|k2 r2]; [reflexivity|]. destruct t as [| z | l']; try reflexivity.
  apply IH. discriminate.
Qed.

Lemma notmap_blocked : forall ks o, is_notmap (get_node ks o) = blocked ks o.
Proof.
  induction ks as [|k r IH]; intros o; cbn.
  - now destruct o.
  - destruct o as [[| z | l]|]; cbn; auto.
Qed.

Lemma set_guard : forall k r l,
  (match r with [] => false | _ :: _ => is_notmap (get_from (k :: r) l) end) = blocked (k :: r) (Some (Obj l)).
Proof.
  intros k r l. destruct r as [|k2 r2].
  - reflexivity.
  - rewrite get_from_node by discriminate. apply notmap_blocked.
Qed.

Definition wf_log (lg : wlog) : Prop := Forall (fun w => wf_tree (snd w) = true /\ snd (fst w) <> []) lg.

Lemma replay_snoc : forall lg s ks v B,
  replay (lg ++ [(s, ks, v)]) B = aset s (tset ks v (lookup s (replay lg B))) (replay lg B).
Proof. intros. unfold replay. rewrite fold_left_app. reflexivity. Qed.

Lemma wf_replay : forall lg B, wf_log lg -> wf_tree (Obj B) = true -> wf_tree (Obj (replay lg B)) = true.
Proof.
  unfold replay. induction lg as [|[[s ks] v] r IH]; intros B W WB; [exact WB|].
  inversion W as [|? ? [Wv _] Wr]; subst. cbn [fold_left]. apply IH; [exact Wr|].
  apply wf_aset; [exact WB|]. apply wf_tset; [exact Wv|now apply wf_opt_lookup].
Qed.

Lemma tset_snapmap : forall ks v B s, ks <> [] -> tset ks v (Some (Obj (snap_map B s))) = tset ks v (lookup s B).
Proof.
  intros ks v B s NE. destruct ks as [|k r]; [congruence|]. unfold snap_map.
  destruct (lookup s B) as [[| z | l]|]; reflexivity.
Qed.

Lemma wf_snap_map : forall B s, wf_tree (Obj B) = true -> wf_tree (Obj (snap_map B s)) = true.
Proof.
  intros B s W. unfold snap_map. destruct (lookup s B) as [[| z | l]|] eqn:E; try reflexivity.
  eapply wf_lookup; eauto.
Qed.

Record tx_rel (t : tx) (rt : rtx) : Prop := mkRel {
  rel_pristine : tx_pristine t = r_pristine rt;
  rel_wfp : wf_tree (Obj (tx_pristine t)) = true;
  rel_sorted : sorted (map fst (tx_changes t)) = true;
  rel_wfc : forall s m, lookup s (tx_changes t) = Some m -> wf_change (Patch m) = true;
  rel_wfl : wf_log (r_log rt);
  rel_snaps : forall s, In s (log_snaps (r_log rt)) <-> lookup s (tx_changes t) <> None;
  rel_replay : forall B, wf_tree (Obj B) = true -> forall s,
      lookup s (replay (r_log rt) B) =
      match lookup s (tx_changes t) with
      | Some m => Some (Obj (apply_changes (snap_map B s) m))
      | None => lookup s B
      end
}.

Lemma wf_snap_changes : forall t rt s, tx_rel t rt -> wf_change (Patch (snap_changes t s)) = true.
Proof.
  intros t rt s R. unfold snap_changes. destruct (lookup s (tx_changes t)) eqn:E; [|reflexivity].
  eapply rel_wfc; eauto.
Qed.

Lemma view_eq : forall t rt B s, tx_rel t rt -> wf_tree (Obj B) = true ->
  snap_map (replay (r_log rt) B) s = apply_changes (snap_map B s) (snap_changes t s).
Proof.
  intros t rt B s R W. unfold snap_map at 1. rewrite (rel_replay _ _ R B W s). unfold snap_changes.
  destruct (lookup s (tx_changes t)); reflexivity.
Qed.

Lemma patch_shape : forall ks m v c', patch_config ks (Some (Patch m)) v = Some c' -> exists m', c' = Patch m'.
Proof.
  intros [|k r] m v c' H; [discriminate|]. cbn [patch_config] in H.
  match type of H with option_map _ ?e = _ => destruct e as [m1|]; [|discriminate] end.
  injection H as <-. now exists m1.
Qed.

Lemma sim_set : forall t rt s ks v, tx_rel t rt -> wf_tree v = true ->
  match tx_set t s ks v, r_set rt s ks v with
  | Some t', Some rt' => tx_rel t' rt'
  | None, None => True
  | _, _ => False
  end.
Proof.
  intros t rt s ks v R Wv. destruct ks as [|k r]; [exact I|].
  unfold tx_set, r_set. rewrite set_guard. rewrite <- (rel_pristine _ _ R).
  set (P := tx_pristine t). set (sm := snap_map P s).
  destruct (blocked (k :: r) (Some (Obj sm))) eqn:Bp; [exact I|]. cbn [orb].
  rewrite (view_eq t rt P s R (rel_wfp _ _ R)). fold sm.
  pose proof (wf_snap_changes t rt s R) as Wm.
  assert (Wsm : wf_opt (Some (Obj sm))) by (apply wf_snap_map; exact (rel_wfp _ _ R)).
  pose proof (patch_blocked (k :: r) (Some (Patch (snap_changes t s))) v (Some (Obj sm)) Wm Wsm Bp ltac:(discriminate)) as K2.
  cbn [eff] in K2. rewrite commit_patch_obj in K2.
  destruct (patch_config (k :: r) (Some (Patch (snap_changes t s))) v) as [c'|] eqn:Pc.
  - destruct (patch_shape _ _ _ _ Pc) as [m' ->].
    destruct (blocked (k :: r) (Some (Obj (apply_changes sm (snap_changes t s))))) eqn:Bv.
    { destruct K2 as [_ K2]. specialize (K2 eq_refl). discriminate. }
    destruct (patch_commit (k :: r) (Some (Patch (snap_changes t s))) v _ Wm Wv Pc) as [Wm' Hc].
    constructor; cbn [tx_pristine tx_changes r_pristine r_log].
    + reflexivity.
    + exact (rel_wfp _ _ R).
    + apply sorted_aset. exact (rel_sorted _ _ R).
    + intros s' m0. rewrite lookup_aset. destruct (s' =? s); [now intros [= <-]|apply (rel_wfc _ _ R)].
    + apply Forall_app. split; [exact (rel_wfl _ _ R)|]. constructor; [|constructor]. cbn. split; [exact Wv|discriminate].
    + intros s'. unfold log_snaps. rewrite map_app, in_app_iff. fold (log_snaps (r_log rt)).
      rewrite (rel_snaps _ _ R). rewrite lookup_aset. cbn. destruct (s' =? s) eqn:E.
      * split; [discriminate|]. intros _. right. left. lia.
      * split; [intros [H|[H|[]]]; [exact H|lia]|intros H; now left].
    + intros B WB s'. rewrite replay_snoc, !lookup_aset. destruct (s' =? s) eqn:E; [|apply (rel_replay _ _ R B WB)].
      assert (s' = s) by lia; subst s'. f_equal.
      assert (WsB : wf_opt (Some (Obj (snap_map B s)))) by (now apply wf_snap_map).
      specialize (Hc _ WsB). rewrite commit_patch_obj in Hc. rewrite Hc. cbn [eff]. rewrite commit_patch_obj.
      rewrite (rel_replay _ _ R B WB). unfold snap_changes.
      destruct (lookup s (tx_changes t)); [reflexivity|].
      change (apply_changes (snap_map B s) []) with (snap_map B s). symmetry. apply tset_snapmap. discriminate.
  - destruct K2 as [K2 _]. rewrite (K2 eq_refl). exact I.
Qed.

Lemma sim_get : forall t rt s ks, tx_rel t rt -> tx_get t s ks = r_get rt s ks.
Proof.
  intros t rt s ks R. unfold tx_get, r_get, tx_view, r_view, purge_snap.
  rewrite <- (rel_pristine _ _ R). now rewrite (view_eq t rt _ s R (rel_wfp _ _ R)).
Qed.

Lemma sorted_commit_snaps : forall chs L, sorted (map fst L) = true -> sorted (map fst (commit_snaps L chs)) = true.
Proof.
  unfold commit_snaps. induction chs as [|[s m] r IH]; intros L S; cbn; [exact S|]. apply IH. now apply sorted_aset.
Qed.

Lemma lookup_commit_snaps : forall chs L s, sorted (map fst chs) = true ->
  lookup s (commit_snaps L chs) =
  match lookup s chs with
  | Some m => Some (Obj (purge_list (apply_changes (snap_map L s) m)))
  | None => lookup s L
  end.
Proof.
  unfold commit_snaps. induction chs as [|[k m] r IH]; intros L s S; cbn [fold_left lookup fst snd]; [reflexivity|].
  cbn [map fst] in S. apply sorted_cons in S. destruct S as [S1 S2]. rewrite IH by exact S2.
  destruct (s =? k) eqn:E.
  - assert (s = k) by lia; subst. rewrite lookup_none_notin.
    + apply lookup_aset_eq.
    + intros Hin. specialize (S1 _ Hin). lia.
  - unfold snap_map. rewrite lookup_aset_neq by lia. reflexivity.
Qed.

Lemma lookup_map_gen : forall {A B : Type} (g : key * A -> B) (l : list (key * A)) k,
  lookup k (map (fun kv => (fst kv, g kv)) l) = option_map (fun v => g (k, v)) (lookup k l).
Proof.
  induction l as [|[k' v'] r IH]; intros k; cbn; [reflexivity|]. destruct (k =? k') eqn:E; [|apply IH].
  assert (k = k') by lia; subst. reflexivity.
Qed.

Lemma keys_map_gen : forall {A B : Type} (g : key * A -> B) (l : list (key * A)),
  map fst (map (fun kv => (fst kv, g kv)) l) = map fst l.
Proof. induction l as [|[k v] r IH]; cbn; [reflexivity|now rewrite IH]. Qed.

Lemma wf_content : forall v, wf_tree v = true -> wf_tree (Obj (content v)) = true.
Proof. intros [| z | l]; auto. Qed.

Lemma wf_purge_written : forall snaps R, wf_tree (Obj R) = true -> wf_tree (Obj (purge_written snaps R)) = true.
Proof.
  intros snaps R W. apply wf_obj in W. destruct W as [S W]. apply wf_obj. unfold purge_written. split.
  - now rewrite keys_map_gen.
  - intros k c. rewrite lookup_map_gen. destruct (lookup k R) as [v|] eqn:E; [|discriminate]. cbn. intros [= <-].
    specialize (W _ _ E). destruct (existsb (N.eqb k) snaps); [|exact W].
    apply wf_purge_list. now apply wf_content.
Qed.

Lemma existsb_in : forall s l, existsb (N.eqb s) l = true <-> In s l.
Proof.
  intros s l. rewrite existsb_exists. split.
  - intros (x & Hin & E). assert (s = x) by lia. now subst.
  - intros H. exists s. split; [exact H|apply N.eqb_refl].
Qed.

Lemma rel_empty : forall c, wf_tree (Obj c) = true -> tx_rel (mkTx c []) (mkRtx c []).
Proof.
  intros c W. constructor; cbn; auto.
  - discriminate.
  - constructor.
  - intros s. split; [intros []|congruence].
Qed.

Lemma sim_commit : forall t rt L, tx_rel t rt -> wf_tree (Obj L) = true ->
  fst (tx_commit t L) = fst (r_commit rt L) /\ tx_rel (snd (tx_commit t L)) (snd (r_commit rt L)) /\
  wf_tree (Obj (fst (tx_commit t L))) = true.
Proof.
  intros t rt L R W. unfold tx_commit, r_commit.
  destruct (tx_changes t) as [|[s0 m0] chs] eqn:EC.
  - destruct (r_log rt) as [|[[s1 ks1] v1] lg] eqn:EL; [cbn; auto|].
    exfalso. pose proof (rel_snaps _ _ R s1) as H. rewrite EC, EL in H. cbn in H. destruct H as [H _].
    now apply H; [left|].
  - destruct (r_log rt) as [|w lg] eqn:EL.
    { exfalso. pose proof (rel_snaps _ _ R s0) as H. rewrite EC, EL in H. cbn in H. rewrite N.eqb_refl in H.
      destruct H as [_ H]. apply H. discriminate. }
    rewrite <- EC, <- EL. cbn [fst snd].
    assert (WR : wf_tree (Obj (replay (r_log rt) L)) = true) by (apply wf_replay; [exact (rel_wfl _ _ R)|exact W]).
    assert (E : commit_snaps L (tx_changes t) = purge_written (log_snaps (r_log rt)) (replay (r_log rt) L)).
    { apply assoc_ext.
      - apply sorted_commit_snaps. apply wf_obj in W. tauto.
      - unfold purge_written. rewrite keys_map_gen. apply wf_obj in WR. tauto.
      - intros s. rewrite lookup_commit_snaps by exact (rel_sorted _ _ R). unfold purge_written.
        rewrite lookup_map_gen. rewrite (rel_replay _ _ R L W s). cbn [fst snd].
        pose proof (rel_snaps _ _ R s) as HS. destruct (lookup s (tx_changes t)) as [m|] eqn:Em; cbn [option_map].
        + assert (Hin : existsb (N.eqb s) (log_snaps (r_log rt)) = true) by (apply existsb_in, HS; discriminate).
          rewrite Hin. reflexivity.
        + assert (Hin : existsb (N.eqb s) (log_snaps (r_log rt)) = false).
          { destruct (existsb (N.eqb s) (log_snaps (r_log rt))) eqn:X; [|reflexivity].
            apply existsb_in, HS in X. congruence. }
          destruct (lookup s L); cbn; [now rewrite Hin|reflexivity]. }
    assert (WC : wf_tree (Obj (commit_snaps L (tx_changes t))) = true) by (rewrite E; now apply wf_purge_written).
    split; [exact E|]. split; [|exact WC]. rewrite <- E. now apply rel_empty.
Qed.

(* ---- the whole state *)
Definition wf_rev (rc : revconfig) : Prop :=
  Forall (fun sm => Forall (fun rt : key * tree => wf_tree (snd rt) = true) (snd sm)) rc.

Lemma Forall_aset : forall {A : Type} (Q : key * A -> Prop) l k v, Forall Q l -> Q (k, v) -> Forall Q (aset k v l).
Proof.
  induction l as [|[k' v'] r IH]; intros k v F H; cbn; [now constructor|].
  inversion F; subst. destruct (k =? k'); [now constructor|]. destruct (k <? k'); constructor; auto.
Qed.

Lemma Forall_aremove : forall {A : Type} (Q : key * A -> Prop) l k, Forall Q l -> Forall Q (aremove k l).
Proof.
  induction l as [|[k' v'] r IH]; intros k F; cbn; [constructor|]. inversion F; subst.
  destruct (k =? k'); [auto|constructor; auto].
Qed.

Lemma Forall_lookup : forall {A : Type} (Q : key * A -> Prop) l k v, Forall Q l -> lookup k l = Some v -> Q (k, v).
Proof. intros A Q l k v F H. rewrite Forall_forall in F. apply F. now apply lookup_in. Qed.

Lemma wf_save : forall c rc s r, wf_tree (Obj c) = true -> wf_rev rc -> wf_rev (save_rev c rc s r).
Proof.
  intros c rc s r W WR. unfold save_rev. destruct (lookup s c) as [sc|] eqn:E; [|exact WR].
  apply Forall_aset; [exact WR|]. cbn. apply Forall_aset.
  - destruct (lookup s rc) as [m|] eqn:E2; [|constructor]. exact (Forall_lookup _ _ _ _ WR E2).
  - cbn. eapply wf_lookup; eauto.
Qed.

Lemma wf_restore : forall c rc s r, wf_tree (Obj c) = true -> wf_rev rc -> wf_tree (Obj (restore_rev c rc s r)) = true.
Proof.
  intros c rc s r W WR. unfold restore_rev. destruct (lookup s rc) as [m|] eqn:E; [|exact W].
  destruct (lookup r m) as [sc|] eqn:E2; [|exact W]. apply wf_aset; [exact W|].
  pose proof (Forall_lookup _ _ _ _ WR E) as F. cbn in F. exact (Forall_lookup _ _ _ _ F E2).
Qed.

Lemma wf_discard : forall rc s r, wf_rev rc -> wf_rev (discard_rev rc s r).
Proof.
  intros rc s r WR. unfold discard_rev. destruct (lookup s rc) as [m|] eqn:E; [|exact WR].
  pose proof (Forall_lookup _ _ _ _ WR E) as F. cbn in F.
  pose proof (Forall_aremove _ m r F) as F'.
  destruct (aremove r m) as [|x m'] eqn:E2; [now apply Forall_aremove|]. apply Forall_aset; [exact WR|exact F'].
Qed.

Record st_rel (st : state) (rs : rstate) : Prop := mkStRel {
  sr_cfg : st_cfg st = rs_cfg rs;
  sr_rev : st_rev st = rs_rev rs;
  sr_wf : wf_tree (Obj (st_cfg st)) = true;
  sr_wfr : wf_rev (st_rev st);
  sr_txs : Forall2 tx_rel (st_txs st) (rs_txs rs)
}.

Lemma Forall2_nth : forall {A B : Type} (Q : A -> B -> Prop) l1 l2 i, Forall2 Q l1 l2 ->
  match nth_error l1 i, nth_error l2 i with
  | Some a, Some b => Q a b
  | None, None => True
  | _, _ => False
  end.
Proof.
  intros A B Q l1 l2 i F. revert i. induction F; intros [|i]; cbn; auto. apply IHF.
Qed.

Lemma Forall2_set_nth : forall {A B : Type} (Q : A -> B -> Prop) l1 l2 i a b, Forall2 Q l1 l2 -> Q a b ->
  Forall2 Q (set_nth i a l1) (set_nth i b l2).
Proof.
  intros A B Q l1 l2 i a b F H. revert i. induction F; intros [|i]; cbn; constructor; auto.
Qed.

Lemma sim_step : forall st rs o, st_rel st rs -> wf_op o = true ->
  snd (step st o) = snd (rstep rs o) /\ st_rel (fst (step st o)) (fst (rstep rs o)).
Proof.
  intros st rs o R Wo. destruct R as [Ec Er Wc Wr Ft].
  destruct o as [| i s ks v | i s ks | i | s r | s r | s r]; cbn [step rstep].
  - rewrite <- Ec, <- Er. cbn. split; [reflexivity|]. constructor; cbn; auto.
    apply Forall2_app; [exact Ft|]. constructor; [|constructor]. now apply rel_empty.
  - pose proof (Forall2_nth _ _ _ i Ft) as N.
    destruct (nth_error (st_txs st) i) as [t|]; destruct (nth_error (rs_txs rs) i) as [rt|]; try contradiction.
    + pose proof (sim_set t rt s ks v N Wo) as S.
      destruct (tx_set t s ks v) as [t'|]; destruct (r_set rt s ks v) as [rt'|]; try contradiction; cbn.
      * split; [reflexivity|]. constructor; cbn; auto. now apply Forall2_set_nth.
      * split; [reflexivity|]. constructor; auto.
    + cbn. split; [reflexivity|]. constructor; auto.
  - pose proof (Forall2_nth _ _ _ i Ft) as N.
    destruct (nth_error (st_txs st) i) as [t|]; destruct (nth_error (rs_txs rs) i) as [rt|]; try contradiction; cbn.
    + split; [now rewrite (sim_get t rt s ks N)|]. constructor; auto.
    + split; [reflexivity|]. constructor; auto.
  - pose proof (Forall2_nth _ _ _ i Ft) as N.
    destruct (nth_error (st_txs st) i) as [t|]; destruct (nth_error (rs_txs rs) i) as [rt|]; try contradiction; cbn.
    + rewrite <- Ec, <- Er. destruct (sim_commit t rt (st_cfg st) N Wc) as (E1 & R2 & W2).
      destruct (tx_commit t (st_cfg st)) as [c t']. destruct (r_commit rt (st_cfg st)) as [c' rt']. cbn in *. subst c'.
      split; [reflexivity|]. constructor; cbn; auto. now apply Forall2_set_nth.
    + split; [reflexivity|]. constructor; auto.
  - rewrite <- Ec, <- Er. cbn. split; [reflexivity|]. constructor; cbn; auto. now apply wf_save.
  - rewrite <- Ec, <- Er. cbn. split; [reflexivity|]. constructor; cbn; auto. now apply wf_restore.
  - rewrite <- Ec, <- Er. cbn. split; [reflexivity|]. constructor; cbn; auto. now apply wf_discard.
Qed.

Lemma sim_run : forall ops st rs, st_rel st rs -> forallb wf_op ops = true -> run st ops = rrun rs ops.
Proof.
  induction ops as [|o r IH]; intros st rs R W; [reflexivity|].
  cbn [forallb] in W. apply andb_prop in W. destruct W as [Wo Wr].
  destruct (sim_step st rs o R Wo) as [E1 R2]. cbn [run rrun].
  destruct (step st o) as [st' b]. destruct (rstep rs o) as [rs' b']. cbn in *. subst b'. f_equal. now apply IH.
Qed.

(* every history: the transaction machinery behaves as plain nested maps with a write log *)
Theorem refines_reference : forall (init : config) (ops : list op),
  wf_tree (Obj init) = true -> forallb wf_op ops = true ->
  run (mkState init [] []) ops = rrun (mkRstate init [] []) ops.
Proof.
  intros init ops W Wo. apply sim_run; [|exact Wo]. constructor; cbn; auto; constructor.
Qed.

(* ------------------------------------------------------------------ Part 3: the properties *)
Definition opurge (o : option tree) : option tree := match o with Some t => purge t | None => None end.

(* what a read returns once nulls are purged *)
Definition pg (g : gres) : gres :=
  match g with
  | GOk t => match purge t with Some t' => GOk t' | None => GNoOption end
  | x => x
  end.

Lemma get_node_purge : forall ks o, wf_opt o -> get_node ks (opurge o) = pg (get_node ks o).
Proof.
  induction ks as [|k r IH]; intros o W.
  - destruct o as [t|]; cbn; [|reflexivity]. now destruct (purge t).
  - destruct o as [[| z | l]|]; cbn [opurge get_node pg]; try reflexivity.
    rewrite purge_obj. cbn [get_node]. cbn in W. pose proof W as W'. apply wf_obj in W'. destruct W' as [S _].
    rewrite lookup_purge_list by exact S.
    change (match lookup k l with Some c => purge c | None => None end) with (opurge (lookup k l)).
    apply IH. now apply wf_opt_lookup.
Qed.

Lemma get_node_app : forall q q2 o, get_node (q ++ q2) o =
  match get_node q o with GOk t => get_node q2 (Some t) | GNoOption => GNoOption | x => x end.
Proof.
  induction q as [|k r IH]; intros q2 o; cbn [app get_node].
  - destruct o; [reflexivity|apply get_node_none].
  - destruct o as [[| z | l]|]; auto.
Qed.

Lemma get_tset_same : forall ks v o, get_node ks (Some (tset ks v o)) = GOk v.
Proof.
  induction ks as [|k r IH]; intros v o; [reflexivity|].
  rewrite tset_cons. cbn [get_node]. rewrite lookup_aset_eq. apply IH.
Qed.

Lemma diverge_cons : forall k q k' p, diverge (k :: q) (k' :: p) = if k =? k' then diverge q p else true.
Proof. intros. unfold diverge. cbn. rewrite (N.eqb_sym k' k). destruct (k =? k'); reflexivity. Qed.

Lemma diverge_nil_l : forall p, diverge [] p = false.
Proof. reflexivity. Qed.
Lemma diverge_nil_r : forall q, diverge q [] = false.
Proof. intros q. unfold diverge. cbn. now rewrite andb_false_r. Qed.

(* a write leaves every diverging path as it was, provided the written path is free of scalars *)
Lemma get_tset_diverge : forall ks q v o, blocked ks o = false -> diverge q ks = true ->
  get_node q (Some (tset ks v o)) = get_node q o.
Proof.
  induction ks as [|k r IH]; intros q v o B D; [now rewrite diverge_nil_r in D|].
  destruct q as [|k' q']; [discriminate|]. rewrite diverge_cons in D. rewrite tset_cons. cbn [get_node].
  rewrite lookup_aset. destruct (k' =? k) eqn:E.
  - assert (k' = k) by lia; subst k'.
    rewrite IH; [|now apply blocked_child|exact D].
    destruct o as [[| z | l]|]; cbn in *; auto using get_node_none; discriminate.
  - destruct o as [[| z | l]|]; cbn in *; auto using get_node_none; discriminate.
Qed.

(* ... and an existing option on a diverging path is kept whatever the base looks like *)
Lemma get_tset_diverge_ok : forall ks q v o t, diverge q ks = true -> get_node q o = GOk t ->
  get_node q (Some (tset ks v o)) = GOk t.
Proof.
  induction ks as [|k r IH]; intros q v o t D G; [now rewrite diverge_nil_r in D|].
  destruct q as [|k' q']; [discriminate|]. rewrite diverge_cons in D. rewrite tset_cons. cbn [get_node].
  rewrite lookup_aset. destruct (k' =? k) eqn:E.
  - assert (k' = k) by lia; subst k'. destruct o as [[| z | l]|]; cbn in G; try discriminate.
    apply IH; [exact D|exact G].
  - destruct o as [[| z | l]|]; cbn in G; try discriminate. exact G.
Qed.

Lemma prefix_obj : forall q k2 q2 v o, exists l, get_node q (Some (tset (q ++ k2 :: q2) v o)) = GOk (Obj l).
Proof.
  induction q as [|k r IH]; intros k2 q2 v o.
  - cbn [app]. rewrite tset_cons. eexists. reflexivity.
  - cbn [app]. rewrite tset_cons. cbn [get_node]. rewrite lookup_aset_eq. apply IH.
Qed.

(* the unpurged view of a snap inside a transaction *)
Definition raw_view (t : tx) (s : key) : list (key * tree) :=
  apply_changes (snap_map (tx_pristine t) s) (snap_changes t s).

Definition tx_ok (t : tx) : Prop := exists rt, tx_rel t rt.

Lemma wf_raw_view : forall t s, tx_ok t -> wf_tree (Obj (raw_view t s)) = true.
Proof.
  intros t s [rt R]. unfold raw_view. rewrite <- (view_eq t rt _ s R (rel_wfp _ _ R)).
  apply wf_snap_map. apply wf_replay; [exact (rel_wfl _ _ R)|exact (rel_wfp _ _ R)].
Qed.

Lemma tx_get_node : forall t s ks, tx_ok t -> ks <> [] ->
  tx_get t s ks = pg (get_node ks (Some (Obj (raw_view t s)))).
Proof.
  intros t s ks OK NE. unfold tx_get, tx_view. fold (raw_view t s). rewrite get_from_node by exact NE.
  rewrite <- get_node_purge by (apply wf_raw_view; exact OK). reflexivity.
Qed.

(* what Set does to the unpurged view *)
Lemma set_raw_view : forall t s ks v t', tx_ok t -> wf_tree v = true -> tx_set t s ks v = Some t' ->
  tx_ok t' /\ ks <> [] /\ blocked ks (Some (Obj (raw_view t s))) = false /\
  Obj (raw_view t' s) = tset ks v (Some (Obj (raw_view t s))) /\
  (forall s', s' <> s -> raw_view t' s' = raw_view t s') /\ tx_pristine t' = tx_pristine t.
Proof.
  intros t s ks v t' [rt R] Wv H. pose proof (sim_set t rt s ks v R Wv) as S. rewrite H in S.
  destruct (r_set rt s ks v) as [rt'|] eqn:RS; [|contradiction].
  split; [now exists rt'|]. destruct ks as [|k r]; [discriminate|]. split; [discriminate|].
  unfold r_set in RS.
  destruct (blocked (k :: r) (Some (Obj (snap_map (r_pristine rt) s))) ||
            blocked (k :: r) (Some (Obj (snap_map (replay (r_log rt) (r_pristine rt)) s)))) eqn:B; [discriminate|].
  injection RS as <-. apply orb_false_elim in B. destruct B as [_ B].
  rewrite <- (rel_pristine _ _ R) in B. rewrite (view_eq t rt _ s R (rel_wfp _ _ R)) in B. fold (raw_view t s) in B.
  split; [exact B|].
  assert (P' : tx_pristine t' = tx_pristine t).
  { unfold tx_set in H. destruct (match r with [] => false | _ :: _ => is_notmap (get_from (k :: r) (snap_map (tx_pristine t) s)) end); [discriminate|].
    destruct (patch_config (k :: r) (Some (Patch (snap_changes t s))) v) as [[?|m]|]; try discriminate. now injection H as <-. }
  assert (V : forall s', raw_view t' s' = snap_map (replay (r_log rt ++ [(s, k :: r, v)]) (tx_pristine t)) s').
  { intros s'. unfold raw_view. rewrite P'. symmetry.
    apply (view_eq t' (mkRtx (r_pristine rt) (r_log rt ++ [(s, k :: r, v)])) (tx_pristine t) s' S (rel_wfp _ _ R)). }
  assert (V0 : forall s', raw_view t s' = snap_map (replay (r_log rt) (tx_pristine t)) s').
  { intros s'. unfold raw_view. symmetry. apply (view_eq t rt _ s' R (rel_wfp _ _ R)). }
  split; [|split; [|exact P']].
  - rewrite V, V0. rewrite replay_snoc. unfold snap_map at 1. rewrite lookup_aset_eq.
    rewrite tset_snapmap by discriminate. rewrite tset_cons. reflexivity.
  - intros s' NE. rewrite V, V0. rewrite replay_snoc. unfold snap_map. now rewrite lookup_aset_neq.
Qed.

(* read-your-writes *)
Theorem read_your_writes : forall t s ks v t', tx_ok t -> wf_tree v = true -> tx_set t s ks v = Some t' ->
  (forall q, tx_get t' s (ks ++ q) = get_node q (purge v)) /\
  (forall q, diverge q ks = true -> tx_get t' s q = tx_get t s q) /\
  (forall q k2 q2, ks = q ++ k2 :: q2 -> q <> [] -> exists l, tx_get t' s q = GOk (Obj l)) /\
  (forall s' q, s' <> s -> tx_get t' s' q = tx_get t s' q).
Proof.
  intros t s ks v t' OK Wv H. destruct (set_raw_view _ _ _ _ _ OK Wv H) as (OK' & NE & B & E & Eo & P').
  repeat split.
  - intros q. rewrite tx_get_node; [|exact OK'|destruct ks; [congruence|discriminate]].
    rewrite E, get_node_app, get_tset_same. change (purge v) with (opurge (Some v)).
    now rewrite get_node_purge.
  - intros q D. assert (q <> []) by (destruct q; [discriminate|discriminate]).
    rewrite !tx_get_node by assumption. rewrite E. now rewrite get_tset_diverge.
  - intros q k2 q2 -> NQ. rewrite tx_get_node by assumption. rewrite E.
    destruct (prefix_obj q k2 q2 v (Some (Obj (raw_view t s)))) as [l ->]. cbn [pg]. rewrite purge_obj. eauto.
  - intros s' q NEs. unfold tx_get, tx_view. fold (raw_view t' s') (raw_view t s'). now rewrite Eo.
Qed.

Lemma tx_get_view : forall t s ks, ks <> [] -> tx_get t s ks = get_node ks (Some (Obj (tx_view t s))).
Proof. intros. unfold tx_get. now apply get_from_node. Qed.

(* a null write removes the option and leaves its parent in place as an object *)
Theorem null_removes : forall t s q k t', tx_ok t -> tx_set t s (q ++ [k]) Null = Some t' ->
  tx_get t' s (q ++ [k]) = GNoOption /\
  (q <> [] -> exists l, tx_get t' s q = GOk (Obj l) /\ lookup k l = None).
Proof.
  intros t s q k t' OK H.
  destruct (read_your_writes t s (q ++ [k]) Null t' OK (eq_refl : wf_tree Null = true) H) as (A & _ & C & _).
  specialize (A []). rewrite app_nil_r in A. cbn in A. split; [exact A|].
  intros NQ. destruct (C q k [] eq_refl NQ) as [l Hl]. exists l. split; [exact Hl|].
  rewrite tx_get_view in A by (destruct q; discriminate). rewrite tx_get_view in Hl by exact NQ.
  rewrite get_node_app, Hl in A. cbn in A. destruct (lookup k l); [discriminate|reflexivity].
Qed.

(* traversal through a scalar (of the configuration at transaction start, or of the transaction's own view) is
   rejected; nothing else is *)
Theorem set_fails_iff : forall t s ks v, tx_ok t -> ks <> [] ->
  (tx_set t s ks v = None <->
   blocked ks (Some (Obj (snap_map (tx_pristine t) s))) = true \/ blocked ks (Some (Obj (raw_view t s))) = true).
Proof.
  intros t s ks v [rt R] NE. destruct ks as [|k r]; [congruence|]. unfold tx_set. rewrite set_guard.
  destruct (blocked (k :: r) (Some (Obj (snap_map (tx_pristine t) s)))) eqn:Bp; [split; auto|].
  pose proof (wf_snap_changes t rt s R) as Wm.
  assert (Wsm : wf_opt (Some (Obj (snap_map (tx_pristine t) s)))) by (apply wf_snap_map; exact (rel_wfp _ _ R)).
  pose proof (patch_blocked (k :: r) (Some (Patch (snap_changes t s))) v _ Wm Wsm Bp ltac:(discriminate)) as K2.
  cbn [eff] in K2. rewrite commit_patch_obj in K2. fold (raw_view t s) in K2.
  destruct (patch_config (k :: r) (Some (Patch (snap_changes t s))) v) as [c'|] eqn:Pc.
  - destruct (patch_shape _ _ _ _ Pc) as [m' ->]. split; [discriminate|]. intros [H|H]; [discriminate|].
    apply K2 in H. discriminate.
  - split; [|reflexivity]. intros _. right. now apply K2.
Qed.

Theorem rejected_changes_nothing : forall st i s ks v t, nth_error (st_txs st) i = Some t -> tx_set t s ks v = None ->
  step st (OSet i s ks v) = (st, BSet false).
Proof. intros st i s ks v t N H. cbn [step]. now rewrite N, H. Qed.

(* isolation: an operation touches only the transaction it is applied to, and only Commit / Restore change the
   committed configuration *)
Definition op_tx (o : op) : option nat :=
  match o with OSet i _ _ _ | OGet i _ _ | OCommit i => Some i | _ => None end.
Definition publishes (o : op) : bool := match o with OCommit _ | ORestore _ _ => true | _ => false end.

Lemma nth_set_nth_neq : forall {A : Type} (l : list A) i j x, j <> i -> nth_error (set_nth i x l) j = nth_error l j.
Proof.
  induction l as [|y r IH]; intros i j x NE; destruct i, j; cbn; auto; try congruence; try (apply IH; congruence).
Qed.

Theorem isolation : forall st o,
  (publishes o = false -> st_cfg (fst (step st o)) = st_cfg st) /\
  (forall j t, op_tx o <> Some j -> nth_error (st_txs st) j = Some t -> nth_error (st_txs (fst (step st o))) j = Some t).
Proof.
  intros st o. split.
  - destruct o; cbn [publishes step]; try discriminate; intros _; try reflexivity;
      destruct (nth_error (st_txs st) i) as [t|]; try reflexivity.
    + now destruct (tx_set t s ks v).
  - intros j t NE N. destruct o; cbn [step op_tx] in *; try exact N.
    + cbn. rewrite nth_error_app1; [exact N|]. apply nth_error_Some. congruence.
    + destruct (nth_error (st_txs st) i) as [t0|]; [|exact N]. destruct (tx_set t0 s ks v); [|exact N].
      cbn. rewrite nth_set_nth_neq; [exact N|congruence].
    + destruct (nth_error (st_txs st) i); exact N.
    + destruct (nth_error (st_txs st) i) as [t0|]; [|exact N]. destruct (tx_commit t0 (st_cfg st)).
      cbn. rewrite nth_set_nth_neq; [exact N|congruence].
Qed.

(* ---- commit *)
Lemma replay_cons : forall w lg B, replay (w :: lg) B =
  replay lg (aset (fst (fst w)) (tset (snd (fst w)) (snd w) (lookup (fst (fst w)) B)) B).
Proof. intros [[s ks] v] lg B. reflexivity. Qed.

Lemma replay_app : forall l1 l2 B, replay (l1 ++ l2) B = replay l2 (replay l1 B).
Proof. intros. unfold replay. apply fold_left_app. Qed.

Lemma replay_diverge_ok : forall lg B s q t,
  (forall w, In w lg -> fst (fst w) = s -> diverge q (snd (fst w)) = true) ->
  get_node q (lookup s B) = GOk t -> get_node q (lookup s (replay lg B)) = GOk t.
Proof.
  induction lg as [|w lg IH]; intros B s q t D G; [exact G|].
  rewrite replay_cons. apply IH; [intros w' Hin; apply D; now right|].
  rewrite lookup_aset. destruct (s =? fst (fst w)) eqn:E; [|exact G].
  assert (s = fst (fst w)) by lia. apply get_tset_diverge_ok; [|now subst]. apply D; [now left|congruence].
Qed.

Lemma lookup_committed : forall t rt L s, tx_rel t rt -> wf_tree (Obj L) = true ->
  lookup s (fst (tx_commit t L)) =
  match lookup s (replay (r_log rt) L) with
  | Some v => Some (if existsb (N.eqb s) (log_snaps (r_log rt)) then Obj (purge_list (content v)) else v)
  | None => None
  end.
Proof.
  intros t rt L s R W. destruct (sim_commit t rt L R W) as (E & _ & _). rewrite E. unfold r_commit.
  destruct (r_log rt) as [|w lg] eqn:EL.
  - cbn. now destruct (lookup s L).
  - cbv zeta. cbn [fst]. unfold purge_written. rewrite lookup_map_gen. now destruct (lookup s (replay (r_log rt) L)).
Qed.

(* committing keeps every existing option the transaction did not write (whatever was committed meanwhile) *)
Theorem commit_keeps_unwritten : forall t rt L s q t0, tx_rel t rt -> wf_tree (Obj L) = true -> q <> [] ->
  (forall w, In w (r_log rt) -> fst (fst w) = s -> diverge q (snd (fst w)) = true) ->
  get_node q (lookup s L) = GOk t0 -> purge t0 = Some t0 ->
  get_node q (lookup s (fst (tx_commit t L))) = GOk t0.
Proof.
  intros t rt L s q t0 R W NQ D G P. rewrite (lookup_committed t rt L s R W).
  pose proof (replay_diverge_ok _ _ _ _ _ D G) as G'.
  assert (WR : wf_tree (Obj (replay (r_log rt) L)) = true) by (apply wf_replay; [exact (rel_wfl _ _ R)|exact W]).
  destruct (lookup s (replay (r_log rt) L)) as [v|] eqn:E; [|now rewrite get_node_none in G'].
  destruct (existsb (N.eqb s) (log_snaps (r_log rt))); [|exact G'].
  destruct q as [|k q']; [congruence|]. destruct v as [| z | l]; try discriminate. cbn [content].
  change (Some (Obj (purge_list l))) with (opurge (Some (Obj l))). rewrite get_node_purge.
  - rewrite G'. cbn. now rewrite P.
  - exact (wf_lookup _ _ _ WR E).
Qed.

(* ... and makes every written option read as the value last written to it *)
Theorem commit_writes_win : forall t rt L lg1 lg2 s ks v, tx_rel t rt -> wf_tree (Obj L) = true ->
  r_log rt = lg1 ++ (s, ks, v) :: lg2 ->
  (forall w, In w lg2 -> fst (fst w) = s -> diverge ks (snd (fst w)) = true) ->
  forall q, get_node (ks ++ q) (lookup s (fst (tx_commit t L))) = get_node q (purge v).
Proof.
  intros t rt L lg1 lg2 s ks v R W EL D q. rewrite (lookup_committed t rt L s R W).
  assert (WR : wf_tree (Obj (replay (r_log rt) L)) = true) by (apply wf_replay; [exact (rel_wfl _ _ R)|exact W]).
  pose proof (rel_wfl _ _ R) as WL. rewrite EL in WL. apply Forall_app in WL. destruct WL as [_ WL].
  inversion WL as [|? ? [Wv NE] _]; subst. cbn in Wv, NE.
  assert (G : get_node ks (lookup s (replay (r_log rt) L)) = GOk v).
  { rewrite EL. change (lg1 ++ (s, ks, v) :: lg2) with (lg1 ++ [(s, ks, v)] ++ lg2). rewrite app_assoc, replay_app.
    apply replay_diverge_ok; [exact D|]. rewrite replay_snoc, lookup_aset_eq. apply get_tset_same. }
  assert (IN : existsb (N.eqb s) (log_snaps (r_log rt)) = true).
  { apply existsb_in. rewrite EL. unfold log_snaps. rewrite map_app, in_app_iff. right. now left. }
  rewrite IN. destruct (lookup s (replay (r_log rt) L)) as [u|] eqn:E; [|now rewrite get_node_none in G].
  destruct ks as [|k r]; [congruence|]. destruct u as [| z | l]; try discriminate. cbn [content].
  change (Some (Obj (purge_list l))) with (opurge (Some (Obj l))). rewrite get_node_purge.
  - rewrite get_node_app, G. change (purge v) with (opurge (Some v)). now rewrite get_node_purge.
  - exact (wf_lookup _ _ _ WR E).
Qed.

(* no lost updates: two transactions; the first commits onto B, the second onto the result. An option written by the
   first only (its path diverges from everything the second wrote) is still there afterwards. (What the second wrote
   reads as written, by commit_writes_win with L = the first's result: the later commit wins.) *)
Theorem no_lost_update : forall t1 rt1 t2 rt2 B lg1 lg1' s ks v,
  tx_rel t1 rt1 -> tx_rel t2 rt2 -> wf_tree (Obj B) = true ->
  r_log rt1 = lg1 ++ (s, ks, v) :: lg1' ->
  (forall w, In w lg1' -> fst (fst w) = s -> diverge ks (snd (fst w)) = true) ->
  (forall w, In w (r_log rt2) -> fst (fst w) = s -> diverge ks (snd (fst w)) = true) ->
  purge v = Some v ->
  get_node ks (lookup s (fst (tx_commit t2 (fst (tx_commit t1 B))))) = GOk v.
Proof.
  intros t1 rt1 t2 rt2 B lg1 lg1' s ks v R1 R2 W EL D1 D2 P.
  destruct (sim_commit t1 rt1 B R1 W) as (_ & _ & W1).
  pose proof (commit_writes_win t1 rt1 B lg1 lg1' s ks v R1 W EL D1 []) as G. rewrite app_nil_r, P in G. cbn in G.
  pose proof (rel_wfl _ _ R1) as WL. rewrite EL in WL. apply Forall_app in WL. destruct WL as [_ WL].
  inversion WL as [|? ? [_ NE] _]; subst. cbn in NE.
  now apply (commit_keeps_unwritten t2 rt2 _ s ks v R2 W1 NE D2 G P).
Qed.

(* ---- revision snapshots *)
Definition snap_at (rc : revconfig) (s r : key) : option tree :=
  match lookup s rc with Some m => lookup r m | None => None end.

Theorem save_spec : forall c rc s r s' r',
  snap_at (save_rev c rc s r) s' r' =
  match lookup s c with
  | Some sc => if (s' =? s) && (r' =? r) then Some sc else snap_at rc s' r'
  | None => snap_at rc s' r'
  end.
Proof.
  intros c rc s r s' r'. unfold save_rev, snap_at. destruct (lookup s c) as [sc|]; [|reflexivity].
  rewrite lookup_aset. destruct (s' =? s) eqn:E; [|reflexivity]. assert (s' = s) by lia; subst s'.
  rewrite lookup_aset. cbn. destruct (r' =? r); [reflexivity|]. now destruct (lookup s rc).
Qed.

Theorem restore_spec : forall c rc s r s',
  lookup s' (restore_rev c rc s r) =
  match snap_at rc s r with
  | Some sc => if s' =? s then Some sc else lookup s' c
  | None => lookup s' c
  end.
Proof.
  intros c rc s r s'. unfold restore_rev, snap_at. destruct (lookup s rc) as [m|]; [|reflexivity].
  destruct (lookup r m); [|reflexivity]. apply lookup_aset.
Qed.

Theorem discard_spec : forall rc s r s' r',
  snap_at (discard_rev rc s r) s' r' = if (s' =? s) && (r' =? r) then None else snap_at rc s' r'.
Proof.
  intros rc s r s' r'. unfold discard_rev, snap_at. destruct (lookup s rc) as [m|] eqn:E.
  - destruct (aremove r m) as [|x m'] eqn:E2.
    + rewrite lookup_aremove. destruct (s' =? s) eqn:E3; cbn; [|reflexivity].
      assert (s' = s) by lia; subst s'. rewrite E. destruct (r' =? r) eqn:E4; [reflexivity|].
      pose proof (lookup_aremove m r r') as L. rewrite E2, E4 in L. cbn in L. now rewrite <- L.
    + rewrite lookup_aset. destruct (s' =? s) eqn:E3; cbn [andb]; [|reflexivity].
      assert (s' = s) by lia; subst s'. rewrite E, <- E2. rewrite lookup_aremove. now destruct (r' =? r).
  - destruct (s' =? s) eqn:E3; cbn; [|reflexivity]. assert (s' = s) by lia; subst s'. rewrite E.
    now destruct (r' =? r).
Qed.

(* restore after save gives exactly what was saved, whatever happened to the configuration in between *)
Theorem save_then_restore : forall c c' rc s r sc, lookup s c = Some sc ->
  lookup s (restore_rev c' (save_rev c rc s r) s r) = Some sc.
Proof.
  intros c c' rc s r sc H. rewrite restore_spec, save_spec, H, !N.eqb_refl. cbn. reflexivity.
Qed.

(* ---- every reachable transaction satisfies tx_ok *)
Fixpoint exec (st : state) (ops : list op) : state :=
  match ops with [] => st | o :: r => exec (fst (step st o)) r end.
Fixpoint rexec (st : rstate) (ops : list op) : rstate :=
  match ops with [] => st | o :: r => rexec (fst (rstep st o)) r end.

Lemma sim_exec : forall ops st rs, st_rel st rs -> forallb wf_op ops = true -> st_rel (exec st ops) (rexec rs ops).
Proof.
  induction ops as [|o r IH]; intros st rs R W; [exact R|].
  cbn [forallb] in W. apply andb_prop in W. destruct W as [Wo Wr]. cbn [exec rexec]. apply IH; [|exact Wr].
  now apply sim_step.
Qed.

Theorem reachable_ok : forall init ops i t, wf_tree (Obj init) = true -> forallb wf_op ops = true ->
  nth_error (st_txs (exec (mkState init [] []) ops)) i = Some t ->
  tx_ok t /\ wf_tree (Obj (st_cfg (exec (mkState init [] []) ops))) = true.
Proof.
  intros init ops i t W Wo N.
  assert (R : st_rel (exec (mkState init [] []) ops) (rexec (mkRstate init [] []) ops)).
  { apply sim_exec; [|exact Wo]. constructor; cbn; auto; constructor. }
  split; [|exact (sr_wf _ _ R)]. pose proof (Forall2_nth _ _ _ i (sr_txs _ _ R)) as F. rewrite N in F.
  destruct (nth_error (rs_txs (rexec (mkRstate init [] []) ops)) i) as [rt|]; [|contradiction]. now exists rt.
Qed.

(* ------------------------------------------------------------------ the whole transaction: what a Get returns *)
Lemma raw_view_replay : forall t rt s, tx_rel t rt ->
  raw_view t s = snap_map (replay (r_log rt) (tx_pristine t)) s.
Proof. intros t rt s R. unfold raw_view. symmetry. apply (view_eq t rt _ s R (rel_wfp _ _ R)). Qed.

(* the value LAST written: after any sequence of writes (r_log rt = all successful Sets of the transaction, in order),
   an option whose last covering write was ks := v - no later write of the transaction touches a path comparable with
   ks - reads as v, and so does everything below it; with v = null: the option is gone *)
Theorem view_last_written : forall t rt lg1 lg2 s ks v, tx_rel t rt ->
  r_log rt = lg1 ++ (s, ks, v) :: lg2 ->
  (forall w, In w lg2 -> fst (fst w) = s -> diverge ks (snd (fst w)) = true) ->
  forall q, tx_get t s (ks ++ q) = get_node q (purge v).
Proof.
  intros t rt lg1 lg2 s ks v R EL D q.
  assert (OK : tx_ok t) by (now exists rt).
  pose proof (rel_wfl _ _ R) as WL. rewrite EL in WL. apply Forall_app in WL. destruct WL as [_ WL].
  inversion WL as [|? ? [Wv NE] _]; subst. cbn in Wv, NE.
  assert (G : get_node ks (lookup s (replay (r_log rt) (tx_pristine t))) = GOk v).
  { rewrite EL. change (lg1 ++ (s, ks, v) :: lg2) with (lg1 ++ [(s, ks, v)] ++ lg2). rewrite app_assoc, replay_app.
    apply replay_diverge_ok; [exact D|]. rewrite replay_snoc, lookup_aset_eq. apply get_tset_same. }
  rewrite tx_get_node; [|exact OK|destruct ks; [congruence|discriminate]].
  rewrite (raw_view_replay t rt s R). unfold snap_map.
  destruct (lookup s (replay (r_log rt) (tx_pristine t))) as [u|] eqn:E; [|now rewrite get_node_none in G].
  destruct ks as [|k r]; [congruence|]. destruct u as [| z | l]; try discriminate.
  rewrite get_node_app, G. change (purge v) with (opurge (Some v)). now rewrite get_node_purge.
Qed.

(* the COMMITTED value if not written: an option present in the configuration the transaction started from (or last
   committed onto) and on a path diverging from every write of the transaction reads as it was committed (nulls purged) *)
Theorem view_unwritten_is_committed : forall t rt s q t0, tx_rel t rt -> q <> [] ->
  (forall w, In w (r_log rt) -> fst (fst w) = s -> diverge q (snd (fst w)) = true) ->
  get_node q (lookup s (tx_pristine t)) = GOk t0 ->
  tx_get t s q = pg (GOk t0).
Proof.
  intros t rt s q t0 R NQ D G. assert (OK : tx_ok t) by (now exists rt).
  pose proof (replay_diverge_ok _ _ _ _ _ D G) as G'.
  rewrite tx_get_node by assumption. rewrite (raw_view_replay t rt s R). unfold snap_map.
  destruct (lookup s (replay (r_log rt) (tx_pristine t))) as [u|] eqn:E; [|now rewrite get_node_none in G'].
  destruct q as [|k r]; [congruence|]. destruct u as [| z | l]; try discriminate. now rewrite G'.
Qed.

(* a transaction that has written nothing reads the committed configuration it started from *)
Theorem fresh_reads_committed : forall c s q, tx_get (new_tx c) s q = get_from q (purge_list (snap_map c s)).
Proof. reflexivity. Qed.
