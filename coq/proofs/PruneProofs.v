(* C09 — proofs about models/Prune.v, for every state, every parameter choice and every visiting order. *)
From Coq Require Import List NArith ZArith Bool Lia ZifyBool ZifyN Sorting.Sorted.
Import ListNotations.
Require Import V.models.Prune.
Open Scope Z_scope.

Definition removes (d : decision) : bool := match d with RemoveEmpty | RemoveReady => true | _ => false end.
Definition has_id (l : list pchange) (id : N) : Prop := exists c, In c l /\ pc_id c = id.
Definition has_task (l : list ptask) (id ch : N) (sp : Z) : Prop := exists t, In t l /\ pt_id t = id /\ pt_change t = ch /\ pt_spawn t = sp.

(* ------------------------------------------------------------------ what one decision means *)
Lemma decide_remove_ready : forall p count c, decide p count c = RemoveReady ->
  exists r, pc_ready c = Some r /\ (r < prune_limit p \/ p_max_ready p < count).
Proof.
  intros p count c H. unfold decide in H. destruct (pc_ready c) as [r|].
  - exists r. split; [reflexivity|]. destruct ((r <? prune_limit p) || (p_max_ready p <? count)) eqn:E; [lia | discriminate].
  - destruct (_ && _); [discriminate|]. destruct (clamped_spawn p c <? abort_limit p); [destruct (is_pending p c)|]; discriminate.
Qed.

Lemma decide_remove_empty : forall p count c, decide p count c = RemoveEmpty ->
  pc_ready c = None /\ pc_tasks c = [] /\ clamped_spawn p c < prune_limit p.
Proof.
  intros p count c H. unfold decide in H. destruct (pc_ready c) as [r|].
  - destruct (_ || _); discriminate.
  - destruct (clamped_spawn p c <? prune_limit p) eqn:E1; simpl in H.
    + destruct (pc_tasks c); simpl in H; [repeat split; try reflexivity; lia|].
      destruct (clamped_spawn p c <? abort_limit p); [destruct (is_pending p c)|]; discriminate.
    + destruct (clamped_spawn p c <? abort_limit p); [destruct (is_pending p c)|]; discriminate.
Qed.

Lemma decide_abort : forall p count c, decide p count c = AbortIt ->
  pc_ready c = None /\ clamped_spawn p c < abort_limit p /\ is_pending p c = false.
Proof.
  intros p count c H. unfold decide in H. destruct (pc_ready c) as [r|].
  - destruct (_ || _); discriminate.
  - destruct (_ && _); [discriminate|]. destruct (clamped_spawn p c <? abort_limit p) eqn:E; [|discriminate].
    destruct (is_pending p c) eqn:P; [discriminate|]. repeat split; lia.
Qed.

Lemma visit_in : forall p l count c d, In (c, d) (visit p count l) -> In c l /\ exists count', d = decide p count' c.
Proof.
  intros p l. induction l as [|x l IH]; intros count c d H; simpl in H; [contradiction|].
  destruct H as [H|H].
  - inversion H; subst. split; [left; reflexivity | eexists; reflexivity].
  - apply IH in H. destruct H as [H1 H2]. split; [right; assumption | assumption].
Qed.

(* ------------------------------------------------------------------ the effect of applying the decisions *)
Lemma has_id_filter : forall l id x, has_id l id -> id <> x -> has_id (filter (fun y => negb (pc_id y =? x)%N) l) id.
Proof.
  intros l id x [c [Hin Hid]] Hne. exists c. split; [|assumption]. apply filter_In. split; [assumption|].
  subst id. apply negb_true_iff. apply N.eqb_neq. assumption.
Qed.

Lemma has_id_map : forall (f : pchange -> pchange) l id, (forall x, pc_id (f x) = pc_id x) -> has_id l id -> has_id (map f l) id.
Proof. intros f l id Hf [c [Hin Hid]]. exists (f c). split; [apply in_map; assumption | rewrite Hf; assumption]. Qed.

(* a change stays unless a visited entry with its id decided to remove it *)
Lemma apply_keeps_change : forall p vs chs tks ab chs' tks' ab' id,
  apply p vs chs tks ab = (chs', tks', ab') -> has_id chs id ->
  (forall c d, In (c, d) vs -> pc_id c = id -> removes d = false) -> has_id chs' id.
Proof.
  intros p vs. induction vs as [|[c d] vs IH]; intros chs tks ab chs' tks' ab' id H Hid Hno; simpl in H.
  - inversion H; subst; assumption.
  - assert (Hrest : forall c0 d0, In (c0, d0) vs -> pc_id c0 = id -> removes d0 = false) by (intros; eapply Hno; [right; eassumption | assumption]).
    destruct d.
    + eapply IH; eassumption.
    + eapply IH; [eassumption | | assumption]. apply has_id_filter; [assumption|].
      intro E. specialize (Hno c RemoveEmpty (or_introl eq_refl) (eq_sym E)). discriminate.
    + match type of H with context [map ?f chs] => assert (Hm : has_id (map f chs) id) end.
      { apply has_id_map; [|assumption]. intros x. destruct (pc_id x =? pc_id c)%N; reflexivity. }
      eapply IH; eassumption.
    + eapply IH; [eassumption | | assumption]. apply has_id_filter; [assumption|].
      intro E. specialize (Hno c RemoveReady (or_introl eq_refl) (eq_sym E)). discriminate.
Qed.

Lemma has_task_set_statuses : forall ids sts l id ch sp, has_task l id ch sp -> has_task (set_statuses ids sts l) id ch sp.
Proof.
  induction ids as [|i ids IH]; intros sts l id ch sp H; simpl; [assumption|]. destruct sts as [|st sts]; [assumption|].
  apply IH. destruct H as [t [Hin [Hid [Hch Hsp]]]].
  exists (if (pt_id t =? i)%N then mkPT (pt_id t) st (pt_spawn t) (pt_change t) else t). split.
  - apply in_map_iff. exists t. split; [reflexivity | assumption].
  - destruct (pt_id t =? i)%N; simpl; repeat split; assumption.
Qed.

Lemma set_statuses_ids : forall ids sts l, map pt_id (set_statuses ids sts l) = map pt_id l.
Proof.
  induction ids as [|i ids IH]; intros sts l; simpl; [reflexivity|]. destruct sts as [|st sts]; [reflexivity|].
  rewrite IH, map_map. apply map_ext. intros t. destruct (pt_id t =? i)%N; reflexivity.
Qed.

(* a task stays (through the change loop) unless a visited change that lists it was removed as ready *)
Lemma apply_keeps_task : forall p vs chs tks ab chs' tks' ab' id ch sp,
  apply p vs chs tks ab = (chs', tks', ab') -> has_task tks id ch sp ->
  (forall c, In (c, RemoveReady) vs -> mem id (pc_tasks c) = false) -> has_task tks' id ch sp.
Proof.
  intros p vs. induction vs as [|[c d] vs IH]; intros chs tks ab chs' tks' ab' id ch sp H Hid Hno; simpl in H.
  - inversion H; subst; assumption.
  - assert (Hrest : forall c0, In (c0, RemoveReady) vs -> mem id (pc_tasks c0) = false) by (intros; apply Hno; right; assumption).
    destruct d.
    + eapply IH; eassumption.
    + eapply IH; eassumption.
    + eapply IH; [eassumption | | assumption]. apply has_task_set_statuses; assumption.
    + eapply IH; [eassumption | | assumption]. destruct Hid as [t [Hin [Ht Hrest']]]. exists t. split; [|split; assumption].
      apply filter_In. split; [assumption|]. rewrite Ht. specialize (Hno c (or_introl eq_refl)). unfold mem in Hno. rewrite Hno. reflexivity.
Qed.

(* task ids only ever shrink, and the tasks listed by a change removed as ready are gone when Prune completes *)
Lemma apply_tasks_subset : forall p vs chs tks ab chs' tks' ab',
  apply p vs chs tks ab = (chs', tks', ab') -> forall id, In id (map pt_id tks') -> In id (map pt_id tks).
Proof.
  intros p vs. induction vs as [|[c d] vs IH]; intros chs tks ab chs' tks' ab' H id Hin; simpl in H.
  - inversion H; subst; assumption.
  - destruct d.
    + eapply IH; eassumption.
    + eapply IH; eassumption.
    + eapply IH in H; [|eassumption]. rewrite set_statuses_ids in H. assumption.
    + eapply IH in H; [|eassumption]. apply in_map_iff in H. destruct H as [t [E Ht]]. apply filter_In in Ht.
      apply in_map_iff. exists t. tauto.
Qed.

Lemma apply_removes_tasks : forall p vs chs tks ab chs' tks' ab' c id,
  apply p vs chs tks ab = (chs', tks', ab') -> In (c, RemoveReady) vs -> mem id (pc_tasks c) = true ->
  ~ In id (map pt_id tks').
Proof.
  intros p vs. induction vs as [|[c0 d] vs IH]; intros chs tks ab chs' tks' ab' c id H Hin Hm; simpl in H; [contradiction|].
  destruct Hin as [Hin|Hin].
  - inversion Hin; subst. intro Hc. eapply apply_tasks_subset in Hc; [|eassumption].
    apply in_map_iff in Hc. destruct Hc as [t [E Ht]]. apply filter_In in Ht. destruct Ht as [_ Ht].
    rewrite E in Ht. unfold mem in Hm. rewrite Hm in Ht. discriminate.
  - destruct d.
    + eapply IH; eassumption.
    + eapply IH; eassumption.
    + eapply IH; eassumption.
    + eapply IH; eassumption.
Qed.

(* the changes on which the abort ran are exactly visited entries decided AbortIt *)
Lemma apply_aborted : forall p vs chs tks ab chs' tks' ab' id,
  apply p vs chs tks ab = (chs', tks', ab') -> In id ab' -> In id ab \/ exists c, In (c, AbortIt) vs /\ pc_id c = id.
Proof.
  intros p vs. induction vs as [|[c d] vs IH]; intros chs tks ab chs' tks' ab' id H Hin; simpl in H.
  - inversion H; subst. left; assumption.
  - destruct d.
    + eapply IH in H; [|eassumption]. destruct H as [H|[c' [H1 H2]]]; [left; assumption | right; exists c'; split; [right|]; assumption].
    + eapply IH in H; [|eassumption]. destruct H as [H|[c' [H1 H2]]]; [left; assumption | right; exists c'; split; [right|]; assumption].
    + eapply IH in H; [|eassumption]. destruct H as [H|[c' [H1 H2]]].
      * apply in_app_or in H. destruct H as [H|[H|[]]]; [left; assumption|]. right. exists c. split; [left; reflexivity | assumption].
      * right. exists c'. split; [right|]; assumption.
    + eapply IH in H; [|eassumption]. destruct H as [H|[c' [H1 H2]]]; [left; assumption | right; exists c'; split; [right|]; assumption].
Qed.

(* a task's status is touched only by the abort of a change that lists it *)
Lemma set_statuses_other : forall ids sts l t, In t l -> mem (pt_id t) ids = false -> In t (set_statuses ids sts l).
Proof.
  induction ids as [|i ids IH]; intros sts l t Hin Hm; simpl; [assumption|]. destruct sts as [|st sts]; [assumption|].
  simpl in Hm. apply orb_false_iff in Hm. destruct Hm as [Hi Hm]. apply IH; [|assumption].
  apply in_map_iff. exists t. split; [|assumption]. rewrite Hi. reflexivity.
Qed.

Lemma apply_status_untouched : forall p vs chs tks ab chs' tks' ab' t,
  apply p vs chs tks ab = (chs', tks', ab') -> In t tks ->
  (forall c, In (c, AbortIt) vs -> mem (pt_id t) (pc_tasks c) = false) ->
  (forall c, In (c, RemoveReady) vs -> mem (pt_id t) (pc_tasks c) = false) -> In t tks'.
Proof.
  intros p vs. induction vs as [|[c d] vs IH]; intros chs tks ab chs' tks' ab' t H Hin Hab Hrm; simpl in H.
  - inversion H; subst; assumption.
  - assert (Hab' : forall c0, In (c0, AbortIt) vs -> mem (pt_id t) (pc_tasks c0) = false) by (intros; apply Hab; right; assumption).
    assert (Hrm' : forall c0, In (c0, RemoveReady) vs -> mem (pt_id t) (pc_tasks c0) = false) by (intros; apply Hrm; right; assumption).
    destruct d.
    + eapply IH; eassumption.
    + eapply IH; eassumption.
    + eapply IH; [eassumption | | assumption | assumption].
      apply set_statuses_other; [assumption|]. apply Hab. left; reflexivity.
    + eapply IH; [eassumption | | assumption | assumption]. apply filter_In. split; [assumption|].
      specialize (Hrm c (or_introl eq_refl)). unfold mem in Hrm. rewrite Hrm. reflexivity.
Qed.

(* ================================================================== the property theorems *)
Definition vs_of (p : params) (order : list pchange) := visit p (ready_count order) order.

Lemma prune_with_changes : forall p order s,
  exists tks ab, apply p (vs_of p order) (ps_changes s) (ps_tasks s) [] = (r_changes (prune_with p order s), tks, ab)
                 /\ r_aborted (prune_with p order s) = ab
                 /\ (forall t, In t (r_tasks (prune_with p order s)) -> In t tks)
                 /\ (forall t, In t tks ->
                       (existsb (fun c => (pc_id c =? pt_change t)%N) (r_changes (prune_with p order s)) = true
                        \/ prune_limit p <= pt_spawn t) -> In t (r_tasks (prune_with p order s))).
Proof.
  intros p order s. unfold prune_with, vs_of.
  destruct (apply p (visit p (ready_count order) order) (ps_changes s) (ps_tasks s) []) as [[chs tks] ab].
  exists tks, ab. simpl. repeat split; try reflexivity.
  - intros t Ht. apply filter_In in Ht. tauto.
  - intros t Ht Hc. apply filter_In. split; [assumption|]. destruct Hc as [Hc|Hc]; [rewrite Hc; reflexivity|].
    apply orb_true_iff. right. apply negb_true_iff. lia.
Qed.

(* C09_removed_only_if *)
Theorem removed_only_if : forall p order s id,
  has_id (ps_changes s) id -> ~ has_id (r_changes (prune_with p order s)) id ->
  exists c count, In c order /\ pc_id c = id /\
    ((exists r, pc_ready c = Some r /\ (r < prune_limit p \/ p_max_ready p < count)) \/
     (pc_ready c = None /\ pc_tasks c = [] /\ clamped_spawn p c < prune_limit p)).
Proof.
  intros p order s id Hid Hgone. destruct (prune_with_changes p order s) as (tks & ab & A & _).
  destruct (existsb (fun cd => (pc_id (fst cd) =? id)%N && removes (snd cd)) (vs_of p order)) eqn:E.
  - apply existsb_exists in E. destruct E as [[c d] [Hin Hc]]. simpl in Hc. apply andb_true_iff in Hc. destruct Hc as [Hc Hr].
    apply N.eqb_eq in Hc. apply visit_in in Hin. destruct Hin as [Hin [count Hd]]. exists c, count. repeat split; try assumption.
    destruct d; try discriminate.
    + right. eapply decide_remove_empty. symmetry. eassumption.
    + left. eapply decide_remove_ready. symmetry. eassumption.
  - exfalso. apply Hgone. eapply apply_keeps_change; [exact A | assumption|].
    intros c d Hin Hc. destruct (removes d) eqn:R; [|reflexivity].
    assert (X : existsb (fun cd => (pc_id (fst cd) =? id)%N && removes (snd cd)) (vs_of p order) = true).
    { apply existsb_exists. exists (c, d). split; [assumption|]. simpl. rewrite R. subst id. rewrite N.eqb_refl. reflexivity. }
    congruence.
Qed.

(* C09_unfinished_kept: an unready change that has tasks is never removed *)
Theorem unfinished_kept : forall p order s id,
  has_id (ps_changes s) id -> (forall c, In c order -> pc_id c = id -> pc_ready c = None /\ pc_tasks c <> []) ->
  has_id (r_changes (prune_with p order s)) id.
Proof.
  intros p order s id Hid Hun. destruct (prune_with_changes p order s) as (tks & ab & A & _).
  eapply apply_keeps_change; [exact A | assumption|]. intros c d Hin Hc.
  apply visit_in in Hin. destruct Hin as [Hin [count Hd]]. destruct (Hun c Hin Hc) as [Hr Ht]. subst d.
  unfold decide. rewrite Hr. destruct (pc_tasks c); [congruence|]. rewrite andb_false_r.
  destruct (clamped_spawn p c <? abort_limit p); [destruct (is_pending p c)|]; reflexivity.
Qed.

Lemma nodup_same : forall (l : list pchange) a b, NoDup (map pc_id l) -> In a l -> In b l -> pc_id a = pc_id b -> a = b.
Proof.
  induction l as [|x l IH]; intros a b Hn Ha Hb E; [contradiction|]. simpl in Hn. inversion Hn as [|? ? Hx Hn']; subst.
  destruct Ha as [Ha|Ha]; destruct Hb as [Hb|Hb]; subst.
  - reflexivity.
  - exfalso. apply Hx. rewrite E. apply in_map. assumption.
  - exfalso. apply Hx. rewrite <- E. apply in_map. assumption.
  - apply IH; assumption.
Qed.

(* C09_tasks_go_with_change, first half: when a finished change is removed (and Prune completes), every task it lists is removed *)
Theorem tasks_go_with_change : forall p order s c id,
  NoDup (map pc_id order) -> In c order -> pc_ready c <> None -> has_id (ps_changes s) (pc_id c) ->
  ~ has_id (r_changes (prune_with p order s)) (pc_id c) ->
  mem id (pc_tasks c) = true -> ~ In id (map pt_id (r_tasks (prune_with p order s))).
Proof.
  intros p order s c id Hn Hin Hr Hid Hgone Hm Hc.
  destruct (prune_with_changes p order s) as (tks & ab & A & _ & Hsub & _).
  assert (Hd : In (c, RemoveReady) (vs_of p order)).
  { destruct (existsb (fun cd => (pc_id (fst cd) =? pc_id c)%N && removes (snd cd)) (vs_of p order)) eqn:E.
    - apply existsb_exists in E. destruct E as [[c' d] [Hin' Hc']]. simpl in Hc'. apply andb_true_iff in Hc'. destruct Hc' as [Hc' Hrm].
      apply N.eqb_eq in Hc'. pose proof (visit_in _ _ _ _ _ Hin') as [Hin'' [count Hdd]].
      assert (c' = c) by (apply (nodup_same order); assumption). subst c'.
      destruct d; try discriminate; [|assumption].
      symmetry in Hdd. apply decide_remove_empty in Hdd. destruct Hdd as [Hnone _]. contradiction.
    - exfalso. apply Hgone. eapply apply_keeps_change; [exact A | assumption|].
      intros c0 d Hin0 Hc0. destruct (removes d) eqn:R; [|reflexivity].
      assert (X : existsb (fun cd => (pc_id (fst cd) =? pc_id c)%N && removes (snd cd)) (vs_of p order) = true).
      { apply existsb_exists. exists (c0, d). split; [assumption|]. simpl. rewrite R, Hc0, N.eqb_refl. reflexivity. }
      congruence. }
  eapply apply_removes_tasks; [exact A | exact Hd | exact Hm|].
  apply in_map_iff in Hc. destruct Hc as [t [E Ht]]. apply in_map_iff. exists t. split; [assumption | apply Hsub; assumption].
Qed.

(* second half: a task survives when no removed finished change lists it and it is linked to a surviving change or is young *)
Theorem tasks_kept_with_change : forall p order s id ch sp,
  has_task (ps_tasks s) id ch sp ->
  (forall c, In (c, RemoveReady) (vs_of p order) -> mem id (pc_tasks c) = false) ->
  (has_id (r_changes (prune_with p order s)) ch \/ prune_limit p <= sp) ->
  In id (map pt_id (r_tasks (prune_with p order s))).
Proof.
  intros p order s id ch sp Ht Hno Hl.
  destruct (prune_with_changes p order s) as (tks & ab & A & _ & _ & Hback).
  destruct (apply_keeps_task _ _ _ _ _ _ _ _ _ _ _ A Ht Hno) as [t [Hin [E1 [E2 E3]]]].
  apply in_map_iff. exists t. split; [assumption|]. apply Hback; [assumption|].
  destruct Hl as [[c [Hc Hcid]]|Hl]; [left | right; lia].
  apply existsb_exists. exists c. split; [assumption|]. rewrite E2, Hcid. apply N.eqb_refl.
Qed.

(* C09_abort_only_after *)
Theorem abort_only_after : forall p order s id, In id (r_aborted (prune_with p order s)) ->
  exists c, In c order /\ pc_id c = id /\ pc_ready c = None /\ clamped_spawn p c < abort_limit p /\ is_pending p c = false.
Proof.
  intros p order s id Hin. destruct (prune_with_changes p order s) as (tks & ab & A & Eab & _). rewrite Eab in Hin.
  eapply apply_aborted in Hin; [|exact A]. destruct Hin as [[]|[c [Hc Hid]]].
  apply visit_in in Hc. destruct Hc as [Hc [count Hd]]. symmetry in Hd. apply decide_abort in Hd.
  exists c. tauto.
Qed.

(* ... and a task that no aborted and no removed change lists comes out of the change loop untouched (same status) *)
Theorem status_untouched : forall p order s t, In t (ps_tasks s) ->
  (forall c, In (c, AbortIt) (vs_of p order) -> mem (pt_id t) (pc_tasks c) = false) ->
  (forall c, In (c, RemoveReady) (vs_of p order) -> mem (pt_id t) (pc_tasks c) = false) ->
  (existsb (fun c => (pc_id c =? pt_change t)%N) (r_changes (prune_with p order s)) = true \/ prune_limit p <= pt_spawn t) ->
  In t (r_tasks (prune_with p order s)).
Proof.
  intros p order s t Hin Hab Hrm Hl.
  destruct (prune_with_changes p order s) as (tks & ab & A & _ & _ & Hback).
  apply Hback; [| assumption]. eapply apply_status_untouched; eassumption.
Qed.

(* C09_expired_gone *)
Theorem expired_gone : forall p order s x,
  (In x (r_warnings (prune_with p order s)) <-> In x (ps_warnings s) /\ x_last x + x_expire x >= p_now p) /\
  (In x (r_notices (prune_with p order s)) <-> In x (ps_notices s) /\ x_last x + x_expire x >= p_now p).
Proof.
  intros p order s x. unfold prune_with.
  destruct (apply p (visit p (ready_count order) order) (ps_changes s) (ps_tasks s) []) as [[chs tks] ab].
  simpl; rewrite !filter_In; unfold expired; split; split; intros [H1 H2]; split; try assumption; lia.
Qed.

(* ---- oldest first *)
Definition not_after (a b : pchange) : Prop := ready_lt b a = false.

Lemma keep_ready : forall p count c r, pc_ready c = Some r -> decide p count c = Keep -> prune_limit p <= r /\ count <= p_max_ready p.
Proof. intros p count c r Hr H. unfold decide in H. rewrite Hr in H. destruct (_ || _) eqn:E; [discriminate | lia]. Qed.

Lemma visit_all_keep : forall p l count, count <= p_max_ready p ->
  (forall c r, In c l -> pc_ready c = Some r -> prune_limit p <= r) ->
  forall c d, In (c, d) (visit p count l) -> pc_ready c <> None -> d = Keep.
Proof.
  intros p l. induction l as [|x l IH]; intros count Hc Hall c d Hin Hr; simpl in Hin; [contradiction|].
  assert (Hx : match decide p count x with RemoveReady => count - 1 | _ => count end = count).
  { unfold decide. destruct (pc_ready x) as [r|] eqn:Ex.
    - specialize (Hall x r (or_introl eq_refl) Ex). destruct (_ || _) eqn:E; [lia | reflexivity].
    - destruct (_ && _); [reflexivity|]. destruct (_ <? _); [destruct (is_pending p x)|]; reflexivity. }
  destruct Hin as [Hin|Hin].
  - inversion Hin; subst. unfold decide. destruct (pc_ready c) as [r|] eqn:Ex; [|congruence].
    specialize (Hall c r (or_introl eq_refl) Ex). destruct (_ || _) eqn:E; [lia | reflexivity].
  - rewrite Hx in Hin. eapply IH; try eassumption. intros; eapply Hall; [right|]; eassumption.
Qed.

(* C09_oldest_first: for every visiting order sorted by ready time, a finished change that is removed is not newer than
   any finished change that is kept *)
Theorem oldest_first : forall p order, StronglySorted not_after order ->
  forall count c c' r r', In (c, RemoveReady) (visit p count order) -> In (c', Keep) (visit p count order) ->
  pc_ready c = Some r -> pc_ready c' = Some r' -> r <= r'.
Proof.
  intros p order Hs. induction Hs as [|x l Hs IH Hx]; intros count c c' r r' H1 H2 Hr Hr'; simpl in *; [contradiction|].
  rewrite Forall_forall in Hx.
  destruct H1 as [H1|H1]; destruct H2 as [H2|H2].
  - congruence.
  - inversion H1; subst. apply visit_in in H2. destruct H2 as [H2 _]. specialize (Hx c' H2). unfold not_after, ready_lt in Hx.
    rewrite Hr, Hr' in Hx. lia.
  - exfalso. inversion H2; subst. rewrite H3 in H1. destruct (keep_ready p count c' r' Hr' H3) as [K1 K2].
    assert (D : RemoveReady = Keep); [|discriminate].
    eapply (visit_all_keep p l count K2); [|exact H1 | congruence].
    intros y ry Hy Hry. specialize (Hx y Hy). unfold not_after, ready_lt in Hx. rewrite Hr', Hry in Hx. lia.
  - eapply IH; eassumption.
Qed.

(* the model's own sort produces such an order *)
Lemma not_after_total : forall a b, not_after a b \/ not_after b a.
Proof. intros a b. unfold not_after, ready_lt. destruct (pc_ready a), (pc_ready b); try (left; reflexivity); try (right; reflexivity). destruct (z0 <? z) eqn:E; [right | left]; lia. Qed.

Lemma not_after_trans : forall a b c, not_after a b -> not_after b c -> not_after a c.
Proof. intros a b c. unfold not_after, ready_lt. destruct (pc_ready a), (pc_ready b), (pc_ready c); intros; try reflexivity; try discriminate; lia. Qed.

Lemma insert_in : forall c l x, In x (insert_c c l) -> x = c \/ In x l.
Proof.
  intros c l. induction l as [|d l IH]; intros x H; simpl in H.
  - destruct H as [H|[]]; left; congruence.
  - destruct (ready_lt d c).
    + destruct H as [H|H]; [right; left; assumption|]. apply IH in H. destruct H; [left | right; right]; assumption.
    + destruct (ready_lt c d).
      * destruct H as [H|H]; [left; congruence | right; assumption].
      * destruct H as [H|H]; [right; left; assumption|]. apply IH in H. destruct H; [left | right; right]; assumption.
Qed.

Lemma insert_sorted : forall c l, StronglySorted not_after l -> StronglySorted not_after (insert_c c l).
Proof.
  intros c l H. induction H as [|d l Hs IH Hd]; simpl; [repeat constructor|].
  destruct (ready_lt d c) eqn:E1.
  - constructor; [assumption|]. apply Forall_forall. intros x Hx. apply insert_in in Hx. rewrite Forall_forall in Hd.
    destruct Hx as [Hx|Hx]; [subst x | apply Hd; assumption].
    unfold not_after. unfold ready_lt in *. destruct (pc_ready d), (pc_ready c); try reflexivity; try discriminate; lia.
  - destruct (ready_lt c d) eqn:E2.
    + constructor; [constructor; assumption|]. constructor; [exact E1|].
      rewrite Forall_forall in *. intros x Hx. eapply not_after_trans; [exact E1 | apply Hd; assumption].
    + constructor; [assumption|]. apply Forall_forall. intros x Hx. apply insert_in in Hx. rewrite Forall_forall in Hd.
      destruct Hx as [Hx|Hx]; [subst x; exact E2 | apply Hd; assumption].
Qed.

Theorem sort_changes_sorted : forall l, StronglySorted not_after (sort_changes l).
Proof. induction l as [|c l IH]; simpl; [constructor | apply insert_sorted; assumption]. Qed.

Lemma insert_perm_in : forall c l x, In x (insert_c c l) <-> x = c \/ In x l.
Proof.
  intros c l x. split; [apply insert_in|]. induction l as [|d l IH]; intros H; simpl.
  - destruct H as [H|[]]. left; congruence.
  - destruct (ready_lt d c); [|destruct (ready_lt c d)]; simpl in *; intuition congruence.
Qed.

Theorem sort_changes_in : forall l x, In x (sort_changes l) <-> In x l.
Proof.
  induction l as [|c l IH]; intros x; simpl; [tauto|]. rewrite insert_perm_in, IH. intuition congruence.
Qed.

Lemma sort_changes_ok : forall l, StronglySorted not_after (sort_changes l) /\ forall x, In x (sort_changes l) <-> In x l.
Proof. intro l. split; [apply sort_changes_sorted | apply sort_changes_in]. Qed.

(* ------------------------------------------------------------------ Prune completes: every visited change gets its decision applied *)
Lemma apply_changes_subset : forall p vs chs tks ab chs' tks' ab' id,
  apply p vs chs tks ab = (chs', tks', ab') -> has_id chs' id -> has_id chs id.
Proof.
  intros p vs. induction vs as [|[c d] vs IH]; intros chs tks ab chs' tks' ab' id H Hid; simpl in H.
  - inversion H; subst; assumption.
  - destruct d.
    + eapply IH; eassumption.
    + eapply IH in H; [|eassumption]. destruct H as [x [Hx E]]. apply filter_In in Hx. exists x. tauto.
    + eapply IH in H; [|eassumption]. destruct H as [x [Hx E]]. apply in_map_iff in Hx. destruct Hx as [y [Ey Hy]].
      exists y. split; [assumption|]. subst x. rewrite <- E. destruct (pc_id y =? pc_id c)%N; reflexivity.
    + eapply IH in H; [|eassumption]. destruct H as [x [Hx E]]. apply filter_In in Hx. exists x. tauto.
Qed.

(* every change whose visit decided a removal is gone at the end *)
Lemma apply_removes_decided : forall p vs chs tks ab chs' tks' ab' c d,
  apply p vs chs tks ab = (chs', tks', ab') -> In (c, d) vs -> removes d = true -> ~ has_id chs' (pc_id c).
Proof.
  intros p vs. induction vs as [|[c0 d0] vs IH]; intros chs tks ab chs' tks' ab' c d H Hin Hr; simpl in H; [contradiction|].
  destruct Hin as [Hin|Hin].
  - inversion Hin; subst. intro Hc. destruct d; try discriminate.
    + eapply apply_changes_subset in Hc; [|eassumption]. destruct Hc as [x [Hx E]]. apply filter_In in Hx. destruct Hx as [_ Hx].
      rewrite E, N.eqb_refl in Hx. discriminate.
    + eapply apply_changes_subset in Hc; [|eassumption]. destruct Hc as [x [Hx E]]. apply filter_In in Hx. destruct Hx as [_ Hx].
      rewrite E, N.eqb_refl in Hx. discriminate.
  - destruct d0; eapply IH; eassumption.
Qed.

(* the abort ran on every change whose visit decided it, in visiting order *)
Lemma apply_aborted_exactly : forall p vs chs tks ab chs' tks' ab',
  apply p vs chs tks ab = (chs', tks', ab') ->
  ab' = ab ++ map (fun cd => pc_id (fst cd)) (filter (fun cd => match snd cd with AbortIt => true | _ => false end) vs).
Proof.
  intros p vs. induction vs as [|[c d] vs IH]; intros chs tks ab chs' tks' ab' H; simpl in H.
  - inversion H; subst. simpl. rewrite app_nil_r. reflexivity.
  - destruct d; simpl; try (eapply IH; eassumption).
    apply IH in H. rewrite H, <- app_assoc. reflexivity.
Qed.

Lemma visit_length : forall p l count, map fst (visit p count l) = l.
Proof. intros p l. induction l as [|c l IH]; intros count; simpl; [reflexivity | rewrite IH; reflexivity]. Qed.

(* C09_prune_completes: every change of the visiting order is visited exactly once; each one decided for removal is gone
   at the end; the abort has run exactly on the ones decided for abort, in visiting order *)
Theorem prune_completes : forall p order s,
  map fst (vs_of p order) = order /\
  (forall c d, In (c, d) (vs_of p order) -> removes d = true -> ~ has_id (r_changes (prune_with p order s)) (pc_id c)) /\
  r_aborted (prune_with p order s) =
    map (fun cd => pc_id (fst cd)) (filter (fun cd => match snd cd with AbortIt => true | _ => false end) (vs_of p order)).
Proof.
  intros p order s. destruct (prune_with_changes p order s) as (tks & ab & A & Eab & _). repeat split.
  - apply visit_length.
  - intros c d Hin Hr. eapply apply_removes_decided; eassumption.
  - rewrite Eab. apply apply_aborted_exactly in A. exact A.
Qed.

(* the regression witness of the repaired defect (DESIGN finding 11 reached through Prune): tasks [Do; Done; Done] of an
   old unready change: aborted to [Hold; Undo; Undo], the change stays unready *)
Definition abort_witness : pstate :=
  mkPS [mkPC 1 (-1000) None [1; 2; 3]%N []] [mkPT 1 2 (-1000) 1; mkPT 2 4 (-1000) 1; mkPT 3 4 (-1000) 1] [] [].
Definition abort_params : params := mkParams 0 0 None 10 100 5 [].
Lemma abort_witness_result :
  let r := prune abort_params abort_witness in
  map (fun t => (pt_id t, pt_status t)) (r_tasks r) = [(1, 1); (2, 6); (3, 6)]%N /\ map pc_ready (r_changes r) = [None] /\ r_aborted r = [1%N].
Proof. vm_compute. repeat split; reflexivity. Qed.

(* ================================================================== the converse directions: what Prune MUST do *)
Lemma visit_covers : forall p l count c, In c l -> exists count', In (c, decide p count' c) (visit p count l).
Proof.
  intros p l. induction l as [|x l IH]; intros count c H; [contradiction|]. simpl. destruct H as [H|H].
  - subst x. exists count. left. reflexivity.
  - destruct (IH (match decide p count x with RemoveReady => count - 1 | _ => count end) c H) as [k Hk]. exists k. right. exact Hk.
Qed.

(* a finished change that became ready before the prune limit is removed, whatever the count *)
Theorem old_ready_removed : forall p order s c r, In c order -> pc_ready c = Some r -> r < prune_limit p ->
  ~ has_id (r_changes (prune_with p order s)) (pc_id c).
Proof.
  intros p order s c r Hin Hr Hold. destruct (visit_covers p order (ready_count order) c Hin) as [k Hk].
  destruct (prune_completes p order s) as (_ & R & _). apply (R c _ Hk).
  unfold decide. rewrite Hr. assert (E : (r <? prune_limit p) = true) by lia. rewrite E. reflexivity.
Qed.

(* an unready change without tasks spawned (clamped) before the prune limit is removed *)
Theorem old_empty_removed : forall p order s c, In c order -> pc_ready c = None -> pc_tasks c = [] ->
  clamped_spawn p c < prune_limit p -> ~ has_id (r_changes (prune_with p order s)) (pc_id c).
Proof.
  intros p order s c Hin Hr Ht Hold. destruct (visit_covers p order (ready_count order) c Hin) as [k Hk].
  destruct (prune_completes p order s) as (_ & R & _). apply (R c _ Hk).
  unfold decide. rewrite Hr, Ht. assert (E : (clamped_spawn p c <? prune_limit p) = true) by lia. rewrite E. reflexivity.
Qed.

(* an unready change that is old enough for the abort, not pending, and not the empty-and-prunable case IS aborted *)
Theorem old_unready_aborted : forall p order s c, In c order -> pc_ready c = None ->
  (pc_tasks c <> [] \/ prune_limit p <= clamped_spawn p c) -> clamped_spawn p c < abort_limit p -> is_pending p c = false ->
  In (pc_id c) (r_aborted (prune_with p order s)).
Proof.
  intros p order s c Hin Hr Hne Hold Hp. destruct (visit_covers p order (ready_count order) c Hin) as [k Hk].
  destruct (prune_completes p order s) as (_ & _ & A). rewrite A. apply in_map_iff. exists (c, decide p k c). split; [reflexivity|].
  apply filter_In. split; [exact Hk|]. simpl. unfold decide. rewrite Hr, Hp.
  assert (E : (clamped_spawn p c <? abort_limit p) = true) by lia. rewrite E.
  destruct Hne as [Hne|Hne].
  - destruct (pc_tasks c); [congruence|]. rewrite andb_false_r. reflexivity.
  - assert (E2 : (clamped_spawn p c <? prune_limit p) = false) by lia. rewrite E2. reflexivity.
Qed.

(* ---- never more than maxReadyChanges finished changes are kept *)
Fixpoint final_count (p : params) (count : Z) (l : list pchange) : Z :=
  match l with
  | [] => count
  | c :: r => final_count p (match decide p count c with RemoveReady => count - 1 | _ => count end) r
  end.

Lemma final_count_le : forall p l count, final_count p count l <= count.
Proof.
  intros p l. induction l as [|c l IH]; intros count; simpl; [lia|].
  destruct (decide p count c); try apply IH. specialize (IH (count - 1)). lia.
Qed.

Definition kept_ready (cd : pchange * decision) : bool :=
  is_some (pc_ready (fst cd)) && match snd cd with Keep => true | _ => false end.

Lemma kept_ready_bound : forall p l count c, In (c, Keep) (visit p count l) -> pc_ready c <> None ->
  final_count p count l <= p_max_ready p.
Proof.
  intros p l. induction l as [|x l IH]; intros count c H Hr; simpl in H; [contradiction|]. simpl. destruct H as [H|H].
  - inversion H as [[E1 E2]]. subst x. rewrite E2. destruct (pc_ready c) as [r|] eqn:Er; [|congruence].
    destruct (keep_ready p count c r Er E2) as [_ K]. pose proof (final_count_le p l count). lia.
  - eapply IH; eassumption.
Qed.

Lemma final_count_is_kept : forall p l count,
  final_count p count l = count - ready_count l + Z.of_nat (length (filter kept_ready (visit p count l))).
Proof.
  intros p l. unfold ready_count. induction l as [|c l IH]; intros count; simpl; [lia|].
  unfold kept_ready at 1. simpl. unfold decide at 2 3. destruct (pc_ready c) as [r|] eqn:Er; simpl.
  - destruct ((r <? prune_limit p) || (p_max_ready p <? count)) eqn:E; simpl.
    + rewrite IH. unfold decide. rewrite Er, E. lia.
    + rewrite IH. unfold decide. rewrite Er, E. simpl length. lia.
  - assert (D : match decide p count c with RemoveReady => count - 1 | _ => count end = count).
    { unfold decide. rewrite Er. destruct (_ && _); [reflexivity|]. destruct (_ <? _); [destruct (is_pending p c)|]; reflexivity. }
    rewrite D, IH.
    destruct (if (clamped_spawn p c <? prune_limit p) && match pc_tasks c with [] => true | _ :: _ => false end
              then RemoveEmpty else if clamped_spawn p c <? abort_limit p then if is_pending p c then Keep else AbortIt else Keep);
      simpl; lia.
Qed.

(* C09_count_bound: the number of finished changes Prune decides to keep never exceeds maxReadyChanges (if that is >= 0) *)
Theorem count_bound : forall p order, 0 <= p_max_ready p ->
  Z.of_nat (length (filter kept_ready (vs_of p order))) <= p_max_ready p.
Proof.
  intros p order H0. unfold vs_of. pose proof (final_count_is_kept p order (ready_count order)) as F.
  destruct (filter kept_ready (visit p (ready_count order) order)) as [|[c d] rest] eqn:E; [simpl; lia|].
  assert (Hin : In (c, d) (filter kept_ready (visit p (ready_count order) order))) by (rewrite E; left; reflexivity).
  apply filter_In in Hin. destruct Hin as [Hin Hk]. unfold kept_ready in Hk. simpl in Hk. apply andb_true_iff in Hk. destruct Hk as [Hs Hd].
  destruct d; try discriminate.
  assert (Hr : pc_ready c <> None) by (destruct (pc_ready c); [discriminate | discriminate]).
  pose proof (kept_ready_bound p order (ready_count order) c Hin Hr). lia.
Qed.

(* ---- a change that stays keeps every task it lists (no dangling task reference afterwards) *)
Lemma apply_changes_origin : forall p vs chs tks ab chs' tks' ab' c',
  apply p vs chs tks ab = (chs', tks', ab') -> In c' chs' -> exists c, In c chs /\ pc_id c = pc_id c' /\ pc_tasks c = pc_tasks c'.
Proof.
  intros p vs. induction vs as [|[c d] vs IH]; intros chs tks ab chs' tks' ab' c' H Hin; simpl in H.
  - inversion H; subst. exists c'. repeat split; assumption.
  - destruct d.
    + eapply IH; eassumption.
    + destruct (IH _ _ _ _ _ _ _ H Hin) as [x [Hx E]]. apply filter_In in Hx. exists x. tauto.
    + destruct (IH _ _ _ _ _ _ _ H Hin) as [x [Hx [E1 E2]]]. apply in_map_iff in Hx. destruct Hx as [y [Ey Hy]].
      exists y. split; [assumption|]. subst x. destruct (pc_id y =? pc_id c)%N; simpl in *; split; assumption.
    + destruct (IH _ _ _ _ _ _ _ H Hin) as [x [Hx E]]. apply filter_In in Hx. exists x. tauto.
Qed.

Lemma mem_In : forall x l, mem x l = true <-> In x l.
Proof.
  intros x l. unfold mem. rewrite existsb_exists. split.
  - intros [y [Hy E]]. apply N.eqb_eq in E. subst; assumption.
  - intros H. exists x. split; [assumption | apply N.eqb_refl].
Qed.

(* well-formed listing (what AddTask establishes): the changes are visited once each, every task a change lists exists and is
   linked back to it, and no task is listed by two different changes *)
Definition listing_ok (order : list pchange) (s : pstate) : Prop :=
  (forall c, In c (ps_changes s) -> In c order) /\
  (forall c id, In c order -> In id (pc_tasks c) -> exists sp, has_task (ps_tasks s) id (pc_id c) sp) /\
  (forall c d id, In c order -> In d order -> In id (pc_tasks c) -> In id (pc_tasks d) -> pc_id c = pc_id d).

Theorem kept_change_keeps_tasks : forall p order s c' id, listing_ok order s ->
  In c' (r_changes (prune_with p order s)) -> In id (pc_tasks c') -> In id (map pt_id (r_tasks (prune_with p order s))).
Proof.
  intros p order s c' id (L0 & L1 & L2) Hc Hid.
  destruct (prune_with_changes p order s) as (tks & ab & A & _).
  destruct (apply_changes_origin _ _ _ _ _ _ _ _ _ A Hc) as [c [Hcs [Eid Etk]]].
  assert (Hco : In c order) by (apply L0; assumption). rewrite <- Etk in Hid.
  destruct (L1 c id Hco Hid) as [sp Ht].
  apply (tasks_kept_with_change p order s id (pc_id c) sp Ht).
  - intros x Hx. destruct (mem id (pc_tasks x)) eqn:M; [|reflexivity]. exfalso. apply mem_In in M.
    pose proof (visit_in _ _ _ _ _ Hx) as [Hxo _]. pose proof (L2 x c id Hxo Hco M Hid) as E.
    destruct (prune_completes p order s) as (_ & R & _). apply (R x RemoveReady Hx eq_refl).
    exists c'. split; [assumption | congruence].
  - left. exists c'. split; [assumption | symmetry; assumption].
Qed.

(* ================================================================== Prune as a step of a history: the invariant *)
Definition result_state (r : result) : pstate := mkPS (r_changes r) (r_tasks r) (r_warnings r) (r_notices r).

(* what AddTask establishes and every step keeps: change ids are distinct; every task a change lists exists and is linked back
   to it; no task is listed by two changes *)
Definition wf (s : pstate) : Prop :=
  NoDup (map pc_id (ps_changes s)) /\
  (forall c id, In c (ps_changes s) -> In id (pc_tasks c) -> exists t, In t (ps_tasks s) /\ pt_id t = id /\ pt_change t = pc_id c) /\
  (forall c d id, In c (ps_changes s) -> In d (ps_changes s) -> In id (pc_tasks c) -> In id (pc_tasks d) -> pc_id c = pc_id d).

Lemma wf_listing_ok : forall s, wf s -> listing_ok (sort_changes (ps_changes s)) s.
Proof.
  intros s (W1 & W2 & W3). repeat split.
  - intros c Hc. apply (proj2 (sort_changes_in _ _)). assumption.
  - intros c id Hc Hid. apply (proj1 (sort_changes_in _ _)) in Hc. destruct (W2 c id Hc Hid) as [t [Ht [E1 E2]]].
    exists (pt_spawn t), t. repeat split; assumption.
  - intros c d id Hc Hd. apply (proj1 (sort_changes_in _ _)) in Hc. apply (proj1 (sort_changes_in _ _)) in Hd. apply W3; assumption.
Qed.

Lemma tasks_kept_with_change_strong : forall p order s id ch sp,
  has_task (ps_tasks s) id ch sp ->
  (forall c, In (c, RemoveReady) (vs_of p order) -> mem id (pc_tasks c) = false) ->
  (has_id (r_changes (prune_with p order s)) ch \/ prune_limit p <= sp) ->
  has_task (r_tasks (prune_with p order s)) id ch sp.
Proof.
  intros p order s id ch sp Ht Hno Hl.
  destruct (prune_with_changes p order s) as (tks & ab & A & _ & _ & Hback).
  destruct (apply_keeps_task _ _ _ _ _ _ _ _ _ _ _ A Ht Hno) as [t [Hin [E1 [E2 E3]]]].
  exists t. split; [|repeat split; assumption]. apply Hback; [assumption|].
  destruct Hl as [[c [Hc Hcid]]|Hl]; [left | right; lia].
  apply existsb_exists. exists c. split; [assumption|]. rewrite E2, Hcid. apply N.eqb_refl.
Qed.

Lemma NoDup_map_filter' : forall A B (f : A -> B) (q : A -> bool) l, NoDup (map f l) -> NoDup (map f (filter q l)).
Proof.
  intros A B f q l. induction l as [|x l IH]; intros H; simpl; [constructor|]. simpl in H. inversion H as [|? ? Hx Hl]; subst.
  destruct (q x); simpl; [constructor|]; try (apply IH; assumption).
  intro Hin. apply Hx. apply in_map_iff in Hin. destruct Hin as [y [E Hy]]. apply filter_In in Hy. apply in_map_iff. exists y. tauto.
Qed.

Lemma apply_nodup_ids : forall p vs chs tks ab chs' tks' ab',
  apply p vs chs tks ab = (chs', tks', ab') -> NoDup (map pc_id chs) -> NoDup (map pc_id chs').
Proof.
  intros p vs. induction vs as [|[c d] vs IH]; intros chs tks ab chs' tks' ab' H Hn; simpl in H.
  - inversion H; subst; assumption.
  - destruct d.
    + eapply IH; eassumption.
    + eapply IH; [eassumption|]. apply NoDup_map_filter'. assumption.
    + eapply IH; [eassumption|]. rewrite map_map.
      rewrite (map_ext _ pc_id); [assumption|]. intros x. destruct (pc_id x =? pc_id c)%N; reflexivity.
    + eapply IH; [eassumption|]. apply NoDup_map_filter'. assumption.
Qed.

(* Prune keeps the invariant (for every clock and parameters) *)
Theorem prune_preserves_wf : forall p s, wf s -> wf (result_state (prune p s)).
Proof.
  intros p s W. pose proof (wf_listing_ok s W) as L. destruct W as (W1 & W2 & W3). unfold prune in *.
  set (order := sort_changes (ps_changes s)) in *.
  destruct (prune_with_changes p order s) as (tks & ab & A & _). unfold wf, result_state. simpl. repeat split.
  - eapply apply_nodup_ids; eassumption.
  - intros c' id Hc Hid.
    destruct (apply_changes_origin _ _ _ _ _ _ _ _ _ A Hc) as [c [Hcs [Eid Etk]]].
    rewrite <- Etk in Hid. destruct (W2 c id Hcs Hid) as [t [Ht [E1 E2]]].
    assert (Hco : In c order) by (apply (proj2 (sort_changes_in _ _)); assumption).
    destruct (tasks_kept_with_change_strong p order s id (pc_id c) (pt_spawn t)) as [t' [Ht' [F1 [F2 F3]]]].
    + exists t. repeat split; assumption.
    + intros x Hx. destruct (mem id (pc_tasks x)) eqn:M; [|reflexivity]. exfalso. apply mem_In in M.
      pose proof (visit_in _ _ _ _ _ Hx) as [Hxo _]. destruct L as (_ & _ & L2).
      pose proof (L2 x c id Hxo Hco M Hid) as E.
      destruct (prune_completes p order s) as (_ & R & _). apply (R x RemoveReady Hx eq_refl).
      exists c'. split; [assumption | congruence].
    + left. exists c'. split; [assumption | symmetry; assumption].
    + exists t'. repeat split; [assumption | assumption | congruence].
  - intros c' d' id Hc Hd Hic Hid.
    destruct (apply_changes_origin _ _ _ _ _ _ _ _ _ A Hc) as [c [Hcs [Ec Etc]]].
    destruct (apply_changes_origin _ _ _ _ _ _ _ _ _ A Hd) as [d [Hds [Ed Etd]]].
    rewrite <- Etc in Hic. rewrite <- Etd in Hid. rewrite <- Ec, <- Ed. eapply W3; eassumption.
Qed.

(* ---- every other step keeps the invariant *)
Lemma maxl_ge : forall l x, In x l -> (x <= maxl l)%N.
Proof. induction l as [|y l IH]; intros x H; simpl in *; [contradiction|]. destruct H as [H|H]; [subst; lia | specialize (IH x H); lia]. Qed.

Lemma NoDup_snoc_N : forall (l : list N) x, NoDup l -> ~ In x l -> NoDup (l ++ [x]).
Proof.
  intros l x H Hx. induction H as [|y l Hy Hl IH]; simpl; [constructor; [intros []|constructor]|].
  constructor.
  - intro Hin. apply in_app_or in Hin. destruct Hin as [Hin|[Hin|[]]]; [contradiction|]. subst. apply Hx. left; reflexivity.
  - apply IH. intro Hin. apply Hx. right. assumption.
Qed.

Lemma listed_le : forall (l : list pchange) x id, In x l -> In id (pc_tasks x) -> (id <= maxl (concat (map pc_tasks l)))%N.
Proof.
  intros l x id Hx Hid. apply maxl_ge. apply in_concat. exists (pc_tasks x). split; [apply in_map; assumption | assumption].
Qed.

Lemma wf_map_changes : forall (g : pchange -> pchange) chs tks ws ns,
  (forall x, pc_id (g x) = pc_id x /\ pc_tasks (g x) = pc_tasks x) -> wf (mkPS chs tks ws ns) -> wf (mkPS (map g chs) tks ws ns).
Proof.
  intros g chs tks ws ns Hg (W1 & W2 & W3). unfold wf in *. simpl in *. repeat split.
  - rewrite map_map. rewrite (map_ext _ pc_id); [assumption | intros x; apply Hg].
  - intros c id Hc Hid. apply in_map_iff in Hc. destruct Hc as [x [E Hx]]. subst c. destruct (Hg x) as [G1 G2].
    rewrite G2 in Hid. rewrite G1. apply W2; assumption.
  - intros c d id Hc Hd Hic Hid. apply in_map_iff in Hc. destruct Hc as [x [E Hx]]. apply in_map_iff in Hd. destruct Hd as [y [E' Hy]].
    subst c d. destruct (Hg x) as [G1 G2]. destruct (Hg y) as [G3 G4]. rewrite G2 in Hic. rewrite G4 in Hid. rewrite G1, G3.
    eapply W3; eassumption.
Qed.

Lemma hstep_wf : forall s o, wf s -> wf (hstep s o).
Proof.
  intros s o W. destruct o as [spawn attrs|c spawn st|t st|c r|x|x|p]; simpl.
  - (* NewChange *)
    destruct W as (W1 & W2 & W3). unfold wf. simpl. repeat split.
    + rewrite map_app. simpl. apply NoDup_snoc_N; [assumption|]. intro Hin. apply maxl_ge in Hin. unfold next_change in Hin. lia.
    + intros c id Hc Hid. apply in_app_or in Hc. destruct Hc as [Hc|[Hc|[]]]; [apply W2; assumption | subst c; simpl in Hid; contradiction].
    + intros c d id Hc Hd Hic Hid. apply in_app_or in Hc. apply in_app_or in Hd.
      destruct Hc as [Hc|[Hc|[]]]; [|subst c; simpl in Hic; contradiction].
      destruct Hd as [Hd|[Hd|[]]]; [|subst d; simpl in Hid; contradiction]. eapply W3; eassumption.
  - (* NewTask *)
    destruct (existsb (fun x => (pc_id x =? c)%N) (ps_changes s)).
    + destruct W as (W1 & W2 & W3). unfold wf. simpl.
      set (tid := next_task s).
      set (f := fun x => if (pc_id x =? c)%N then mkPC (pc_id x) (pc_spawn x) (pc_ready x) (pc_tasks x ++ [tid]) (pc_attrs x) else x).
      assert (Fid : forall x, pc_id (f x) = pc_id x) by (intros x; unfold f; destruct (pc_id x =? c)%N; reflexivity).
      assert (Fresh : forall x, In x (ps_changes s) -> ~ In tid (pc_tasks x)).
      { intros x Hx Hin. pose proof (listed_le _ _ _ Hx Hin) as Hle. unfold tid, next_task in Hle. lia. }
      assert (Flist : forall x id, In id (pc_tasks (f x)) -> In id (pc_tasks x) \/ (id = tid /\ pc_id x = c)).
      { intros x id Hin. unfold f in Hin. destruct (pc_id x =? c)%N eqn:E; [|left; assumption]. simpl in Hin.
        apply in_app_or in Hin. destruct Hin as [Hin|[Hin|[]]]; [left; assumption | right; split; [symmetry; assumption | apply N.eqb_eq; assumption]]. }
      repeat split.
      * rewrite map_map. rewrite (map_ext _ pc_id); assumption.
      * intros c' id Hc Hid. apply in_map_iff in Hc. destruct Hc as [x [E Hx]]. subst c'. rewrite Fid.
        destruct (Flist x id Hid) as [Hold|[Hnew Hcx]].
        -- destruct (W2 x id Hx Hold) as [t [Ht E]]. exists t. split; [apply in_or_app; left; assumption | assumption].
        -- exists (mkPT tid st spawn c). split; [apply in_or_app; right; left; reflexivity|]. simpl. split; congruence.
      * intros c' d' id Hc Hd Hic Hid. apply in_map_iff in Hc. destruct Hc as [x [E Hx]]. apply in_map_iff in Hd. destruct Hd as [y [E' Hy]].
        subst c' d'. rewrite !Fid. destruct (Flist x id Hic) as [Hx1|[Hx1 Hx2]]; destruct (Flist y id Hid) as [Hy1|[Hy1 Hy2]].
        -- eapply W3; eassumption.
        -- exfalso. subst id. exact (Fresh x Hx Hx1).
        -- exfalso. subst id. exact (Fresh y Hy Hy1).
        -- congruence.
    + destruct W as (W1 & W2 & W3). unfold wf. simpl. repeat split; try assumption.
      intros c' id Hc Hid. destruct (W2 c' id Hc Hid) as [t [Ht E]]. exists t. split; [apply in_or_app; left; assumption | assumption].
  - (* SetStatus *)
    destruct W as (W1 & W2 & W3). unfold wf. simpl. repeat split; try assumption.
    intros c id Hc Hid. destruct (W2 c id Hc Hid) as [x [Hx [E1 E2]]].
    exists (if (pt_id x =? t)%N then mkPT (pt_id x) st (pt_spawn x) (pt_change x) else x). split.
    + apply in_map_iff. exists x. split; [reflexivity | assumption].
    + destruct (pt_id x =? t)%N; simpl; split; assumption.
  - (* SetReady *)
    destruct s as [chs tks ws ns]. apply wf_map_changes; [|assumption]. intros x. simpl. destruct (pc_id x =? c)%N; split; reflexivity.
  - destruct W as (W1 & W2 & W3). repeat split; assumption.
  - destruct W as (W1 & W2 & W3). repeat split; assumption.
  - apply (prune_preserves_wf p s W).
Qed.

Lemma wf_empty : wf (mkPS [] [] [] []).
Proof. repeat split; simpl; try constructor; intros; contradiction. Qed.

(* every state reachable from the empty state by any interleaving of the steps with Prune (any clocks, any parameters) is wf *)
Theorem reachable_wf : forall ops, wf (hrun ops).
Proof.
  intros ops. unfold hrun. assert (G : forall l s, wf s -> wf (fold_left hstep l s)).
  { induction l as [|o l IH]; intros s W; simpl; [assumption | apply IH, hstep_wf, W]. }
  apply G, wf_empty.
Qed.

Lemma sort_nodup : forall l, NoDup (map pc_id l) -> NoDup (map pc_id (sort_changes l)).
Proof.
  assert (I : forall c l, NoDup (pc_id c :: map pc_id l) -> NoDup (map pc_id (insert_c c l))).
  { intros c l. induction l as [|d l IH]; intros H; simpl; [assumption|].
    assert (Hsw : NoDup (pc_id d :: map pc_id (insert_c c l))).
    { inversion H as [|? ? Hc Hr]; subst. inversion Hr as [|? ? Hd Hl]; subst. constructor.
      - intro Hin. apply in_map_iff in Hin. destruct Hin as [x [E Hx]]. apply insert_in in Hx. destruct Hx as [Hx|Hx].
        + subst x. apply Hc. left. symmetry. assumption.
        + apply Hd. rewrite <- E. apply in_map. assumption.
      - apply IH. constructor; [intro X; apply Hc; right; assumption | assumption]. }
    destruct (ready_lt d c); [exact Hsw|]. destruct (ready_lt c d); [exact H | exact Hsw]. }
  induction l as [|c l IH]; intros H; simpl; [constructor|]. apply I. inversion H as [|? ? Hc Hl]; subst. constructor.
  - intro Hin. apply Hc. apply in_map_iff in Hin. destruct Hin as [x [E Hx]]. apply (proj1 (sort_changes_in _ _)) in Hx.
    rewrite <- E. apply in_map. assumption.
  - apply IH. assumption.
Qed.

(* C09 as ONE invariant theorem: after ANY history from the empty state, for ANY clock and parameters, Prune
   (1) leaves a state that is again reachable-wf; (2) removes a change only if it was finished and old / over the limit, or
   empty, unready and old; (3) removes every task of a removed finished change and (4) no task listed by a change that stays;
   (5) aborts only unready changes past the abort period that are not pending; (6) keeps at most maxReadyChanges finished
   changes; (7) keeps exactly the unexpired warnings and notices - no hypothesis left about the state *)
Theorem prune_invariant : forall ops p,
  let s := hrun ops in let order := sort_changes (ps_changes s) in let r := prune p s in
  wf (result_state r) /\
  (forall id, has_id (ps_changes s) id -> ~ has_id (r_changes r) id ->
     exists c count, In c order /\ pc_id c = id /\
       ((exists rd, pc_ready c = Some rd /\ (rd < prune_limit p \/ p_max_ready p < count)) \/
        (pc_ready c = None /\ pc_tasks c = [] /\ clamped_spawn p c < prune_limit p))) /\
  (forall c id, In c order -> pc_ready c <> None -> ~ has_id (r_changes r) (pc_id c) -> mem id (pc_tasks c) = true ->
     ~ In id (map pt_id (r_tasks r))) /\
  (forall c' id, In c' (r_changes r) -> In id (pc_tasks c') -> In id (map pt_id (r_tasks r))) /\
  (forall id, In id (r_aborted r) ->
     exists c, In c order /\ pc_id c = id /\ pc_ready c = None /\ clamped_spawn p c < abort_limit p /\ is_pending p c = false) /\
  (0 <= p_max_ready p -> Z.of_nat (length (filter kept_ready (vs_of p order))) <= p_max_ready p) /\
  (forall x, (In x (r_warnings r) <-> In x (ps_warnings s) /\ x_last x + x_expire x >= p_now p) /\
             (In x (r_notices r) <-> In x (ps_notices s) /\ x_last x + x_expire x >= p_now p)).
Proof.
  intros ops p s order r. pose proof (reachable_wf ops) as W. fold s in W. pose proof (wf_listing_ok s W) as L.
  fold order in L. unfold r, prune. fold order.
  split; [apply (prune_preserves_wf p s W)|].
  split; [intros id H1 H2; apply (removed_only_if p order s id H1 H2)|].
  split.
  { intros c id Hc Hr Hgone Hm. apply (tasks_go_with_change p order s c id); try assumption.
    - apply sort_nodup. apply W.
    - exists c. split; [apply (proj1 (sort_changes_in _ _)); assumption | reflexivity]. }
  split; [intros c' id Hc Hid; apply (kept_change_keeps_tasks p order s c' id L Hc Hid)|].
  split; [intros id Hin; apply (abort_only_after p order s id Hin)|].
  split; [intros H0; apply count_bound; assumption|].
  intros x. apply (expired_gone p order s x).
Qed.
