(* C04 — the tie of the persistence assumption to the source text: State.Unlock (regenerated step list in
   gen/UnlockOrder.v) writes the checkpoint while the state lock is still held. *)
From Coq Require Import String List NArith Bool.
Import ListNotations.
Require Import V.lib.Bytes V.gen.UnlockOrder.

(* some non-deferred unlock is followed by a checkpoint call *)
Fixpoint unlock_before_checkpoint (l : list bytes) : bool :=
  match l with
  | [] => false
  | x :: r => (beq x (bs "unlock") && existsb (beq (bs "checkpoint")) r) || unlock_before_checkpoint r
  end.
(* the first of marshal / checkpoint in source order is marshal *)
Fixpoint marshal_first (l : list bytes) : bool :=
  match l with
  | [] => false
  | x :: r => if beq x (bs "marshal") then true else if beq x (bs "checkpoint") then false else marshal_first r
  end.
Definition checkpoint_under_lock (steps : list bytes) : bool :=
  existsb (beq (bs "defer-unlock")) steps && existsb (beq (bs "checkpoint")) steps
  && negb (unlock_before_checkpoint steps) && marshal_first steps.

Lemma unlock_writes_under_lock : checkpoint_under_lock unlock_steps = true.
Proof. vm_compute. reflexivity. Qed.

(* the shape the obligation rejects: marshal, release the lock, then write *)
Lemma unlock_then_write_rejected : checkpoint_under_lock [bs "marshal"; bs "unlock"; bs "checkpoint"] = false.
Proof. vm_compute. reflexivity. Qed.

(* State.Unlocker: the lock is released through s.Unlock() (which checkpoints), never through the bare s.unlock(), and the
   relock function is s.Lock *)
Definition unlocker_checkpoints (steps : list bytes) : bool :=
  existsb (beq (bs "Unlock")) steps && negb (existsb (beq (bs "unlock")) steps) && existsb (beq (bs "Lock")) steps.

(* the only callers of the non-checkpointing s.unlock() in overlord/state are Unlock itself (its deferred release after the
   write) and ReadState (on the fresh, unmodified state it has just decoded); the only caller of s.mu.Unlock() is s.unlock() *)
Fixpoint blist_eqb (a b : list bytes) : bool :=
  match a, b with [], [] => true | x :: a', y :: b' => beq x y && blist_eqb a' b' | _, _ => false end.
Definition release_paths_ok : bool :=
  blist_eqb lowercase_unlock_callers [bs "ReadState"; bs "State.Unlock"] && blist_eqb state_mu_unlock_callers [bs "State.unlock"].

(* every lock release that can follow a modification checkpoints first *)
Definition every_release_checkpoints : bool :=
  checkpoint_under_lock unlock_steps && unlocker_checkpoints unlocker_steps && release_paths_ok.

Lemma every_release_checkpoints_holds : every_release_checkpoints = true.
Proof. vm_compute. reflexivity. Qed.

Lemma bare_unlocker_rejected : unlocker_checkpoints [bs "unlock"; bs "Lock"] = false.
Proof. vm_compute. reflexivity. Qed.
