(* Proofs about models/SnapSeq.v — part 9: doDiscardSnap is idempotent under retry (C11). *)
From Coq Require Import List NArith ZArith Bool Arith Lia.
Import ListNotations.
Require Import V.models.SnapSeq V.proofs.SnapSeqProofs.
Open Scope N_scope.

Lemma rem_idem : forall r (l : list N), rem r (rem r l) = rem r l.
Proof.
  intros r l. unfold rem. induction l as [|y t IH]; [reflexivity|]. cbn.
  destruct (y =? r) eqn:Q; cbn; [exact IH|]. rewrite Q. cbn. rewrite IH. reflexivity.
Qed.

Lemma rc_del_idem : forall r m, rc_del r (rc_del r m) = rc_del r m.
Proof.
  intros r m. unfold rc_del. induction m as [|[k v] t IH]; [reflexivity|]. cbn.
  destruct (k =? r) eqn:Q; cbn; [exact IH|]. rewrite Q. cbn. rewrite IH. reflexivity.
Qed.

Local Opaque rem rc_del last.

(* the effect list is the handler *)
Theorem discard_plan_is_discard : forall r s, discard_run r s (discard_plan r s) s = do_discard r s.
Proof.
  intros r [sq c a ch d j cl t ig co lr ih nbs cf rc mt lk].
  unfold discard_run, discard_plan, discard_seq, do_discard, apply_deffect. cbn [seq].
  destruct sq as [|x [|y l]]; [reflexivity|reflexivity|].
  set (ns := rem r (x :: y :: l)). clearbody ns. destruct ns; reflexivity.
Qed.

(* doDiscardSnap looks at the mounted set, the revision-config and the configuration only through what it does to them *)
Lemma discard_insensitive : forall r sq c a ch d j cl t ig co lr ih nbs cf rc mt lk cf' rc' mt',
  rem r mt' = rem r mt -> rc_del r rc' = rc_del r rc ->
  (cf' = cf \/ (discard_seq r (mkSt sq c a ch d j cl t ig co lr ih nbs cf rc mt lk) = [] /\ cf' = 0)) ->
  do_discard r (mkSt sq c a ch d j cl t ig co lr ih nbs cf' rc' mt' lk)
  = do_discard r (mkSt sq c a ch d j cl t ig co lr ih nbs cf rc mt lk).
Proof.
  intros r sq c a ch d j cl t ig co lr ih nbs cf rc mt lk cf' rc' mt' HM HR HC.
  unfold do_discard, discard_seq in *. cbn [seq cur nb active chan devmode jailmode classic trymode ignoreval cohort lastref inhib cfg revcfg mounted link] in *.
  rewrite HM, HR.
  destruct sq as [|x [|y l]].
  - destruct HC as [->|[_ ->]]; reflexivity.
  - destruct HC as [->|[_ ->]]; reflexivity.
  - set (ns := rem r (x :: y :: l)) in *. clearbody ns.
    destruct HC as [->|[E ->]]; [reflexivity|]. rewrite E. reflexivity.
Qed.

(* a failure after any number of effects short of the final Set, then the handler run again from the top: same result
   as one undisturbed run *)
Theorem discard_retry_idempotent : forall r s i,
  (i < length (discard_plan r s))%nat ->
  do_discard r (discard_run r s (firstn i (discard_plan r s)) s) = do_discard r s.
Proof.
  intros r [sq c a ch d j cl t ig co lr ih nbs cf rc mt lk] i L.
  unfold discard_plan in *. unfold discard_run.
  destruct (discard_seq r (mkSt sq c a ch d j cl t ig co lr ih nbs cf rc mt lk)) as [|u v] eqn:DS; cbn [app length] in *.
  - destruct i as [|[|[|[|i]]]]; try lia; cbn [firstn fold_left apply_deffect seq cur nb active chan devmode jailmode classic trymode ignoreval cohort lastref inhib cfg revcfg mounted link];
      apply discard_insensitive; rewrite ?rem_idem, ?rc_del_idem; auto.
  - destruct i as [|[|[|i]]]; try lia; cbn [firstn fold_left apply_deffect seq cur nb active chan devmode jailmode classic trymode ignoreval cohort lastref inhib cfg revcfg mounted link];
      apply discard_insensitive; rewrite ?rem_idem, ?rc_del_idem; auto.
Qed.

(* why Set has to come last: were the trimmed record written before RemoveSnapFiles, a retry after its failure would start
   from one kept revision and take the `last revision` shortcut — kept [1,2], discarding 1: the snap would be gone from the
   state while revision 2 is still mounted and linked *)
Local Transparent rem rc_del last.

Example retry_needs_set_last :
  let s := mkSt [1;2] 2 true 1 false false false false false 0 2 0 [] 5 [] [1;2] 2 in
  let early := apply_deffect 1 s s ESet in
  seq (do_discard 1 s) = [2] /\ seq (do_discard 1 early) = [] /\ mounted (do_discard 1 early) = [2] /\ link (do_discard 1 early) = 2.
Proof. vm_compute. repeat split; reflexivity. Qed.
