(* Proofs about models/TaskEngine.v, part 5 (C01): no task is stranded.
   Invariant: a task in Do only waits for live tasks (Do / Doing / Done, or Wait that will become Done); together
   with acyclicity of the wait edges it gives: in a reachable state with no running handler, no task in Wait and all
   schedule gates open, either every task is ready or the Ensure loop body fires for some task. Stdlib only. *)
From Coq Require Import List NArith ZArith Bool Arith Lia.
Import ListNotations.
Require Import V.models.TaskEngine V.proofs.TaskEngineProofs V.proofs.TaskEngineStatus V.proofs.TaskEngineReady
               V.proofs.TaskEngineDoing V.proofs.TaskEngineFuel.

Definition lv (s : state) (w : nat) : bool := is_live (get s w).
Definition wd_ok (x : status) : bool := match x with Hold | Done | Undone => true | _ => false end.

Definition kgood (s : state) : Prop :=
  (forall t w, st s t = Do -> In w (wts s t) -> lv s w = true) /\
  (forall t, wd_ok (t_waited (get s t)) = true).

Lemma kgood_tasks_eq : forall s s', tasks s' = tasks s -> kgood s -> kgood s'.
Proof. intros s s' E [A B]. unfold kgood, lv, st, wts, get in *. rewrite E. split; assumption. Qed.

Lemma lv_ext : forall s s' u, st s' u = st s u -> t_waited (get s' u) = t_waited (get s u) -> lv s' u = lv s u.
Proof. intros s s' u A B. unfold lv, is_live, eff_status, st in *. rewrite A, B. reflexivity. Qed.

Lemma lv_do : forall s u, st s u = Do -> lv s u = true.
Proof. intros s u H. unfold lv, is_live, eff_status, st in *. rewrite H. reflexivity. Qed.

Lemma lv_range : forall s u, lv s u = true -> u < length (tasks s).
Proof.
  intros s u H. apply in_range_st. intros E. unfold lv, is_live, eff_status, st in *. rewrite E in H. discriminate.
Qed.

(* liveness of t after its status was overwritten by nw *)
Definition newlive (s : state) (t : nat) (nw : status) : bool :=
  if seqb nw Wait then live_st (t_waited (get s t)) else live_st nw.

Lemma lv_wrote_same : forall s s' t nw, wrote s s' t nw -> t < length (tasks s) -> lv s' t = newlive s t nw.
Proof.
  intros s s' t nw H L. unfold lv, newlive, is_live, eff_status.
  change (t_st (get s' t)) with (st s' t). rewrite (wrote_st_same s s' t nw H L).
  destruct (wrote_get s s' t nw t H) as (_ & E & _). rewrite E.
  destruct nw; reflexivity.
Qed.

(* a write that is not a write of Do; if it makes t non-live, no task in Do waits for t *)
Lemma kgood_wrote : forall s s' t nw,
  kgood s -> wrote s s' t nw -> nw <> Do ->
  (lv s t = true -> newlive s t nw = true \/ (forall u, st s u = Do -> ~ In t (wts s u))) ->
  kgood s'.
Proof.
  intros s s' t nw [A B] H Hn Hc.
  destruct (Nat.lt_ge_cases t (length (tasks s))) as [L|L];
    [|apply (kgood_tasks_eq s); [eapply wrote_out; eauto | split; assumption]].
  split.
  - intros u w Hu Hw. unfold wts in Hw. destruct (wrote_get s s' t nw u H) as (E1 & _ & _). rewrite E1 in Hw.
    assert (Nu : u <> t) by (intros ->; rewrite (wrote_st_same s s' t nw H L) in Hu; congruence).
    rewrite (wrote_st_other s s' t nw u H Nu) in Hu.
    pose proof (A u w Hu Hw) as Lw.
    destruct (Nat.eq_dec w t) as [->|Nw].
    + rewrite (lv_wrote_same s s' t nw H L).
      destruct (Hc Lw) as [C|C]; [assumption | exfalso; eapply C; eauto].
    + rewrite (lv_ext s s' w); [assumption | apply (wrote_st_other s s' t nw w H Nw) |].
      destruct (wrote_get s s' t nw w H) as (_ & E & _). exact E.
  - intros u. destruct (wrote_get s s' t nw u H) as (_ & E2 & _). rewrite E2. apply B.
Qed.

Lemma kgood_set_status : forall s t nw,
  kgood s -> nw <> Do ->
  (lv s t = true -> newlive s t nw = true \/ (forall u, st s u = Do -> ~ In t (wts s u))) ->
  kgood (set_status s t nw).
Proof.
  intros s t nw G Hn Hc. destruct (tasks_set_status s t nw) as [E|W];
    [apply (kgood_tasks_eq s); assumption | eapply kgood_wrote; eauto].
Qed.

(* a write from a non-live source never hurts *)
Lemma kgood_set_status_dead : forall s t nw, kgood s -> nw <> Do -> lv s t = false -> kgood (set_status s t nw).
Proof. intros s t nw G Hn Hl. apply kgood_set_status; auto. intros F; congruence. Qed.

Lemma lv_false_of : forall s t x, st s t = x -> x <> Wait -> live_st x = false -> lv s t = false.
Proof.
  intros s t x H Hw Hl. unfold lv, is_live, eff_status. change (t_st (get s t)) with (st s t). rewrite H.
  destruct x; try reflexivity; try discriminate Hl; congruence.
Qed.

(* status-irrelevant updates (at, waited of a task that is not in Wait) *)
Lemma kgood_irrel : forall s t f,
  (forall tk, t_st (f tk) = t_st tk /\ t_waits (f tk) = t_waits tk) ->
  (forall tk, wd_ok (t_waited tk) = true -> wd_ok (t_waited (f tk)) = true) ->
  (st s t = Wait -> forall tk, t_waited (f tk) = t_waited tk) ->
  kgood s -> kgood (with_tasks s (upd (tasks s) t f)).
Proof.
  intros s t f Hf Hw Hk [A B].
  set (s' := with_tasks s (upd (tasks s) t f)).
  assert (X : forall u, st s' u = st s u /\ wts s' u = wts s u /\ wd_ok (t_waited (get s' u)) = true /\ lv s' u = lv s u).
  { intros u. unfold st, wts, lv, is_live, eff_status, get, s'; cbn [tasks with_tasks].
    destruct (Nat.eq_dec t u) as [->|N].
    - destruct (Nat.lt_ge_cases u (length (tasks s))) as [L|L].
      + rewrite nth_upd_same by assumption. destruct (Hf (nth u (tasks s) dummy)) as [F1 F2].
        rewrite F1, F2. repeat split; auto; [apply Hw, B|].
        destruct (seqb (t_st (nth u (tasks s) dummy)) Wait) eqn:E; [|reflexivity].
        apply seqb_eq in E. rewrite (Hk E). reflexivity.
      + rewrite upd_out by assumption. repeat split; auto. apply B.
    - rewrite nth_upd_other by assumption. repeat split; auto. apply B. }
  split.
  - intros u w Hu Hin. destruct (X u) as (E1 & E2 & _). destruct (X w) as (_ & _ & _ & E4).
    rewrite E1 in Hu. rewrite E2 in Hin. rewrite E4. eapply A; eauto.
  - intros u. apply X.
Qed.

(* ------------------------------------------------------------------ the worklist loop of abortTasks *)
Definition kinv (s : state) (seen wl wl0 : list nat) : Prop :=
  (forall t w, st s t = Do -> In w (wts s t) -> lv s w = true \/ (In w seen /\ In t wl)) /\
  (forall u, In u seen -> lv s u = false) /\
  (forall t, wd_ok (t_waited (get s t)) = true) /\
  (forall x, In x wl0 -> In x seen \/ In x wl).

(* after abort_write the task is not live; other tasks are untouched *)
Lemma abort_write_lv : forall s t,
  lv (abort_write s t) t = false /\
  (forall u, u <> t -> st (abort_write s t) u = st s u /\ lv (abort_write s t) u = lv s u) /\
  (forall u, wts (abort_write s t) u = wts s u /\ t_waited (get (abort_write s t) u) = t_waited (get s u)).
Proof.
  intros s t.
  assert (WQ : forall nw, nw <> Done -> wrote s (set_status_quiet s t nw) t nw).
  { intros nw Hn. unfold wrote, set_status_quiet. apply seqb_neq in Hn. rewrite Hn. reflexivity. }
  assert (Same : lv s t = false -> abort_write s t = s).
  { intros H. unfold abort_write. unfold lv, is_live in H. destruct (eff_status (get s t)); try reflexivity; discriminate. }
  destruct (lv s t) eqn:El.
  - (* live: written to Hold / Abort / Undo *)
    assert (Ex : exists nw, wrote s (abort_write s t) t nw /\ live_st nw = false /\ nw <> Wait).
    { unfold abort_write. unfold lv, is_live in El.
      destruct (eff_status (get s t)); try discriminate El;
        [exists Hold | exists Abort | exists Undo]; (split; [apply WQ; discriminate | split; [reflexivity | discriminate]]). }
    destruct Ex as (nw & W & Hl & Hw).
    pose proof (lv_range s t El) as L.
    split; [|split].
    + rewrite (lv_wrote_same s _ t nw W L). unfold newlive. apply seqb_neq in Hw. rewrite Hw. assumption.
    + intros u Hu. split; [apply (wrote_st_other s _ t nw u W Hu)|].
      apply lv_ext; [apply (wrote_st_other s _ t nw u W Hu)|].
      destruct (wrote_get s _ t nw u W) as (_ & E & _). exact E.
    + intros u. destruct (wrote_get s _ t nw u W) as (E1 & E2 & _). unfold wts. rewrite E1, E2. auto.
  - rewrite (Same eq_refl). repeat split; auto.
Qed.

Lemma kinv_step : forall s seen t rest wl0,
  sym s -> kinv s seen (t :: rest) wl0 -> memn t seen = false ->
  kinv (abort_write s t) (t :: seen) (rest ++ filter (fun h => negb (memn h (t :: seen))) (t_halts (get s t))) wl0.
Proof.
  intros s seen t rest wl0 Hsym (K1 & K2 & K3 & K4) Hns.
  destruct (abort_write_lv s t) as (A1 & A2 & A3).
  set (s' := abort_write s t) in *.
  assert (Hnin : ~ In t seen) by (intros F; apply memn_In in F; congruence).
  split; [|split; [|split]].
  - intros u w Hu Hin.
    assert (Nu : u <> t) by (intros ->; rewrite (lv_do s' t Hu) in A1; discriminate).
    destruct (A2 u Nu) as [Eu _]. rewrite Eu in Hu.
    destruct (A3 u) as [Ew _]. rewrite Ew in Hin.
    destruct (K1 u w Hu Hin) as [Lw|[Hs Hwl]].
    + destruct (Nat.eq_dec w t) as [->|Nw].
      * right. split; [left; reflexivity|].
        apply in_or_app; right. apply filter_In. split.
        -- apply Hsym; [apply in_range_st; rewrite Hu; discriminate | exact Hin | apply lv_range; exact Lw].
        -- apply negb_true_iff. destruct (memn u (t :: seen)) eqn:Em; [|reflexivity].
           apply memn_In in Em. destruct Em as [Em|Em]; [congruence|].
           specialize (K2 u Em). rewrite (lv_do s u Hu) in K2. discriminate.
      * left. destruct (A2 w Nw) as [_ El]. rewrite El. assumption.
    + right. split; [right; assumption|]. destruct Hwl as [Ht|Hr]; [congruence | apply in_or_app; left; assumption].
  - intros u [Hu|Hu]; [subst u; assumption|].
    assert (u <> t) by (intros ->; contradiction).
    destruct (A2 u H) as [_ El]. rewrite El. apply K2; assumption.
  - intros u. destruct (A3 u) as [_ E]. rewrite E. apply K3.
  - intros x Hx. destruct (K4 x Hx) as [Hs|[Ht|Hr]].
    + left; right; assumption.
    + left; left; assumption.
    + right; apply in_or_app; left; assumption.
Qed.

Lemma kinv_skip : forall s seen t rest wl0, kinv s seen (t :: rest) wl0 -> memn t seen = true -> kinv s seen rest wl0.
Proof.
  intros s seen t rest wl0 (K1 & K2 & K3 & K4) Hs. apply memn_In in Hs. split; [|split; [|split]]; auto.
  - intros u w Hu Hin. destruct (K1 u w Hu Hin) as [D|[Hse [Ht|Hr]]]; auto.
    exfalso. subst u. specialize (K2 t Hs). rewrite (lv_do s t Hu) in K2. discriminate.
  - intros x Hx. destruct (K4 x Hx) as [H|[H|H]]; auto. subst x. left; assumption.
Qed.

Lemma abort_loop_kinv : forall f wl al seen s lanes wl0,
  sym s -> kinv s seen wl wl0 ->
  let r := abort_loop f wl al seen s lanes in
  oof (fst (fst r)) = true \/ kinv (fst (fst r)) (snd (fst r)) [] wl0.
Proof.
  induction f; intros wl al seen s lanes wl0 Hsym H.
  - simpl. destruct wl; [right; exact H | left; reflexivity].
  - destruct wl as [|t rest]; [right; exact H|].
    rewrite abort_loop_S. destruct (memn t seen) eqn:Em.
    + apply IHf; [assumption | eapply kinv_skip; eauto].
    + apply IHf.
      * eapply sym_shapes; [|exact Hsym]. apply frame_abort_write.
      * apply kinv_step; assumption.
Qed.

Definition dead_seen (s : state) (seen : list nat) : Prop := forall u, In u seen -> lv s u = false.

Lemma kgood_kinv : forall s seen wl, kgood s -> dead_seen s seen -> kinv s seen wl (wl ++ seen).
Proof.
  intros s seen wl [A B] C. split; [intros u w Hu Hw; left; eapply A; eauto | split; [assumption | split; [assumption|]]].
  intros x Hx. apply in_app_or in Hx. tauto.
Qed.

Lemma kinv_kgood : forall s seen base, kinv s seen [] base -> kgood s /\ dead_seen s seen /\ (forall x, In x base -> In x seen).
Proof.
  intros s seen base (K1 & K2 & K3 & K4). split; [split; [|assumption] | split; [assumption|]].
  - intros t w Ht Hw. destruct (K1 t w Ht Hw) as [D|[_ []]]; assumption.
  - intros x Hx. destruct (K4 x Hx) as [H|[]]; assumption.
Qed.

(* one call of abortLanes: the invariant survives and everything selected or seen before is dead afterwards *)
Lemma abort_lanes_kgood : forall d kill al seen s,
  sym s -> kgood s -> dead_seen s seen ->
  let s' := abort_lanes d kill al seen s in
  oof s' = true \/
  (kgood s' /\ forall u, In u seen \/ In u (select_abort (tasks s) kill) -> lv s' u = false).
Proof.
  induction d; intros kill al seen s Hsym G S; [left; reflexivity|].
  cbv zeta. rewrite abort_lanes_S. destruct (select_abort (tasks s) kill) eqn:Es.
  { right. split; [assumption|]. intros u [H|[]]. apply S; assumption. }
  rewrite <- Es.
  pose proof (abort_loop_kinv (loop_fuel s (select_abort (tasks s) kill)) (select_abort (tasks s) kill) (kill ++ al) seen s []
                              _ Hsym (kgood_kinv s seen _ G S)) as H.
  pose proof (abort_loop_P (frame s) (fun s0 t H => frame_trans _ _ _ H (frame_abort_write s0 t))
                           (fun s0 H => frame_trans _ _ _ H (frame_oof s0))
                           (loop_fuel s (select_abort (tasks s) kill)) (select_abort (tasks s) kill) (kill ++ al) seen s []
                           (frame_refl s)) as F.
  destruct (abort_loop _ _ _ _ _ _) as [[s1 seen1] lanes]; cbn [fst snd abort_cont] in *.
  destruct H as [O|K].
  - left. destruct lanes; [assumption|]. apply (frame_abort_lanes d (n0 :: lanes) (kill ++ al) seen1 s1). assumption.
  - apply kinv_kgood in K. destruct K as (G1 & S1 & Sub).
    assert (Base : forall u, In u seen \/ In u (select_abort (tasks s) kill) -> In u seen1).
    { intros u Hu. apply Sub. apply in_or_app. tauto. }
    destruct lanes as [|l0 lanes].
    + right. split; [assumption|]. intros u Hu. apply S1. apply Base. assumption.
    + assert (Hsym1 : sym s1) by (eapply sym_shapes; [apply F | assumption]).
      destruct (IHd (l0 :: lanes) (kill ++ al) seen1 s1 Hsym1 G1 S1) as [O|[G2 D2]]; [left; assumption|].
      right. split; [assumption|]. intros u Hu. apply D2. left. apply Base. assumption.
Qed.

Lemma abort_tasks_kgood : forall d wl al s,
  sym s -> kgood s ->
  let s' := abort_tasks d wl al [] s in
  oof s' = true \/ kgood s'.
Proof.
  intros d wl al s Hsym G. cbv zeta. rewrite abort_tasks_eq.
  pose proof (abort_loop_kinv (loop_fuel s wl) wl al [] s [] _ Hsym (kgood_kinv s [] _ G (fun u F => match F with end))) as H.
  pose proof (abort_loop_P (frame s) (fun s0 t H => frame_trans _ _ _ H (frame_abort_write s0 t))
                           (fun s0 H => frame_trans _ _ _ H (frame_oof s0))
                           (loop_fuel s wl) wl al [] s [] (frame_refl s)) as F.
  destruct (abort_loop _ _ _ _ _ _) as [[s1 seen1] lanes]; cbn [fst snd abort_cont] in *.
  destruct H as [O|K].
  - left. destruct lanes; [assumption|]. apply (frame_abort_lanes d (n :: lanes) al seen1 s1). assumption.
  - apply kinv_kgood in K. destruct K as (G1 & S1 & _).
    destruct lanes as [|l0 lanes]; [right; assumption|].
    assert (Hsym1 : sym s1) by (eapply sym_shapes; [apply F | assumption]).
    destruct (abort_lanes_kgood d (l0 :: lanes) al seen1 s1 Hsym1 G1 S1) as [O|[G2 _]]; [left | right]; assumption.
Qed.

(* ------------------------------------------------------------------ the failing task is always selected by abortLanes *)
Lemma scan_lanes_hit : forall kill tl live hl hd,
  fst (fst (scan_lanes kill tl live hl hd)) = existsb (fun x => memn x kill) tl.
Proof.
  induction tl as [|a tl IH]; simpl; intros; [reflexivity|].
  destruct (memn a kill); [reflexivity|]. destruct live; apply IH.
Qed.

Lemma scan_lanes_hl : forall kill tl live hl hd x,
  In x (snd (fst (scan_lanes kill tl live hl hd))) -> In x hl \/ memn x kill = false.
Proof.
  induction tl as [|a tl IH]; simpl; intros live hl hd x H; [left; assumption|].
  destruct (memn a kill) eqn:E; [left; assumption|].
  destruct live.
  - apply IH in H. destruct H as [[<-|H]|H]; auto.
  - apply IH in H. assumption.
Qed.

Lemma scan_tasks_spec : forall kill l i lt hl hd,
  (forall x, In x (snd (fst (scan_tasks kill l i lt hl hd))) -> In x hl \/ memn x kill = false) /\
  (forall j, In j lt -> In j (fst (fst (scan_tasks kill l i lt hl hd)))) /\
  (forall k, k < length l -> existsb (fun x => memn x kill) (lanes_of (nth k l dummy)) = true ->
             In (i + k) (fst (fst (scan_tasks kill l i lt hl hd)))).
Proof.
  induction l as [|tk l IH]; intros i lt hl hd.
  - simpl. split; [auto | split; [intros j Hj; apply in_rev in Hj; assumption | intros k Hk; lia]].
  - simpl scan_tasks.
    pose proof (scan_lanes_hit kill (lanes_of tk) (is_live tk) hl hd) as Hh.
    pose proof (scan_lanes_hl kill (lanes_of tk) (is_live tk) hl hd) as Hl.
    destruct (scan_lanes kill (lanes_of tk) (is_live tk) hl hd) as [[hit hl'] hd']; cbn [fst snd] in *.
    destruct (IH (S i) (if hit then i :: lt else lt) hl' hd') as (I1 & I2 & I3).
    split; [|split].
    + intros x Hx. destruct (I1 x Hx) as [H|H]; auto.
    + intros j Hj. apply I2. destruct hit; [right|]; assumption.
    + intros [|k] Hk He.
      * simpl in He. rewrite <- Hh in He. subst hit. rewrite Nat.add_0_r. apply I2. rewrite He. left; reflexivity.
      * replace (i + S k) with (S i + k) by lia. apply I3; [simpl in Hk; lia | exact He].
Qed.

Lemma self_selected : forall l w, w < length l -> In w (select_abort l (lanes_of (nth w l dummy))).
Proof.
  intros l w Hw. unfold select_abort.
  set (kill := lanes_of (nth w l dummy)).
  destruct (scan_tasks_spec kill l 0 [] [] []) as (S1 & _ & S3).
  destruct (scan_tasks kill l 0 [] [] []) as [[LT HL] HD]; cbn [fst snd] in *.
  assert (Self : forall x, In x kill -> memn x kill = true) by (intros x Hx; apply memn_In; assumption).
  apply filter_In. split.
  - apply (S3 w Hw). fold kill.
    assert (Ne : exists x r, kill = x :: r).
    { unfold kill, lanes_of. destruct (t_lanes (nth w l dummy)) as [|a r]; [exists 0, [] | exists a, r]; reflexivity. }
    destruct Ne as (x & r & E). rewrite E. simpl. rewrite Nat.eqb_refl. reflexivity.
  - fold kill. apply negb_true_iff. destruct (existsb _ kill) eqn:Ee; [|reflexivity].
    apply existsb_exists in Ee. destruct Ee as (x & Hx & Hb). apply andb_true_iff in Hb. destruct Hb as [Hb _].
    apply memn_In in Hb. destruct (S1 x Hb) as [[]|F]. rewrite (Self x Hx) in F. discriminate.
Qed.

(* ------------------------------------------------------------------ events *)
Definition kfull (s : state) : Prop := oof s = true \/ kgood s.

Lemma lv_eq_tasks : forall s s' u, tasks s' = tasks s -> lv s' u = lv s u.
Proof. intros s s' u E. unfold lv, get. rewrite E. reflexivity. Qed.

Lemma kgood_try_undo : forall s t, kgood s -> st s t = Abort -> kgood (try_undo s t).
Proof.
  intros s t G Hs. unfold try_undo. des_if; apply kgood_set_status_dead; auto; try discriminate;
    apply (lv_false_of s t Abort); auto; discriminate.
Qed.

Lemma kgood_ensure_rest : forall s t, kgood s -> kgood (ensure_rest s t).
Proof.
  intros s t G. unfold ensure_rest.
  destruct (ready (st s t)) eqn:Er; [assumption|].
  destruct (seqb (st s t) Wait) eqn:Ew; [assumption|].
  destruct (must_wait s t); [assumption|].
  destruct (seqb (st s t) Undo && negb (t_undo (get s t))) eqn:Eu.
  { apply andb_true_iff in Eu. destruct Eu as [Eu _]. apply seqb_eq in Eu.
    apply kgood_set_status_dead; [assumption | discriminate | apply (lv_false_of s t Undo); auto; discriminate]. }
  des_if; [assumption|].
  unfold run.
  set (s1 := match t_st (get s t) with Do => set_status s t Doing | Undo => set_status s t Undoing | _ => s end).
  assert (G1 : kgood s1).
  { unfold s1. change (t_st (get s t)) with (st s t). destruct (st s t) eqn:Es; try assumption.
    - apply kgood_set_status; [assumption | discriminate | intros _; left; reflexivity].
    - apply kgood_set_status_dead; [assumption | discriminate | apply (lv_false_of s t Undo); auto; discriminate]. }
  apply (kgood_tasks_eq (with_tasks s1 (upd (tasks s1) t (fun tk => set_at tk 0)))); [reflexivity|].
  apply kgood_irrel; auto.
Qed.

Lemma kgood_ensure_one : forall s t, kgood s -> kgood (ensure_one s t).
Proof.
  intros s t G. unfold ensure_one. destruct (panicked s); [assumption|]. destruct (memn t (running s)); [assumption|].
  destruct (seqb (st s t) Abort) eqn:Ea.
  - apply seqb_eq in Ea. apply kgood_ensure_rest, kgood_try_undo; assumption.
  - apply kgood_ensure_rest; assumption.
Qed.

Lemma kgood_ensure_pass : forall order s, kgood s -> kgood (ensure_pass s order).
Proof. unfold ensure_pass; induction order; simpl; intros; auto using kgood_ensure_one. Qed.

Lemma kgood_ready_detect : forall s, kgood s -> kgood (ready_detect s).
Proof. intros s G. apply (kgood_tasks_eq s); [|assumption]. unfold ready_detect, with_cready, with_panicked; repeat des_if; reflexivity. Qed.
Lemma tasks_ready_detect : forall s, tasks (ready_detect s) = tasks s.
Proof. intros; unfold ready_detect, with_cready, with_panicked; repeat des_if; reflexivity. Qed.

Lemma lv_unr : forall s t, unr (st s t) = true -> (st s t = Doing /\ lv s t = true) \/ (st s t <> Doing /\ lv s t = false).
Proof.
  intros s t H. destruct (st s t) eqn:Es; try discriminate H.
  - left. split; [reflexivity|]. unfold lv, is_live, eff_status. change (t_st (get s t)) with (st s t). rewrite Es. reflexivity.
  - right. split; [discriminate | apply (lv_false_of s t Abort); auto; discriminate].
  - right. split; [discriminate | apply (lv_false_of s t Undoing); auto; discriminate].
Qed.

Lemma kfull_finish : forall s t o,
  inv s -> sym s -> kgood s -> (o = OWait true -> st s t <> Doing) -> kfull (finish s t o).
Proof.
  intros s t o I Hsym G Hw. unfold finish.
  destruct (panicked s) eqn:Ep; [right; assumption|].
  destruct (memn t (running s)) eqn:Em; simpl negb; cbv iota; [|right; assumption].
  apply memn_In in Em. destruct I as [_ _ Hr]. pose proof (Hr t Em) as Ut.
  set (s0 := remove_running s t).
  assert (G0 : kgood s0) by exact G.
  assert (U0 : unr (st s0 t) = true) by exact Ut.
  assert (L0 : t < length (tasks s0)) by (apply in_range_st; intros E; rewrite E in U0; discriminate).
  destruct o.
  - right. destruct (st s0 t) eqn:Es; try assumption.
    + apply kgood_set_status; [assumption | discriminate | intros _; left; reflexivity].
    + apply kgood_set_status_dead; [assumption | discriminate | apply (lv_false_of s0 t Abort); auto; discriminate].
    + apply kgood_set_status_dead; [assumption | discriminate | apply (lv_false_of s0 t Undoing); auto; discriminate].
  - (* error path *)
    unfold abort_lanes_top.
    set (s1 := abort_lanes (depth_fuel s0) (lanes_of (get s0 t)) [] [] s0).
    destruct (abort_lanes_kgood (depth_fuel s0) (lanes_of (get s0 t)) [] [] s0 Hsym G0 (fun u F => match F with end)) as [O|[G1 D1]];
      fold s1 in O || fold s1 in G1, D1.
    + left. apply (frame_set_status (ready_detect s1) t Error). rewrite oof_ready_detect. exact O.
    + right. apply kgood_set_status_dead; [apply kgood_ready_detect; exact G1 | discriminate|].
      rewrite (lv_eq_tasks s1 (ready_detect s1) t (tasks_ready_detect s1)).
      apply D1. right. apply self_selected. exact L0.
  - right. destruct (seqb (st s0 t) Abort) eqn:Ea.
    + apply seqb_eq in Ea. apply kgood_try_undo; assumption.
    + des_if; [assumption|]. apply kgood_irrel; auto.
  - right. destruct (seqb (st s0 t) Abort) eqn:Ea.
    + apply seqb_eq in Ea. apply kgood_try_undo; assumption.
    + unfold set_to_wait. change (panicked s0) with (panicked s). rewrite Ep, Ea.
      set (ws := if undone then Undone else Done).
      set (s2 := with_tasks s0 (upd (tasks s0) t (fun tk => set_waited tk ws))).
      assert (NW : st s0 t <> Wait) by (intros E; rewrite E in U0; discriminate).
      assert (G2 : kgood s2).
      { apply kgood_irrel; auto; [intros tk _; unfold ws; destruct undone; reflexivity | intros E; contradiction]. }
      assert (E2 : st s2 t = st s0 t) by (unfold s2; apply st_irrel; reflexivity).
      assert (Wd : t_waited (get s2 t) = ws) by (unfold get, s2; cbn [tasks with_tasks]; rewrite nth_upd_same by assumption; reflexivity).
      destruct (tasks_change_st s2 t Wait) as [E|W]; [apply (kgood_tasks_eq s2); assumption|].
      eapply kgood_wrote; eauto; [discriminate|].
      intros Lt. left. unfold newlive. simpl seqb. cbv iota. rewrite Wd.
      assert (Hd : st s0 t = Doing).
      { destruct (lv_unr s0 t U0) as [[A _]|[_ B]]; [assumption|].
        rewrite <- (lv_ext s0 s2 t) in B; [congruence | assumption |].
        (* the waited status changed, but t is not in Wait, so liveness did not *)
        exfalso. unfold lv, is_live, eff_status in Lt, B. change (t_st (get s2 t)) with (st s2 t) in Lt.
        rewrite E2 in Lt. change (t_st (get s0 t)) with (st s0 t) in B.
        apply seqb_neq in NW. rewrite NW in Lt, B. congruence. }
      unfold ws. destruct undone; [exfalso; apply (Hw eq_refl); exact Hd | reflexivity].
Qed.

Lemma kgood_resolve : forall s t, kgood s -> kgood (resolve_wait s t).
Proof.
  intros s t G. unfold resolve_wait. destruct (seqb (st s t) Wait) eqn:E; [|assumption].
  apply seqb_eq in E. pose proof (proj2 G t) as Wd.
  apply kgood_set_status; auto.
  - intros F. rewrite F in Wd. discriminate.
  - intros Lt. left. unfold lv, is_live, eff_status in Lt. change (t_st (get s t)) with (st s t) in Lt. rewrite E in Lt.
    simpl in Lt. unfold newlive. destruct (t_waited (get s t)); try discriminate Wd; try discriminate Lt; reflexivity.
Qed.

Lemma kfull_step : forall s e,
  inv s -> sym s -> (forall t, e = Finish t (OWait true) -> st s t <> Doing) -> kfull s -> kfull (step s e).
Proof.
  intros s e I Hsym Hw [O|G].
  { left. apply (frame_step s e). exact O. }
  destruct e; simpl.
  - right. apply kgood_ensure_pass; assumption.
  - apply kfull_finish; auto. intros ->. apply Hw. reflexivity.
  - destruct (panicked s); [right; assumption|]. unfold abort_change.
    destruct (abort_tasks_kgood (depth_fuel s) (seq 0 (length (tasks s))) [] s Hsym G) as [O|G1].
    + left. rewrite oof_ready_detect. exact O.
    + right. apply kgood_ready_detect. exact G1.
  - right. exact G.
  - right. destruct (panicked s); [assumption|]. apply kgood_resolve; assumption.
Qed.

(* histories of the property: user aborts on unready changes only; a do handler that answers Wait waits to become
   Done (an undo handler may wait for either) *)
Fixpoint tame (s : state) (es : list event) : Prop :=
  match es with
  | [] => True
  | e :: r => (e = UAbort -> cready s = false) /\ (forall t, e = Finish t (OWait true) -> st s t <> Doing) /\
              tame (step s e) r
  end.

Lemma tame_guarded : forall es s, tame s es -> guarded s es.
Proof. induction es; simpl; intros s H; [exact I|]. destruct H as (A & _ & C). split; auto. Qed.

Lemma kfull_run_events : forall es s, tame s es -> inv s -> sym s -> kfull s -> kfull (run_events s es).
Proof.
  unfold run_events. induction es; simpl; intros s Ht I Hsym F; [assumption|].
  destruct Ht as (T1 & T2 & T3). apply IHes; auto.
  - apply inv_step; assumption.
  - eapply sym_shapes; [apply frame_step | assumption].
  - apply kfull_step; assumption.
Qed.

Lemma get_init : forall g t,
  t_st (get (init_state g) t) <> Doing /\ t_waited (get (init_state g) t) = Hold /\
  wts (init_state g) t = waits_g g t /\ (t < length g -> t_st (get (init_state g) t) = Do).
Proof.
  intros g t. unfold wts, get, waits_g. cbn [tasks init_state].
  destruct (Nat.lt_ge_cases t (length g)) as [L|L].
  - rewrite init_nth by assumption. destruct (nth t g ([], [], false)) as [[a b] c]. cbn. repeat split; auto; discriminate.
  - rewrite nth_overflow by (unfold init_tasks; rewrite map_length, seq_length; assumption).
    rewrite (nth_overflow g) by assumption. cbn. repeat split; auto; try discriminate. lia.
Qed.

(* the graph is closed: wait edges point to tasks of the change *)
Definition closed (g : list tdesc) : Prop := forall t w, In w (waits_g g t) -> w < length g.

Lemma kgood_init : forall g, closed g -> kgood (init_state g).
Proof.
  intros g Hc. split.
  - intros t w Ht Hin. destruct (get_init g t) as (_ & _ & E & _). rewrite E in Hin.
    pose proof (Hc t w Hin) as L. destruct (get_init g w) as (_ & _ & _ & D).
    unfold lv, is_live, eff_status. rewrite (D L). reflexivity.
  - intros t. destruct (get_init g t) as (_ & E & _). rewrite E. reflexivity.
Qed.

(* ------------------------------------------------------------------ the graph seen from a reachable state *)
Definition rsym (s : state) : Prop := forall t h, In h (hts s t) -> In t (wts s h).

Lemma rsym_shapes : forall s s', shapes s' = shapes s -> rsym s -> rsym s'.
Proof. intros s s' E H t h. rewrite wts_shapes, hts_shapes, E, <- wts_shapes, <- hts_shapes. apply H. Qed.

Lemma rsym_init : forall g, rsym (init_state g).
Proof.
  intros g t h Hh. destruct (get_init g h) as (_ & _ & E & _). rewrite E.
  unfold hts, get in Hh. cbn [tasks init_state] in Hh.
  destruct (Nat.lt_ge_cases t (length g)) as [L|L].
  - rewrite init_nth in Hh by assumption. destruct (nth t g ([], [], false)) as [[a b] c]. cbn [t_halts] in Hh.
    unfold halts_of in Hh. apply filter_In in Hh. destruct Hh as [_ Hm]. apply memn_In in Hm. exact Hm.
  - rewrite nth_overflow in Hh by (unfold init_tasks; rewrite map_length, seq_length; assumption). destruct Hh.
Qed.

Lemma wts_frame : forall s s' t, shapes s' = shapes s -> wts s' t = wts s t.
Proof. intros. rewrite !wts_shapes. congruence. Qed.

(* ------------------------------------------------------------------ when the Ensure loop body fires *)
Definition fires (s : state) (t : nat) : Prop :=
  st (ensure_one s t) t <> st s t \/ In t (running (ensure_one s t)).

Lemma st_run : forall s t, st (run s t) t = st s t \/ st (run s t) t = Doing \/ st (run s t) t = Undoing.
Proof.
  intros s t. unfold run.
  set (s1 := match t_st (get s t) with Do => set_status s t Doing | Undo => set_status s t Undoing | _ => s end).
  assert (E : st (with_slog (with_running (with_tasks s1 (upd (tasks s1) t (fun tk => set_at tk 0)))
                                          (t :: running (with_tasks s1 (upd (tasks s1) t (fun tk => set_at tk 0)))))
                            (mkSR t (match t_st (get s t) with Undo | Undoing => true | _ => false end)
                                  (map (st s) (if match t_st (get s t) with Undo | Undoing => true | _ => false end
                                               then t_halts (get s t) else t_waits (get s t)))
                                  (gate_open s t) (match t_st (get s t) with Do | Undo => true | _ => false end)
                             :: slog (with_tasks s1 (upd (tasks s1) t (fun tk => set_at tk 0))))) t = st s1 t).
  { change (st (with_tasks s1 (upd (tasks s1) t (fun tk => set_at tk 0))) t = st s1 t). apply st_irrel. reflexivity. }
  rewrite E. unfold s1. destruct (t_st (get s t)); auto.
  - destruct (st_set_status s t Doing t) as [A|[_ A]]; rewrite A; auto.
  - destruct (st_set_status s t Undoing t) as [A|[_ A]]; rewrite A; auto.
Qed.

Lemma st_ensure_rest : forall s t,
  st (ensure_rest s t) t = st s t \/ st (ensure_rest s t) t = Done \/ st (ensure_rest s t) t = Doing \/
  st (ensure_rest s t) t = Undoing.
Proof.
  intros s t. unfold ensure_rest. repeat des_if; auto.
  - destruct (st_set_status s t Done t) as [A|[_ A]]; rewrite A; auto.
  - destruct (st_run s t) as [A|[A|A]]; rewrite A; auto.
Qed.

Lemma fires_abort : forall s t, inv s -> running s = [] -> st s t = Abort -> fires s t.
Proof.
  intros s t I Hr Hs. left. unfold ensure_one. destruct I as [Hp Hc Hrun]. rewrite Hp, Hr. simpl memn. cbv iota.
  rewrite Hs. simpl seqb. cbv iota.
  destruct (try_undo_result s t (mkInv s Hp Hc Hrun) Hs) as [R _].
  destruct (st_ensure_rest (try_undo s t) t) as [A|[A|[A|A]]]; rewrite A; try discriminate.
  destruct R as [R|R]; rewrite R; discriminate.
Qed.

Lemma fires_run : forall s t,
  panicked s = false -> running s = [] -> ready (st s t) = false -> st s t <> Wait -> st s t <> Abort ->
  must_wait s t = false -> (st s t = Undo -> t_undo (get s t) = true) -> gate_open s t = true -> fires s t.
Proof.
  intros s t Hp Hr Hrd Hw Ha Hm Hu Hg. right. unfold ensure_one. rewrite Hp, Hr. simpl memn. cbv iota.
  apply seqb_neq in Ha. rewrite Ha. unfold ensure_rest. rewrite Hrd. apply seqb_neq in Hw. rewrite Hw, Hm.
  assert (E : seqb (st s t) Undo && negb (t_undo (get s t)) = false).
  { destruct (seqb (st s t) Undo) eqn:E1; [|reflexivity]. apply seqb_eq in E1. rewrite (Hu E1). reflexivity. }
  rewrite E, Hg. simpl negb. cbv iota. unfold run. cbn [running with_slog with_running]. left; reflexivity.
Qed.

Lemma st_set_status_eff2 : forall s t nw,
  panicked s = false -> t < length (tasks s) -> st s t <> Abort -> st (set_status s t nw) t = nw.
Proof.
  intros s t nw Hp L Hn. unfold set_status. rewrite Hp.
  apply seqb_neq in Hn. rewrite Hn, andb_false_r.
  destruct (tasks_change_st s t nw) as [E|W]; [|eapply wrote_st_same; eauto].
  unfold change_st in *. destruct (seqb (st s t) nw) eqn:Eq; [apply seqb_eq in Eq; assumption|].
  exfalso. revert E. unfold with_panicked, with_cready, with_tasks. repeat des_if; cbn [tasks]; intros E;
    (assert (X : st s t = nw);
     [ unfold st, get; rewrite <- E; rewrite nth_upd_same by assumption; reflexivity
     | rewrite X, seqb_refl in Eq; discriminate ]).
Qed.

Lemma fires_noundo : forall s t,
  panicked s = false -> running s = [] -> st s t = Undo -> must_wait s t = false -> t_undo (get s t) = false ->
  fires s t.
Proof.
  intros s t Hp Hr Hs Hm Hu. left. unfold ensure_one. rewrite Hp, Hr. simpl memn. cbv iota.
  rewrite Hs. simpl seqb. cbv iota. unfold ensure_rest. rewrite Hs, Hm. simpl ready. simpl seqb. cbv iota.
  rewrite Hu. simpl. rewrite st_set_status_eff2; [discriminate | assumption | | rewrite Hs; discriminate].
  apply in_range_st. rewrite Hs. discriminate.
Qed.

(* ------------------------------------------------------------------ choosing the task that fires *)
Lemma min_elem : forall (f : nat -> nat) (l : list nat), l <> [] -> exists x, In x l /\ forall y, In y l -> f x <= f y.
Proof.
  induction l as [|a l IH]; intros H; [congruence|].
  destruct l as [|b l'].
  - exists a. split; [left; reflexivity|]. intros y [<-|[]]. lia.
  - destruct IH as (x & Hx & Hm); [discriminate|].
    destruct (Nat.le_gt_cases (f a) (f x)).
    + exists a. split; [left; reflexivity|]. intros y [<-|Hy]; [lia|]. specialize (Hm y Hy). lia.
    + exists x. split; [right; assumption|]. intros y [<-|Hy]; [lia | auto].
Qed.

Lemma max_elem : forall (f : nat -> nat) (l : list nat), l <> [] -> exists x, In x l /\ forall y, In y l -> f y <= f x.
Proof.
  induction l as [|a l IH]; intros H; [congruence|].
  destruct l as [|b l'].
  - exists a. split; [left; reflexivity|]. intros y [<-|[]]. lia.
  - destruct IH as (x & Hx & Hm); [discriminate|].
    destruct (Nat.le_gt_cases (f x) (f a)).
    + exists a. split; [left; reflexivity|]. intros y [<-|Hy]; [lia|]. specialize (Hm y Hy). lia.
    + exists x. split; [right; assumption|]. intros y [<-|Hy]; [lia | auto].
Qed.

Lemma not_all_ready_ex : forall l, all_ready l = false -> exists t, t < length l /\ ready (stl l t) = false.
Proof.
  induction l as [|a l IH]; simpl; intros H; [discriminate|].
  destruct (ready (t_st a)) eqn:E.
  - simpl in H. destruct (IH H) as (t & L & R). exists (S t). split; [lia | exact R].
  - exists 0. split; [lia | exact E].
Qed.

Definition ids (s : state) : list nat := seq 0 (length (tasks s)).

Lemma in_ids : forall s t, In t (ids s) <-> t < length (tasks s).
Proof. intros; unfold ids; rewrite in_seq; lia. Qed.

Lemma sel_in : forall (p : nat -> bool) s t, In t (filter p (ids s)) <-> t < length (tasks s) /\ p t = true.
Proof. intros; rewrite filter_In, in_ids; tauto. Qed.

(* the heart of no-deadlock: a state that satisfies the invariants, has no tomb, no task in Wait and all gates open *)
Lemma stuck_free : forall s (rk : nat -> nat),
  inv s -> kgood s -> rsym s ->
  (forall t w, In w (wts s t) -> rk w < rk t) ->
  running s = [] -> (forall t, st s t <> Wait) -> (forall t, gate_open s t = true) ->
  all_ready (tasks s) = false ->
  exists t, t < length (tasks s) /\ fires s t.
Proof.
  intros s rk I [K _] Rs Hrk Hr Hnw Hg Hna.
  pose proof (i_np s I) as Hp.
  (* 1. a task in Abort *)
  destruct (filter (fun t => seqb (st s t) Abort) (ids s)) as [|a la] eqn:EA.
  2:{ assert (Ha : In a (filter (fun t => seqb (st s t) Abort) (ids s))) by (rewrite EA; left; reflexivity).
      apply sel_in in Ha. destruct Ha as [L E]. apply seqb_eq in E. exists a. split; [assumption | apply fires_abort; assumption]. }
  assert (NA : forall t, st s t <> Abort).
  { intros t E. assert (In t (filter (fun t => seqb (st s t) Abort) (ids s))).
    { apply sel_in. split; [apply in_range_st; rewrite E; discriminate | rewrite E; reflexivity]. }
    rewrite EA in H. destruct H. }
  (* 2. a task left in Doing / Undoing without a tomb *)
  destruct (filter (fun t => seqb (st s t) Doing || seqb (st s t) Undoing) (ids s)) as [|a la'] eqn:ED.
  2:{ assert (Ha : In a (filter (fun t => seqb (st s t) Doing || seqb (st s t) Undoing) (ids s))) by (rewrite ED; left; reflexivity).
      apply sel_in in Ha. destruct Ha as [L E]. exists a. split; [assumption|].
      apply fires_run; auto.
      - destruct (st s a); try discriminate E; reflexivity.
      - unfold must_wait. destruct (st s a); try discriminate E; reflexivity.
      - intros F. rewrite F in E. discriminate. }
  assert (ND : forall t, st s t <> Doing /\ st s t <> Undoing).
  { intros t. split; intros E;
      (assert (H : In t (filter (fun t => seqb (st s t) Doing || seqb (st s t) Undoing) (ids s)));
       [apply sel_in; split; [apply in_range_st; rewrite E; discriminate | rewrite E; reflexivity] | rewrite ED in H; destruct H]). }
  (* 3. tasks in Do: the one of least rank has all its wait tasks Done *)
  destruct (filter (fun t => seqb (st s t) Do) (ids s)) as [|a ldo] eqn:EDo.
  2:{ destruct (min_elem rk (a :: ldo)) as (x & Hx & Hmin); [discriminate|].
      rewrite <- EDo in Hx, Hmin. apply sel_in in Hx. destruct Hx as [L E]. apply seqb_eq in E.
      exists x. split; [assumption|].
      apply fires_run; auto; try (rewrite E; try reflexivity; discriminate).
      unfold must_wait. rewrite E.
      destruct (existsb (fun w => negb (seqb (st s w) Done)) (t_waits (get s x))) eqn:Ee; [|reflexivity].
      exfalso. apply existsb_exists in Ee. destruct Ee as (w & Hw & Hn). apply negb_true_iff, seqb_neq in Hn.
      pose proof (K x w E Hw) as Lw. pose proof (lv_range s w Lw) as Lr.
      unfold lv, is_live, eff_status in Lw. change (t_st (get s w)) with (st s w) in Lw.
      destruct (st s w) eqn:Es; simpl in Lw; try discriminate Lw; try congruence;
        try (exfalso; apply (Hnw w Es)); try (destruct (ND w) as [F _]; congruence).
      (* w in Do: it would have smaller rank than the minimum *)
      assert (In w (filter (fun t => seqb (st s t) Do) (ids s))) by (apply sel_in; split; [assumption | rewrite Es; reflexivity]).
      specialize (Hmin w H). specialize (Hrk x w Hw). lia. }
  assert (NDo : forall t, st s t <> Do).
  { intros t E. assert (H : In t (filter (fun t => seqb (st s t) Do) (ids s)))
      by (apply sel_in; split; [apply in_range_st; rewrite E; discriminate | rewrite E; reflexivity]).
    rewrite EDo in H. destruct H. }
  (* 4. only tasks in Undo are unready: the one of greatest rank has all its halt tasks ready *)
  destruct (not_all_ready_ex (tasks s) Hna) as (t0 & L0 & R0). change (stl (tasks s) t0) with (st s t0) in R0.
  assert (U0 : st s t0 = Undo).
  { destruct (st s t0) eqn:Es; try discriminate R0; try reflexivity; exfalso.
    - apply (NDo t0 Es). - destruct (ND t0) as [F _]. apply F, Es. - apply (NA t0 Es).
    - destruct (ND t0) as [_ F]. apply F, Es. - apply (Hnw t0 Es). }
  destruct (max_elem rk (filter (fun t => seqb (st s t) Undo) (ids s))) as (x & Hx & Hmax).
  { intros F. assert (H : In t0 (filter (fun t => seqb (st s t) Undo) (ids s))) by (apply sel_in; split; [assumption | rewrite U0; reflexivity]).
    rewrite F in H. destruct H. }
  apply sel_in in Hx. destruct Hx as [L E]. apply seqb_eq in E.
  assert (Hm : must_wait s x = false).
  { unfold must_wait. rewrite E.
    destruct (existsb (fun h => negb (ready (st s h))) (t_halts (get s x))) eqn:Ee; [|reflexivity].
    exfalso. apply existsb_exists in Ee. destruct Ee as (h & Hh & Hn). apply negb_true_iff in Hn.
    assert (Uh : st s h = Undo).
    { destruct (st s h) eqn:Es; try discriminate Hn; try reflexivity; exfalso.
      - apply (NDo h Es). - destruct (ND h) as [F _]. apply F, Es. - apply (NA h Es).
      - destruct (ND h) as [_ F]. apply F, Es. - apply (Hnw h Es). }
    assert (Hin : In h (filter (fun t => seqb (st s t) Undo) (ids s)))
      by (apply sel_in; split; [apply in_range_st; rewrite Uh; discriminate | rewrite Uh; reflexivity]).
    specialize (Hmax h Hin). pose proof (Hrk h x (Rs x h Hh)). lia. }
  exists x. split; [assumption|].
  destruct (t_undo (get s x)) eqn:Eu.
  - apply fires_run; auto; try (rewrite E; try reflexivity; discriminate).
  - apply fires_noundo; auto.
Qed.

Lemma shapes_run_events : forall es s0, shapes (run_events s0 es) = shapes s0.
Proof.
  unfold run_events. induction es; simpl; intros s0; [reflexivity|]. rewrite IHes. apply frame_step.
Qed.

(* C01: no task is stranded. For every closed graph whose wait edges are acyclic (they go along a topological
   order), every tame history in which no fuel bound of the model was hit: in the reached state, if no handler runs,
   no task sits in Wait and no task is scheduled for later, then either every task is ready or the Ensure loop body
   fires for some task (it writes the task's status or starts its handler). *)
Theorem no_deadlock : forall (g : list tdesc) (rk : nat -> nat) (es : list event),
  g <> [] -> closed g -> (forall t w, In w (waits_g g t) -> rk w < rk t) ->
  tame (init_state g) es ->
  let s := run_events (init_state g) es in
  oof s = false -> running s = [] -> (forall t, st s t <> Wait) -> (forall t, gate_open s t = true) ->
  all_ready (tasks s) = true \/ exists t, t < length (tasks s) /\ fires s t.
Proof.
  intros g rk es Hg Hc Hrk Ht s Ho Hr Hnw Hgate.
  destruct (all_ready (tasks s)) eqn:Ea; [left; reflexivity | right].
  assert (I : inv s) by (apply inv_run_events; [apply tame_guarded; assumption | apply inv_init; assumption]).
  assert (Fr : shapes s = shapes (init_state g)).
  { apply shapes_run_events. }
  destruct (kfull_run_events es (init_state g) Ht (inv_init g Hg) (sym_init g) (or_intror (kgood_init g Hc))) as [O|K];
    [fold s in O; congruence | fold s in K].
  apply (stuck_free s rk); auto.
  - eapply rsym_shapes; [exact Fr | apply rsym_init].
  - intros t w Hw. rewrite (wts_frame (init_state g) s t Fr) in Hw.
    destruct (get_init g t) as (_ & _ & E & _). rewrite E in Hw. exact (Hrk t w Hw).
Qed.

(* the same without the fuel hypothesis (TaskEngineFuel.oof_never) *)
Theorem no_deadlock_total : forall (g : list tdesc) (rk : nat -> nat) (es : list event),
  g <> [] -> closed g -> (forall t w, In w (waits_g g t) -> rk w < rk t) ->
  tame (init_state g) es ->
  let s := run_events (init_state g) es in
  running s = [] -> (forall t, st s t <> Wait) -> (forall t, gate_open s t = true) ->
  all_ready (tasks s) = true \/ exists t, t < length (tasks s) /\ fires s t.
Proof. intros g rk es Hg Hc Hrk Ht s. apply (no_deadlock g rk es); auto. apply oof_never. Qed.

Theorem doing_prereqs_done_total : forall (g : list tdesc) (es : list event),
  g <> [] -> guarded (init_state g) es ->
  let s := run_events (init_state g) es in
  (forall t w, st s t = Doing -> In w (t_waits (get s t)) -> st s w = Done) /\
  Forall (fun r : start_rec => sr_undo r = false -> forallb (fun x => seqb x Done) (sr_pre r) = true) (slog s).
Proof. intros g es Hg Hgd s. apply doing_prereqs_done; auto. apply oof_never. Qed.

(* ------------------------------------------------------------------ the error path ends in Error; a settled change
   with a failed task reports Error *)
Theorem finish_err_sets_error : forall s t,
  inv s -> In t (running s) -> st (finish s t OErr) t = Error /\ panicked (finish s t OErr) = false.
Proof.
  intros s t I Hin. pose proof (inv_finish s t OErr I) as I'. split; [|apply (i_np _ I')].
  unfold finish. destruct I as [Hp Hc Hr]. rewrite Hp.
  assert (Em : memn t (running s) = true) by (apply memn_In; assumption). rewrite Em. simpl negb. cbv iota.
  pose proof (Hr t Hin) as Ut.
  set (s0 := remove_running s t).
  assert (I0 : inv s0).
  { constructor; auto. intros u Hu. unfold s0, remove_running, with_running in Hu; cbn [running] in Hu.
    apply filter_In in Hu. apply Hr. tauto. }
  assert (L0 : t < length (tasks s0)) by (apply in_range_st; intros E; change (st s0 t) with (st s t) in E; rewrite E in Ut; discriminate).
  assert (Cf : cready s0 = false).
  { destruct I0 as [_ Hc0 _]. rewrite Hc0. apply all_ready_false with t; [assumption | apply unr_unready; exact Ut]. }
  unfold abort_lanes_top.
  set (s1 := abort_lanes (depth_fuel s0) (lanes_of (get s0 t)) [] [] s0).
  pose proof (qrel_abort_lanes (depth_fuel s0) (lanes_of (get s0 t)) [] [] s0) as Q. fold s1 in Q.
  pose proof (inv_detect s0 s1 I0 Cf Q) as I1. destruct Q as (_ & _ & _ & Ql & _).
  apply st_set_status_eff; [apply (i_np _ I1) | | discriminate].
  rewrite tasks_ready_detect, Ql. exact L0.
Qed.

Theorem settled_error_status : forall l : list task,
  all_ready l = true -> has_status l Error = true -> change_status l = Error.
Proof.
  intros l A He. unfold change_status. destruct l as [|a l']; [discriminate He|]. set (L := a :: l') in *.
  assert (N : forall x, ready x = false -> has_status L x = false).
  { intros x Hx. destruct (has_status L x) eqn:Hh; [|reflexivity].
    rewrite (has_unready_not_all_ready L x Hh Hx) in A; discriminate. }
  rewrite (N Wait) by reflexivity. simpl andb. cbv iota. unfold status_order. cbn [find].
  rewrite (N Abort), (N Undoing), (N Undo), (N Doing), (N Do), (N Wait), He by reflexivity. reflexivity.
Qed.
