(* Proofs about models/SnapSeq.v — part 1: list lemmas, the well-formedness invariant, and C10
   (a failed install / refresh / revert restores the projection and the world). *)
From Coq Require Import List NArith ZArith Bool Arith Lia Sorting.Sorted.
Import ListNotations.
Require Import V.models.SnapSeq.
Open Scope N_scope.

(* ------------------------------------------------------------------------------------------------ lists *)

Lemma mem_In : forall x l, mem x l = true <-> In x l.
Proof.
  induction l as [|y r IH]; simpl; [split; [discriminate|tauto]|].
  rewrite orb_true_iff, IH, N.eqb_eq. split; intros [H|H]; auto.
Qed.

Lemma mem_false : forall x l, mem x l = false <-> ~ In x l.
Proof. intros. rewrite <- mem_In. destruct (mem x l); split; intros; congruence. Qed.

Lemma last_index_none : forall x l, last_index x l = None <-> ~ In x l.
Proof.
  induction l as [|y r IH]; simpl; [tauto|].
  destruct (last_index x r) as [i|] eqn:E.
  - split; [discriminate|]. intros H. exfalso. apply H. right.
    destruct (in_dec N.eq_dec x r) as [I|I]; auto. apply IH in I. discriminate.
  - destruct (x =? y) eqn:Q.
    + apply N.eqb_eq in Q. subst. split; [discriminate|]. intros H; exfalso; apply H; auto.
    + apply N.eqb_neq in Q. split; auto. intros _ [H|H]; [congruence|]. apply IH in H; auto.
Qed.

Lemma last_index_split : forall x l i, NoDup l -> last_index x l = Some i ->
  exists a b, l = a ++ x :: b /\ length a = i /\ ~ In x a /\ ~ In x b.
Proof.
  induction l as [|y r IH]; simpl; intros i ND H; [discriminate|].
  inversion ND as [|? ? Hy ND']; subst.
  destruct (last_index x r) as [j|] eqn:E.
  - inversion H; subst. destruct (IH j ND' eq_refl) as (a & b & -> & La & Na & Nb).
    exists (y :: a), b. simpl. repeat split; auto.
    intros [Q|Q]; auto. subst. apply Hy. apply in_or_app. right. left. reflexivity.
  - destruct (x =? y) eqn:Q; [|discriminate]. apply N.eqb_eq in Q. subst. inversion H; subst.
    exists [], r. simpl. repeat split; auto.
Qed.

Lemma last_index_app_last : forall x l, last_index x (l ++ [x]) = Some (length l).
Proof.
  induction l as [|y r IH]; simpl; [rewrite N.eqb_refl; reflexivity|]. rewrite IH. reflexivity.
Qed.

Lemma last_index_mid : forall x a b, ~ In x b -> last_index x (a ++ x :: b) = Some (length a).
Proof.
  induction a as [|y r IH]; simpl; intros b Nb.
  - apply last_index_none in Nb. rewrite Nb, N.eqb_refl. reflexivity.
  - rewrite (IH b Nb). reflexivity.
Qed.

Lemma remove_at_app : forall a x b, remove_at (length a) (a ++ x :: b) = a ++ b.
Proof. induction a as [|y r IH]; simpl; intros; [reflexivity|]. rewrite IH. reflexivity. Qed.

Lemma firstn_app_exact : forall (a b : list N), firstn (length a) (a ++ b) = a.
Proof. intros. rewrite firstn_app, Nat.sub_diag, firstn_all. simpl. apply app_nil_r. Qed.

Lemma skipn_app_exact : forall (a b : list N), skipn (length a) (a ++ b) = b.
Proof. intros. rewrite skipn_app, Nat.sub_diag, skipn_all. reflexivity. Qed.

Lemma nth_app_exact : forall (a b : list N) x d, nth (length a) (a ++ x :: b) d = x.
Proof. intros. rewrite app_nth2, Nat.sub_diag; auto. Qed.

Lemma rem_notin : forall x l, ~ In x l -> rem x l = l.
Proof.
  unfold rem. induction l as [|y r IH]; simpl; intros H; [reflexivity|].
  destruct (y =? x) eqn:Q; simpl.
  - apply N.eqb_eq in Q. subst. exfalso. apply H. auto.
  - rewrite IH; auto.
Qed.

Lemma In_rem : forall x y l, In y (rem x l) <-> In y l /\ y <> x.
Proof.
  intros. unfold rem. rewrite filter_In, negb_true_iff, N.eqb_neq. tauto.
Qed.

Lemma filter_mem_incl : forall l m, incl l m -> filter (fun r => mem r m) l = l.
Proof.
  induction l as [|y r IH]; simpl; intros m I; [reflexivity|].
  assert (M : mem y m = true) by (apply mem_In; apply I; left; reflexivity).
  rewrite M. f_equal. apply IH. intros x Hx. apply I. right. exact Hx.
Qed.

(* strictly increasing lists *)
Definition sorted (l : list N) : Prop := StronglySorted N.lt l.

Lemma sorted_nil : sorted []. Proof. constructor. Qed.

Lemma In_ins : forall x y l, In y (ins x l) <-> y = x \/ In y l.
Proof.
  induction l as [|z r IH]; simpl; [intuition|].
  destruct (x <? z) eqn:L; simpl; [intuition|].
  destruct (x =? z) eqn:Q; simpl.
  - apply N.eqb_eq in Q. subst. intuition.
  - rewrite IH. intuition.
Qed.

Lemma sorted_ins : forall x l, sorted l -> sorted (ins x l).
Proof.
  unfold sorted. induction l as [|z r IH]; simpl; intros S.
  - constructor; constructor.
  - inversion S as [|? ? S' F]; subst.
    destruct (x <? z) eqn:L.
    + apply N.ltb_lt in L. constructor; auto. constructor; auto.
      rewrite Forall_forall in *. intros y Hy. specialize (F y Hy). lia.
    + destruct (x =? z) eqn:Q; auto.
      apply N.ltb_ge in L. apply N.eqb_neq in Q.
      constructor; auto. rewrite Forall_forall in *. intros y Hy. apply In_ins in Hy.
      destruct Hy as [->|Hy]; [lia|auto].
Qed.

Lemma sorted_rem : forall x l, sorted l -> sorted (rem x l).
Proof.
  unfold sorted, rem. induction l as [|z r IH]; simpl; intros S; [constructor|].
  inversion S as [|? ? S' F]; subst.
  destruct (z =? x); simpl; auto. constructor; auto.
  rewrite Forall_forall in *. intros y Hy. apply filter_In in Hy. apply F. tauto.
Qed.

Lemma rem_ins : forall x l, sorted l -> ~ In x l -> rem x (ins x l) = l.
Proof.
  unfold sorted. induction l as [|z r IH]; simpl; intros S H.
  - unfold rem. simpl. rewrite N.eqb_refl. reflexivity.
  - inversion S as [|? ? S' F]; subst.
    assert (z <> x) by (intros ->; apply H; auto).
    destruct (x <? z) eqn:L.
    + unfold rem. simpl. rewrite N.eqb_refl. simpl.
      destruct (z =? x) eqn:Q; [apply N.eqb_eq in Q; congruence|]. simpl.
      f_equal. apply rem_notin. intros I. apply H. auto.
    + destruct (x =? z) eqn:Q; [apply N.eqb_eq in Q; congruence|].
      unfold rem. simpl. destruct (z =? x) eqn:Q2; [apply N.eqb_eq in Q2; congruence|]. simpl.
      f_equal. apply IH; auto.
Qed.

Lemma sorted_NoDup : forall l, sorted l -> NoDup l.
Proof.
  unfold sorted. induction l as [|z r IH]; intros S; constructor; inversion S as [|? ? S' F]; subst; auto.
  intros I. rewrite Forall_forall in F. specialize (F z I). lia.
Qed.

(* revision-config maps *)
Lemma rc_get_set_same : forall r v m, rc_get r (rc_set r v m) = Some v.
Proof.
  induction m as [|[k w] t IH]; simpl; [rewrite N.eqb_refl; reflexivity|].
  destruct (r <? k) eqn:L; simpl; [rewrite N.eqb_refl; reflexivity|].
  destruct (r =? k) eqn:Q; simpl; [rewrite N.eqb_refl; reflexivity|].
  rewrite N.eqb_sym, Q. exact IH.
Qed.

(* countMissingRevs *)
Lemma count_one : forall x l, NoDup l -> In x l -> length (filter (fun y : N => N.eqb y x) l) = 1%nat.
Proof.
  induction l as [|z r IH]; simpl; intros ND H; [tauto|].
  inversion ND as [|? ? Hz ND']; subst.
  destruct (z =? x) eqn:Q; simpl.
  - apply N.eqb_eq in Q. subst. f_equal.
    assert (E : filter (fun y : N => N.eqb y x) r = []).
    { apply (proj1 (List.length_zero_iff_nil _)). destruct (filter _ r) as [|u v] eqn:F; auto.
      assert (I : In u (filter (fun y : N => N.eqb y x) r)) by (rewrite F; left; auto).
      apply filter_In in I. destruct I as [I Q]. apply N.eqb_eq in Q. subst. tauto. }
    rewrite E. reflexivity.
  - apply N.eqb_neq in Q. destruct H as [H|H]; [congruence|]. auto.
Qed.

Lemma count_found_all : forall revs l, NoDup l -> incl revs l -> count_found revs l = length revs.
Proof.
  unfold count_found. induction revs as [|x r IH]; simpl; intros l ND I; [reflexivity|].
  rewrite count_one; auto; [|apply I; left; reflexivity].
  rewrite IH; auto. intros y Hy. apply I. right. exact Hy.
Qed.

Lemma count_missing_none : forall revs l, NoDup l -> incl revs l -> count_missing revs l = O.
Proof. intros. unfold count_missing. rewrite count_found_all; auto. lia. Qed.

(* ------------------------------------------------------------------------------------------------ invariant *)

(* what holds of the recorded state and the world between changes (C11 proves that every change, completed or failed
   and undone, preserves it) *)
Record wf (s : st) : Prop := mkWf {
  wf_nodup : NoDup (seq s);
  wf_cur : seq s <> [] -> In (cur s) (seq s);
  wf_zero : seq s = [] -> s = mkSt [] 0 false 0 false false false false false 0 0 0 [] 0 (revcfg s) [] 0;
  wf_nb : incl (nb s) (seq s);
  wf_nb_sorted : sorted (nb s);
  wf_mounted_sorted : sorted (mounted s);
  wf_mounted : forall x, In x (mounted s) <-> In x (seq s);
  wf_link : link s = if active s then cur s else 0
}.

(* the C10 projection: everything but the revision-config bookkeeping *)
Definition forget (s : st) : st :=
  mkSt (seq s) (cur s) (active s) (chan s) (devmode s) (jailmode s) (classic s) (trymode s) (ignoreval s) (cohort s)
       (lastref s) (inhib s) (nb s) (cfg s) [] (mounted s) (link s).

(* ------------------------------------------------------------------------------------------------ running and undoing *)

(* do a task, run the rest and undo it, undo the task: the nested reading of `do the prefix, undo it in reverse` *)
Fixpoint run_fail (o : op) (cleared : bool) (ts : list task) (s : st) : st :=
  match ts with
  | [] => s
  | t :: r => let (s', d) := do_task o t s in undo_task o cleared t d (run_fail o cleared r s')
  end.

Lemma do_undo_nested : forall o c ts s done,
  (let (s', d') := do_all o ts s done in undo_all o c d' s') = undo_all o c done (run_fail o c ts s).
Proof.
  induction ts as [|t r IH]; intros s done; simpl; [reflexivity|].
  destruct (do_task o t s) as [s' d] eqn:E. rewrite IH. simpl. reflexivity.
Qed.

Lemma run_change_fail : forall o j ts s,
  run_change o (S j) ts s =
  run_fail o (existsb (fun t => kind_eqb (fst t) KClear && (snd t =? cur s)) (firstn j ts)) (firstn j ts) s.
Proof.
  intros. unfold run_change.
  pose proof (do_undo_nested o (existsb (fun t => kind_eqb (fst t) KClear && (snd t =? cur s)) (firstn j ts))
                (firstn j ts) s []) as H.
  destruct (do_all o (firstn j ts) s []) as [s' d']. simpl in H. exact H.
Qed.

(* tasks that touch neither the recorded state nor the world, in either direction *)
Definition essential (t : task) : bool :=
  match fst t with
  | KMount | KUnlinkCurrent | KLink | KDiscard | KConfigure | KUnlinkSnap => true
  | _ => false
  end.

Lemma run_fail_strip : forall o c ts s, run_fail o c ts s = run_fail o c (filter essential ts) s.
Proof.
  induction ts as [|[k r] ts IH]; intros s; simpl; [reflexivity|].
  destruct k; simpl; try (rewrite IH; reflexivity);
    unfold essential; simpl; unfold do_task, undo_task; simpl;
    try (destruct (do_link o s)); rewrite IH; reflexivity.
Qed.

Lemma filter_firstn : forall (f : task -> bool) j l, exists j', filter f (firstn j l) = firstn j' (filter f l).
Proof.
  induction j as [|j IH]; intros l; [exists O; reflexivity|].
  destruct l as [|x l]; [exists O; reflexivity|]. simpl.
  destruct (IH l) as [j' E]. destruct (f x).
  - exists (S j'). simpl. rewrite E. reflexivity.
  - exists j'. exact E.
Qed.

Definition is_discard (t : task) : bool := kind_eqb (fst t) KDiscard.

Lemma firstn_no_discard : forall (E D T : list task) j,
  forallb (fun t => negb (is_discard t)) (firstn j (E ++ D ++ T)) = true ->
  forallb is_discard D = true ->
  exists j', firstn j (E ++ D ++ T) = firstn j' (E ++ match D with [] => T | _ => [] end).
Proof.
  intros E D T j H HD. destruct D as [|d D]; [exists j; reflexivity|].
  destruct (le_lt_dec j (length E)) as [L|L].
  - exists j. rewrite !firstn_app. replace (j - length E)%nat with O by lia. simpl. reflexivity.
  - exfalso. rewrite firstn_app in H. rewrite forallb_app in H. apply andb_true_iff in H. destruct H as [_ H].
    destruct (j - length E)%nat as [|n] eqn:Q; [lia|]. simpl in H, HD.
    apply andb_true_iff in HD. destruct HD as [HD _]. rewrite HD in H. discriminate.
Qed.

Lemma filter_ess_gc : forall l, filter essential (flat_map remove_rev_tasks l) = map (fun r => (KDiscard, r)) l.
Proof. induction l as [|x l IH]; [reflexivity|]. simpl map. rewrite <- IH. reflexivity. Qed.

Lemma discards_are_discards : forall (l : list N), forallb is_discard (map (fun r => (KDiscard, r)) l) = true.
Proof. induction l; simpl; auto. Qed.

(* the tasks of an install / refresh / revert that touch the state, in order *)
Definition ess_pre (o : op) (s : st) : list task :=
  let r := orev o in
  (if mem r (seq s) then [] else [(KMount, r)]) ++ (if installed s then [(KUnlinkCurrent, r)] else []) ++ [(KLink, r)].

Lemma filter_map_kinds : forall r (ks : list kind),
  filter essential (map (fun k => (k, r)) ks) = map (fun k => (k, r)) (filter (fun k => essential (k, r)) ks).
Proof. induction ks as [|k ks IH]; simpl; [reflexivity|]. destruct (essential (k, r)); simpl; rewrite IH; reflexivity. Qed.

Lemma install_tasks_ess : forall o s retain inuse,
  filter essential (install_tasks o s retain inuse) =
  ess_pre o s
  ++ (if installed s && negb (is_revert o) then map (fun r => (KDiscard, r)) (gc_revs s (orev o) retain inuse) else [])
  ++ [(KConfigure, orev o)].
Proof.
  intros. unfold install_tasks, ess_pre.
  rewrite !filter_app, filter_map_kinds.
  destruct (mem (orev o) (seq s)), (installed s), (is_revert o), (ofromstore o); simpl;
    try rewrite filter_app; try rewrite filter_ess_gc; simpl; rewrite ?app_nil_r; reflexivity.
Qed.

(* every failing prefix without a completed discard-snap reduces to a prefix of the essential tasks + configure hook *)
Lemma prefix_reduces : forall o s retain inuse j,
  forallb (fun t => negb (is_discard t)) (firstn j (install_tasks o s retain inuse)) = true ->
  exists j', filter essential (firstn j (install_tasks o s retain inuse))
             = firstn j' (ess_pre o s ++ [(KConfigure, orev o)]).
Proof.
  intros o s retain inuse j H.
  destruct (filter_firstn essential j (install_tasks o s retain inuse)) as [j1 E1].
  rewrite E1. rewrite install_tasks_ess.
  assert (ND : forallb (fun t => negb (is_discard t)) (filter essential (firstn j (install_tasks o s retain inuse))) = true).
  { rewrite forallb_forall in *. intros x Hx. apply filter_In in Hx. apply H. tauto. }
  rewrite E1, install_tasks_ess in ND.
  set (D := if installed s && negb (is_revert o) then map (fun r => (KDiscard, r)) (gc_revs s (orev o) retain inuse) else []) in *.
  assert (HD : forallb is_discard D = true).
  { unfold D. destruct (installed s && negb (is_revert o)); [apply discards_are_discards|reflexivity]. }
  destruct (firstn_no_discard _ _ _ _ ND HD) as [j' E].
  destruct D.
  - exists j'. exact E.
  - exists (Nat.min j' (length (ess_pre o s))). etransitivity; [exact E|].
    rewrite app_nil_r. rewrite firstn_app.
    replace (Nat.min j' (length (ess_pre o s)) - length (ess_pre o s))%nat with O by lia.
    simpl. rewrite app_nil_r. rewrite <- firstn_firstn. rewrite firstn_all. reflexivity.
Qed.

(* ------------------------------------------------------------------------------------------------ C10 *)

(* guard for finding 13: the snap has some configuration, or nothing can write configuration during the change *)
Definition cfg_guard (o : op) (s : st) : Prop :=
  cfg s <> 0 \/ seq s = [] \/
  (ohookcfg o = 0 /\ rc_get (cur s) (revcfg s) = None /\ (is_revert o = true -> rc_get (orev o) (revcfg s) = None)).

Definition c10_op (o : op) : Prop := okind o = OInstall \/ okind o = ORefresh \/ okind o = ORevert.

Ltac bool_hyps :=
  repeat match goal with
  | H : _ && _ = true |- _ => apply andb_true_iff in H; destruct H
  | H : negb _ = true |- _ => apply negb_true_iff in H
  | H : _ =? _ = true |- _ => apply N.eqb_eq in H
  | H : _ =? _ = false |- _ => apply N.eqb_neq in H
  end.

Lemma restore_after_save : forall c v m cfg', v <> 0 -> restore_rev_cfg c cfg' (save_rev_cfg c v m) = v.
Proof.
  intros. unfold restore_rev_cfg, save_rev_cfg.
  destruct (v =? 0) eqn:Q; [apply N.eqb_eq in Q; congruence|]. rewrite rc_get_set_same. reflexivity.
Qed.

(* link-snap followed by its undo, with the configure hook possibly in between *)
Lemma link_roundtrip_new : forall o s (h : bool),
  NoDup (seq s) -> seq s <> [] -> ~ In (orev o) (seq s) -> incl (nb s) (seq s) -> is_revert o = false ->
  cfg_guard o s ->
  forget (undo_link o (snd (do_link o s)) ((if h then do_configure o else fun x => x) (fst (do_link o s))))
  = forget (set_active_link false 0 s).
Proof.
  intros o s h ND NE NI NB NR CG.
  unfold do_link. rewrite NR.
  assert (LI : last_index (orev o) (seq s) = None) by (apply last_index_none; auto).
  rewrite LI. destruct (seq s) as [|x0 l0] eqn:SQ; [congruence|]. rewrite <- SQ in *.
  assert (INST : match seq s with [] => false | _ :: _ => true end = true) by (rewrite SQ; reflexivity).
  cbn [fst snd].
  assert (U : forall cf, forget (undo_link o
      (mkLD (chan s) (ignoreval s) (trymode s) (devmode s) (jailmode s) (classic s) (cur s) None (inhib s)
            (lastref s) (cohort s) [] (Some (nb s)))
      (mkSt (seq s ++ [orev o]) (orev o) true (if ochan o =? 0 then chan s else ochan o) (odev o) (ojail o) (oclassic o)
            (otry o) (oignore o) (ocohort o) (onow o) 0 (rem (orev o) (nb s)) cf
            (save_rev_cfg (cur s) (cfg s) (revcfg s)) (mounted s) (orev o)))
      = mkSt (seq s) (cur s) false (chan s) (devmode s) (jailmode s) (classic s) (trymode s) (ignoreval s) (cohort s)
             (lastref s) (inhib s) (nb s) (restore_rev_cfg (cur s) cf (save_rev_cfg (cur s) (cfg s) (revcfg s))) []
             (mounted s) 0).
  { intros cf. unfold undo_link. cbn [cur seq old_cand is_revert]. rewrite last_index_app_last.
    cbn [old_cur old_rs revcfg nb cfg].
    replace (remove_at (length (seq s)) (seq s ++ [orev o])) with (seq s)
      by (rewrite remove_at_app, app_nil_r; reflexivity).
    try rewrite NR.
    rewrite rem_notin by (intros I; apply NI; apply NB; exact I).
    rewrite (filter_mem_incl _ _ NB).
    rewrite SQ. unfold norm, forget. cbn. reflexivity. }
  destruct h.
  - unfold do_configure. cbn [ohookcfg]. destruct (ohookcfg o =? 0) eqn:HK.
    + rewrite U. unfold forget, set_active_link. cbn. f_equal.
      destruct CG as [C|[C|(C1 & C2 & _)]]; [apply restore_after_save; auto|congruence|].
      unfold restore_rev_cfg, save_rev_cfg. destruct (cfg s =? 0); [rewrite C2; reflexivity|rewrite rc_get_set_same; reflexivity].
    + cbn. rewrite U. unfold forget, set_active_link. cbn. f_equal.
      destruct CG as [C|[C|(C1 & C2 & _)]]; [apply restore_after_save; auto|congruence|].
      apply N.eqb_neq in HK. congruence.
  - rewrite U. unfold forget, set_active_link. cbn. f_equal.
    destruct CG as [C|[C|(C1 & C2 & _)]]; [apply restore_after_save; auto|congruence|].
    unfold restore_rev_cfg, save_rev_cfg. destruct (cfg s =? 0); [rewrite C2; reflexivity|rewrite rc_get_set_same; reflexivity].
Qed.

Lemma NoDup_app_last : forall (l : list N) x, NoDup l -> ~ In x l -> NoDup (l ++ [x]).
Proof.
  induction l as [|y r IH]; simpl; intros x ND NI; [constructor; [tauto|constructor]|].
  inversion ND; subst. constructor.
  - rewrite in_app_iff. simpl. intros [I|[I|[]]]; [tauto|subst; tauto].
  - apply IH; auto.
Qed.

(* the sequence part of link-snap onto a kept revision followed by its undo (no discard in between) *)
Lemma seq_roundtrip_kept : forall (a b : list N) r, NoDup (a ++ r :: b) ->
  let l' := (a ++ b) ++ [r] in
  last_index r l' = Some (length (a ++ b)) /\
  firstn (length a - count_missing a l') l' ++ nth (length (a ++ b)) l' 0 :: skipn (length a - count_missing a l') (removelast l')
  = a ++ r :: b.
Proof.
  intros a b r ND l'. split; [apply last_index_app_last|].
  assert (ND' : NoDup l').
  { apply NoDup_app_last; [eapply NoDup_remove_1; eauto|eapply NoDup_remove_2; eauto]. }
  rewrite count_missing_none; auto.
  2:{ intros x Hx. unfold l'. rewrite !in_app_iff. auto. }
  rewrite Nat.sub_0_r. unfold l'. rewrite removelast_last, nth_app_exact.
  rewrite <- app_assoc, firstn_app_exact, skipn_app_exact. reflexivity.
Qed.

Lemma link_roundtrip_kept : forall o s (h : bool),
  NoDup (seq s) -> In (orev o) (seq s) -> is_revert o = false -> incl (nb s) (seq s) ->
  cfg_guard o s ->
  forget (undo_link o (snd (do_link o s)) ((if h then do_configure o else fun x => x) (fst (do_link o s))))
  = forget (set_active_link false 0 s).
Proof.
  intros o s h ND IN NR NB CG.
  unfold do_link. rewrite NR.
  destruct (last_index (orev o) (seq s)) as [i|] eqn:LI; [|apply last_index_none in LI; tauto].
  destruct (last_index_split _ _ _ ND LI) as (a & b & SQ & LA & _ & _).
  assert (NE : seq s <> []) by (rewrite SQ; destruct a; discriminate).
  destruct (seq_roundtrip_kept a b (orev o)) as [L1 L2]; [rewrite <- SQ; exact ND|].
  assert (INST : match seq s with [] => false | _ :: _ => true end = true) by (destruct (seq s); congruence).
  rewrite INST. cbn [fst snd].
  assert (R1 : remove_at i (seq s) ++ [orev o] = (a ++ b) ++ [orev o]) by (rewrite SQ, <- LA, remove_at_app; reflexivity).
  assert (R2 : firstn i (seq s) = a) by (rewrite SQ, <- LA; apply firstn_app_exact).
  rewrite R1, R2.
  assert (U : forall cf, forget (undo_link o
      (mkLD (chan s) (ignoreval s) (trymode s) (devmode s) (jailmode s) (classic s) (cur s) (Some i) (inhib s)
            (lastref s) (cohort s) a (Some (nb s)))
      (mkSt ((a ++ b) ++ [orev o]) (orev o) true (if ochan o =? 0 then chan s else ochan o) (odev o) (ojail o) (oclassic o)
            (otry o) (oignore o) (ocohort o) (onow o) 0 (rem (orev o) (nb s)) cf
            (save_rev_cfg (cur s) (cfg s) (revcfg s)) (mounted s) (orev o)))
      = mkSt (seq s) (cur s) false (chan s) (devmode s) (jailmode s) (classic s) (trymode s) (ignoreval s) (cohort s)
             (lastref s) (inhib s) (nb s) (restore_rev_cfg (cur s) cf (save_rev_cfg (cur s) (cfg s) (revcfg s))) []
             (mounted s) 0).
  { intros cf. unfold undo_link. cbn [cur seq old_cand old_before]. rewrite L1. rewrite NR.
    cbn [old_cur old_rs revcfg nb cfg]. rewrite <- LA. rewrite L2.
    rewrite <- SQ. rewrite (filter_mem_incl _ _ NB).
    destruct (seq s) as [|x0 l0] eqn:SQ2; [congruence|]. unfold norm, forget. cbn. reflexivity. }
  destruct h.
  - unfold do_configure. cbn [ohookcfg]. destruct (ohookcfg o =? 0) eqn:HK.
    + rewrite U. unfold forget, set_active_link. cbn. f_equal.
      destruct CG as [C|[C|(C1 & C2 & _)]]; [apply restore_after_save; auto|congruence|].
      unfold restore_rev_cfg, save_rev_cfg. destruct (cfg s =? 0); [rewrite C2; reflexivity|rewrite rc_get_set_same; reflexivity].
    + cbn. rewrite U. unfold forget, set_active_link. cbn. f_equal.
      destruct CG as [C|[C|(C1 & C2 & _)]]; [apply restore_after_save; auto|congruence|].
      apply N.eqb_neq in HK. congruence.
  - rewrite U. unfold forget, set_active_link. cbn. f_equal.
    destruct CG as [C|[C|(C1 & C2 & _)]]; [apply restore_after_save; auto|congruence|].
    unfold restore_rev_cfg, save_rev_cfg. destruct (cfg s =? 0); [rewrite C2; reflexivity|rewrite rc_get_set_same; reflexivity].
Qed.

Lemma link_roundtrip_revert : forall o s (h : bool),
  NoDup (seq s) -> In (orev o) (seq s) -> is_revert o = true -> incl (nb s) (seq s) ->
  cfg_guard o s ->
  forget (undo_link o (snd (do_link o s)) ((if h then do_configure o else fun x => x) (fst (do_link o s))))
  = forget (set_active_link false 0 s).
Proof.
  intros o s h ND IN RV NB CG.
  unfold do_link. rewrite RV.
  destruct (last_index (orev o) (seq s)) as [i|] eqn:LI; [|apply last_index_none in LI; tauto].
  assert (NE : seq s <> []) by (destruct (seq s); [destruct IN|discriminate]).
  assert (INST : match seq s with [] => false | _ :: _ => true end = true) by (destruct (seq s); congruence).
  rewrite INST. cbn [fst snd].
  set (nb1 := if onotblocked o then ins (cur s) (nb s) else rem (cur s) (nb s)).
  set (rc1 := save_rev_cfg (cur s) (cfg s) (revcfg s)).
  assert (U : forall cf, forget (undo_link o
      (mkLD (chan s) (ignoreval s) (trymode s) (devmode s) (jailmode s) (classic s) (cur s) (Some i) (inhib s)
            (lastref s) (cohort s) [] (Some (nb s)))
      (mkSt (seq s) (orev o) true (if ochan o =? 0 then chan s else ochan o) (odev o) (ojail o) (oclassic o)
            (otry o) (oignore o) (ocohort o) (lastref s) 0 nb1 cf rc1 (mounted s) (orev o)))
      = mkSt (seq s) (cur s) false (chan s) (devmode s) (jailmode s) (classic s) (trymode s) (ignoreval s) (cohort s)
             (lastref s) (inhib s) (nb s) (restore_rev_cfg (cur s) cf rc1) [] (mounted s) 0).
  { intros cf. unfold undo_link. cbn [cur seq old_cand old_before]. rewrite LI. rewrite RV.
    cbn [old_cur old_rs revcfg nb cfg]. rewrite (filter_mem_incl _ _ NB).
    destruct (seq s) as [|x0 l0] eqn:SQ2; [congruence|]. unfold norm, forget. cbn. reflexivity. }
  assert (G : forall cf, cfg s <> 0 -> restore_rev_cfg (cur s) cf rc1 = cfg s) by (intros; apply restore_after_save; auto).
  destruct h.
  - unfold do_configure. cbn [ohookcfg]. destruct (ohookcfg o =? 0) eqn:HK.
    + rewrite U. unfold forget, set_active_link. cbn. f_equal.
      destruct CG as [C|[C|(C1 & C2 & C3)]]; [apply G; auto|congruence|].
      unfold rc1, restore_rev_cfg, save_rev_cfg. destruct (cfg s =? 0) eqn:Z.
      * rewrite C2, (C3 RV). apply N.eqb_eq in Z. reflexivity.
      * rewrite rc_get_set_same. reflexivity.
    + cbn. rewrite U. unfold forget, set_active_link. cbn. f_equal.
      destruct CG as [C|[C|(C1 & C2 & _)]]; [apply G; auto|congruence|].
      apply N.eqb_neq in HK. congruence.
  - rewrite U. unfold forget, set_active_link. cbn. f_equal.
    destruct CG as [C|[C|(C1 & C2 & C3)]]; [apply G; auto|congruence|].
    unfold rc1, restore_rev_cfg, save_rev_cfg. destruct (cfg s =? 0) eqn:Z.
    * rewrite C2, (C3 RV). reflexivity.
    * rewrite rc_get_set_same. reflexivity.
Qed.

Lemma forget_cong_uc : forall x y, forget x = forget y -> forget (undo_unlink_current x) = forget (undo_unlink_current y).
Proof.
  intros [] [] H. unfold forget in H. simpl in H. injection H; intros; subst.
  unfold undo_unlink_current, set_active_link, norm, forget. simpl.
  match goal with |- context [match ?l with [] => _ | _ => _ end] => destruct l end; reflexivity.
Qed.

Lemma forget_cong_um : forall r x y, forget x = forget y -> forget (undo_mount r x) = forget (undo_mount r y).
Proof.
  intros r [] [] H. unfold forget in H. simpl in H. injection H; intros; subst. reflexivity.
Qed.

Lemma run_fail_link : forall o c r X,
  run_fail o c [(KLink, r)] X = undo_link o (snd (do_link o X)) (fst (do_link o X)).
Proof. intros. simpl. unfold do_task. simpl. destruct (do_link o X). reflexivity. Qed.

Lemma run_fail_link_cfg : forall o c r r' X,
  run_fail o c [(KLink, r); (KConfigure, r')] X = undo_link o (snd (do_link o X)) (do_configure o (fst (do_link o X))).
Proof. intros. simpl. unfold do_task. simpl. destruct (do_link o X). reflexivity. Qed.

Lemma forget_inactive : forall X, active X = false -> link X = 0 -> forget (set_active_link false 0 X) = forget X.
Proof. intros [] A L. simpl in *. subst. reflexivity. Qed.

(* link-snap (and the configure hook) done and undone on an inactive, unlinked, installed snap *)
Lemma link_tail : forall o c X k,
  NoDup (seq X) -> seq X <> [] -> incl (nb X) (seq X) -> active X = false -> link X = 0 ->
  (is_revert o = true -> In (orev o) (seq X)) ->
  cfg_guard o X ->
  forget (run_fail o c (firstn k [(KLink, orev o); (KConfigure, orev o)]) X) = forget X.
Proof.
  intros o c X k ND NE NB A L RV CG.
  assert (T : forall h : bool,
    forget (undo_link o (snd (do_link o X)) ((if h then do_configure o else fun x => x) (fst (do_link o X)))) = forget X).
  { intros h. rewrite <- (forget_inactive X A L).
    destruct (is_revert o) eqn:R.
    - apply link_roundtrip_revert; auto.
    - destruct (in_dec N.eq_dec (orev o) (seq X)) as [I|I].
      + apply link_roundtrip_kept; auto.
      + apply link_roundtrip_new; auto. }
  destruct k as [|[|k]]; [reflexivity| |].
  - change (firstn 1 [(KLink, orev o); (KConfigure, orev o)]) with [(KLink, orev o)].
    rewrite run_fail_link. exact (T false).
  - replace (firstn (S (S k)) [(KLink, orev o); (KConfigure, orev o)]) with [(KLink, orev o); (KConfigure, orev o)]
      by (destruct k; reflexivity).
    rewrite run_fail_link_cfg. exact (T true).
Qed.

Lemma firstn_cons_S : forall (x : task) l k, firstn (S k) (x :: l) = x :: firstn k l.
Proof. reflexivity. Qed.

Lemma core_restores : forall s o c k,
  wf s -> c10_op o -> accepts o s = true -> cfg_guard o s ->
  forget (run_fail o c (firstn k (ess_pre o s ++ [(KConfigure, orev o)])) s) = forget s.
Proof.
  intros s o c k W OP AC CG.
  destruct W as [W1 W2 W3 W4 W5 W6 W7 W8].
  unfold ess_pre. unfold accepts in AC.
  destruct OP as [K|[K|K]]; rewrite K in AC.
  - (* install: the snap is not there *)
    unfold installed in *. destruct (seq s) as [|x0 l0] eqn:SQ; [|discriminate].
    specialize (W3 eq_refl). simpl.
    destruct k as [|k]; [reflexivity|]. rewrite firstn_cons_S.
    cbn [run_fail do_task fst snd undo_task].
    assert (Z : forall k', forget (run_fail o c (firstn k' [(KLink, orev o); (KConfigure, orev o)]) (do_mount (orev o) s))
                           = forget (do_mount (orev o) s)).
    { intros k'. rewrite W3. unfold do_mount. cbn [seq cur active chan devmode jailmode classic trymode ignoreval cohort lastref inhib nb cfg revcfg mounted link ins].
      assert (NR : is_revert o = false) by (unfold is_revert; rewrite K; reflexivity).
      destruct k' as [|[|k']].
      - reflexivity.
      - change (firstn 1 [(KLink, orev o); (KConfigure, orev o)]) with [(KLink, orev o)].
        rewrite run_fail_link. unfold do_link. rewrite NR. cbn. unfold undo_link. cbn. rewrite N.eqb_refl. cbn.
        try rewrite NR. reflexivity.
      - replace (firstn (S (S k')) [(KLink, orev o); (KConfigure, orev o)]) with [(KLink, orev o); (KConfigure, orev o)]
          by (destruct k'; reflexivity).
        rewrite run_fail_link_cfg. unfold do_link. rewrite NR. cbn. unfold do_configure. cbn.
        destruct (ohookcfg o =? 0); unfold undo_link; cbn; rewrite N.eqb_refl; cbn; try rewrite NR; reflexivity. }
    rewrite (forget_cong_um _ _ _ (Z k)).
    assert (MS : mounted s = []) by (rewrite W3; reflexivity).
    unfold undo_mount, do_mount, forget. simpl. rewrite MS. unfold rem. simpl. rewrite N.eqb_refl. reflexivity.
  - (* refresh *)
    bool_hyps.
    assert (NR : is_revert o = false) by (unfold is_revert; rewrite K; reflexivity).
    unfold installed in *. destruct (seq s) as [|x0 l0] eqn:SQ; [discriminate|]. rewrite <- SQ in *.
    assert (NE : seq s <> []) by (rewrite SQ; discriminate).
    assert (NM : norm (set_active_link false 0 s) = set_active_link false 0 s).
    { unfold norm. simpl. rewrite SQ. reflexivity. }
    assert (FIN : forget (undo_unlink_current (set_active_link false 0 s)) = forget s).
    { unfold undo_unlink_current, norm, set_active_link, forget. simpl. rewrite SQ. simpl. rewrite W8.
      match goal with H : active s = true |- _ => rewrite H end. reflexivity. }
    destruct (mem (orev o) (seq s)) eqn:M.
    + (* to a kept revision *)
      cbn [app].
      destruct k as [|k]; [reflexivity|]. rewrite firstn_cons_S. cbn [run_fail do_task fst snd undo_task].
      unfold do_unlink_current. rewrite NM.
      rewrite (forget_cong_uc _ (set_active_link false 0 s)); [exact FIN|].
      apply link_tail; simpl; auto; intros; apply mem_In; auto.
    + (* to a new revision *)
      apply mem_false in M.
      cbn [app].
      destruct k as [|k]; [reflexivity|]. rewrite firstn_cons_S. cbn [run_fail do_task fst snd undo_task].
      assert (MF : forget (undo_mount (orev o) (do_mount (orev o) s)) = forget s).
      { unfold undo_mount, do_mount, forget. simpl. rewrite rem_ins; auto. intros I. apply M. apply W7. exact I. }
      destruct k as [|k]; [exact MF|]. rewrite firstn_cons_S. cbn [run_fail do_task fst snd undo_task].
      rewrite <- MF. apply forget_cong_um.
      set (s1 := do_mount (orev o) s).
      assert (NM1 : norm (set_active_link false 0 s1) = set_active_link false 0 s1).
      { unfold norm. simpl. rewrite SQ. reflexivity. }
      unfold do_unlink_current. rewrite NM1.
      assert (FIN1 : forget (undo_unlink_current (set_active_link false 0 s1)) = forget s1).
      { unfold undo_unlink_current, norm, set_active_link, forget, s1, do_mount. simpl. rewrite SQ. simpl. rewrite W8.
        match goal with H : active s = true |- _ => rewrite H end. reflexivity. }
      rewrite (forget_cong_uc _ (set_active_link false 0 s1)); [exact FIN1|].
      apply link_tail; simpl; auto; congruence.
  - (* revert *)
    bool_hyps.
    assert (RV : is_revert o = true) by (unfold is_revert; rewrite K; reflexivity).
    match goal with H : mem (orev o) (seq s) = true |- _ => rename H into M end.
    rewrite M. assert (IN : In (orev o) (seq s)) by (apply mem_In; exact M).
    unfold installed in *. destruct (seq s) as [|x0 l0] eqn:SQ; [destruct IN|]. rewrite <- SQ in *.
    assert (NE : seq s <> []) by (rewrite SQ; discriminate).
    assert (NM : norm (set_active_link false 0 s) = set_active_link false 0 s).
    { unfold norm. simpl. rewrite SQ. reflexivity. }
    assert (FIN : forget (undo_unlink_current (set_active_link false 0 s)) = forget s).
    { unfold undo_unlink_current, norm, set_active_link, forget. simpl. rewrite SQ. simpl. rewrite W8.
      match goal with H : active s = true |- _ => rewrite H end. reflexivity. }
    cbn [app].
    destruct k as [|k]; [reflexivity|]. rewrite firstn_cons_S. cbn [run_fail do_task fst snd undo_task].
    unfold do_unlink_current. rewrite NM.
    rewrite (forget_cong_uc _ (set_active_link false 0 s)); [exact FIN|].
    apply link_tail; simpl; auto; congruence.
Qed.

(* C10: every reachable (well-formed) state, every install / refresh / revert the entry points accept, every failure
   position before the first completed discard-snap: projection and world are as before. *)
Theorem failed_op_restores : forall s o j retain inuse,
  wf s -> c10_op o -> accepts o s = true ->
  forallb (fun t => negb (is_discard t)) (firstn j (tasks_for o s retain inuse)) = true ->
  cfg_guard o s ->
  forget (run_change o (S j) (tasks_for o s retain inuse) s) = forget s.
Proof.
  intros s o j retain inuse W OP AC ND CG.
  rewrite run_change_fail, run_fail_strip.
  assert (T : tasks_for o s retain inuse = install_tasks o s retain inuse).
  { unfold tasks_for. destruct OP as [K|[K|K]]; rewrite K; reflexivity. }
  rewrite T in *.
  destruct (prefix_reduces o s retain inuse j ND) as [j' E]. rewrite E.
  apply core_restores; auto.
Qed.

(* ------------------------------------------------------------------------------------------------ witnesses *)

Definition mk_refresh (r hook now : N) : op := mkOp ORefresh r false 0 false false false false false 0 false hook now true.
Definition mk_revert (r : N) (nbk : bool) (now : N) : op := mkOp ORevert r false 0 false false false false false 0 nbk 0 now true.

(* kept [1,2,3], current 1 after a not-blocking revert from 3: RevertStatus = {3: NotBlocked}, Block() = [2] *)
Definition s_reverted : st := mkSt [1;2;3] 1 true 1 false false false false false 0 3 0 [3] 5 [(3,5)] [1;2;3] 1.
(* kept [1,2], current 2, no configuration *)
Definition s_two : st := mkSt [1;2] 2 true 1 false false false false false 0 2 0 [] 0 [] [1;2] 2.

Lemma sorted_1 : forall x, sorted [x]. Proof. intros. constructor; constructor. Qed.
Lemma sorted_123 : sorted [1;2;3].
Proof. repeat constructor. Qed.
Lemma sorted_12 : sorted [1;2].
Proof. repeat constructor. Qed.

Lemma nodup_123 : NoDup [1;2;3].
Proof. apply sorted_NoDup, sorted_123. Qed.
Lemma nodup_12 : NoDup [1;2].
Proof. apply sorted_NoDup, sorted_12. Qed.

Lemma wf_s_reverted : wf s_reverted.
Proof.
  constructor; simpl; try tauto; try discriminate.
  - exact nodup_123.
  - intros x [<-|[]]. simpl. auto.
  - apply sorted_1.
  - exact sorted_123.
Qed.

Lemma wf_s_two : wf s_two.
Proof.
  constructor; simpl; try tauto; try discriminate.
  - exact nodup_12.
  - intros x [].
  - constructor.
  - exact sorted_12.
Qed.

Lemma wf_empty : wf empty.
Proof.
  constructor; simpl; try tauto; try constructor. intros x [].
Qed.

(* finding 6 (repaired in /repo by 5dcb85f): refresh (not a revert) to the kept revision 3, failure right after link-snap:
   the RevertStatus entry of 3 and Block() are as before *)
Lemma revert_status_restored :
  let o := mk_refresh 3 0 9 in let ts := tasks_for o s_reverted 3 no_inuse in
  accepts o s_reverted = true /\
  forallb (fun t => negb (is_discard t)) (firstn 9 ts) = true /\
  nb (run_change o 10 ts s_reverted) = [3] /\ block s_reverted = [2] /\ block (run_change o 10 ts s_reverted) = [2].
Proof. vm_compute. repeat split; reflexivity. Qed.

(* finding 7 on the model: refresh of [1,2] to the new revision 3 with retain 2, failure after discard-snap of 1 *)
Lemma discard_not_undone :
  let o := mk_refresh 3 0 9 in let ts := tasks_for o s_two 2 no_inuse in
  accepts o s_two = true /\
  nth 17 ts (KOther, 0) = (KDiscard, 1) /\
  seq (run_change o 19 ts s_two) = [2] /\ mounted (run_change o 19 ts s_two) = [2].
Proof. vm_compute. repeat split; reflexivity. Qed.

(* finding 13 on the model: a snap without configuration, the configure hook of the failed refresh writes some *)
Lemma config_from_nothing :
  let o := mk_refresh 3 7 9 in let ts := tasks_for o s_two 3 no_inuse in
  accepts o s_two = true /\
  forallb (fun t => negb (is_discard t)) ts = true /\
  cfg s_two = 0 /\ cfg (run_change o (S (length ts)) ts s_two) = 7.
Proof. vm_compute. repeat split; reflexivity. Qed.
