(* Proofs about models/SnapSeq.v — part 2: completed changes (C13 revert, C11 invariant, C12 retain). *)
From Coq Require Import List NArith ZArith Bool Arith Lia Sorting.Sorted.
Import ListNotations.
Require Import V.models.SnapSeq V.proofs.SnapSeqProofs.
Open Scope N_scope.

(* a change that runs to its end: the tasks' do handlers in order *)
Definition run_ok (o : op) (ts : list task) (s : st) : st := fold_left (fun s t => fst (do_task o t s)) ts s.

Lemma do_all_run_ok : forall o ts s d, fst (do_all o ts s d) = run_ok o ts s.
Proof.
  induction ts as [|t r IH]; intros s d; [reflexivity|]. cbn [do_all].
  destruct (do_task o t s) as [s' x] eqn:E. rewrite IH. unfold run_ok. cbn [fold_left]. rewrite E. reflexivity.
Qed.

Lemma run_ok_strip : forall o ts s, run_ok o ts s = run_ok o (filter essential ts) s.
Proof.
  unfold run_ok. induction ts as [|[k r] ts IH]; intros s; simpl; [reflexivity|].
  destruct k; simpl; try apply IH; unfold essential; simpl; apply IH.
Qed.

Lemma run_change_ok : forall o ts s, run_change o 0 ts s = run_ok o (filter essential ts) s.
Proof. intros. unfold run_change. rewrite do_all_run_ok. apply run_ok_strip. Qed.

Lemma norm_id : forall s, seq s <> [] -> norm s = s.
Proof. intros s H. unfold norm. destruct (seq s); congruence. Qed.

(* ------------------------------------------------------------------------------------------------ C13: revert *)

Definition revert_result (o : op) (s : st) : st :=
  do_configure o (fst (do_link o (do_unlink_current s))).

Lemma revert_runs : forall o s retain inuse,
  okind o = ORevert -> accepts o s = true ->
  run_change o 0 (tasks_for o s retain inuse) s = revert_result o s.
Proof.
  intros o s retain inuse K AC. rewrite run_change_ok.
  assert (RV : is_revert o = true) by (unfold is_revert; rewrite K; reflexivity).
  unfold tasks_for. rewrite K. rewrite install_tasks_ess. unfold ess_pre.
  unfold accepts in AC. rewrite K in AC. bool_hyps.
  match goal with H : mem (orev o) (seq s) = true |- _ => rewrite H; rename H into M end.
  assert (I : installed s = true).
  { unfold installed. destruct (seq s); [discriminate M|reflexivity]. }
  rewrite I, RV.
  change (run_ok o [(KUnlinkCurrent, orev o); (KLink, orev o); (KConfigure, orev o)] s = revert_result o s).
  unfold run_ok, revert_result. cbn [fold_left]. unfold do_task at 3. cbn [fst snd].
  unfold do_task at 2. cbn [fst snd]. destruct (do_link o (do_unlink_current s)). reflexivity.
Qed.

(* a completed revert: same kept revisions in the same order, the target is current, active and linked, nothing is
   mounted or copied or discarded, Block() = the revisions after the target minus the not-blocked ones *)
Theorem revert_in_place : forall o s retain inuse,
  wf s -> okind o = ORevert -> accepts o s = true ->
  let r := run_change o 0 (tasks_for o s retain inuse) s in
  seq r = seq s /\ cur r = orev o /\ active r = true /\ link r = orev o /\ mounted r = mounted s /\
  forallb (fun t => negb (kind_eqb (fst t) KCopyData || kind_eqb (fst t) KMount || kind_eqb (fst t) KDiscard))
          (tasks_for o s retain inuse) = true.
Proof.
  intros o s retain inuse W K AC. cbv zeta. rewrite revert_runs; auto.
  assert (RV : is_revert o = true) by (unfold is_revert; rewrite K; reflexivity).
  pose proof AC as AC'. unfold accepts in AC'. rewrite K in AC'. bool_hyps.
  match goal with H : mem (orev o) (seq s) = true |- _ => rename H into M end.
  assert (NE : seq s <> []) by (destruct (seq s); [discriminate M|discriminate]).
  unfold revert_result, do_unlink_current. rewrite (norm_id (set_active_link false 0 s)) by (simpl; exact NE).
  unfold do_link. rewrite RV. simpl.
  assert (LI : exists i, last_index (orev o) (seq s) = Some i).
  { destruct (last_index (orev o) (seq s)) eqn:E; eauto. apply last_index_none in E. apply mem_In in M. tauto. }
  destruct LI as [i LI]. rewrite LI. simpl.
  unfold do_configure. destruct (ohookcfg o =? 0); simpl; repeat split; auto;
    unfold tasks_for; rewrite K; unfold install_tasks; rewrite RV, M;
    assert (I : installed s = true) by (unfold installed; destruct (seq s); congruence);
    rewrite I; simpl; reflexivity.
Qed.

Theorem revert_block : forall o s retain inuse i,
  wf s -> okind o = ORevert -> accepts o s = true -> last_index (orev o) (seq s) = Some i ->
  block (run_change o 0 (tasks_for o s retain inuse) s)
  = filter (fun r => negb (mem r (if onotblocked o then ins (cur s) (nb s) else rem (cur s) (nb s))))
           (skipn (S i) (seq s)).
Proof.
  intros o s retain inuse i W K AC LI. rewrite revert_runs; auto.
  assert (RV : is_revert o = true) by (unfold is_revert; rewrite K; reflexivity).
  pose proof AC as AC'. unfold accepts in AC'. rewrite K in AC'. bool_hyps.
  match goal with H : mem (orev o) (seq s) = true |- _ => rename H into M end.
  assert (NE : seq s <> []) by (destruct (seq s); [discriminate M|discriminate]).
  unfold revert_result, do_unlink_current. rewrite (norm_id (set_active_link false 0 s)) by (simpl; exact NE).
  unfold do_link. rewrite RV. simpl. rewrite LI. simpl.
  unfold do_configure, block. destruct (ohookcfg o =? 0); simpl; rewrite LI; reflexivity.
Qed.

(* what Revert / RevertToRevision refuse, and that a refused operation changes nothing *)
Theorem revert_preconditions : forall o s k retain inuse,
  okind o = ORevert -> odefault o = false ->
  (accepts o s = true <-> (In (orev o) (seq s) /\ orev o <> cur s /\ active s = true)) /\
  (accepts o s = false -> step o k retain inuse s = s).
Proof.
  intros o s k retain inuse K D. split.
  - unfold accepts. rewrite K, D. simpl. rewrite !andb_true_iff, negb_true_iff, N.eqb_neq, mem_In. tauto.
  - intros H. unfold step. rewrite H. reflexivity.
Qed.

Theorem revert_default_target : forall o s,
  okind o = ORevert -> odefault o = true -> accepts o s = true ->
  exists i, last_index (cur s) (seq s) = Some (S i) /\ nth_error (seq s) i = Some (orev o).
Proof.
  intros o s K D AC. unfold accepts in AC. rewrite K, D in AC. bool_hyps.
  unfold previous in *. destruct (last_index (cur s) (seq s)) as [[|i]|]; try discriminate.
  exists i. split; auto. destruct (nth_error (seq s) i); [|discriminate]. bool_hyps. congruence.
Qed.

(* ------------------------------------------------------------------------------------------------ C11: the invariant *)

(* what C11 states, read off the invariant *)
Theorem wf_consistent : forall s, wf s ->
  NoDup (seq s) /\ (seq s <> [] -> In (cur s) (seq s)) /\ (forall x, In x (mounted s) <-> In x (seq s)) /\
  (active s = true -> link s = cur s) /\ (active s = false -> link s = 0) /\
  (seq s = [] -> active s = false /\ link s = 0 /\ cfg s = 0 /\ mounted s = [] /\ cur s = 0).
Proof.
  intros s [W1 W2 W3 W4 W5 W6 W7 W8].
  refine (conj W1 (conj W2 (conj W7 (conj _ (conj _ _))))).
  - intros A. rewrite W8, A. reflexivity.
  - intros A. rewrite W8, A. reflexivity.
  - intros E. rewrite (W3 E). simpl. auto.
Qed.

Lemma wf_forget : forall a b, forget a = forget b -> wf b -> wf a.
Proof.
  intros [] [] H [W1 W2 W3 W4 W5 W6 W7 W8]. unfold forget in H. simpl in *. injection H; intros; subst.
  constructor; simpl; auto.
  intros E. specialize (W3 E). injection W3; intros; subst. reflexivity.
Qed.

(* a failed and undone install / refresh / revert (before the first completed discard, outside the recorded classes)
   leaves a well-formed state *)
Theorem failed_op_wf : forall s o j retain inuse,
  wf s -> c10_op o -> accepts o s = true ->
  forallb (fun t => negb (is_discard t)) (firstn j (tasks_for o s retain inuse)) = true ->
  cfg_guard o s ->
  wf (run_change o (S j) (tasks_for o s retain inuse) s).
Proof. intros. eapply wf_forget; [apply failed_op_restores; auto|assumption]. Qed.

(* a refused operation changes nothing *)
Theorem refused_unchanged : forall o k retain inuse s, accepts o s = false -> step o k retain inuse s = s.
Proof. intros. unfold step. rewrite H. reflexivity. Qed.

(* completed revert *)
Theorem revert_wf : forall o s retain inuse,
  wf s -> okind o = ORevert -> accepts o s = true -> wf (run_change o 0 (tasks_for o s retain inuse) s).
Proof.
  intros o s retain inuse W K AC. rewrite revert_runs; auto.
  assert (RV : is_revert o = true) by (unfold is_revert; rewrite K; reflexivity).
  pose proof AC as AC'. unfold accepts in AC'. rewrite K in AC'. bool_hyps.
  match goal with H : mem (orev o) (seq s) = true |- _ => rename H into M end.
  assert (IN : In (orev o) (seq s)) by (apply mem_In; exact M).
  assert (NE : seq s <> []) by (destruct (seq s); [destruct IN|discriminate]).
  destruct W as [W1 W2 W3 W4 W5 W6 W7 W8].
  unfold revert_result, do_unlink_current. rewrite (norm_id (set_active_link false 0 s)) by (simpl; exact NE).
  unfold do_link. rewrite RV. simpl.
  destruct (last_index (orev o) (seq s)) as [i|] eqn:LI; [|apply last_index_none in LI; tauto].
  assert (NBI : incl (if onotblocked o then ins (cur s) (nb s) else rem (cur s) (nb s)) (seq s)).
  { destruct (onotblocked o); intros x Hx.
    - apply In_ins in Hx. destruct Hx as [->|Hx]; auto.
    - apply In_rem in Hx. apply W4. tauto. }
  assert (NBS : sorted (if onotblocked o then ins (cur s) (nb s) else rem (cur s) (nb s))).
  { destruct (onotblocked o); [apply sorted_ins|apply sorted_rem]; auto. }
  unfold do_configure. destruct (ohookcfg o =? 0); simpl; constructor; simpl; auto; try congruence.
Qed.

(* completed install *)
Theorem install_wf : forall o s retain inuse,
  wf s -> okind o = OInstall -> accepts o s = true -> wf (run_change o 0 (tasks_for o s retain inuse) s).
Proof.
  intros o s retain inuse W K AC. rewrite run_change_ok.
  assert (NR : is_revert o = false) by (unfold is_revert; rewrite K; reflexivity).
  unfold accepts in AC. rewrite K in AC. bool_hyps.
  unfold installed in *. destruct (seq s) as [|x0 l0] eqn:SQ; [|discriminate].
  destruct W as [W1 W2 W3 W4 W5 W6 W7 W8]. specialize (W3 SQ).
  unfold tasks_for. rewrite K, install_tasks_ess. unfold ess_pre, installed. rewrite SQ, NR. simpl.
  change (wf (run_ok o [(KMount, orev o); (KLink, orev o); (KConfigure, orev o)] s)).
  unfold run_ok. cbn [fold_left]. unfold do_task at 3. cbn [fst snd]. unfold do_task at 2. cbn [fst snd].
  rewrite W3. unfold do_mount, do_link. rewrite NR. cbn.
  unfold do_task, do_configure. cbn.
  destruct (ohookcfg o =? 0); cbn; constructor; cbn; try tauto; try discriminate; auto.
  all: try (repeat constructor; fail).
  all: try (intros x [<-|[]]; left; reflexivity).
  all: try (intros x []).
  all: try (constructor; [intros []|constructor]).
Qed.

(* completed disable *)
Theorem disable_wf : forall o s retain inuse,
  wf s -> okind o = ODisable -> accepts o s = true -> wf (run_change o 0 (tasks_for o s retain inuse) s).
Proof.
  intros o s retain inuse W K AC. rewrite run_change_ok.
  unfold accepts in AC. rewrite K in AC. bool_hyps.
  unfold installed in *. destruct (seq s) as [|x0 l0] eqn:SQ; [discriminate|].
  unfold tasks_for. rewrite K.
  change (wf (run_ok o [(KUnlinkSnap, cur s)] s)). unfold run_ok. cbn.
  unfold do_unlink_snap. rewrite norm_id by (simpl; rewrite SQ; discriminate).
  destruct W as [W1 W2 W3 W4 W5 W6 W7 W8]. constructor; simpl; auto.
  intros E. rewrite SQ in E. discriminate.
Qed.

(* ------------------------------------------------------------------------------------------------ C12: retain *)

(* refreshRetain: a number or a legacy string gives that number; unset (or zero) gives 2 on classic, 3 on core *)
Theorem retain_resolution : forall r c,
  retain_of r c = match r with
                  | RUnset => if c then 2%Z else 3%Z
                  | RNum n | RStr n => if (n =? 0)%Z then (if c then 2%Z else 3%Z) else n
                  end.
Proof. intros [|n|n] c; unfold retain_of; simpl; reflexivity. Qed.

Theorem retain_in_range : forall r c n, (r = RNum n \/ r = RStr n) -> (2 <= n <= 20)%Z -> retain_of r c = n.
Proof.
  intros r c n [-> | ->] H; unfold retain_of; destruct (n =? 0)%Z eqn:E; auto; apply Z.eqb_eq in E; lia.
Qed.

Lemma drop_target_notin : forall fuel i target l ci,
  ~ In target l -> (ci <= length l)%nat -> drop_target fuel i target l ci = (l, ci).
Proof.
  induction fuel as [|f IH]; intros i target l ci NI LE; simpl; [reflexivity|].
  destruct (i <? ci)%nat eqn:L; [|reflexivity].
  apply Nat.ltb_lt in L.
  destruct (nth i l 0 =? target) eqn:Q.
  - apply N.eqb_eq in Q. exfalso. apply NI. rewrite <- Q. apply nth_In. lia.
  - apply IH; auto.
Qed.

Lemma filter_all : forall (f : N -> bool) l, (forall x, In x l -> f x = true) -> filter f l = l.
Proof.
  induction l as [|y r IH]; simpl; intros H; [reflexivity|].
  rewrite (H y) by auto. rewrite IH; auto.
Qed.

Lemma last_index_lt : forall x l i, last_index x l = Some i -> (i < length l)%nat.
Proof.
  induction l as [|y r IH]; simpl; intros i H; [discriminate|].
  destruct (last_index x r) as [j|] eqn:E.
  - inversion H; subst. specialize (IH j eq_refl). lia.
  - destruct (x =? y); inversion H; subst. lia.
Qed.

Lemma In_skipn : forall (n : nat) (l : list N) x, In x (skipn n l) -> In x l.
Proof.
  induction n as [|n IH]; intros l x H; [exact H|]. destruct l as [|y r]; [destruct H|]. right. apply IH. exact H.
Qed.
Lemma In_firstn : forall (n : nat) (l : list N) x, In x (firstn n l) -> In x l.
Proof.
  induction n as [|n IH]; intros l x H; [destruct H|]. destruct l as [|y r]; [destruct H|].
  destruct H as [H|H]; [left; exact H|right; apply IH; exact H].
Qed.

(* garbage collection of a refresh to a revision that is not kept yet: every revision after the current one, then
   the oldest (index of current + 2 - retain) revisions that are not in use for booting — nothing else *)
Theorem gc_new_revision : forall s target retain inuse ci,
  ~ In target (seq s) -> last_index (cur s) (seq s) = Some ci ->
  gc_revs s target retain inuse
  = skipn (S ci) (seq s) ++ filter (fun r => negb (inuse r)) (firstn (Z.to_nat (Z.of_nat ci + 2 - retain)) (seq s)).
Proof.
  intros s target retain inuse ci NI LI. unfold gc_revs. rewrite LI.
  assert (M : mem target (seq s) = false) by (apply mem_false; exact NI). rewrite M.
  rewrite drop_target_notin; auto; [|apply last_index_lt in LI; lia].
  f_equal.
  - apply filter_all. intros x Hx. apply negb_true_iff, N.eqb_neq. intros ->. apply NI.
    eapply (In_skipn (S ci)). exact Hx.
  - do 3 f_equal. lia.
Qed.

(* ... so neither the target nor the current revision is ever among them when retain >= 2, and at most
   (retain - 1) of the revisions up to the current one survive unless they are in use *)
Theorem gc_new_keeps_current : forall s target retain inuse ci,
  NoDup (seq s) -> ~ In target (seq s) -> last_index (cur s) (seq s) = Some ci -> (2 <= retain)%Z ->
  ~ In target (gc_revs s target retain inuse) /\ ~ In (cur s) (gc_revs s target retain inuse).
Proof.
  intros s target retain inuse ci ND NI LI R. rewrite (gc_new_revision s target retain inuse ci); auto.
  destruct (last_index_split _ _ _ ND LI) as (a & b & SQ & LA & Na & Nb).
  split; rewrite in_app_iff; intros [H|H].
  - apply NI. eapply In_skipn; eauto.
  - apply filter_In in H. apply NI. eapply In_firstn; apply H.
  - rewrite SQ, <- LA in H. replace (S (length a)) with (length (a ++ [cur s])) in H by (rewrite app_length; simpl; lia).
    replace (a ++ cur s :: b) with ((a ++ [cur s]) ++ b) in H by (rewrite <- app_assoc; reflexivity).
    rewrite skipn_app_exact in H. tauto.
  - apply filter_In in H. destruct H as [H _]. rewrite SQ in H.
    assert (LE : (Z.to_nat (Z.of_nat ci + 2 - retain) <= length a)%nat) by lia.
    rewrite firstn_app in H. replace (Z.to_nat (Z.of_nat ci + 2 - retain) - length a)%nat with O in H by lia.
    simpl in H. rewrite app_nil_r in H. apply Na. eapply In_firstn; eauto.
Qed.
