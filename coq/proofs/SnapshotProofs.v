(* C32 -- proofs about models/Snapshot.v (overlord/snapshotstate/backend). *)
From Coq Require Import List NArith Bool Arith Lia ZifyBool ZifyNat ZifyN.
Import ListNotations.
Require Import V.lib.Bytes V.models.Snapshot.
Open Scope N_scope.

(* ================================================================ restore *)

Lemma lookup_remove : forall k n d, lookup k (remove n d) = if n =? k then None else lookup k d.
Proof.
  intros k n d. unfold remove. induction d as [|[a t] d IH]; cbn [filter lookup fst].
  - now destruct (n =? k).
  - destruct (a =? n) eqn:E1; cbn [negb lookup].
    + apply N.eqb_eq in E1. subst a. rewrite IH. destruct (n =? k); reflexivity.
    + rewrite IH. destruct (a =? k) eqn:E2; [|reflexivity].
      apply N.eqb_eq in E2. subst a. rewrite N.eqb_sym in E1. now rewrite E1.
Qed.

Lemma lookup_set : forall k n t d, lookup k (set n t d) = if n =? k then Some t else lookup k d.
Proof.
  intros k n t d. unfold set. cbn [lookup]. destruct (n =? k) eqn:E; [reflexivity|].
  rewrite lookup_remove. now rewrite E.
Qed.

Definition undo_dir (d : dir) (lg : rlog) : dir :=
  fold_left rename_back (l_moved lg) (fold_left (fun d n => remove n d) (l_created lg) d).

Definition deq (a b : dir) : Prop := forall k, lookup k a = lookup k b.

(* shapes of the result of moveFile *)
Lemma move_file_cases : forall d lg tmp file f d' lg' ok f',
  move_file d lg tmp file f = (d', lg', ok, f') ->
  (d' = d /\ lg' = lg) \/
  (exists old, lookup file d = Some old /\ ok = false /\
     d' = set (bk file) old (remove file d) /\ lg' = add_moved lg (bk file)) \/
  (exists old t, lookup file d = Some old /\ ok = true /\
     d' = set file t (set (bk file) old (remove file d)) /\ lg' = add_created (add_moved lg (bk file)) file) \/
  (exists t, lookup file d = None /\ ok = true /\ d' = set file t d /\ lg' = add_created lg file).
Proof.
  intros d lg tmp file f d' lg' ok f' H. unfold move_file in H.
  destruct (tick f) as [f1|]; [|inversion H; subst; auto].
  destruct (lookup file tmp) as [t|]; [|inversion H; subst; auto].
  destruct (tick f1) as [f2|]; [|inversion H; subst; auto].
  destruct (lookup file d) as [old|] eqn:El.
  - destruct (tick f2) as [f3|]; [|inversion H; subst; auto].
    destruct (tick f3) as [f4|]; inversion H; subst.
    + right; right; left. exists old, t. auto.
    + right; left. exists old. auto.
  - destruct (tick f2) as [f3|]; inversion H; subst; auto.
    right; right; right. exists t. auto.
Qed.

(* decide every test between names that lia can decide, simplify the lookups *)
Ltac name_tests :=
  repeat match goal with
         | |- context [(?a =? ?b)] =>
             first [ replace (a =? b) with true by (symmetry; apply N.eqb_eq; lia)
                   | replace (a =? b) with false by (symmetry; apply N.eqb_neq; lia) ]
         end.
Ltac look := repeat (rewrite ?lookup_set, ?lookup_remove; name_tests; cbv iota beta).

Ltac split_k k :=
  repeat match goal with
         | |- context [(?a =? k)] => let E := fresh "Ek" in destruct (a =? k) eqn:E;
                                     [apply N.eqb_eq in E; try subst k | apply N.eqb_neq in E]
         end.

(* the two moves of one entry, then Revert: the directory is as before, whatever failed *)
Lemma moves_undo : forall d tmp revdir f lp d6 lg6 ok6 f6,
  revdir <> 0 -> (exists h, revdir = 2 * h) ->
  lookup 1 d = None -> lookup (revdir + 1) d = None ->
  move_file d {| l_parent := lp; l_created := []; l_moved := [] |} tmp common f = (d6, lg6, ok6, f6) ->
  (l_parent lg6 = lp /\ deq (undo_dir d6 lg6) d) /\
  forall d7 lg7 ok7 f7, move_file d6 lg6 tmp revdir f6 = (d7, lg7, ok7, f7) ->
    l_parent lg7 = lp /\ deq (undo_dir d7 lg7) d.
Proof.
  intros d tmp revdir f lp d6 lg6 ok6 f6 Hr0 [h Hh] Hf1 Hf2 H6.
  unfold common, bk, orig in *.
  apply move_file_cases in H6.
  destruct H6 as [[-> ->] | [(old & Hl & -> & -> & ->) | [(old & t & Hl & -> & -> & ->) | (t & Hl & -> & -> & ->)]]];
    (split; [split; [reflexivity|] |
             intros d7 lg7 ok7 f7 H7; apply move_file_cases in H7;
             destruct H7 as [[-> ->] | [(old2 & Hl2 & -> & -> & ->) | [(old2 & t2 & Hl2 & -> & -> & ->) | (t2 & Hl2 & -> & -> & ->)]]];
             (split; [reflexivity|])]);
    unfold undo_dir, deq, common, bk, orig in *; cbn [l_created l_moved add_created add_moved app fold_left];
    unfold rename_back, common, bk, orig; intro k;
    repeat (look; try rewrite Hl; try rewrite Hf1; try rewrite Hf2; cbv iota beta);
    try (revert Hl2; look; intro Hl2);
    repeat (look; try rewrite Hl; try rewrite Hl2; try rewrite Hf1; try rewrite Hf2; cbv iota beta);
    split_k k; try reflexivity; try congruence; try lia;
    try replace (revdir + 1 - 1) with revdir by lia; try replace (0 + 1 - 1) with 0 by lia;
    try replace (0 + 1) with 1 by lia; congruence.
Qed.

Definition peq (a b : pstate) : Prop :=
  match a, b with
  | None, None => True
  | Some x, Some y => deq x y
  | _, _ => False
  end.

Lemma peq_refl : forall a, peq a a.
Proof. intros [d|]; cbn; [intro k; reflexivity | exact I]. Qed.

Lemma wf_name_spec : forall n, wf_name n = true -> n <> 0 /\ exists h, n = 2 * h.
Proof.
  intros n H. unfold wf_name, even_name, common in H. apply andb_true_iff in H. destruct H as [He Hn].
  split; [lia|]. apply N.even_spec in He. destruct He as [h ->]. now exists h.
Qed.

Lemma wf_dir_fresh : forall d n, forallb (fun kv : name * tree => even_name (fst kv)) d = true -> lookup (n * 2 + 1) d = None.
Proof.
  induction d as [|[a t] d IH]; intros n H; cbn [lookup]; [reflexivity|].
  cbn [forallb fst] in H. apply andb_true_iff in H. destruct H as [Ha Hd].
  unfold even_name in Ha. apply N.even_spec in Ha. destruct Ha as [h ->].
  replace (2 * h =? n * 2 + 1) with false by (symmetry; apply N.eqb_neq; lia). now apply IH.
Qed.

Lemma revert_empty_log : forall st, peq (revert_one (st, empty_log)) st.
Proof. intros [d|]; cbn; [intro k; reflexivity | exact I]. Qed.

(* one entry, parent directory present: whatever step fails (or none), Revert gives back the directory as it was *)
Lemma restore_in_revert : forall cur d lp e f2 st' lg ok f',
  match cur with Some c => wf_name c | None => true end = true ->
  (forall n, lookup (n * 2 + 1) d = None) -> wf_name (e_rev e) = true ->
  restore_in cur d {| l_parent := lp; l_created := []; l_moved := [] |} e f2 = (st', lg, ok, f') ->
  exists d', st' = Some d' /\ l_parent lg = lp /\ deq (undo_dir d' lg) d.
Proof.
  intros cur d lp e f2 st' lg ok f' Hc Hfresh Hrev H'.
  assert (Hearly : exists d', Some d = Some d' /\ l_parent {| l_parent := lp; l_created := []; l_moved := [] |} = lp /\
                              deq (undo_dir d' {| l_parent := lp; l_created := []; l_moved := [] |}) d).
  { exists d. repeat split. }
  unfold restore_in in H'.
  destruct (tick f2) as [f3|]; [|inversion H'; subst; exact Hearly].
  destruct (tick f3) as [f4|]; [|inversion H'; subst; exact Hearly].
  destruct (negb (e_extract_ok e)); [inversion H'; subst; exact Hearly|].
  destruct (negb (e_digest_ok e)); [inversion H'; subst; exact Hearly|].
  cbv zeta in H'.
  match type of H' with match ?r5 with _ => _ end = _ => destruct r5 as [[[tmp5 revdir] f5]|] eqn:E5 end;
    [|inversion H'; subst; exact Hearly].
  assert (Hrd : wf_name revdir = true).
  { destruct cur as [c|].
    - destruct (c =? e_rev e); [inversion E5; subst; exact Hrev|].
      destruct (tick f4); [|discriminate].
      destruct (lookup (e_rev e) (e_extracted e)); try discriminate;
        destruct (lookup c (e_extracted e)); try discriminate; inversion E5; subst; exact Hc.
    - inversion E5; subst; exact Hrev. }
  apply wf_name_spec in Hrd. destruct Hrd as [Hr0 [h Hh]].
  destruct (move_file d {| l_parent := lp; l_created := []; l_moved := [] |} tmp5 common f5) as [[[d6 lg6] ok6] f6] eqn:E6.
  assert (F1 : lookup 1 d = None) by (apply (Hfresh 0)).
  assert (F2 : lookup (revdir + 1) d = None) by (subst revdir; replace (2 * h + 1) with (h * 2 + 1) by lia; apply Hfresh).
  destruct (moves_undo d tmp5 revdir f5 lp d6 lg6 ok6 f6 Hr0 (ex_intro _ h Hh) F1 F2 E6) as [[Hp6 Hu6] H7].
  destruct (negb ok6); [inversion H'; subst; exists d6; auto|].
  destruct (move_file d6 lg6 tmp5 revdir f6) as [[[d7 lg7] ok7] f7] eqn:E7.
  destruct (H7 _ _ _ _ eq_refl) as [Hp7 Hu7]. inversion H'; subst. exists d7; auto.
Qed.

Lemma restore_one_revert : forall cur st e f st' lg ok f',
  match cur with Some c => wf_name c | None => true end = true ->
  wf_pstate st = true -> wf_name (e_rev e) = true ->
  restore_one cur st e f = (st', lg, ok, f') ->
  peq (revert_one (st', lg)) st.
Proof.
  intros cur st e f st' lg ok f' Hc Hst Hrev H.
  unfold restore_one in H.
  destruct (tick f) as [f1|]; [|inversion H; subst; apply revert_empty_log].
  destruct st as [d|].
  - destruct (restore_in_revert cur d false e f1 st' lg ok f' Hc (fun n => wf_dir_fresh d n Hst) Hrev H) as (d' & -> & Hp & Hu).
    cbn [revert_one]. rewrite Hp. exact Hu.
  - destruct (tick f1) as [f2|]; [|inversion H; subst; exact I].
    destruct (restore_in_revert cur [] true e f2 st' lg ok f' Hc (fun n => eq_refl) Hrev H) as (d' & -> & Hp & Hu).
    cbn [revert_one]. rewrite Hp. exact I.
Qed.

Inductive all_peq : list pstate -> list pstate -> Prop :=
| ap_nil : all_peq [] []
| ap_cons : forall a b l m, peq a b -> all_peq l m -> all_peq (a :: l) (b :: m).

Lemma wf_case_cons : forall cur st e r, wf_case cur ((st, e) :: r) = true ->
  match cur with Some c => wf_name c | None => true end = true /\ wf_pstate st = true /\ wf_name (e_rev e) = true /\
  wf_case cur r = true.
Proof.
  intros cur st e r H. unfold wf_case in *. cbn [forallb fst snd] in H.
  apply andb_true_iff in H. destruct H as [Hc H].
  apply andb_true_iff in H. destruct H as [H Hr].
  apply andb_true_iff in H. destruct H as [Hs He].
  repeat split; auto. apply andb_true_iff. split; assumption.
Qed.

Lemma revert_untouched : forall r, all_peq (map revert_one (map (fun se : pstate * rentry => (fst se, empty_log)) r)) (map fst r).
Proof.
  induction r as [|[st e] r IH]; cbn [map fst]; constructor; [apply revert_empty_log | exact IH].
Qed.

(* all entries: after Revert every parent directory is as it was, wherever (and whether) the restore failed *)
Theorem restore_all_revert : forall cur es f,
  wf_case cur es = true ->
  all_peq (map revert_one (fst (restore_all cur es f))) (map fst es).
Proof.
  intros cur es. induction es as [|[st e] r IH]; intros f Hwf; cbn [restore_all].
  - constructor.
  - apply wf_case_cons in Hwf. destruct Hwf as (Hc & Hst & Hrev & Hr).
    destruct (restore_one cur st e f) as [[[st' lg] ok] f'] eqn:E1.
    pose proof (restore_one_revert _ _ _ _ _ _ _ _ Hc Hst Hrev E1) as H1.
    destruct ok.
    + specialize (IH f' Hr). destruct (restore_all cur r f') as [rest ok'].
      cbn [fst map]. constructor; assumption.
    + cbn [fst map]. constructor; [assumption | apply revert_untouched].
Qed.

Theorem restore_failure_identity : forall cur es f a,
  wf_case cur es = true ->
  fst (restore cur es f a) = false \/ a = ARevert ->
  all_peq (snd (restore cur es f a)) (map fst es).
Proof.
  intros cur es f a Hwf H. pose proof (restore_all_revert cur es f Hwf) as HR.
  unfold restore in *. destruct (restore_all cur es f) as [res ok]. cbn [fst] in HR.
  destruct ok; cbn [fst snd] in *.
  - destruct H as [H | ->]; [discriminate | exact HR].
  - exact HR.
Qed.

(* size / digest mismatch or extraction failure: detected before anything in the parent directory is moved *)
Theorem mismatch_detected_before_move : forall cur st e f st' lg ok f',
  e_extract_ok e = false \/ e_digest_ok e = false ->
  restore_one cur st e f = (st', lg, ok, f') ->
  ok = false /\ l_created lg = [] /\ l_moved lg = [] /\
  (st' = st \/ (st = None /\ st' = Some [])).
Proof.
  intros cur st e f st' lg ok f' Hbad H. unfold restore_one, restore_in in H.
  destruct (tick f) as [f1|]; [|inversion H; subst; cbn; repeat split; auto].
  destruct st as [d|].
  - destruct (tick f1) as [f3|]; [|inversion H; subst; cbn; repeat split; auto].
    destruct (tick f3) as [f4|]; [|inversion H; subst; cbn; repeat split; auto].
    destruct (e_extract_ok e); cbn [negb] in H; [|inversion H; subst; cbn; repeat split; auto].
    destruct (e_digest_ok e); cbn [negb] in H; [|inversion H; subst; cbn; repeat split; auto].
    destruct Hbad; discriminate.
  - destruct (tick f1) as [f2|]; [|inversion H; subst; cbn; repeat split; auto].
    destruct (tick f2) as [f3|]; [|inversion H; subst; cbn; repeat split; auto].
    destruct (tick f3) as [f4|]; [|inversion H; subst; cbn; repeat split; auto].
    destruct (e_extract_ok e); cbn [negb] in H; [|inversion H; subst; cbn; repeat split; auto].
    destruct (e_digest_ok e); cbn [negb] in H; [|inversion H; subst; cbn; repeat split; auto].
    destruct Hbad; discriminate.
Qed.

(* ================================================================ import *)

Lemma beq_refl32 : forall a, beq a a = true.
Proof. induction a as [|x a IH]; cbn [beq]; [reflexivity | now rewrite N.eqb_refl, IH]. Qed.

Lemma beq_eq32 : forall a b, beq a b = true -> a = b.
Proof.
  induction a as [|x a IH]; destruct b as [|y b]; cbn [beq]; intro H; try reflexivity; try discriminate.
  apply andb_true_iff in H. destruct H as [H1 H2]. apply N.eqb_eq in H1. apply IH in H2. now subst.
Qed.

Lemma split_on_nonempty : forall c s, split_on c s <> [].
Proof.
  intros c s. destruct s as [|x r]; cbn [split_on]; [discriminate|].
  destruct (x =? c); [discriminate|]. destruct (split_on c r); discriminate.
Qed.

(* a component that is not the last one is followed by the separator in the string *)
Lemma split_head : forall c r h t, split_on c r = h :: t -> t <> [] -> exists r', r = h ++ c :: r'.
Proof.
  intros c r. induction r as [|x r IH]; intros h t H Ht; cbn [split_on] in H.
  - inversion H; subst. contradiction.
  - destruct (x =? c) eqn:E.
    + apply N.eqb_eq in E. subst x. inversion H; subst. now exists r.
    + destruct (split_on c r) as [|h0 t0] eqn:Es; [now destruct (split_on_nonempty c r)|].
      inversion H; subst. destruct (IH h0 t eq_refl Ht) as [r' ->]. now exists r'.
Qed.

Fixpoint dd_only_last (l : list bytes) : bool :=
  match l with
  | [] => true
  | c :: r => match r with [] => true | _ => negb (beq c s_dotdot) && dd_only_last r end
  end.

Lemma no_dotdotslash_split : forall s, contains s_dotdotslash s = false -> dd_only_last (split_on c_slash s) = true.
Proof.
  induction s as [|x r IH]; intro H; [reflexivity|].
  cbn [contains] in H. apply orb_false_iff in H. destruct H as [Hp Hc]. specialize (IH Hc).
  cbn [split_on]. destruct (x =? c_slash) eqn:E.
  - destruct (split_on c_slash r) as [|h t] eqn:Es; [now destruct (split_on_nonempty c_slash r)|].
    cbn [dd_only_last] in *. now rewrite IH.
  - destruct (split_on c_slash r) as [|h t] eqn:Es; [now destruct (split_on_nonempty c_slash r)|].
    destruct t as [|h2 t2]; [reflexivity|].
    change (dd_only_last ((x :: h) :: h2 :: t2)) with (negb (beq (x :: h) s_dotdot) && dd_only_last (h2 :: t2)).
    change (dd_only_last (h :: h2 :: t2)) with (negb (beq h s_dotdot) && dd_only_last (h2 :: t2)) in IH.
    apply andb_true_iff in IH. destruct IH as [_ IH2]. rewrite IH2, andb_true_r.
    destruct (beq (x :: h) s_dotdot) eqn:Eb; [|reflexivity].
    apply beq_eq32 in Eb. unfold s_dotdot in Eb. inversion Eb; subst.
    destruct (split_head c_slash r [46] (h2 :: t2) Es ltac:(discriminate)) as [r' ->].
    cbn in Hp. discriminate.
Qed.

Lemma contains_suffix : forall p c s a rest, cut_first c s = Some (a, rest) -> contains p rest = true -> contains p s = true.
Proof.
  intros p c s. induction s as [|x r IH]; intros a rest H Hc; cbn [cut_first] in H; [discriminate|].
  cbn [contains]. apply orb_true_iff. right.
  destruct (x =? c).
  - inversion H; subst. exact Hc.
  - destruct (cut_first c r) as [[a0 b0]|] eqn:E; [|discriminate]. inversion H; subst. eapply IH; eauto.
Qed.

Lemma contains_app_r : forall p a s, contains p s = true -> contains p (a ++ s) = true.
Proof.
  intros p a s H. induction a as [|x a IH]; [exact H|]. cbn [app contains]. apply orb_true_iff. now right.
Qed.

(* path.Clean on a component list whose only possible `..` is the last component *)
Lemma clean_plain : forall comps stack, dd_only_last comps = true ->
  exists pushed, forallb plain_comp pushed = true /\
    (clean_comps stack comps = rev (pushed ++ stack) \/ clean_comps stack comps = rev (tl (pushed ++ stack))).
Proof.
  induction comps as [|c r IH]; intros stack H.
  - exists []. split; [reflexivity | now left].
  - cbn [clean_comps].
    destruct (is_nil_b c || beq c s_dot) eqn:E1.
    + destruct r as [|c2 r2]; [exists []; split; [reflexivity | now left]|].
      change (dd_only_last (c :: c2 :: r2)) with (negb (beq c s_dotdot) && dd_only_last (c2 :: r2)) in H.
      apply andb_true_iff in H. destruct H as [_ H]. exact (IH stack H).
    + destruct (beq c s_dotdot) eqn:E2.
      * destruct r as [|c2 r2]; [exists []; split; [reflexivity | now right]|].
        change (dd_only_last (c :: c2 :: r2)) with (negb (beq c s_dotdot) && dd_only_last (c2 :: r2)) in H.
        rewrite E2 in H. discriminate.
      * assert (Hr : dd_only_last r = true).
        { destruct r as [|c2 r2]; [reflexivity|].
          change (dd_only_last (c :: c2 :: r2)) with (negb (beq c s_dotdot) && dd_only_last (c2 :: r2)) in H.
          apply andb_true_iff in H. now destruct H. }
        destruct (IH (c :: stack) Hr) as (pushed & Hp & Hres).
        exists (pushed ++ [c]). split.
        -- rewrite forallb_app, Hp. cbn [forallb]. unfold plain_comp.
           apply orb_false_iff in E1. destruct E1 as [E1a E1b]. now rewrite E1a, E1b, E2.
        -- rewrite <- app_assoc. exact Hres.
Qed.

Lemma has_underscore_plain : forall a h, plain_comp (a ++ c_under :: h) = true.
Proof.
  intros a h. unfold plain_comp, s_dot, s_dotdot, c_under.
  destruct a as [|x [|y [|z a]]]; cbn [app is_nil_b beq negb andb];
    repeat match goal with |- context [(?u =? 46)] => is_var u; destruct (u =? 46) end;
    cbn; try reflexivity; destruct h; reflexivity.
Qed.

Lemma split_on_app_noslash : forall a x rest, forallb (fun b => negb (b =? c_slash)) a = true -> negb (x =? c_slash) = true ->
  exists h t, split_on c_slash rest = h :: t /\ split_on c_slash (a ++ x :: rest) = (a ++ x :: h) :: t.
Proof.
  intros a x rest Ha Hx. destruct (split_on c_slash rest) as [|h t] eqn:Es; [now destruct (split_on_nonempty c_slash rest)|].
  exists h, t. split; [reflexivity|].
  induction a as [|b a IH]; cbn [app split_on].
  - apply negb_true_iff in Hx. now rewrite Hx, Es.
  - cbn [forallb] in Ha. apply andb_true_iff in Ha. destruct Ha as [Hb Ha]. apply negb_true_iff in Hb.
    rewrite Hb, (IH Ha). reflexivity.
Qed.

Lemma dd_only_last_tail : forall c r, dd_only_last (c :: r) = true -> dd_only_last r = true.
Proof.
  intros c r H. destruct r as [|c2 r2]; [reflexivity|].
  change (dd_only_last (c :: c2 :: r2)) with (negb (beq c s_dotdot) && dd_only_last (c2 :: r2)) in H.
  apply andb_true_iff in H. now destruct H.
Qed.

Lemma strip_prefix_app : forall p l, strip_prefix p (p ++ l) = Some l.
Proof. induction p as [|x p IH]; intro l; cbn [app strip_prefix]; [reflexivity | now rewrite beq_refl32]. Qed.

Lemma list_beq_refl : forall l, list_beq l l = true.
Proof. induction l as [|x l IH]; cbn [list_beq]; [reflexivity | now rewrite beq_refl32, IH]. Qed.

(* the computed target is the snapshots directory followed by plain components (possibly none) *)
Lemma import_target_shape : forall sdir idb rest,
  forallb (fun b => negb (b =? c_slash)) idb = true ->
  contains s_dotdotslash rest = false ->
  exists rel, import_target sdir idb rest = sdir ++ rel /\ forallb plain_comp rel = true.
Proof.
  intros sdir idb rest Hid Hc. unfold import_target.
  destruct (split_on_app_noslash idb c_under rest Hid eq_refl) as (h & t & Es & ->).
  pose proof (no_dotdotslash_split rest Hc) as Hdd. rewrite Es in Hdd.
  assert (Hdd2 : dd_only_last ((idb ++ c_under :: h) :: t) = true).
  { destruct t as [|c2 t2]; [reflexivity|].
    change (dd_only_last ((idb ++ c_under :: h) :: c2 :: t2)) with (negb (beq (idb ++ c_under :: h) s_dotdot) && dd_only_last (c2 :: t2)).
    pose proof (has_underscore_plain idb h) as Hp. unfold plain_comp in Hp.
    apply andb_true_iff in Hp. destruct Hp as [_ Hp]. rewrite Hp. cbn [andb]. now apply dd_only_last_tail in Hdd. }
  cbn [clean_comps].
  pose proof (has_underscore_plain idb h) as Hp. unfold plain_comp in Hp.
  apply andb_true_iff in Hp. destruct Hp as [Hp Hp3]. apply andb_true_iff in Hp. destruct Hp as [Hp1 Hp2].
  apply negb_true_iff in Hp1, Hp2, Hp3. rewrite Hp1, Hp2, Hp3. cbn [orb].
  destruct (clean_plain t ((idb ++ c_under :: h) :: rev sdir) (dd_only_last_tail _ _ Hdd2)) as (pushed & Hpl & Hres).
  destruct Hres as [Hres | Hres].
  - exists ((idb ++ c_under :: h) :: rev pushed). split.
    + eapply eq_trans; [exact Hres|].
      rewrite rev_app_distr. cbn [rev]. rewrite rev_involutive, <- app_assoc. reflexivity.
    + cbn [forallb]. rewrite has_underscore_plain. cbn [andb]. rewrite forallb_forall in *. intros x Hx. apply Hpl. now apply in_rev.
  - destruct pushed as [|p ps]; cbn [app tl] in Hres.
    + exists []. split; [eapply eq_trans; [exact Hres|]; now rewrite rev_involutive, app_nil_r | reflexivity].
    + exists ((idb ++ c_under :: h) :: rev ps). split.
      * eapply eq_trans; [exact Hres|].
        rewrite rev_app_distr. cbn [rev]. rewrite rev_involutive, <- app_assoc. reflexivity.
      * cbn [forallb] in *. apply andb_true_iff in Hpl. destruct Hpl as [_ Hpl].
        rewrite has_underscore_plain. cbn [andb]. rewrite forallb_forall in *. intros x Hx. apply Hpl. now apply in_rev.
Qed.

(* every path on which import creates or writes a file is strictly below the snapshots directory *)
Theorem import_inside : forall sdir idb dirs ms ef,
  forallb (fun b => negb (b =? c_slash)) idb = true ->
  forallb (strictly_below sdir) (fst (import_run sdir idb dirs ms ef)) = true.
Proof.
  intros sdir idb dirs ms. induction ms as [|m r IH]; intros ef Hid; cbn [import_run]; [reflexivity|].
  destruct (m_kind m); try reflexivity.
  destruct (contains s_dotdotslash (m_name m)) eqn:Ec; [reflexivity|].
  destruct (beq (m_name m) s_content_json); [now apply IH|].
  destruct (beq (m_name m) s_export_json); [now apply IH|].
  destruct (cut_first c_under (m_name m)) as [[a rest]|] eqn:Ecut; [|reflexivity].
  destruct (can_create sdir dirs (import_target sdir idb rest)) eqn:Ecc; [|reflexivity].
  assert (Htgt : strictly_below sdir (import_target sdir idb rest) = true).
  { assert (Hrest : contains s_dotdotslash rest = false).
    { destruct (contains s_dotdotslash rest) eqn:E; [|reflexivity].
      rewrite (contains_suffix _ _ _ _ _ Ecut E) in Ec. discriminate. }
    destruct (import_target_shape sdir idb rest Hid Hrest) as (rel & Ht & Hpl).
    rewrite Ht in *. unfold strictly_below. rewrite strip_prefix_app.
    destruct rel as [|c rel]; [|exact Hpl].
    unfold can_create in Ecc. rewrite app_nil_r, list_beq_refl in Ecc. discriminate. }
  destruct (m_valid m).
  - specialize (IH ef Hid). destruct (import_run sdir idb dirs r ef) as [w ok]. cbn [fst forallb] in *.
    now rewrite IH, Htgt.
  - cbn [fst forallb]. now rewrite Htgt.
Qed.

(* ================================================================ restore: success *)

Lemma move_file_ok : forall d lg tmp file f d' lg' f',
  move_file d lg tmp file f = (d', lg', true, f') ->
  (lookup file tmp = None /\ d' = d /\ lg' = lg) \/
  (exists old t, lookup file tmp = Some t /\ lookup file d = Some old /\
     d' = set file t (set (bk file) old (remove file d)) /\ lg' = add_created (add_moved lg (bk file)) file) \/
  (exists t, lookup file tmp = Some t /\ lookup file d = None /\ d' = set file t d /\ lg' = add_created lg file).
Proof.
  intros d lg tmp file f d' lg' f' H. unfold move_file in H.
  destruct (tick f) as [f1|]; [|inversion H].
  destruct (lookup file tmp) as [t|]; [|inversion H; subst; auto].
  destruct (tick f1) as [f2|]; [|inversion H].
  destruct (lookup file d) as [old|] eqn:El.
  - destruct (tick f2) as [f3|]; [|inversion H].
    destruct (tick f3) as [f4|]; inversion H; subst.
    right; left. exists old, t. auto.
  - destruct (tick f2) as [f3|]; inversion H; subst.
    right; right. exists t. auto.
Qed.

(* what the parent directory holds after both moves succeeded, and after Cleanup *)
Definition moves_spec (d0 tmp : dir) (revdir : name) (cleaned : bool) (n : name) : option tree :=
  if n =? 0 then match lookup 0 tmp with Some t => Some t | None => lookup 0 d0 end
  else if n =? revdir then match lookup revdir tmp with Some t => Some t | None => lookup revdir d0 end
  else if n =? 1 then (if cleaned then None else match lookup 0 tmp with Some _ => lookup 0 d0 | None => None end)
  else if n =? revdir + 1 then (if cleaned then None else match lookup revdir tmp with Some _ => lookup revdir d0 | None => None end)
  else lookup n d0.

Lemma moves_success : forall d tmp revdir f lp d6 lg6 f6 d7 lg7 f7,
  revdir <> 0 -> (exists h, revdir = 2 * h) ->
  lookup 1 d = None -> lookup (revdir + 1) d = None ->
  move_file d {| l_parent := lp; l_created := []; l_moved := [] |} tmp common f = (d6, lg6, true, f6) ->
  move_file d6 lg6 tmp revdir f6 = (d7, lg7, true, f7) ->
  (forall n, lookup n d7 = moves_spec d tmp revdir false n) /\
  (forall n, lookup n (fold_left (fun d n => remove n d) (l_moved lg7) d7) = moves_spec d tmp revdir true n).
Proof.
  intros d tmp revdir f lp d6 lg6 f6 d7 lg7 f7 Hr0 [h Hh] Hf1 Hf2 H6 H7.
  unfold common, bk in *.
  apply move_file_ok in H6. apply move_file_ok in H7. unfold common, bk in *.
  destruct H6 as [(Ht & -> & ->) | [(old & t & Ht & Hl & -> & ->) | (t & Ht & Hl & -> & ->)]];
  destruct H7 as [(Ht2 & -> & ->) | [(old2 & t2 & Ht2 & Hl2 & -> & ->) | (t2 & Ht2 & Hl2 & -> & ->)]];
    (split; intro n; unfold moves_spec; cbn [l_created l_moved add_created add_moved app fold_left];
     try (revert Hl2; look; intro Hl2);
     repeat (look; try rewrite Ht; try rewrite Ht2; try rewrite Hl; try rewrite Hl2; try rewrite Hf1; try rewrite Hf2; cbv iota beta);
     rewrite ?(N.eqb_sym n);
     split_k n; try reflexivity; try congruence; try lia;
     repeat (look; try rewrite Ht; try rewrite Ht2; try rewrite Hl; try rewrite Hl2; try rewrite Hf1; try rewrite Hf2; cbv iota beta);
     try reflexivity; try congruence;
     try replace (0 + 1) with 1 by lia; try congruence).
Qed.

Lemma odd_fresh : forall d n, (forall k, lookup (k * 2 + 1) d = None) -> N.even n = false -> lookup n d = None.
Proof.
  intros d n Hf He. assert (Ho : N.odd n = true) by (rewrite <- N.negb_even, He; reflexivity).
  apply N.odd_spec in Ho. destruct Ho as [m ->]. replace (2 * m + 1) with (m * 2 + 1) by lia. apply Hf.
Qed.

Lemma even_2h : forall h, N.even (2 * h) = true.
Proof. intro h. rewrite N.even_mul. reflexivity. Qed.
Lemma even_2h1 : forall h, N.even (2 * h + 1) = false.
Proof. intro h. rewrite N.add_comm, N.even_add_mul_2. reflexivity. Qed.

(* moves_spec is the expected content, once the temporary directory is related to what tar extracted *)
Lemma spec_matches : forall cur e d tmp5 revdir cl,
  (forall k, lookup (k * 2 + 1) d = None) ->
  revdir <> 0 -> (exists h, revdir = 2 * h) ->
  revdir = match cur with Some c => c | None => e_rev e end ->
  lookup 0 tmp5 = lookup 0 (e_extracted e) ->
  lookup revdir tmp5 = lookup (e_rev e) (e_extracted e) ->
  forall n, moves_spec d tmp5 revdir cl n = expected_lookup cur (if cl then ACleanup else ANone) (Some d) e n.
Proof.
  intros cur e d tmp5 revdir cl Hf Hr0 [h Hh] Hrd H0 Hr n.
  unfold moves_spec, expected_lookup, expected_after, expected_backup, init_lookup, common, bk. cbv zeta.
  rewrite H0, Hr. clear H0 Hr.
  assert (Hg : forall rv, rv = revdir ->
    (if n =? 0 then match lookup 0 (e_extracted e) with Some t => Some t | None => lookup 0 d end
     else if n =? revdir then match lookup (e_rev e) (e_extracted e) with Some t => Some t | None => lookup revdir d end
     else if n =? 1 then (if cl then None else match lookup 0 (e_extracted e) with Some _ => lookup 0 d | None => None end)
     else if n =? revdir + 1 then (if cl then None else match lookup (e_rev e) (e_extracted e) with Some _ => lookup revdir d | None => None end)
     else lookup n d) =
    (if N.even n
     then if n =? 0 then match lookup 0 (e_extracted e) with Some t => Some t | None => lookup n d end
          else if n =? rv then match lookup (e_rev e) (e_extracted e) with Some t => Some t | None => lookup n d end
          else lookup n d
     else match (if cl then ACleanup else ANone) with
          | ACleanup => None
          | _ => if n =? 0 + 1 then match lookup 0 (e_extracted e) with Some _ => lookup 0 d | None => None end
                 else if n =? rv + 1 then match lookup (e_rev e) (e_extracted e) with Some _ => lookup rv d | None => None end
                 else None
          end));
  [| destruct cur as [c|]; cbv beta iota in Hrd |- *; exact (Hg _ (eq_sym Hrd))].
  intros rv ->. clear Hrd.
  destruct (n =? 0) eqn:E0.
  { apply N.eqb_eq in E0. subst n. cbn [N.even]. reflexivity. }
  destruct (n =? revdir) eqn:E1.
  { apply N.eqb_eq in E1. subst n. replace (N.even revdir) with true by (rewrite Hh; symmetry; apply even_2h). reflexivity. }
  replace (0 + 1) with 1 by lia.
  destruct (n =? 1) eqn:E2.
  { apply N.eqb_eq in E2. subst n. cbn [N.even]. destruct cl; reflexivity. }
  destruct (n =? revdir + 1) eqn:E3.
  { apply N.eqb_eq in E3. subst n. replace (N.even (revdir + 1)) with false by (rewrite Hh; symmetry; apply even_2h1). destruct cl; reflexivity. }
  destruct (N.even n) eqn:Ev; [reflexivity|].
  rewrite (odd_fresh d n Hf Ev). destruct cl; reflexivity.
Qed.

Lemma restore_in_success : forall cur d lp e f2 st' lg f',
  match cur with Some c => wf_name c | None => true end = true ->
  (forall k, lookup (k * 2 + 1) d = None) -> wf_name (e_rev e) = true ->
  restore_in cur d {| l_parent := lp; l_created := []; l_moved := [] |} e f2 = (st', lg, true, f') ->
  exists d', st' = Some d' /\
    (forall n, lookup n d' = expected_lookup cur ANone (Some d) e n) /\
    (forall n, lookup n (fold_left (fun d n => remove n d) (l_moved lg) d') = expected_lookup cur ACleanup (Some d) e n).
Proof.
  intros cur d lp e f2 st' lg f' Hc Hfresh Hrev H'.
  unfold restore_in in H'.
  destruct (tick f2) as [f3|]; [|inversion H'].
  destruct (tick f3) as [f4|]; [|inversion H'].
  destruct (negb (e_extract_ok e)); [inversion H'|].
  destruct (negb (e_digest_ok e)); [inversion H'|].
  cbv zeta in H'.
  match type of H' with match ?r5 with _ => _ end = _ => destruct r5 as [[[tmp5 revdir] f5]|] eqn:E5 end; [|inversion H'].
  (* facts about the temporary directory after the optional rename *)
  apply wf_name_spec in Hrev. destruct Hrev as [Hv0 [hv Hhv]].
  assert (Hfacts : wf_name revdir = true /\ revdir = match cur with Some c => c | None => e_rev e end /\
                   lookup 0 tmp5 = lookup 0 (e_extracted e) /\ lookup revdir tmp5 = lookup (e_rev e) (e_extracted e)).
  { assert (Hwr : wf_name (e_rev e) = true).
    { unfold wf_name, even_name, common. rewrite Hhv, even_2h. cbn [andb]. apply negb_true_iff. apply N.eqb_neq. lia. }
    destruct cur as [c|].
    - destruct (c =? e_rev e) eqn:Ec.
      + apply N.eqb_eq in Ec. inversion E5; subst. auto.
      + destruct (tick f4); [|discriminate].
        destruct (lookup (e_rev e) (e_extracted e)) as [t|] eqn:L1; [|discriminate].
        destruct (lookup c (e_extracted e)) eqn:L2; [discriminate|].
        inversion E5; subst. apply N.eqb_neq in Ec.
        pose proof (wf_name_spec _ Hc) as [Hc0 _].
        repeat split; auto.
        * rewrite lookup_set, lookup_remove.
          replace (revdir =? 0) with false by (symmetry; apply N.eqb_neq; lia).
          replace (e_rev e =? 0) with false by (symmetry; apply N.eqb_neq; lia). reflexivity.
        * rewrite lookup_set, N.eqb_refl. reflexivity.
    - inversion E5; subst. auto. }
  destruct Hfacts as (Hwr & Hrd & H0 & Hr).
  apply wf_name_spec in Hwr. destruct Hwr as [Hr0 [h Hh]].
  destruct (move_file d {| l_parent := lp; l_created := []; l_moved := [] |} tmp5 common f5) as [[[d6 lg6] ok6] f6] eqn:E6.
  destruct ok6; cbn [negb] in H'; [|inversion H'].
  destruct (move_file d6 lg6 tmp5 revdir f6) as [[[d7 lg7] ok7] f7] eqn:E7.
  inversion H'; subst st' lg ok7 f'.
  assert (F1 : lookup 1 d = None) by (apply (Hfresh 0)).
  assert (F2 : lookup (revdir + 1) d = None) by (rewrite Hh; replace (2 * h + 1) with (h * 2 + 1) by lia; apply Hfresh).
  destruct (moves_success d tmp5 revdir f5 lp d6 lg6 f6 d7 lg7 f7 Hr0 (ex_intro _ h Hh) F1 F2 E6 E7) as [S1 S2].
  exists d7. split; [reflexivity|]. split; intro n.
  - rewrite S1. apply (spec_matches cur e d tmp5 revdir false Hfresh Hr0 (ex_intro _ h Hh) Hrd H0 Hr).
  - rewrite S2. apply (spec_matches cur e d tmp5 revdir true Hfresh Hr0 (ex_intro _ h Hh) Hrd H0 Hr).
Qed.

Lemma expected_lookup_missing : forall cur a e n, expected_lookup cur a (Some []) e n = expected_lookup cur a None e n.
Proof. reflexivity. Qed.

(* one entry, success: the parent directory holds exactly the expected content; after Cleanup no backup is left *)
Lemma restore_one_success : forall cur st e f st' lg f',
  match cur with Some c => wf_name c | None => true end = true ->
  wf_pstate st = true -> wf_name (e_rev e) = true ->
  restore_one cur st e f = (st', lg, true, f') ->
  (exists d', st' = Some d' /\ forall n, lookup n d' = expected_lookup cur ANone st e n) /\
  (exists d', cleanup_one (st', lg) = Some d' /\ forall n, lookup n d' = expected_lookup cur ACleanup st e n).
Proof.
  intros cur st e f st' lg f' Hc Hst Hrev H. unfold restore_one in H.
  destruct (tick f) as [f1|]; [|inversion H].
  destruct st as [d|].
  - destruct (restore_in_success cur d false e f1 st' lg f' Hc (fun n => wf_dir_fresh d n Hst) Hrev H) as (d' & -> & S1 & S2).
    split; [exists d'; auto | eexists; split; [reflexivity | exact S2]].
  - destruct (tick f1) as [f2|]; [|inversion H].
    destruct (restore_in_success cur [] true e f2 st' lg f' Hc (fun n => eq_refl) Hrev H) as (d' & -> & S1 & S2).
    split; [exists d'; split; [reflexivity|]; intro n; rewrite S1; apply expected_lookup_missing
           | eexists; split; [reflexivity|]; intro n; rewrite S2; apply expected_lookup_missing].
Qed.

Inductive all_expected (cur : option name) (a : after) : list (pstate * rentry) -> list pstate -> Prop :=
| ae_nil : all_expected cur a [] []
| ae_cons : forall init e d' es fin,
    (forall n, lookup n d' = expected_lookup cur a init e n) ->
    all_expected cur a es fin -> all_expected cur a ((init, e) :: es) (Some d' :: fin).

Lemma restore_all_success : forall cur es f res,
  wf_case cur es = true -> restore_all cur es f = (res, true) ->
  all_expected cur ANone es (map fst res) /\ all_expected cur ACleanup es (map cleanup_one res).
Proof.
  intros cur es. induction es as [|[st e] r IH]; intros f res Hwf H; cbn [restore_all] in H.
  - inversion H; subst. split; constructor.
  - apply wf_case_cons in Hwf. destruct Hwf as (Hc & Hst & Hrev & Hr).
    destruct (restore_one cur st e f) as [[[st' lg] ok] f'] eqn:E1.
    destruct ok; [|inversion H].
    destruct (restore_all cur r f') as [rest ok'] eqn:E2. inversion H; subst res ok'.
    destruct (IH f' rest Hr E2) as [I1 I2].
    destruct (restore_one_success _ _ _ _ _ _ _ Hc Hst Hrev E1) as [(d1 & -> & S1) (d2 & Hcl & S2)].
    split; cbn [map fst].
    + constructor; assumption.
    + rewrite Hcl. constructor; assumption.
Qed.

(* Reader.Restore succeeded (optionally followed by Cleanup): every data directory holds exactly the extracted `common`
   and revision trees, everything else as before, the old trees under the backup names -- and no backup after Cleanup *)
Theorem restore_success : forall cur es f a,
  wf_case cur es = true -> a <> ARevert ->
  fst (restore cur es f a) = true ->
  all_expected cur a es (snd (restore cur es f a)).
Proof.
  intros cur es f a Hwf Ha H. unfold restore in *.
  destruct (restore_all cur es f) as [res ok] eqn:E. destruct ok; [|discriminate].
  destruct (restore_all_success cur es f res Hwf E) as [S1 S2].
  destruct a; cbn [snd]; [exact S1 | exact S2 | contradiction].
Qed.

(* ... which is what the executable predicate used as the monitor says *)
Lemma opt_tree_eqb_refl : forall o, opt_tree_eqb o o = true.
Proof. intros [t|]; cbn; [apply N.eqb_refl | reflexivity]. Qed.

Theorem restore_success_monitor : forall cur es f a,
  wf_case cur es = true -> a <> ARevert ->
  fst (restore cur es f a) = true ->
  success_all cur a es (snd (restore cur es f a)) = true.
Proof.
  intros cur es f a Hwf Ha H. pose proof (restore_success cur es f a Hwf Ha H) as S.
  clear H Hwf. induction S as [|init e d' es0 fin Hl S IH].
  - reflexivity.
  - cbn [success_all success_ok]. rewrite IH, andb_true_r.
    apply forallb_forall. intros n _. rewrite Hl. apply opt_tree_eqb_refl.
Qed.

(* ================================================================ import: contents, duplicates *)

(* the loop with contents writes to the same paths, with the same verdict, as the loop without *)
Lemma import_writes_paths : forall sdir idb dirs ms fs ef,
  map fst (fst (import_writes sdir idb dirs fs ms ef)) = fst (import_run sdir idb dirs ms ef) /\
  snd (import_writes sdir idb dirs fs ms ef) = snd (import_run sdir idb dirs ms ef).
Proof.
  intros sdir idb dirs ms. induction ms as [|m r IH]; intros fs ef; cbn [import_writes import_run]; [split; reflexivity|].
  destruct (m_kind m); try (split; reflexivity).
  destruct (contains s_dotdotslash (m_name m)); [split; reflexivity|].
  destruct (beq (m_name m) s_content_json); [apply IH|].
  destruct (beq (m_name m) s_export_json); [apply IH|].
  destruct (cut_first c_under (m_name m)) as [[a rest]|]; [|split; reflexivity].
  destruct (can_create sdir dirs (import_target sdir idb rest)); [|split; reflexivity].
  cbv zeta. destruct (m_valid m); [|split; reflexivity].
  match goal with |- context [import_writes sdir idb dirs ?fs' r ef] => destruct (IH fs' ef) as [I1 I2];
    destruct (import_writes sdir idb dirs fs' r ef) as [w ok] end.
  destruct (import_run sdir idb dirs r ef) as [w2 ok2]. cbn [fst snd map] in *. split; congruence.
Qed.

Theorem import_writes_inside : forall sdir idb dirs fs ms ef,
  forallb (fun b => negb (b =? c_slash)) idb = true ->
  forallb (strictly_below sdir) (map fst (fst (import_writes sdir idb dirs fs ms ef))) = true.
Proof.
  intros sdir idb dirs fs ms ef Hid. destruct (import_writes_paths sdir idb dirs ms fs ef) as [-> _].
  now apply import_inside.
Qed.

(* what a write over an existing file leaves: the new body, then the part of the old content beyond its length *)
Lemma overlay_replaces : forall old data, (length old <= length data)%nat -> overlay old data = data.
Proof. intros old data H. unfold overlay. rewrite skipn_all2 by exact H. apply app_nil_r. Qed.

Lemma overlay_shape : forall old data,
  firstn (length data) (overlay old data) = data /\
  skipn (length data) (overlay old data) = skipn (length data) old /\
  length (overlay old data) = Nat.max (length old) (length data).
Proof.
  intros old data. unfold overlay. repeat split.
  - rewrite firstn_app, Nat.sub_diag, firstn_O, app_nil_r. apply firstn_all.
  - rewrite skipn_app, Nat.sub_diag. cbn [skipn]. rewrite skipn_all. reflexivity.
  - rewrite app_length, skipn_length. lia.
Qed.

(* duplicates: every write stores overlay (content of that path after the earlier writes) (body of this member); in
   particular a later member with the same target overwrites the earlier one -- completely when it is at least as long *)
Inductive writes_from (fs : list (list bytes * bytes)) : list (list bytes * bytes) -> Prop :=
| wf_nil : writes_from fs []
| wf_cons : forall p body w,
    writes_from ((p, overlay (match path_lookup p fs with Some c => c | None => [] end) body) :: fs) w ->
    writes_from fs ((p, overlay (match path_lookup p fs with Some c => c | None => [] end) body) :: w).

Theorem import_writes_overlay : forall sdir idb dirs ms fs ef,
  writes_from fs (fst (import_writes sdir idb dirs fs ms ef)).
Proof.
  intros sdir idb dirs ms. induction ms as [|m r IH]; intros fs ef; cbn [import_writes]; [constructor|].
  destruct (m_kind m); try constructor.
  destruct (contains s_dotdotslash (m_name m)); [constructor|].
  destruct (beq (m_name m) s_content_json); [apply IH|].
  destruct (beq (m_name m) s_export_json); [apply IH|].
  destruct (cut_first c_under (m_name m)) as [[a rest]|]; [|constructor].
  destruct (can_create sdir dirs (import_target sdir idb rest)); [|constructor].
  cbv zeta. destruct (m_valid m); [|cbn [fst]; constructor; constructor].
  match goal with |- context [import_writes sdir idb dirs ?fs' r ef] => pose proof (IH fs' ef) as I;
    destruct (import_writes sdir idb dirs fs' r ef) as [w ok] end.
  cbn [fst] in *. constructor. exact I.
Qed.

(* ================================================================ Reader.Check *)

Theorem check_iff : forall users zs,
  check users zs = true <->
  forall z, In z zs -> selected users z = true ->
    z_present z = true /\ z_read_ok z = true /\ z_read z = z_reported z /\ z_actual z = z_recorded z.
Proof.
  intros users zs. unfold check. rewrite forallb_forall. split.
  - intros H z Hin Hsel. specialize (H z Hin). rewrite Hsel in H. cbn [negb orb] in H. unfold check_one in H.
    repeat (apply andb_true_iff in H; destruct H as [H ?]).
    repeat split; auto; now apply N.eqb_eq.
  - intros H z Hin. destruct (selected users z) eqn:Hsel; [|reflexivity]. cbn [negb orb].
    destruct (H z Hin Hsel) as (H1 & H2 & H3 & H4). unfold check_one. rewrite H1, H2, H3, H4, !N.eqb_refl. reflexivity.
Qed.

(* ================================================================ import: nothing is committed unless every member verifies *)

Lemma list_beq_eq : forall a b, list_beq a b = true -> a = b.
Proof.
  induction a as [|x a IH]; destruct b as [|y b]; cbn [list_beq]; intro H; try reflexivity; try discriminate.
  apply andb_true_iff in H. destruct H as [H1 H2]. apply beq_eq32 in H1. apply IH in H2. now subst.
Qed.

(* one snapshot member that Open / Check reject, anywhere in the stream: the import fails *)
Theorem invalid_member_fails : forall sdir idb dirs ms1 m ms2 fs ef,
  m_kind m = MFile -> m_valid m = false ->
  beq (m_name m) s_content_json = false -> beq (m_name m) s_export_json = false ->
  snd (import_writes sdir idb dirs fs (ms1 ++ m :: ms2) ef) = false.
Proof.
  intros sdir idb dirs ms1 m ms2. induction ms1 as [|m1 r IH]; intros fs ef Hk Hv Hc He; cbn [app import_writes].
  - rewrite Hk, Hc, He.
    destruct (contains s_dotdotslash (m_name m)); [reflexivity|].
    destruct (cut_first c_under (m_name m)) as [[a rest]|]; [|reflexivity].
    destruct (can_create sdir dirs (import_target sdir idb rest)); [|reflexivity].
    cbv zeta. rewrite Hv. reflexivity.
  - destruct (m_kind m1); try reflexivity.
    destruct (contains s_dotdotslash (m_name m1)); [reflexivity|].
    destruct (beq (m_name m1) s_content_json); [now apply IH|].
    destruct (beq (m_name m1) s_export_json); [now apply IH|].
    destruct (cut_first c_under (m_name m1)) as [[a rest]|]; [|reflexivity].
    destruct (can_create sdir dirs (import_target sdir idb rest)); [|reflexivity].
    cbv zeta. destruct (m_valid m1); [|reflexivity].
    match goal with |- context [import_writes sdir idb dirs ?fs' (r ++ m :: ms2) ef] =>
      pose proof (IH fs' ef Hk Hv Hc He) as I; destruct (import_writes sdir idb dirs fs' (r ++ m :: ms2) ef) as [w ok] end.
    exact I.
Qed.

Lemma path_lookup_filter_none : forall (g : list bytes * bytes -> bool) p l,
  (forall q c, In (q, c) l -> list_beq q p = true -> g (q, c) = false) -> path_lookup p (filter g l) = None.
Proof.
  intros g p l. induction l as [|[q c] l IH]; intro H; cbn [filter path_lookup]; [reflexivity|].
  destruct (g (q, c)) eqn:Eg.
  - cbn [path_lookup]. destruct (list_beq q p) eqn:Eq.
    + rewrite (H q c (or_introl eq_refl) Eq) in Eg. discriminate.
    + apply IH. intros q0 c0 Hin. apply H. now right.
  - apply IH. intros q0 c0 Hin. apply H. now right.
Qed.

(* a failed import (for whatever reason, at whatever member) leaves NO file <id>_*.zip in the snapshots directory: what
   was written before the failure is removed again by the deferred Cancel *)
Theorem failed_import_commits_nothing : forall sdir idb dirs fs ms n,
  snd (import_final sdir idb dirs fs ms) = false ->
  glob_id_zip idb n = true ->
  path_lookup (sdir ++ [n]) (fst (import_final sdir idb dirs fs ms)) = None.
Proof.
  intros sdir idb dirs fs ms n Hf Hg. unfold import_final in *.
  destruct (import_writes sdir idb dirs fs ms false) as [w ok]. destruct ok; [discriminate|]. cbn [fst].
  apply path_lookup_filter_none. intros q c _ Hq. apply list_beq_eq in Hq. subst q. cbn [fst].
  rewrite strip_prefix_app, Hg. reflexivity.
Qed.

(* a successful import: every snapshot member (file member other than the two json members) of the stream verified *)
Theorem committed_import_all_valid : forall sdir idb dirs fs ms m,
  snd (import_final sdir idb dirs fs ms) = true -> In m ms ->
  m_kind m = MFile -> beq (m_name m) s_content_json = false -> beq (m_name m) s_export_json = false ->
  m_valid m = true.
Proof.
  intros sdir idb dirs fs ms m Hok Hin Hk Hc He.
  destruct (m_valid m) eqn:Hv; [reflexivity|].
  apply in_split in Hin. destruct Hin as (ms1 & ms2 & ->).
  unfold import_final in Hok.
  pose proof (invalid_member_fails sdir idb dirs ms1 m ms2 fs false Hk Hv Hc He) as Hfail.
  destruct (import_writes sdir idb dirs fs (ms1 ++ m :: ms2) false) as [w ok]. cbn [snd] in Hfail. subst ok.
  cbn [snd] in Hok. discriminate.
Qed.

(* ================================================================ export -> import round trip *)

Definition noslash (s : bytes) : bool := forallb (fun b => negb (b =? c_slash)) s.

Lemma noslash_no_dds : forall s, noslash s = true -> contains s_dotdotslash s = false.
Proof.
  induction s as [|x r IH]; intro H; [reflexivity|].
  cbn [noslash forallb] in H. apply andb_true_iff in H. destruct H as [Hx Hr].
  cbn [contains]. rewrite (IH Hr), orb_false_r.
  unfold s_dotdotslash. cbn [has_prefix].
  destruct r as [|y [|z r]]; cbn [has_prefix]; rewrite ?andb_false_r; try reflexivity.
  cbn [noslash forallb] in Hr. apply andb_true_iff in Hr. destruct Hr as [_ Hr].
  apply andb_true_iff in Hr. destruct Hr as [Hz _]. unfold c_slash in Hz.
  apply negb_true_iff in Hz. rewrite N.eqb_sym in Hz. rewrite Hz. cbn [andb]. now rewrite !andb_false_r.
Qed.

Lemma split_on_noslash : forall s, noslash s = true -> split_on c_slash s = [s].
Proof.
  induction s as [|x r IH]; intro H; [reflexivity|].
  cbn [noslash forallb] in H. apply andb_true_iff in H. destruct H as [Hx Hr]. apply negb_true_iff in Hx.
  cbn [split_on]. rewrite Hx, (IH Hr). reflexivity.
Qed.

Lemma noslash_app : forall a x b, noslash a = true -> negb (x =? c_slash) = true -> noslash b = true -> noslash (a ++ x :: b) = true.
Proof. intros a x b Ha Hx Hb. unfold noslash in *. rewrite forallb_app. cbn [forallb]. now rewrite Ha, Hx, Hb. Qed.

Lemma import_target_simple : forall sdir idb rest, noslash idb = true -> noslash rest = true ->
  import_target sdir idb rest = sdir ++ [idb ++ c_under :: rest].
Proof.
  intros sdir idb rest Hi Hr. unfold import_target.
  rewrite (split_on_noslash _ (noslash_app idb c_under rest Hi eq_refl Hr)). cbn [clean_comps].
  pose proof (has_underscore_plain idb rest) as Hp. unfold plain_comp in Hp.
  apply andb_true_iff in Hp. destruct Hp as [Hp Hp3]. apply andb_true_iff in Hp. destruct Hp as [Hp1 Hp2].
  apply negb_true_iff in Hp1, Hp2, Hp3. rewrite Hp1, Hp2, Hp3. cbn [orb rev]. now rewrite rev_involutive.
Qed.

Lemma cut_first_app : forall a rest, forallb (fun b => negb (b =? c_under)) a = true ->
  cut_first c_under (a ++ c_under :: rest) = Some (a, rest).
Proof.
  induction a as [|x a IH]; intros rest H; cbn [app cut_first].
  - now rewrite N.eqb_refl.
  - cbn [forallb] in H. apply andb_true_iff in H. destruct H as [Hx Ha]. apply negb_true_iff in Hx.
    now rewrite Hx, (IH rest Ha).
Qed.

Lemma underscore_not_json : forall a rest,
  beq (a ++ c_under :: rest) s_content_json = false /\ beq (a ++ c_under :: rest) s_export_json = false.
Proof.
  intros a rest.
  assert (Hin : In c_under (a ++ c_under :: rest)) by (apply in_or_app; right; now left).
  split.
  - destruct (beq (a ++ c_under :: rest) s_content_json) eqn:E; [|reflexivity].
    apply beq_eq32 in E. rewrite E in Hin. unfold s_content_json, c_under in Hin. cbn in Hin.
    repeat (destruct Hin as [Hin|Hin]; [discriminate|]). contradiction.
  - destruct (beq (a ++ c_under :: rest) s_export_json) eqn:E; [|reflexivity].
    apply beq_eq32 in E. rewrite E in Hin. unfold s_export_json, c_under in Hin. cbn in Hin.
    repeat (destruct Hin as [Hin|Hin]; [discriminate|]). contradiction.
Qed.

Lemma list_beq_snoc_false : forall (l : list bytes) c, list_beq (l ++ [c]) l = false.
Proof.
  induction l as [|x l IH]; intro c; cbn [app list_beq]; [reflexivity|]. now rewrite IH, andb_false_r.
Qed.

Lemma list_beq_neq : forall a b, a <> b -> list_beq a b = false.
Proof. intros a b H. destruct (list_beq a b) eqn:E; [|reflexivity]. apply list_beq_eq in E. contradiction. Qed.

Definition rt_target (sdir : list bytes) (idb : bytes) (rc : bytes * bytes) : list bytes * bytes :=
  (sdir ++ [idb ++ c_under :: fst rc], snd rc).
Definition rt_member (ida : bytes) (rc : bytes * bytes) : member :=
  {| m_name := ida ++ c_under :: fst rc; m_kind := MFile; m_body := snd rc; m_valid := true |}.

Lemma roundtrip_files : forall sdir ida idb dirs files fs tail ef,
  forallb (fun b => negb (b =? c_under)) ida = true -> noslash ida = true -> noslash idb = true ->
  Forall (fun rc => noslash (fst rc) = true) files ->
  NoDup (map fst files) ->
  Forall (fun rc => path_lookup (fst (rt_target sdir idb rc)) fs = None /\
                    existsb (list_beq (fst (rt_target sdir idb rc))) dirs = false) files ->
  import_writes sdir idb dirs fs (map (rt_member ida) files ++ tail) ef =
  (map (rt_target sdir idb) files ++ fst (import_writes sdir idb dirs (rev (map (rt_target sdir idb) files) ++ fs) tail ef),
   snd (import_writes sdir idb dirs (rev (map (rt_target sdir idb) files) ++ fs) tail ef)).
Proof.
  intros sdir ida idb dirs files. induction files as [|rc r IH]; intros fs tail ef Hu Ha Hb Hs Hnd Hfree.
  - cbn [map app rev]. now destruct (import_writes sdir idb dirs fs tail ef).
  - inversion Hs as [|? ? Hs1 Hs2]; subst. inversion Hnd as [|? ? Hn1 Hn2]; subst.
    inversion Hfree as [|? ? [Hf1 Hf1'] Hf2]; subst.
    cbn [map app import_writes rt_member m_kind m_name m_body m_valid].
    rewrite (noslash_no_dds _ (noslash_app ida c_under (fst rc) Ha eq_refl Hs1)).
    destruct (underscore_not_json ida (fst rc)) as [-> ->].
    rewrite (cut_first_app ida (fst rc) Hu), (import_target_simple sdir idb (fst rc) Hb Hs1).
    unfold can_create. rewrite list_beq_snoc_false. unfold rt_target in Hf1, Hf1'. cbn [fst] in Hf1, Hf1'.
    rewrite Hf1', removelast_last, list_beq_refl. cbn [negb andb orb]. cbv zeta. rewrite Hf1.
    replace (overlay [] (snd rc)) with (snd rc) by (unfold overlay; now rewrite skipn_nil, app_nil_r).
    rewrite (IH ((sdir ++ [idb ++ c_under :: fst rc], snd rc) :: fs) tail ef Hu Ha Hb Hs2 Hn2).
    + cbn [rev map]. unfold rt_target at 3. unfold rt_target at 5. cbn [fst snd].
      rewrite <- !app_assoc. cbn [app]. reflexivity.
    + clear IH. rewrite Forall_forall in *. intros rc2 Hin. destruct (Hf2 rc2 Hin) as [G1 G2]. split; [|exact G2].
      cbn [path_lookup]. unfold rt_target. cbn [fst].
      rewrite list_beq_neq; [exact G1|].
      intro Heq. apply app_inv_head in Heq. inversion Heq as [Heq']. apply app_inv_head in Heq'. inversion Heq'.
      apply Hn1. apply in_map_iff. exists rc2. split; [first [assumption | symmetry; assumption] | exact Hin].
Qed.

(* exporting the snapshot files <ida>_<rest> of one set and importing the stream under another id writes exactly the files
   <idb>_<rest>, with exactly the exported contents, and succeeds -- for every list of files whose names have no slash,
   are pairwise distinct, and whose targets are free *)
Theorem export_import_roundtrip : forall sdir ida idb dirs fs files,
  forallb (fun b => negb (b =? c_under)) ida = true -> noslash ida = true -> noslash idb = true ->
  Forall (fun rc => noslash (fst rc) = true) files ->
  NoDup (map fst files) ->
  Forall (fun rc => path_lookup (fst (rt_target sdir idb rc)) fs = None /\
                    existsb (list_beq (fst (rt_target sdir idb rc))) dirs = false) files ->
  import_writes sdir idb dirs fs
    (export_members (map (fun rc => (ida ++ c_under :: fst rc, snd rc)) files)) false
  = (map (rt_target sdir idb) files, true).
Proof.
  intros sdir ida idb dirs fs files Hu Ha Hb Hs Hnd Hfree.
  unfold export_members. rewrite map_map.
  change (map (fun x : bytes * bytes => {| m_name := fst (ida ++ c_under :: fst x, snd x); m_kind := MFile;
                                          m_body := snd (ida ++ c_under :: fst x, snd x); m_valid := true |}) files)
    with (map (rt_member ida) files).
  cbn [import_writes m_kind m_name]. cbn [contains has_prefix s_content_json s_dotdotslash N.eqb Pos.eqb andb orb].
  rewrite beq_refl32.
  rewrite (roundtrip_files sdir ida idb dirs files fs _ false Hu Ha Hb Hs Hnd Hfree).
  cbn [import_writes m_kind m_name]. 
  replace (contains s_dotdotslash s_export_json) with false by (vm_compute; reflexivity).
  replace (beq s_export_json s_content_json) with false by (vm_compute; reflexivity).
  rewrite beq_refl32. cbn [import_writes fst snd]. now rewrite app_nil_r.
Qed.
