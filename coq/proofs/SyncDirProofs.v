(* C23 — proofs about models/SyncDir.v. All statements are for every directory, every desired content, every glob
   predicate, every visiting order and every failure point. *)
From Coq Require Import List NArith Bool Lia ZifyBool ZifyN Permutation Sorted.
Import ListNotations.
Require Import V.lib.Bytes V.models.SyncDir.
Open Scope N_scope.

(* ------------------------------------------------------------------ names *)
Lemma beq_true_iff : forall a b, beq a b = true <-> a = b.
Proof.
  induction a as [|x a IH]; destruct b as [|y b]; cbn; split; intro H; try congruence; try discriminate.
  - apply andb_true_iff in H. destruct H as [H1 H2]. apply N.eqb_eq in H1. apply IH in H2. congruence.
  - inversion H; subst. rewrite N.eqb_refl. cbn. apply IH. reflexivity.
Qed.
Lemma beq_refl : forall a, beq a a = true.
Proof. intro a. apply beq_true_iff. reflexivity. Qed.
Lemma beq_false_iff : forall a b, beq a b = false <-> a <> b.
Proof.
  intros a b. destruct (beq a b) eqn:E.
  - apply beq_true_iff in E. split; [discriminate | congruence].
  - split; [|reflexivity]. intros _ H. apply beq_true_iff in H. congruence.
Qed.
Lemma beq_sym : forall a b, beq a b = beq b a.
Proof.
  intros a b. destruct (beq a b) eqn:E; symmetry.
  - apply beq_true_iff in E. subst. apply beq_refl.
  - apply beq_false_iff. apply beq_false_iff in E. congruence.
Qed.

Lemma mem_name_In : forall n l, mem_name n l = true <-> In n l.
Proof.
  intros n l. unfold mem_name. rewrite existsb_exists. split.
  - intros [x [Hx Hb]]. apply beq_true_iff in Hb. subst. assumption.
  - intro H. exists n. split; [assumption | apply beq_refl].
Qed.

Lemma lookup_None : forall (A : Type) (d : list (bytes * A)) n, lookup d n = None <-> ~ In n (names d).
Proof.
  induction d as [|[k v] r IH]; intro n; cbn.
  - tauto.
  - destruct (beq k n) eqn:E.
    + apply beq_true_iff in E. subst. split; [discriminate | intro H; exfalso; apply H; left; reflexivity].
    + apply beq_false_iff in E. rewrite IH. tauto.
Qed.
Lemma lookup_In : forall (A : Type) (d : list (bytes * A)) n v, NoDup (names d) -> (lookup d n = Some v <-> In (n, v) d).
Proof.
  induction d as [|[k w] r IH]; intros n v ND; cbn.
  - split; [discriminate | tauto].
  - inversion ND as [|? ? Hk ND']; subst. destruct (beq k n) eqn:E.
    + apply beq_true_iff in E. subst. split.
      * intro H. inversion H. left. reflexivity.
      * intros [H | H]; [congruence|]. exfalso. apply Hk. change n with (fst (n, v)). apply in_map. assumption.
    + apply beq_false_iff in E. rewrite (IH n v ND'). split; [tauto|]. intros [H | H]; [congruence | assumption].
Qed.

Lemma lookup_set_node : forall d n v n', lookup (set_node d n v) n' = if beq n n' then Some v else lookup d n'.
Proof.
  induction d as [|[k w] r IH]; intros n v n'; cbn.
  - reflexivity.
  - destruct (beq k n) eqn:E; cbn.
    + apply beq_true_iff in E. subst. destruct (beq n n'); reflexivity.
    + rewrite IH. destruct (beq k n') eqn:E2; [|reflexivity].
      apply beq_true_iff in E2. subst. rewrite beq_sym, E. reflexivity.
Qed.
Lemma names_set_node : forall d n v x, In x (names (set_node d n v)) <-> x = n \/ In x (names d).
Proof.
  induction d as [|[k w] r IH]; intros n v x; cbn.
  - intuition.
  - destruct (beq k n) eqn:E; cbn.
    + apply beq_true_iff in E. subst. intuition.
    + rewrite IH. intuition.
Qed.
Lemma NoDup_set_node : forall d n v, NoDup (names d) -> NoDup (names (set_node d n v)).
Proof.
  induction d as [|[k w] r IH]; intros n v ND; cbn.
  - constructor; [tauto | constructor].
  - inversion ND as [|? ? Hk ND']; subst. destruct (beq k n) eqn:E; cbn.
    + constructor; assumption.
    + constructor; [|apply IH; assumption]. rewrite names_set_node. apply beq_false_iff in E. intros [H | H]; [congruence | tauto].
Qed.

(* ------------------------------------------------------------------ the order on names; sort *)
Lemma ble_total : forall a b, ble a b = false -> ble b a = true.
Proof.
  induction a as [|x a IH]; destruct b as [|y b]; cbn; intro H; try congruence.
  destruct (x <? y) eqn:E1; [discriminate|]. destruct (y <? x) eqn:E2; [reflexivity|]. apply IH. assumption.
Qed.
Lemma ble_antisym : forall a b, ble a b = true -> ble b a = true -> a = b.
Proof.
  induction a as [|x a IH]; destruct b as [|y b]; cbn; intros H1 H2; try congruence.
  destruct (x <? y) eqn:E1; destruct (y <? x) eqn:E2; try discriminate; try lia.
  assert (x = y) by lia. subst. f_equal. apply IH; assumption.
Qed.
Lemma ble_trans : forall a b c, ble a b = true -> ble b c = true -> ble a c = true.
Proof.
  induction a as [|x a IH]; destruct b as [|y b]; destruct c as [|z c]; cbn; intros H1 H2; try congruence.
  destruct (x <? y) eqn:E1; destruct (y <? z) eqn:E2; destruct (x <? z) eqn:E3; try reflexivity; try lia;
    destruct (y <? x) eqn:E4; destruct (z <? y) eqn:E5; destruct (z <? x) eqn:E6; try discriminate; try lia.
  eapply IH; eassumption.
Qed.

Definition le (a b : bytes) : Prop := ble a b = true.

Lemma insert_perm : forall x l, Permutation (insert x l) (x :: l).
Proof.
  induction l as [|y r IH]; cbn; [apply Permutation_refl|].
  destruct (ble x y); [apply Permutation_refl|].
  eapply perm_trans; [apply perm_skip; exact IH | apply perm_swap].
Qed.
Lemma sort_perm : forall l, Permutation (sort l) l.
Proof.
  induction l as [|x r IH]; cbn; [constructor|].
  eapply perm_trans; [apply insert_perm | apply perm_skip; exact IH].
Qed.
Lemma sort_In : forall l x, In x (sort l) <-> In x l.
Proof. intros l x. split; apply Permutation_in; [|apply Permutation_sym]; apply sort_perm. Qed.
Lemma sort_NoDup : forall l, NoDup l -> NoDup (sort l).
Proof. intros l H. eapply Permutation_NoDup; [apply Permutation_sym; apply sort_perm | assumption]. Qed.

Lemma insert_sorted : forall x l, StronglySorted le l -> StronglySorted le (insert x l).
Proof.
  induction l as [|y r IH]; intro S; cbn.
  - constructor; constructor.
  - inversion S as [|? ? S' F]; subst. destruct (ble x y) eqn:E.
    + constructor; [assumption|]. constructor; [exact E|].
      rewrite Forall_forall in *. intros z Hz. eapply ble_trans; [exact E | apply F; assumption].
    + constructor; [apply IH; assumption|].
      rewrite Forall_forall in *. intros z Hz.
      apply (Permutation_in _ (insert_perm x r)) in Hz. destruct Hz as [Hz | Hz].
      * subst. apply ble_total. assumption.
      * apply F. assumption.
Qed.
Lemma sort_sorted : forall l, StronglySorted le (sort l).
Proof. induction l as [|x r IH]; cbn; [constructor | apply insert_sorted; assumption]. Qed.

Lemma insert_comm : forall x y l, insert x (insert y l) = insert y (insert x l).
Proof.
  intros x y. induction l as [|z r IH]; cbn.
  - destruct (ble x y) eqn:E1; destruct (ble y x) eqn:E2; try reflexivity.
    + rewrite (ble_antisym _ _ E1 E2). reflexivity.
    + apply ble_total in E1. congruence.
  - destruct (ble y z) eqn:Ey; destruct (ble x z) eqn:Ex; cbn; rewrite ?Ey, ?Ex.
    + destruct (ble x y) eqn:E1; destruct (ble y x) eqn:E2; try reflexivity.
      * rewrite (ble_antisym _ _ E1 E2). reflexivity.
      * apply ble_total in E1. congruence.
    + destruct (ble x y) eqn:E1; [|reflexivity]. rewrite (ble_trans _ _ _ E1 Ey) in Ex. discriminate.
    + destruct (ble y x) eqn:E2; [|reflexivity]. rewrite (ble_trans _ _ _ E2 Ex) in Ey. discriminate.
    + rewrite IH. reflexivity.
Qed.
Lemma sort_permutation : forall l l', Permutation l l' -> sort l = sort l'.
Proof.
  induction 1; cbn.
  - reflexivity.
  - unfold sort in IHPermutation. rewrite IHPermutation. reflexivity.
  - apply insert_comm.
  - congruence.
Qed.
Lemma sort_ext : forall l l', NoDup l -> NoDup l' -> (forall x, In x l <-> In x l') -> sort l = sort l'.
Proof. intros l l' N1 N2 H. apply sort_permutation. apply NoDup_Permutation; assumption. Qed.

(* ------------------------------------------------------------------ change phase *)
Definition is_err (r : fres) : bool := match r with FErr => true | _ => false end.
Definition is_wrote (r : fres) : bool := match r with FWrote _ => true | _ => false end.

Lemma existsb_ext_in : forall (A : Type) (f g : A -> bool) (l : list A),
  (forall x, In x l -> f x = g x) -> existsb f l = existsb g l.
Proof.
  induction l as [|x r IH]; intro H; cbn; [reflexivity|].
  rewrite H by (left; reflexivity). rewrite IH; [reflexivity|]. intros y Hy. apply H. right. assumption.
Qed.

Section Loop.
Variables (um : N) (out : list (bytes * onode)).

Definition wl_fail (d : list (bytes * node)) (content : list (bytes * dstate)) : bool :=
  existsb (fun e => is_err (efs um out (lookup d (fst e)) (snd e))) content.

(* the node a name has after a successful change phase *)
Definition after_write (d : list (bytes * node)) (content : list (bytes * dstate)) (n : bytes) : option node :=
  match lookup content n with
  | Some ds => match efs um out (lookup d n) ds with FWrote v => Some v | _ => lookup d n end
  | None => lookup d n
  end.
Definition wrote_names (d : list (bytes * node)) (content : list (bytes * dstate)) : list bytes :=
  names (filter (fun e => is_wrote (efs um out (lookup d (fst e)) (snd e))) content).

Lemma write_loop_ok : forall content d ch,
  NoDup (names content) -> wl_fail d content = false ->
  exists d', write_loop um out d content ch = (d', ch ++ wrote_names d content, false)
             /\ (forall n, lookup d' n = after_write d content n)
             /\ (NoDup (names d) -> NoDup (names d')).
Proof.
  induction content as [|[n ds] r IH]; intros d ch ND WF.
  - exists d. cbn. rewrite app_nil_r. repeat split; auto.
  - inversion ND as [|? ? Hn ND']; subst. cbn in WF. apply orb_false_iff in WF. destruct WF as [W1 W2].
    cbn [write_loop]. unfold wrote_names, after_write. cbn [filter fst snd lookup].
    assert (EXT : forall d2, (forall x, x <> n -> lookup d2 x = lookup d x) -> wl_fail d2 r = false
                 /\ filter (fun e => is_wrote (efs um out (lookup d2 (fst e)) (snd e))) r
                    = filter (fun e => is_wrote (efs um out (lookup d (fst e)) (snd e))) r).
    { intros d2 H2. unfold wl_fail. split.
      - rewrite <- W2. apply existsb_ext_in. intros [k v] Hk. cbn. rewrite H2; [reflexivity|].
        intro; subst. apply Hn. change n with (fst (n, v)). apply in_map. assumption.
      - apply filter_ext_in. intros [k v] Hk. cbn. rewrite H2; [reflexivity|].
        intro; subst. apply Hn. change n with (fst (n, v)). apply in_map. assumption. }
    destruct (efs um out (lookup d n) ds) eqn:E; cbn in W1; try discriminate.
    + destruct (IH d ch ND' W2) as [d' [H1 [H2 H3]]]. exists d'. cbn [is_wrote]. split; [exact H1|]. split; [|exact H3].
      intro x. rewrite H2. unfold after_write. destruct (beq n x) eqn:B.
      * apply beq_true_iff in B. subst x. replace (lookup r n) with (@None dstate); [rewrite E; reflexivity|].
        symmetry. apply lookup_None. assumption.
      * reflexivity.
    + destruct (EXT (set_node d n n0)) as [W2' F'].
      { intros x Hx. rewrite lookup_set_node. destruct (beq n x) eqn:B; [|reflexivity]. apply beq_true_iff in B. congruence. }
      destruct (IH (set_node d n n0) (ch ++ [n]) ND' W2') as [d' [H1 [H2 H3]]]. exists d'. cbn [is_wrote names map fst].
      split; [|split].
      * rewrite H1. unfold wrote_names. rewrite F'. rewrite <- app_assoc. reflexivity.
      * intro x. rewrite H2. unfold after_write. destruct (beq n x) eqn:B.
        -- apply beq_true_iff in B. subst x. replace (lookup r n) with (@None dstate).
           ++ rewrite lookup_set_node, beq_refl, E. reflexivity.
           ++ symmetry. apply lookup_None. assumption.
        -- rewrite !lookup_set_node, B. reflexivity.
      * intro NDd. apply H3. apply NoDup_set_node. assumption.
Qed.

Lemma wl_fail_set_other : forall r d n v, ~ In n (names r) -> wl_fail (set_node d n v) r = wl_fail d r.
Proof.
  intros r d n v Hn. unfold wl_fail. apply existsb_ext_in. intros [k w] Hk. cbn. rewrite lookup_set_node.
  destruct (beq n k) eqn:B; [|reflexivity]. apply beq_true_iff in B. subst. exfalso. apply Hn.
  change k with (fst (k, w)). apply in_map. assumption.
Qed.

(* what os.Remove cannot take away *)
Definition stuck (o : option node) : option node :=
  match o with Some v => if removable v then None else Some v | None => None end.

Lemma efs_cases : forall cur ds,
  match efs um out cur ds with
  | FSame => in_state out cur ds = true /\ exists v, cur = Some v
  | FWrote v => v = written um ds /\ in_state out cur ds = false /\ stuck (Some v) = stuck cur
  | FErr => True
  end.
Proof.
  intros cur ds. unfold efs, in_state.
  destruct (failat ds =? 1); [exact I|].
  destruct ds as [c m f|t f|f]; [| |exact I]; cbn [failat].
  - destruct (f =? 2); [exact I|].
    destruct cur as [[c' m'|t'|e]|]; cbn [node_same].
    + destruct (same_reg c m c' m'); [split; [reflexivity | eexists; reflexivity]|].
      destruct (f =? 3); [exact I|]. repeat split.
    + destruct (lookup out t') as [[c' m'|]|]; [| exact I |].
      * destruct (same_reg c m c' m'); [split; [reflexivity | eexists; reflexivity]|].
        destruct (f =? 3); [exact I|]. repeat split.
      * destruct (f =? 3); [exact I|]. repeat split.
    + exact I.
    + destruct (f =? 3); [exact I|]. repeat split.
  - destruct (f =? 2); [exact I|].
    destruct cur as [[c' m'|t'|e]|]; cbn [node_same].
    + destruct (f =? 3); [exact I|]. repeat split.
    + destruct (beq t t'); [split; [reflexivity | eexists; reflexivity]|].
      destruct (f =? 3); [exact I|]. repeat split.
    + destruct (f =? 3); exact I.
    + destruct (f =? 3); [exact I|]. repeat split.
Qed.

Lemma write_loop_fail : forall content d ch,
  NoDup (names content) -> wl_fail d content = true ->
  exists d', write_loop um out d content ch = (d', [], true)
             /\ (forall n, ~ In n (names content) -> lookup d' n = lookup d n)
             /\ (forall n, stuck (lookup d' n) = stuck (lookup d n))
             /\ (forall n, lookup d n <> None -> lookup d' n <> None)
             /\ (NoDup (names d) -> NoDup (names d')).
Proof.
  induction content as [|[n ds] r IH]; intros d ch ND WF; cbn in WF; [discriminate|].
  inversion ND as [|? ? Hn ND']; subst.
  cbn [write_loop]. pose proof (efs_cases (lookup d n) ds) as EC.
  destruct (efs um out (lookup d n) ds) eqn:E; cbn in WF.
  - destruct (IH d ch ND' WF) as [d' [H1 [H2 [H3 [H4 H5]]]]]. exists d'. split; [exact H1|]. split; [|tauto].
    intros x Hx. apply H2. intro H. apply Hx. right. assumption.
  - assert (W : wl_fail (set_node d n n0) r = true) by (rewrite wl_fail_set_other; assumption).
    destruct EC as [_ [_ ST]].
    destruct (IH (set_node d n n0) (ch ++ [n]) ND' W) as [d' [H1 [H2 [H3 [H4 H5]]]]]. exists d'. split; [exact H1|].
    split; [|split; [|split]].
    + intros x Hx. rewrite H2; [|intro H; apply Hx; right; assumption].
      rewrite lookup_set_node. destruct (beq n x) eqn:B; [|reflexivity]. apply beq_true_iff in B. subst. exfalso. apply Hx. left. reflexivity.
    + intro x. rewrite H3, lookup_set_node. destruct (beq n x) eqn:B; [|reflexivity]. apply beq_true_iff in B. subst. exact ST.
    + intros x Hx. apply H4. rewrite lookup_set_node. destruct (beq n x); [discriminate | assumption].
    + intro NDd. apply H5. apply NoDup_set_node. assumption.
  - exists d. repeat split; auto.
Qed.
End Loop.

(* ------------------------------------------------------------------ delete phase *)
Definition fst3 {A B C : Type} (x : A * B * C) : A := fst (fst x).
Definition snd3 {A B C : Type} (x : A * B * C) : B := snd (fst x).
Definition thd3 {A B C : Type} (x : A * B * C) : C := snd x.

Lemma erase_loop_names : forall mt keep d x, In x (names (fst3 (erase_loop mt keep d))) -> In x (names d).
Proof.
  induction d as [|[n v] r IH]; intros x; cbn; [tauto|].
  destruct (erase_loop mt keep r) as [[r' rm] e] eqn:E. unfold fst3 in *. cbn in IH.
  destruct (mt n && negb (mem_name n keep)); [destruct (removable v)|]; cbn; intuition.
Qed.

Lemma erase_loop_spec : forall mt keep d, NoDup (names d) ->
  let r := erase_loop mt keep d in
  (forall n, lookup (fst3 r) n =
             if mt n && negb (mem_name n keep)
             then match lookup d n with Some v => if removable v then None else Some v | None => None end
             else lookup d n)
  /\ (forall n, In n (snd3 r) <-> mt n = true /\ mem_name n keep = false /\ exists v, lookup d n = Some v /\ removable v = true)
  /\ (thd3 r = true <-> exists n v, mt n = true /\ mem_name n keep = false /\ lookup d n = Some v /\ removable v = false)
  /\ NoDup (snd3 r).
Proof.
  induction d as [|[k v] r IH]; intros ND; cbn.
  - unfold fst3, snd3, thd3; cbn. split; [|split; [|split]].
    + intro n. destruct (mt n && negb (mem_name n keep)); reflexivity.
    + intro n. split; [tauto|]. intros [_ [_ [v [H _]]]]. discriminate.
    + split; [discriminate|]. intros [n [v [_ [_ [H _]]]]]. discriminate.
    + constructor.
  - inversion ND as [|? ? Hk ND']; subst. specialize (IH ND'). cbn in IH.
    destruct (erase_loop mt keep r) as [[r' rm] e] eqn:E. unfold fst3, snd3, thd3 in *. cbn in IH.
    destruct IH as [I1 [I2 [I3 I4]]].
    assert (LK : lookup r k = None) by (apply lookup_None; assumption).
    destruct (mt k && negb (mem_name k keep)) eqn:C.
    + destruct (removable v) eqn:R; cbn.
      * split; [|split; [|split]].
        -- intro n. rewrite I1. destruct (beq k n) eqn:B; [|reflexivity].
           apply beq_true_iff in B. subst n. rewrite C, LK, R. reflexivity.
        -- intro n. rewrite I2. destruct (beq k n) eqn:B.
           ++ apply beq_true_iff in B. subst n. apply andb_true_iff in C. destruct C as [C1 C2]. apply negb_true_iff in C2.
              split; [|tauto]. intros _. repeat split; try assumption. exists v. tauto.
           ++ apply beq_false_iff in B. split; [intros [H | H]; [congruence | exact H] | intro H; right; exact H].
        -- rewrite I3. split; intros [n [w H]]; exists n, w; destruct (beq k n) eqn:B; try tauto.
           ++ apply beq_true_iff in B. subst n. rewrite LK in H. destruct H as [_ [_ [H _]]]. discriminate.
           ++ apply beq_true_iff in B. subst n. destruct H as [_ [_ [H1 H2]]]. inversion H1. subst. congruence.
        -- constructor; [|assumption]. rewrite I2. intros [_ [_ [w [H _]]]]. congruence.
      * split; [|split; [|split]].
        -- intro n. destruct (beq k n) eqn:B.
           ++ apply beq_true_iff in B. subst n. rewrite C, R. reflexivity.
           ++ apply I1.
        -- intro n. rewrite I2. destruct (beq k n) eqn:B; [|tauto].
           apply beq_true_iff in B. subst n. rewrite LK. split; intros [H1 [H2 [w [H3 H4]]]]; [discriminate|].
           inversion H3. subst. congruence.
        -- split; [|reflexivity]. intros _. exists k, v. rewrite beq_refl. apply andb_true_iff in C. destruct C as [C1 C2].
           apply negb_true_iff in C2. tauto.
        -- assumption.
    + cbn. split; [|split; [|split]].
      * intro n. destruct (beq k n) eqn:B.
        -- apply beq_true_iff in B. subst n. rewrite C. reflexivity.
        -- apply I1.
      * intro n. rewrite I2. destruct (beq k n) eqn:B; [|tauto].
        apply beq_true_iff in B. subst n. rewrite LK. split; intros [H1 [H2 H3]].
        -- destruct H3 as [w [H3 _]]. discriminate.
        -- rewrite H1, H2 in C. discriminate.
      * rewrite I3. split; intros [n [w H]]; exists n, w; destruct (beq k n) eqn:B; try tauto.
        -- apply beq_true_iff in B. subst n. rewrite LK in H. destruct H as [_ [_ [H _]]]. discriminate.
        -- apply beq_true_iff in B. subst n. destruct H as [H1 [H2 _]]. rewrite H1, H2 in C. discriminate.
      * assumption.
Qed.

(* ------------------------------------------------------------------ main theorems *)
Lemma lookup_Some_names : forall (A : Type) (d : list (bytes * A)) n v, lookup d n = Some v -> In n (names d).
Proof.
  intros A d n v H. destruct (in_dec (list_eq_dec N.eq_dec) n (names d)) as [I | I]; [assumption|].
  apply lookup_None in I. congruence.
Qed.
Lemma NoDup_names_filter : forall (A : Type) (f : bytes * A -> bool) (l : list (bytes * A)),
  NoDup (names l) -> NoDup (names (filter f l)).
Proof.
  induction l as [|[k v] r IH]; intro ND; cbn; [constructor|]. inversion ND as [|? ? Hk ND']; subst.
  destruct (f (k, v)); cbn; [|apply IH; assumption]. constructor; [|apply IH; assumption].
  intro H. apply Hk. apply in_map_iff in H. destruct H as [[k' v'] [E I]]. apply filter_In in I. destruct I as [I _].
  cbn in E. subst. change k with (fst (k, v')). apply in_map. assumption.
Qed.
Lemma mem_name_false : forall n l, mem_name n l = false <-> ~ In n l.
Proof. intros n l. rewrite <- mem_name_In. destruct (mem_name n l); split; congruence. Qed.

Section Main.
Variables (mt : bytes -> bool) (um : N) (out : list (bytes * onode)).

Definition valid_input (content : list (bytes * dstate)) : bool := forallb (fun n => valid_base n && mt n) (names content).

Lemma valid_input_mt : forall content n, valid_input content = true -> In n (names content) -> mt n = true.
Proof.
  intros content n V I. unfold valid_input in V. rewrite forallb_forall in V. specialize (V n I).
  apply andb_true_iff in V. tauto.
Qed.

Definition eds := ensure_dir_state mt um out.

(* the whole function, in closed form, when no entry fails *)
Lemma eds_ok_form : forall d content, NoDup (names d) -> NoDup (names content) ->
  valid_input content = true -> wl_fail um out d content = false ->
  exists d1, (forall n, lookup d1 n = after_write um out d content n) /\ NoDup (names d1) /\
    eds d content = mkResult (fst3 (erase_loop mt (names content) d1)) (sort (wrote_names um out d content))
                             (sort (snd3 (erase_loop mt (names content) d1))) (thd3 (erase_loop mt (names content) d1)) false.
Proof.
  intros d content NDd NDc V WF. destruct (write_loop_ok um out content d [] NDc WF) as [d1 [H1 [H2 H3]]].
  exists d1. split; [exact H2|]. split; [auto|]. unfold eds, ensure_dir_state. fold (valid_input content). rewrite V. cbn [negb].
  rewrite H1. cbn [app]. destruct (erase_loop mt (names content) d1) as [[a b] c]. reflexivity.
Qed.

Lemma eds_fail_form : forall d content, NoDup (names d) -> NoDup (names content) ->
  valid_input content = true -> wl_fail um out d content = true ->
  exists d1, (forall n, ~ In n (names content) -> lookup d1 n = lookup d n) /\
    (forall n, stuck (lookup d1 n) = stuck (lookup d n)) /\ (forall n, lookup d n <> None -> lookup d1 n <> None) /\
    NoDup (names d1) /\
    eds d content = mkResult (fst3 (erase_loop mt [] d1)) [] (sort (snd3 (erase_loop mt [] d1))) true true.
Proof.
  intros d content NDd NDc V WF. destruct (write_loop_fail um out content d [] NDc WF) as [d1 [H1 [H2 [H3 [H4 H5]]]]].
  exists d1. repeat (split; [auto|]). unfold eds, ensure_dir_state. fold (valid_input content). rewrite V. cbn [negb].
  rewrite H1. destruct (erase_loop mt [] d1) as [[a b] c]. reflexivity.
Qed.

Lemma eds_wfail_iff : forall d content, NoDup (names d) -> NoDup (names content) ->
  (r_wfail (eds d content) = true <-> valid_input content = true /\ wl_fail um out d content = true).
Proof.
  intros d content NDd NDc. destruct (valid_input content) eqn:V.
  - destruct (wl_fail um out d content) eqn:WF.
    + destruct (eds_fail_form d content NDd NDc V WF) as [d1 [_ [_ [_ [_ E]]]]]. rewrite E. cbn. tauto.
    + destruct (eds_ok_form d content NDd NDc V WF) as [d1 [_ [_ E]]]. rewrite E. cbn. split; [discriminate | intros [_ H]; discriminate].
  - unfold eds, ensure_dir_state. fold (valid_input content). rewrite V. cbn. split; [discriminate | intros [H _]; discriminate].
Qed.

(* success: managed names are exactly the desired ones, unrelated names untouched, lists exact and sorted *)
Theorem success_exact : forall d content, NoDup (names d) -> NoDup (names content) ->
  let r := eds d content in
  r_err r = false ->
  (forall n, mt n = false -> lookup (r_dir r) n = lookup d n)
  /\ (forall n, mt n = true ->
        match lookup content n with
        | None => lookup (r_dir r) n = None
        | Some ds => exists v, lookup (r_dir r) n = Some v /\
                     ((lookup d n = Some v /\ in_state out (Some v) ds = true) \/
                      (v = written um ds /\ in_state out (lookup d n) ds = false))
        end)
  /\ (forall n, In n (r_changed r) <-> exists ds, lookup content n = Some ds /\ in_state out (lookup d n) ds = false)
  /\ (forall n, In n (r_removed r) <-> mt n = true /\ lookup content n = None /\ lookup d n <> None)
  /\ StronglySorted le (r_changed r) /\ NoDup (r_changed r)
  /\ StronglySorted le (r_removed r) /\ NoDup (r_removed r).
Proof.
  intros d content NDd NDc r Herr. subst r.
  destruct (valid_input content) eqn:V.
  2:{ unfold eds, ensure_dir_state in Herr. fold (valid_input content) in Herr. rewrite V in Herr. discriminate. }
  destruct (wl_fail um out d content) eqn:WF.
  { destruct (eds_fail_form d content NDd NDc V WF) as [d1 [_ [_ [_ [_ E]]]]]. rewrite E in Herr. discriminate. }
  destruct (eds_ok_form d content NDd NDc V WF) as [d1 [AW [ND1 E]]]. rewrite E in *. cbn [r_dir r_changed r_removed r_err] in *.
  destruct (erase_loop_spec mt (names content) d1 ND1) as [S1 [S2 [S3 S4]]].
  assert (NOERR : forall n ds, lookup content n = Some ds -> efs um out (lookup d n) ds <> FErr).
  { intros n ds L Hf. unfold wl_fail in WF. apply (lookup_In _ content n ds NDc) in L.
    assert (X : existsb (fun e => is_err (efs um out (lookup d (fst e)) (snd e))) content = true).
    { apply existsb_exists. exists (n, ds). split; [assumption|]. cbn. rewrite Hf. reflexivity. }
    congruence. }
  assert (NOSTUCK : forall n v, mt n = true -> mem_name n (names content) = false -> lookup d1 n = Some v -> removable v = true).
  { intros n v M K L. destruct (removable v) eqn:R; [reflexivity|]. exfalso.
    assert (X : thd3 (erase_loop mt (names content) d1) = true) by (apply S3; exists n, v; tauto). congruence. }
  assert (INC : forall n, lookup content n = None -> lookup d1 n = lookup d n).
  { intros n L. rewrite AW. unfold after_write. rewrite L. reflexivity. }
  split; [|split; [|split; [|split]]].
  - intros n M. rewrite S1, M. cbn. apply INC. destruct (lookup content n) eqn:L; [|reflexivity].
    apply lookup_Some_names in L. rewrite (valid_input_mt content n V L) in M. discriminate.
  - intros n M. rewrite S1, M. cbn [andb]. destruct (lookup content n) as [ds|] eqn:L.
    + assert (K : mem_name n (names content) = true) by (apply mem_name_In; eapply lookup_Some_names; eassumption).
      rewrite K. cbn [negb]. rewrite AW. unfold after_write. rewrite L.
      pose proof (efs_cases um out (lookup d n) ds) as EC. pose proof (NOERR n ds L) as NE.
      destruct (efs um out (lookup d n) ds) eqn:EF; [| |congruence].
      * destruct EC as [IS [v Hv]]. exists v. split; [assumption|]. left. rewrite Hv in IS. tauto.
      * destruct EC as [W [IS _]]. exists n0. split; [reflexivity|]. right. tauto.
    + assert (K : mem_name n (names content) = false) by (apply mem_name_false; apply lookup_None; assumption).
      rewrite K. cbn [negb]. destruct (lookup d1 n) as [v|] eqn:L1; [|reflexivity].
      rewrite (NOSTUCK n v M K L1). reflexivity.
  - intro n. rewrite sort_In. unfold wrote_names. rewrite in_map_iff. split.
    + intros [[k ds] [Ek I]]. cbn in Ek. subst k. apply filter_In in I. destruct I as [I W]. cbn in W.
      exists ds. split; [apply lookup_In; assumption|].
      pose proof (efs_cases um out (lookup d n) ds) as EC. destruct (efs um out (lookup d n) ds); try discriminate. tauto.
    + intros [ds [L IS]]. exists (n, ds). split; [reflexivity|]. apply filter_In. split; [apply lookup_In; assumption|]. cbn.
      pose proof (efs_cases um out (lookup d n) ds) as EC. pose proof (NOERR n ds L) as NE.
      destruct (efs um out (lookup d n) ds); [|reflexivity|congruence]. destruct EC as [X _]. congruence.
  - intro n. rewrite sort_In, S2. split.
    + intros [M [K [v [L R]]]]. apply mem_name_false in K. apply lookup_None in K. rewrite (INC n K) in L.
      repeat split; try assumption. congruence.
    + intros [M [L NN]]. assert (K : mem_name n (names content) = false) by (apply mem_name_false; apply lookup_None; assumption).
      repeat split; try assumption. destruct (lookup d n) as [v|] eqn:Ld; [|congruence]. exists v. rewrite (INC n L).
      split; [assumption|]. apply (NOSTUCK n v M K). rewrite (INC n L). assumption.
  - repeat split; try apply sort_sorted; apply sort_NoDup; [|assumption].
    unfold wrote_names. apply NoDup_names_filter. assumption.
Qed.

(* with a umask that does not clear any desired permission bit, a freshly written entry is in the desired state *)
Lemma written_in_state : forall ds, (match ds with DReg _ m _ => N.land (perm m) um = 0 | DSym _ _ => True | DBad _ => False end) ->
  in_state out (Some (written um ds)) ds = true.
Proof.
  intros [c m f|t f|f] H; unfold in_state; cbn.
  - unfold same_reg. rewrite beq_refl. replace (perm (N.ldiff (perm m) um)) with (perm m); [rewrite N.eqb_refl; reflexivity|].
    unfold perm in *. apply N.bits_inj. intro i. rewrite !N.land_spec, N.ldiff_spec, N.land_spec.
    assert (X : N.testbit (N.land (N.land m 511) um) i = false) by (rewrite H; apply N.bits_0).
    rewrite !N.land_spec in X. destruct (N.testbit m i), (N.testbit 511 i), (N.testbit um i); cbn in *; congruence.
  - rewrite beq_refl. reflexivity.
  - contradiction.
Qed.

(* fail closed: a failure in the change phase (any entry, any of its State() calls, a directory in the way ...) leaves
   nothing under the managed names except non-empty directories that were already there, reports nothing changed *)
Theorem fail_closed : forall d content, NoDup (names d) -> NoDup (names content) ->
  let r := eds d content in
  r_wfail r = true ->
  r_err r = true /\ r_changed r = []
  /\ (forall n, lookup (r_dir r) n = if mt n then stuck (lookup d n) else lookup d n)
  /\ (forall n, In n (r_removed r) -> mt n = true /\ lookup (r_dir r) n = None)
  /\ (forall n, mt n = true -> lookup d n <> None -> lookup (r_dir r) n = None -> In n (r_removed r))
  /\ StronglySorted le (r_removed r) /\ NoDup (r_removed r).
Proof.
  intros d content NDd NDc r WF. subst r. apply eds_wfail_iff in WF; try assumption. destruct WF as [V WF].
  destruct (eds_fail_form d content NDd NDc V WF) as [d1 [OTH [ST [KEEP [ND1 E]]]]]. rewrite E. cbn [r_dir r_changed r_removed r_err].
  destruct (erase_loop_spec mt [] d1 ND1) as [S1 [S2 [S3 S4]]].
  assert (FIN : forall n, lookup (fst3 (erase_loop mt [] d1)) n = if mt n then stuck (lookup d n) else lookup d n).
  { intro n. rewrite S1. cbn [mem_name existsb negb]. rewrite andb_true_r. destruct (mt n) eqn:M.
    - rewrite <- ST. reflexivity.
    - apply OTH. intro I. rewrite (valid_input_mt content n V I) in M. discriminate. }
  repeat split; try reflexivity; try apply sort_sorted; try (apply sort_NoDup; assumption).
  - exact FIN.
  - apply (proj1 (sort_In _ _)) in H. apply (proj1 (S2 _)) in H. tauto.
  - apply (proj1 (sort_In _ _)) in H. apply (proj1 (S2 _)) in H. destruct H as [M [_ [v [L R]]]]. rewrite FIN, M, <- ST, L. cbn. rewrite R. reflexivity.
  - intros n M NN FN. apply sort_In. apply S2. split; [assumption|]. split; [reflexivity|].
    specialize (KEEP n NN). destruct (lookup d1 n) as [v|] eqn:L; [|congruence]. exists v. split; [reflexivity|].
    rewrite FIN, M, <- ST, L in FN. cbn in FN. destruct (removable v); [reflexivity | discriminate].
Qed.

(* invalid input (a name with a path component or not matching the globs) changes nothing *)
Theorem bad_input_no_effect : forall d content, valid_input content = false ->
  eds d content = mkResult d [] [] true false.
Proof. intros d content V. unfold eds, ensure_dir_state. fold (valid_input content). rewrite V. reflexivity. Qed.

(* the visiting order does not matter *)
Lemma perm_lookup : forall (A : Type) (c c' : list (bytes * A)), Permutation c c' -> NoDup (names c) ->
  forall n, lookup c n = lookup c' n.
Proof.
  intros A c c' P ND n. assert (ND' : NoDup (names c')) by (eapply Permutation_NoDup; [apply Permutation_map; exact P | assumption]).
  destruct (lookup c n) as [v|] eqn:L.
  - symmetry. apply lookup_In; [assumption|]. apply (Permutation_in _ P). apply lookup_In; assumption.
  - symmetry. apply lookup_None. apply lookup_None in L. intro I. apply L.
    apply (Permutation_in _ (Permutation_sym (Permutation_map fst P))). assumption.
Qed.
Lemma perm_forallb : forall (A : Type) (f : A -> bool) l l', Permutation l l' -> forallb f l = forallb f l'.
Proof. induction 1; cbn; try congruence. rewrite !andb_assoc, (andb_comm (f y)). reflexivity. Qed.
Lemma perm_existsb : forall (A : Type) (f : A -> bool) l l', Permutation l l' -> existsb f l = existsb f l'.
Proof. induction 1; cbn; try congruence. rewrite !orb_assoc, (orb_comm (f y)). reflexivity. Qed.
Lemma bool_iff_eq : forall a b : bool, (a = true <-> b = true) -> a = b.
Proof. intros [|] [|] H; try reflexivity; [symmetry|]; apply H; reflexivity. Qed.

Theorem order_independent : forall d content content', NoDup (names d) -> NoDup (names content) ->
  Permutation content content' ->
  let r := eds d content in let r' := eds d content' in
  (forall n, lookup (r_dir r) n = lookup (r_dir r') n)
  /\ r_changed r = r_changed r' /\ r_err r = r_err r' /\ r_wfail r = r_wfail r'
  /\ (r_wfail r = false -> r_removed r = r_removed r').
Proof.
  intros d content content' NDd NDc P r r'. subst r r'.
  assert (NDc' : NoDup (names content')) by (eapply Permutation_NoDup; [apply Permutation_map; exact P | assumption]).
  assert (PV : valid_input content = valid_input content') by (apply perm_forallb; apply Permutation_map; assumption).
  assert (PW : wl_fail um out d content = wl_fail um out d content') by (apply perm_existsb; assumption).
  destruct (valid_input content) eqn:V.
  2:{ rewrite !bad_input_no_effect by congruence. cbn. tauto. }
  symmetry in PV. destruct (wl_fail um out d content) eqn:WF; symmetry in PW.
  - pose proof (fail_closed d content NDd NDc) as F. pose proof (fail_closed d content' NDd NDc') as F'. cbn zeta in F, F'.
    assert (W : r_wfail (eds d content) = true) by (apply eds_wfail_iff; auto).
    assert (W' : r_wfail (eds d content') = true) by (apply eds_wfail_iff; auto).
    destruct (F W) as [A1 [A2 [A3 _]]]. destruct (F' W') as [B1 [B2 [B3 _]]].
    split; [intro n; rewrite A3, B3; reflexivity|]. rewrite A1, A2, B1, B2, W, W'. repeat split. discriminate.
  - destruct (eds_ok_form d content NDd NDc V WF) as [d1 [AW [ND1 E]]].
    destruct (eds_ok_form d content' NDd NDc' PV PW) as [d1' [AW' [ND1' E']]]. rewrite E, E'. cbn [r_dir r_changed r_removed r_err r_wfail].
    destruct (erase_loop_spec mt (names content) d1 ND1) as [S1 [S2 [S3 S4]]].
    destruct (erase_loop_spec mt (names content') d1' ND1') as [T1 [T2 [T3 T4]]].
    assert (LK : forall n, lookup d1 n = lookup d1' n).
    { intro n. rewrite AW, AW'. unfold after_write. rewrite (perm_lookup _ content content' P NDc n). reflexivity. }
    assert (MK : forall n, mem_name n (names content) = mem_name n (names content')).
    { intro n. apply perm_existsb. apply Permutation_map. assumption. }
    split; [|split; [|split; [|split]]].
    + intro n. rewrite S1, T1, LK, MK. reflexivity.
    + apply sort_ext.
      * unfold wrote_names. apply NoDup_names_filter. assumption.
      * unfold wrote_names. apply NoDup_names_filter. assumption.
      * intro x. unfold wrote_names. rewrite !in_map_iff. split; intros [e [Ee I]]; exists e; (split; [assumption|]);
          apply filter_In in I; apply filter_In; (split; [|tauto]); destruct I as [I _].
        -- apply (Permutation_in _ P). assumption.
        -- apply (Permutation_in _ (Permutation_sym P)). assumption.
    + apply bool_iff_eq. rewrite S3, T3. split; intros [n [v H]]; exists n, v; [rewrite <- LK, <- MK | rewrite LK, MK]; assumption.
    + reflexivity.
    + intros _. apply sort_ext; try assumption. intro x. rewrite S2, T2.
      split; intros [M [K [v H]]]; (split; [assumption|]); (split; [congruence|]); exists v; [rewrite <- LK | rewrite LK]; assumption.
Qed.
End Main.

(* corollaries in the form used by props/C23.v *)
Lemma success_valid : forall mt um out d content, r_err (eds mt um out d content) = false -> valid_input mt content = true.
Proof.
  intros mt um out d content H. destruct (valid_input mt content) eqn:V; [reflexivity|].
  rewrite bad_input_no_effect in H by assumption. discriminate.
Qed.

Theorem success_desired_state : forall mt um out d content, NoDup (names d) -> NoDup (names content) ->
  umask_ok um content = true -> r_err (eds mt um out d content) = false ->
  forall n ds, lookup content n = Some ds ->
  exists v, lookup (r_dir (eds mt um out d content)) n = Some v /\ reads_as out v ds = true.
Proof.
  intros mt um out d content NDd NDc UM Herr n ds L.
  pose proof (success_valid _ _ _ _ _ Herr) as V.
  destruct (success_exact mt um out d content NDd NDc Herr) as [_ [B _]].
  assert (M : mt n = true) by (eapply valid_input_mt; [eassumption | eapply lookup_Some_names; eassumption]).
  specialize (B n M). rewrite L in B. destruct B as [v [Lv [[_ IS] | [W IS]]]]; exists v; (split; [assumption|]); [exact IS|].
  subst v. unfold reads_as. apply written_in_state.
  unfold umask_ok in UM. rewrite forallb_forall in UM. apply (lookup_In _ content n ds NDc) in L. specialize (UM (n, ds) L). cbn in UM.
  destruct ds as [c m f|t f|f]; [apply N.eqb_eq; assumption | exact I |].
  (* a DBad entry never succeeds *)
  exfalso. destruct (wl_fail um out d content) eqn:WF.
  - assert (X : r_wfail (eds mt um out d content) = true) by (apply eds_wfail_iff; auto).
    destruct (fail_closed mt um out d content NDd NDc X) as [E _]. congruence.
  - unfold wl_fail in WF. assert (X : existsb (fun e => is_err (efs um out (lookup d (fst e)) (snd e))) content = true).
    { apply existsb_exists. exists (n, DBad f). split; [assumption|]. cbn. unfold efs. cbn. destruct (f =? 1); reflexivity. }
    congruence.
Qed.

Theorem failure_points : forall mt um out d content, NoDup (names d) -> NoDup (names content) -> valid_input mt content = true ->
  (r_wfail (eds mt um out d content) = true <->
   exists n ds, In (n, ds) content /\ efs um out (lookup d n) ds = FErr).
Proof.
  intros mt um out d content NDd NDc V. rewrite eds_wfail_iff by assumption. unfold wl_fail. rewrite existsb_exists. split.
  - intros [_ [[n ds] [I E]]]. exists n, ds. split; [assumption|]. cbn in E. destruct (efs um out (lookup d n) ds); try discriminate. reflexivity.
  - intros [n [ds [I E]]]. split; [assumption|]. exists (n, ds). split; [assumption|]. cbn. rewrite E. reflexivity.
Qed.

(* what makes one entry fail: any of its three State() calls, an unsupported type, or a directory in the way *)
Lemma efs_fails : forall um out cur ds,
  (failat ds = 1 \/ failat ds = 2 \/ (exists f, ds = DBad f) \/ (exists e, cur = Some (Dir e))
   \/ (failat ds = 3 /\ in_state out cur ds = false)) -> efs um out cur ds = FErr.
Proof.
  intros um out cur ds H. unfold efs, in_state in *.
  destruct (failat ds =? 1) eqn:F1; [reflexivity|].
  destruct ds as [c m f|t f|f]; [| |reflexivity]; cbn [failat] in *.
  - destruct (f =? 2) eqn:F2; [reflexivity|].
    destruct H as [H | [H | [[f' H] | [[e H] | [H1 H2]]]]]; try lia; try discriminate.
    + subst cur. reflexivity.
    + destruct (node_same out cur (DReg c m f)) as [[|]|]; try discriminate; try reflexivity.
      subst f. reflexivity.
  - destruct (f =? 2) eqn:F2; [reflexivity|].
    destruct H as [H | [H | [[f' H] | [[e H] | [H1 H2]]]]]; try lia; try discriminate.
    + subst cur. cbn. destruct (f =? 3); reflexivity.
    + destruct (node_same out cur (DSym t f)) as [[|]|]; try discriminate; try reflexivity.
      subst f. reflexivity.
Qed.

(* ------------------------------------------------------------------ corollaries in the wording of the property *)
(* "none of the snap's managed files remain (provided removal itself succeeds)": if nothing in the directory is a non-empty
   directory, a failed change phase leaves NO entry under the managed names *)
Theorem fail_closed_all_gone : forall mt um out d content, NoDup (names d) -> NoDup (names content) ->
  (forall n v, lookup d n = Some v -> removable v = true) ->
  r_wfail (eds mt um out d content) = true ->
  forall n, mt n = true -> lookup (r_dir (eds mt um out d content)) n = None.
Proof.
  intros mt um out d content NDd NDc REM W n M.
  destruct (fail_closed mt um out d content NDd NDc W) as [_ [_ [A3 _]]]. rewrite A3, M. unfold stuck.
  destruct (lookup d n) as [v|] eqn:L; [|reflexivity]. rewrite (REM n v L). reflexivity.
Qed.

(* permissions: a file with the right content but other permission bits is rewritten with the desired bits and reported
   changed; with the same permission bits and content it is left alone and not reported *)
Theorem mode_only_difference : forall mt um out d content n c m m' f, NoDup (names d) -> NoDup (names content) ->
  r_err (eds mt um out d content) = false ->
  lookup content n = Some (DReg c m f) -> lookup d n = Some (Reg c m') ->
  (perm m <> perm m' ->
     In n (r_changed (eds mt um out d content)) /\ lookup (r_dir (eds mt um out d content)) n = Some (Reg c (N.ldiff (perm m) um)))
  /\ (perm m = perm m' ->
     ~ In n (r_changed (eds mt um out d content)) /\ lookup (r_dir (eds mt um out d content)) n = Some (Reg c m')).
Proof.
  intros mt um out d content n c m m' f NDd NDc Herr LC LD.
  pose proof (success_valid _ _ _ _ _ Herr) as V.
  assert (M : mt n = true) by (eapply valid_input_mt; [eassumption | eapply lookup_Some_names; eassumption]).
  destruct (success_exact mt um out d content NDd NDc Herr) as [_ [B [C _]]].
  specialize (B n M). rewrite LC in B. destruct B as [v [Lv B]].
  assert (IS : in_state out (lookup d n) (DReg c m f) = ((perm m =? perm m') && true)).
  { rewrite LD. unfold in_state. cbn. unfold same_reg. rewrite beq_refl. destruct (perm m =? perm m'); reflexivity. }
  split; intro P.
  - assert (IS' : in_state out (lookup d n) (DReg c m f) = false).
    { rewrite IS. apply N.eqb_neq in P. rewrite P. reflexivity. }
    split; [apply C; exists (DReg c m f); tauto|].
    destruct B as [[E IS2] | [E _]]; [|rewrite Lv, E; reflexivity].
    rewrite LD in E. inversion E; subst v. rewrite <- LD in IS2. congruence.
  - assert (IS' : in_state out (lookup d n) (DReg c m f) = true).
    { rewrite IS. rewrite P, N.eqb_refl. reflexivity. }
    split.
    + intro I. apply C in I. destruct I as [ds [L2 I]]. rewrite LC in L2. inversion L2; subst ds. congruence.
    + destruct B as [[E _] | [_ IS2]]; [rewrite Lv, <- E; assumption | congruence].
Qed.

(* when every entry is removable (files and symlinks, empty directories), an error can only come from the change phase *)
Lemma written_removable : forall um ds, removable (written um ds) = true.
Proof. intros um [c m f|t f|f]; reflexivity. Qed.
Lemma err_is_wfail : forall mt um out d content, NoDup (names d) -> NoDup (names content) ->
  (forall n v, lookup d n = Some v -> removable v = true) ->
  r_err (eds mt um out d content) = true -> valid_input mt content = true -> r_wfail (eds mt um out d content) = true.
Proof.
  intros mt um out d content NDd NDc REM E V. apply eds_wfail_iff; try assumption. split; [assumption|].
  destruct (wl_fail um out d content) eqn:WF; [reflexivity|]. exfalso.
  destruct (eds_ok_form mt um out d content NDd NDc V WF) as [d1 [AW [ND1 F]]]. rewrite F in E. cbn [r_err] in E.
  destruct (erase_loop_spec mt (names content) d1 ND1) as [_ [_ [S3 _]]]. apply S3 in E. destruct E as [n [v [_ [_ [L R]]]]].
  rewrite AW in L. unfold after_write in L.
  destruct (lookup content n) as [ds|] eqn:LC.
  - pose proof (efs_cases um out (lookup d n) ds) as EC. destruct (efs um out (lookup d n) ds) eqn:EF.
    + rewrite (REM n v L) in R. discriminate.
    + inversion L; subst v. destruct EC as [W _]. subst n0. rewrite written_removable in R. discriminate.
    + rewrite (REM n v L) in R. discriminate.
  - rewrite (REM n v L) in R. discriminate.
Qed.
