(* C23 — proofs about models/SyncDir.v. All statements are for every directory, every desired content, every glob
   predicate, every visiting order and every failure point. *)
From Coq Require Import List NArith Bool Lia ZifyBool ZifyN Permutation Sorted.
Import ListNotations.
Require Import V.lib.Bytes V.models.SyncDir.
Open Scope N_scope.

(* ------------------------------------------------------------------ names *)
Lemma beq_true_iff : forall a b, beq a b = true <-> a = b.
Proof.
  induction a as [|x a IH]; destruct b as [|y b]; cbn; split; intro H; try congruence; try discriminate.
  - apply andb_true_iff in H. destruct H as [H1 H2]. apply N.eqb_eq in H1. apply IH in H2. congruence.
  - inversion H; subst. rewrite N.eqb_refl. cbn. apply IH. reflexivity.
Qed.
Lemma beq_refl : forall a, beq a a = true.
Proof. intro a. apply beq_true_iff. reflexivity. Qed.
Lemma beq_false_iff : forall a b, beq a b = false <-> a <> b.
Proof.
  intros a b. destruct (beq a b) eqn:E.
  - apply beq_true_iff in E. split; [discriminate | congruence].
  - split; [|reflexivity]. intros _ H. apply beq_true_iff in H. congruence.
Qed.
Lemma beq_sym : forall a b, beq a b = beq b a.
Proof.
  intros a b. destruct (beq a b) eqn:E; symmetry.
  - apply beq_true_iff in E. subst. apply beq_refl.
  - apply beq_false_iff. apply beq_false_iff in E. congruence.
Qed.

Lemma mem_name_In : forall n l, mem_name n l = true <-> In n l.
Proof.
  intros n l. unfold mem_name. rewrite existsb_exists. split.
  - intros [x [Hx Hb]]. apply beq_true_iff in Hb. subst. assumption.
  - intro H. exists n. split; [assumption | apply beq_refl].
Qed.

Lemma lookup_None : forall (A : Type) (d : list (bytes * A)) n, lookup d n = None <-> ~ In n (names d).
Proof.
  induction d as [|[k v] r IH]; intro n; cbn.
  - tauto.
  - destruct (beq k n) eqn:E.
    + apply beq_true_iff in E. subst. split; [discriminate | intro H; exfalso; apply H; left; reflexivity].
    + apply beq_false_iff in E. rewrite IH. tauto.
Qed.
Lemma lookup_In : forall (A : Type) (d : list (bytes * A)) n v, NoDup (names d) -> (lookup d n = Some v <-> In (n, v) d).
Proof.
  induction d as [|[k w] r IH]; intros n v ND; cbn.
  - split; [discriminate | tauto].
  - inversion ND as [|? ? Hk ND']; subst. destruct (beq k n) eqn:E.
    + apply beq_true_iff in E. subst. split.
      * intro H. inversion H. left. reflexivity.
      * intros [H | H]; [congruence|]. exfalso. apply Hk. change n with (fst (n, v)). apply in_map. assumption.
    + apply beq_false_iff in E. rewrite (IH n v ND'). split; [tauto|]. intros [H | H]; [congruence | assumption].
Qed.

Lemma lookup_set_node : forall d n v n', lookup (set_node d n v) n' = if beq n n' then Some v else lookup d n'.
Proof.
  induction d as [|[k w] r IH]; intros n v n'; cbn.
  - reflexivity.
  - destruct (beq k n) eqn:E; cbn.
    + apply beq_true_iff in E. subst. destruct (beq n n'); reflexivity.
    + rewrite IH. destruct (beq k n') eqn:E2; [|reflexivity].
      apply beq_true_iff in E2. subst. rewrite beq_sym, E. reflexivity.
Qed.
Lemma names_set_node : forall d n v x, In x (names (set_node d n v)) <-> x = n \/ In x (names d).
Proof.
  induction d as [|[k w] r IH]; intros n v x; cbn.
  - intuition.
  - destruct (beq k n) eqn:E; cbn.
    + apply beq_true_iff in E. subst. intuition.
    + rewrite IH. intuition.
Qed.
Lemma NoDup_set_node : forall d n v, NoDup (names d) -> NoDup (names (set_node d n v)).
Proof.
  induction d as [|[k w] r IH]; intros n v ND; cbn.
  - constructor; [tauto | constructor].
  - inversion ND as [|? ? Hk ND']; subst. destruct (beq k n) eqn:E; cbn.
    + constructor; assumption.
    + constructor; [|apply IH; assumption]. rewrite names_set_node. apply beq_false_iff in E. intros [H | H]; [congruence | tauto].
Qed.

(* ------------------------------------------------------------------ the order on names; sort *)
Lemma ble_total : forall a b, ble a b = false -> ble b a = true.
Proof.
  induction a as [|x a IH]; destruct b as [|y b]; cbn; intro H; try congruence.
  destruct (x <? y) eqn:E1; [discriminate|]. destruct (y <? x) eqn:E2; [reflexivity|]. apply IH. assumption.
Qed.
Lemma ble_antisym : forall a b, ble a b = true -> ble b a = true -> a = b.
Proof.
  induction a as [|x a IH]; destruct b as [|y b]; cbn; intros H1 H2; try congruence.
  destruct (x <? y) eqn:E1; destruct (y <? x) eqn:E2; try discriminate; try lia.
  assert (x = y) by lia. subst. f_equal. apply IH; assumption.
Qed.
Lemma ble_trans : forall a b c, ble a b = true -> ble b c = true -> ble a c = true.
Proof.
  induction a as [|x a IH]; destruct b as [|y b]; destruct c as [|z c]; cbn; intros H1 H2; try congruence.
  destruct (x <? y) eqn:E1; destruct (y <? z) eqn:E2; destruct (x <? z) eqn:E3; try reflexivity; try lia;
    destruct (y <? x) eqn:E4; destruct (z <? y) eqn:E5; destruct (z <? x) eqn:E6; try discriminate; try lia.
  eapply IH; eassumption.
Qed.

Definition le (a b : bytes) : Prop := ble a b = true.

Lemma insert_perm : forall x l, Permutation (insert x l) (x :: l).
Proof.
  induction l as [|y r IH]; cbn; [apply Permutation_refl|].
  destruct (ble x y); [apply Permutation_refl|].
  eapply perm_trans; [apply perm_skip; exact IH | apply perm_swap].
Qed.
Lemma sort_perm : forall l, Permutation (sort l) l.
Proof.
  induction l as [|x r IH]; cbn; [constructor|].
  eapply perm_trans; [apply insert_perm | apply perm_skip; exact IH].
Qed.
Lemma sort_In : forall l x, In x (sort l) <-> In x l.
Proof. intros l x. split; apply Permutation_in; [|apply Permutation_sym]; apply sort_perm. Qed.
Lemma sort_NoDup : forall l, NoDup l -> NoDup (sort l).
Proof. intros l H. eapply Permutation_NoDup; [apply Permutation_sym; apply sort_perm | assumption]. Qed.

Lemma insert_sorted : forall x l, StronglySorted le l -> StronglySorted le (insert x l).
Proof.
  induction l as [|y r IH]; intro S; cbn.
  - constructor; constructor.
  - inversion S as [|? ? S' F]; subst. destruct (ble x y) eqn:E.
    + constructor; [assumption|]. constructor; [exact E|].
      rewrite Forall_forall in *. intros z Hz. eapply ble_trans; [exact E | apply F; assumption].
    + constructor; [apply IH; assumption|].
      rewrite Forall_forall in *. intros z Hz.
      apply (Permutation_in _ (insert_perm x r)) in Hz. destruct Hz as [Hz | Hz].
      * subst. apply ble_total. assumption.
      * apply F. assumption.
Qed.
Lemma sort_sorted : forall l, StronglySorted le (sort l).
Proof. induction l as [|x r IH]; cbn; [constructor | apply insert_sorted; assumption]. Qed.

Lemma insert_comm : forall x y l, insert x (insert y l) = insert y (insert x l).
Proof.
  intros x y. induction l as [|z r IH]; cbn.
  - destruct (ble x y) eqn:E1; destruct (ble y x) eqn:E2; try reflexivity.
    + rewrite (ble_antisym _ _ E1 E2). reflexivity.
    + apply ble_total in E1. congruence.
  - destruct (ble y z) eqn:Ey; destruct (ble x z) eqn:Ex; cbn; rewrite ?Ey, ?Ex.
    + destruct (ble x y) eqn:E1; destruct (ble y x) eqn:E2; try reflexivity.
      * rewrite (ble_antisym _ _ E1 E2). reflexivity.
      * apply ble_total in E1. congruence.
    + destruct (ble x y) eqn:E1; [|reflexivity]. rewrite (ble_trans _ _ _ E1 Ey) in Ex. discriminate.
    + destruct (ble y x) eqn:E2; [|reflexivity]. rewrite (ble_trans _ _ _ E2 Ex) in Ey. discriminate.
    + rewrite IH. reflexivity.
Qed.
Lemma sort_permutation : forall l l', Permutation l l' -> sort l = sort l'.
Proof.
  induction 1; cbn.
  - reflexivity.
  - unfold sort in IHPermutation. rewrite IHPermutation. reflexivity.
  - apply insert_comm.
  - congruence.
Qed.
Lemma sort_ext : forall l l', NoDup l -> NoDup l' -> (forall x, In x l <-> In x l') -> sort l = sort l'.
Proof. intros l l' N1 N2 H. apply sort_permutation. apply NoDup_Permutation; assumption. Qed.

(* ------------------------------------------------------------------ change phase *)
Definition is_err (r : fres) : bool := match r with FErr => true | _ => false end.
Definition is_wrote (r : fres) : bool := match r with FWrote _ => true | _ => false end.

Section Loop.
Variables (um : N) (out : list (bytes * onode)).

Definition wl_fail (d : list (bytes * node)) (content : list (bytes * dstate)) : bool :=
  existsb (fun e => is_err (efs um out (lookup d (fst e)) (snd e))) content.

(* the node a name has after a successful change phase *)
Definition after_write (d : list (bytes * node)) (content : list (bytes * dstate)) (n : bytes) : option node :=
  match lookup content n with
  | Some ds => match efs um out (lookup d n) ds with FWrote v => Some v | _ => lookup d n end
  | None => lookup d n
  end.
Definition wrote_names (d : list (bytes * node)) (content : list (bytes * dstate)) : list bytes :=
  names (filter (fun e => is_wrote (efs um out (lookup d (fst e)) (snd e))) content).

Lemma write_loop_ok : forall content d ch,
  NoDup (names content) -> wl_fail d content = false ->
  exists d', write_loop um out d content ch = (d', ch ++ wrote_names d content, false)
             /\ (forall n, lookup d' n = after_write d content n)
             /\ (NoDup (names d) -> NoDup (names d')).
Proof.
  induction content as [|[n ds] r IH]; intros d ch ND WF.
  - exists d. cbn. rewrite app_nil_r. repeat split; auto.
  - inversion ND as [|? ? Hn ND']; subst. cbn in WF. apply orb_false_iff in WF. destruct WF as [W1 W2].
    cbn [write_loop]. unfold wrote_names, after_write. cbn [filter fst snd lookup].
    assert (EXT : forall d2, (forall x, x <> n -> lookup d2 x = lookup d x) -> wl_fail d2 r = false
                 /\ filter (fun e => is_wrote (efs um out (lookup d2 (fst e)) (snd e))) r
                    = filter (fun e => is_wrote (efs um out (lookup d (fst e)) (snd e))) r).
    { intros d2 H2. unfold wl_fail. split.
      - rewrite <- W2. apply existsb_ext_in. intros [k v] Hk. cbn. rewrite H2; [reflexivity|].
        intro; subst. apply Hn. change n with (fst (n, v)). apply in_map. assumption.
      - apply filter_ext_in. intros [k v] Hk. cbn. rewrite H2; [reflexivity|].
        intro; subst. apply Hn. change n with (fst (n, v)). apply in_map. assumption. }
    destruct (efs um out (lookup d n) ds) eqn:E; cbn in W1; try discriminate.
    + destruct (IH d ch ND' W2) as [d' [H1 [H2 H3]]]. exists d'. cbn [is_wrote]. split; [exact H1|]. split; [|exact H3].
      intro x. rewrite H2. unfold after_write. destruct (beq n x) eqn:B.
      * apply beq_true_iff in B. subst x. replace (lookup r n) with (@None dstate); [rewrite E; reflexivity|].
        symmetry. apply lookup_None. assumption.
      * reflexivity.
    + destruct (EXT (set_node d n n0)) as [W2' F'].
      { intros x Hx. rewrite lookup_set_node. destruct (beq n x) eqn:B; [|reflexivity]. apply beq_true_iff in B. congruence. }
      destruct (IH (set_node d n n0) (ch ++ [n]) ND' W2') as [d' [H1 [H2 H3]]]. exists d'. cbn [is_wrote names map fst].
      split; [|split].
      * rewrite H1. unfold wrote_names. rewrite F'. rewrite <- app_assoc. reflexivity.
      * intro x. rewrite H2. unfold after_write. destruct (beq n x) eqn:B.
        -- apply beq_true_iff in B. subst x. replace (lookup r n) with (@None dstate).
           ++ rewrite lookup_set_node, beq_refl, E. reflexivity.
           ++ symmetry. apply lookup_None. assumption.
        -- rewrite !lookup_set_node, B. reflexivity.
      * intro NDd. apply H3. apply NoDup_set_node. assumption.
Qed.

Lemma wl_fail_set_other : forall r d n v, ~ In n (names r) -> wl_fail (set_node d n v) r = wl_fail d r.
Proof.
  intros r d n v Hn. unfold wl_fail. apply existsb_ext_in. intros [k w] Hk. cbn. rewrite lookup_set_node.
  destruct (beq n k) eqn:B; [|reflexivity]. apply beq_true_iff in B. subst. exfalso. apply Hn.
  change k with (fst (k, w)). apply in_map. assumption.
Qed.

Lemma write_loop_fail : forall content d ch,
  NoDup (names content) -> wl_fail d content = true ->
  exists d', write_loop um out d content ch = (d', [], true)
             /\ (forall n, ~ In n (names content) -> lookup d' n = lookup d n)
             /\ (NoDup (names d) -> NoDup (names d')).
Proof.
  induction content as [|[n ds] r IH]; intros d ch ND WF; cbn in WF; [discriminate|].
  inversion ND as [|? ? Hn ND']; subst.
  cbn [write_loop]. destruct (efs um out (lookup d n) ds) eqn:E; cbn in WF.
  - destruct (IH d ch ND' WF) as [d' [H1 [H2 H3]]]. exists d'. split; [exact H1|]. split; [|exact H3].
    intros x Hx. apply H2. intro H. apply Hx. right. assumption.
  - assert (W : wl_fail (set_node d n n0) r = true) by (rewrite wl_fail_set_other; assumption).
    destruct (IH (set_node d n n0) (ch ++ [n]) ND' W) as [d' [H1 [H2 H3]]]. exists d'. split; [exact H1|]. split.
    + intros x Hx. rewrite H2; [|intro H; apply Hx; right; assumption].
      rewrite lookup_set_node. destruct (beq n x) eqn:B; [|reflexivity]. apply beq_true_iff in B. subst. exfalso. apply Hx. left. reflexivity.
    + intro NDd. apply H3. apply NoDup_set_node. assumption.
  - exists d. repeat split; auto.
Qed.
End Loop.

(* ------------------------------------------------------------------ delete phase *)
Definition fst3 {A B C : Type} (x : A * B * C) : A := fst (fst x).
Definition snd3 {A B C : Type} (x : A * B * C) : B := snd (fst x).
Definition thd3 {A B C : Type} (x : A * B * C) : C := snd x.

Lemma erase_loop_names : forall mt keep d x, In x (names (fst3 (erase_loop mt keep d))) -> In x (names d).
Proof.
  induction d as [|[n v] r IH]; intros x; cbn; [tauto|].
  destruct (erase_loop mt keep r) as [[r' rm] e] eqn:E. unfold fst3 in *. cbn in IH.
  destruct (mt n && negb (mem_name n keep)); [destruct (removable v)|]; cbn; intuition.
Qed.

Lemma erase_loop_spec : forall mt keep d, NoDup (names d) ->
  let r := erase_loop mt keep d in
  (forall n, lookup (fst3 r) n =
             if mt n && negb (mem_name n keep)
             then match lookup d n with Some v => if removable v then None else Some v | None => None end
             else lookup d n)
  /\ (forall n, In n (snd3 r) <-> mt n = true /\ mem_name n keep = false /\ exists v, lookup d n = Some v /\ removable v = true)
  /\ (thd3 r = true <-> exists n v, mt n = true /\ mem_name n keep = false /\ lookup d n = Some v /\ removable v = false)
  /\ NoDup (snd3 r).
Proof.
  induction d as [|[k v] r IH]; intros ND; cbn.
  - unfold fst3, snd3, thd3; cbn. repeat split; try tauto; try discriminate.
    + intro n. destruct (mt n && negb (mem_name n keep)); reflexivity.
    + intros [_ [_ [v [H _]]]]. discriminate.
    + intros [n [v [_ [_ [H _]]]]]. discriminate.
    + constructor.
  - inversion ND as [|? ? Hk ND']; subst. specialize (IH ND'). cbn in IH.
    destruct (erase_loop mt keep r) as [[r' rm] e] eqn:E. unfold fst3, snd3, thd3 in *. cbn in IH.
    destruct IH as [I1 [I2 [I3 I4]]].
    assert (LK : lookup r k = None) by (apply lookup_None; assumption).
    destruct (mt k && negb (mem_name k keep)) eqn:C.
    + destruct (removable v) eqn:R; cbn.
      * split; [|split; [|split]].
        -- intro n. rewrite I1. destruct (beq k n) eqn:B; [|reflexivity].
           apply beq_true_iff in B. subst n. rewrite C, LK, R. reflexivity.
        -- intro n. rewrite I2. destruct (beq k n) eqn:B.
           ++ apply beq_true_iff in B. subst n. apply andb_true_iff in C. destruct C as [C1 C2]. apply negb_true_iff in C2.
              split; [|tauto]. intros _. repeat split; try assumption. exists v. tauto.
           ++ apply beq_false_iff in B. split; [intros [H | H]; [congruence | exact H] | intro H; right; exact H].
        -- rewrite I3. split; intros [n [w H]]; exists n, w; destruct (beq k n) eqn:B; try tauto.
           ++ apply beq_true_iff in B. subst n. rewrite LK in H. destruct H as [_ [_ [H _]]]. discriminate.
           ++ apply beq_true_iff in B. subst n. destruct H as [_ [_ [H1 H2]]]. inversion H1. subst. congruence.
        -- constructor; [|assumption]. rewrite I2. intros [_ [_ [w [H _]]]]. congruence.
      * split; [|split; [|split]].
        -- intro n. destruct (beq k n) eqn:B.
           ++ apply beq_true_iff in B. subst n. rewrite C, R. reflexivity.
           ++ apply I1.
        -- intro n. rewrite I2. destruct (beq k n) eqn:B; [|tauto].
           apply beq_true_iff in B. subst n. rewrite LK. split; intros [H1 [H2 [w [H3 H4]]]]; [discriminate|].
           inversion H3. subst. congruence.
        -- split; [|reflexivity]. intros _. exists k, v. rewrite beq_refl. apply andb_true_iff in C. destruct C as [C1 C2].
           apply negb_true_iff in C2. tauto.
        -- assumption.
    + cbn. split; [|split; [|split]].
      * intro n. destruct (beq k n) eqn:B.
        -- apply beq_true_iff in B. subst n. rewrite C. reflexivity.
        -- apply I1.
      * intro n. rewrite I2. destruct (beq k n) eqn:B; [|tauto].
        apply beq_true_iff in B. subst n. rewrite LK. split; intros [H1 [H2 H3]].
        -- destruct H3 as [w [H3 _]]. discriminate.
        -- rewrite H1, H2 in C. discriminate.
      * rewrite I3. split; intros [n [w H]]; exists n, w; destruct (beq k n) eqn:B; try tauto.
        -- apply beq_true_iff in B. subst n. rewrite LK in H. destruct H as [_ [_ [H _]]]. discriminate.
        -- apply beq_true_iff in B. subst n. destruct H as [H1 [H2 _]]. rewrite H1, H2 in C. discriminate.
      * assumption.
Qed.
