(* C21 — proofs about the policy model (models/Policy.v). *)
From Coq Require Import List NArith ZArith Bool Lia String.
Import ListNotations.
Require Import V.lib.Bytes V.models.Policy.
Open Scope N_scope.

(* ------------------------------------------------------------------ alternatives *)
Lemma alts_ok_nonempty : forall f l, l <> [] -> alts_ok f l = existsb f l.
Proof. intros f [|a l] H; [congruence | reflexivity]. Qed.

Lemma find_none_existsb : forall (f : alt -> bool) l, find f l = None <-> existsb f l = false.
Proof.
  intros f l; induction l as [|a l IH]; cbn; [tauto|].
  destruct (f a); cbn; [split; discriminate | exact IH].
Qed.

Lemma find_some_existsb : forall (f : alt -> bool) l a, find f l = Some a -> existsb f l = true.
Proof.
  intros f l a H. destruct (existsb f l) eqn:E; [reflexivity|].
  apply find_none_existsb in E. congruence.
Qed.

Lemma existsb_find_some : forall (f : alt -> bool) l, existsb f l = true -> exists a, find f l = Some a /\ f a = true /\ In a l.
Proof.
  intros f l H. destruct (find f l) eqn:E.
  - exists a. apply find_some in E. tauto.
  - apply find_none_existsb in E. congruence.
Qed.

(* the deny / allow evaluation of one rule, in the form the property states it *)
Lemma eval_conn_allow : forall f auto deny allow, deny <> [] -> allow <> [] ->
  is_allow (eval_conn f auto deny allow) = negb (existsb f deny) && existsb f allow.
Proof.
  intros f auto deny allow Hd Ha. unfold eval_conn. rewrite (alts_ok_nonempty f deny Hd).
  destruct (existsb f deny); [reflexivity|]. cbn [negb andb].
  destruct allow as [|a0 allow']; [congruence|].
  destruct (find f (a0 :: allow')) eqn:E.
  - cbn [is_allow]. symmetry. eapply find_some_existsb; eauto.
  - cbn [is_allow]. symmetry. apply find_none_existsb; exact E.
Qed.

Lemma eval_conn_no_panic : forall f auto deny allow, allow <> [] -> eval_conn f auto deny allow <> VPanic.
Proof.
  intros f auto deny allow Ha. unfold eval_conn. destruct (alts_ok f deny); [discriminate|].
  destruct allow; [congruence|]. destruct (find f (a :: allow)); discriminate.
Qed.

Lemma eval_conn_not_invalid : forall f auto deny allow, eval_conn f auto deny allow <> VInvalid.
Proof.
  intros. unfold eval_conn. destruct (alts_ok f deny); [discriminate|].
  destruct allow; [discriminate|]. destruct (find f (a :: allow)); discriminate.
Qed.

Lemma eval_inst_allow : forall f deny allow, deny <> [] -> allow <> [] ->
  eval_inst f deny allow = negb (existsb f deny) && existsb f allow.
Proof.
  intros f deny allow Hd Ha. unfold eval_inst. rewrite (alts_ok_nonempty f deny Hd), (alts_ok_nonempty f allow Ha).
  destruct (existsb f deny); reflexivity.
Qed.

(* deny wins, whatever the allow list says *)
Lemma eval_conn_deny_wins : forall f auto deny allow, existsb f deny = true -> eval_conn f auto deny allow = VRefuse.
Proof.
  intros f auto deny allow H. unfold eval_conn.
  assert (alts_ok f deny = true) as ->; [|reflexivity].
  destruct deny; [reflexivity | exact H].
Qed.

Lemma eval_inst_deny_wins : forall f deny allow, existsb f deny = true -> eval_inst f deny allow = false.
Proof.
  intros f deny allow H. unfold eval_inst.
  assert (alts_ok f deny = true) as ->; [|reflexivity].
  destruct deny; [reflexivity | exact H].
Qed.

(* an allowed connection has a matching allow alternative and no matching deny alternative *)
Lemma eval_conn_allowed_inv : forall f auto deny allow any, eval_conn f auto deny allow = VAllow any ->
  deny <> [] /\ existsb f deny = false /\ exists a, In a allow /\ f a = true /\ find f allow = Some a /\ any = arity_any auto a.
Proof.
  intros f auto deny allow any H. unfold eval_conn in H.
  destruct (alts_ok f deny) eqn:Ed; [discriminate|].
  destruct deny as [|d0 deny']; [discriminate|]. cbn [alts_ok] in Ed.
  split; [discriminate|]. split; [exact Ed|].
  destruct allow as [|a0 allow']; [discriminate|].
  destruct (find f (a0 :: allow')) eqn:Ef; [|discriminate].
  injection H as <-. exists a. pose proof (find_some _ _ Ef) as [? ?]. tauto.
Qed.

(* monotonicity in the deny list: inserting an alternative anywhere never turns Refused into Allowed,
   PROVIDED the deny list was not empty *)
Lemma existsb_insert : forall (f : alt -> bool) l1 d l2, existsb f (l1 ++ l2) = true -> existsb f (l1 ++ d :: l2) = true.
Proof.
  intros f l1 d l2. rewrite !existsb_app. cbn. destruct (existsb f l1); cbn; [tauto|].
  intros ->. apply orb_true_r.
Qed.

Lemma deny_monotone_lists : forall f auto deny1 deny2 allow d, deny1 ++ deny2 <> [] ->
  is_allow (eval_conn f auto (deny1 ++ d :: deny2) allow) = true ->
  is_allow (eval_conn f auto (deny1 ++ deny2) allow) = true.
Proof.
  intros f auto deny1 deny2 allow d Hne H.
  destruct (eval_conn f auto (deny1 ++ d :: deny2) allow) eqn:E; try discriminate.
  apply eval_conn_allowed_inv in E as (_ & Hd & a & Hin & Hfa & Hfind & _).
  unfold eval_conn. rewrite (alts_ok_nonempty f _ Hne).
  destruct (existsb f (deny1 ++ deny2)) eqn:E2.
  - apply (existsb_insert f deny1 d deny2) in E2. congruence.
  - destruct allow; [contradiction|]. rewrite Hfind. reflexivity.
Qed.

Lemma empty_deny_refuted : exists (f : alt -> bool) auto deny allow d,
  is_allow (eval_conn f auto (deny ++ [d]) allow) = true /\ is_allow (eval_conn f auto deny allow) = false.
Proof.
  exists (fun a => is_some (a_on_core_desktop a)), false, [], [mkAlt None None None None [] [] [] [] [] [] None None (Some true) None], alt_empty.
  split; reflexivity.
Qed.

Lemma inst_deny_monotone_lists : forall f deny1 deny2 allow d, deny1 ++ deny2 <> [] ->
  eval_inst f (deny1 ++ d :: deny2) allow = true -> eval_inst f (deny1 ++ deny2) allow = true.
Proof.
  intros f deny1 deny2 allow d Hne H. unfold eval_inst in *.
  rewrite (alts_ok_nonempty f _ Hne).
  assert (Hne' : deny1 ++ d :: deny2 <> []) by (destruct deny1; discriminate).
  rewrite (alts_ok_nonempty f _ Hne') in H.
  destruct (existsb f (deny1 ++ d :: deny2)) eqn:E1; [discriminate|].
  destruct (existsb f (deny1 ++ deny2)) eqn:E2; [|exact H].
  apply (existsb_insert f deny1 d deny2) in E2. congruence.
Qed.

Lemma inst_empty_deny_refuted : exists (f : alt -> bool) deny allow d,
  eval_inst f (deny ++ [d]) allow = true /\ eval_inst f deny allow = false.
Proof.
  exists (fun a => is_some (a_on_core_desktop a)), [], [mkAlt None None None None [] [] [] [] [] [] None None (Some true) None], alt_empty.
  split; reflexivity.
Qed.

(* ------------------------------------------------------------------ rule compilation always yields non-empty lists *)
Definition nonempty6 (r : rule) : Prop :=
  r_allow_inst r <> [] /\ r_deny_inst r <> [] /\ r_allow_conn r <> [] /\ r_deny_conn r <> [] /\
  r_allow_auto r <> [] /\ r_deny_auto r <> [].

Lemma compile_sub_nonempty : forall allow inst s b, sub_valid allow inst s = true -> compile_sub b s <> [].
Proof.
  intros allow inst [[b'|a|l]|] b H; cbn; try discriminate.
  cbn in H. destruct l; [discriminate|discriminate].
Qed.

Lemma compile_nonempty : forall r, rule_valid r = true -> nonempty6 (compile_rule r).
Proof.
  intros [b|m] H; unfold nonempty6; cbn.
  - repeat split; discriminate.
  - cbn in H. repeat (apply andb_prop in H as [H ?]).
    repeat split; eapply compile_sub_nonempty; eauto.
Qed.

(* ------------------------------------------------------------------ precedence *)
Definition level1 (ds : decls) (iface : bytes) : option rule :=
  match plug_decl ds with Some d => plug_rule d iface | None => None end.
Definition level2 (ds : decls) (iface : bytes) : option rule :=
  match slot_decl ds with Some d => slot_rule d iface | None => None end.
Definition level3 (ds : decls) (iface : bytes) : option rule := plug_rule (base_decl ds) iface.
Definition level4 (ds : decls) (iface : bytes) : option rule := slot_rule (base_decl ds) iface.

Lemma first_rule_levels : forall ds iface,
  (forall r, level1 ds iface = Some r -> first_rule ds iface = Some (true, r)) /\
  (forall r, level1 ds iface = None -> level2 ds iface = Some r -> first_rule ds iface = Some (false, r)) /\
  (forall r, level1 ds iface = None -> level2 ds iface = None -> level3 ds iface = Some r ->
             first_rule ds iface = Some (true, r)) /\
  (forall r, level1 ds iface = None -> level2 ds iface = None -> level3 ds iface = None -> level4 ds iface = Some r ->
             first_rule ds iface = Some (false, r)) /\
  (level1 ds iface = None -> level2 ds iface = None -> level3 ds iface = None -> level4 ds iface = None ->
   first_rule ds iface = None).
Proof.
  intros ds iface. unfold first_rule, level1, level2, level3, level4.
  repeat split; intros; repeat match goal with H : _ = _ |- _ => rewrite H; clear H end; reflexivity.
Qed.

(* what the alternative checks read from the declarations: only the identities *)
Definition same_ids (ds ds' : decls) : Prop :=
  od_snap_id (plug_decl ds) = od_snap_id (plug_decl ds') /\ od_pub_id (plug_decl ds) = od_pub_id (plug_decl ds') /\
  od_snap_id (slot_decl ds) = od_snap_id (slot_decl ds') /\ od_pub_id (slot_decl ds) = od_pub_id (slot_decl ds').

Lemma plug_conn1_ids : forall c ds' a, same_ids (k_decls c) ds' ->
  check_plug_conn1 (with_decls c ds') a = check_plug_conn1 c a.
Proof.
  intros c ds' a (H1 & H2 & H3 & H4). unfold check_plug_conn1, check_plug_conn1_gen, conn_ctx, with_decls.
  cbn [k_decls k_env k_plug k_slot]. rewrite <- H2, <- H3, <- H4. reflexivity.
Qed.

Lemma slot_conn1_ids : forall c ds' a, same_ids (k_decls c) ds' ->
  check_slot_conn1 (with_decls c ds') a = check_slot_conn1 c a.
Proof.
  intros c ds' a (H1 & H2 & H3 & H4). unfold check_slot_conn1, check_slot_conn1_gen, conn_ctx, with_decls.
  cbn [k_decls k_env k_plug k_slot]. rewrite <- H1, <- H2, <- H4. reflexivity.
Qed.

Lemma eval_conn_ext : forall f g auto deny allow, (forall a, f a = g a) ->
  eval_conn f auto deny allow = eval_conn g auto deny allow.
Proof.
  intros f g auto deny allow H. unfold eval_conn, alts_ok.
  assert (E : forall l, existsb f l = existsb g l) by (induction l; cbn; [reflexivity | rewrite H, IHl; reflexivity]).
  assert (F : forall l, find f l = find g l) by (induction l; cbn; [reflexivity | rewrite H, IHl; reflexivity]).
  destruct deny; [reflexivity|]. rewrite E. destruct (existsb g (a :: deny)); [reflexivity|].
  destruct allow; [reflexivity|]. rewrite F. reflexivity.
Qed.

(* the verdict depends on the declarations only through the first present rule (and the identities):
   every rule at a later level, and every rule for another interface, is ignored *)
Lemma precedence : forall auto c ds',
  same_ids (k_decls c) ds' ->
  first_rule ds' (f_iface (k_plug c)) = first_rule (k_decls c) (f_iface (k_plug c)) ->
  check_connect auto (with_decls c ds') = check_connect auto c.
Proof.
  intros auto c ds' Hids Hfr. unfold check_connect. cbn [with_decls k_plug k_slot k_decls].
  destruct (negb (beq (f_iface (k_slot c)) (f_iface (k_plug c)))); [reflexivity|].
  rewrite Hfr. destruct (first_rule (k_decls c) (f_iface (k_plug c))) as [[[|] r]|]; [| |reflexivity].
  - apply eval_conn_ext. intro a. apply (plug_conn1_ids c ds' a Hids).
  - apply eval_conn_ext. intro a. apply (slot_conn1_ids c ds' a Hids).
Qed.

(* ------------------------------------------------------------------ check_connect = the stated semantics *)
Definition guard_conn (auto : bool) (c : conn) : Prop :=
  match first_rule (k_decls c) (f_iface (k_plug c)) with
  | Some (_, r) => rule_deny auto r <> [] /\ rule_allow auto r <> []
  | None => True
  end.

Lemma connect_spec : forall auto c, guard_conn auto c ->
  is_allow (check_connect auto c) = spec_connect_allowed auto c /\ check_connect auto c <> VPanic
  /\ check_connect auto c <> VInvalid.
Proof.
  intros auto c G. unfold guard_conn in G. unfold check_connect, spec_connect_allowed, spec_connect_allowed_gen.
  destruct (beq (f_iface (k_slot c)) (f_iface (k_plug c))); cbn [negb andb]; [|repeat split; discriminate].
  destruct (first_rule (k_decls c) (f_iface (k_plug c))) as [[[|] r]|]; [| |repeat split; discriminate].
  - destruct G as [Gd Ga]. split; [apply eval_conn_allow; assumption|].
    split; [apply eval_conn_no_panic; assumption | apply eval_conn_not_invalid].
  - destruct G as [Gd Ga]. split; [apply eval_conn_allow; assumption|].
    split; [apply eval_conn_no_panic; assumption | apply eval_conn_not_invalid].
Qed.

(* source-level view of the first rule *)
Definition first_rule_src (ds : decls) (iface : bytes) : option (bool * rule_src) :=
  match match plug_decl ds with Some d => assoc iface (d_plugs d) | None => None end with
  | Some r => Some (true, r)
  | None =>
      match match slot_decl ds with Some d => assoc iface (d_slots d) | None => None end with
      | Some r => Some (false, r)
      | None =>
          match assoc iface (d_plugs (base_decl ds)) with
          | Some r => Some (true, r)
          | None => match assoc iface (d_slots (base_decl ds)) with Some r => Some (false, r) | None => None end
          end
      end
  end.

Lemma first_rule_compile : forall ds iface,
  first_rule ds iface = option_map (fun sr => (fst sr, compile_rule (snd sr))) (first_rule_src ds iface).
Proof.
  intros ds iface. unfold first_rule, first_rule_src, plug_rule, slot_rule.
  destruct (plug_decl ds) as [pd|]; [destruct (assoc iface (d_plugs pd)); [reflexivity|]|];
  (destruct (slot_decl ds) as [sd|]; [destruct (assoc iface (d_slots sd)); [reflexivity|]|]);
  cbn; (destruct (assoc iface (d_plugs (base_decl ds))); [reflexivity|]);
  cbn; (destruct (assoc iface (d_slots (base_decl ds))); reflexivity).
Qed.

Lemma assoc_in : forall (A : Type) k (l : list (bytes * A)) v, assoc k l = Some v -> exists k', In (k', v) l.
Proof.
  intros A k l v. induction l as [|[k' v'] l IH]; cbn; [discriminate|].
  destruct (beq k k').
  - intros [= ->]. exists k'. left. reflexivity.
  - intro H. destruct (IH H) as [k'' Hin]. exists k''. right. exact Hin.
Qed.

Lemma decl_valid_assoc_plugs : forall d iface r, decl_valid d = true -> assoc iface (d_plugs d) = Some r -> rule_valid r = true.
Proof.
  intros d iface r H Ha. unfold decl_valid in H. apply andb_prop in H as [H _].
  apply assoc_in in Ha as [k Hin]. rewrite forallb_forall in H. exact (H _ Hin).
Qed.
Lemma decl_valid_assoc_slots : forall d iface r, decl_valid d = true -> assoc iface (d_slots d) = Some r -> rule_valid r = true.
Proof.
  intros d iface r H Ha. unfold decl_valid in H. apply andb_prop in H as [_ H].
  apply assoc_in in Ha as [k Hin]. rewrite forallb_forall in H. exact (H _ Hin).
Qed.

Lemma first_rule_src_valid : forall ds iface s r, decls_valid ds = true -> first_rule_src ds iface = Some (s, r) ->
  rule_valid r = true.
Proof.
  intros ds iface s r H. unfold decls_valid in H. apply andb_prop in H as [H Hb]. apply andb_prop in H as [Hp Hs].
  unfold first_rule_src.
  assert (Base : match assoc iface (d_plugs (base_decl ds)) with
                 | Some r0 => Some (true, r0)
                 | None => match assoc iface (d_slots (base_decl ds)) with Some r0 => Some (false, r0) | None => None end
                 end = Some (s, r) -> rule_valid r = true).
  { destruct (assoc iface (d_plugs (base_decl ds))) eqn:E3; [intros [= <- <-]; eapply decl_valid_assoc_plugs; [exact Hb | exact E3]|].
    destruct (assoc iface (d_slots (base_decl ds))) eqn:E4; [intros [= <- <-]; eapply decl_valid_assoc_slots; [exact Hb | exact E4]|discriminate]. }
  assert (L2 : match match slot_decl ds with Some d => assoc iface (d_slots d) | None => None end with
               | Some r0 => Some (false, r0)
               | None => match assoc iface (d_plugs (base_decl ds)) with
                         | Some r0 => Some (true, r0)
                         | None => match assoc iface (d_slots (base_decl ds)) with Some r0 => Some (false, r0) | None => None end
                         end
               end = Some (s, r) -> rule_valid r = true).
  { destruct (slot_decl ds) as [sd|]; [|exact Base].
    cbn in Hs. destruct (assoc iface (d_slots sd)) eqn:E2; [intros [= <- <-]; eapply decl_valid_assoc_slots; [exact Hs | exact E2] | exact Base]. }
  destruct (plug_decl ds) as [pd|]; [|exact L2].
  cbn in Hp. destruct (assoc iface (d_plugs pd)) eqn:E1; [intros [= <- <-]; eapply decl_valid_assoc_plugs; [exact Hp | exact E1] | exact L2].
Qed.

Lemma nonempty6_deny_allow : forall auto r, nonempty6 r -> rule_deny auto r <> [] /\ rule_allow auto r <> [].
Proof. intros [|] r (H1 & H2 & H3 & H4 & H5 & H6); cbn; tauto. Qed.

(* the guard holds for every candidate whose declarations compile *)
Lemma valid_guard : forall auto c, decls_valid (k_decls c) = true -> guard_conn auto c.
Proof.
  intros auto c H. unfold guard_conn. rewrite first_rule_compile.
  destruct (first_rule_src (k_decls c) (f_iface (k_plug c))) as [[s r]|] eqn:E; cbn; [|exact I].
  apply nonempty6_deny_allow, compile_nonempty. eapply first_rule_src_valid; eauto.
Qed.

Lemma connect_spec_valid : forall auto c, decls_valid (k_decls c) = true ->
  is_allow (check_connect auto c) = spec_connect_allowed auto c /\ check_connect auto c <> VPanic.
Proof. intros auto c H. destruct (connect_spec auto c (valid_guard auto c H)) as (A & B & _). split; assumption. Qed.

(* ------------------------------------------------------------------ adding a deny alternative to the declarations *)
Lemma assoc_map_snd : forall (A B : Type) (g : A -> B) k (l : list (bytes * A)),
  assoc k (map (fun ir => (fst ir, g (snd ir))) l) = option_map g (assoc k l).
Proof.
  intros A B g k l. induction l as [|[k' v] l IH]; cbn; [reflexivity|].
  destruct (beq k k'); [reflexivity | exact IH].
Qed.

Lemma first_rule_src_add_deny : forall w xp xs ds iface,
  first_rule_src (decls_add_deny w xp xs ds) iface =
  option_map (fun sr : bool * rule_src => (fst sr, add_deny_rule w (if fst sr then xp else xs) (snd sr))) (first_rule_src ds iface).
Proof.
  intros w xp xs ds iface. unfold first_rule_src, decls_add_deny. cbn [plug_decl slot_decl base_decl].
  destruct (plug_decl ds) as [pd|]; cbn [option_map decl_add_deny d_plugs d_slots];
  [rewrite assoc_map_snd; destruct (assoc iface (d_plugs pd)); cbn [option_map]; [reflexivity|]|];
  (destruct (slot_decl ds) as [sd|]; cbn [option_map decl_add_deny d_plugs d_slots];
   [rewrite assoc_map_snd; destruct (assoc iface (d_slots sd)); cbn [option_map]; [reflexivity|]|]);
  rewrite !assoc_map_snd;
  (destruct (assoc iface (d_plugs (base_decl ds))); cbn [option_map]; [reflexivity|]);
  (destruct (assoc iface (d_slots (base_decl ds))); cbn [option_map]; reflexivity).
Qed.

Lemma same_ids_add_deny : forall w xp xs ds, same_ids ds (decls_add_deny w xp xs ds).
Proof.
  intros w xp xs ds. unfold same_ids, decls_add_deny. cbn [plug_decl slot_decl].
  destruct (plug_decl ds), (slot_decl ds); cbn; repeat split; reflexivity.
Qed.

(* the alternatives that stand for the shortcuts *)
Lemma plug_conn1_short_false : forall c, check_plug_conn1 c (alt_short false) = false.
Proof. intro c. unfold check_plug_conn1, check_plug_conn1_gen. cbn. reflexivity. Qed.
Lemma slot_conn1_short_false : forall c, check_slot_conn1 c (alt_short false) = false.
Proof. intro c. unfold check_slot_conn1, check_slot_conn1_gen. cbn. reflexivity. Qed.

Definition kind_index (auto : bool) : N := if auto then 2 else 1.

Lemma add_deny_sub_mono : forall (f : alt -> bool) d s, f (alt_short false) = false ->
  existsb f (compile_sub false (add_deny_sub d s)) = false -> existsb f (compile_sub false s) = false.
Proof.
  intros f d [[[|]|a|l]|] Hf; cbn; try rewrite Hf; try tauto.
  - destruct (f a); cbn; [discriminate | reflexivity].
  - rewrite existsb_app. destruct (existsb f l); cbn; [discriminate | reflexivity].
Qed.

Lemma add_deny_rule_conn : forall (f : alt -> bool) auto d r, f (alt_short false) = false ->
  rule_allow auto (compile_rule (add_deny_rule (kind_index auto) d r)) = rule_allow auto (compile_rule r) /\
  (existsb f (rule_deny auto (compile_rule (add_deny_rule (kind_index auto) d r))) = false ->
   existsb f (rule_deny auto (compile_rule r)) = false).
Proof.
  intros f auto d [b|m] Hf; destruct auto; cbn [kind_index add_deny_rule add_deny_map compile_rule rule_allow rule_deny
    r_allow_auto r_allow_conn r_deny_auto r_deny_conn expand_short s_allow_auto s_allow_conn s_deny_auto s_deny_conn compile_sub];
    (split; [reflexivity|]); try apply (add_deny_sub_mono f d _ Hf);
    destruct b; cbn; try rewrite Hf; tauto.
Qed.

(* C21, monotonicity at the level of declarations: add a deny alternative to the deny subrule of every rule of every
   declaration of a candidate whose declarations compile; an allowed connection was allowed before *)
Lemma deny_monotone : forall auto c xp xs, decls_valid (k_decls c) = true ->
  is_allow (check_connect auto (conn_deny_variant auto c xp xs)) = true -> is_allow (check_connect auto c) = true.
Proof.
  intros auto c xp xs Hv H.
  pose proof (valid_guard auto c Hv) as G. unfold guard_conn in G.
  unfold conn_deny_variant in H. fold (kind_index auto) in H.
  set (ds' := decls_add_deny (kind_index auto) xp xs (k_decls c)) in *.
  pose proof (same_ids_add_deny (kind_index auto) xp xs (k_decls c)) as Hids. fold ds' in Hids.
  unfold check_connect in *. cbn [with_decls k_plug k_slot k_decls] in H.
  destruct (negb (beq (f_iface (k_slot c)) (f_iface (k_plug c)))); [discriminate|].
  rewrite first_rule_compile in *. unfold ds' in H. rewrite first_rule_src_add_deny in H.
  destruct (first_rule_src (k_decls c) (f_iface (k_plug c))) as [[[|] r]|]; cbn [option_map fst snd] in *; [| |reflexivity].
  - destruct G as [Gd Ga].
    rewrite (eval_conn_ext _ (check_plug_conn1 c)) in H by (intro a; apply (plug_conn1_ids c _ a Hids)).
    destruct (add_deny_rule_conn (check_plug_conn1 c) auto xp r (plug_conn1_short_false c)) as [Ea Ed].
    rewrite Ea in H.
    destruct (eval_conn (check_plug_conn1 c) auto _ (rule_allow auto (compile_rule r))) eqn:E in H; try discriminate.
    apply eval_conn_allowed_inv in E as (_ & Hd & a & Hin & Hfa & Hfind & _).
    rewrite eval_conn_allow by assumption. rewrite (Ed Hd). cbn.
    eapply find_some_existsb; eauto.
  - destruct G as [Gd Ga].
    rewrite (eval_conn_ext _ (check_slot_conn1 c)) in H by (intro a; apply (slot_conn1_ids c _ a Hids)).
    destruct (add_deny_rule_conn (check_slot_conn1 c) auto xs r (slot_conn1_short_false c)) as [Ea Ed].
    rewrite Ea in H.
    destruct (eval_conn (check_slot_conn1 c) auto _ (rule_allow auto (compile_rule r))) eqn:E in H; try discriminate.
    apply eval_conn_allowed_inv in E as (_ & Hd & a & Hin & Hfa & Hfind & _).
    rewrite eval_conn_allow by assumption. rewrite (Ed Hd). cbn.
    eapply find_some_existsb; eauto.
Qed.

(* ------------------------------------------------------------------ installation *)
Definition guard_inst (i : inst) : Prop :=
  (forall s r, In s (i_slots i) -> inst_slot_rule i (f_iface s) = Some r -> r_deny_inst r <> [] /\ r_allow_inst r <> []) /\
  (forall p r, In p (i_plugs i) -> inst_plug_rule i (f_iface p) = Some r -> r_deny_inst r <> [] /\ r_allow_inst r <> []).

Lemma forallb_ext_in : forall (A : Type) (f g : A -> bool) l, (forall x, In x l -> f x = g x) -> forallb f l = forallb g l.
Proof.
  intros A f g l H. induction l as [|a l IH]; cbn; [reflexivity|].
  rewrite (H a (or_introl eq_refl)), IH; [reflexivity|]. intros x Hx. apply H. right. exact Hx.
Qed.

Lemma install_spec : forall i, guard_inst i -> check_install i = spec_install_allowed i.
Proof.
  intros i [Gs Gp]. unfold check_install, spec_install_allowed, spec_install_allowed_gen. f_equal.
  - apply forallb_ext_in. intros s Hs. unfold check_inst_slot.
    destruct (inst_slot_rule i (f_iface s)) as [r|] eqn:E; [|reflexivity].
    destruct (Gs s r Hs E). apply eval_inst_allow; assumption.
  - apply forallb_ext_in. intros p Hp. unfold check_inst_plug.
    destruct (inst_plug_rule i (f_iface p)) as [r|] eqn:E; [|reflexivity].
    destruct (Gp p r Hp E). apply eval_inst_allow; assumption.
Qed.

Lemma inst_rule_valid_slot : forall i iface r, inst_valid i = true -> inst_slot_rule i iface = Some r -> nonempty6 r.
Proof.
  intros i iface r H. unfold inst_valid in H. apply andb_prop in H as [Hd Hb].
  unfold inst_slot_rule, slot_rule.
  destruct (i_decl i) as [d|].
  - destruct (assoc iface (d_slots d)) eqn:E; cbn.
    + intros [= <-]. apply compile_nonempty. eapply decl_valid_assoc_slots; [exact Hd | exact E].
    + destruct (assoc iface (d_slots (i_base i))) eqn:E2; cbn; [|discriminate].
      intros [= <-]. apply compile_nonempty. eapply decl_valid_assoc_slots; [exact Hb | exact E2].
  - destruct (assoc iface (d_slots (i_base i))) eqn:E2; cbn; [|discriminate].
    intros [= <-]. apply compile_nonempty. eapply decl_valid_assoc_slots; [exact Hb | exact E2].
Qed.
Lemma inst_rule_valid_plug : forall i iface r, inst_valid i = true -> inst_plug_rule i iface = Some r -> nonempty6 r.
Proof.
  intros i iface r H. unfold inst_valid in H. apply andb_prop in H as [Hd Hb].
  unfold inst_plug_rule, plug_rule.
  destruct (i_decl i) as [d|].
  - destruct (assoc iface (d_plugs d)) eqn:E; cbn.
    + intros [= <-]. apply compile_nonempty. eapply decl_valid_assoc_plugs; [exact Hd | exact E].
    + destruct (assoc iface (d_plugs (i_base i))) eqn:E2; cbn; [|discriminate].
      intros [= <-]. apply compile_nonempty. eapply decl_valid_assoc_plugs; [exact Hb | exact E2].
  - destruct (assoc iface (d_plugs (i_base i))) eqn:E2; cbn; [|discriminate].
    intros [= <-]. apply compile_nonempty. eapply decl_valid_assoc_plugs; [exact Hb | exact E2].
Qed.

Lemma valid_guard_inst : forall i, inst_valid i = true -> guard_inst i.
Proof.
  intros i H. split; intros x r _ E.
  - destruct (inst_rule_valid_slot i _ r H E) as (A & B & _). tauto.
  - destruct (inst_rule_valid_plug i _ r H E) as (A & B & _). tauto.
Qed.

Lemma install_spec_valid : forall i, inst_valid i = true -> check_install i = spec_install_allowed i.
Proof. intros i H. apply install_spec, valid_guard_inst, H. Qed.

(* precedence for installation: a snap-declaration rule shadows the base-declaration rule *)
Lemma install_precedence : forall i b',
  (forall iface, match i_decl i with Some d => slot_rule d iface | None => None end = None -> slot_rule b' iface = slot_rule (i_base i) iface) ->
  (forall iface, match i_decl i with Some d => plug_rule d iface | None => None end = None -> plug_rule b' iface = plug_rule (i_base i) iface) ->
  check_install (inst_with i (i_decl i) b') = check_install i.
Proof.
  intros i b' Hs Hp. unfold check_install. cbn [inst_with i_slots i_plugs]. f_equal.
  - apply forallb_ext_in. intros s _. unfold check_inst_slot, inst_slot_rule. cbn [inst_with i_decl i_base].
    specialize (Hs (f_iface s)).
    destruct (match i_decl i with Some d => slot_rule d (f_iface s) | None => None end); [reflexivity|].
    rewrite (Hs eq_refl). reflexivity.
  - apply forallb_ext_in. intros p _. unfold check_inst_plug, inst_plug_rule. cbn [inst_with i_decl i_base].
    specialize (Hp (f_iface p)).
    destruct (match i_decl i with Some d => plug_rule d (f_iface p) | None => None end); [reflexivity|].
    rewrite (Hp eq_refl). reflexivity.
Qed.

(* ------------------------------------------------------------------ installation: adding a deny alternative *)
Definition inst_slot_rule_src (i : inst) (iface : bytes) : option rule_src :=
  match match i_decl i with Some d => assoc iface (d_slots d) | None => None end with
  | Some r => Some r
  | None => assoc iface (d_slots (i_base i))
  end.
Definition inst_plug_rule_src (i : inst) (iface : bytes) : option rule_src :=
  match match i_decl i with Some d => assoc iface (d_plugs d) | None => None end with
  | Some r => Some r
  | None => assoc iface (d_plugs (i_base i))
  end.

Lemma inst_slot_rule_compile : forall i iface, inst_slot_rule i iface = option_map compile_rule (inst_slot_rule_src i iface).
Proof.
  intros i iface. unfold inst_slot_rule, inst_slot_rule_src, slot_rule.
  destruct (i_decl i) as [d|]; [destruct (assoc iface (d_slots d)); reflexivity | reflexivity].
Qed.
Lemma inst_plug_rule_compile : forall i iface, inst_plug_rule i iface = option_map compile_rule (inst_plug_rule_src i iface).
Proof.
  intros i iface. unfold inst_plug_rule, inst_plug_rule_src, plug_rule.
  destruct (i_decl i) as [d|]; [destruct (assoc iface (d_plugs d)); reflexivity | reflexivity].
Qed.

Lemma inst_slot_rule_src_add_deny : forall i xp xs iface,
  inst_slot_rule_src (inst_deny_variant i xp xs) iface = option_map (add_deny_rule 0 xs) (inst_slot_rule_src i iface).
Proof.
  intros i xp xs iface. unfold inst_slot_rule_src, inst_deny_variant, inst_with. cbn [i_decl i_base].
  destruct (i_decl i) as [d|]; cbn [option_map decl_add_deny d_slots].
  - rewrite assoc_map_snd. destruct (assoc iface (d_slots d)); cbn [option_map]; [reflexivity|]. apply assoc_map_snd.
  - apply assoc_map_snd.
Qed.
Lemma inst_plug_rule_src_add_deny : forall i xp xs iface,
  inst_plug_rule_src (inst_deny_variant i xp xs) iface = option_map (add_deny_rule 0 xp) (inst_plug_rule_src i iface).
Proof.
  intros i xp xs iface. unfold inst_plug_rule_src, inst_deny_variant, inst_with. cbn [i_decl i_base].
  destruct (i_decl i) as [d|]; cbn [option_map decl_add_deny d_plugs].
  - rewrite assoc_map_snd. destruct (assoc iface (d_plugs d)); cbn [option_map]; [reflexivity|]. apply assoc_map_snd.
  - apply assoc_map_snd.
Qed.

Lemma inst_variant_snap_id : forall i xp xs, od_snap_id (i_decl (inst_deny_variant i xp xs)) = od_snap_id (i_decl i).
Proof. intros i xp xs. unfold inst_deny_variant, inst_with. cbn [i_decl]. destruct (i_decl i); reflexivity. Qed.

Lemma slot_inst1_variant : forall i xp xs s a, check_slot_inst1 (inst_deny_variant i xp xs) s a = check_slot_inst1 i s a.
Proof. intros. unfold check_slot_inst1, check_slot_inst1_gen. rewrite inst_variant_snap_id. reflexivity. Qed.
Lemma plug_inst1_variant : forall i xp xs p a, check_plug_inst1 (inst_deny_variant i xp xs) p a = check_plug_inst1 i p a.
Proof. intros. unfold check_plug_inst1, check_plug_inst1_gen. rewrite inst_variant_snap_id. reflexivity. Qed.

Lemma slot_inst1_short_false : forall i s, check_slot_inst1 i s (alt_short false) = false.
Proof. intros. unfold check_slot_inst1, check_slot_inst1_gen. cbn. reflexivity. Qed.
Lemma plug_inst1_short_false : forall i p, check_plug_inst1 i p (alt_short false) = false.
Proof. intros. unfold check_plug_inst1, check_plug_inst1_gen. cbn. reflexivity. Qed.

Lemma add_deny_rule_inst : forall (f : alt -> bool) d r, f (alt_short false) = false ->
  r_allow_inst (compile_rule (add_deny_rule 0 d r)) = r_allow_inst (compile_rule r) /\
  (existsb f (r_deny_inst (compile_rule (add_deny_rule 0 d r))) = false -> existsb f (r_deny_inst (compile_rule r)) = false).
Proof.
  intros f d [b|m] Hf; cbn [add_deny_rule add_deny_map compile_rule r_allow_inst r_deny_inst expand_short
                            s_allow_inst s_deny_inst compile_sub];
    (split; [reflexivity|]); try apply (add_deny_sub_mono f d _ Hf).
  destruct b; cbn; try rewrite Hf; tauto.
Qed.

Lemma eval_inst_ext : forall f g deny allow, (forall a, f a = g a) -> eval_inst f deny allow = eval_inst g deny allow.
Proof.
  intros f g deny allow H. unfold eval_inst, alts_ok.
  assert (E : forall l, existsb f l = existsb g l) by (induction l; cbn; [reflexivity | rewrite H, IHl; reflexivity]).
  destruct deny, allow; rewrite ?E; reflexivity.
Qed.

Lemma eval_inst_add_deny : forall (f : alt -> bool) d r, f (alt_short false) = false -> r_deny_inst (compile_rule r) <> [] ->
  eval_inst f (r_deny_inst (compile_rule (add_deny_rule 0 d r))) (r_allow_inst (compile_rule (add_deny_rule 0 d r))) = true ->
  eval_inst f (r_deny_inst (compile_rule r)) (r_allow_inst (compile_rule r)) = true.
Proof.
  intros f d r Hf Hne H. destruct (add_deny_rule_inst f d r Hf) as [Ea Ed]. rewrite Ea in H.
  unfold eval_inst in *. rewrite (alts_ok_nonempty f _ Hne).
  destruct (alts_ok f (r_deny_inst (compile_rule (add_deny_rule 0 d r)))) eqn:E; [discriminate|].
  assert (existsb f (r_deny_inst (compile_rule (add_deny_rule 0 d r))) = false) as Hx.
  { destruct (r_deny_inst (compile_rule (add_deny_rule 0 d r))); [discriminate | exact E]. }
  rewrite (Ed Hx). exact H.
Qed.

Lemma forallb_impl_in : forall (A : Type) (f g : A -> bool) l, (forall x, In x l -> f x = true -> g x = true) ->
  forallb f l = true -> forallb g l = true.
Proof.
  intros A f g l H Hf. rewrite forallb_forall in *. intros x Hx. apply H; [exact Hx | apply Hf, Hx].
Qed.

(* C21, installation: with a deny alternative added to every deny-installation subrule, an allowed installation was
   allowed before *)
Lemma install_deny_monotone : forall i xp xs, inst_valid i = true ->
  check_install (inst_deny_variant i xp xs) = true -> check_install i = true.
Proof.
  intros i xp xs Hv H. unfold check_install in *. apply andb_prop in H as [Hs Hp]. apply andb_true_intro. split.
  - assert (Esl : i_slots (inst_deny_variant i xp xs) = i_slots i) by reflexivity. rewrite Esl in Hs.
    revert Hs. apply forallb_impl_in. intros s _. unfold check_inst_slot.
    rewrite !inst_slot_rule_compile, inst_slot_rule_src_add_deny.
    pose proof (inst_rule_valid_slot i (f_iface s)) as Hval. rewrite inst_slot_rule_compile in Hval.
    destruct (inst_slot_rule_src i (f_iface s)) as [r|]; cbn [option_map] in *; [|tauto].
    intro H. rewrite (eval_inst_ext _ (check_slot_inst1 i s)) in H by (intro a; apply slot_inst1_variant).
    apply (eval_inst_add_deny _ xs r (slot_inst1_short_false i s)); [|exact H].
    destruct (Hval _ Hv eq_refl) as (_ & B & _). exact B.
  - assert (Epl : i_plugs (inst_deny_variant i xp xs) = i_plugs i) by reflexivity. rewrite Epl in Hp.
    revert Hp. apply forallb_impl_in. intros p _. unfold check_inst_plug.
    rewrite !inst_plug_rule_compile, inst_plug_rule_src_add_deny.
    pose proof (inst_rule_valid_plug i (f_iface p)) as Hval. rewrite inst_plug_rule_compile in Hval.
    destruct (inst_plug_rule_src i (f_iface p)) as [r|]; cbn [option_map] in *; [|tauto].
    intro H. rewrite (eval_inst_ext _ (check_plug_inst1 i p)) in H by (intro a; apply plug_inst1_variant).
    apply (eval_inst_add_deny _ xp r (plug_inst1_short_false i p)); [|exact H].
    destruct (Hval _ Hv eq_refl) as (_ & B & _). exact B.
Qed.

(* ------------------------------------------------------------------ replacing the levels below the deciding one *)
Lemma first_rule_low : forall ds iface low, first_rule (decls_low ds iface low) iface = first_rule ds iface.
Proof.
  intros ds iface low. unfold decls_low, deciding_level, has_key.
  destruct (plug_decl ds) as [pd|] eqn:Epd; [destruct (assoc iface (d_plugs pd)) eqn:E1|];
  (destruct (slot_decl ds) as [sd|] eqn:Esd; [destruct (assoc iface (d_slots sd)) eqn:E2|]);
  destruct (assoc iface (d_plugs (base_decl ds))) eqn:E3; destruct (assoc iface (d_slots (base_decl ds))) eqn:E4;
  cbn; unfold first_rule, plug_rule, slot_rule; cbn [plug_decl slot_decl base_decl d_plugs d_slots option_map];
  rewrite ?Epd, ?Esd; cbn [option_map d_plugs d_slots]; rewrite ?E1, ?E2, ?E3, ?E4; cbn [option_map]; reflexivity.
Qed.

Lemma same_ids_low : forall ds iface low, same_ids ds (decls_low ds iface low).
Proof.
  intros ds iface low. unfold same_ids, decls_low.
  destruct (deciding_level ds iface =? 0); [repeat split; reflexivity|].
  cbn [plug_decl slot_decl]. destruct (deciding_level ds iface <? 2), (slot_decl ds); cbn; repeat split; reflexivity.
Qed.

(* C21, precedence as a metamorphic statement: whatever is put in place of (or removed from) the levels below the
   deciding one, the verdict is the same *)
Lemma lower_levels_ignored : forall auto c low, check_connect auto (conn_low_variant c low) = check_connect auto c.
Proof.
  intros auto c low. unfold conn_low_variant. apply precedence; [apply same_ids_low | apply first_rule_low].
Qed.

(* ------------------------------------------------------------------ name regexps: the WHOLE name must equal an alternative *)
Lemma beq_eq : forall a b : bytes, beq a b = true -> a = b.
Proof.
  induction a as [|x a IH]; intros [|y b] H; cbn in H; try discriminate; [reflexivity|].
  apply andb_prop in H as [H1 H2]. apply N.eqb_eq in H1. subst y. f_equal. apply IH, H2.
Qed.
Lemma beq_refl : forall a : bytes, beq a a = true.
Proof. induction a as [|x a IH]; cbn; [reflexivity|]. rewrite N.eqb_refl. exact IH. Qed.

Lemma alt_lit_match_iff : forall pattern x, alt_lit_match pattern x = true <-> In x (split_bar pattern).
Proof.
  intros pattern x. unfold alt_lit_match. rewrite existsb_exists. split.
  - intros (y & Hin & Hy). apply beq_eq in Hy. subst y. exact Hin.
  - intro Hin. exists x. split; [exact Hin | apply beq_refl].
Qed.

Lemma name_match_whole : forall iface name c entry, c <> 36 ->
  name_match iface name (c :: entry) = true <-> In name (split_bar (c :: entry)).
Proof.
  intros iface name c entry Hc. unfold name_match.
  destruct c as [|p]; [apply alt_lit_match_iff|].
  destruct (N.eq_dec (N.pos p) 36) as [E|E]; [contradiction|].
  assert (match N.pos p with 36 => true | _ => false end = false) as Hm.
  { destruct p as [[[[[[]|[]|]|[[]|[]|]|]|[[[]|[]|]|[[]|[]|]|]|]|[[[[]|[]|]|[[]|[]|]|]|[[[]|[]|]|[[]|[]|]|]|]|]|[[[[[]|[]|]|[[]|[]|]|]|[[[]|[]|]|[[]|[]|]|]|]|[[[[]|[]|]|[[]|[]|]|]|[[[]|[]|]|[[]|[]|]|]|]|]|]; try reflexivity; contradiction E; reflexivity. }
  revert Hm. destruct p as [[[[[[]|[]|]|[[]|[]|]|]|[[[]|[]|]|[[]|[]|]|]|]|[[[[]|[]|]|[[]|[]|]|]|[[[]|[]|]|[[]|[]|]|]|]|]|[[[[[]|[]|]|[[]|[]|]|]|[[[]|[]|]|[[]|[]|]|]|]|[[[[]|[]|]|[[]|[]|]|]|[[[]|[]|]|[[]|[]|]|]|]|]|]; intro Hm; try discriminate Hm; apply alt_lit_match_iff.
Qed.

(* ------------------------------------------------------------------ an alternative is the conjunction of its atoms *)
Lemma plug_conn1_atoms : forall c a, check_plug_conn1 c a = true <->
  check_names (a_plug_names a) (f_iface (k_plug c)) (f_name (k_plug c)) = true /\
  check_names (a_slot_names a) (f_iface (k_slot c)) (f_name (k_slot c)) = true /\
  attrs_check (Some (conn_ctx c)) (a_plug_attrs a) (side_attrs (k_plug c)) = true /\
  attrs_check (Some (conn_ctx c)) (a_slot_attrs a) (side_attrs (k_slot c)) = true /\
  check_snap_type (f_type (k_slot c)) (a_slot_snap_types a) = true /\
  check_id (od_snap_id (slot_decl (k_decls c))) (a_slot_snap_ids a) no_special = true /\
  check_id (od_pub_id (slot_decl (k_decls c))) (a_slot_pub_ids a)
           (one_special (bs "$PLUG_PUBLISHER_ID"%string) (od_pub_id (plug_decl (k_decls c)))) = true /\
  check_on_classic (k_env c) (a_on_classic a) = true /\
  check_on_core_desktop (k_env c) (a_on_core_desktop a) = true /\
  check_device_scope (k_env c) (a_device a) = true.
Proof.
  intros c a. unfold check_plug_conn1, check_plug_conn1_gen, check_names. cbv zeta.
  rewrite !andb_true_iff. tauto.
Qed.

Lemma slot_conn1_atoms : forall c a, check_slot_conn1 c a = true <->
  check_names (a_plug_names a) (f_iface (k_plug c)) (f_name (k_plug c)) = true /\
  check_names (a_slot_names a) (f_iface (k_slot c)) (f_name (k_slot c)) = true /\
  attrs_check (Some (conn_ctx c)) (a_plug_attrs a) (side_attrs (k_plug c)) = true /\
  attrs_check (Some (conn_ctx c)) (a_slot_attrs a) (side_attrs (k_slot c)) = true /\
  check_snap_type (f_type (k_slot c)) (a_slot_snap_types a) = true /\
  check_snap_type (f_type (k_plug c)) (a_plug_snap_types a) = true /\
  check_id (od_snap_id (plug_decl (k_decls c))) (a_plug_snap_ids a) no_special = true /\
  check_id (od_pub_id (plug_decl (k_decls c))) (a_plug_pub_ids a)
           (one_special (bs "$SLOT_PUBLISHER_ID"%string) (od_pub_id (slot_decl (k_decls c)))) = true /\
  check_on_classic (k_env c) (a_on_classic a) = true /\
  check_on_core_desktop (k_env c) (a_on_core_desktop a) = true /\
  check_device_scope (k_env c) (a_device a) = true.
Proof.
  intros c a. unfold check_slot_conn1, check_slot_conn1_gen, check_names. cbv zeta.
  rewrite !andb_true_iff. tauto.
Qed.

(* the on-core-desktop atom: the constraint's value must be the system's core-desktop flag; whether the system is classic
   plays no role; and the monitor's own statement of the atom agrees *)
Lemma on_core_desktop_atom : forall e b, check_on_core_desktop e (Some b) = Bool.eqb b (e_core_desktop e).
Proof. reflexivity. Qed.
Lemma on_core_desktop_classic_irrelevant : forall cl cl' os os' cd m st c,
  check_on_core_desktop (mkEnv cl os cd m st) c = check_on_core_desktop (mkEnv cl' os' cd m st) c.
Proof. reflexivity. Qed.
Lemma core_desktop_ref_eq : forall e c, core_desktop_ref e c = check_on_core_desktop e c.
Proof. intros e [[|]|]; unfold core_desktop_ref, check_on_core_desktop; destruct (e_core_desktop e); reflexivity. Qed.

(* ------------------------------------------------------------------ id lists are alternations *)
(* what an entry of a *-snap-id / *-publisher-id list stands for: a $NAME for its value, anything else for itself *)
Definition resolve (special : bytes -> bytes) (cand : bytes) : bytes :=
  match cand with 36 :: _ => special cand | _ => cand end.

Lemma check_id_alternation : forall id ids special, check_id id ids special = true <->
  ids = [] \/ (id <> [] /\ exists cand, In cand ids /\ resolve special cand <> [] /\ id = resolve special cand).
Proof.
  intros id ids special. unfold check_id. destruct ids as [|c0 r]; [split; [left; reflexivity | reflexivity]|].
  rewrite andb_true_iff, negb_true_iff, existsb_exists. split.
  - intros [Hid (cand & Hin & Hc)]. right. split; [intro E; rewrite E in Hid; discriminate Hid|].
    cbv zeta in Hc. apply andb_prop in Hc as [Hne Heq]. exists cand. split; [exact Hin|].
    change (negb (is_nil_b (resolve special cand)) = true) in Hne. change (beq id (resolve special cand) = true) in Heq.
    split; [intro E; rewrite E in Hne; discriminate Hne | apply beq_eq, Heq].
  - intros [H|[Hid (cand & Hin & Hne & Heq)]]; [discriminate H|]. split; [destruct id; [contradiction | reflexivity]|].
    exists cand. split; [exact Hin|]. cbv zeta.
    change (negb (is_nil_b (resolve special cand)) && beq id (resolve special cand) = true). rewrite <- Heq.
    rewrite beq_refl. destruct id; [contradiction | reflexivity].
Qed.

(* consequently the order of the entries, and unresolvable entries anywhere in the list, do not matter *)
Lemma check_id_order_irrelevant : forall id ids ids' special,
  ids <> [] -> ids' <> [] -> (forall c, In c ids <-> In c ids') -> check_id id ids special = check_id id ids' special.
Proof.
  intros id ids ids' special H1 H2 Hp.
  destruct (check_id id ids special) eqn:E1, (check_id id ids' special) eqn:E2; try reflexivity.
  - apply check_id_alternation in E1 as [->|[Hid (c & Hin & Hne & Heq)]]; [contradiction|].
    assert (check_id id ids' special = true) as X; [|congruence].
    apply check_id_alternation. right. split; [exact Hid|]. exists c. split; [apply Hp, Hin | tauto].
  - apply check_id_alternation in E2 as [->|[Hid (c & Hin & Hne & Heq)]]; [contradiction|].
    assert (check_id id ids special = true) as X; [|congruence].
    apply check_id_alternation. right. split; [exact Hid|]. exists c. split; [apply Hp, Hin | tauto].
Qed.

Lemma check_id_unresolvable_skipped : forall id l1 c l2 special, resolve special c = [] -> l1 ++ l2 <> [] ->
  check_id id (l1 ++ c :: l2) special = check_id id (l1 ++ l2) special.
Proof.
  intros id l1 c l2 special Hc Hne. unfold check_id.
  destruct (l1 ++ c :: l2) eqn:E; [destruct l1; discriminate|]. rewrite <- E. clear E.
  destruct (l1 ++ l2) eqn:E'; [contradiction|]. rewrite <- E'. clear E'.
  f_equal.
  match goal with |- existsb ?f _ = _ =>
    assert (Hf : f c = false) by (change (negb (is_nil_b (resolve special c)) && beq id (resolve special c) = false);
                                  rewrite Hc; reflexivity);
    rewrite !existsb_app; cbn [existsb]; rewrite Hf; reflexivity
  end.
Qed.

