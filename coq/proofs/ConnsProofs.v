(* C22 — proofs about models/Conns.v: for every state, operation, failure point and history. *)
From Coq Require Import List NArith Bool Lia.
Import ListNotations.
Require Import V.models.Conns.
Open Scope N_scope.

Definition is_active (o : option cstate) : bool := match o with Some c => active c | None => false end.

(* persisted active connections = repository connections = what both snaps' profiles were generated for *)
Definition Agree (s : st) : Prop :=
  (forall id, mem id (s_repo s) = is_active (lookup (s_conns s) id))
  /\ (forall id, mem id (s_profc s) = mem id (s_repo s))
  /\ (forall id, mem id (s_profp s) = mem id (s_repo s)).

(* same persisted conns (entry by entry, flags and attributes), same repository, same profile sets *)
Definition Equiv (a b : st) : Prop :=
  (forall id, lookup (s_conns a) id = lookup (s_conns b) id)
  /\ (forall id, mem id (s_repo a) = mem id (s_repo b))
  /\ (forall id, mem id (s_profc a) = mem id (s_profc b))
  /\ (forall id, mem id (s_profp a) = mem id (s_profp b)).

Lemma lookup_set : forall c id v x, lookup (set c id v) x = if id =? x then Some v else lookup c x.
Proof.
  induction c as [|[k w] r IH]; intros id v x; cbn.
  - rewrite N.eqb_sym. reflexivity.
  - destruct (k =? id) eqn:E; cbn.
    + apply N.eqb_eq in E. subst. destruct (id =? x); reflexivity.
    + rewrite IH. destruct (k =? x) eqn:E2; [|reflexivity]. apply N.eqb_eq in E2. subst.
      rewrite N.eqb_sym, E. reflexivity.
Qed.
Lemma lookup_del : forall c id x, lookup (del c id) x = if id =? x then None else lookup c x.
Proof.
  unfold del. induction c as [|[k w] r IH]; intros id x; cbn.
  - destruct (id =? x); reflexivity.
  - destruct (k =? id) eqn:E; cbn.
    + apply N.eqb_eq in E. subst. rewrite IH. destruct (id =? x); reflexivity.
    + rewrite IH. destruct (k =? x) eqn:E2; [|reflexivity]. apply N.eqb_eq in E2. subst.
      rewrite N.eqb_sym, E. reflexivity.
Qed.
Lemma mem_add : forall x id l, mem x (add id l) = (id =? x) || mem x l.
Proof.
  intros x id l. unfold add. destruct (mem id l) eqn:M.
  - destruct (id =? x) eqn:E; [|reflexivity]. apply N.eqb_eq in E. subst. rewrite M. reflexivity.
  - cbn. rewrite (N.eqb_sym x id). reflexivity.
Qed.
Lemma mem_remove : forall x id l, mem x (remove id l) = negb (id =? x) && mem x l.
Proof.
  intros x id l. unfold remove, mem. induction l as [|y r IH]; cbn.
  - rewrite andb_false_r. reflexivity.
  - destruct (y =? id) eqn:E; cbn.
    + apply N.eqb_eq in E. subst. rewrite IH. rewrite (N.eqb_sym x id). destruct (id =? x); reflexivity.
    + rewrite IH. destruct (x =? y) eqn:E2; cbn; [|reflexivity]. apply N.eqb_eq in E2. subst.
      rewrite N.eqb_sym, E. reflexivity.
Qed.

Ltac pointwise A1 A2 A3 L M id :=
  let x := fresh "x" in
  intro x; cbn [s_conns s_repo s_profc s_profp];
  repeat rewrite ?lookup_set, ?lookup_del, ?mem_add, ?mem_remove;
  rewrite ?(A2 x), ?(A3 x), ?(A1 x);
  destruct (N.eqb_spec id x);
  [ subst; rewrite ?L, ?M; cbn; try reflexivity; try congruence
  | cbn; rewrite ?(A1 x); try reflexivity ].

Lemma change_cases : forall s o f, Agree s -> excluded s o f = false ->
  let r := run_change s o f in
  ((snd r = true \/ snd (fst r) = false) -> Equiv (fst (fst r)) s) /\ Agree (fst (fst r)).
Proof.
  intros s o f [A1 [A2 A3]] EX.
  destruct s as [conns repo pc pp]. cbn [s_conns s_repo s_profc s_profp] in *.
  unfold is_active, active in A1.
  destruct o as [id auto byg | id forget ad bh]; destruct f as [| |k|];
    pose proof (A1 id) as A1id; revert A1id EX;
    unfold excluded, run_change, creates, do_connect, do_disconnect, undo_connect, undo_disconnect, active;
    cbn [s_conns s_repo s_profc s_profp];
    change (0 =? 1) with false; change (0 =? 2) with false; cbn iota;
    (destruct (lookup conns id) as [[ca cb cu ch ct]|] eqn:L); (destruct (mem id repo) eqn:M);
    cbn [c_auto c_bygadget c_undesired c_hpgone c_attrs];
    try (destruct cu; destruct ch); try destruct forget;
    try (destruct (k =? 1) eqn:K1); try (destruct (k =? 2) eqn:K2);
    cbn [negb andb orb fst snd]; intros A1id EX; try discriminate A1id; try discriminate EX.
  all: try (destruct bh); try (destruct ca; destruct ad); cbn [negb andb orb fst snd s_conns s_repo s_profc s_profp].
  all: (split; [ intros HH; try (destruct HH as [HH | HH]; discriminate HH); unfold Equiv; cbn [s_conns s_repo s_profc s_profp];
                 (split; [|split; [|split]]); try reflexivity; pointwise A1 A2 A3 L M id
               | unfold Agree, is_active, active; cbn [s_conns s_repo s_profc s_profp];
                 (split; [|split]); try assumption; pointwise A1 A2 A3 L M id ]).
Qed.

(* a change that is refused or ends in Error leaves conns (entry by entry), repository and profile sets as they were *)
Theorem failed_change_restores : forall s o f, Agree s -> excluded s o f = false ->
  (snd (run_change s o f) = true \/ snd (fst (run_change s o f)) = false) -> Equiv (fst (fst (run_change s o f))) s.
Proof. intros s o f A E. exact (proj1 (change_cases s o f A E)). Qed.

Theorem step_agree : forall s o f, Agree s -> excluded s o f = false -> Agree (fst (fst (run_change s o f))).
Proof. intros s o f A E. exact (proj2 (change_cases s o f A E)). Qed.

(* no step of the history is in one of the recorded failing classes *)
Fixpoint safe_history (s : st) (h : list (op * fail)) : Prop :=
  match h with
  | [] => True
  | (o, f) :: r => excluded s o f = false /\ safe_history (fst (fst (run_change s o f))) r
  end.

Theorem settled_agree : forall h s, Agree s -> safe_history s h -> Agree (run_history s h).
Proof.
  induction h as [|[o f] r IH]; intros s A S; cbn in *; [assumption|].
  destruct S as [E S]. apply IH; [apply step_agree; assumption | assumption].
Qed.

(* start-up *)
Lemma lookup_notin : forall c id, ~ In id (map fst c) -> lookup c id = None.
Proof.
  induction c as [|[k v] r IH]; intros id H; cbn; [reflexivity|].
  destruct (N.eqb_spec k id); [subst; exfalso; apply H; left; reflexivity|]. apply IH. intro I. apply H. right. assumption.
Qed.
Lemma reload_mem : forall c, NoDup (map fst c) -> forall id, mem id (reload c) = is_active (lookup c id).
Proof.
  induction c as [|[k v] r IH]; intros ND id; [reflexivity|].
  cbn in ND. inversion ND as [|? ? Hk ND']; subst. specialize (IH ND'). cbn [reload lookup].
  destruct (N.eqb_spec k id).
  - subst. cbn [is_active]. destruct (active v) eqn:Av.
    + rewrite mem_add, N.eqb_refl. reflexivity.
    + rewrite IH, (lookup_notin r id Hk). reflexivity.
  - destruct (active v); [rewrite mem_add; destruct (N.eqb_spec k id); [congruence|]; cbn|]; apply IH.
Qed.
Theorem reload_agree : forall c, NoDup (map fst c) -> Agree (mkSt c (reload c) (reload c) (reload c)).
Proof. intros c ND. repeat split; cbn; try reflexivity. apply reload_mem. assumption. Qed.

(* Equiv is at least as fine as the boolean comparison used on observed states *)
Lemma mem_In : forall x l, In x l -> mem x l = true.
Proof. intros x l H. unfold mem. apply existsb_exists. exists x. split; [assumption | apply N.eqb_refl]. Qed.
Lemma ocstate_eqb_refl : forall o, ocstate_eqb o o = true.
Proof. intros [[[] [] [] [] []]|]; reflexivity. Qed.
Lemma subset_of : forall a b, (forall x, mem x a = mem x b) -> subset a b = true.
Proof. intros a b H. unfold subset. apply forallb_forall. intros x I. rewrite <- H. apply mem_In. assumption. Qed.
Lemma Equiv_st_eqb : forall a b, Equiv a b -> st_eqb a b = true.
Proof.
  intros a b [E1 [E2 [E3 E4]]]. unfold st_eqb, conns_eqb, set_eqb.
  repeat (apply andb_true_iff; split); try (apply subset_of; intro x; congruence);
    apply forallb_forall; intros e _; rewrite E1; apply ocstate_eqb_refl.
Qed.

(* ------------------------------------------------------------------ the recorded failing classes: the unguarded statement is false *)
Definition c_plain := mkC false false false false true.
Definition s_one := mkSt [(0, c_plain)] [0] [0] [0].
Lemma agree_s_one : Agree s_one.
Proof. split; [|split]; cbn; try reflexivity. intro id. destruct id; reflexivity. Qed.
Lemma agree_inactive : forall c, active c = false -> Agree (mkSt [(0, c)] [] [] []).
Proof. intros c H. split; [|split]; cbn; try reflexivity. intro id. destruct id; cbn; [rewrite H|]; reflexivity. Qed.

Ltac refute s o f A :=
  exists s, o, f; split; [exact A|]; split; [reflexivity|];
  let E := fresh "E" in (intro E; apply Equiv_st_eqb in E; vm_compute in E; discriminate E).

(* a disconnect task whose SECOND setup (slot snap) fails: the plug snap's profile was regenerated without the connection
   that the rollback then puts back *)
Theorem disconnect_second_setup_failure_refuted : exists s o f, Agree s /\ snd (run_change s o f) = true /\ ~ Equiv (fst (fst (run_change s o f))) s.
Proof. refute s_one (ODisconnect 0 false false false) (FailMain 2) agree_s_one. Qed.
Theorem connect_setup_failure_refuted : exists s o f, Agree s /\ snd (run_change s o f) = true /\ ~ Equiv (fst (fst (run_change s o f))) s.
Proof. refute (mkSt [] [] [] []) (OConnect 0 false false) (FailMain 2) (reload_agree [] (NoDup_nil N)). Qed.
Theorem connect_undo_hotplug_gone_refuted : exists s o f, Agree s /\ snd (run_change s o f) = true /\ ~ Equiv (fst (fst (run_change s o f))) s.
Proof. refute (mkSt [(0, mkC true false false true true)] [] [] []) (OConnect 0 false false) FailAfter (agree_inactive (mkC true false false true true) eq_refl). Qed.
Theorem forget_undo_refuted : exists s o f, Agree s /\ snd (run_change s o f) = true /\ ~ Equiv (fst (fst (run_change s o f))) s.
Proof. refute (mkSt [(0, mkC true false true false false)] [] [] []) (ODisconnect 0 true false false) FailAfter (agree_inactive (mkC true false true false false) eq_refl). Qed.

(* former finding 8 (repaired by commit 63d7dd9 in /repo): a disconnect / forget task that fails in ANY of its security
   setup calls leaves the persisted conns untouched and the repository exactly as it was (the connection is put back) *)
Theorem disconnect_setup_failure_restores : forall s id forget ad bh k c, (k = 1 \/ k = 2) ->
  mem id (s_repo s) = true -> lookup (s_conns s) id = Some c ->
  let r := run_change s (ODisconnect id forget ad bh) (FailMain k) in
  snd r = true /\ s_conns (fst (fst r)) = s_conns s /\ forall x, mem x (s_repo (fst (fst r))) = mem x (s_repo s).
Proof.
  intros s id forget ad bh k c Hk M L. unfold run_change, creates, do_disconnect. rewrite M, orb_true_r, L. cbn [negb].
  destruct Hk; subst; change (1 =? 1) with true; change (2 =? 1) with false; change (2 =? 2) with true; cbn iota;
    cbn [fst snd s_conns s_repo negb]; (split; [reflexivity|]); (split; [reflexivity|]); intro x; rewrite mem_add, mem_remove;
    (destruct (N.eqb_spec id x); [subst; rewrite M; reflexivity | reflexivity]).
Qed.

(* ... and when it is the FIRST setup call that fails, everything (profiles included) is as before: this is an instance of
   failed_change_restores, stated separately as the regression statement for the repaired finding *)
Theorem disconnect_first_setup_failure_restores : forall s id forget ad bh, Agree s ->
  snd (run_change s (ODisconnect id forget ad bh) (FailMain 1)) = true ->
  Equiv (fst (fst (run_change s (ODisconnect id forget ad bh) (FailMain 1)))) s.
Proof.
  intros s id forget ad bh A F. apply failed_change_restores; [assumption | | left; assumption].
  cbn. apply andb_false_r.
Qed.
