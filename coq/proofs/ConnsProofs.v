(* C22 — proofs about models/Conns.v: for every state, operation, failure point and history. *)
From Coq Require Import List NArith Bool Lia.
Import ListNotations.
Require Import V.models.Conns.
Open Scope N_scope.

Definition is_active (o : option cstate) : bool := match o with Some c => active c | None => false end.

(* persisted active connections = repository connections = what both snaps' profiles were generated for *)
Definition Agree (s : st) : Prop :=
  (forall id, mem id (s_repo s) = is_active (lookup (s_conns s) id))
  /\ (forall id, mem id (s_profc s) = mem id (s_repo s))
  /\ (forall id, mem id (s_profp s) = mem id (s_repo s)).

(* same persisted conns (entry by entry, flags and attributes), same repository, same profile sets *)
Definition Equiv (a b : st) : Prop :=
  (forall id, lookup (s_conns a) id = lookup (s_conns b) id)
  /\ (forall id, mem id (s_repo a) = mem id (s_repo b))
  /\ (forall id, mem id (s_profc a) = mem id (s_profc b))
  /\ (forall id, mem id (s_profp a) = mem id (s_profp b)).

Lemma lookup_set : forall c id v x, lookup (set c id v) x = if id =? x then Some v else lookup c x.
Proof.
  induction c as [|[k w] r IH]; intros id v x; cbn.
  - rewrite N.eqb_sym. reflexivity.
  - destruct (k =? id) eqn:E; cbn.
    + apply N.eqb_eq in E. subst. destruct (id =? x); reflexivity.
    + rewrite IH. destruct (k =? x) eqn:E2; [|reflexivity]. apply N.eqb_eq in E2. subst.
      rewrite N.eqb_sym, E. reflexivity.
Qed.
Lemma lookup_del : forall c id x, lookup (del c id) x = if id =? x then None else lookup c x.
Proof.
  unfold del. induction c as [|[k w] r IH]; intros id x; cbn.
  - destruct (id =? x); reflexivity.
  - destruct (k =? id) eqn:E; cbn.
    + apply N.eqb_eq in E. subst. rewrite IH. destruct (id =? x); reflexivity.
    + rewrite IH. destruct (k =? x) eqn:E2; [|reflexivity]. apply N.eqb_eq in E2. subst.
      rewrite N.eqb_sym, E. reflexivity.
Qed.
Lemma mem_add : forall x id l, mem x (add id l) = (id =? x) || mem x l.
Proof.
  intros x id l. unfold add. destruct (mem id l) eqn:M.
  - destruct (id =? x) eqn:E; [|reflexivity]. apply N.eqb_eq in E. subst. rewrite M. reflexivity.
  - cbn. rewrite (N.eqb_sym x id). reflexivity.
Qed.
Lemma mem_remove : forall x id l, mem x (remove id l) = negb (id =? x) && mem x l.
Proof.
  intros x id l. unfold remove, mem. induction l as [|y r IH]; cbn.
  - rewrite andb_false_r. reflexivity.
  - destruct (y =? id) eqn:E; cbn.
    + apply N.eqb_eq in E. subst. rewrite IH. rewrite (N.eqb_sym x id). destruct (id =? x); reflexivity.
    + rewrite IH. destruct (x =? y) eqn:E2; cbn; [|reflexivity]. apply N.eqb_eq in E2. subst.
      rewrite N.eqb_sym, E. reflexivity.
Qed.

(* ------------------------------------------------------------------ setup-profiles / auto-connect *)
Lemma lookup_Some_In : forall c x v, lookup c x = Some v -> In (x, v) c.
Proof.
  induction c as [|[k w] r IH]; intros x v H; cbn in H; [discriminate|].
  destruct (N.eqb_spec k x); [inversion H; subst; left; reflexivity | right; apply IH; assumption].
Qed.
Lemma mem_true_iff : forall x l, mem x l = true <-> In x l.
Proof.
  intros x l. unfold mem. rewrite existsb_exists. split.
  - intros [y [I E]]. apply N.eqb_eq in E. subst. assumption.
  - intro I. exists x. split; [assumption | apply N.eqb_refl].
Qed.
Lemma mem_active_ids : forall c x, mem x (active_ids c) = is_active (lookup c x).
Proof.
  intros c x. destruct (is_active (lookup c x)) eqn:A.
  - apply mem_true_iff. unfold active_ids. apply in_map_iff. unfold is_active in A. destruct (lookup c x) as [v|] eqn:L; [|discriminate].
    exists (x, v). split; [reflexivity|]. apply filter_In. split; [apply lookup_Some_In; assumption|]. cbn. rewrite L. assumption.
  - destruct (mem x (active_ids c)) eqn:M; [|reflexivity]. apply mem_true_iff in M. unfold active_ids in M. apply in_map_iff in M.
    destruct M as [[k v] [E I]]. cbn in E. subst k. apply filter_In in I. destruct I as [_ P]. cbn in P. unfold is_active in A. rewrite A in P. discriminate.
Qed.
Lemma is_nil_mem : forall l, is_nil l = true <-> forall x, mem x l = false.
Proof.
  intros [|y r]; cbn; split; intro H; try reflexivity; try discriminate.
  specialize (H y). rewrite N.eqb_refl in H. discriminate.
Qed.
Lemma is_nil_ext : forall l l', (forall x, mem x l = mem x l') -> is_nil l = is_nil l'.
Proof.
  intros l l' H. destruct (is_nil l) eqn:A; destruct (is_nil l') eqn:B; try reflexivity.
  - pose proof (proj1 (is_nil_mem l) A) as A'. assert (X : is_nil l' = true) by (apply is_nil_mem; intro x; rewrite <- H; apply A'). congruence.
  - pose proof (proj1 (is_nil_mem l') B) as B'. assert (X : is_nil l = true) by (apply is_nil_mem; intro x; rewrite H; apply B'). congruence.
Qed.

Lemma mem_cons : forall x i l, mem x (i :: l) = (i =? x) || mem x l.
Proof. intros. unfold mem. cbn [existsb]. rewrite (N.eqb_sym x i). reflexivity. Qed.

Lemma lookup_fold_set : forall v ids c x, lookup (fold_left (fun c id => set c id v) ids c) x = if mem x ids then Some v else lookup c x.
Proof.
  intros v. induction ids as [|i r IH]; intros c x; cbn [fold_left]; [reflexivity|]. rewrite IH, lookup_set, mem_cons.
  destruct (mem x r); destruct (i =? x); reflexivity.
Qed.
Lemma mem_fold_add : forall ids r x, mem x (fold_left (fun r id => add id r) ids r) = mem x ids || mem x r.
Proof.
  induction ids as [|i l IH]; intros r x; cbn [fold_left]; [reflexivity|]. rewrite IH, mem_add, mem_cons.
  destruct (i =? x), (mem x l), (mem x r); reflexivity.
Qed.
Lemma lookup_fold_del : forall ids c x, lookup (fold_left del ids c) x = if mem x ids then None else lookup c x.
Proof.
  induction ids as [|i r IH]; intros c x; cbn [fold_left]; [reflexivity|]. rewrite IH, lookup_del, mem_cons.
  destruct (mem x r); destruct (i =? x); reflexivity.
Qed.
Lemma mem_fold_remove : forall ids r x, mem x (fold_left (fun r id => remove id r) ids r) = negb (mem x ids) && mem x r.
Proof.
  induction ids as [|i l IH]; intros r x; cbn [fold_left]; [reflexivity|]. rewrite IH, mem_remove, mem_cons.
  destruct (i =? x), (mem x l), (mem x r); reflexivity.
Qed.
Lemma mem_newids : forall s x, mem x (newids s) = true -> lookup (s_conns s) x = None.
Proof.
  intros s x H. apply mem_true_iff in H. unfold newids in H. apply filter_In in H. destruct H as [_ H].
  destruct (lookup (s_conns s) x); [discriminate | reflexivity].
Qed.

Lemma Equiv_refl : forall a, Equiv a a.
Proof. intro a. repeat split. Qed.
Lemma Equiv_trans : forall a b c, Equiv a b -> Equiv b c -> Equiv a c.
Proof. intros a b c [A1 [A2 [A3 A4]]] [B1 [B2 [B3 B4]]]. repeat split; intro x; congruence. Qed.
Lemma Equiv_Agree : forall a b, Equiv a b -> Agree b -> Agree a.
Proof.
  intros a b [E1 [E2 [E3 E4]]] [A1 [A2 A3]]. split; [|split]; intro x.
  - rewrite E2, E1. apply A1.
  - rewrite E3, E2. apply A2.
  - rewrite E4, E2. apply A3.
Qed.
(* setup-profiles on an agreeing state changes nothing, whichever of its security setup calls fails *)
Lemma sp_equiv : forall t fc fp, Agree t -> Equiv (setup_profiles t fc fp) t.
Proof.
  intros t fc fp [A1 [A2 A3]]. unfold setup_profiles. split; [|split; [|split]]; intro x; cbn [s_conns s_repo s_profc s_profp].
  - reflexivity.
  - rewrite mem_active_ids. symmetry. apply A1.
  - destruct fc; [reflexivity|]. rewrite mem_active_ids, A2. symmetry. apply A1.
  - destruct (_ && negb fp); [|reflexivity]. rewrite mem_active_ids, A3. symmetry. apply A1.
Qed.

Lemma sp_agree : forall t,
  (is_nil (s_repo t) = true -> is_nil (active_ids (s_conns t)) = true -> forall x, mem x (s_profp t) = false) ->
  Agree (setup_profiles t false false).
Proof.
  intros t H. unfold setup_profiles. split; [|split]; intro x; cbn [s_conns s_repo s_profc s_profp].
  - apply mem_active_ids.
  - reflexivity.
  - cbn [negb]. rewrite andb_true_r.
    destruct (is_nil (s_repo t)) eqn:E1; destruct (is_nil (active_ids (s_conns t))) eqn:E2; cbn [negb orb]; try reflexivity.
    rewrite (H eq_refl eq_refl x). symmetry. apply (proj1 (is_nil_mem _) E2).
Qed.

Lemma undo_final : forall s X ids, Agree s ->
  (forall x, mem x ids = true -> lookup (s_conns s) x = None) ->
  s_conns X = fold_left (fun c id => set c id auto_c) ids (s_conns s) ->
  (is_nil (active_ids (s_conns s)) = false \/ forall x, mem x (s_profp X) = mem x (active_ids (s_conns s))) ->
  Equiv (setup_profiles (unconnect_all ids X) false false) s.
Proof.
  intros s X ids [A1 [A2 A3]] NEW CX COND.
  assert (LK : forall x, lookup (s_conns (unconnect_all ids X)) x = lookup (s_conns s) x).
  { intro x. unfold unconnect_all. cbn [s_conns]. rewrite lookup_fold_del, CX, lookup_fold_set.
    destruct (mem x ids) eqn:M; [symmetry; apply NEW; assumption | reflexivity]. }
  assert (ACT : forall x, mem x (active_ids (s_conns (unconnect_all ids X))) = mem x (s_repo s)).
  { intro x. rewrite mem_active_ids, LK. symmetry. apply A1. }
  unfold setup_profiles. split; [|split; [|split]]; intro x; cbn [s_conns s_repo s_profc s_profp].
  - apply LK.
  - apply ACT.
  - rewrite ACT. symmetry. apply A2.
  - cbn [negb]. rewrite andb_true_r.
    destruct (negb (is_nil (s_repo (unconnect_all ids X))) || negb (is_nil (active_ids (s_conns (unconnect_all ids X))))) eqn:AF.
    + rewrite ACT. symmetry. apply A3.
    + apply orb_false_iff in AF. destruct AF as [_ AF]. apply negb_false_iff in AF.
      assert (NA : is_nil (active_ids (s_conns s)) = true).
      { rewrite <- AF. apply is_nil_ext. intro y. rewrite ACT, mem_active_ids. symmetry. apply A1. }
      destruct COND as [C | C]; [congruence|]. unfold unconnect_all. cbn [s_profp]. rewrite C, A3, mem_active_ids. symmetry. apply A1.
Qed.

Lemma autoconnect_cases : forall s f, Agree s -> excluded s OAutoConnect f = false ->
  let r := run_change s OAutoConnect f in
  ((snd r = true \/ snd (fst r) = false) -> Equiv (fst (fst r)) s) /\ Agree (fst (fst r)).
Proof.
  intros s f AG EX. cbn [run_change]. unfold run_autoconnect. cbv zeta.
  pose proof AG as [A1 [A2 A3]].
  set (s1 := setup_profiles s false false).
  assert (E1 : Equiv s1 s) by (apply sp_equiv; assumption).
  assert (AG1 : Agree s1) by (eapply Equiv_Agree; eassumption).
  assert (NEW : forall x, mem x (newids s1) = true -> lookup (s_conns s) x = None) by (intros x H; apply (mem_newids s1 x H)).
  assert (NILR : is_nil (s_repo s) = is_nil (active_ids (s_conns s))).
  { apply is_nil_ext. intro x. rewrite mem_active_ids. apply A1. }
  (* the successful run *)
  assert (OK : is_nil (newids s1) = false -> Agree (setup_profiles (connect_all (newids s1) s1) false false)).
  { intros _. apply sp_agree. cbn [connect_all s_repo s_profp s_conns]. intros H1 _ x.
    pose proof (proj1 (is_nil_mem _) H1 x) as H. rewrite mem_fold_add in H. apply orb_false_iff in H. destruct H as [_ H].
    destruct AG1 as [_ [_ B3]]. rewrite B3. exact H. }
  (* everything undone after the second setup-profiles ran (partly) *)
  assert (UN : forall X, s_conns X = fold_left (fun c id => set c id auto_c) (newids s1) (s_conns s) ->
               (is_nil (active_ids (s_conns s)) = false \/ forall x, mem x (s_profp X) = mem x (active_ids (s_conns s))) ->
               Equiv (setup_profiles (unconnect_all (newids s1) X) false false) s).
  { intros X CX C. apply undo_final; assumption. }
  destruct f as [| |k|]; cbn [excluded] in EX.
  - (* NoFail *) change ((1 <=? 0) && (0 <=? setup_calls s)) with false; change ((0 - setup_calls s =? 1) || (0 - setup_calls s =? 2)) with false; cbn iota. destruct (is_nil (newids s1)) eqn:N; cbn [fst snd].
    + split; [intros [H | H]; discriminate | exact AG1].
    + split; [intros [H | H]; discriminate | apply OK; reflexivity].
  - (* FailBefore *) cbn [fst snd]. split; [intros _; apply Equiv_refl | exact AG].
  - (* FailMain k *)
    destruct ((1 <=? k) && (k <=? setup_calls s)) eqn:K1; cbn [fst snd].
    { assert (E : Equiv (setup_profiles s (k =? 1) (k =? 2)) s) by (apply sp_equiv; assumption).
      split; [intros _; exact E | eapply Equiv_Agree; eassumption]. }
    destruct (is_nil (newids s1)) eqn:N; cbn [fst snd].
    { split; [intros [H | H]; discriminate | exact AG1]. }
    destruct ((k - setup_calls s =? 1) || (k - setup_calls s =? 2)) eqn:K2; cbn [fst snd].
    2:{ split; [intros [H | H]; discriminate | apply OK; reflexivity]. }
    assert (E : Equiv (setup_profiles (unconnect_all (newids s1)
                 (setup_profiles (connect_all (newids s1) s1) (k - setup_calls s =? 1) (k - setup_calls s =? 2))) false false) s).
    { apply UN; [reflexivity|].
      destruct (is_nil (active_ids (s_conns s))) eqn:NA; [right | left; reflexivity].
      (* no active connection: the first setup-profiles makes one call, so k = 2 is excluded and k = 3 is the slot snap's call *)
      assert (SC : setup_calls s = 1) by (unfold setup_calls; rewrite NILR, NA; reflexivity).
      assert (NN : is_nil (newids s) = false) by exact N.
      rewrite NN in EX. cbn in EX. rewrite SC in *.
      assert (K3 : (k - 1 =? 2) = true).
      { destruct (k - 1 =? 1) eqn:X; [|cbn in K2; exact K2]. apply N.eqb_eq in X. assert (k = 2) by lia. subst k. discriminate EX. }
      intro x. unfold setup_profiles at 1. cbn [s_profp]. rewrite K3. cbn [negb]. rewrite andb_false_r.
      cbn [connect_all s_profp]. unfold s1, setup_profiles. cbn [s_profp]. rewrite NILR, NA. cbn.
      change (existsb (N.eqb x) (s_profp s)) with (mem x (s_profp s)). rewrite A3, mem_active_ids. apply A1. }
    split; [intros _; exact E | eapply Equiv_Agree; eassumption].
  - (* FailAfter *) change ((1 <=? 0) && (0 <=? setup_calls s)) with false; change ((0 - setup_calls s =? 1) || (0 - setup_calls s =? 2)) with false; cbn iota. destruct (is_nil (newids s1)) eqn:N; cbn [fst snd].
    + assert (E : Equiv (setup_profiles s1 false false) s) by (eapply Equiv_trans; [apply sp_equiv; exact AG1 | exact E1]).
      split; [intros _; exact E | eapply Equiv_Agree; eassumption].
    + assert (NN : is_nil (newids s) = false) by exact N. rewrite NN in EX. cbn in EX. rewrite andb_true_r in EX.
      assert (E : Equiv (setup_profiles (unconnect_all (newids s1)
                   (setup_profiles (setup_profiles (connect_all (newids s1) s1) false false) false false)) false false) s).
      { apply UN; [reflexivity | left; exact EX]. }
      split; [intros _; exact E | eapply Equiv_Agree; eassumption].
Qed.

(* ------------------------------------------------------------------ removal of the plug snap *)
Lemma remove_cases : forall s f, Agree s -> excluded s ORemove f = false ->
  let r := run_change s ORemove f in
  ((snd r = true \/ snd (fst r) = false) -> Equiv (fst (fst r)) s) /\ Agree (fst (fst r)).
Proof.
  intros s f AG EX. cbn [run_change]. unfold run_remove. pose proof AG as [A1 [A2 A3]].
  destruct f as [| |k|]; cbn [excluded] in EX; try discriminate EX; cbn [fst snd].
  - (* success *) split; [intros [H | H]; discriminate|]. split; [|split]; intro x; cbn [s_conns s_repo s_profc s_profp]; try reflexivity.
    destruct (is_nil (s_repo s)) eqn:NI; [|reflexivity]. rewrite A3. destruct (s_repo s); [reflexivity | discriminate].
  - split; [intros _; apply Equiv_refl | exact AG].
  - (* failure after everything: all undone *)
    assert (R0 : forall x, mem x (active_ids (fold_left del (s_repo s) (s_conns s))) = false).
    { intro x. rewrite mem_active_ids, lookup_fold_del. destruct (mem x (s_repo s)) eqn:M; [reflexivity|]. rewrite <- A1. exact M. }
    assert (R1 : forall x, mem x (fold_left (fun r id => add id r) (s_repo s) (active_ids (fold_left del (s_repo s) (s_conns s)))) = mem x (s_repo s)).
    { intro x. rewrite mem_fold_add, R0. apply orb_false_r. }
    assert (E : Equiv (mkSt (s_conns s) (fold_left (fun r id => add id r) (s_repo s) (active_ids (fold_left del (s_repo s) (s_conns s))))
                 (if is_nil (s_repo s) then active_ids (fold_left del (s_repo s) (s_conns s))
                  else fold_left (fun r id => add id r) (s_repo s) (active_ids (fold_left del (s_repo s) (s_conns s))))
                 (if is_nil (s_repo s)
                  then (if is_nil (active_ids (fold_left del (s_repo s) (s_conns s))) then s_profp s else active_ids (fold_left del (s_repo s) (s_conns s)))
                  else fold_left (fun r id => add id r) (s_repo s) (active_ids (fold_left del (s_repo s) (s_conns s))))) s).
    { split; [|split; [|split]]; intro x; cbn [s_conns s_repo s_profc s_profp].
      - reflexivity.
      - apply R1.
      - destruct (is_nil (s_repo s)) eqn:NI.
        + rewrite R0, A2. destruct (s_repo s); [reflexivity | discriminate].
        + rewrite R1. symmetry. apply A2.
      - destruct (is_nil (s_repo s)) eqn:NI.
        + destruct (is_nil (active_ids (fold_left del (s_repo s) (s_conns s)))) eqn:N0; [reflexivity|].
          assert (X : is_nil (active_ids (fold_left del (s_repo s) (s_conns s))) = true) by (apply is_nil_mem; exact R0). congruence.
        + rewrite R1. symmetry. apply A3. }
    split; [intros _; exact E | eapply Equiv_Agree; eassumption].
Qed.

Ltac pointwise A1 A2 A3 L M id :=
  let x := fresh "x" in
  intro x; cbn [s_conns s_repo s_profc s_profp];
  repeat rewrite ?lookup_set, ?lookup_del, ?mem_add, ?mem_remove;
  rewrite ?(A2 x), ?(A3 x), ?(A1 x);
  destruct (N.eqb_spec id x);
  [ subst; rewrite ?L, ?M; cbn; try reflexivity; try congruence
  | cbn; rewrite ?(A1 x); try reflexivity ].

Lemma change_cases : forall s o f, Agree s -> excluded s o f = false ->
  let r := run_change s o f in
  ((snd r = true \/ snd (fst r) = false) -> Equiv (fst (fst r)) s) /\ Agree (fst (fst r)).
Proof.
  intros s o f AG EX.
  destruct o as [id auto byg | id forget ad bh | | ]; [ | | apply remove_cases; assumption | apply autoconnect_cases; assumption].
  all: destruct AG as [A1 [A2 A3]]; destruct s as [conns repo pc pp]; cbn [s_conns s_repo s_profc s_profp] in *;
    unfold is_active, active in A1.
  all: destruct f as [| |k|];
    pose proof (A1 id) as A1id; revert A1id EX;
    unfold excluded, run_change, creates, do_connect, do_disconnect, undo_connect, undo_disconnect, active;
    cbn [s_conns s_repo s_profc s_profp];
    change (0 =? 1) with false; change (0 =? 2) with false; cbn iota;
    (destruct (lookup conns id) as [[ca cb cu ch ct]|] eqn:L); (destruct (mem id repo) eqn:M);
    cbn [c_auto c_bygadget c_undesired c_hpgone c_attrs];
    try (destruct cu; destruct ch); try destruct forget;
    try (destruct (k =? 1) eqn:K1); try (destruct (k =? 2) eqn:K2);
    cbn [negb andb orb fst snd]; intros A1id EX; try discriminate A1id; try discriminate EX.
  all: try (destruct bh); try (destruct ca; destruct ad); cbn [negb andb orb fst snd s_conns s_repo s_profc s_profp].
  all: (split; [ intros HH; try (destruct HH as [HH | HH]; discriminate HH); unfold Equiv; cbn [s_conns s_repo s_profc s_profp];
                 (split; [|split; [|split]]); try reflexivity; pointwise A1 A2 A3 L M id
               | unfold Agree, is_active, active; cbn [s_conns s_repo s_profc s_profp];
                 (split; [|split]); try assumption; pointwise A1 A2 A3 L M id ]).
Qed.

(* a change that is refused or ends in Error leaves conns (entry by entry), repository and profile sets as they were *)
Theorem failed_change_restores : forall s o f, Agree s -> excluded s o f = false ->
  (snd (run_change s o f) = true \/ snd (fst (run_change s o f)) = false) -> Equiv (fst (fst (run_change s o f))) s.
Proof. intros s o f A E. exact (proj1 (change_cases s o f A E)). Qed.

Theorem step_agree : forall s o f, Agree s -> excluded s o f = false -> Agree (fst (fst (run_change s o f))).
Proof. intros s o f A E. exact (proj2 (change_cases s o f A E)). Qed.

(* no step of the history is in one of the recorded failing classes *)
Fixpoint safe_history (s : st) (h : list (op * fail)) : Prop :=
  match h with
  | [] => True
  | (o, f) :: r => excluded s o f = false /\ safe_history (fst (fst (run_change s o f))) r
                   (* a successful removal of the plug snap ends the history: the model's world has both snaps installed *)
                   /\ (o = ORemove -> snd (run_change s o f) = false -> r = [])
  end.

Theorem settled_agree : forall h s, Agree s -> safe_history s h -> Agree (run_history s h).
Proof.
  induction h as [|[o f] r IH]; intros s A S; cbn in *; [assumption|].
  destruct S as [E [S _]]. apply IH; [apply step_agree; assumption | assumption].
Qed.

(* start-up *)
Lemma lookup_notin : forall c id, ~ In id (map fst c) -> lookup c id = None.
Proof.
  induction c as [|[k v] r IH]; intros id H; cbn; [reflexivity|].
  destruct (N.eqb_spec k id); [subst; exfalso; apply H; left; reflexivity|]. apply IH. intro I. apply H. right. assumption.
Qed.
Lemma reload_mem : forall c, NoDup (map fst c) -> forall id, mem id (reload c) = is_active (lookup c id).
Proof.
  induction c as [|[k v] r IH]; intros ND id; [reflexivity|].
  cbn in ND. inversion ND as [|? ? Hk ND']; subst. specialize (IH ND'). cbn [reload lookup].
  destruct (N.eqb_spec k id).
  - subst. cbn [is_active]. destruct (active v) eqn:Av.
    + rewrite mem_add, N.eqb_refl. reflexivity.
    + rewrite IH, (lookup_notin r id Hk). reflexivity.
  - destruct (active v); [rewrite mem_add; destruct (N.eqb_spec k id); [congruence|]; cbn|]; apply IH.
Qed.
Theorem reload_agree : forall c, NoDup (map fst c) -> Agree (mkSt c (reload c) (reload c) (reload c)).
Proof. intros c ND. repeat split; cbn; try reflexivity. apply reload_mem. assumption. Qed.

(* Equiv is at least as fine as the boolean comparison used on observed states *)
Lemma mem_In : forall x l, In x l -> mem x l = true.
Proof. intros x l H. unfold mem. apply existsb_exists. exists x. split; [assumption | apply N.eqb_refl]. Qed.
Lemma ocstate_eqb_refl : forall o, ocstate_eqb o o = true.
Proof. intros [[[] [] [] [] []]|]; reflexivity. Qed.
Lemma subset_of : forall a b, (forall x, mem x a = mem x b) -> subset a b = true.
Proof. intros a b H. unfold subset. apply forallb_forall. intros x I. rewrite <- H. apply mem_In. assumption. Qed.
Lemma Equiv_st_eqb : forall a b, Equiv a b -> st_eqb a b = true.
Proof.
  intros a b [E1 [E2 [E3 E4]]]. unfold st_eqb, conns_eqb, set_eqb.
  repeat (apply andb_true_iff; split); try (apply subset_of; intro x; congruence);
    apply forallb_forall; intros e _; rewrite E1; apply ocstate_eqb_refl.
Qed.

(* ------------------------------------------------------------------ the recorded failing classes: the unguarded statement is false *)
Definition c_plain := mkC false false false false true.
Definition s_one := mkSt [(0, c_plain)] [0] [0] [0].
Lemma agree_s_one : Agree s_one.
Proof. split; [|split]; cbn; try reflexivity. intro id. destruct id; reflexivity. Qed.
Lemma agree_inactive : forall c, active c = false -> Agree (mkSt [(0, c)] [] [] []).
Proof. intros c H. split; [|split]; cbn; try reflexivity. intro id. destruct id; cbn; [rewrite H|]; reflexivity. Qed.

Ltac refute s o f A :=
  exists s, o, f; split; [exact A|]; split; [reflexivity|];
  let E := fresh "E" in (intro E; apply Equiv_st_eqb in E; vm_compute in E; discriminate E).

(* a disconnect task whose SECOND setup (slot snap) fails: the plug snap's profile was regenerated without the connection
   that the rollback then puts back *)
Theorem disconnect_second_setup_failure_refuted : exists s o f, Agree s /\ snd (run_change s o f) = true /\ ~ Equiv (fst (fst (run_change s o f))) s.
Proof. refute s_one (ODisconnect 0 false false false) (FailMain 2) agree_s_one. Qed.
Theorem connect_setup_failure_refuted : exists s o f, Agree s /\ snd (run_change s o f) = true /\ ~ Equiv (fst (fst (run_change s o f))) s.
Proof. refute (mkSt [] [] [] []) (OConnect 0 false false) (FailMain 2) (reload_agree [] (NoDup_nil N)). Qed.
Theorem connect_undo_hotplug_gone_refuted : exists s o f, Agree s /\ snd (run_change s o f) = true /\ ~ Equiv (fst (fst (run_change s o f))) s.
Proof. refute (mkSt [(0, mkC true false false true true)] [] [] []) (OConnect 0 false false) FailAfter (agree_inactive (mkC true false false true true) eq_refl). Qed.
Theorem forget_undo_refuted : exists s o f, Agree s /\ snd (run_change s o f) = true /\ ~ Equiv (fst (fst (run_change s o f))) s.
Proof. refute (mkSt [(0, mkC true false true false false)] [] [] []) (ODisconnect 0 true false false) FailAfter (agree_inactive (mkC true false true false false) eq_refl). Qed.

(* auto-connect from a state without active connections, a later task fails: the slot snap keeps the profile of the undone connections *)
Theorem autoconnect_undo_refuted : exists s o f, Agree s /\ snd (run_change s o f) = true /\ ~ Equiv (fst (fst (run_change s o f))) s.
Proof. refute (mkSt [] [] [] []) OAutoConnect FailAfter (reload_agree [] (NoDup_nil N)). Qed.

(* a successful auto-connect: every pair without an entry gets an active auto connection, existing entries (also undesired
   and hotplug-gone ones) are left alone, the repository is the active set *)
Theorem autoconnect_success : forall s x, Agree s -> snd (run_change s OAutoConnect NoFail) = false /\
  lookup (s_conns (fst (fst (run_change s OAutoConnect NoFail)))) x =
    (if mem x univ then match lookup (s_conns s) x with Some c => Some c | None => Some auto_c end else lookup (s_conns s) x).
Proof.
  intros s x AG. cbn [run_change]. unfold run_autoconnect. cbv zeta.
  change ((1 <=? 0) && (0 <=? setup_calls s)) with false. change ((0 - setup_calls s =? 1) || (0 - setup_calls s =? 2)) with false. cbn iota.
  set (s1 := setup_profiles s false false).
  assert (MN : mem x (newids s1) = mem x univ && match lookup (s_conns s) x with None => true | Some _ => false end).
  { unfold newids. cbn [s1 setup_profiles s_conns]. generalize univ as l. induction l as [|y l IH]; [reflexivity|].
    cbn [filter]. destruct (N.eqb_spec y x).
    - subst y. destruct (lookup (s_conns s) x) eqn:L.
      + rewrite IH, !mem_cons, N.eqb_refl. cbn. rewrite andb_false_r. reflexivity.
      + rewrite !mem_cons, N.eqb_refl. reflexivity.
    - destruct (lookup (s_conns s) y); rewrite ?mem_cons, IH, ?mem_cons; (destruct (N.eqb_spec y x); [congruence | reflexivity]). }
  destruct (is_nil (newids s1)) eqn:NI; cbn [fst snd].
  - split; [reflexivity|]. pose proof (proj1 (is_nil_mem _) NI x) as H. rewrite MN in H. cbn [s1 setup_profiles s_conns].
    destruct (mem x univ); [|reflexivity]. destruct (lookup (s_conns s) x); [reflexivity | discriminate].
  - split; [reflexivity|]. cbn [setup_profiles connect_all s_conns]. rewrite lookup_fold_set, MN. cbn [s1 setup_profiles s_conns].
    destruct (mem x univ); [|reflexivity]. destruct (lookup (s_conns s) x); reflexivity.
Qed.

(* after a successful removal no conns entry and no repository connection is left (every id names the removed snap), and
   both profile sets are empty *)
Theorem remove_success : forall s, Agree s ->
  let r := run_change s ORemove NoFail in
  snd r = false /\ s_conns (fst (fst r)) = [] /\ s_repo (fst (fst r)) = [] /\ s_profc (fst (fst r)) = []
  /\ forall x, mem x (s_profp (fst (fst r))) = false.
Proof.
  intros s [A1 [A2 A3]]. cbn [run_change]. unfold run_remove. cbn [fst snd s_conns s_repo s_profc s_profp]. repeat split. intro x. destruct (is_nil (s_repo s)) eqn:NI; [|reflexivity].
  rewrite A3. destruct (s_repo s); [reflexivity | discriminate].
Qed.

(* former finding 8 (repaired by commit 63d7dd9 in /repo): a disconnect / forget task that fails in ANY of its security
   setup calls leaves the persisted conns untouched and the repository exactly as it was (the connection is put back) *)
Theorem disconnect_setup_failure_restores : forall s id forget ad bh k c, (k = 1 \/ k = 2) ->
  mem id (s_repo s) = true -> lookup (s_conns s) id = Some c ->
  let r := run_change s (ODisconnect id forget ad bh) (FailMain k) in
  snd r = true /\ s_conns (fst (fst r)) = s_conns s /\ forall x, mem x (s_repo (fst (fst r))) = mem x (s_repo s).
Proof.
  intros s id forget ad bh k c Hk M L. unfold run_change, creates, do_disconnect. rewrite M, orb_true_r, L. cbn [negb].
  destruct Hk; subst; change (1 =? 1) with true; change (2 =? 1) with false; change (2 =? 2) with true; cbn iota;
    cbn [fst snd s_conns s_repo negb]; (split; [reflexivity|]); (split; [reflexivity|]); intro x; rewrite mem_add, mem_remove;
    (destruct (N.eqb_spec id x); [subst; rewrite M; reflexivity | reflexivity]).
Qed.

(* ... and when it is the FIRST setup call that fails, everything (profiles included) is as before: this is an instance of
   failed_change_restores, stated separately as the regression statement for the repaired finding *)
Theorem disconnect_first_setup_failure_restores : forall s id forget ad bh, Agree s ->
  snd (run_change s (ODisconnect id forget ad bh) (FailMain 1)) = true ->
  Equiv (fst (fst (run_change s (ODisconnect id forget ad bh) (FailMain 1)))) s.
Proof.
  intros s id forget ad bh A F. apply failed_change_restores; [assumption | | left; assumption].
  cbn. apply andb_false_r.
Qed.
