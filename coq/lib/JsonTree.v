(* JSON-like trees shared by the configuration (C29) and registry (C30) models.
   Scalars are opaque atoms (Atom z); object keys are opaque identifiers (N; the drivers map each key string of their
   small vocabulary to a number, single-letter keys to their byte value so that numeric order = string order).
   A Go map is represented canonically: an association list strictly sorted by key (wf_tree). Executable
   definitions only; lemmas are in proofs/JsonTreeProofs.v. *)
From Coq Require Import List NArith ZArith Bool.
Import ListNotations.
Open Scope N_scope.

Definition key := N.

Inductive tree :=
| Null
| Atom (z : Z)
| Obj (l : list (key * tree)).

(* ------------------------------------------------------------------ association lists sorted by key *)
Fixpoint lookup {A : Type} (k : key) (l : list (key * A)) : option A :=
  match l with
  | [] => None
  | (k', v) :: r => if k =? k' then Some v else lookup k r
  end.

(* m[k] = v : replace, or insert at the sorted position *)
Fixpoint aset {A : Type} (k : key) (v : A) (l : list (key * A)) : list (key * A) :=
  match l with
  | [] => [(k, v)]
  | (k', v') :: r => if k =? k' then (k, v) :: r
                     else if k <? k' then (k, v) :: l
                     else (k', v') :: aset k v r
  end.

(* delete(m, k) *)
Fixpoint aremove {A : Type} (k : key) (l : list (key * A)) : list (key * A) :=
  match l with
  | [] => []
  | (k', v') :: r => if k =? k' then aremove k r else (k', v') :: aremove k r
  end.

Definition keys {A : Type} (l : list (key * A)) : list key := map fst l.

(* strictly increasing keys *)
Fixpoint sorted (ks : list key) : bool :=
  match ks with
  | [] => true
  | k :: r => match r with [] => true | k' :: _ => (k <? k') && sorted r end
  end.

Fixpoint wf_tree (t : tree) : bool :=
  match t with
  | Null | Atom _ => true
  | Obj l => sorted (map fst l) && forallb (fun kv => wf_tree (snd kv)) l
  end.

Fixpoint tree_eqb (a b : tree) : bool :=
  match a, b with
  | Null, Null => true
  | Atom x, Atom y => (x =? y)%Z
  | Obj la, Obj lb =>
      (fix go (la : list (key * tree)) (lb : list (key * tree)) : bool :=
         match la, lb with
         | [], [] => true
         | (ka, va) :: ra, (kb, vb) :: rb => (ka =? kb) && tree_eqb va vb && go ra rb
         | _, _ => false
         end) la lb
  | _, _ => false
  end.

Definition otree_eqb (a b : option tree) : bool :=
  match a, b with Some x, Some y => tree_eqb x y | None, None => true | _, _ => false end.

(* canonical form of an arbitrary (unsorted, possibly duplicated) tree: later duplicates win; used only to
   normalise what a driver prints *)
Fixpoint canon (t : tree) : tree :=
  match t with
  | Obj l => Obj (fold_left (fun acc kv => aset (fst kv) (canon (snd kv)) acc) l [])
  | _ => t
  end.

(* ------------------------------------------------------------------ paths *)
Definition path := list key.

(* the subtree at a path; None when a member is missing or the walk meets a non-object *)
Fixpoint tget (p : path) (t : tree) : option tree :=
  match p with
  | [] => Some t
  | k :: r => match t with
              | Obj l => match lookup k l with Some c => tget r c | None => None end
              | _ => None
              end
  end.

(* {k1: {k2: ... v}} *)
Fixpoint nest (p : path) (v : tree) : tree :=
  match p with
  | [] => v
  | k :: r => Obj [(k, nest r v)]
  end.

(* plain nested-map write: intermediate objects are created where a member is missing and REPLACE anything that is
   not an object (null or scalar) *)
Fixpoint tset (p : path) (v : tree) (t : option tree) : tree :=
  match p with
  | [] => v
  | k :: r => match t with
              | Some (Obj l) => Obj (aset k (tset r v (lookup k l)) l)
              | _ => Obj [(k, tset r v None)]
              end
  end.

(* remove the member at a path, leaving everything else (including emptied parents) in place *)
Fixpoint tunset (p : path) (t : tree) : tree :=
  match p with
  | [] => t
  | k :: r => match t with
              | Obj l => match r with
                         | [] => Obj (aremove k l)
                         | _ :: _ => match lookup k l with
                                     | Some c => Obj (aset k (tunset r c) l)
                                     | None => t
                                     end
                         end
              | _ => t
              end
  end.

(* drop null members recursively; an object that loses all its members stays as an empty object; a null itself
   has no purged form *)
Fixpoint purge (t : tree) : option tree :=
  match t with
  | Null => None
  | Atom z => Some (Atom z)
  | Obj l =>
      Some (Obj ((fix pl (l : list (key * tree)) : list (key * tree) :=
                    match l with
                    | [] => []
                    | (k, v) :: r => match purge v with Some v' => (k, v') :: pl r | None => pl r end
                    end) l))
  end.

Fixpoint purge_list (l : list (key * tree)) : list (key * tree) :=
  match l with
  | [] => []
  | (k, v) :: r => match purge v with Some v' => (k, v') :: purge_list r | None => purge_list r end
  end.

(* proper-prefix / divergence of paths *)
Fixpoint is_prefix (p q : path) : bool :=
  match p, q with
  | [], _ => true
  | x :: p', y :: q' => (x =? y) && is_prefix p' q'
  | _ :: _, [] => false
  end.
Definition diverge (p q : path) : bool := negb (is_prefix p q) && negb (is_prefix q p).
