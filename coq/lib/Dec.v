(* Decimal printing/parsing of naturals on byte strings, through the standard library's Decimal.uint.
   Executable definitions only; the round-trip lemmas are in proofs/DecProofs.v. *)
From Coq Require Import List NArith ZArith Bool DecimalN.
Import ListNotations.
Require Import V.lib.Bytes.
Open Scope N_scope.

Fixpoint uint_bytes (u : Decimal.uint) : bytes :=
  match u with
  | Decimal.Nil => []
  | Decimal.D0 r => 48 :: uint_bytes r | Decimal.D1 r => 49 :: uint_bytes r
  | Decimal.D2 r => 50 :: uint_bytes r | Decimal.D3 r => 51 :: uint_bytes r
  | Decimal.D4 r => 52 :: uint_bytes r | Decimal.D5 r => 53 :: uint_bytes r
  | Decimal.D6 r => 54 :: uint_bytes r | Decimal.D7 r => 55 :: uint_bytes r
  | Decimal.D8 r => 56 :: uint_bytes r | Decimal.D9 r => 57 :: uint_bytes r
  end.

Fixpoint bytes_uint (b : bytes) : option Decimal.uint :=
  match b with
  | [] => Some Decimal.Nil
  | c :: r =>
      match bytes_uint r with
      | None => None
      | Some u =>
          if c =? 48 then Some (Decimal.D0 u) else if c =? 49 then Some (Decimal.D1 u)
          else if c =? 50 then Some (Decimal.D2 u) else if c =? 51 then Some (Decimal.D3 u)
          else if c =? 52 then Some (Decimal.D4 u) else if c =? 53 then Some (Decimal.D5 u)
          else if c =? 54 then Some (Decimal.D6 u) else if c =? 55 then Some (Decimal.D7 u)
          else if c =? 56 then Some (Decimal.D8 u) else if c =? 57 then Some (Decimal.D9 u)
          else None
      end
  end.

(* strconv.FormatUint(n, 10) *)
Definition dec (n : N) : bytes := uint_bytes (N.to_uint n).

(* one or more decimal digits (leading zeroes allowed) -> value; anything else -> None *)
Definition undec (b : bytes) : option N :=
  match b with
  | [] => None
  | _ => match bytes_uint b with Some u => Some (N.of_uint u) | None => None end
  end.
