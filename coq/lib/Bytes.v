(* Byte strings as lists of N (each < 256). Executable helpers only; no proofs here. *)
From Coq Require Import List NArith ZArith String Ascii Bool.
Import ListNotations.
Open Scope N_scope.

Definition bytes := list N.

(* literal helper used by generated case files:  bs "abc" *)
Definition bs (x : string) : bytes := map N_of_ascii (list_ascii_of_string x).

Fixpoint beq (a b : bytes) : bool :=
  match a, b with
  | [], [] => true
  | x :: a', y :: b' => (x =? y) && beq a' b'
  | _, _ => false
  end.

Fixpoint span (p : N -> bool) (l : bytes) : bytes * bytes :=
  match l with
  | [] => ([], [])
  | x :: r => if p x then let (a, b) := span p r in (x :: a, b) else ([], l)
  end.

Definition is_digit (c : N) : bool := (48 <=? c) && (c <=? 57).
Definition is_lower (c : N) : bool := (97 <=? c) && (c <=? 122).
Definition is_upper (c : N) : bool := (65 <=? c) && (c <=? 90).
Definition is_alpha (c : N) : bool := is_lower c || is_upper c.

(* last index of byte c in l, as split (before, after) *)
Fixpoint split_last (c : N) (l : bytes) : option (bytes * bytes) :=
  match l with
  | [] => None
  | x :: r =>
      match split_last c r with
      | Some (a, b) => Some (x :: a, b)
      | None => if x =? c then Some ([], r) else None
      end
  end.

Fixpoint has_prefix (p l : bytes) : bool :=
  match p, l with
  | [], _ => true
  | x :: p', y :: l' => (x =? y) && has_prefix p' l'
  | _, [] => false
  end.

Definition zeqb_list (a b : list Z) : bool :=
  (fix go a b := match a, b with
                 | [], [] => true
                 | x :: a', y :: b' => Z.eqb x y && go a' b'
                 | _, _ => false end) a b.

Definition is_nil_b {A : Type} (l : list A) : bool := match l with [] => true | _ => false end.
