(* Regular expressions over bytes (N), Brzozowski-derivative matcher. Executable definitions only; the proofs
   (matcher = denotational semantics `lang`) are in proofs/RegexProofs.v.

   Atoms are byte classes given as a list of inclusive ranges. `rmatch r s` is the ANCHORED match (the whole of s is
   in the language of r); an unanchored search is expressed with `search_l`/`search_r`/`search` (any-byte star
   around the expression). The derivative uses smart constructors (`cat`, `alt`) that drop Empty/Eps units and
   duplicate alternatives, so derivative terms stay small under vm_compute. *)
From Coq Require Import List NArith Bool.
Import ListNotations.
Require Import V.lib.Bytes.
Open Scope N_scope.

Definition ranges := list (N * N).

Fixpoint in_ranges (c : N) (rs : ranges) : bool :=
  match rs with
  | [] => false
  | (lo, hi) :: r => ((lo <=? c) && (c <=? hi)) || in_ranges c r
  end.

Inductive regex :=
| Empty                      (* no string *)
| Eps                        (* the empty string *)
| Cls (rs : ranges)          (* one byte in one of the ranges *)
| Cat (a b : regex)
| Alt (a b : regex)
| Star (a : regex).

(* derived forms used by the translators *)
Definition Chr (c : N) : regex := Cls [(c, c)].
Definition Opt (r : regex) : regex := Alt Eps r.
Definition Plus (r : regex) : regex := Cat r (Star r).
Definition AnyByte : regex := Cls [(0, 255)].
Fixpoint Lit (s : bytes) : regex :=
  match s with [] => Eps | c :: t => Cat (Chr c) (Lit t) end.
(* r{0,k} as nested options: (r(r(...)?)?)? *)
Fixpoint rep_opt (k : nat) (r : regex) : regex :=
  match k with O => Eps | S k' => Opt (Cat r (rep_opt k' r)) end.
(* r{lo,lo+extra} *)
Fixpoint rep (lo extra : nat) (r : regex) : regex :=
  match lo with O => rep_opt extra r | S l => Cat r (rep l extra r) end.
(* r{lo,} *)
Fixpoint rep_min (lo : nat) (r : regex) : regex :=
  match lo with O => Star r | S l => Cat r (rep_min l r) end.

Definition search_l (r : regex) : regex := Cat (Star AnyByte) r.          (* no leading ^ *)
Definition search_r (r : regex) : regex := Cat r (Star AnyByte).          (* no trailing $ *)
Definition search (r : regex) : regex := Cat (Star AnyByte) (Cat r (Star AnyByte)).

Fixpoint nullable (r : regex) : bool :=
  match r with
  | Empty => false
  | Eps => true
  | Cls _ => false
  | Cat a b => nullable a && nullable b
  | Alt a b => nullable a || nullable b
  | Star _ => true
  end.

Fixpoint ranges_eqb (a b : ranges) : bool :=
  match a, b with
  | [], [] => true
  | (l1, h1) :: a', (l2, h2) :: b' => (l1 =? l2) && (h1 =? h2) && ranges_eqb a' b'
  | _, _ => false
  end.

(* structural equality *)
Fixpoint req (a b : regex) : bool :=
  match a, b with
  | Empty, Empty => true
  | Eps, Eps => true
  | Cls x, Cls y => ranges_eqb x y
  | Cat a1 a2, Cat b1 b2 => req a1 b1 && req a2 b2
  | Alt a1 a2, Alt b1 b2 => req a1 b1 && req a2 b2
  | Star a1, Star b1 => req a1 b1
  | _, _ => false
  end.

Definition cat (a b : regex) : regex :=
  match a with
  | Empty => Empty
  | Eps => b
  | _ => match b with Empty => Empty | Eps => a | _ => Cat a b end
  end.

(* is x one of the alternatives of the right-nested alternation y ? *)
Fixpoint alt_mem (x y : regex) : bool :=
  match y with
  | Alt y1 y2 => req x y1 || alt_mem x y2
  | _ => req x y
  end.

Definition alt (a b : regex) : regex :=
  match a with
  | Empty => b
  | _ => match b with
         | Empty => a
         | _ => if alt_mem a b then b else Alt a b
         end
  end.

Fixpoint deriv (c : N) (r : regex) : regex :=
  match r with
  | Empty => Empty
  | Eps => Empty
  | Cls rs => if in_ranges c rs then Eps else Empty
  | Cat a b => if nullable a then alt (cat (deriv c a) b) (deriv c b) else cat (deriv c a) b
  | Alt a b => alt (deriv c a) (deriv c b)
  | Star a => cat (deriv c a) (Star a)
  end.

Fixpoint rmatch (r : regex) (s : bytes) : bool :=
  match s with
  | [] => nullable r
  | c :: t => rmatch (deriv c r) t
  end.
