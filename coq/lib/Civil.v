(* Proleptic Gregorian calendar on day numbers (days since 1970-01-01, UTC). Executable definitions only.
   civil_from_days is the well-known era/day-of-era algorithm; weekday 0 = Sunday like Go's time.Weekday. *)
From Coq Require Import ZArith.
Open Scope Z_scope.

(* (year, month 1..12, day 1..31) of day number z *)
Definition civil_from_days (z : Z) : Z * Z * Z :=
  let z := z + 719468 in
  let era := z / 146097 in
  let doe := z - era * 146097 in
  let yoe := (doe - doe / 1460 + doe / 36524 - doe / 146096) / 365 in
  let y := yoe + era * 400 in
  let doy := doe - (365 * yoe + yoe / 4 - yoe / 100) in
  let mp := (5 * doy + 2) / 153 in
  let d := doy - (153 * mp + 2) / 5 + 1 in
  let m := if mp <? 10 then mp + 3 else mp - 9 in
  (if m <=? 2 then y + 1 else y, m, d).

Definition month_of (d : Z) : Z := snd (fst (civil_from_days d)).
Definition dom_of (d : Z) : Z := snd (civil_from_days d).
Definition year_of (d : Z) : Z := fst (fst (civil_from_days d)).
(* 1970-01-01 was a Thursday *)
Definition weekday_of (d : Z) : Z := (d + 4) mod 7.
