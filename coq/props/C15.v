From Coq Require Import List NArith ZArith Bool.
Require Import V.models.Holds.
Theorem C15_placeholder : Holds.system = 0%N.
Proof. reflexivity. Qed.
Print Assumptions C15_placeholder.
