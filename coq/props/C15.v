(* C15 — snap-initiated refresh holds are bounded.
   This file holds the property theorems only: statement, `exact <lemma>`, Print Assumptions.
   Model: models/Holds.v (overlord/snapstate/autorefresh_gating.go function by function); constants: gen/HoldConsts.v
   (regenerated from overlord/snapstate/autorefresh.go, autorefresh_gating.go and the two gating call sites).
   Snap 0 is the holder name `system`; times are nanoseconds; forty_eight_h and ninety_days are literal numbers.
   A history is any list of operations Hold / SysHold / Proceed / Reset / RefreshAccepted / RefreshRefused / Refreshed / Tick
   from a state without holds
   in which no last-refresh time lies in the future; `default_duration` says that every request by a gating snap asks
   for the default (zero = maximum) duration, which the translator checks for both production call sites. *)
From Coq Require Import List NArith ZArith Bool.
Import ListNotations.
Require Import V.gen.HoldConsts V.models.Holds V.proofs.HoldsProofs.
Open Scope Z_scope.

(* the constants of the code are the 48 hours and 90 days of the property, and the call sites pass the zero duration *)
Theorem C15_constants :
  max_other_hold_duration = forty_eight_h /\ max_postponement - max_postponement_buffer = ninety_days /\
  gating_call_sites_pass_zero_duration = true.
Proof. exact (conj other_val (conj mp_val call_sites_default)). Qed.
Print Assumptions C15_constants.

(* 48 hours: whenever HeldSnaps reports a hold of s by another snap g, at most 48 h have passed since that hold episode
   began. The episode start `ep s g` is a ghost value defined from the appearance and disappearance of the entry. *)
Theorem C15_other_48h : forall (lr0 : N -> Z) (now0 : Z) (ops : list op) (st : state) (ep : episodes),
  (forall s, lr0 s <= now0) -> forallb default_duration ops = true ->
  run_ep (init_state lr0 now0) no_episodes ops = (st, ep) ->
  forall level s g, g <> system -> g <> s -> effective st level s g = true ->
  exists t0, ep s g = Some t0 /\ st_now st <= t0 + forty_eight_h.
Proof. exact other_48h. Qed.
Print Assumptions C15_other_48h.

(* 90 days: no hold by any gating snap (the snap itself included, explicit durations included) is reported later than
   90 days after the held snap's last refresh *)
Theorem C15_any_90d : forall (lr0 : N -> Z) (now0 : Z) (ops : list op),
  (forall s, lr0 s <= now0) ->
  let st := run (init_state lr0 now0) ops in
  forall level s g, g <> system -> effective st level s g = true ->
  st_now st <= st_lastref st s + ninety_days.
Proof. exact any_90d. Qed.
Print Assumptions C15_any_90d.

(* once a bound is reached a further request is refused and removes every requested hold of that gating snap *)
Theorem C15_refused_at_bound : forall (st : state) (level g : N) (dur : Z) (snaps : list N) (s : N),
  g <> system -> In s snaps -> at_bound st g s ->
  op_result st (Hold level g dur snaps) = None /\
  forall s', In s' snaps -> st_gating (step st (Hold level g dur snaps)) s' g = None.
Proof. exact refused_at_bound. Qed.
Print Assumptions C15_refused_at_bound.

(* the hold stops being reported after its end, in particular after either bound *)
Theorem C15_not_reported_after : forall (lr0 : N -> Z) (now0 : Z) (ops : list op) (st : state) (ep : episodes),
  (forall s, lr0 s <= now0) -> forallb default_duration ops = true ->
  run_ep (init_state lr0 now0) no_episodes ops = (st, ep) ->
  forall level s g t0, g <> system -> ep s g = Some t0 ->
  (g <> s /\ t0 + forty_eight_h < st_now st) \/ st_lastref st s + ninety_days < st_now st ->
  effective st level s g = false.
Proof. exact not_reported_after_bound. Qed.
Print Assumptions C15_not_reported_after.

Theorem C15_not_reported_after_expiry : forall (st : state) (level s g : N) (h : hold),
  st_gating st s g = Some h -> h_until h < st_now st -> effective st level s g = false.
Proof. exact not_reported_after_expiry. Qed.
Print Assumptions C15_not_reported_after_expiry.

(* refresh requests: the histories of every theorem in this file also range over RefreshAccepted / RefreshRefused. A
   refresh request that is refused (running apps, conflict, ...) leaves every hold record as it was, so it neither ends
   nor restarts a hold episode: the 48 h and 90 d bounds above stay counted from the FIRST hold of the episode. An
   accepted one only removes records (of gating snaps, for the snaps being refreshed). *)
Theorem C15_refused_refresh_changes_nothing : forall (st : state) (snaps : list N), step st (RefreshRefused snaps []) = st.
Proof. exact refused_refresh_changes_nothing. Qed.
Print Assumptions C15_refused_refresh_changes_nothing.

(* `RefreshRefused snaps done` with done <> [] is what the code does for a request naming several snaps (UpdateMany) when
   one of them causes the refusal after others had been prepared: the hold records of the prepared snaps are dropped
   although nothing is refreshed. For such requests the statement `a refused request leaves every hold record alone`, and
   with it the 48 h bound counted from the first hold, is FALSE of the faithful model (KNOWN_FINDINGS key
   refused-updatemany-drops-holds, reproduced on the implementation on every run). What still holds: only records of
   gating snaps for snaps of the request disappear, and C15_any_90d (whose histories include these steps). *)
Theorem C15_refused_multi_snap_request_refuted : exists (lr0 : N -> Z) (now0 : Z) (ops : list op),
  (forall s, lr0 s <= now0) /\ forallb default_duration ops = true /\
  (forall o, In o ops -> forall l, o <> RefreshAccepted l) /\
  let st := run (init_state lr0 now0) ops in
  effective st 0 2 1 = true /\ now0 + forty_eight_h < st_now st.
Proof.
  exists (fun _ => - h_ns), 0, refused_many_witness. split; [intros _; discriminate|].
  split; [exact (proj1 refused_many_witness_spec)|]. split.
  - intros o Hin l. cbn in Hin. repeat (destruct Hin as [<-|Hin]; [discriminate|]). contradiction.
  - exact (proj2 (proj2 refused_many_witness_spec)).
Qed.
Print Assumptions C15_refused_multi_snap_request_refuted.

Theorem C15_refused_refresh_only_removes : forall (st : state) (snaps done : list N) (s g : N) (h : hold),
  st_gating (step st (RefreshRefused snaps done)) s g = Some h -> st_gating st s g = Some h.
Proof. exact refused_refresh_only_removes. Qed.
Print Assumptions C15_refused_refresh_only_removes.

Theorem C15_accepted_refresh_only_removes : forall (st : state) (snaps : list N) (s g : N) (h : hold),
  st_gating (step st (RefreshAccepted snaps)) s g = Some h -> st_gating st s g = Some h.
Proof. exact accepted_refresh_only_removes. Qed.
Print Assumptions C15_accepted_refresh_only_removes.

(* what holds are for: a refresh of ALL snaps (auto-refresh: level HoldAutoRefresh = 0; `snap refresh` without names:
   level HoldGeneral = 1; updatePlan.filterHeldSnaps and snapsToRefresh) goes on exactly with the candidates that
   HeldSnaps does not report at that level. A refresh that names its snaps does not consult the holds (its operation
   RefreshAccepted only drops hold records). *)
Theorem C15_refresh_targets : forall (st : state) (level : N) (holders cands : list N) (s : N),
  In s (refresh_targets st level holders cands) <->
  In s cands /\ forall g, In g holders -> effective st level s g = false.
Proof. exact refresh_targets_spec. Qed.
Print Assumptions C15_refresh_targets.

(* a held snap is never refreshed by a refresh of all snaps before the hold ends (for gating snaps: and within
   maxPostponement of the last refresh), at every level the hold covers *)
Theorem C15_held_not_refreshed : forall (st : state) (level : N) (holders cands : list N) (s g : N) (h : hold),
  st_gating st s g = Some h -> In g holders -> (level <= h_level h)%N -> st_now st <= h_until h ->
  (g = system \/ st_now st <= st_lastref st s + max_postponement) ->
  ~ In s (refresh_targets st level holders cands).
Proof. exact held_not_refreshed. Qed.
Print Assumptions C15_held_not_refreshed.

(* gating snaps hold for auto-refreshes only (level 0, C15_constants): such a hold never keeps a snap out of a general refresh *)
Theorem C15_auto_level_hold_ignored_by_general_refresh : forall (st : state) (s g : N) (h : hold),
  st_gating st s g = Some h -> h_level h = 0%N -> effective st 1 s g = false.
Proof. exact auto_level_hold_ignored_by_general_refresh. Qed.
Print Assumptions C15_auto_level_hold_ignored_by_general_refresh.

(* over every history: a candidate that an auto-refresh leaves out is held by the administrator or is within 90 days of
   its last refresh *)
Theorem C15_auto_refresh_excluded_bound : forall (lr0 : N -> Z) (now0 : Z) (ops : list op) (holders cands : list N) (s : N),
  (forall x, lr0 x <= now0) ->
  let st := run (init_state lr0 now0) ops in
  In s cands -> ~ In s (refresh_targets st 0 holders cands) ->
  effective st 0 s system = true \/ st_now st <= st_lastref st s + ninety_days.
Proof. exact auto_refresh_excluded_bound. Qed.
Print Assumptions C15_auto_refresh_excluded_bound.

(* non-vacuity: snap 1 holds snap 2 for auto-refreshes; an auto-refresh of snaps 1, 2, 3 goes on with 1 and 3, a general
   refresh with all three; 48 h + 1 ns later the auto-refresh takes snap 2 as well *)
Example C15_refresh_targets_example :
  let st := run (init_state (fun _ => - h_ns) 0) [Hold 0 1 0 [2%N]] in
  refresh_targets st 0 [0; 1; 2; 3]%N [1; 2; 3]%N = [1; 3]%N /\
  refresh_targets st 1 [0; 1; 2; 3]%N [1; 2; 3]%N = [1; 2; 3]%N /\
  refresh_targets (step st (Tick (Z.to_N (48 * h_ns + 1)))) 0 [0; 1; 2; 3]%N [1; 2; 3]%N = [1; 2; 3]%N.
Proof. vm_compute. repeat split; reflexivity. Qed.

(* the system-wide hold, option core refresh.hold (unset / forever / a time): `allhold_after v ops` is its value after a
   history (only SetAllHold changes it), `all_held v now` whether it is in force. While it is in force the scheduled
   auto-refresh is not launched at all (autoRefresh.Ensure / isRefreshHeld): no snap is auto-refreshed ... *)
Theorem C15_system_wide_hold_blocks_auto_refresh : forall (v : allhold) (st : state) (holders cands : list N),
  all_held v (st_now st) = true -> auto_refresh_targets v st holders cands = [].
Proof. exact all_held_blocks_auto_refresh. Qed.
Print Assumptions C15_system_wide_hold_blocks_auto_refresh.

Theorem C15_system_wide_hold_in_force : forall now : Z,
  all_held None now = false /\ all_held (Some None) now = true /\ forall t, all_held (Some (Some t)) now = (now <? t).
Proof. exact all_held_spec. Qed.
Print Assumptions C15_system_wide_hold_in_force.

(* ... `forever` blocks every later auto-refresh, whatever happens in between, until the option is set again ... *)
Theorem C15_forever_blocks_every_later_auto_refresh : forall (ops : list op) (v : allhold) (st : state) (holders cands : list N),
  (forall o, In o ops -> forall w, o <> SetAllHold w) ->
  auto_refresh_targets (allhold_after v (SetAllHold (Some None) :: ops)) (hrun st (SetAllHold (Some None) :: ops)) holders cands = [].
Proof. exact forever_blocks_every_later_auto_refresh. Qed.
Print Assumptions C15_forever_blocks_every_later_auto_refresh.

(* ... and in general (C15_held_not_refreshed extended): a snap goes on in a scheduled auto-refresh exactly when the
   system-wide hold is not in force and none of its own holds is effective *)
Theorem C15_auto_refresh_targets : forall (v : allhold) (st : state) (holders cands : list N) (s : N),
  In s (auto_refresh_targets v st holders cands) <->
  all_held v (st_now st) = false /\ In s cands /\ forall g, In g holders -> effective st 0 s g = false.
Proof. exact auto_refresh_targets_spec. Qed.
Print Assumptions C15_auto_refresh_targets.

(* what the code does under the system-wide hold outside the scheduler: SnapHolds reports every snap as held by system;
   a `snap refresh` of all snaps (refresh_targets at level 1) and of named snaps do not look at the option at all, nor do
   HeldSnaps, filterHeldSnaps and snapsToRefresh — C15_refresh_targets is stated without it *)
Theorem C15_snap_holds_under_system_wide_hold : forall (v : allhold) (st : state) (s : N),
  all_held v (st_now st) = true -> snap_holds_system v st s = true.
Proof. exact snap_holds_under_all_hold. Qed.
Print Assumptions C15_snap_holds_under_system_wide_hold.

(* gate-auto-refresh hook runs (snapctl refresh --hold / --proceed, then the hook handler's Done / Error): `Hook g snaps
   script fails` is expanded by hook_ops into the HoldRefresh / ProceedWithRefresh calls the code makes; hstep / hrun run
   histories that contain hook runs. *)
Theorem C15_hook_histories : forall (ops : list op) (st : state), hrun st ops = run st (expand_all ops).
Proof. exact hrun_expand. Qed.
Print Assumptions C15_hook_histories.

(* the 48 h bound over every history that also contains hook runs, refused-then-failed ones included *)
Theorem C15_other_48h_hooks : forall (lr0 : N -> Z) (now0 : Z) (ops : list op) (st : state) (ep : episodes),
  (forall s, lr0 s <= now0) -> forallb default_duration ops = true ->
  run_ep (init_state lr0 now0) no_episodes (expand_all ops) = (st, ep) ->
  st = hrun (init_state lr0 now0) ops /\
  forall level s g, g <> system -> g <> s -> effective st level s g = true ->
  exists t0, ep s g = Some t0 /\ st_now st <= t0 + forty_eight_h.
Proof. exact other_48h_hooks. Qed.
Print Assumptions C15_other_48h_hooks.

(* a hook that asks for --hold (granted or refused) and then exits, with success or failure, is exactly one HoldRefresh:
   a refused --hold followed by a failing hook does not hold again; and it never restarts an episode *)
Theorem C15_hook_hold_is_one_hold : forall (st : state) (g : N) (snaps : list N) (fails : bool),
  hstep st (Hook g snaps [CmdHold] fails) = step st (Hold 0 g 0 snaps).
Proof. exact hook_hold_is_one_hold. Qed.
Print Assumptions C15_hook_hold_is_one_hold.

Theorem C15_hook_hold_keeps_episode : forall (st : state) (g : N) (snaps : list N) (fails : bool) (s g' : N) (h h' : hold),
  st_gating st s g' = Some h -> st_gating (hstep st (Hook g snaps [CmdHold] fails)) s g' = Some h' -> h_first h' = h_first h.
Proof. exact hook_hold_keeps_episode. Qed.
Print Assumptions C15_hook_hold_keeps_episode.

(* a hook that says nothing: failing = hold with the defaults, succeeding = proceed *)
Theorem C15_hook_silent : forall (st : state) (g : N) (snaps : list N),
  hstep st (Hook g snaps [] true) = step st (Hold 0 g 0 snaps) /\ hstep st (Hook g snaps [] false) = step st (Proceed g []).
Proof. intros. split; [apply hook_silent_failing_holds | apply hook_silent_ok_proceeds]. Qed.
Print Assumptions C15_hook_silent.

(* `a hook run never restarts an episode` is false of the faithful model for hooks that go on after a refused --hold: a
   second --hold in the same run, or --proceed followed by a non-zero exit (the Error fallback holds). In both the snap
   is still held one hour past 48 h after the first hold. KNOWN_FINDINGS key hook-rehold-after-refusal; both histories
   are run on the implementation on every run. *)
Theorem C15_hook_rehold_refuted :
  (let st := hrun (init_state (fun _ => - h_ns) 0) rehold_script_witness in
   effective st 0 2 1 = true /\ 0 + forty_eight_h < st_now st) /\
  (let st := hrun (init_state (fun _ => - h_ns) 0) rehold_fallback_witness in
   effective st 0 2 1 = true /\ 0 + forty_eight_h < st_now st).
Proof. exact rehold_witnesses. Qed.
Print Assumptions C15_hook_rehold_refuted.

(* holds set by the administrator last until the requested time (forever = the largest duration) at the requested
   level and survive whatever gating snaps, refreshes and the clock do. `sys_until now t` is the exact end: now + 2^63-1 ns
   for forever, the requested time u when u <> now (inside the range of a Go duration), and now - 1 ns when u = now (an
   already expired hold). *)
Theorem C15_system_hold : forall (st : state) (level : N) (t : option Z) (snaps : list N) (s : N) (ops : list op),
  In s snaps -> forallb (sys_untouched s) ops = true ->
  let st2 := run (step st (SysHold level t snaps)) ops in
  forall lvl, effective st2 lvl s system = (lvl <=? level)%N && (st_now st2 <=? sys_until (st_now st) t).
Proof. exact system_hold. Qed.
Print Assumptions C15_system_hold.

(* in the words of the property: at every instant after the request (and at the instant of the request too, unless the
   requested time is that very instant) the hold is reported exactly while the requested time has not passed *)
Theorem C15_system_hold_until_requested_time :
  forall (st : state) (level : N) (u : Z) (snaps : list N) (s : N) (ops : list op),
  In s snaps -> min_int64 <= u - st_now st <= max_int64 -> forallb (sys_untouched s) ops = true ->
  let st2 := run (step st (SysHold level (Some u) snaps)) ops in
  u <> st_now st \/ st_now st < st_now st2 ->
  forall lvl, effective st2 lvl s system = (lvl <=? level)%N && (st_now st2 <=? u).
Proof. exact system_hold_until_requested_time. Qed.
Print Assumptions C15_system_hold_until_requested_time.

(* regression witness of the repaired defect (fixed: line in KNOWN_FINDINGS, /repo commit c2c6542): a system hold
   requested to end at exactly the current instant used to last forever; it is now expired at once. The same history
   is run on the implementation on every run. *)
Example C15_system_hold_until_now_expires :
  let st0 := init_state (fun _ => - h_ns) 0 in
  effective (run st0 [SysHold 0 (Some (st_now st0)) [1%N]]) 0 1 system = false /\
  effective (run st0 [SysHold 0 (Some (st_now st0)) [1%N]; Tick 1]) 0 1 system = false.
Proof. exact system_hold_until_now_expires. Qed.

(* why the quantifier is restricted to default durations: with explicit durations the 48 h bound is false *)
Theorem C15_explicit_duration_refuted : exists (lr0 : N -> Z) (now0 : Z) (ops : list op),
  (forall s, lr0 s <= now0) /\
  let '(st, ep) := run_ep (init_state lr0 now0) no_episodes ops in
  effective st 0 2 1 = true /\ ep 2%N 1%N = Some now0 /\ now0 + forty_eight_h < st_now st.
Proof.
  exists (fun _ => - h_ns), 0, explicit_witness. split; [intros _; discriminate | exact explicit_duration_witness].
Qed.
Print Assumptions C15_explicit_duration_refuted.

(* non-vacuity: a default-duration history in which the hold of snap 2 by snap 1 is reported, and one hour later
   (48 h after the first request) the same request is refused *)
Example C15_hypotheses_satisfiable :
  forallb default_duration default_witness = true /\
  effective (run (init_state (fun _ => - h_ns) 0) default_witness) 0 2 1 = true.
Proof. exact default_witness_effective. Qed.
Example C15_refusal_happens :
  op_result (run (init_state (fun _ => - h_ns) 0) (default_witness ++ [Tick (Z.to_N h_ns)])) (Hold 0 1 0 [1%N; 2%N]) = None.
Proof. exact default_witness_refused. Qed.
