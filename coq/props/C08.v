(* C08 — under construction *)
From Coq Require Import List NArith ZArith Bool.
Import ListNotations.
Require Import V.lib.Bytes V.models.Notices V.proofs.NoticesProofs.
Open Scope Z_scope.

Theorem C08_bump_strict : forall c l, l < bump c (Some l).
Proof. exact bump_gt. Qed.
Print Assumptions C08_bump_strict.
