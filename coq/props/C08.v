(* C08 — notices are delivered exactly once to polling clients and only to their owner.
   This file holds the property theorems only: statement, `exact <lemma>`, Print Assumptions.
   Model: models/Notices.v (overlord/state/notices.go AddNotice / NoticeFilter.matches / Notices function by function,
   the user / filter logic of daemon/api_notices.go getNotices, and the polling-client cursor protocol).

   Full statement of the property: a client that repeatedly asks for the notices after the last one it saw receives
   every new or repeated notice exactly once, in occurrence order, and nothing that neither occurred nor repeated
   since; a user-specific notice is returned only to that user (public ones to everyone); a waiting client is woken
   when a matching notice occurs.
   Proved below for every history (any number of additions by anybody, any clock readings including equal and
   decreasing ones, any repeat-after values, any filter, polls anywhere) whose additions use the server clock.
   The waiter clause is proved in its logical form over all histories (C08_waiters_never_miss, C08_waiter_enabled);
   that sync.Cond.Broadcast wakes the goroutines is Go runtime behaviour: modelled, not verified. Expiry (7 days, real wall clock) is not modelled. *)
From Coq Require Import List NArith ZArith Bool String Sorting.Sorted.
Import ListNotations.
Require Import V.lib.Bytes V.models.Notices V.proofs.NoticesProofs.
Require V.gen.NoticeTypes.
Open Scope Z_scope.

(* Histories (`list event`) contain additions, polls and RESTARTS (ERestart: the checkpoint payload written by
   State.MarshalJSON is read back by state.ReadState; the client keeps its cursor) anywhere; clock readings are arbitrary,
   in particular they need not advance across a restart. `persist_ok` (all notice fields written and restored, among them
   lastNoticeTimestamp) is evaluated on gen/NoticeTypes.v, regenerated from overlord/state/state.go on every run. *)

(* every new-or-repeated occurrence gets an occurrence time strictly greater than all earlier ones, whatever the
   clock reads (flag_stamps lists the last-repeated times handed out to the new-or-repeated additions, in order) *)
Theorem C08_timestamps_strict : forall l : list event,
  forallb ev_server_clock l = true -> StronglySorted Z.lt (flag_stamps empty_state l).
Proof. exact (timestamps_strict (eq_refl : persist_ok = true)). Qed.
Print Assumptions C08_timestamps_strict.

(* ... and strictly greater than the last-repeated time of every notice in the state *)
Theorem C08_new_stamp_after_all : forall (l : list event) a st' id,
  forallb ev_server_clock l = true -> a_time a = None ->
  add_notice (state_after empty_state l) a = Some (st', true, id) ->
  exists n', find (same_key (a_user a) (a_type a) (a_key a)) (s_notices st') = Some n' /\
             forall m, In m (s_notices (state_after empty_state l)) -> n_lr m < n_lr n'.
Proof. exact (new_stamp_after_all (eq_refl : persist_ok = true)). Qed.
Print Assumptions C08_new_stamp_after_all.

(* exactly once: in every history, every answer `out` to a poll of a client with filter f consists exactly of the
   notices that match f and had a new-or-repeated occurrence since the client's previous poll (`pend` is the list of
   the keys of those occurrences, rebuilt from empty at every poll): nothing else is returned (so a notice is never
   returned twice for one occurrence), nothing pending is missed, no notice appears twice in one answer, and the
   answer is ordered by last-repeated time *)
Theorem C08_exactly_once : forall (f : nfilter) (evs : list event) (out : list notice) (pend : list nkey),
  forallb ev_server_clock evs = true ->
  In (out, pend) (hrun f empty_state None [] evs) ->
  (forall n, In n out -> static_match f n = true /\ In (key_of n) pend) /\
  (forall k, In k pend -> key_static_match f k = true -> exists n, In n out /\ key_of n = k) /\
  NoDup (map key_of out) /\
  StronglySorted le_lr out.
Proof. exact (exactly_once (eq_refl : persist_ok = true)). Qed.
Print Assumptions C08_exactly_once.

(* occurrence order: the order inside an answer is strict (no two notices share a last-repeated time), and by
   C08_timestamps_strict last-repeated times increase with the order of the occurrences *)
Theorem C08_occurrence_order : forall (f : nfilter) (evs : list event) (out : list notice) (pend : list nkey),
  forallb ev_server_clock evs = true ->
  In (out, pend) (hrun f empty_state None [] evs) ->
  StronglySorted lt_lr out.
Proof. exact (answers_strictly_ordered (eq_refl : persist_ok = true)). Qed.
Print Assumptions C08_occurrence_order.

(* repeat-after: a re-occurrence is new-or-repeated exactly when repeat-after is zero or the (bumped) occurrence time
   is later than last-repeated + repeat-after; otherwise last-repeated is unchanged (so by C08_exactly_once it is not
   delivered again) *)
Theorem C08_repeat_after_rule : forall st a n st' flag id,
  a_time a = None -> add_notice st a = Some (st', flag, id) ->
  find (same_key (a_user a) (a_type a) (a_key a)) (s_notices st) = Some n ->
  let T := bump (a_clock a) (s_last_ts st) in
  flag = ((a_ra a =? 0) || (T >? n_lr n + a_ra a)) /\
  exists n', find (same_key (a_user a) (a_type a) (a_key a)) (s_notices st') = Some n' /\
             n_lr n' = (if flag then T else n_lr n) /\ n_occ n' = (n_occ n + 1)%N /\ n_id n' = n_id n /\ id = n_id n.
Proof. exact repeat_after_rule. Qed.
Print Assumptions C08_repeat_after_rule.

Theorem C08_repeat_after_suppressed : forall st a n st' flag id,
  a_time a = None -> add_notice st a = Some (st', flag, id) ->
  find (same_key (a_user a) (a_type a) (a_key a)) (s_notices st) = Some n ->
  a_ra a <> 0 -> bump (a_clock a) (s_last_ts st) <= n_lr n + a_ra a ->
  flag = false /\
  exists n', find (same_key (a_user a) (a_type a) (a_key a)) (s_notices st') = Some n' /\
             n_lr n' = n_lr n /\ n_occ n' = (n_occ n + 1)%N.
Proof. exact repeat_after_suppressed. Qed.
Print Assumptions C08_repeat_after_suppressed.

(* owner only: State.Notices with a user filter returns only public notices and that user's *)
Theorem C08_owner_only_state : forall st f u n,
  f_user f = Some u -> In n (notices st f) -> n_user n = None \/ n_user n = Some u.
Proof. exact notices_owner_only. Qed.
Print Assumptions C08_owner_only_state.

(* ... and GET /v2/notices from a non-root uid: its effective user filter is its own uid (it cannot name another
   user or all users), so it only ever receives public notices and its own; without a uid it is refused *)
Theorem C08_owner_only_api : forall st q uid n,
  q_uid q = Some uid -> uid <> 0%N -> In n (snd (api_get st q)) -> n_user n = None \/ n_user n = Some uid.
Proof. exact api_owner_only. Qed.
Print Assumptions C08_owner_only_api.

Theorem C08_api_filter_nonroot : forall q uid f,
  q_uid q = Some uid -> uid <> 0%N -> api_filter q = ApiFilter f ->
  f_user f = Some uid /\ q_user_id q = [] /\ q_users q = [].
Proof. exact api_filter_nonroot. Qed.
Print Assumptions C08_api_filter_nonroot.

Theorem C08_api_no_uid_forbidden : forall q, q_uid q = None -> api_filter q = ApiForbidden.
Proof. exact api_no_uid_forbidden. Qed.
Print Assumptions C08_api_no_uid_forbidden.

(* ---- waiting clients (State.WaitNotices). Histories (`list wevent`): additions with arbitrary clock readings,
   WaitNotices calls with arbitrary filters, contexts timing out / being cancelled, snapd restarts, in any order.
   The logical half of `a waiting client is woken when a matching notice occurs` is proved in full over all of them.
   Modelled, not verified (Go runtime): that noticeCond.Broadcast() really makes every blocked call re-evaluate its
   condition — that is what `recheck` in the model stands for. *)

(* in every reachable state no call is blocked while a notice matching its filter exists ... *)
Theorem C08_waiters_never_miss : forall (evs : list wevent) o s,
  forallb wev_server_clock evs = true -> wrun empty_wsys evs = (o, s) ->
  forall id f, In (id, f) (w_blocked s) -> wait_enabled (w_state s) f = false.
Proof. exact (waiters_never_miss (eq_refl : persist_ok = true)). Qed.
Print Assumptions C08_waiters_never_miss.

(* ... whenever an addition makes a notice match the filter of a blocked call (last-repeated after its After time,
   right user / type / key), the call returns during that addition with what Notices(filter) gives then ... *)
Theorem C08_waiter_enabled : forall (evs : list wevent) o s a o1 s1 id f,
  forallb wev_server_clock evs = true -> wrun empty_wsys evs = (o, s) -> a_time a = None ->
  wstep s (WAdd a) = (o1, s1) -> In (id, f) (w_blocked s) -> wait_enabled (w_state s1) f = true ->
  In (WReturned id f (notices (w_state s1) f)) o1 /\ ~ In (id, f) (w_blocked s1).
Proof. exact (waiter_returns_on_match (eq_refl : persist_ok = true)). Qed.
Print Assumptions C08_waiter_enabled.

(* ... what a call returns is never empty and consists of notices matching its filter; a call with a matching notice
   already there does not block *)
Theorem C08_wait_returns_sound : forall evs s o s' id f l,
  wrun s evs = (o, s') -> In (WReturned id f l) o -> l <> [] /\ forall n, In n l -> matches f n = true.
Proof. exact wait_returns_sound. Qed.
Print Assumptions C08_wait_returns_sound.

Theorem C08_wait_returns_at_once : forall s id f,
  wait_enabled (w_state s) f = true -> wstep s (WWait id f) = ([WReturned id f (notices (w_state s) f)], s).
Proof. exact wait_returns_at_once. Qed.
Print Assumptions C08_wait_returns_at_once.

(* the two single-step facts behind it: a new-or-repeated addition (exactly when AddNotice calls Broadcast) whose notice
   matches makes the condition true; an addition that is not new-or-repeated (no Broadcast) never does *)
Theorem C08_waiter_enabled_step : forall st a st' id f n',
  good st -> a_time a = None -> add_notice st a = Some (st', true, id) ->
  find (same_key (a_user a) (a_type a) (a_key a)) (s_notices st') = Some n' -> matches f n' = true ->
  wait_enabled st' f = true.
Proof. exact waiter_enabled. Qed.
Print Assumptions C08_waiter_enabled_step.

Theorem C08_no_missed_wakeup : forall st a st' id f,
  good st -> a_time a = None -> add_notice st a = Some (st', false, id) ->
  wait_enabled st f = false -> wait_enabled st' f = false.
Proof. exact no_missed_wakeup. Qed.
Print Assumptions C08_no_missed_wakeup.

(* why the server-clock hypothesis is there: with an explicit AddNoticeOptions.Time (no production call site sets it;
   checked by the translator noticetime on every run) a pending matching notice can be stamped before the client's
   cursor and is then never delivered *)
Theorem C08_explicit_time_refuted :
  exists f evs out pend k,
    In (out, pend) (hrun f empty_state None [] evs) /\ In k pend /\ key_static_match f k = true /\
    ~ exists n, In n out /\ key_of n = k.
Proof. exact explicit_time_refuted. Qed.
Print Assumptions C08_explicit_time_refuted.

(* ... and the guard on the real code, re-checked on every run: gen/NoticeTypes.v (translator noticetypes) lists every
   place outside tests that sets AddNoticeOptions.Time; there is none *)
Theorem C08_no_explicit_time_call_site : NoticeTypes.explicit_time_sites = [].
Proof. reflexivity. Qed.
Print Assumptions C08_no_explicit_time_call_site.

(* the restart case is not vacuous and the restored floor is what makes it work: with a reload that forgets
   lastNoticeTimestamp, the notice added after the restart at the same clock tick is stamped at or before the client's
   cursor and never delivered; with the real reload it is delivered *)
Theorem C08_forgetful_restart_loses_notice :
  map (fun r => (map n_id (fst r), List.length (snd r))) (hrun_forgetful no_filter empty_state None [] lost_after_restart_evs)
    = [([1%N], 2%nat); ([], 1%nat)] /\
  map (fun r => (map n_id (fst r), List.length (snd r))) (hrun no_filter empty_state None [] lost_after_restart_evs)
    = [([1%N], 2%nat); ([2%N], 1%nat)].
Proof. exact forgetful_restart_loses_notice. Qed.
Print Assumptions C08_forgetful_restart_loses_notice.

Theorem C08_restart_keeps_state : forall st, restart st = st.
Proof. exact (restart_id (eq_refl : persist_ok = true)). Qed.
Print Assumptions C08_restart_keeps_state.

(* ---- non-vacuity: a history with same-tick and backwards clocks, a suppressed repeat and two polls *)
Example C08_history : list event :=
  [EAdd (mkA 10 None (ty 1) (ky 0) 0 None); EAdd (mkA 10 (Some 1000%N) (ty 0) (ky 1) 0 None); EPoll;
   ERestart; EAdd (mkA 3 None (ty 1) (ky 0) 100 None); EAdd (mkA 3 (Some 1000%N) (ty 0) (ky 1) 0 None); EPoll].
Example C08_history_server_clock : forallb ev_server_clock C08_history = true.
Proof. reflexivity. Qed.
Example C08_history_answers :
  map (fun r => (map n_id (fst r), map n_lr (fst r), List.length (snd r))) (hrun no_filter empty_state None [] C08_history)
  = [([1%N; 2%N], [10; 11], 2%nat); ([2%N], [13], 1%nat)].
Proof. vm_compute. reflexivity. Qed.
Example C08_stamps_example :
  flag_stamps empty_state [EAdd (mkA 10 None (ty 1) (ky 0) 0 None); EAdd (mkA 10 None (ty 1) (ky 1) 0 None); ERestart;
                           EAdd (mkA 3 None (ty 1) (ky 0) 0 None)]
  = [10; 11; 12].
Proof. vm_compute. reflexivity. Qed.
Example C08_api_nonroot_example :
  api_filter (mkQ (Some 1000%N) [] [] [bs "warning,bogus"] [] None) = ApiFilter (mkF (Some 1000%N) [ty 1] [] None).
Proof. vm_compute. reflexivity. Qed.
Example C08_api_nonroot_forbidden_example :
  api_filter (mkQ (Some 1000%N) [bs "1000"] [] [] [] None) = ApiForbidden.
Proof. vm_compute. reflexivity. Qed.
Example C08_waiter_history :
  (* a call blocks (nothing matches), an unrelated notice does not wake it, a suppressed repeat does not, a matching
     notice makes it return; a second call blocks and times out; a restart drops blocked calls *)
  let f := mkF (Some 1000%N) [ty 1] [] (Some 10) in
  let evs := [WAdd (mkA 10 (Some 1000%N) (ty 1) (ky 0) 0 None);            (* stamped 10: not after 10 *)
              WWait 1%N f;
              WAdd (mkA 10 (Some 1001%N) (ty 1) (ky 0) 0 None);            (* other user *)
              WAdd (mkA 10 (Some 1000%N) (ty 1) (ky 0) 100 None);          (* repeat suppressed *)
              WAdd (mkA 5 (Some 1000%N) (ty 1) (ky 0) 0 None);             (* repeated, stamped 13 *)
              WWait 2%N (mkF None [ty 0] [] None); WTimeout 2%N;
              WWait 3%N (mkF None [ty 0] [] None); WRestart] in
  map (fun x => match x with WReturned id _ l => (id, map n_lr l) | WCancelled id => (id, []) end) (fst (wrun empty_wsys evs))
    = [(1%N, [13]); (2%N, [])] /\
  w_blocked (snd (wrun empty_wsys evs)) = [].
Proof. vm_compute. auto. Qed.
