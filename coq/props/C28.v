(* C28 — mount namespace updates transform the current mounts into the desired ones.
   This file holds the property theorems only: statement, `exact <lemma>`, Print Assumptions.
   Models: models/MountEntry.v (osutil mount entry codec) and models/MountNS.v (cmd/snap-update-ns neededChanges). *)
From Coq Require Import List NArith ZArith Bool String Permutation.
Import ListNotations.
Require Import V.lib.Bytes V.models.MountEntry V.proofs.MountEntryProofs V.models.MountNS V.proofs.MountNSProofs.

(* ---------------------------------------------------------------- mount entries written to a profile read back unchanged *)

(* Unescape(Escape(s)) = s for every byte string *)
Theorem C28_unescape_escape : forall s : bytes, unescape (escape s) = s.
Proof. exact unescape_escape. Qed.
Print Assumptions C28_unescape_escape.

(* ParseMountEntry(e.String()) = e for every entry under the property's guard: name, dir and type non-empty and not
   starting with #; at least one option, no option contains a comma, the joined option text is non-empty and does not
   start with #; the two numbers fit Go's int. Fields may contain any bytes, including white space and backslashes. *)
Theorem C28_codec_roundtrip : forall e : entry, guard e = true -> parse_entry (entry_string e) = Some e.
Proof. exact codec_roundtrip. Qed.
Print Assumptions C28_codec_roundtrip.

(* each guard is needed: dropping it makes the statement false on the model (each witness is also run against the
   real codec by the driver's edge list on every check) *)
Theorem C28_codec_empty_field_refuted : exists e, field_ok (e_name e) = false /\ parse_entry (entry_string e) <> Some e.
Proof. exact refuted_empty_name. Qed.
Print Assumptions C28_codec_empty_field_refuted.
Theorem C28_codec_hash_field_refuted : exists e, field_ok (e_name e) = false /\ parse_entry (entry_string e) <> Some e.
Proof. exact refuted_hash_name. Qed.
Print Assumptions C28_codec_hash_field_refuted.
Theorem C28_codec_no_options_refuted : exists e, e_opts e = [] /\ parse_entry (entry_string e) <> Some e.
Proof. exact refuted_no_options. Qed.
Print Assumptions C28_codec_no_options_refuted.
Theorem C28_codec_empty_option_refuted : exists e, join 44 (e_opts e) = [] /\ parse_entry (entry_string e) <> Some e.
Proof. exact refuted_empty_option. Qed.
Print Assumptions C28_codec_empty_option_refuted.
Theorem C28_codec_comma_option_refuted : exists e, forallb no_comma (e_opts e) = false /\ parse_entry (entry_string e) <> Some e.
Proof. exact refuted_comma_option. Qed.
Print Assumptions C28_codec_comma_option_refuted.
Theorem C28_codec_hash_option_refuted : exists e, starts_hash (join 44 (e_opts e)) = true /\ parse_entry (entry_string e) <> Some e.
Proof. exact refuted_hash_option. Qed.
Print Assumptions C28_codec_hash_option_refuted.

(* what the code itself holds after reading a profile: every entry ParseMountEntry returns from a line with at least four
   fields meets the guard - whatever bytes the line had (escapes, x-snapd.* options with = and spaces, # inside fields) -
   and is therefore written back and read again unchanged *)
Theorem C28_parsed_meets_guard : forall s e, parse_entry s = Some e -> e_opts e <> [] -> guard e = true.
Proof. exact parsed_meets_guard. Qed.
Print Assumptions C28_parsed_meets_guard.

Theorem C28_loaded_entry_roundtrip : forall s e,
  parse_entry s = Some e -> e_opts e <> [] -> parse_entry (entry_string e) = Some e.
Proof. exact loaded_entry_roundtrip. Qed.
Print Assumptions C28_loaded_entry_roundtrip.

(* ... the two shapes the code can hold that do not read back: a three field line (no options -> defaults), and the
   bind entries planWritableMimic records with an empty type (written and read back as none). Both are in the driver's
   edge list and run on the real codec every time; since the change driver saves and reloads the current profile as
   text between updates, the second one is also exercised through executeMountProfileUpdate histories. *)
Theorem C28_three_field_line_refuted : exists s e, parse_entry s = Some e /\ parse_entry (entry_string e) <> Some e.
Proof. exact three_field_line_refuted. Qed.
Print Assumptions C28_three_field_line_refuted.

Theorem C28_empty_type_refuted :
  exists e, e_type e = [] /\ parse_entry (entry_string e) = Some (mkEntry (e_name e) (e_dir e) none_lit (e_opts e) (e_freq e) (e_pass e)).
Proof. exact empty_type_refuted. Qed.
Print Assumptions C28_empty_type_refuted.

(* whole profiles: WriteTo then ReadMountProfile gives the same entry list, provided every entry is guarded and no
   line begins with a white-space rune that strings.TrimSpace removes but escape leaves alone (\v \f \r U+0085 U+00A0
   U+1680 U+2000-200A U+2028 U+2029 U+202F U+205F U+3000) *)
Theorem C28_profile_roundtrip : forall es : list entry,
  forallb profile_guard es = true -> load_profile (profile_text es) = Some es.
Proof. exact profile_roundtrip. Qed.
Print Assumptions C28_profile_roundtrip.

(* ... and without that extra hypothesis the statement is false: a name beginning with a carriage return loses it
   (KNOWN_FINDINGS key profile-name-leading-space-rune; replayed on the implementation on every run) *)
Theorem C28_profile_roundtrip_refuted : exists e, guard e = true /\ load_profile (profile_text [e]) <> Some [e].
Proof. exact profile_roundtrip_refuted. Qed.
Print Assumptions C28_profile_roundtrip_refuted.

(* non-vacuity: the guards are satisfiable, also by entries full of white space and backslashes *)
Example C28_guard_example :
  profile_guard (mkEntry (bs "/my dir/x\y"%string) (bs "/tmp/a b"%string) (bs "ext 4"%string)
                          [bs "x-snapd.symlink=/a b"%string; bs "ro"%string] (-1) 7) = true.
Proof. reflexivity. Qed.

(* ---------------------------------------------------------------- the planned changes (cmd/snap-update-ns neededChanges)

   Notation used below, for arbitrary profiles `current`, `desired` and an arbitrary file system oracle `fs`:
     cur = map clean_entry current                      the current profile with cleaned mount points
     des = isort less_origin (map clean_entry desired)  the desired profile, cleaned and sorted as the code does
     ids = map x_entry_id des                           the identifiers of the desired entries
     reusable des ids c   c is a rootfs entry, or a synthetic entry whose needed-by id is desired, or identical to the
                          desired entry for its mount point
     beneath c p          c's directory starts with p's directory plus a slash
     is_helper ids c      c is a rootfs entry or a synthetic entry whose needed-by id is desired *)

(* Applying the computed change list to the current mount table succeeds step by step (every Keep finds its entry,
   every Unmount removes exactly the entry it was made from, Mounts append), and the table afterwards is - as a
   multiset, i.e. with multiplicities - the desired entries plus `extra`, where every extra entry is an entry of the
   current profile that was kept and is a helper still supporting a desired entry (or the rootfs).
   Hypotheses: pairwise different cleaned desired mount points; pairwise different (dir, type) in the current profile;
   no desired entry on the (dir, type) of a DIFFERENT helper entry of the current profile. *)
Theorem C28_result_profile : forall fs current desired,
  let cur := map clean_entry current in
  let des := isort less_origin (map clean_entry desired) in
  let ids := map x_entry_id des in
  NoDup (map e_dir des) -> NoDup (map id_of cur) ->
  (forall d c, In d des -> In c cur -> is_helper ids c = true -> id_of c = id_of d -> c = d) ->
  exists tbl extra,
    apply_changes cur (needed_changes fs current desired) = Some tbl /\
    Permutation tbl (des ++ extra) /\
    (forall x, In x extra -> In x cur /\ is_helper ids x = true /\ In (Keep, x) (needed_changes fs current desired)).
Proof. exact result_profile. Qed.
Print Assumptions C28_result_profile.

(* ... and the third hypothesis cannot be dropped: reuse is keyed by (dir, type) only, so a desired tmpfs on the
   directory of a still-needed writable mimic (a synthetic tmpfs) is neither mounted nor kept. Reachable on the real
   code through update histories (KNOWN_FINDINGS key desired-shadowed-by-helper; the scripted witness history is in
   the driver and is replayed on the implementation on every run). *)
Theorem C28_result_profile_shadowed_refuted :
  exists fs current desired d,
    NoDup (map e_dir (isort less_origin (map clean_entry desired))) /\
    NoDup (map id_of (map clean_entry current)) /\
    In d (isort less_origin (map clean_entry desired)) /\
    ~ In (Mount, d) (needed_changes fs current desired) /\ ~ In (Keep, d) (needed_changes fs current desired).
Proof. exact result_profile_shadowed_refuted. Qed.
Print Assumptions C28_result_profile_shadowed_refuted.

(* the closed form of the table, and supporting facts that need fewer hypotheses *)
Theorem C28_apply_changes : forall fs current desired,
  let cur := map clean_entry current in
  let des := isort less_origin (map clean_entry desired) in
  let reuse := reuse_of current desired in
  NoDup (map id_of cur) ->
  apply_changes cur (needed_changes fs current desired) =
  Some (filter (fun e => id_mem (id_of e) reuse) cur ++
        mount_order fs (filter (fun e => negb (id_mem (id_of e) reuse)) des)).
Proof. exact apply_needed_changes. Qed.
Print Assumptions C28_apply_changes.

Theorem C28_mount_list_is_permutation : forall fs dnr, Permutation (mount_order fs dnr) dnr.
Proof. exact mount_order_perm. Qed.
Print Assumptions C28_mount_list_is_permutation.

Theorem C28_mounted_are_desired : forall fs current desired x,
  In (Mount, x) (needed_changes fs current desired) -> In x (isort less_origin (map clean_entry desired)).
Proof. exact mounted_are_desired. Qed.
Print Assumptions C28_mounted_are_desired.

Theorem C28_kept_are_wanted : forall fs current desired,
  let cur := map clean_entry current in
  let des := isort less_origin (map clean_entry desired) in
  let ids := map x_entry_id des in
  NoDup (map id_of cur) ->
  forall x, In (Keep, x) (needed_changes fs current desired) -> In x cur /\ (In x des \/ is_helper ids x = true).
Proof. exact kept_are_wanted. Qed.
Print Assumptions C28_kept_are_wanted.

(* every unchanged entry (more generally: every reusable one) that is not beneath a changed one is kept in place, not
   remounted; an entry identical to a desired one is reusable when the desired mount points are distinct *)
Theorem C28_unchanged_kept : forall fs current desired c,
  let cur := map clean_entry current in
  let des := isort less_origin (map clean_entry desired) in
  let ids := map x_entry_id des in
  In c cur -> reusable des ids c = true ->
  (forall p, In p cur -> reusable des ids p = false -> beneath c p = false) ->
  In (Keep, c) (needed_changes fs current desired).
Proof. exact unchanged_kept. Qed.
Print Assumptions C28_unchanged_kept.

Theorem C28_identical_is_reusable : forall des ids c, NoDup (map e_dir des) -> In c des -> reusable des ids c = true.
Proof. exact identical_reusable. Qed.
Print Assumptions C28_identical_is_reusable.

(* the other half: an entry beneath an entry that is not kept (i.e. is unmounted, and mounted again if still desired)
   is not kept either - it would go away with its parent and never be mounted again. From the skipDir scan over the
   sorted current entries (everything between an entry and an entry beneath it, in the trailing-slash order, is
   beneath it too). Hypotheses: no two current entries share a sort key; the two entries are on the same side of the
   overname boundary (byOvernameAndMountPoint scans overname entries first). *)
Theorem C28_no_keep_beneath_unmounted : forall fs current desired p c,
  let cur := map clean_entry current in
  NoDup (map sort_key cur) -> In p cur -> In c cur ->
  is_overname p = is_overname c -> beneath c p = true -> sort_key p <> sort_key c ->
  ~ In (Keep, p) (needed_changes fs current desired) ->
  ~ In (Keep, c) (needed_changes fs current desired).
Proof. exact no_keep_beneath_unmounted. Qed.
Print Assumptions C28_no_keep_beneath_unmounted.

(* ... and across that boundary it is false (KNOWN_FINDINGS key keep-beneath-unmounted-overname; scripted histories
   for all origin pairs are in the driver and run on the implementation every time) *)
Theorem C28_no_keep_beneath_unmounted_overname_refuted :
  exists fs current desired p c,
    NoDup (map sort_key (map clean_entry current)) /\ In p (map clean_entry current) /\ In c (map clean_entry current) /\
    beneath c p = true /\ sort_key p <> sort_key c /\
    ~ In (Keep, p) (needed_changes fs current desired) /\ In (Keep, c) (needed_changes fs current desired).
Proof. exact no_keep_beneath_unmounted_overname_refuted. Qed.
Print Assumptions C28_no_keep_beneath_unmounted_overname_refuted.

(* unmounts: exactly the not reused current entries, in the exact reverse of the current profile's order; so of two
   unmounted entries the one recorded later (mounted later) goes first - children before parents *)
Theorem C28_unmount_order : forall fs current desired,
  unmounts_of (needed_changes fs current desired) =
  map detach_form (rev (filter (fun e => negb (id_mem (id_of e) (reuse_of current desired))) (map clean_entry current))).
Proof. exact unmounts_reverse_profile. Qed.
Print Assumptions C28_unmount_order.

Theorem C28_unmount_later_first : forall fs current desired p c,
  let reuse := reuse_of current desired in
  precedes p c (map clean_entry current) ->
  id_mem (id_of p) reuse = false -> id_mem (id_of c) reuse = false ->
  precedes (detach_form c) (detach_form p) (unmounts_of (needed_changes fs current desired)).
Proof. exact unmount_later_first. Qed.
Print Assumptions C28_unmount_later_first.
(* what is saved as the new current profile when every change is performed: the kept entries in REVERSE of their order
   in the current profile, then the mounted entries *)
Theorem C28_recorded_profile : forall fs current desired,
  let cur := map clean_entry current in
  let des := isort less_origin (map clean_entry desired) in
  let reuse := reuse_of current desired in
  recorded (needed_changes fs current desired) =
  rev (filter (fun e => id_mem (id_of e) reuse) cur) ++
  mount_order fs (filter (fun e => negb (id_mem (id_of e) reuse)) des).
Proof. exact recorded_needed_changes. Qed.
Print Assumptions C28_recorded_profile.

(* ... which is why, over whole histories, the sentence [never unmount an entry before the entries mounted beneath it
   after it] is false (KNOWN_FINDINGS key unmount-order-after-keep, notes/C28-fix.diff; monitored by the order driver
   with the true mount ages): mount /a and /a/b, keep both, remove both - /a goes first. C28_unmount_order and
   C28_unmount_later_first above are the guarded form: they hold for every current profile, read as the mount log. *)
Theorem C28_unmount_order_history_refuted :
  exists fs a ab,
    let c1 := recorded (needed_changes fs [] [a; ab]) in
    let c2 := recorded (needed_changes fs c1 [a; ab]) in
    beneath ab a = true /\ c1 = [a; ab] /\ c2 = [ab; a] /\
    unmounts_of (needed_changes fs c2 []) = [detach_form a; detach_form ab].
Proof. exact unmount_order_history_refuted. Qed.
Print Assumptions C28_unmount_order_history_refuted.

(* mounts: among the Mount changes an entry comes before every entry of the same origin whose directory lies beneath
   its own (parents before children). Hypotheses, all about the pair: the two trailing-slash sort keys differ (true for
   distinct cleaned mount points); if the child's target exists in the form needed (or it is an overname entry) then so
   does the parent's; the writable-mimic roots of the two are equal or ordered like strings. The last hypothesis is what
   findFirstRootDirectoryThatExists gives on an oracle closed under ancestors (the child's root is the parent's root or
   lies beneath it, and a proper path prefix is the smaller string); that implication is NOT proved here (it needs
   filepath.Dir/Clean algebra), so it stays a hypothesis; the monitor evaluates the conclusion on every observed list.
   The proof uses: insertion sort yields a sorted permutation for any strict weak order; byOriginAndMountPoint.Less is
   rank (overname < other < layout) then key; the lexicographic lemma (C28_mount_order_key) that makes dir ++ "/" of a
   directory smaller than that of everything beneath it. *)
Theorem C28_mount_order : forall fs current desired m1 m2,
  let nc := needed_changes fs current desired in
  In (Mount, m1) nc -> In (Mount, m2) nc ->
  x_origin m1 = x_origin m2 -> beneath m2 m1 = true -> with_slash (e_dir m1) <> with_slash (e_dir m2) ->
  (is_overname m2 || exists_as fs m2 = true -> is_overname m1 || exists_as fs m1 = true) ->
  (mimic_dir fs m1 = mimic_dir fs m2 \/ blt (mimic_dir fs m1) (mimic_dir fs m2) = true) ->
  precedes (Mount, m1) (Mount, m2) nc.
Proof. exact mount_parent_first. Qed.
Print Assumptions C28_mount_order.

(* the mimic-root hypothesis is needed only when both entries need a writable mimic: when the targets exist (the usual
   case after the first update) parents come first without it *)
Theorem C28_mount_order_existing_targets : forall fs current desired m1 m2,
  let nc := needed_changes fs current desired in
  In (Mount, m1) nc -> In (Mount, m2) nc ->
  x_origin m1 = x_origin m2 -> beneath m2 m1 = true -> with_slash (e_dir m1) <> with_slash (e_dir m2) ->
  is_overname m2 || exists_as fs m2 = true -> is_overname m1 || exists_as fs m1 = true ->
  precedes (Mount, m1) (Mount, m2) nc.
Proof. exact mount_parent_first_existing. Qed.
Print Assumptions C28_mount_order_existing_targets.

(* the sort really sorts: in the output of the insertion sort a strictly smaller element comes first *)
Theorem C28_sort_orders : forall l a b, In a l -> In b l -> less_origin a b = true -> precedes a b (isort less_origin l).
Proof. exact (isort_precedes less_origin less_origin_asym less_origin_negtrans). Qed.
Print Assumptions C28_sort_orders.

Theorem C28_mount_order_key : forall c p,
  beneath c p = true -> with_slash (e_dir p) <> with_slash (e_dir c) -> dir_lt p c = true.
Proof. exact beneath_dir_lt. Qed.
Print Assumptions C28_mount_order_key.

Theorem C28_mount_order_independent_first : forall fs current desired m1 m2,
  In (Mount, m1) (needed_changes fs current desired) -> In (Mount, m2) (needed_changes fs current desired) ->
  is_overname m1 || exists_as fs m1 = true -> is_overname m2 || exists_as fs m2 = false ->
  precedes (Mount, m1) (Mount, m2) (needed_changes fs current desired).
Proof. exact independent_before_mimic. Qed.
Print Assumptions C28_mount_order_independent_first.

(* the mount list neither loses nor invents entries *)
Theorem C28_mount_list_is_rearrangement : forall fs dnr x, In x (mount_order fs dnr) <-> In x dnr.
Proof. exact mount_order_In. Qed.
Print Assumptions C28_mount_list_is_rearrangement.

(* non-vacuity: a small update with a kept parent, a changed child and a new entry *)
Example C28_changes_example :
  let a := mkEntry (bs "/s/a"%string) (bs "/t/a"%string) (bs "none"%string) [bs "bind"%string] 0 0 in
  let b := mkEntry (bs "/s/b"%string) (bs "/t/a/b"%string) (bs "none"%string) [bs "bind"%string] 0 0 in
  let b' := mkEntry (bs "/s/b2"%string) (bs "/t/a/b"%string) (bs "none"%string) [bs "bind"%string] 0 0 in
  let fs := mkFs [bs "/"%string; bs "/t"%string; bs "/t/a"%string; bs "/t/a/b"%string] [] [] in
  needed_changes fs [a; b] [b'; a] =
    [(Unmount, set_opts b [bs "bind"%string; bs "x-snapd.detach"%string]); (Keep, a); (Mount, b')].
Proof. vm_compute. reflexivity. Qed.

Local Open Scope string_scope.

(* the hypotheses of the planning theorems hold together on an update with a mimic helper, a kept parent, a changed child,
   a new layout needing a mimic and an overname entry; the conclusions are visible in the computed list *)
Example C28_hypotheses_example :
  let e := fun (n d t : string) (o : list string) => mkEntry (bs n) (bs d) (bs t) (map bs o) 0 0 in
  let mimic := e "tmpfs" "/t/m" "tmpfs" ["x-snapd.synthetic"; "x-snapd.needed-by=/t/m/x"]%string in
  let mx := e "/s/x" "/t/m/x" "none" ["bind"; "x-snapd.origin=layout"]%string in
  let a := e "/s/a" "/t/a" "none" ["bind"]%string in
  let b := e "/s/b" "/t/a/b" "none" ["bind"]%string in
  let b' := e "/s/b2" "/t/a/b" "none" ["bind"]%string in
  let n := e "/s/n" "/t/q/n" "none" ["bind"; "x-snapd.origin=layout"]%string in
  let o := e "/s/o" "/t/o" "none" ["rbind"; "x-snapd.origin=overname"]%string in
  let fs := mkFs (map bs ["/"; "/t"; "/t/a"; "/t/a/b"; "/t/m"; "/t/m/x"; "/t/o"]%string) [] [] in
  let cur := [mimic; mx; a; b] in
  let des := [n; b'; a; mx; o] in
  distinct_b (map e_dir (map clean_entry des)) = true /\
  distinct_b (map sort_key (map clean_entry cur)) = true /\
  forallb (fun d => negb (shadowed (map x_entry_id des) cur d)) des = true /\
  needed_changes fs cur des =
    [(Unmount, set_opts b (map bs ["bind"; "x-snapd.detach"]%string)); (Keep, a); (Keep, mx); (Keep, mimic);
     (Mount, o); (Mount, b'); (Mount, n)] /\
  apply_changes cur (needed_changes fs cur des) = Some [mimic; mx; a; o; b'; n].
Proof. vm_compute. repeat split; reflexivity. Qed.

(* lines full of escapes, x-snapd options and a trailing comment parse to guarded entries and survive the round trip *)
Example C28_loaded_example :
  let line := bs "/my\040dir/x\134y /tmp/a\011b none bind,x-snapd.symlink=/a\040b,x-snapd.origin=layout 0 0 # note"%string in
  match parse_entry line with
  | Some e => guard e = true /\ parse_entry (entry_string e) = Some e /\
              e_name e = bs "/my dir/x\y"%string /\ e_opts e = map bs ["bind"; "x-snapd.symlink=/a b"; "x-snapd.origin=layout"]%string
  | None => False
  end.
Proof. vm_compute. repeat split; reflexivity. Qed.
