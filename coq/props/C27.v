(* C27 — generated desktop files cannot launch anything but the snap's own apps.
   This file holds the property theorems only. Model: models/Desktop.v (wrappers/desktop.go function by function; the
   alternatives of isValidDesktopFileLine come from gen/DesktopRegexes.v, regenerated on every run). All statements are
   for EVERY input: any snap description i, any installed file name df, any list of input lines. *)
From Coq Require Import List NArith Bool.
Import ListNotations.
Require Import V.lib.Bytes V.gen.DesktopRegexes V.models.Desktop V.proofs.DesktopProofs.
Open Scope N_scope.

(* every line of the sanitized file is the inserted X-SnapInstanceName line, or the ${SNAP}-substitution of a line b that
   the loop body produced from an ALLOWLISTED input line (isValidDesktopFileLine accepted it): either that input line
   itself (not an Exec= line), or an Exec= line of the fixed form below, or a rewritten Icon= line *)
Theorem C27_output_lines : forall (i : dinfo) (df : bytes) (lines : list bytes) (l : bytes),
  In l (sanitize_lines i df lines) ->
  l = xsnap_line i \/
  exists line b, In line lines /\ process_line i df line = Some b /\ l = subst_snap (d_mount i) b /\
    valid_line line = true /\
    ((b = line /\ has_prefix lit_exec line = false) \/
     (has_prefix lit_exec line = true /\ exec_form i df b) \/
     (has_prefix lit_exec line = false /\ has_prefix lit_icon line = true /\ has_prefix lit_icon b = true)).
Proof. exact output_lines. Qed.
Print Assumptions C27_output_lines.

(* and it is allowlisted AS WRITTEN: every line of the sanitized file — after the Exec/Icon rewriting and after the ${SNAP}
   substitution — is accepted by the allowlist expression of isValidDesktopFileLine (blank, comment, one of the three
   group headers, one of the allowlisted keys incl. the localized forms), or is the inserted X-SnapInstanceName line.
   Hypotheses: only that the strings are byte strings (every element <= 255), which holds for anything read from a file. *)
Theorem C27_output_lines_allowlisted : forall (i : dinfo) (df : bytes) (lines : list bytes) (l : bytes),
  info_ok i = true -> bytes_ok df = true -> Forall (fun x => bytes_ok x = true) lines ->
  In l (sanitize_lines i df lines) -> valid_line l = true \/ l = xsnap_line i.
Proof. exact output_lines_allowlisted. Qed.
Print Assumptions C27_output_lines_allowlisted.

(* every Exec= line the loop body lets through is  Exec=env BAMF_DESKTOP_FILE_HINT=<df> <wrapper of one of the snap's apps>
   followed by nothing or by a space and arguments *)
Theorem C27_exec_form : forall (i : dinfo) (df line b : bytes),
  process_line i df line = Some b -> has_prefix lit_exec b = true ->
  exists app rest, In app (d_apps i) /\ b = lit_exec ++ exec_env df ++ wrapper i app ++ rest /\
                   (rest = [] \/ exists r', rest = 32 :: r').
Proof. exact process_line_exec. Qed.
Print Assumptions C27_exec_form.

(* as written to the installed file (after the ${SNAP} substitution) the line still starts with Exec=env and, as launched
   per the Desktop Entry specification (arguments split at spaces; a double-quoted argument is one word in which a
   backslash makes the next byte literal; %% is a literal percent; env skips NAME=VALUE words), the program that runs is
   the wrapper of one of the snap's apps — FOR EVERY installed desktop file name df (any bytes: spaces, quotes,
   backslashes, $, %, ${SNAP}, ...). This is the statement that was refuted before the repair 0f3f7c0 (quoteExecArg).
   Remaining guards, all on paths snapd itself builds from validated names: the wrapper paths contain no space, =, $,
   double quote or % (dirs.SnapBinariesDir + validated snap/instance/app names), and the mount directory is non-empty
   and contains no double quote, backslash or $ (it is substituted for ${SNAP}, possibly inside the quoted argument). *)
Theorem C27_exec_launches_wrapper : forall (i : dinfo) (df b : bytes),
  exec_form i df b ->
  mount_ok (d_mount i) = true ->
  (forall app, In app (d_apps i) -> forallb plain (wrapper i app) = true) ->
  exists app, In app (d_apps i) /\
    has_prefix (lit_exec ++ lit_env) (subst_snap (d_mount i) b) = true /\
    launched (subst_snap (d_mount i) b) = Some (wrapper i app).
Proof. exact exec_output_launches. Qed.
Print Assumptions C27_exec_launches_wrapper.

(* desktop files whose name contains a control character (a line break would add lines to the generated file) are
   skipped by deriveDesktopFilesContent and never reach the sanitizer *)
Theorem C27_control_names_skipped : forall (i : dinfo) (dir file content : bytes),
  has_control file = true -> derive_one i dir file content = None.
Proof. exact control_names_skipped. Qed.
Print Assumptions C27_control_names_skipped.

(* regression examples for the repaired finding: the name `a sh -c id x.desktop` is now one quoted word after env and the
   wrapper is launched; so is a name made of quotes, backslash, $, %, backquotes and ${SNAP} *)
Example C27_exec_filename_quoted :
  launched (hd [] (sanitize_lines bad_info bad_df [bad_content])) = Some (wrapper bad_info (hd [] (d_apps bad_info))).
Proof. vm_compute. reflexivity. Qed.

(* an Icon= line naming a path is kept only, unchanged, when the path starts with ${SNAP}/ and has no empty, . or ..
   segment (so after the substitution it lies inside the snap's mount directory) *)
Theorem C27_icon_inside_snap : forall (i : dinfo) (df line b : bytes),
  process_line i df line = Some b -> has_prefix lit_icon line = true ->
  existsb (N.eqb 47) (after_eq line) = true ->
  b = line /\ has_prefix lit_snapdir (after_eq line) = true /\ clean_same (after_eq line) = true.
Proof. exact process_line_icon. Qed.
Print Assumptions C27_icon_inside_snap.

(* every [Desktop Entry] line of the output is immediately followed by X-SnapInstanceName=<instance name> *)
Theorem C27_tagged : forall (i : dinfo) (df : bytes) (lines : list bytes),
  tagged_ok i (sanitize_lines i df lines) = true.
Proof. exact tagged. Qed.
Print Assumptions C27_tagged.

(* the allowlist of isValidDesktopFileLine in the source (regenerated) is the pinned specification list: blank lines,
   comments, [Desktop Entry] / [Desktop Action x] / [x Shortcut Group] headers and the 24 keys Type Version Name GenericName
   NoDisplay Comment Icon Hidden OnlyShowIn NotShowIn Exec Terminal Actions MimeType Categories Keywords StartupNotify
   StartupWMClass PrefersNonDefaultGPU SingleMainWindow X-Ayatana-Desktop-Shortcuts TargetEnvironment (Name, GenericName,
   Comment, Keywords with an optional [locale]) *)
Theorem C27_allowlist_pinned : DesktopRegexes.valid_line_alts = spec_line_alts.
Proof. exact allowlist_pinned. Qed.
Print Assumptions C27_allowlist_pinned.

(* non-vacuity: the guards of C27_exec_launches_wrapper hold for an ordinary snap, and an ordinary file is tagged *)
Example C27_example :
  info_ok bad_info = true /\ mount_ok (d_mount bad_info) = true /\ forallb plain (wrapper bad_info (hd [] (d_apps bad_info))) = true /\
  sanitize_lines bad_info [47; 120; 46; 100] [lit_desktop_entry] = [lit_desktop_entry; xsnap_line bad_info].
Proof. vm_compute. repeat split; reflexivity. Qed.
