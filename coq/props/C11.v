(* C11 — after every settled change the recorded snap state matches the system.
   Theorems only. Model: models/SnapSeq.v, invariant `wf` in proofs/SnapSeqProofs.v; tied to /repo by the differential run of
   harness/overlay/overlord/snapstate/zz_verif_c10_test.go; monitor SnapSeq.monitor11_fail evaluates the invariant on the
   state and backend log the real code leaves after EVERY settled change of every history (completed or failed and undone,
   all operation kinds).

   FULL STATEMENT: the invariant (current is kept, no revision kept twice, mounted = kept, linked revision = current
   exactly when active, a removed snap leaves nothing) holds after every sequence of install / refresh / revert / enable /
   disable / remove operations with and without injected failures, on several snaps.
   PROVED (C11_consistent_invariant): for EVERY history of operations on the snap — install, refresh (from the store or a local
   file, to a new or a kept revision), revert, enable, disable, remove, remove --revision, snap set, refresh inhibition,
   changes of refresh.retain — each of them completed, refused, or FAILED AT AN ARBITRARY TASK and undone, played from the
   empty state, the state after every step satisfies `wf`, which implies the C11 statement (C11_invariant_content).
   The recorded C10 classes (fail-after-discard, config-from-nothing) do not break the invariant: they are covered.
   The only side condition is refresh.retain >= 2, the range the configuration accepts (with retain 1 a failure after the
   discard of the old current revision would leave current not kept; configcore rejects such values).
   `step o k retain inuse s`: k = 0 the change runs to its end, k = S j its first j tasks complete, the next one fails,
   the j tasks are undone in reverse.  NOT covered: several snaps and the frame condition between them (the model and the
   driver play one snap); partial effects of the failing task itself (the failing task has no effect in the model; the
   handlers' own cleanup on error is not modelled). *)
From Coq Require Import List NArith ZArith Bool.
Import ListNotations.
Require Import V.models.SnapSeq V.proofs.SnapSeqProofs V.proofs.SnapSeqProofs2 V.proofs.SnapSeqProofs3 V.proofs.SnapSeqProofs4
               V.proofs.SnapSeqProofs5 V.proofs.SnapSeqProofs6 V.proofs.SnapSeqProofs7 V.proofs.SnapSeqProofs8 V.proofs.SnapSeqProofs9
               V.proofs.SnapSeqProofs10.
Open Scope N_scope.

Theorem C11_invariant_content : forall s : st, wf s ->
  NoDup (seq s) /\ (seq s <> [] -> In (cur s) (seq s)) /\ (forall x, In x (mounted s) <-> In x (seq s)) /\
  (active s = true -> link s = cur s) /\ (active s = false -> link s = 0) /\
  (seq s = [] -> active s = false /\ link s = 0 /\ cfg s = 0 /\ mounted s = [] /\ cur s = 0).
Proof. exact wf_consistent. Qed.
Print Assumptions C11_invariant_content.

Theorem C11_empty_wf : wf empty.
Proof. exact wf_empty. Qed.
Print Assumptions C11_empty_wf.

(* every operation that completes (k = 0) or is refused preserves the invariant *)
Theorem C11_completed_ops_preserve : forall (o : op) (retain : Z) (inuse : N -> bool) (s : st),
  wf s -> (2 <= retain)%Z -> wf (step o 0 retain inuse s).
Proof.
  intros o retain inuse s W R.
  apply (step_wf (mkH o 0 retain inuse) s W). split; [exact R|left; reflexivity].
Qed.
Print Assumptions C11_completed_ops_preserve.

(* a failed and undone refresh leaves a consistent state whatever the failure position *)
Theorem C11_failed_refresh_preserves : forall (s : st) (o : op) (j : nat) (retain : Z) (inuse : N -> bool),
  wf s -> okind o = ORefresh -> accepts o s = true -> (2 <= retain)%Z -> cfg_guard o s ->
  wf (run_change o (S j) (tasks_for o s retain inuse) s).
Proof. exact failed_refresh_wf. Qed.
Print Assumptions C11_failed_refresh_preserves.

(* any single step, whatever its kind and whatever its failure position *)
Theorem C11_every_step_preserves : forall (o : op) (k : nat) (retain : Z) (inuse : N -> bool) (s : st),
  wf s -> (2 <= retain)%Z -> wf (step o k retain inuse s).
Proof. exact step_wf_all. Qed.
Print Assumptions C11_every_step_preserves.

(* induction over histories: hplay plays a list of steps (operation, failure position, retain, in-use answer) *)
Theorem C11_consistent_invariant : forall (hs : list hstep),
  (forall h, In h hs -> (2 <= h_retain h)%Z) -> wf (hplay hs empty).
Proof. intros hs R. apply history_wf_all; [exact wf_empty|exact R]. Qed.
Print Assumptions C11_consistent_invariant.

(* handlers that fail midway and are retried.  doDiscardSnap is the handler that answers state.Retry (a failed
   RemoveSnapFiles) and is then run again from the top on whatever the first attempt left in the state.  Its effects in order
   (discard_plan: RemoveSnapFiles, DeleteSnapConfig for the last revision, DiscardRevisionConfig, and LAST the write of the
   trimmed record computed from the state read at the start) make up the handler (C11_discard_effects), and re-running it
   after a failure at any internal point reaches the same state as one undisturbed run.  The other handlers that change both
   the recorded state and the disk are given in the same ordered-effects form further below (unlink-current-snap, mount-snap
   and its undo, link-snap) with `failure after any effect + the handler's own cleanup = nothing happened`.  NOT in this
   form: undoLinkSnap (its configuration restore precedes the backend UnlinkSnap; a re-run is not proved idempotent here),
   doCopySnapData / its undo (data directories are not modelled; the driver injects a copy-data failure and finds the change
   undone), re-runs after a restart. *)
Theorem C11_discard_effects : forall (r : N) (s : st), discard_run r s (discard_plan r s) s = do_discard r s.
Proof. exact discard_plan_is_discard. Qed.
Print Assumptions C11_discard_effects.

Theorem C11_handlers_retry_idempotent : forall (r : N) (s : st) (i : nat),
  (i < length (discard_plan r s))%nat ->
  do_discard r (discard_run r s (firstn i (discard_plan r s)) s) = do_discard r s.
Proof. exact discard_retry_idempotent. Qed.
Print Assumptions C11_handlers_retry_idempotent.

(* why the write of the trimmed record has to come last: written before RemoveSnapFiles, a retry would start from ONE kept
   revision and take the last-revision shortcut: kept [1,2], discarding 1 — the snap is gone from the state while
   revision 2 is still mounted and linked *)
Example C11_retry_needs_set_last :
  let s := mkSt [1;2] 2 true 1 false false false false false 0 2 0 [] 5 [] [1;2] 2 in
  let early := apply_deffect 1 s s ESet in
  seq (do_discard 1 s) = [2] /\ seq (do_discard 1 early) = [] /\ mounted (do_discard 1 early) = [2] /\ link (do_discard 1 early) = 2.
Proof. exact retry_needs_set_last. Qed.

(* doUnlinkCurrentSnap = backend UnlinkSnap, then Set(Active=false); when UnlinkSnap fails (with or without having taken
   effect) restoreUnlinkOnError links the old revision again: nothing happened *)
Theorem C11_unlink_current_effects : forall s : st, run_effects uc_effects s = do_unlink_current s.
Proof. exact uc_effects_ok. Qed.
Print Assumptions C11_unlink_current_effects.

Theorem C11_unlink_current_failure_is_clean : forall (s : st) (i : nat), wf s -> active s = true -> (i <= 1)%nat ->
  uc_cleanup s (run_effects (firstn i uc_effects) s) = s.
Proof. exact uc_failure_cleanup. Qed.
Print Assumptions C11_unlink_current_failure_is_clean.

(* doMountSnap = backend SetupSnap; its error path undoes the setup: nothing happened.  undoMountSnap re-run = run once *)
Theorem C11_mount_failure_is_clean : forall (r : N) (s : st) (i : nat), wf s -> ~ In r (seq s) -> (i <= 1)%nat ->
  run_effects (mount_effects r) s = do_mount r s /\
  mount_cleanup r (run_effects (firstn i (mount_effects r)) s) = s.
Proof. intros r s i W NI L. split; [apply mount_effects_ok|apply mount_failure_cleanup; auto]. Qed.
Print Assumptions C11_mount_failure_is_clean.

Theorem C11_undo_mount_retry_idempotent : forall (r : N) (s : st) (i : nat), (i <= 1)%nat ->
  undo_mount r (run_effects (firstn i (undo_mount_effects r)) s) = undo_mount r s.
Proof. exact undo_mount_retry_idempotent. Qed.
Print Assumptions C11_undo_mount_retry_idempotent.

(* doLinkSnap = backend LinkSnap, SaveRevisionConfig, RestoreRevisionConfig (reverts), and LAST the Set of the new record.
   A failure after any of the first three effects runs the deferred UnlinkSnap: on a snap that was not linked (always the
   case when link-snap runs) every field is as before except the configuration bookkeeping (core = everything but config
   and revision-config: a snapshot saved, or on a revert a configuration restored, before the failure stays); when LinkSnap
   itself is what fails, nothing at all has changed *)
Theorem C11_link_effects : forall (o : op) (s : st), run_effects (link_effects o s) s = fst (do_link o s).
Proof. exact link_effects_ok. Qed.
Print Assumptions C11_link_effects.

Theorem C11_link_failure_is_clean : forall (o : op) (s : st) (i : nat), link s = 0 -> (i <= 3)%nat ->
  core (link_cleanup (run_effects (firstn i (link_effects o s)) s)) = core s /\
  ((i <= 1)%nat -> link_cleanup (run_effects (firstn i (link_effects o s)) s) = s).
Proof. exact link_failure_cleanup. Qed.
Print Assumptions C11_link_failure_is_clean.

(* non-vacuity: install 1, refresh to 2, refresh to 3 failing after the last task (revision 1 is already garbage-collected),
   refresh to 3, revert to 2, disable, remove --revision 2 (the current one): kept [3], current 3 *)
Example C11_history_example :
  let i := mkOp OInstall 1 false 1 false false false false false 0 false 0 1 true in
  let d := mkOp ODisable 0 false 0 false false false false false 0 false 0 6 true in
  let rr := mkOp ORemoveRev 2 false 0 false false false false false 0 false 0 7 true in
  let hs := [mkH i 0 2 no_inuse; mkH (mk_refresh 2 7 2) 0 2 no_inuse; mkH (mk_refresh 3 0 3) 40 2 no_inuse;
             mkH (mk_refresh 3 0 4) 0 2 no_inuse; mkH (mk_revert 2 true 5) 0 2 no_inuse; mkH d 0 2 no_inuse;
             mkH rr 0 2 no_inuse] in
  seq (hplay hs empty) = [3] /\ cur (hplay hs empty) = 3 /\ active (hplay hs empty) = false /\ mounted (hplay hs empty) = [3].
Proof. vm_compute. repeat split; reflexivity. Qed.
