(* C11 — after every settled change the recorded snap state matches the system.
   Theorems only. Model: models/SnapSeq.v, invariant `wf` in proofs/SnapSeqProofs.v; tied to /repo by the differential run of
   harness/overlay/overlord/snapstate/zz_verif_c10_test.go; monitor SnapSeq.monitor11_fail evaluates the invariant on the
   state and backend log the real code leaves after EVERY settled change of every history (completed or failed and undone,
   all operation kinds).

   FULL STATEMENT: the invariant (current is kept, no revision kept twice, mounted = kept, linked revision = current
   exactly when active, a removed snap leaves nothing) holds after every sequence of install / refresh / revert / enable /
   disable / remove operations with and without injected failures, on several snaps.
   PROVED: the invariant `wf` implies the C11 statement (C11_invariant_content); it holds of the empty state; EVERY
   completed or refused operation preserves it — install, refresh to a new and to a kept revision (link + garbage
   collection), revert, enable, disable, remove, remove --revision, snap set, refresh inhibition, retain changes
   (C11_completed_ops_preserve) — and so does every failed and undone install / revert, and every failed and undone refresh
   at ANY failure position (also after discards), outside the config-from-nothing class of C10; by induction over
   histories of such steps every reachable state is consistent (C11_consistent_invariant_partial).
   MISSING in Coq (monitored on the implementation only): failures inside remove / remove --revision / enable / disable,
   failed operations in the config-from-nothing class (they only differ in the configuration value, which the invariant
   does not constrain for an installed snap, but this is not proved), and the frame condition for other snaps (the driver
   plays one snap).  Side conditions of a step (`covered`): retain >= 2 (configuration accepts 2..20) and an enable carries
   the current revision in its snap-setup (Enable builds it from CurrentSideInfo). *)
From Coq Require Import List NArith ZArith Bool.
Import ListNotations.
Require Import V.models.SnapSeq V.proofs.SnapSeqProofs V.proofs.SnapSeqProofs2 V.proofs.SnapSeqProofs3 V.proofs.SnapSeqProofs4
               V.proofs.SnapSeqProofs5 V.proofs.SnapSeqProofs6 V.proofs.SnapSeqProofs7.
Open Scope N_scope.

Theorem C11_invariant_content : forall s : st, wf s ->
  NoDup (seq s) /\ (seq s <> [] -> In (cur s) (seq s)) /\ (forall x, In x (mounted s) <-> In x (seq s)) /\
  (active s = true -> link s = cur s) /\ (active s = false -> link s = 0) /\
  (seq s = [] -> active s = false /\ link s = 0 /\ cfg s = 0 /\ mounted s = [] /\ cur s = 0).
Proof. exact wf_consistent. Qed.
Print Assumptions C11_invariant_content.

Theorem C11_empty_wf : wf empty.
Proof. exact wf_empty. Qed.
Print Assumptions C11_empty_wf.

(* every operation that completes (k = 0) or is refused preserves the invariant *)
Theorem C11_completed_ops_preserve : forall (o : op) (retain : Z) (inuse : N -> bool) (s : st),
  wf s -> (2 <= retain)%Z -> (okind o = OEnable -> orev o = cur s) -> wf (step o 0 retain inuse s).
Proof.
  intros o retain inuse s W R EN.
  apply (step_wf (mkH o 0 retain inuse) s W). split; [exact R|split; [exact EN|left; reflexivity]].
Qed.
Print Assumptions C11_completed_ops_preserve.

(* a failed and undone refresh leaves a consistent state whatever the failure position *)
Theorem C11_failed_refresh_preserves : forall (s : st) (o : op) (j : nat) (retain : Z) (inuse : N -> bool),
  wf s -> okind o = ORefresh -> accepts o s = true -> (2 <= retain)%Z -> cfg_guard o s ->
  wf (run_change o (S j) (tasks_for o s retain inuse) s).
Proof. exact failed_refresh_wf. Qed.
Print Assumptions C11_failed_refresh_preserves.

(* induction over histories: hplay plays a list of steps (operation, failure position, retain, in-use answer);
   all_covered asks of each step, in the state it is taken from, the side conditions named above *)
Theorem C11_consistent_invariant_partial : forall (hs : list hstep), all_covered hs empty -> wf (hplay hs empty).
Proof. intros hs C. apply history_wf; [exact wf_empty|exact C]. Qed.
Print Assumptions C11_consistent_invariant_partial.

(* non-vacuity: install 1, refresh to 2, refresh to 3 failing after the last task (revision 1 is already garbage-collected),
   refresh to 3, revert to 2, disable, remove --revision 2 (the current one): kept [3], current 3 *)
Example C11_history_example :
  let i := mkOp OInstall 1 false 1 false false false false false 0 false 0 1 true in
  let d := mkOp ODisable 0 false 0 false false false false false 0 false 0 6 true in
  let rr := mkOp ORemoveRev 2 false 0 false false false false false 0 false 0 7 true in
  let hs := [mkH i 0 2 no_inuse; mkH (mk_refresh 2 7 2) 0 2 no_inuse; mkH (mk_refresh 3 0 3) 40 2 no_inuse;
             mkH (mk_refresh 3 0 4) 0 2 no_inuse; mkH (mk_revert 2 true 5) 0 2 no_inuse; mkH d 0 2 no_inuse;
             mkH rr 0 2 no_inuse] in
  seq (hplay hs empty) = [3] /\ cur (hplay hs empty) = 3 /\ active (hplay hs empty) = false /\ mounted (hplay hs empty) = [3].
Proof. vm_compute. repeat split; reflexivity. Qed.
