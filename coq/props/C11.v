(* C11 — after every settled change the recorded snap state matches the system.
   Theorems only. Model: models/SnapSeq.v, invariant `wf` in proofs/SnapSeqProofs.v; tied to /repo by the differential run of
   harness/overlay/overlord/snapstate/zz_verif_c10_test.go; monitor SnapSeq.monitor11_fail evaluates the invariant on the
   state and backend log the real code leaves after EVERY settled change of every history (completed or failed and undone,
   all operation kinds).

   FULL STATEMENT: the invariant (current is kept, no revision kept twice, mounted = kept, linked revision = current
   exactly when active, a removed snap leaves nothing) holds after every sequence of install / refresh / revert / enable /
   disable / remove operations with and without injected failures, on several snaps.
   PROVED (partial): the invariant `wf` implies the C11 statement (C11_invariant_content); it holds of the empty state;
   it is preserved by every refused operation, by every completed install, revert and disable, and by every failed and
   undone install / refresh / revert whose failure comes before the first completed discard-snap, outside the recorded
   classes of C10.  MISSING in Coq (monitored on the implementation only): completed refresh (link-snap followed by the
   discards), completed enable and remove, failures after a completed discard, failures inside remove / enable /
   disable, and the frame condition for other snaps (the driver plays one snap). *)
From Coq Require Import List NArith ZArith Bool.
Import ListNotations.
Require Import V.models.SnapSeq V.proofs.SnapSeqProofs V.proofs.SnapSeqProofs2.
Open Scope N_scope.

Theorem C11_invariant_content : forall s : st, wf s ->
  NoDup (seq s) /\ (seq s <> [] -> In (cur s) (seq s)) /\ (forall x, In x (mounted s) <-> In x (seq s)) /\
  (active s = true -> link s = cur s) /\ (active s = false -> link s = 0) /\
  (seq s = [] -> active s = false /\ link s = 0 /\ cfg s = 0 /\ mounted s = [] /\ cur s = 0).
Proof. exact wf_consistent. Qed.
Print Assumptions C11_invariant_content.

Theorem C11_empty_wf : wf empty.
Proof. exact wf_empty. Qed.
Print Assumptions C11_empty_wf.

Theorem C11_consistent_invariant_partial : forall (s : st) (o : op) (retain : Z) (inuse : N -> bool), wf s ->
  (* refused operations *)
  (forall k, accepts o s = false -> wf (step o k retain inuse s)) /\
  (* completed install, revert, disable *)
  (accepts o s = true -> (okind o = OInstall \/ okind o = ORevert \/ okind o = ODisable) ->
     wf (run_change o 0 (tasks_for o s retain inuse) s)) /\
  (* failed and undone install, refresh, revert *)
  (forall j, accepts o s = true -> (okind o = OInstall \/ okind o = ORefresh \/ okind o = ORevert) ->
     forallb (fun t => negb (is_discard t)) (firstn j (tasks_for o s retain inuse)) = true ->
     cfg_guard o s ->
     wf (run_change o (S j) (tasks_for o s retain inuse) s)).
Proof.
  intros s o retain inuse W. split; [|split].
  - intros k H. rewrite refused_unchanged; auto.
  - intros A [K|[K|K]]; [apply install_wf|apply revert_wf|apply disable_wf]; auto.
  - intros j A K ND CG. apply failed_op_wf; auto.
Qed.
Print Assumptions C11_consistent_invariant_partial.
