(* C18 — only correctly signed, currently valid assertions are accepted.
   This file holds the property theorems only: statement, `exact <lemma>`, Print Assumptions.
   Model: models/AssertCheck.v (asserts/database.go Check + DefaultCheckers, asserts/account_key.go).
   PARTIAL by construction: RSA / SHA / OpenPGP packet parsing are the parameter `verify`; every theorem holds for an
   arbitrary `verify`, and the mutation theorem under the explicit hypothesis that only genuinely produced
   (key, content, signature) triples verify. Assertion types without authority and CheckCrossConsistency are outside. *)
From Coq Require Import List NArith ZArith Bool String.
Import ListNotations.
Require Import V.lib.Bytes V.models.AssertCheck V.proofs.AssertCheckProofs.
Open Scope Z_scope.

(* Full statement of the first sentence of C18, for any clock bounds: an accepted assertion has a supported format and
   there is a key - the one in the FIRST layer (trusted, predefined, own backstore, stacked-on backstores, in this order)
   that holds its sign-key id - that belongs to the declared authority,
   passes the expiry check, is valid at the assertion's timestamp (if any), admits the assertion by its constraints, and
   `verify` holds for that key on exactly the assertion's content and signature core (the fields of the OpenPGP
   signature packet that verification reads: version, type, algorithms, hashed subpackets, hash tag, MPI bytes). *)
Theorem C18_accept_implies_partial : forall verify layers e l a, check verify layers e l a = true ->
  a_supported a = true /\
  exists k, find_key layers (a_sign_key a) = Some k /\
    (exists before ly after, layers = before ++ ly :: after /\ In k ly /\
       forall l', In l' before -> find (has_id (a_sign_key a)) l' = None) /\
    k_id k = a_sign_key a /\ k_account k = a_authority a /\
    valid_assuming k e l = true /\
    (forall t, a_timestamp a = Some t -> valid_at k t = true) /\
    can_sign k a = true /\
    verify (k_id k) (a_content a) (a_sig_core a) = true.
Proof. exact accept_implies. Qed.
Print Assumptions C18_accept_implies_partial.

(* with the system clock (no earliest-time override): the key is valid now, since <= now < until *)
Theorem C18_accept_now_partial : forall verify layers now a, check_now verify layers now a = true ->
  exists k, find_key layers (a_sign_key a) = Some k /\ k_account k = a_authority a /\
    k_since k <= now /\ (forall u, k_until k = Some u -> now < u) /\
    (forall t, a_timestamp a = Some t -> k_since k <= t /\ forall u, k_until k = Some u -> t < u) /\
    can_sign k a = true /\ verify (a_sign_key a) (a_content a) (a_sig_core a) = true.
Proof. exact accept_now_implies. Qed.
Print Assumptions C18_accept_now_partial.

(* What the three `_partial` theorems exclude, exactly:
   - C18_accept_implies_partial / C18_accept_now_partial: only the forward direction, and `verify` is a parameter (RSA,
     SHA-512 and OpenPGP packet parsing are not modelled). Everything else of Database.Check for assertion types with an
     authority is in the statement. The FULL characterisations of the model's `check` follow (C18_check_iff,
     C18_check_now_iff): iff, every layer list, every assertion, every clock, every verify.
   - C18_any_mutation_rejected_partial: needs the idealised-signature hypothesis and speaks about the signature CORE only; its
     sharpened form with the decoded signature's fields is C18_accepted_only_framing_differs /
     C18_mutation_outside_framing_rejected / C18_framing_is_free below.
   Outside ALL of them: assertion types without authority (account-key-request, serial-request, device-session-request),
   CheckCrossConsistency, regexps in account-key constraints beyond literals, the bytes -> packet-fields parse of the
   decoded signature (driver projection c18Parse/c18Core). *)

(* Database.Check accepts EXACTLY when: format supported; the first layer holding the sign-key id yields a key; its account
   is the assertion's authority-id; it passes the expiry check for the clock bounds; its constraints allow the assertion;
   verify holds for that key on exactly the assertion's content and signature core; it is valid at the assertion's
   timestamp when there is one. *)
Theorem C18_check_iff : forall verify layers e l a, check verify layers e l a = true <->
  a_supported a = true /\
  exists k, find_key layers (a_sign_key a) = Some k /\
    k_account k = a_authority a /\
    valid_assuming k e l = true /\
    can_sign k a = true /\
    verify (k_id k) (a_content a) (a_sig_core a) = true /\
    (forall t, a_timestamp a = Some t -> valid_at k t = true).
Proof. exact check_iff. Qed.
Print Assumptions C18_check_iff.

(* with the system clock, the window boundaries spelled out: since <= now < until and since <= timestamp < until *)
Theorem C18_check_now_iff : forall verify layers now a, check_now verify layers now a = true <->
  a_supported a = true /\
  exists k, find_key layers (a_sign_key a) = Some k /\
    k_account k = a_authority a /\
    k_since k <= now /\ (forall u, k_until k = Some u -> now < u) /\
    can_sign k a = true /\
    verify (k_id k) (a_content a) (a_sig_core a) = true /\
    (forall t, a_timestamp a = Some t -> k_since k <= t /\ forall u, k_until k = Some u -> t < u).
Proof. exact check_now_iff. Qed.
Print Assumptions C18_check_now_iff.

(* what `constraints admit` means: no constraints header at all, or one LISTED constraint all of whose header = value
   pairs hold *)
Theorem C18_can_sign_spec : forall k a, can_sign k a = true ->
  k_constraints k = None \/
  exists cs c, k_constraints k = Some cs /\ In c cs /\ forall h v, In (h, v) c -> assoc h (a_headers a) = Some v.
Proof. exact can_sign_spec. Qed.
Print Assumptions C18_can_sign_spec.

(* A key WITH a constraints header can only sign what one of its listed constraints matches: that constraint's type is
   the assertion's own type and its header matchers hold. For EVERY constraints list - entries naming assertion types this
   snapd does not know are compiled like any other (they match nothing it can hold) and are never dropped; a header whose
   entries all name other types, or that has no usable entry, lets the key sign nothing: that is not the unconstrained case
   (only a key WITHOUT the header is unconstrained). *)
Theorem C18_constrained_key_needs_listed_type : forall k a cs, k_constraints k = Some cs -> can_sign k a = true ->
  exists c, In c cs /\ (forall h v, In (h, v) c -> assoc h (a_headers a) = Some v) /\
            (forall t, assoc (bs "type") c = Some t -> assoc (bs "type") (a_headers a) = Some t).
Proof. exact constrained_key_needs_listed_type. Qed.
Print Assumptions C18_constrained_key_needs_listed_type.

Theorem C18_foreign_type_constraints_sign_nothing : forall k a cs t,
  k_constraints k = Some cs -> assoc (bs "type") (a_headers a) = Some t ->
  (forall c, In c cs -> exists t', assoc (bs "type") c = Some t' /\ t' <> t) -> can_sign k a = false.
Proof. exact foreign_type_constraints_sign_nothing. Qed.
Print Assumptions C18_foreign_type_constraints_sign_nothing.

Theorem C18_empty_constraints_sign_nothing : forall k a, k_constraints k = Some [] -> can_sign k a = false.
Proof. exact empty_constraints_sign_nothing. Qed.
Print Assumptions C18_empty_constraints_sign_nothing.

(* the validity window: since inclusive, until exclusive; no until = never expires *)
Theorem C18_validity_window : forall k t,
  valid_at k t = true <-> k_since k <= t /\ match k_until k with Some u => t < u | None => True end.
Proof. exact valid_at_iff. Qed.
Print Assumptions C18_validity_window.

Theorem C18_window_boundaries : forall k u, k_until k = Some u -> k_since k < u ->
  valid_at k (k_since k) = true /\ valid_at k (k_since k - 1) = false /\
  valid_at k (u - 1) = true /\ valid_at k u = false.
Proof. exact window_boundaries. Qed.
Print Assumptions C18_window_boundaries.

(* the expiry check with the real clock is validity at now; with only a lower bound on the clock (SetEarliestTime) a key
   is refused exactly when its until is not after that bound (a not-yet-valid key cannot be told) *)
Theorem C18_expiry_check_now : forall k now, valid_assuming k now (Some now) = valid_at k now.
Proof. exact valid_assuming_now. Qed.
Print Assumptions C18_expiry_check_now.

Theorem C18_expiry_check_earliest : forall k e,
  valid_assuming k e None = true <-> match k_until k with Some u => e < u | None => True end.
Proof. exact valid_assuming_earliest. Qed.
Print Assumptions C18_expiry_check_earliest.

(* refusals by cause *)
Theorem C18_unknown_key_rejected : forall verify layers e l a,
  find_key layers (a_sign_key a) = None -> check verify layers e l a = false.
Proof. exact unknown_key_rejected. Qed.
Print Assumptions C18_unknown_key_rejected.

Theorem C18_other_authority_rejected : forall verify layers e l a k, find_key layers (a_sign_key a) = Some k ->
  k_account k <> a_authority a -> check verify layers e l a = false.
Proof. exact other_authority_rejected. Qed.
Print Assumptions C18_other_authority_rejected.

Theorem C18_expired_rejected : forall verify layers now a k u, find_key layers (a_sign_key a) = Some k ->
  k_until k = Some u -> u <= now -> check_now verify layers now a = false.
Proof. exact expired_rejected. Qed.
Print Assumptions C18_expired_rejected.

Theorem C18_not_yet_valid_rejected : forall verify layers now a k, find_key layers (a_sign_key a) = Some k ->
  now < k_since k -> check_now verify layers now a = false.
Proof. exact not_yet_valid_rejected. Qed.
Print Assumptions C18_not_yet_valid_rejected.

(* The FIRST layer that holds the key id decides - layer order: trusted, predefined, the database's own backstore, then
   the backstores it is stacked on (WithStackedBackstore). Whatever later layers hold (an older, still valid revision of
   the same account-key; nothing) the same key is used, and the verdict of Check is the same. So a newer revision that
   expires, re-scopes or constrains a key cannot be bypassed through an older revision left in a later layer. *)
Theorem C18_first_layer_decides : forall before l after after' kid k,
  (forall l', In l' before -> find (has_id kid) l' = None) -> find (has_id kid) l = Some k ->
  find_key (before ++ l :: after) kid = Some k /\ find_key (before ++ l :: after') kid = Some k.
Proof. exact first_layer_decides. Qed.
Print Assumptions C18_first_layer_decides.

Theorem C18_later_layers_ignored : forall verify before ly after after' e l a k,
  (forall l', In l' before -> find (has_id (a_sign_key a)) l' = None) -> find (has_id (a_sign_key a)) ly = Some k ->
  check verify (before ++ ly :: after) e l a = check verify (before ++ ly :: after') e l a.
Proof. exact later_layers_ignored. Qed.
Print Assumptions C18_later_layers_ignored.

(* special case: a trusted key shadows every other layer *)
Theorem C18_trusted_first : forall tr rest rest' kid k, find (has_id kid) tr = Some k ->
  find_key (tr :: rest) kid = Some k /\ find_key (tr :: rest') kid = Some k.
Proof. exact trusted_first. Qed.
Print Assumptions C18_trusted_first.

(* Second sentence of C18 - PARTIAL (idealised signature). If only the triples in G (everything the private keys ever
   produced) verify, then every assertion whose (sign key, content, decoded signature) is not in G is rejected, whatever
   the keys and the clock: any change of a byte of the content or of the decoded signature of a genuine assertion is
   rejected unless the result is another genuine assertion (content and signature CORE; see the refutation below for
   the rest of the decoded signature). What is missing for the full statement: that RSA/SHA-512
   signatures in OpenPGP packets satisfy the hypothesis (they are an oracle here; the driver checks the conclusion on
   the real code for byte and structural mutations). *)
Theorem C18_any_mutation_rejected_partial : forall verify (G : list (bytes * bytes * bytes)),
  (forall kid c s, verify kid c s = true -> In (kid, c, s) G) ->
  forall layers e l a, ~ In (a_sign_key a, a_content a, a_sig_core a) G -> check verify layers e l a = false.
Proof. exact mutation_rejected_gen. Qed.
Print Assumptions C18_any_mutation_rejected_partial.

(* The full second sentence (`changing the decoded signature makes the assertion be rejected`) is FALSE of the faithful
   model and of the real code: bytes of the decoded signature outside the signature core can be changed freely - the
   unhashed subpacket area (KNOWN_FINDINGS key sig-unhashed-subpacket), the MPI bit-length field (sig-mpi-bitlength, reached
   by flipping ONE bit of one base64 character), a packet length that overstates the body (sig-packet-length) and the
   packet header form (sig-packet-header-form). The driver produces one of each from a genuine signature on every run
   and the real Database.Check / Add accept them. *)
Theorem C18_decoded_signature_mutation_refuted : exists verify layers now a a',
  a_sig a' <> a_sig a /\ a_content a' = a_content a /\
  check_now verify layers now a = true /\ check_now verify layers now a' = true.
Proof.
  exists (ideal_verify (bs "KEYID", bs "content", bs "core")), [[]; [mkKey (bs "KEYID") (bs "brand") 100 (Some 200) None]], 150,
    (mkA true (bs "brand") (bs "KEYID") None [] (bs "content") (bs "sig") (bs "core")),
    (mkA true (bs "brand") (bs "KEYID") None [] (bs "content") (bs "sig+unhashed") (bs "core")).
  repeat split. discriminate.
Qed.
Print Assumptions C18_decoded_signature_mutation_refuted.

Theorem C18_sig_outside_core_ignored : forall verify layers e l a s',
  check verify layers e l (mkA (a_supported a) (a_authority a) (a_sign_key a) (a_timestamp a) (a_headers a) (a_content a) s' (a_sig_core a))
  = check verify layers e l a.
Proof. exact sig_outside_core_ignored. Qed.
Print Assumptions C18_sig_outside_core_ignored.

(* The mutation statement with the decoded signature's fields. A decoded signature is an OpenPGP v4 signature packet
   p : sigpkt (sig_bytes p = the decoded bytes): packet header (form and declared length), hashed part (version, type,
   algorithms, hashed subpackets), unhashed subpacket area, hash tag, MPI bit-length field, MPI bytes. Its VALUE
   (sig_value) is (hashed part, hash tag, MPI bytes); the core the driver computes is an injective encoding of the value.
   Hypothesis: verify is a function of (key, content, signature value) and only genuinely signed triples verify.
   Then whatever Check accepts has the content and the signature VALUE of something genuinely signed with the named key: of
   the decoded signature only the four framing fields can differ - header form (sig-packet-header-form) and declared length
   (sig-packet-length), both in sp_header; the unhashed area (sig-unhashed-subpacket); the MPI bit-length field
   (sig-mpi-bitlength). *)
Theorem C18_accepted_only_framing_differs : forall verify (enc : bytes * bytes * bytes -> bytes),
  (forall x y, enc x = enc y -> x = y) ->
  forall G : list (bytes * bytes * sigpkt),
  (forall kid c s, verify kid c s = true -> exists p0, In (kid, c, p0) G /\ s = enc (sig_value p0)) ->
  forall layers e l a p, a_sig a = sig_bytes p -> a_sig_core a = enc (sig_value p) ->
  check verify layers e l a = true ->
  exists p0, In (a_sign_key a, a_content a, p0) G /\ same_value p p0.
Proof. exact accepted_only_framing_differs. Qed.
Print Assumptions C18_accepted_only_framing_differs.

(* as a rejection statement: changing any byte of the content, or any byte of the decoded signature outside the framing
   fields (in the hashed part, the hash tag or the MPI bytes), is rejected - unless the result has the content and value of
   something else genuinely signed with that key *)
Theorem C18_mutation_outside_framing_rejected : forall verify (enc : bytes * bytes * bytes -> bytes),
  (forall x y, enc x = enc y -> x = y) ->
  forall G : list (bytes * bytes * sigpkt),
  (forall kid c s, verify kid c s = true -> exists p0, In (kid, c, p0) G /\ s = enc (sig_value p0)) ->
  forall layers e l a p, a_sig a = sig_bytes p -> a_sig_core a = enc (sig_value p) ->
  (forall p0, In (a_sign_key a, a_content a, p0) G -> ~ same_value p p0) ->
  check verify layers e l a = false.
Proof. exact mutation_outside_framing_rejected. Qed.
Print Assumptions C18_mutation_outside_framing_rejected.

(* and the framing fields ARE free (the four known finding classes are exactly this freedom): assertions that differ only
   in packet header, unhashed area and MPI bit-length field of the decoded signature get the same verdict, for any verify *)
Theorem C18_framing_is_free : forall verify (enc : bytes * bytes * bytes -> bytes) layers e l a a' p p',
  a_sig_core a = enc (sig_value p) -> a_sig_core a' = enc (sig_value p') -> same_value p p' ->
  a_supported a' = a_supported a -> a_authority a' = a_authority a -> a_sign_key a' = a_sign_key a ->
  a_timestamp a' = a_timestamp a -> a_headers a' = a_headers a -> a_content a' = a_content a ->
  check verify layers e l a' = check verify layers e l a.
Proof. exact framing_is_free. Qed.
Print Assumptions C18_framing_is_free.

(* non-vacuity of the framing statements: two packets with the same value and different framing have different bytes *)
Example C18_ex_framing :
  let p0 := mkSig [194; 112]%N [4; 0; 1; 10; 0; 0]%N [] [7; 9]%N [2; 240]%N [5; 6]%N in
  let p1 := mkSig [137; 0; 112]%N [4; 0; 1; 10; 0; 0]%N [3; 100; 170; 187]%N [7; 9]%N [2; 236]%N [5; 6]%N in
  same_value p1 p0 /\ sig_bytes p1 <> sig_bytes p0.
Proof. cbv zeta. split; [repeat split | discriminate]. Qed.

(* the verify instance used by the correspondence satisfies that hypothesis for G = [the genuine triple] *)
Theorem C18_ideal_instance : forall signed kid c s, ideal_verify signed kid c s = true -> In (kid, c, s) [signed].
Proof. exact ideal_verify_ideal. Qed.
Print Assumptions C18_ideal_instance.

(* ------------------------------------------------------------------ non-vacuity *)
Definition ex_key := mkKey (bs "KEYID") (bs "brand") 100 (Some 200) (Some [[(bs "type", bs "model"); (bs "model", bs "m1")]]).
Definition ex_a := mkA true (bs "brand") (bs "KEYID") (Some 150) [(bs "type", bs "model"); (bs "model", bs "m1")]
                       (bs "content") (bs "sig") (bs "sig").
Definition ex_signed := (bs "KEYID", bs "content", bs "sig").
Example C18_ex_accepted : check_now (ideal_verify ex_signed) [[]; [ex_key]] 199 ex_a = true.
Proof. reflexivity. Qed.
Example C18_ex_expired : check_now (ideal_verify ex_signed) [[]; [ex_key]] 200 ex_a = false.
Proof. reflexivity. Qed.
Example C18_ex_mutated : check_now (ideal_verify ex_signed) [[]; [ex_key]] 199
  (mkA true (bs "brand") (bs "KEYID") (Some 150) [(bs "type", bs "model"); (bs "model", bs "m1")] (bs "contenT") (bs "sig") (bs "sig")) = false.
Proof. reflexivity. Qed.
(* a newer, expired revision of the key in the trusted layer wins over the older valid revision still stored *)
Definition ex_key_expired := mkKey (bs "KEYID") (bs "brand") 100 (Some 120) None.
Example C18_ex_layers : check_now (ideal_verify ex_signed) [[ex_key_expired]; []; [ex_key]] 199 ex_a = false /\
                        check_now (ideal_verify ex_signed) [[]; []; [ex_key]] 199 ex_a = true.
Proof. split; reflexivity. Qed.
(* a key whose only constraint names a type unknown to this snapd signs nothing; without the header it signs *)
Definition ex_key_future := mkKey (bs "KEYID") (bs "brand") 100 (Some 200) (Some [[(bs "type", bs "future-assertion-type")]]).
Definition ex_key_free := mkKey (bs "KEYID") (bs "brand") 100 (Some 200) None.
Example C18_ex_unknown_type : check_now (ideal_verify ex_signed) [[]; [ex_key_future]] 199 ex_a = false /\
                              check_now (ideal_verify ex_signed) [[]; [ex_key_free]] 199 ex_a = true.
Proof. split; reflexivity. Qed.
Example C18_ex_constraint : check_now (ideal_verify ex_signed) [[]; [ex_key]] 199
  (mkA true (bs "brand") (bs "KEYID") (Some 150) [(bs "type", bs "model"); (bs "model", bs "m2")] (bs "content") (bs "sig") (bs "sig")) = false.
Proof. reflexivity. Qed.
