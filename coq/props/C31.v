(* C31 -- a downloaded snap is only kept if its digest matches.
   This file holds the property theorems only: statement, `exact <lemma>`, Print Assumptions.
   Model: models/Download.v (store/store_download.go: Store.Download and downloadImpl, function by function, as they are
   since commit adc145b; SHA3-384 is ideal, i.e. `digest matches` is equality of contents; the server is an arbitrary
   script of per-request behaviours).
   Every theorem is for EVERY server script, EVERY retry budget, EVERY pre-existing partial file (empty, correct prefix,
   wrong prefix, over-long) and EVERY declared size -- including size 0 (undeclared) and a size that is inconsistent with
   the content: no hypothesis on the size is needed any more. *)
From Coq Require Import List NArith Bool.
Import ListNotations.
Require Import V.lib.Bytes V.models.Download V.proofs.DownloadProofs.
Open Scope N_scope.

(* THE PROPERTY, first half: if Download reports success, the file at the target path is exactly the content whose
   digest was declared -- whatever the server did (dropped connections, ignored or honoured Range, 206 whatever was
   asked, corrupted / truncated / over-long bodies, redirects, 5xx, garbage) and whatever partial file was there *)
Theorem C31_target_only_if_match : forall size expected partial leave attempts script,
  o_err (download size expected partial leave attempts script) = ENone ->
  o_target (download size expected partial leave attempts script) = Some expected.
Proof. exact target_only_if_match. Qed.
Print Assumptions C31_target_only_if_match.

(* THE PROPERTY, second half: on any failure no target exists (it is only ever produced by the final rename), and a
   target implies a nil error *)
Theorem C31_failure_leaves_no_target : forall size expected partial leave attempts script,
  o_target (download size expected partial leave attempts script) = None <->
  o_err (download size expected partial leave attempts script) <> ENone.
Proof. exact (failure_leaves_no_target true). Qed.
Print Assumptions C31_failure_leaves_no_target.

(* loop invariant of downloadImpl (with or without the truncation): whatever the server did, the error is nil only if the
   bytes of the file below the write position are the expected content (the running hash is the hash of file[0..pos));
   pos never passes the end. Preconditions = what Store.Download establishes: the position is inside the file and is 0
   when resume is 0. *)
Theorem C31_hash_tracks_file : forall trunc r script expected f pos resume e f' p' rest,
  (pos <= length f)%nat -> (resume = 0%nat -> pos = 0%nat) ->
  dl_loop trunc r script expected f pos resume = (e, f', p', rest) ->
  (p' <= length f')%nat /\ (e = ENone -> firstn p' f' = expected).
Proof. exact hash_tracks_file. Qed.
Print Assumptions C31_hash_tracks_file.

(* second invariant, specific to the code as it is now: since the file is truncated whenever the write position is
   reset, every write is an append and the write position is always the end of the file *)
Theorem C31_position_is_end_of_file : forall r script expected f resume e f' p' rest,
  dl_loop true r script expected f (length f) resume = (e, f', p', rest) -> p' = length f'.
Proof. exact fixed_appends_only. Qed.
Print Assumptions C31_position_is_end_of_file.

(* an accepted file is the expected content, so it has its size (the declared size whenever that is consistent with the
   digest), and no byte of a pre-existing partial file from another revision / URL survives in it *)
Theorem C31_accepted_size_matches : forall size expected partial leave attempts script t,
  o_err (download size expected partial leave attempts script) = ENone ->
  o_target (download size expected partial leave attempts script) = Some t ->
  t = expected /\ length t = length expected /\ (N.of_nat (length expected) = size -> N.of_nat (length t) = size).
Proof. exact accepted_size_matches. Qed.
Print Assumptions C31_accepted_size_matches.

(* DELTAS (downloadAndApplyDelta / applyDeltaImpl + fallback to the full download), for every server script (shared by
   the delta and the full download), every partial file, and EVERY behaviour of xdelta3 (fails, writes any bytes into
   targetPath.partial, exits 0 without output), wrong format, missing base snap: success => the target is exactly the
   expected content; failure => no target *)
Theorem C31_delta_target_only_if_match : forall size expected partial leave attempts d script,
  outcome_ok expected (download_delta size expected partial leave attempts d script).
Proof. exact delta_target_only_if_match. Qed.
Print Assumptions C31_delta_target_only_if_match.

(* DOWNLOAD CACHE, any number of calls on one Store for the same digest, each to its own FREE target path, starting
   from a cache that is empty or holds the right content: every successful call (real download or cache hit) leaves
   exactly the expected content, every failing call leaves no target, and the cache never holds anything else.
   Guards: the target paths are free and nobody modifies the cache file -- a hit verifies nothing (next theorem). *)
Theorem C31_cache_sequence_only_if_match : forall ks cache size expected attempts,
  cache_ok expected cache -> Forall (fun k => k_pre k = None) ks ->
  Forall (outcome_ok expected) (fst (download_seq cache size expected attempts ks)) /\
  cache_ok expected (snd (download_seq cache size expected attempts ks)).
Proof. exact cache_sequence_only_if_match. Qed.
Print Assumptions C31_cache_sequence_only_if_match.

(* why the guards are there (both confirmed on the real code, both outside the property's quantifier): CacheManager.Get
   treats EEXIST from os.Link as a hit, so a file already at the target path is kept and reported as success; and the
   cached file is not hashed again, so a modified cache file is handed out *)
Theorem C31_cache_hit_verifies_nothing_refuted : exists expected garbage size attempts,
  garbage <> expected /\
  (let o := fst (download_c (Some expected) size expected attempts
                   {| k_pre := Some garbage; k_partial := None; k_leave := false; k_script := [] |}) in
   o_err o = ENone /\ o_target o = Some garbage) /\
  (let o := fst (download_c (Some garbage) size expected attempts
                   {| k_pre := None; k_partial := None; k_leave := false; k_script := [] |}) in
   o_err o = ENone /\ o_target o = Some garbage).
Proof. exact cache_hit_verifies_nothing. Qed.
Print Assumptions C31_cache_hit_verifies_nothing_refuted.

(* HISTORICAL, about the code BEFORE commit adc145b (download_before_fix: seek to 0 without truncation when the server
   ignored Range). The full statement was false of it, with a declared and consistent size: finding `stale-tail`,
   repaired in /repo, recorded `fixed:` in KNOWN_FINDINGS. The two inputs stay in the driver as regression cases 7 and 8
   (size 4: 8 wrong bytes then lost connection, then 200 with the right 4 bytes; size 0: over-long partial, 200). *)
Theorem C31_before_fix_refuted : exists size expected partial leave attempts script,
  0 < size /\ N.of_nat (length expected) = size /\
  o_err (download_before_fix size expected partial leave attempts script) = ENone /\
  o_target (download_before_fix size expected partial leave attempts script) <> Some expected.
Proof. exact before_fix_refuted. Qed.
Print Assumptions C31_before_fix_refuted.

(* ---- non-vacuity: the hypotheses are met by runs that do succeed / fail in interesting ways *)
Definition abcd : bytes := [97;98;99;100].
Definition xs8 : bytes := [88;88;88;88;88;88;88;88].
Definition honest : beh := Resp 200 true abcd Full.

(* resume of a correct prefix after a lost connection and a dropped one: success, target = content *)
Example C31_ex_resume :
  download 4 abcd [97] false 3 [Resp 200 true abcd (EarlyClose 1); Drop; honest]
  = {| o_err := ENone; o_target := Some abcd; o_partial := None |}.
Proof. vm_compute. reflexivity. Qed.

(* wrong partial prefix: the hash error is met once, the file is truncated and the second download succeeds *)
Example C31_ex_hash_retry :
  download 4 abcd [97;88] false 3 [honest; honest] = {| o_err := ENone; o_target := Some abcd; o_partial := None |}.
Proof. vm_compute. reflexivity. Qed.

(* corrupted body twice: hash error, no target; the partial file is kept only if asked for *)
Example C31_ex_hash_fail :
  let bad := Resp 200 true [97;98;99;88] Full in
  download 4 abcd [] true 3 [bad; bad] = {| o_err := EHash; o_target := None; o_partial := Some [97;98;99;88] |} /\
  download 4 abcd [] false 3 [bad; bad] = {| o_err := EHash; o_target := None; o_partial := None |}.
Proof. vm_compute. split; reflexivity. Qed.

(* the two former counterexamples (driver cases 7 and 8): stale tail before the fix, exact content now; the size-0
   corner (undeclared size, over-long partial, server ignoring Range) needs no guard any more *)
Example C31_ex_regression :
  o_target (download_before_fix 4 abcd [] false 3 refute_script) = Some (abcd ++ [88;88;88;88]) /\
  o_target (download 4 abcd [] false 3 refute_script) = Some abcd /\
  o_target (download_before_fix 0 abcd xs8 false 3 [Resp 200 false abcd Full]) = Some (abcd ++ [88;88;88;88]) /\
  o_target (download 0 abcd xs8 false 3 [Resp 200 false abcd Full]) = Some abcd.
Proof. vm_compute. repeat split; reflexivity. Qed.

(* deltas: xdelta3 writes the right content -> accepted without a full download; writes wrong bytes -> removed, full
   download from the rest of the script; delta download fails -> the pre-existing partial file is resumed *)
Example C31_ex_delta :
  let d x := {| d_format_ok := true; d_from_present := true; d_content := [1;2]; d_x := x |} in
  let dsrv := Resp 200 true [1;2] Full in
  download_delta 4 abcd None false 3 (d (XWrite abcd)) [dsrv] = {| o_err := ENone; o_target := Some abcd; o_partial := None |} /\
  download_delta 4 abcd None false 3 (d (XWrite [88;88])) [dsrv; honest] = {| o_err := ENone; o_target := Some abcd; o_partial := None |} /\
  download_delta 4 abcd None false 3 (d (XWrite [88;88])) [dsrv] = {| o_err := EOther; o_target := None; o_partial := None |} /\
  download_delta 4 abcd (Some [97;98]) false 1 (d XFail) [Resp 200 true [9;9] Full; honest]
    = {| o_err := ENone; o_target := Some abcd; o_partial := None |}.
Proof. vm_compute. repeat split; reflexivity. Qed.

(* cache: failure, then success (fills the cache), then a hit that needs no server at all *)
Example C31_ex_cache_sequence :
  let k s := {| k_pre := None; k_partial := None; k_leave := false; k_script := s |} in
  download_seq None 4 abcd 1 [k [Drop]; k [honest]; k []]
  = ([{| o_err := EOther; o_target := None; o_partial := None |};
      {| o_err := ENone; o_target := Some abcd; o_partial := None |};
      {| o_err := ENone; o_target := Some abcd; o_partial := None |}], Some abcd).
Proof. vm_compute. reflexivity. Qed.
